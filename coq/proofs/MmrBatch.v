(* MmrBatch.v - the two batch-mutation routines (shared map `new_ap_digests`): invariant of the map while
   the mutations are processed one after the other, then the update of the tracked proofs. *)
From Coq Require Import ZArith List Bool Lia.
From TF Require Import Word MmrIdxLocal Mmr MmrSpec MmrBits MmrNodes MmrProofs MmrPaths MmrUpdates.
Import ListNotations.
Open Scope Z_scope.
Ltac Zify.zify_post_hook ::= Z.div_mod_to_equations.

Lemma upd_nat_comm {A : Type} : forall (l : list A) a b x y, a <> b ->
  upd_nat (upd_nat l a x) b y = upd_nat (upd_nat l b y) a x.
Proof.
  induction l as [|z l IH]; intros a b x y Hne; [reflexivity|].
  destruct a as [|a], b as [|b]; cbn [upd_nat]; try reflexivity; [contradiction|].
  rewrite IH by lia. reflexivity.
Qed.

Lemma distinctb_NoDup l : distinctb l = true <-> NoDup l.
Proof.
  induction l as [|x l IH]; [split; [constructor|reflexivity]|].
  cbn [distinctb]. rewrite andb_true_iff, IH, negb_true_iff. split.
  - intros [Hx Hn]. constructor; [|exact Hn]. intros Hin.
    assert (existsb (Z.eqb x) l = true) by (apply existsb_exists; exists x; split; [exact Hin|apply Z.eqb_refl]). congruence.
  - intros Hn. inversion Hn as [|? ? Hx Hn']; subst. split; [|exact Hn'].
    destruct (existsb (Z.eqb x) l) eqn:E; [|reflexivity].
    apply existsb_exists in E. destruct E as (y & Hin & Ey). apply Z.eqb_eq in Ey. subst. contradiction.
Qed.

Lemma zdedup_repeat p : forall k md', (forall x, In x md' -> p < x) ->
  zdedup (repeat p (S k) ++ md') = p :: zdedup md'.
Proof.
  induction k as [|k IH]; intros md' Hgt.
  - cbn [repeat app]. destruct md' as [|y md']; [reflexivity|]. cbn [zdedup].
    destruct (Z.eqb_spec p y) as [E|_]; [|reflexivity]. pose proof (Hgt y ltac:(left; reflexivity)). lia.
  - change (repeat p (S (S k)) ++ md') with (p :: (p :: repeat p k ++ md')).
    cbn [zdedup]. rewrite Z.eqb_refl. apply (IH md' Hgt).
Qed.

Transparent hgt.
Lemma hgt_unfold n i : hgt n i = Z.to_nat (snd (fst (locate n i))).
Proof. reflexivity. Qed.
Opaque hgt.

Transparent locate.
Lemma locate_block64 n i : 0 <= i < n -> n < 2 ^ 64 ->
  let '(pk, h, j) := locate n i in (i / 2 ^ h + 1) * 2 ^ h <= n /\ j = i mod 2 ^ h.
Proof. intros Hi Hn. exact (locate_block unit (fun _ _ => tt) tt 64 n i Hi Hn). Qed.
Opaque locate.

Lemma distinctb_move x : forall xs ys, distinctb (x :: xs ++ ys) = true -> distinctb (xs ++ x :: ys) = true.
Proof.
  induction xs as [|y xs IH]; intros ys Hd; [exact Hd|].
  cbn [app distinctb existsb] in *.
  apply andb_true_iff in Hd. destruct Hd as [Hx Hd]. apply andb_true_iff in Hd. destruct Hd as [Hy Hd].
  apply negb_true_iff in Hx. apply orb_false_iff in Hx. destruct Hx as [Hxy Hx].
  apply andb_true_iff. split.
  - apply negb_true_iff. apply negb_true_iff in Hy. rewrite existsb_app in *. cbn [existsb].
    apply orb_false_iff in Hy. destruct Hy as [Hy1 Hy2].
    rewrite Hy1, Hy2. rewrite Z.eqb_sym, Hxy. reflexivity.
  - apply IH. cbn [distinctb]. rewrite Hx, Hd. reflexivity.
Qed.

Section Batch.
Variable D : Type.
Variable H : D -> D -> D.
Variable deq : D -> D -> bool.
Variable dflt : D.
Hypothesis deq_spec : forall x y, deq x y = true <-> x = y.
Variable ls0 : list D.
Hypothesis Hl0 : zlength ls0 < 2 ^ 63.

Notation n := (zlength ls0).
Notation br := (broot D H dflt).

(* the list after the mutations processed so far (most recent first) *)
Fixpoint cur (done : list (Z * D)) : list D :=
  match done with [] => ls0 | m :: r => upd (cur r) (fst m) (snd m) end.

Lemma zlength_cur done : zlength (cur done) = n.
Proof. induction done as [|m r IH]; [reflexivity|]. cbn [cur]. rewrite zlength_upd. exact IH. Qed.

Lemma br_cur_out done a t : 0 <= a -> Forall (fun m => 0 <= fst m) done ->
  (forall m, In m done -> fst m / 2 ^ Z.of_nat t <> a) -> br (cur done) a t = br ls0 a t.
Proof.
  intros Ha. induction done as [|m r IH]; intros Hnn Hout; [reflexivity|].
  cbn [cur]. rewrite broot_upd_out; [| exact Ha | exact (Forall_inv Hnn) | apply Hout; left; reflexivity].
  apply IH; [exact (Forall_inv_tail Hnn)|]. intros m' Hin. apply Hout. right. exact Hin.
Qed.

(* node (a, t) is an ancestor, strictly below the peak (or the leaf itself), of a processed leaf *)
Definition coveredb (done : list (Z * D)) (a : Z) (t : nat) : bool :=
  existsb (fun m => (a =? fst m / 2 ^ Z.of_nat t) && (t <=? hgt n (fst m) - 1)%nat) done.

Lemma coveredb_true done a t : coveredb done a t = true <->
  exists m, In m done /\ a = fst m / 2 ^ Z.of_nat t /\ (t <= hgt n (fst m) - 1)%nat.
Proof.
  unfold coveredb. rewrite existsb_exists. split; intros (m & Hin & Hm); exists m; split; try exact Hin.
  - apply andb_true_iff in Hm. destruct Hm as [E1 E2]. apply Z.eqb_eq in E1. apply Nat.leb_le in E2. auto.
  - destruct Hm as [E1 E2]. apply andb_true_iff. split; [apply Z.eqb_eq; exact E1|apply Nat.leb_le; exact E2].
Qed.

(* the map binds exactly the covered nodes, each to its value in the current list *)
Definition binv (m : dmap D) (done : list (Z * D)) : Prop :=
  forall a t, okb a t ->
    dget D m (bidx a (Z.of_nat t)) = if coveredb done a t then Some (br (cur done) a t) else None.

Lemma binv_nil : binv [] [].
Proof. intros a t _. reflexivity. Qed.

Definition inrange (done : list (Z * D)) : Prop := Forall (fun m => 0 <= fst m < n) done.

Lemma inrange_nonneg done : inrange done -> Forall (fun m => 0 <= fst m) done.
Proof. unfold inrange. apply Forall_impl. intros m Hm. lia. Qed.

Lemma n64 : n < 2 ^ 64.
Proof. change (2 ^ 63) with 9223372036854775808 in Hl0. change (2 ^ 64) with 18446744073709551616. lia. Qed.

Lemma hgt_okb j : 0 <= j < n -> okb (j / 2 ^ Z.of_nat (hgt n j)) (hgt n j).
Proof. intros Hj. exact (proj2 (path_hgt D H dflt ls0 j Hj Hl0)). Qed.

(* a leaf q inside the block of height s+1 around j (s below j's tree height) is in j's tree *)
Lemma same_tree j q (s : nat) : 0 <= j < n -> 0 <= q < n -> (s < hgt n j)%nat ->
  q / 2 ^ Z.of_nat (S s) = j / 2 ^ Z.of_nat (S s) -> hgt n q = hgt n j.
Proof.
  intros Hj Hq Hs E. apply (hgt_same n j q Hj Hq n64).
  replace (hgt n j) with (S s + (hgt n j - S s))%nat by lia.
  rewrite <- !div_div_p2 by lia. rewrite E. reflexivity.
Qed.


Lemma br_parent L q (s : nat) : 0 <= q ->
  br L (q / 2) (S s) = if Z.even q then H (br L q s) (br L (sib q) s) else H (br L (sib q) s) (br L q s).
Proof.
  intros Hq. rewrite (broot_S D H dflt) by lia. pose proof (Zmod_even q) as Hm. unfold sib.
  destruct (Z.even q).
  - replace (2 * (q / 2)) with q by lia. replace (2 * (q / 2) + 1) with (q + 1) by lia. reflexivity.
  - replace (2 * (q / 2) + 1) with q by lia. replace (2 * (q / 2)) with (q - 1) by lia. reflexivity.
Qed.

Section OneMutation.
Variable done : list (Z * D).
Hypothesis Hdone : inrange done.
Variable j : Z.
Variable d : D.
Hypothesis Hj : 0 <= j < n.
Hypothesis Hfresh : forall m, In m done -> fst m <> j.

Notation cur' := (upd (cur done) j d).
Notation hj := (hgt n j).

(* while climbing from leaf j: new bindings for the ancestors of j up to height s, older ones untouched *)
Definition pinv (m : dmap D) (s : nat) : Prop :=
  forall a t, okb a t ->
    dget D m (bidx a (Z.of_nat t)) =
    if (t <=? s)%nat && (a =? j / 2 ^ Z.of_nat t) then Some (br cur' a t)
    else if coveredb done a t then Some (br (cur done) a t) else None.

Lemma pinv_init m : binv m done -> pinv (dins D m (bidx j 0) d) 0.
Proof.
  intros Hm a t Hok. unfold dins. cbn [dget].
  assert (Hj0 : okb j 0).
  { pose proof (okb_anc j 0 hj (hgt_okb j Hj) (proj1 Hj) ltac:(lia)) as Ho.
    change (2 ^ Z.of_nat 0) with 1 in Ho. rewrite Z.div_1_r in Ho. exact Ho. }
  destruct (Z.eqb_spec (bidx a (Z.of_nat t)) (bidx j 0)) as [E|Hne].
  - change 0 with (Z.of_nat 0) in E. apply okb_inj in E; try assumption. destruct E as [-> ->].
    cbn [Nat.leb andb]. change (2 ^ Z.of_nat 0) with 1. rewrite Z.div_1_r, Z.eqb_refl.
    rewrite broot_upd_leaf by (rewrite zlength_cur; exact Hj). reflexivity.
  - rewrite (Hm a t Hok).
    destruct t as [|t]; [|reflexivity]. cbn [Nat.leb andb]. change (2 ^ Z.of_nat 0) with 1. rewrite Z.div_1_r.
    destruct (Z.eqb_spec a j); [subst; contradiction|reflexivity].
Qed.

Lemma pinv_step m s : (S s <= hj)%nat -> pinv m s ->
  pinv (dins D m (bidx (j / 2 ^ Z.of_nat (S s)) (Z.of_nat (S s))) (br cur' (j / 2 ^ Z.of_nat (S s)) (S s))) (S s).
Proof.
  intros Hs Hm a t Hok. unfold dins. cbn [dget].
  assert (HjS : okb (j / 2 ^ Z.of_nat (S s)) (S s)) by (apply (okb_anc j (S s) hj (hgt_okb j Hj) (proj1 Hj)); exact Hs).
  destruct (Z.eqb_spec (bidx a (Z.of_nat t)) (bidx (j / 2 ^ Z.of_nat (S s)) (Z.of_nat (S s)))) as [E|Hne].
  - apply okb_inj in E; try assumption. destruct E as [-> ->].
    rewrite Nat.leb_refl, Z.eqb_refl. reflexivity.
  - rewrite (Hm a t Hok).
    destruct (Nat.leb_spec t s) as [Hle|Hgt].
    + destruct (Nat.leb_spec t (S s)) as [_|Hbad]; [reflexivity|exfalso; clear - Hle Hbad; lia].
    + cbn [andb]. destruct (Nat.leb_spec t (S s)) as [Hle2|]; [|reflexivity]. cbn [andb].
      assert (t = S s) by (clear - Hgt Hle2; lia). subst t.
      destruct (Z.eqb_spec a (j / 2 ^ Z.of_nat (S s))); [subst; contradiction|reflexivity].
Qed.

(* the digest used for the sibling at height s: from the map, or else from the proof (valid for ls0) *)
Lemma sibling_value m s (s' : nat) : (s < hj)%nat -> pinv m s' ->
  match dget D m (bidx (sib (j / 2 ^ Z.of_nat s)) (Z.of_nat s)) with
  | Some v => v
  | None => br ls0 (sib (j / 2 ^ Z.of_nat s)) s
  end = br cur' (sib (j / 2 ^ Z.of_nat s)) s.
Proof.
  intros Hs Hm.
  assert (Hq : 0 <= j / 2 ^ Z.of_nat s) by (apply Z.div_pos; [lia|apply p2_nat_pos]).
  assert (Hsib : okb (sib (j / 2 ^ Z.of_nat s)) s) by (apply (okb_sib j s hj (hgt_okb j Hj) (proj1 Hj)); exact Hs).
  assert (Hout : br cur' (sib (j / 2 ^ Z.of_nat s)) s = br (cur done) (sib (j / 2 ^ Z.of_nat s)) s).
  { apply broot_upd_out; [destruct Hsib; assumption | lia |]. intros E. exact (sib_neq _ (eq_sym E)). }
  rewrite (Hm _ _ Hsib).
  replace ((s <=? s')%nat && (sib (j / 2 ^ Z.of_nat s) =? j / 2 ^ Z.of_nat s)) with false.
  2:{ symmetry. apply andb_false_iff. right. apply Z.eqb_neq. apply sib_neq. }
  destruct (coveredb done (sib (j / 2 ^ Z.of_nat s)) s) eqn:Ec; [symmetry; exact Hout|].
  rewrite Hout. symmetry. apply br_cur_out; [destruct Hsib; assumption | apply inrange_nonneg; exact Hdone |].
  intros q Hin E.
  assert (Hqr : 0 <= fst q < n) by (unfold inrange in Hdone; rewrite Forall_forall in Hdone; exact (Hdone q Hin)).
  assert (Esame : fst q / 2 ^ Z.of_nat (S s) = j / 2 ^ Z.of_nat (S s)).
  { rewrite !divS by lia. rewrite E. rewrite sib_div2 by exact Hq. reflexivity. }
  pose proof (same_tree j (fst q) s Hj Hqr Hs Esame) as Eh.
  assert (coveredb done (sib (j / 2 ^ Z.of_nat s)) s = true).
  { apply coveredb_true. exists q. split; [exact Hin|]. split; [symmetry; exact E|]. rewrite Eh. clear - Hs. lia. }
  congruence.
Qed.


Lemma climb_value m s (s' : nat) : (s < hj)%nat -> pinv m s' ->
  (if negb (Z.even (j / 2 ^ Z.of_nat s))
   then H (match dget D m (bidx (sib (j / 2 ^ Z.of_nat s)) (Z.of_nat s)) with
           | Some v => v | None => br ls0 (sib (j / 2 ^ Z.of_nat s)) s end) (br cur' (j / 2 ^ Z.of_nat s) s)
   else H (br cur' (j / 2 ^ Z.of_nat s) s)
          (match dget D m (bidx (sib (j / 2 ^ Z.of_nat s)) (Z.of_nat s)) with
           | Some v => v | None => br ls0 (sib (j / 2 ^ Z.of_nat s)) s end)) =
  br cur' (j / 2 ^ Z.of_nat (S s)) (S s).
Proof.
  intros Hs Hm. rewrite (sibling_value m s s' Hs Hm).
  rewrite divS by lia. rewrite br_parent by (apply Z.div_pos; [lia|apply p2_nat_pos]).
  destruct (Z.even (j / 2 ^ Z.of_nat s)); reflexivity.
Qed.

Lemma bm_inner_spec (keep : bool) : forall k s m, (s + S k = hj)%nat -> pinv m s ->
  exists m' acc',
    bm_inner D H keep m (bidx (j / 2 ^ Z.of_nat s) (Z.of_nat s)) (br cur' (j / 2 ^ Z.of_nat s) s)
             (bpath_from D H dflt ls0 j s (S k)) = Some (m', acc') /\
    pinv m' (hj - 1) /\ (keep = true -> acc' = br cur' (j / 2 ^ Z.of_nat hj) hj).
Proof.
  induction k as [|k IH]; intros s m Hs Hm.
  - (* last path element *)
    assert (Es : s = (hj - 1)%nat) by (clear - Hs; lia).
    cbn [bpath_from bm_inner].
    destruct keep.
    + rewrite up_info_bidx by (apply (inb_anc j s hj (hgt_okb j Hj) (proj1 Hj)); clear - Hs; lia). cbn [obind].
      rewrite (climb_value m s s ltac:(clear - Hs; lia) Hm).
      eexists. eexists. split; [reflexivity|]. split; [rewrite <- Es; exact Hm|].
      intros _. replace (S s) with hj by (clear - Hs; lia). reflexivity.
    + eexists. eexists. split; [reflexivity|]. split; [rewrite <- Es; exact Hm|]. discriminate.
  - cbn [bpath_from]. cbn [bm_inner].
    rewrite up_info_bidx by (apply (inb_anc j s hj (hgt_okb j Hj) (proj1 Hj)); clear - Hs; lia). cbn [obind].
    rewrite (climb_value m s s ltac:(clear - Hs; lia) Hm).
    rewrite <- divS by lia.
    destruct keep; apply (IH (S s)); try (clear - Hs; lia); apply pinv_step; try exact Hm; clear - Hs; lia.
Qed.

(* after the whole mutation: the invariant for the extended list of processed mutations *)
Lemma pinv_binv m : pinv m (hj - 1) -> binv m ((j, d) :: done).
Proof.
  intros Hm a t Hok. rewrite (Hm a t Hok). cbn [coveredb existsb fst cur snd].
  fold (coveredb done a t).
  rewrite (andb_comm (t <=? hj - 1)%nat).
  destruct ((a =? j / 2 ^ Z.of_nat t) && (t <=? hj - 1)%nat) eqn:Enew; cbn [orb]; [reflexivity|].
  destruct (coveredb done a t) eqn:Ec; [|reflexivity].
  f_equal. symmetry. apply broot_upd_out; [destruct Hok; assumption | lia |].
  intros Ea. apply coveredb_true in Ec. destruct Ec as (q & Hin & Eq & Hle).
  assert (Hqr : 0 <= fst q < n) by (unfold inrange in Hdone; rewrite Forall_forall in Hdone; exact (Hdone q Hin)).
  apply andb_false_iff in Enew. destruct Enew as [Enew|Enew]; [apply Z.eqb_neq in Enew; congruence|].
  apply Nat.leb_gt in Enew.
  destruct t as [|t].
  + change (2 ^ Z.of_nat 0) with 1 in *. rewrite Z.div_1_r in *. apply (Hfresh q Hin). congruence.
  + assert (Eh : hgt n j = hgt n (fst q)).
    { apply (same_tree (fst q) j t Hqr Hj ltac:(clear - Hle; lia)). congruence. }
    clear - Eh Enew Hle. lia.
Qed.

End OneMutation.


(* ---------------------------------------------------------------- one mutation of the pop loop *)
Lemma not_covered_fresh done j : inrange done -> 0 <= j < n -> (forall m, In m done -> fst m <> j) ->
  coveredb done j 0 = false.
Proof.
  intros Hd Hj Hf. destruct (coveredb done j 0) eqn:E; [|reflexivity].
  apply coveredb_true in E. destruct E as (q & Hin & Eq & _).
  change (2 ^ Z.of_nat 0) with 1 in Eq. rewrite Z.div_1_r in Eq. exfalso. apply (Hf q Hin). congruence.
Qed.

Lemma okb_leaf j : 0 <= j < n -> okb j 0.
Proof.
  intros Hj. pose proof (okb_anc j 0 (hgt n j) (hgt_okb j Hj) (proj1 Hj) ltac:(lia)) as Ho.
  change (2 ^ Z.of_nat 0) with 1 in Ho. rewrite Z.div_1_r in Ho. exact Ho.
Qed.

Lemma bm_one (keep : bool) done m j d :
  inrange done -> 0 <= j < n -> (forall q, In q done -> fst q <> j) -> binv m done ->
  dget D m (bidx j 0) = None /\
  exists m' acc,
    bm_inner D H keep (dins D m (bidx j 0) d) (bidx j 0) d (path D H dflt ls0 j) = Some (m', acc) /\
    binv m' ((j, d) :: done) /\
    (keep = true -> acc = br (upd (cur done) j d) (j / 2 ^ Z.of_nat (hgt n j)) (hgt n j)).
Proof.
  intros Hd Hj Hf Hm. split.
  - change 0 with (Z.of_nat 0). rewrite (Hm j 0%nat (okb_leaf j Hj)). rewrite (not_covered_fresh done j Hd Hj Hf). reflexivity.
  - destruct (path_hgt D H dflt ls0 j Hj Hl0) as [Hp _]. rewrite Hp. unfold bpath.
    pose proof (pinv_init done j d Hj m Hm) as Hp0.
    assert (Hj0 : bidx j 0 = bidx (j / 2 ^ Z.of_nat 0) (Z.of_nat 0)) by (change (2 ^ Z.of_nat 0) with 1; rewrite Z.div_1_r; reflexivity).
    assert (Hd0 : d = br (upd (cur done) j d) (j / 2 ^ Z.of_nat 0) 0).
    { change (2 ^ Z.of_nat 0) with 1. rewrite Z.div_1_r. symmetry. apply broot_upd_leaf. rewrite zlength_cur. exact Hj. }
    destruct (hgt n j) as [|k] eqn:Eh.
    + cbn [bpath_from bm_inner]. eexists. eexists. split; [reflexivity|]. split.
      * apply (pinv_binv done Hd j d Hj Hf). rewrite Eh. exact Hp0.
      * intros _. exact Hd0.
    + pose proof (bm_inner_spec done Hd j d Hj Hf keep k 0%nat (dins D m (bidx j 0) d)) as Hs.
      rewrite Eh in Hs. specialize (Hs eq_refl Hp0).
      destruct Hs as (m' & acc' & Hb & Hpi & Hacc).
      rewrite <- Hj0, <- Hd0 in Hb. rewrite Hb.
      exists m', acc'. split; [reflexivity|]. split.
      * apply (pinv_binv done Hd j d Hj Hf). rewrite Eh. exact Hpi.
      * exact Hacc.
Qed.

(* the pop loop of batch_update_from_batch_leaf_mutation *)
Lemma bubm_muts_spec : forall (todo : list (Z * D)) done m,
  inrange done -> inrange todo -> distinctb (map fst (todo ++ done)) = true -> binv m done ->
  exists m', bubm_muts D H m (map (fun q => (fst q, snd q, path D H dflt ls0 (fst q))) todo) = Some m' /\
             binv m' (rev todo ++ done).
Proof.
  induction todo as [|[j d] todo IH]; intros done m Hd Ht Hdist Hm.
  - exists m. split; [reflexivity|exact Hm].
  - pose proof (Forall_inv Ht) as Hj. pose proof (Forall_inv_tail Ht) as Ht'. cbn [fst] in Hj.
    cbn [map app distinctb fst] in Hdist. apply andb_true_iff in Hdist. destruct Hdist as [Hnj Hdist].
    assert (Hf : forall q, In q done -> fst q <> j).
    { intros q Hin E. apply negb_true_iff in Hnj. 
      assert (existsb (Z.eqb j) (map fst (todo ++ done)) = true).
      { apply existsb_exists. exists (fst q). split; [apply in_map; apply in_or_app; right; exact Hin|apply Z.eqb_eq; congruence]. }
      congruence. }
    cbn [map bubm_muts fst snd].
    rewrite l2n_bidx by (clear - Hj Hl0; lia). cbn [obind].
    destruct (bm_one false done m j d Hd Hj Hf Hm) as (Hnone & m1 & acc & Hb & Hinv & _).
    rewrite Hnone. rewrite Hb. cbn [obind].
    destruct (IH ((j, d) :: done) m1) as (m' & Hm1 & Hm2).
    + constructor; assumption.
    + exact Ht'.
    + rewrite map_app. cbn [map fst]. apply distinctb_move. rewrite <- map_app.
      cbn [distinctb]. rewrite Hnj, Hdist. reflexivity.
    + exact Hinv.
    + exists m'. split; [exact Hm1|]. cbn [rev]. rewrite <- app_assoc. exact Hm2.
Qed.


(* ---------------------------------------------------------------- the processed list is the specified one *)
Lemma apply_muts_upd : forall (r : list (Z * D)) ls i x, 0 <= i -> Forall (fun q => 0 <= fst q) r ->
  ~ In i (map fst r) -> apply_muts D (upd ls i x) r = upd (apply_muts D ls r) i x.
Proof.
  induction r as [|q r IH]; intros ls i x Hi Hnn Hnot; [reflexivity|].
  unfold apply_muts. cbn [fold_left]. fold (apply_muts D (upd (upd ls i x) (fst q) (snd q)) r).
  fold (apply_muts D (upd ls (fst q) (snd q)) r).
  pose proof (Forall_inv Hnn) as Hq. cbv beta in Hq.
  assert (Hne : i <> fst q) by (intros E; apply Hnot; left; symmetry; exact E).
  unfold upd at 1 2. rewrite upd_nat_comm by lia. fold (upd ls (fst q) (snd q)).
  fold (upd (upd ls (fst q) (snd q)) i x).
  apply IH; [exact Hi | exact (Forall_inv_tail Hnn) |]. intros Hin. apply Hnot. right. exact Hin.
Qed.

Lemma cur_apply_muts : forall ms, Forall (fun q => 0 <= fst q) ms -> NoDup (map fst ms) ->
  cur ms = apply_muts D ls0 ms.
Proof.
  induction ms as [|q r IH]; intros Hnn Hnd; [reflexivity|].
  cbn [cur]. inversion Hnd as [|? ? Hnot Hnd']; subst.
  rewrite IH by (try exact (Forall_inv_tail Hnn); exact Hnd').
  unfold apply_muts at 2. cbn [fold_left]. fold (apply_muts D (upd ls0 (fst q) (snd q)) r).
  symmetry. apply apply_muts_upd; [exact (Forall_inv Hnn) | exact (Forall_inv_tail Hnn) | exact Hnot].
Qed.

(* ---------------------------------------------------------------- updating the tracked proofs *)
Section Proofs.
Variable done : list (Z * D).
Hypothesis Hdone : inrange done.
Variable m : dmap D.
Hypothesis Hm : binv m done.

Lemma rac_spec i : 0 <= i < n ->
  forall k s, (s + k <= hgt n i)%nat ->
  exists c,
    replace_all_changed D deq m (bpath_from D H dflt ls0 i s k) (ap_nodes_from i s k) =
    (bpath_from D H dflt (cur done) i s k, c) /\ 0 <= c /\
    (c = 0 <-> bpath_from D H dflt (cur done) i s k = bpath_from D H dflt ls0 i s k).
Proof.
  intros Hi. induction k as [|k IH]; intros s Hs.
  - exists 0. cbn [bpath_from ap_nodes_from replace_all_changed]. split; [reflexivity|]. split; [lia|]. split; reflexivity.
  - cbn [bpath_from ap_nodes_from replace_all_changed].
    destruct (IH (S s) ltac:(clear - Hs; lia)) as (c & Hc1 & Hc2 & Hc3). rewrite Hc1.
    assert (Hq : 0 <= i / 2 ^ Z.of_nat s) by (apply Z.div_pos; [lia|apply p2_nat_pos]).
    assert (Hsib : okb (sib (i / 2 ^ Z.of_nat s)) s)
      by (apply (okb_sib i s (hgt n i) (hgt_okb i Hi) (proj1 Hi)); clear - Hs; lia).
    rewrite (Hm _ _ Hsib).
    destruct (coveredb done (sib (i / 2 ^ Z.of_nat s)) s) eqn:Ec.
    + destruct (deq (br ls0 (sib (i / 2 ^ Z.of_nat s)) s) (br (cur done) (sib (i / 2 ^ Z.of_nat s)) s)) eqn:Ed.
      * apply deq_spec in Ed. cbn [negb]. exists c. rewrite <- Ed. split; [reflexivity|]. split; [exact Hc2|].
        split.
        -- intros E0. f_equal. apply Hc3. exact E0.
        -- intros Heq. apply Hc3. inversion Heq. reflexivity.
      * cbn [negb]. exists (c + 1). split; [reflexivity|]. split; [lia|]. split; [lia|].
        intros Heq. inversion Heq as [[Hh Ht]]. rewrite Hh in Ed.
        assert (deq (br ls0 (sib (i / 2 ^ Z.of_nat s)) s) (br ls0 (sib (i / 2 ^ Z.of_nat s)) s) = true) by (apply deq_spec; reflexivity).
        congruence.
    + assert (Hsame : br (cur done) (sib (i / 2 ^ Z.of_nat s)) s = br ls0 (sib (i / 2 ^ Z.of_nat s)) s).
      { apply br_cur_out; [destruct Hsib; assumption | apply inrange_nonneg; exact Hdone |].
        intros q Hin E.
        assert (Hqr : 0 <= fst q < n) by (unfold inrange in Hdone; rewrite Forall_forall in Hdone; exact (Hdone q Hin)).
        assert (Esame : fst q / 2 ^ Z.of_nat (S s) = i / 2 ^ Z.of_nat (S s)).
        { rewrite !divS by lia. rewrite E. rewrite sib_div2 by exact Hq. reflexivity. }
        pose proof (same_tree i (fst q) s Hi Hqr ltac:(clear - Hs; lia) Esame) as Eh.
        assert (coveredb done (sib (i / 2 ^ Z.of_nat s)) s = true).
        { apply coveredb_true. exists q. split; [exact Hin|]. split; [symmetry; exact E|]. rewrite Eh. clear - Hs. lia. }
        congruence. }
      exists c. rewrite Hsame. split; [reflexivity|]. split; [exact Hc2|]. split.
      * intros E0. f_equal. apply Hc3. exact E0.
      * intros Heq. apply Hc3. inversion Heq. reflexivity.
Qed.

Lemma path_cur i : 0 <= i < n -> path D H dflt (cur done) i = bpath D H dflt (cur done) i (hgt n i).
Proof.
  intros Hi. pose proof (path_hgt D H dflt (cur done) i) as Hp. rewrite zlength_cur in Hp.
  exact (proj1 (Hp Hi Hl0)).
Qed.

(* the raw list of pushed positions: position p repeated once per changed digest *)
Fixpoint raw_spec (p : Z) (idxs : list Z) (raw : list Z) : Prop :=
  match idxs with
  | [] => raw = []
  | i :: r => exists c raw', raw = repeat p (Z.to_nat c) ++ raw' /\ 0 <= c /\
                             (c = 0 <-> path D H dflt (cur done) i = path D H dflt ls0 i) /\
                             raw_spec (p + 1) r raw'
  end.

Lemma bm_proofs_spec : forall idxs p, Forall (fun i => 0 <= i < n) idxs ->
  exists raw, bm_proofs D deq p m (map (path D H dflt ls0) idxs) idxs =
              Some (map (path D H dflt (cur done)) idxs, raw) /\ raw_spec p idxs raw.
Proof.
  induction idxs as [|i idxs IH]; intros p Hall.
  - exists []. split; reflexivity.
  - pose proof (Forall_inv Hall) as Hi. pose proof (Forall_inv_tail Hall) as Hall'. cbv beta in Hi.
    cbn [map bm_proofs].
    rewrite (get_node_indices_spec D H dflt ls0 i Hi Hl0). cbn [obind].
    destruct (path_hgt D H dflt ls0 i Hi Hl0) as [Hpi _].
    assert (Hle : (0 + hgt n i <= hgt n i)%nat) by (cbn [Nat.add]; apply Nat.le_refl).
    pose proof (rac_spec i Hi (hgt n i) 0%nat Hle) as Hrac.
    destruct Hrac as (c & Hc1 & Hc2 & Hc3).
    rewrite Hpi. unfold bpath at 1. rewrite Hc1.
    destruct (IH (p + 1) Hall') as (raw & Hr1 & Hr2). rewrite Hr1. cbn [obind].
    rewrite (path_cur i Hi). unfold bpath at 1.
    eexists. split; [reflexivity|]. cbn [raw_spec]. exists c, raw. split; [reflexivity|]. split; [exact Hc2|].
    split; [|exact Hr2]. rewrite (path_cur i Hi), Hpi. unfold bpath. exact Hc3.
Qed.

Lemma raw_md_spec : forall idxs p raw, raw_spec p idxs raw ->
  md_spec D H dflt ls0 (cur done) p idxs (zdedup raw) /\ (forall x, In x raw -> p <= x).
Proof.
  induction idxs as [|i idxs IH]; intros p raw Hr.
  - cbn [raw_spec] in Hr. subst. split; [reflexivity|]. intros x [].
  - cbn [raw_spec] in Hr. destruct Hr as (c & raw' & -> & Hc & Hc0 & Hr').
    destruct (IH (p + 1) raw' Hr') as [IH1 IH2].
    assert (Hgt : forall x, In x raw' -> p < x) by (intros x Hx; pose proof (IH2 x Hx); lia).
    split.
    + cbn [md_spec]. destruct (Z.to_nat c) as [|k] eqn:Ek.
      * left. split; [apply Hc0; lia|]. exact IH1.
      * right. split; [intros E; apply Hc0 in E; lia|].
        rewrite zdedup_repeat by exact Hgt. exists (zdedup raw'). auto.
    + intros x Hin. apply in_app_or in Hin. destruct Hin as [Hin|Hin].
      * apply repeat_spec in Hin. lia.
      * pose proof (IH2 x Hin). lia.
Qed.

End Proofs.


(* ---------------------------------------------------------------- batch_update_from_batch_leaf_mutation *)
Definition with_proofs (ms : list (Z * D)) : list (leaf_mutation D) :=
  map (fun q => (fst q, snd q, path D H dflt ls0 (fst q))) ms.

Lemma inrange_rev (ms : list (Z * D)) : inrange ms -> inrange (rev ms).
Proof. unfold inrange. intros Hm. apply Forall_rev. exact Hm. Qed.

Lemma distinct_rev (ms : list (Z * D)) : distinctb (map fst ms) = true -> distinctb (map fst (rev ms ++ [])) = true.
Proof.
  intros Hd. rewrite app_nil_r, map_rev. apply distinctb_NoDup. apply NoDup_rev. apply distinctb_NoDup. exact Hd.
Qed.

Theorem bubm_spec (ms : list (Z * D)) (idxs : list Z) :
  inrange ms -> distinctb (map fst ms) = true -> Forall (fun i => 0 <= i < n) idxs ->
  exists md,
    batch_update_from_batch_leaf_mutation D H deq (map (path D H dflt ls0) idxs) idxs (with_proofs ms) =
    Some (map (path D H dflt (apply_muts D ls0 ms)) idxs, md) /\
    md_spec D H dflt ls0 (apply_muts D ls0 ms) 0 idxs md.
Proof.
  intros Hms Hd Hall. unfold batch_update_from_batch_leaf_mutation.
  rewrite map_length, Nat.eqb_refl. cbn [negb].
  unfold with_proofs. rewrite <- map_rev.
  destruct (bubm_muts_spec (rev ms) [] [] (Forall_nil _) (inrange_rev ms Hms) (distinct_rev ms Hd) binv_nil)
    as (m' & Hb & Hinv).
  rewrite Hb. cbn [obind]. rewrite rev_involutive, app_nil_r in Hinv.
  destruct (bm_proofs_spec ms Hms m' Hinv idxs 0 Hall) as (raw & Hr1 & Hr2).
  rewrite Hr1. cbn [obind].
  destruct (raw_md_spec ms idxs 0 raw Hr2) as [Hmd _].
  rewrite (cur_apply_muts ms (inrange_nonneg ms Hms) (proj1 (distinctb_NoDup _) Hd)) in *.
  eexists. split; [reflexivity|exact Hmd].
Qed.

(* ---------------------------------------------------------------- batch_mutate_leaf_and_update_mps *)
Lemma fold_up_nv L j d : 0 <= j ->
  forall k s, fold_up D H (j / 2 ^ Z.of_nat s) (nv D H dflt L j d s) (bpath_from D H dflt L j s k) = nv D H dflt L j d (s + k).
Proof.
  intros Hj. induction k as [|k IH]; intros s.
  - rewrite Nat.add_0_r. reflexivity.
  - cbn [bpath_from MmrSpec.fold_up].
    rewrite <- divS by exact Hj.
    replace (if Z.even (j / 2 ^ Z.of_nat s)
             then H (nv D H dflt L j d s) (br L (sib (j / 2 ^ Z.of_nat s)) s)
             else H (br L (sib (j / 2 ^ Z.of_nat s)) s) (nv D H dflt L j d s)) with (nv D H dflt L j d (S s))
      by (rewrite nv_S by exact Hj; reflexivity).
    rewrite IH. f_equal. lia.
Qed.

Lemma peak_update L j d : zlength L = n -> 0 <= j < n ->
  exists mt pk, li_mt_pk j n = Some (mt, pk) /\
    set_nth (peaks_spec D H dflt L) (Z.to_nat pk) (br (upd L j d) (j / 2 ^ Z.of_nat (hgt n j)) (hgt n j)) =
    Some (peaks_spec D H dflt (upd L j d)).
Proof.
  intros HL Hj.
  pose proof (mutate_top D H deq dflt L j d) as Hmt. rewrite HL in Hmt. specialize (Hmt Hj n64).
  pose proof (path_hgt D H dflt L j) as Hp. rewrite HL in Hp. destruct (Hp Hj Hl0) as [Hp1 _]. clear Hp.
  pose proof (li_mt_pk_spec n j Hj n64) as Hli.
  rewrite hgt_unfold in Hp1. rewrite hgt_unfold.
  pose proof (locate_bounds n j Hj n64) as Hb.
  pose proof (locate_block64 n j Hj n64) as Hblk.
  destruct (locate n j) as [[pk h] j']. cbn [fst snd] in *.
  destruct Hmt as [Hlen Hset]. destruct Hb as (Hpk & Hh & Hj'). destruct Hblk as [_ Ej'].
  exists (2 ^ h + j'), pk. split; [exact Hli|].
  rewrite Hp1 in Hset. unfold bpath in Hset.
  assert (Efold : fold_up D H j' d (bpath_from D H dflt L j 0 (Z.to_nat h)) = nv D H dflt L j d (Z.to_nat h)).
  { pose proof (fold_up_nv L j d (proj1 Hj) (Z.to_nat h) 0%nat) as Hf.
    change (2 ^ Z.of_nat 0) with 1 in Hf. rewrite Z.div_1_r in Hf.
    rewrite (nv_0 D H dflt L j d) in Hf by (rewrite HL; exact Hj). cbn [Nat.add] in Hf.
    rewrite <- Hf.
    pose proof (fold_up_low D H (bpath_from D H dflt L j 0 (Z.to_nat h)) j' (j / 2 ^ h) d) as Hlow.
    assert (El : zlength (bpath_from D H dflt L j 0 (Z.to_nat h)) = h).
    { unfold zlength. rewrite bpath_from_length. lia. }
    rewrite El in Hlow. rewrite <- Hlow. f_equal.
    rewrite Ej'. pose proof (Z.div_mod j (2 ^ h) ltac:(pose proof (p2_pos h ltac:(lia)); lia)). lia. }
  rewrite Efold in Hset. unfold nv in Hset. rewrite Z2Nat.id in Hset by lia.
  rewrite Z2Nat.id by lia. exact Hset.
Qed.

Lemma bmlu_muts_spec : forall (todo : list (Z * D)) done m,
  inrange done -> inrange todo -> distinctb (map fst (todo ++ done)) = true -> binv m done ->
  exists m', bmlu_muts D H m (peaks_spec D H dflt (cur done)) n (with_proofs todo) =
             Some (m', peaks_spec D H dflt (cur (rev todo ++ done))) /\
             binv m' (rev todo ++ done).
Proof.
  induction todo as [|[j d] todo IH]; intros done m Hd Ht Hdist Hm.
  - exists m. split; [reflexivity|exact Hm].
  - pose proof (Forall_inv Ht) as Hj. pose proof (Forall_inv_tail Ht) as Ht'. cbn [fst] in Hj.
    cbn [map app distinctb fst] in Hdist. apply andb_true_iff in Hdist. destruct Hdist as [Hnj Hdist].
    assert (Hf : forall q, In q done -> fst q <> j).
    { intros q Hin E. apply negb_true_iff in Hnj.
      assert (existsb (Z.eqb j) (map fst (todo ++ done)) = true).
      { apply existsb_exists. exists (fst q). split; [apply in_map; apply in_or_app; right; exact Hin|apply Z.eqb_eq; congruence]. }
      congruence. }
    unfold with_proofs. cbn [map bmlu_muts fst snd]. fold (with_proofs todo).
    rewrite l2n_bidx by (clear - Hj Hl0; lia). cbn [obind].
    destruct (bm_one true done m j d Hd Hj Hf Hm) as (Hnone & m1 & acc & Hb & Hinv & Hacc).
    rewrite Hnone. rewrite Hb. cbn [obind].
    destruct (peak_update (cur done) j d (zlength_cur done) Hj) as (mt & pk & Hli & Hset).
    rewrite Hli. cbn [obind]. rewrite (Hacc eq_refl). rewrite Hset. cbn [obind].
    destruct (IH ((j, d) :: done) m1) as (m' & Hm1 & Hm2).
    + constructor; assumption.
    + exact Ht'.
    + rewrite map_app. cbn [map fst]. apply distinctb_move. rewrite <- map_app.
      cbn [distinctb]. rewrite Hnj, Hdist. reflexivity.
    + exact Hinv.
    + cbn [cur fst snd] in Hm1. exists m'. cbn [rev]. rewrite <- app_assoc. split; [exact Hm1|exact Hm2].
Qed.

Theorem bmlu_spec (ms : list (Z * D)) (idxs : list Z) :
  inrange ms -> distinctb (map fst ms) = true -> Forall (fun i => 0 <= i < n) idxs ->
  exists md,
    batch_mutate_leaf_and_update_mps D H deq (n, peaks_spec D H dflt ls0) (map (path D H dflt ls0) idxs) idxs
                                     (with_proofs ms) =
    Some ((n, peaks_spec D H dflt (apply_muts D ls0 ms)), map (path D H dflt (apply_muts D ls0 ms)) idxs, md) /\
    md_spec D H dflt ls0 (apply_muts D ls0 ms) 0 idxs md.
Proof.
  intros Hms Hd Hall. unfold batch_mutate_leaf_and_update_mps. cbn [fst snd].
  rewrite map_length, Nat.eqb_refl. cbn [negb].
  replace (forallb (fun x => x <? n) idxs) with true.
  2:{ symmetry. apply forallb_forall. intros x Hx. rewrite Forall_forall in Hall. apply Z.ltb_lt. exact (proj2 (Hall x Hx)). }
  cbn [negb].
  assert (Erev : rev (with_proofs ms) = with_proofs (rev ms)) by (unfold with_proofs; rewrite map_rev; reflexivity).
  rewrite Erev.
  destruct (bmlu_muts_spec (rev ms) [] [] (Forall_nil _) (inrange_rev ms Hms) (distinct_rev ms Hd) binv_nil)
    as (m' & Hb & Hinv).
  cbn [cur] in Hb. rewrite Hb. cbn [obind]. rewrite rev_involutive, app_nil_r in *.
  destruct (bm_proofs_spec ms Hms m' Hinv idxs 0 Hall) as (raw & Hr1 & Hr2).
  rewrite Hr1. cbn [obind].
  destruct (raw_md_spec ms idxs 0 raw Hr2) as [Hmd _].
  rewrite (cur_apply_muts ms (inrange_nonneg ms Hms) (proj1 (distinctb_NoDup _) Hd)) in *.
  eexists. split; [reflexivity|exact Hmd].
Qed.

End Batch.
