(* MmrBatchGen.v - the batch leaf-mutation routines of the MMR for EVERY mutation list (free hash H):
     1. a mutation list with a repeated leaf index makes batch_update_from_batch_leaf_mutation and
        batch_mutate_leaf_and_update_mps panic (the assert `Duplicated leafs are not allowed`), whatever the
        proofs are; verify_batch_update rejects it;
     2. the `validity form` of the batch theorems for a collision-free hash: for EVERY list of tracked
        membership proofs that verify and EVERY list of mutations whose proofs verify (all against the peaks
        of ls) and whose leaf indices are pairwise distinct, the routines return proofs that verify against
        the peaks of the mutated list, these peaks, and exactly the positions whose proof changed
        (md_fun = the executable reading of md_spec);
     3. verify_batch_update on every list of mutations with verifying proofs: accepts exactly if the indices
        are pairwise distinct and the stated peaks are the peaks of the mutated and extended list. *)
From Coq Require Import ZArith List Bool Lia.
From TF Require Import Word MmrIdxLocal Mmr MmrSpec MmrBits MmrNodes MmrProofs MmrPaths MmrUpdates MmrBatch MmrMutate.
Import ListNotations.
Open Scope Z_scope.
Ltac Zify.zify_post_hook ::= Z.div_mod_to_equations.

Lemma distinctb_rev_false l : distinctb l = false -> distinctb (rev l) = false.
Proof.
  intros Hd. destruct (distinctb (rev l)) eqn:E; [|reflexivity].
  apply distinctb_NoDup in E. apply NoDup_rev in E. rewrite rev_involutive in E.
  apply distinctb_NoDup in E. congruence.
Qed.

(* ---------------------------------------------------------------- repeated leaf index: the assert fires *)
Section Dup.
Variable D : Type.
Variable H : D -> D -> D.
Variable deq : D -> D -> bool.

Definition lm_index (lm : leaf_mutation D) : Z := fst (fst lm).

Lemma dget_dins_keeps (m : dmap D) p v k : dget D m k <> None -> dget D (dins D m p v) k <> None.
Proof. intros Hk. unfold dins. cbn [dget]. destruct (k =? p); [discriminate|exact Hk]. Qed.

(* the inner loop only adds bindings *)
Lemma bm_inner_keeps (keep : bool) : forall path m ni acc m' acc',
  bm_inner D H keep m ni acc path = Some (m', acc') ->
  forall k, dget D m k <> None -> dget D m' k <> None.
Proof.
  induction path as [|hash path IH]; intros m ni acc m' acc' E k Hk.
  - cbn [bm_inner] in E. inversion E; subst. exact Hk.
  - destruct path as [|h2 path'].
    + cbn [bm_inner] in E. destruct keep.
      * destruct (up_info ni) as [[[isr s] p]|]; cbn [obind] in E; [|discriminate]. inversion E; subst. exact Hk.
      * inversion E; subst. exact Hk.
    + cbn [bm_inner] in E.
      assert (E' : match up_info ni with
                   | Some (isr, s, p) =>
                     let sh := match dget D m s with Some v => v | None => hash end in
                     let acc1 := if isr : bool then H sh acc else H acc sh in
                     bm_inner D H keep (dins D m p acc1) p acc1 (h2 :: path')
                   | None => None
                   end = Some (m', acc')).
      { destruct keep; destruct (up_info ni) as [[[isr s] p]|]; cbn [obind] in E; exact E. }
      clear E. destruct (up_info ni) as [[[isr s] p]|]; [|discriminate]. cbv zeta in E'.
      apply (IH _ _ _ _ _ E'). apply dget_dins_keeps. exact Hk.
Qed.

(* a leaf index whose node is already bound stops the pop loop *)
Lemma bubm_muts_bound : forall (rmuts : list (leaf_mutation D)) m li ni,
  In li (map lm_index rmuts) -> l2n li = Some ni -> dget D m ni <> None -> bubm_muts D H m rmuts = None.
Proof.
  induction rmuts as [|[[li' nl] ap] r IH]; intros m li ni Hin Hl Hb; [contradiction|].
  cbn [bubm_muts]. destruct (l2n li') as [ni'|] eqn:El'; cbn [obind]; [|reflexivity].
  cbn [map lm_index fst] in Hin. unfold lm_index in Hin. cbn [fst] in Hin. fold lm_index in Hin.
  destruct (dget D m ni') eqn:Eg; [reflexivity|].
  destruct Hin as [<-|Hin]; [rewrite Hl in El'; inversion El'; subst; contradiction|].
  destruct (bm_inner D H false (dins D m ni' nl) ni' nl ap) as [[m1 acc]|] eqn:Eb; cbn [obind]; [|reflexivity].
  apply (IH m1 li ni Hin Hl).
  apply (bm_inner_keeps false _ _ _ _ _ _ Eb). apply dget_dins_keeps. exact Hb.
Qed.

Lemma bubm_muts_dup : forall (rmuts : list (leaf_mutation D)) m,
  distinctb (map lm_index rmuts) = false -> bubm_muts D H m rmuts = None.
Proof.
  induction rmuts as [|[[li nl] ap] r IH]; intros m Hd; [discriminate|].
  cbn [bubm_muts]. destruct (l2n li) as [ni|] eqn:El; cbn [obind]; [|reflexivity].
  destruct (dget D m ni) eqn:Eg; [reflexivity|].
  destruct (bm_inner D H false (dins D m ni nl) ni nl ap) as [[m1 acc]|] eqn:Eb; cbn [obind]; [|reflexivity].
  cbn [map distinctb] in Hd. unfold lm_index at 1 in Hd. cbn [fst] in Hd.
  apply andb_false_iff in Hd. destruct Hd as [Hd|Hd].
  - apply negb_false_iff in Hd. apply existsb_exists in Hd. destruct Hd as (y & Hin & Ey). apply Z.eqb_eq in Ey. subst y.
    apply (bubm_muts_bound r m1 li ni Hin El).
    apply (bm_inner_keeps false _ _ _ _ _ _ Eb). unfold dins. cbn [dget]. rewrite Z.eqb_refl. discriminate.
  - apply IH. exact Hd.
Qed.

Lemma bmlu_muts_bound : forall (rmuts : list (leaf_mutation D)) m peaks lc li ni,
  In li (map lm_index rmuts) -> l2n li = Some ni -> dget D m ni <> None -> bmlu_muts D H m peaks lc rmuts = None.
Proof.
  induction rmuts as [|[[li' nl] ap] r IH]; intros m peaks lc li ni Hin Hl Hb; [contradiction|].
  cbn [bmlu_muts]. destruct (l2n li') as [ni'|] eqn:El'; cbn [obind]; [|reflexivity].
  cbn [map lm_index fst] in Hin. unfold lm_index in Hin. cbn [fst] in Hin. fold lm_index in Hin.
  destruct (dget D m ni') eqn:Eg; [reflexivity|].
  destruct Hin as [<-|Hin]; [rewrite Hl in El'; inversion El'; subst; contradiction|].
  destruct (bm_inner D H true (dins D m ni' nl) ni' nl ap) as [[m1 acc]|] eqn:Eb; cbn [obind]; [|reflexivity].
  destruct (li_mt_pk li' lc) as [[mt pk]|]; cbn [obind]; [|reflexivity].
  destruct (set_nth peaks (Z.to_nat pk) acc) as [peaks'|]; cbn [obind]; [|reflexivity].
  apply (IH m1 peaks' lc li ni Hin Hl).
  apply (bm_inner_keeps true _ _ _ _ _ _ Eb). apply dget_dins_keeps. exact Hb.
Qed.

Lemma bmlu_muts_dup : forall (rmuts : list (leaf_mutation D)) m peaks lc,
  distinctb (map lm_index rmuts) = false -> bmlu_muts D H m peaks lc rmuts = None.
Proof.
  induction rmuts as [|[[li nl] ap] r IH]; intros m peaks lc Hd; [discriminate|].
  cbn [bmlu_muts]. destruct (l2n li) as [ni|] eqn:El; cbn [obind]; [|reflexivity].
  destruct (dget D m ni) eqn:Eg; [reflexivity|].
  destruct (bm_inner D H true (dins D m ni nl) ni nl ap) as [[m1 acc]|] eqn:Eb; cbn [obind]; [|reflexivity].
  destruct (li_mt_pk li lc) as [[mt pk]|]; cbn [obind]; [|reflexivity].
  destruct (set_nth peaks (Z.to_nat pk) acc) as [peaks'|]; cbn [obind]; [|reflexivity].
  cbn [map distinctb] in Hd. unfold lm_index at 1 in Hd. cbn [fst] in Hd.
  apply andb_false_iff in Hd. destruct Hd as [Hd|Hd].
  - apply negb_false_iff in Hd. apply existsb_exists in Hd. destruct Hd as (y & Hin & Ey). apply Z.eqb_eq in Ey. subst y.
    apply (bmlu_muts_bound r m1 peaks' lc li ni Hin El).
    apply (bm_inner_keeps true _ _ _ _ _ _ Eb). unfold dins. cbn [dget]. rewrite Z.eqb_refl. discriminate.
  - apply IH. exact Hd.
Qed.

(* C05 / C11: a repeated leaf index in the mutation list is a panic of both batch routines, for any tracked
   proofs, any accumulator, any digests and any (valid or invalid) proofs in the mutation list *)
Theorem bubm_dup_panics mps idxs (lms : list (leaf_mutation D)) :
  distinctb (map lm_index lms) = false ->
  batch_update_from_batch_leaf_mutation D H deq mps idxs lms = None.
Proof.
  intros Hd. unfold batch_update_from_batch_leaf_mutation.
  destruct (negb (length mps =? length idxs)%nat); [reflexivity|].
  rewrite bubm_muts_dup; [reflexivity|]. rewrite map_rev. apply distinctb_rev_false. exact Hd.
Qed.

Theorem bmlu_dup_panics (a : accumulator D) mps idxs (lms : list (leaf_mutation D)) :
  distinctb (map lm_index lms) = false ->
  batch_mutate_leaf_and_update_mps D H deq a mps idxs lms = None.
Proof.
  intros Hd. unfold batch_mutate_leaf_and_update_mps.
  destruct (negb (length mps =? length idxs)%nat); [reflexivity|].
  destruct (negb (forallb (fun x => x <? fst a) idxs)); [reflexivity|].
  rewrite bmlu_muts_dup; [reflexivity|]. rewrite map_rev. apply distinctb_rev_false. exact Hd.
Qed.

End Dup.

(* ---------------------------------------------------------------- validity form *)
Section Valid.
Variable D : Type.
Variable H : D -> D -> D.
Variable deq : D -> D -> bool.
Variable dflt : D.
Hypothesis deq_spec : forall x y, deq x y = true <-> x = y.
Hypothesis Hinj : forall a b c e, H a b = H c e -> a = c /\ b = e.

Notation peaks := (peaks_spec D H dflt).
Notation pth := (path D H dflt).

(* every tracked proof verifies for its (u64) leaf index against the peaks of ls *)
Definition proofs_valid (ls : list D) (mps : list (mproof D)) (idxs : list Z) : Prop :=
  Forall2 (fun ap i => 0 <= i /\
             mp_verify D H deq ap i (nth (Z.to_nat i) ls dflt) (peaks ls) (zlength ls) = Some true) mps idxs.
(* every mutation carries a proof that verifies for the leaf it is going to replace *)
Definition muts_valid (ls : list D) (lms : list (leaf_mutation D)) : Prop :=
  Forall (fun lm => 0 <= lm_index D lm /\
            mp_verify D H deq (snd lm) (lm_index D lm) (nth (Z.to_nat (lm_index D lm)) ls dflt) (peaks ls) (zlength ls) = Some true) lms.

Lemma list_deq_spec : forall a b, list_deq D deq a b = true <-> a = b.
Proof.
  induction a as [|x a IH]; intros [|y b]; cbn [list_deq]; try (split; [discriminate|discriminate]); [split; reflexivity|].
  rewrite andb_true_iff, deq_spec, IH. split; [intros [-> ->]; reflexivity|intros E; inversion E; auto].
Qed.

Lemma proofs_valid_paths ls mps idxs : zlength ls < 2 ^ 64 -> proofs_valid ls mps idxs ->
  mps = map (pth ls) idxs /\ Forall (fun i => 0 <= i < zlength ls) idxs.
Proof.
  intros Hl Hv. induction Hv as [|ap i mps idxs [Hi Hap] Hv IH]; [split; [reflexivity|constructor]|].
  destruct IH as [-> IH2].
  destruct (verify_sound D H deq dflt deq_spec Hinj ls ap i _ Hl Hi Hap) as (Hir & _ & ->).
  split; [reflexivity|constructor; assumption].
Qed.

Lemma paths_proofs_valid ls idxs : zlength ls < 2 ^ 64 -> Forall (fun i => 0 <= i < zlength ls) idxs ->
  proofs_valid ls (map (pth ls) idxs) idxs.
Proof.
  intros Hl Hall. induction Hall as [|i idxs Hi Hall IH]; [constructor|].
  cbn [map]. constructor; [|exact IH]. split; [lia|].
  apply (path_verifies D H deq dflt (deq_refl D deq deq_spec)); assumption.
Qed.

Lemma muts_valid_paths ls lms : zlength ls < 2 ^ 64 -> muts_valid ls lms ->
  lms = with_proofs D H dflt ls (map fst lms) /\ inrange D ls (map fst lms).
Proof.
  intros Hl Hv. induction Hv as [|[[j d] ap] lms [Hj Hap] Hv IH]; [split; [reflexivity|constructor]|].
  destruct IH as [IH1 IH2]. unfold lm_index in Hj, Hap. cbn [fst snd] in Hj, Hap.
  destruct (verify_sound D H deq dflt deq_spec Hinj ls ap j _ Hl Hj Hap) as (Hjr & _ & ->).
  split.
  - cbn [map with_proofs fst snd]. unfold with_proofs in IH1. rewrite <- IH1. reflexivity.
  - cbn [map fst]. constructor; [exact Hjr|exact IH2].
Qed.

Lemma map_fst_fst (lms : list (leaf_mutation D)) : map fst (map fst lms) = map (lm_index D) lms.
Proof. rewrite map_map. reflexivity. Qed.

Lemma zlength_apply_muts : forall (ms : list (Z * D)) (ls : list D), zlength (apply_muts D ls ms) = zlength ls.
Proof.
  induction ms as [|m ms IH]; intros ls; [reflexivity|].
  unfold apply_muts. cbn [fold_left]. fold (apply_muts D (upd ls (fst m) (snd m)) ms). rewrite IH. apply zlength_upd.
Qed.

(* the `modified` list as a function: ascending positions whose proof differs *)
Fixpoint md_fun (p : Z) (old new : list (mproof D)) : list Z :=
  match old, new with
  | a :: old', b :: new' => if list_deq D deq a b then md_fun (p + 1) old' new' else p :: md_fun (p + 1) old' new'
  | _, _ => []
  end.

Lemma md_spec_fun old new : forall idxs p md, md_spec D H dflt old new p idxs md ->
  md = md_fun p (map (pth old) idxs) (map (pth new) idxs).
Proof.
  induction idxs as [|i idxs IH]; intros p md Hs; [exact Hs|].
  cbn [md_spec] in Hs. cbn [map md_fun].
  destruct Hs as [[E Hs]|[Hne (md' & -> & Hs)]].
  - rewrite E. replace (list_deq D deq (pth old i) (pth old i)) with true by (symmetry; apply list_deq_spec; reflexivity).
    apply IH. exact Hs.
  - destruct (list_deq D deq (pth old i) (pth new i)) eqn:Ed.
    + apply list_deq_spec in Ed. exfalso. apply Hne. symmetry. exact Ed.
    + f_equal. apply IH. exact Hs.
Qed.

(* C05, one mutation against many tracked proofs (batch_update_from_leaf_mutation), validity form *)
Theorem buflm_keeps_valid ls mps idxs j d lm_ap :
  zlength ls < 2 ^ 63 -> 0 <= j -> proofs_valid ls mps idxs ->
  mp_verify D H deq lm_ap j (nth (Z.to_nat j) ls dflt) (peaks ls) (zlength ls) = Some true ->
  exists mps',
    batch_update_from_leaf_mutation D H deq mps idxs (j, d, lm_ap) = Some (mps', md_fun 0 mps mps') /\
    proofs_valid (upd ls j d) mps' idxs.
Proof.
  intros Hl Hj0 Hv Hvj. pose proof (lt63_64 _ Hl) as Hl64.
  destruct (proofs_valid_paths ls mps idxs Hl64 Hv) as [-> Hall].
  destruct (verify_sound D H deq dflt deq_spec Hinj ls lm_ap j _ Hl64 Hj0 Hvj) as (Hj & _ & ->).
  destruct (batch_update_from_leaf_mutation_spec D H deq dflt deq_spec ls j d idxs Hj Hl Hall) as (md & Hb & Hmd).
  exists (map (pth (upd ls j d)) idxs). split.
  - refine (eq_trans Hb _). rewrite (md_spec_fun _ _ _ _ _ Hmd). reflexivity.
  - apply paths_proofs_valid; rewrite zlength_upd; assumption.
Qed.

(* C05 / C11, the two batch routines, validity form *)
Theorem bubm_keeps_valid ls mps idxs (lms : list (leaf_mutation D)) :
  zlength ls < 2 ^ 63 -> proofs_valid ls mps idxs -> muts_valid ls lms ->
  distinctb (map (lm_index D) lms) = true ->
  exists mps',
    batch_update_from_batch_leaf_mutation D H deq mps idxs lms = Some (mps', md_fun 0 mps mps') /\
    proofs_valid (apply_muts D ls (map fst lms)) mps' idxs.
Proof.
  intros Hl Hv Hm Hd. pose proof (lt63_64 _ Hl) as Hl64.
  destruct (proofs_valid_paths ls mps idxs Hl64 Hv) as [-> Hall].
  destruct (muts_valid_paths ls lms Hl64 Hm) as [Elms Hin]. rewrite <- map_fst_fst in Hd.
  destruct (bubm_spec D H deq dflt deq_spec ls Hl (map fst lms) idxs Hin Hd Hall) as (md & Hb & Hmd).
  rewrite <- Elms in Hb.
  exists (map (pth (apply_muts D ls (map fst lms))) idxs). split.
  - refine (eq_trans Hb _). rewrite (md_spec_fun _ _ _ _ _ Hmd). reflexivity.
  - apply paths_proofs_valid; rewrite zlength_apply_muts; assumption.
Qed.

Theorem bmlu_keeps_valid ls mps idxs (lms : list (leaf_mutation D)) :
  zlength ls < 2 ^ 63 -> proofs_valid ls mps idxs -> muts_valid ls lms ->
  distinctb (map (lm_index D) lms) = true ->
  exists mps',
    batch_mutate_leaf_and_update_mps D H deq (zlength ls, peaks ls) mps idxs lms =
      Some ((zlength ls, peaks (apply_muts D ls (map fst lms))), mps', md_fun 0 mps mps') /\
    proofs_valid (apply_muts D ls (map fst lms)) mps' idxs.
Proof.
  intros Hl Hv Hm Hd. pose proof (lt63_64 _ Hl) as Hl64.
  destruct (proofs_valid_paths ls mps idxs Hl64 Hv) as [-> Hall].
  destruct (muts_valid_paths ls lms Hl64 Hm) as [Elms Hin]. rewrite <- map_fst_fst in Hd.
  destruct (bmlu_spec D H deq dflt deq_spec ls Hl (map fst lms) idxs Hin Hd Hall) as (md & Hb & Hmd).
  rewrite <- Elms in Hb.
  exists (map (pth (apply_muts D ls (map fst lms))) idxs). split.
  - refine (eq_trans Hb _). rewrite (md_spec_fun _ _ _ _ _ Hmd). reflexivity.
  - apply paths_proofs_valid; rewrite zlength_apply_muts; assumption.
Qed.

(* C11: verify_batch_update on EVERY mutation list whose proofs verify: accepted exactly if the leaf indices
   are pairwise distinct and the stated peaks are those of the mutated and extended leaf list *)
Theorem vbu_valid_iff ls new_peaks appended (lms : list (leaf_mutation D)) :
  zlength ls + zlength appended < 2 ^ 63 -> muts_valid ls lms ->
  verify_batch_update D H deq (zlength ls, peaks ls) new_peaks appended lms =
  Some (distinctb (map (lm_index D) lms) &&
        list_deq D deq (peaks (apply_muts D ls (map fst lms) ++ appended)) new_peaks).
Proof.
  intros Hl Hm. pose proof (zlength_nonneg appended) as Hna.
  assert (Hl64 : zlength ls < 2 ^ 64) by (apply lt63_64; lia).
  destruct (distinctb (map (lm_index D) lms)) eqn:Hd; cbn [andb].
  - destruct (muts_valid_paths ls lms Hl64 Hm) as [Elms Hin]. rewrite <- map_fst_fst in Hd.
    pose proof (verify_batch_update_iff D H deq dflt deq_spec ls new_peaks appended (map fst lms) Hl Hd Hin) as Hv.
    unfold with_proofs in Elms. rewrite <- Elms in Hv. exact Hv.
  - apply vbu_rejects_dup_oob. left. exact Hd.
Qed.

(* ... and an accepted claim pins the new leaf list down: no other list of that length has the stated peaks *)
Theorem vbu_accept_binds ls new_peaks appended (lms : list (leaf_mutation D)) :
  zlength ls + zlength appended < 2 ^ 63 -> muts_valid ls lms ->
  verify_batch_update D H deq (zlength ls, peaks ls) new_peaks appended lms = Some true ->
  distinctb (map (lm_index D) lms) = true /\
  new_peaks = peaks (apply_muts D ls (map fst lms) ++ appended) /\
  forall L, zlength L = zlength ls + zlength appended -> peaks L = new_peaks ->
            L = apply_muts D ls (map fst lms) ++ appended.
Proof.
  intros Hl Hm Hv. rewrite (vbu_valid_iff ls new_peaks appended lms Hl Hm) in Hv.
  injection Hv as Hv. apply andb_true_iff in Hv. destruct Hv as [Hd Hp]. apply list_deq_spec in Hp.
  split; [exact Hd|]. split; [symmetry; exact Hp|].
  intros L HL HpL. apply (peaks_binding D H dflt Hinj).
  - rewrite HL, zlength_app, zlength_apply_muts. reflexivity.
  - rewrite HL. apply lt63_64. exact Hl.
  - rewrite HpL. symmetry. exact Hp.
Qed.

End Valid.
