(* MmrBits.v - bit-level facts behind the straight-line MMR index functions of MmrIdxLocal.v:
   count_ones / trailing zeros / xor / masks, stated for the binary expansion from the top. *)
From Coq Require Import ZArith List Bool Lia.
From TF Require Import Word.
Import ListNotations.
Open Scope Z_scope.

Lemma p2_pos k : 0 <= k -> 0 < 2 ^ k.
Proof. intros. apply Z.pow_pos_nonneg; lia. Qed.
Lemma p2_succ k : 0 <= k -> 2 ^ (k + 1) = 2 * 2 ^ k.
Proof. intros. rewrite Z.pow_add_r by lia. change (2 ^ 1) with 2. lia. Qed.
Lemma p2_S (k : nat) : 2 ^ Z.of_nat (S k) = 2 * 2 ^ Z.of_nat k.
Proof. rewrite Nat2Z.inj_succ. unfold Z.succ. apply p2_succ. lia. Qed.
Lemma p2_nat_pos (k : nat) : 0 < 2 ^ Z.of_nat k.
Proof. apply p2_pos. lia. Qed.
Lemma p2_le k m : 0 <= k <= m -> 2 ^ k <= 2 ^ m.
Proof. intros. apply Z.pow_le_mono_r; lia. Qed.
Lemma p2_lt k m : 0 <= k < m -> 2 ^ k < 2 ^ m.
Proof. intros. apply Z.pow_lt_mono_r; lia. Qed.

(* ---------------------------------------------------------------- count_ones *)
Lemma co_double a : 0 <= a -> count_ones (2 * a) = count_ones a.
Proof. intros. destruct a; try lia; reflexivity. Qed.
Lemma co_succ_double a : 0 <= a -> count_ones (2 * a + 1) = 1 + count_ones a.
Proof. intros. destruct a; try lia; reflexivity. Qed.
Lemma co_nonneg a : 0 <= count_ones a.
Proof.
  destruct a; cbn; try lia. induction p; cbn [popcount_pos]; lia.
Qed.

Lemma co_pow2_add (k : nat) : forall r, 0 <= r < 2 ^ Z.of_nat k -> count_ones (2 ^ Z.of_nat k + r) = 1 + count_ones r.
Proof.
  induction k as [|k IH]; intros r Hr.
  - change (2 ^ Z.of_nat 0) with 1 in *. assert (r = 0) by lia. subst. reflexivity.
  - rewrite p2_S in *. pose proof (p2_nat_pos k).
    assert (E : r = 2 * (r / 2) + r mod 2) by (apply Z.div_mod; lia).
    assert (Hb : r mod 2 = 0 \/ r mod 2 = 1) by (pose proof (Z.mod_pos_bound r 2); lia).
    assert (Hq : 0 <= r / 2 < 2 ^ Z.of_nat k) by (split; [apply Z.div_pos; lia | apply Z.div_lt_upper_bound; lia]).
    destruct Hb as [Hb|Hb]; rewrite Hb in E.
    + replace (2 * 2 ^ Z.of_nat k + r) with (2 * (2 ^ Z.of_nat k + r / 2)) by lia.
      rewrite co_double by lia. rewrite IH by lia.
      rewrite E at 2. replace (2 * (r / 2) + 0) with (2 * (r / 2)) by lia. rewrite co_double by lia. reflexivity.
    + replace (2 * 2 ^ Z.of_nat k + r) with (2 * (2 ^ Z.of_nat k + r / 2) + 1) by lia.
      rewrite co_succ_double by lia. rewrite IH by lia.
      rewrite E at 2. rewrite co_succ_double by lia. reflexivity.
Qed.

(* ---------------------------------------------------------------- trailing zeros *)
Definition tz (x : Z) : Z := match x with Zpos p => tz_pos p | _ => 0 end.
Lemma tz_double a : 0 < a -> tz (2 * a) = 1 + tz a.
Proof. intros. destruct a; try lia; reflexivity. Qed.
Lemma tz_odd a : 0 <= a -> tz (2 * a + 1) = 0.
Proof. intros. destruct a; try lia; reflexivity. Qed.
Lemma tz_nonneg x : 0 <= tz x.
Proof. destruct x; cbn; try lia. induction p; cbn [tz_pos]; lia. Qed.

Lemma tz_pow2 (k : nat) : tz (2 ^ Z.of_nat k) = Z.of_nat k.
Proof.
  induction k as [|k IH]; [reflexivity|].
  rewrite p2_S. rewrite tz_double by apply p2_nat_pos. lia.
Qed.

Lemma tz_pow2_add (k : nat) : forall x, 0 < x < 2 ^ Z.of_nat k -> tz (2 ^ Z.of_nat k + x) = tz x.
Proof.
  induction k as [|k IH]; intros x Hx.
  - change (2 ^ Z.of_nat 0) with 1 in *. lia.
  - rewrite p2_S in *. pose proof (p2_nat_pos k).
    assert (E : x = 2 * (x / 2) + x mod 2) by (apply Z.div_mod; lia).
    assert (Hb : x mod 2 = 0 \/ x mod 2 = 1) by (pose proof (Z.mod_pos_bound x 2); lia).
    destruct Hb as [Hb|Hb]; rewrite Hb in E.
    + assert (Hq : 0 < x / 2 < 2 ^ Z.of_nat k) by lia.
      replace (2 * 2 ^ Z.of_nat k + x) with (2 * (2 ^ Z.of_nat k + x / 2)) by lia.
      rewrite tz_double by lia. rewrite IH by lia.
      rewrite E at 2. replace (2 * (x / 2) + 0) with (2 * (x / 2)) by lia. rewrite tz_double by lia. reflexivity.
    + assert (Hq : 0 <= x / 2) by (apply Z.div_pos; lia).
      replace (2 * 2 ^ Z.of_nat k + x) with (2 * (2 ^ Z.of_nat k + x / 2) + 1) by lia.
      rewrite tz_odd by lia. rewrite E. rewrite tz_odd by lia. reflexivity.
Qed.

(* ---------------------------------------------------------------- x & -x *)
Lemma land_2b a b (x y : bool) :
  Z.land (2 * a + Z.b2z x) (2 * b + Z.b2z y) = 2 * Z.land a b + Z.b2z (x && y).
Proof.
  apply Z.bits_inj'. intros n Hn.
  rewrite Z.land_spec.
  destruct (Z.eq_dec n 0) as [->|Hn0].
  - rewrite !Z.testbit_0_r. reflexivity.
  - replace n with (Z.succ (n - 1)) by lia.
    rewrite !Z.testbit_succ_r by lia. rewrite Z.land_spec. reflexivity.
Qed.

Lemma land_neg_pos p : Z.land (Zpos p) (- Zpos p) = 2 ^ tz_pos p.
Proof.
  induction p as [p IH|p IH|].
  - (* 2p+1 : -(2p+1) = 2 * (-p-1) + 1 *)
    change (Zpos p~1) with (2 * Zpos p + Z.b2z true).
    replace (- (2 * Zpos p + Z.b2z true)) with (2 * (Z.lnot (Zpos p)) + Z.b2z true)
      by (unfold Z.lnot; cbn [Z.b2z]; lia).
    rewrite land_2b. rewrite Z.land_lnot_diag. reflexivity.
  - change (Zpos p~0) with (2 * Zpos p + Z.b2z false).
    replace (- (2 * Zpos p + Z.b2z false)) with (2 * (- Zpos p) + Z.b2z false) by (cbn [Z.b2z]; lia).
    rewrite land_2b. rewrite IH. cbn [andb Z.b2z tz_pos].
    assert (0 <= tz_pos p) by (clear; induction p; cbn [tz_pos]; lia).
    rewrite Z.pow_add_r by lia. change (2 ^ 1) with 2. lia.
  - reflexivity.
Qed.

(* (x) & !(x - 1) on 64 bits isolates the lowest set bit of x *)
Lemma land_wnot x : 0 < x < 2 ^ 64 -> Z.land x (wnot 64 (x - 1)) = 2 ^ tz x.
Proof.
  intros Hx. unfold wnot.
  replace (2 ^ 64 - 1 - (x - 1)) with ((- x) mod 2 ^ 64).
  2:{ symmetry. pose proof (p2_pos 64 ltac:(lia)). apply Z.mod_unique with (q := -1); [left|]; lia. }
  rewrite <- Z.land_ones by lia.
  rewrite Z.land_assoc. rewrite (Z.land_comm x (- x)). rewrite <- Z.land_assoc.
  rewrite (Z.land_ones x 64) by lia. rewrite Z.mod_small by lia.
  rewrite Z.land_comm.
  destruct x; try lia. apply land_neg_pos.
Qed.

(* ---------------------------------------------------------------- xor / masks *)
Lemma land_pow2_small (k : nat) x : 0 <= x < 2 ^ Z.of_nat k -> Z.land (2 ^ Z.of_nat k) x = 0.
Proof.
  intros Hx. apply Z.bits_inj'. intros n Hn.
  rewrite Z.land_spec, Z.bits_0, Z.pow2_bits_eqb by lia.
  destruct (Z.eqb_spec (Z.of_nat k) n) as [<-|]; [|reflexivity].
  cbn [andb]. destruct (Z.eq_dec x 0) as [->|]; [apply Z.bits_0|].
  apply Z.bits_above_log2; [lia|]. apply Z.log2_lt_pow2; lia.
Qed.

Lemma pow2_add_lxor (k : nat) x : 0 <= x < 2 ^ Z.of_nat k -> 2 ^ Z.of_nat k + x = Z.lxor (2 ^ Z.of_nat k) x.
Proof. intros. apply Z.add_nocarry_lxor. apply land_pow2_small; assumption. Qed.

Lemma lxor_small (k : nat) a b : 0 <= a < 2 ^ Z.of_nat k -> 0 <= b < 2 ^ Z.of_nat k ->
  0 <= Z.lxor a b < 2 ^ Z.of_nat k.
Proof.
  intros Ha Hb. assert (H0 : 0 <= Z.lxor a b) by (apply Z.lxor_nonneg; lia).
  split; [exact H0|].
  destruct (Z.eq_dec (Z.lxor a b) 0) as [->|Hne]; [apply p2_nat_pos|].
  apply Z.log2_lt_pow2; [lia|].
  pose proof (Z.log2_lxor a b ltac:(lia) ltac:(lia)) as Hl.
  destruct k as [|k].
  { change (2 ^ Z.of_nat 0) with 1 in *. assert (a = 0) by lia. assert (b = 0) by lia. subst. cbn in Hne. lia. }
  assert (Z.log2 a < Z.of_nat (S k)).
  { destruct (Z.eq_dec a 0) as [->|]; [cbn; lia|apply Z.log2_lt_pow2; lia]. }
  assert (Z.log2 b < Z.of_nat (S k)).
  { destruct (Z.eq_dec b 0) as [->|]; [cbn; lia|apply Z.log2_lt_pow2; lia]. }
  lia.
Qed.

(* one number below the top bit, the other carrying it *)
Lemma lxor_top_one (k : nat) i r : 0 <= i < 2 ^ Z.of_nat k -> 0 <= r < 2 ^ Z.of_nat k ->
  Z.lxor i (2 ^ Z.of_nat k + r) = 2 ^ Z.of_nat k + Z.lxor i r.
Proof.
  intros Hi Hr. rewrite (pow2_add_lxor k r) by lia.
  rewrite <- Z.lxor_assoc. rewrite (Z.lxor_comm i). rewrite Z.lxor_assoc.
  symmetry. apply pow2_add_lxor. apply lxor_small; assumption.
Qed.

(* both carrying the top bit *)
Lemma lxor_top_both (k : nat) i r : 0 <= i < 2 ^ Z.of_nat k -> 0 <= r < 2 ^ Z.of_nat k ->
  Z.lxor (2 ^ Z.of_nat k + i) (2 ^ Z.of_nat k + r) = Z.lxor i r.
Proof.
  intros Hi Hr. rewrite (pow2_add_lxor k r), (pow2_add_lxor k i) by lia.
  rewrite (Z.lxor_comm (2 ^ Z.of_nat k) i). rewrite Z.lxor_assoc.
  rewrite <- (Z.lxor_assoc (2 ^ Z.of_nat k)). rewrite Z.lxor_nilpotent. rewrite Z.lxor_0_l. reflexivity.
Qed.

Lemma log2_pow2_add (k : nat) y : 0 <= y < 2 ^ Z.of_nat k -> Z.log2 (2 ^ Z.of_nat k + y) = Z.of_nat k.
Proof. intros. apply Z.log2_unique; [lia|]. rewrite Z.pow_succ_r by lia. lia. Qed.

Lemma land_mask a h : 0 <= h -> Z.land a (2 ^ h - 1) = a mod 2 ^ h.
Proof. intros. rewrite <- Z.land_ones by lia. rewrite Z.ones_equiv. reflexivity. Qed.
