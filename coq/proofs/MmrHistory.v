(* MmrHistory.v - C11 history_commits in full: appends, single mutations and batch mutations. *)
From Coq Require Import ZArith List Bool Lia.
From TF Require Import Word MmrIdxLocal Mmr MmrSpec MmrBits MmrNodes MmrProofs MmrPaths MmrUpdates MmrBatch.
Import ListNotations.
Open Scope Z_scope.

Section HistoryFull.
Variable D : Type.
Variable H : D -> D -> D.
Variable deq : D -> D -> bool.
Variable dflt : D.
Hypothesis deq_spec : forall x y, deq x y = true <-> x = y.

Lemma zlength_apply_muts : forall (ms : list (Z * D)) ls, zlength (apply_muts D ls ms) = zlength ls.
Proof.
  induction ms as [|m ms IH]; intros ls; [reflexivity|].
  unfold apply_muts. cbn [fold_left]. fold (apply_muts D (upd ls (fst m) (snd m)) ms). rewrite IH. apply zlength_upd.
Qed.

Lemma with_proofs_id ls (lms : list (leaf_mutation D)) :
  Forall (fun lm => snd lm = path D H dflt ls (fst (fst lm))) lms ->
  with_proofs D H dflt ls (map fst lms) = lms.
Proof.
  intros Hall. unfold with_proofs. rewrite map_map.
  induction lms as [|[[i d] p] lms IH]; [reflexivity|].
  cbn [map fst snd]. pose proof (Forall_inv Hall) as Hp. cbn [fst snd] in Hp. rewrite <- Hp.
  f_equal. apply IH. exact (Forall_inv_tail Hall).
Qed.

Lemma step_batch a ls (lms : list (leaf_mutation D)) :
  commits D H dflt a ls -> zlength ls < 2 ^ 63 -> mop_valid D H dflt ls (MBatch D lms) ->
  acc_step D H deq a (MBatch D lms) =
  Some (zlength (apply_muts D ls (map fst lms)), peaks_spec D H dflt (apply_muts D ls (map fst lms))).
Proof.
  intros Hc Hl [Hov Hpr]. unfold commits in Hc. subst a.
  cbn [erase op_valid] in Hov. apply andb_true_iff in Hov. destruct Hov as [Hdist Hrange].
  assert (Hin : inrange D ls (map fst lms)).
  { unfold inrange. apply Forall_forall. intros m Hm. rewrite forallb_forall in Hrange.
    specialize (Hrange m Hm). apply in_range_spec in Hrange. exact Hrange. }
  destruct (bmlu_spec D H deq dflt deq_spec ls Hl (map fst lms) [] Hin Hdist (Forall_nil _)) as (md & Hb & _).
  rewrite (with_proofs_id ls lms Hpr) in Hb. cbn [map] in Hb.
  cbn [acc_step].
  match goal with |- context [batch_mutate_leaf_and_update_mps ?a ?b ?c ?e ?f ?g ?h] =>
    replace (batch_mutate_leaf_and_update_mps a b c e f g h) with
      (Some (zlength ls, peaks_spec D H dflt (apply_muts D ls (map fst lms)), @nil (list D), md)) by (symmetry; exact Hb) end.
  rewrite zlength_apply_muts. reflexivity.
Qed.

(* C11 history_commits: after any valid history the accumulator is the one built from scratch *)
Theorem history_commits : forall (ops : list (mop D)) ls a,
  commits D H dflt a ls -> zlength ls < 2 ^ 63 -> mops_valid D H dflt ls ops ->
  acc_run D H deq a ops =
  Some (zlength (run D ls (map (erase D) ops)), peaks_spec D H dflt (run D ls (map (erase D) ops))) /\
  zlength (run D ls (map (erase D) ops)) < 2 ^ 63.
Proof.
  induction ops as [|o ops IH]; intros ls a Hc Hl Hv.
  - cbn [map run acc_run]. rewrite Hc. auto.
  - cbn [mops_valid] in Hv. destruct Hv as [Hov Hv].
    cbn [map run acc_run].
    destruct o as [d|i d mp|lms].
    + destruct Hov as [Hov _]. cbn [erase op_valid] in Hov. apply Z.ltb_lt in Hov.
      rewrite (step_append D H deq dflt a ls d Hc Hov).
      apply IH; [reflexivity | | exact Hv].
      cbn [erase apply]. rewrite zlength_app. change (zlength [d]) with 1. exact Hov.
    + destruct Hov as [Hov Hp]. cbn [erase op_valid] in Hov. apply in_range_spec in Hov. subst mp.
      rewrite (step_mutate D H deq dflt a ls i d Hc Hov Hl).
      apply IH; [reflexivity | | exact Hv].
      cbn [erase apply]. rewrite zlength_upd. exact Hl.
    + rewrite (step_batch a ls lms Hc Hl Hov).
      apply IH; [reflexivity | | exact Hv].
      cbn [erase apply]. rewrite zlength_apply_muts. exact Hl.
Qed.

End HistoryFull.
