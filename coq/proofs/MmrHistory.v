(* MmrHistory.v - C11 history_commits in full: appends, single mutations and batch mutations. *)
From Coq Require Import ZArith List Bool Lia.
From TF Require Import Word MmrIdxLocal Mmr MmrSpec MmrBits MmrNodes MmrProofs MmrPaths MmrUpdates MmrBatch.
Import ListNotations.
Open Scope Z_scope.

Section HistoryFull.
Variable D : Type.
Variable H : D -> D -> D.
Variable deq : D -> D -> bool.
Variable dflt : D.
Hypothesis deq_spec : forall x y, deq x y = true <-> x = y.

Lemma zlength_apply_muts : forall (ms : list (Z * D)) ls, zlength (apply_muts D ls ms) = zlength ls.
Proof.
  induction ms as [|m ms IH]; intros ls; [reflexivity|].
  unfold apply_muts. cbn [fold_left]. fold (apply_muts D (upd ls (fst m) (snd m)) ms). rewrite IH. apply zlength_upd.
Qed.

Lemma with_proofs_id ls (lms : list (leaf_mutation D)) :
  Forall (fun lm => snd lm = path D H dflt ls (fst (fst lm))) lms ->
  with_proofs D H dflt ls (map fst lms) = lms.
Proof.
  intros Hall. unfold with_proofs. rewrite map_map.
  induction lms as [|[[i d] p] lms IH]; [reflexivity|].
  cbn [map fst snd]. pose proof (Forall_inv Hall) as Hp. cbn [fst snd] in Hp. rewrite <- Hp.
  f_equal. apply IH. exact (Forall_inv_tail Hall).
Qed.

Lemma step_batch a ls (lms : list (leaf_mutation D)) :
  commits D H dflt a ls -> zlength ls < 2 ^ 63 -> mop_valid D H dflt ls (MBatch D lms) ->
  acc_step D H deq a (MBatch D lms) =
  Some (zlength (apply_muts D ls (map fst lms)), peaks_spec D H dflt (apply_muts D ls (map fst lms))).
Proof.
  intros Hc Hl [Hov Hpr]. unfold commits in Hc. subst a.
  cbn [erase op_valid] in Hov. apply andb_true_iff in Hov. destruct Hov as [Hdist Hrange].
  assert (Hin : inrange D ls (map fst lms)).
  { unfold inrange. apply Forall_forall. intros m Hm. rewrite forallb_forall in Hrange.
    specialize (Hrange m Hm). apply in_range_spec in Hrange. exact Hrange. }
  destruct (bmlu_spec D H deq dflt deq_spec ls Hl (map fst lms) [] Hin Hdist (Forall_nil _)) as (md & Hb & _).
  rewrite (with_proofs_id ls lms Hpr) in Hb. cbn [map] in Hb.
  cbn [acc_step].
  match goal with |- context [batch_mutate_leaf_and_update_mps ?a ?b ?c ?e ?f ?g ?h] =>
    replace (batch_mutate_leaf_and_update_mps a b c e f g h) with
      (Some (zlength ls, peaks_spec D H dflt (apply_muts D ls (map fst lms)), @nil (list D), md)) by (symmetry; exact Hb) end.
  rewrite zlength_apply_muts. reflexivity.
Qed.

(* C11 history_commits: after any valid history the accumulator is the one built from scratch *)
Theorem history_commits : forall (ops : list (mop D)) ls a,
  commits D H dflt a ls -> zlength ls < 2 ^ 63 -> mops_valid D H dflt ls ops ->
  acc_run D H deq a ops =
  Some (zlength (run D ls (map (erase D) ops)), peaks_spec D H dflt (run D ls (map (erase D) ops))) /\
  zlength (run D ls (map (erase D) ops)) < 2 ^ 63.
Proof.
  induction ops as [|o ops IH]; intros ls a Hc Hl Hv.
  - cbn [map run acc_run]. rewrite Hc. auto.
  - cbn [mops_valid] in Hv. destruct Hv as [Hov Hv].
    cbn [map run acc_run].
    destruct o as [d|i d mp|lms].
    + destruct Hov as [Hov _]. cbn [erase op_valid] in Hov. apply Z.ltb_lt in Hov.
      rewrite (step_append D H deq dflt a ls d Hc Hov).
      apply IH; [reflexivity | | exact Hv].
      cbn [erase apply]. rewrite zlength_app. change (zlength [d]) with 1. exact Hov.
    + destruct Hov as [Hov Hp]. cbn [erase op_valid] in Hov. apply in_range_spec in Hov. subst mp.
      rewrite (step_mutate D H deq dflt a ls i d Hc Hov Hl).
      apply IH; [reflexivity | | exact Hv].
      cbn [erase apply]. rewrite zlength_upd. exact Hl.
    + rewrite (step_batch a ls lms Hc Hl Hov).
      apply IH; [reflexivity | | exact Hv].
      cbn [erase apply]. rewrite zlength_apply_muts. exact Hl.
Qed.

End HistoryFull.

(* ---------------------------------------------------------------------------------------------------
   C05 history invariant: accumulator + tracked membership proofs through histories.
   The steps for mutations and batch mutations are proved; the step for an append uses the hypothesis
   `append_exact` (= the still open general statement about batch_update_from_append), so the theorem
   below is history_inv MODULO that one statement. *)
Section TrackedHistory.
Variable D : Type.
Variable H : D -> D -> D.
Variable deq : D -> D -> bool.
Variable dflt : D.
Hypothesis deq_spec : forall x y, deq x y = true <-> x = y.

Definition append_exact : Prop :=
  forall (ls : list D) (d : D) (idxs : list Z),
    zlength ls + 1 < 2 ^ 63 -> Forall (fun i => 0 <= i < zlength ls) idxs ->
    exists md, batch_update_from_append D H (map (path D H dflt ls) idxs) idxs (zlength ls) d (peaks_spec D H dflt ls) =
               Some (map (path D H dflt (ls ++ [d])) idxs, md).

Definition tstate : Type := (accumulator D * list (Z * mproof D))%type.

Inductive top : Type :=
| TAppend (d : D) (track : bool)
| TMutate (i : Z) (d : D) (mp : mproof D)
| TBatch (lms : list (leaf_mutation D)).

Definition terase (o : top) : mop D :=
  match o with
  | TAppend d _ => MAppend D d
  | TMutate i d mp => MMutate D i d mp
  | TBatch lms => MBatch D lms
  end.

Definition retrack (tr : list (Z * mproof D)) (mps : list (mproof D)) : list (Z * mproof D) :=
  combine (map fst tr) mps.

Definition tstep (st : tstate) (o : top) : option tstate :=
  let '(a, tr) := st in
  match o with
  | TAppend d track =>
    let? (mps, _) := batch_update_from_append D H (map snd tr) (map fst tr) (fst a) d (snd a) in
    let? (a', mp) := acc_append D H a d in
    Some (a', retrack tr mps ++ (if track then [(fst a, mp)] else []))
  | TMutate i d mp =>
    let? (mps, _) := batch_update_from_leaf_mutation D H deq (map snd tr) (map fst tr) (i, d, mp) in
    let? a' := acc_mutate_leaf D H a (i, d, mp) in
    Some (a', retrack tr mps)
  | TBatch lms =>
    let? (r, _) := batch_mutate_leaf_and_update_mps D H deq a (map snd tr) (map fst tr) lms in
    Some (fst r, retrack tr (snd r))
  end.

(* the accumulator commits to ls and every tracked proof is the authentication path of its leaf *)
Definition tinv (st : tstate) (ls : list D) : Prop :=
  commits D H dflt (fst st) ls /\
  Forall (fun t => 0 <= fst t < zlength ls /\ snd t = path D H dflt ls (fst t)) (snd st).

Lemma tracked_paths ls (tr : list (Z * mproof D)) :
  Forall (fun t => 0 <= fst t < zlength ls /\ snd t = path D H dflt ls (fst t)) tr ->
  map snd tr = map (path D H dflt ls) (map fst tr) /\ Forall (fun i => 0 <= i < zlength ls) (map fst tr).
Proof.
  induction tr as [|t tr IH]; intros Hall; [split; [reflexivity|constructor]|].
  pose proof (Forall_inv Hall) as [Hr Hp]. destruct (IH (Forall_inv_tail Hall)) as [IH1 IH2].
  cbn [map]. split; [f_equal; [exact Hp|exact IH1]|constructor; assumption].
Qed.

Lemma retrack_inv (ls ls' : list D) (tr : list (Z * mproof D)) :
  zlength ls <= zlength ls' -> Forall (fun i => 0 <= i < zlength ls) (map fst tr) ->
  Forall (fun t => 0 <= fst t < zlength ls' /\ snd t = path D H dflt ls' (fst t))
         (retrack tr (map (path D H dflt ls') (map fst tr))).
Proof.
  intros Hle. unfold retrack. induction (map fst tr) as [|i is IH]; intros Hall; [constructor|].
  cbn [map combine]. constructor.
  - cbn [fst snd]. pose proof (Forall_inv Hall) as Hi. cbv beta in Hi. split; [lia|reflexivity].
  - apply IH. exact (Forall_inv_tail Hall).
Qed.

Theorem tstep_inv (Happ : append_exact) st ls o :
  tinv st ls -> zlength ls < 2 ^ 63 -> mop_valid D H dflt ls (terase o) ->
  exists st', tstep st o = Some st' /\ tinv st' (apply D ls (erase D (terase o))) /\
              zlength (apply D ls (erase D (terase o))) < 2 ^ 63.
Proof.
  intros [Hc Htr] Hl Hv. destruct st as [a tr]. cbn [fst snd] in *. unfold commits in Hc. subst a.
  destruct (tracked_paths ls tr Htr) as [Emps Hidx].
  destruct o as [d track|i d mp|lms]; cbn [terase erase apply tstep fst snd] in *.
  - destruct Hv as [Hov _]. cbn [erase op_valid] in Hov. apply Z.ltb_lt in Hov.
    destruct (Happ ls d (map fst tr) Hov Hidx) as (md & Hb).
    rewrite Emps. rewrite Hb. cbn [obind].
    rewrite (acc_append_spec D H dflt ls d Hov). cbn [obind].
    eexists. split; [reflexivity|]. split; [split|].
    + reflexivity.
    + cbn [snd]. apply Forall_app. split.
      * apply (retrack_inv ls); [rewrite zlength_app; change (zlength [d]) with 1; lia|exact Hidx].
      * destruct track; [|constructor]. constructor; [|constructor]. cbn [fst snd].
        rewrite zlength_app. change (zlength [d]) with 1. pose proof (zlength_nonneg ls). split; [lia|reflexivity].
    + rewrite zlength_app. change (zlength [d]) with 1. exact Hov.
  - destruct Hv as [Hov Hp]. cbn [erase op_valid] in Hov. apply in_range_spec in Hov. subst mp.
    destruct (batch_update_from_leaf_mutation_spec D H deq dflt deq_spec ls i d (map fst tr) Hov Hl Hidx) as (md & Hb & _).
    rewrite Emps.
    match goal with |- context [batch_update_from_leaf_mutation ?a ?b ?c ?e ?f ?g] =>
      replace (batch_update_from_leaf_mutation a b c e f g) with
        (Some (map (path D H dflt (upd ls i d)) (map fst tr), md)) by (symmetry; exact Hb) end.
    cbn [obind].
    pose proof (step_mutate D H deq dflt (zlength ls, peaks_spec D H dflt ls) ls i d eq_refl Hov Hl) as Hm.
    cbn [acc_step] in Hm.
    match goal with |- context [acc_mutate_leaf ?a ?b ?c ?e] =>
      replace (acc_mutate_leaf a b c e) with (Some (zlength (upd ls i d), peaks_spec D H dflt (upd ls i d))) by (symmetry; exact Hm) end.
    cbn [obind].
    eexists. split; [reflexivity|]. split; [split|].
    + reflexivity.
    + cbn [snd]. apply (retrack_inv ls); [rewrite zlength_upd; lia|exact Hidx].
    + rewrite zlength_upd. exact Hl.
  - destruct Hv as [Hov Hpr]. cbn [erase op_valid] in Hov. apply andb_true_iff in Hov. destruct Hov as [Hdist Hrange].
    assert (Hin : inrange D ls (map fst lms)).
    { unfold inrange. apply Forall_forall. intros m Hm. rewrite forallb_forall in Hrange.
      specialize (Hrange m Hm). apply in_range_spec in Hrange. exact Hrange. }
    destruct (bmlu_spec D H deq dflt deq_spec ls Hl (map fst lms) (map fst tr) Hin Hdist Hidx) as (md & Hb & _).
    rewrite (with_proofs_id D H dflt ls lms Hpr) in Hb. rewrite Emps.
    match goal with |- context [batch_mutate_leaf_and_update_mps ?a ?b ?c ?e ?f ?g ?h] =>
      replace (batch_mutate_leaf_and_update_mps a b c e f g h) with
        (Some (zlength ls, peaks_spec D H dflt (apply_muts D ls (map fst lms)),
               map (path D H dflt (apply_muts D ls (map fst lms))) (map fst tr), md)) by (symmetry; exact Hb) end.
    cbn [obind fst snd].
    eexists. split; [reflexivity|]. split; [split|].
    + cbn [fst]. unfold commits. rewrite zlength_apply_muts. reflexivity.
    + cbn [snd]. apply (retrack_inv ls); [rewrite zlength_apply_muts; lia|exact Hidx].
    + rewrite zlength_apply_muts. exact Hl.
Qed.

Fixpoint trun (st : tstate) (ops : list top) : option tstate :=
  match ops with
  | [] => Some st
  | o :: r => match tstep st o with Some st' => trun st' r | None => None end
  end.

(* history_inv (modulo append_exact): after any valid history every tracked proof is the authentication path
   of its leaf in the current list, and the accumulator commits to that list *)
Theorem history_inv (Happ : append_exact) : forall ops st ls,
  tinv st ls -> zlength ls < 2 ^ 63 -> mops_valid D H dflt ls (map terase ops) ->
  exists st', trun st ops = Some st' /\ tinv st' (run D ls (map (erase D) (map terase ops))).
Proof.
  induction ops as [|o ops IH]; intros st ls Hi Hl Hv.
  - exists st. split; [reflexivity|exact Hi].
  - cbn [map mops_valid] in Hv. destruct Hv as [Ho Hv].
    destruct (tstep_inv Happ st ls o Hi Hl Ho) as (st1 & Hs & Hi1 & Hl1).
    cbn [trun map run]. rewrite Hs. apply IH; assumption.
Qed.

End TrackedHistory.
