(* MmrIdxTie.v - the index functions of the C05/C11/C12 model (model/MmrIdxLocal.v, hand-written) are the index
   functions of C16: gen/MmrIndexGen.v (REGENERATED from shared_basic.rs / shared_advanced.rs on every run) with
   their side conditions, and the loops of model/MmrIndex.v around them.  Every equation holds for ALL u64
   arguments (panic / overflow / fuel outcomes included), so every call the MMR model makes is a call of the
   regenerated code. *)
From Coq Require Import ZArith List Bool Lia.
From TF Require Import Word MmrIndexGen MmrIndex MmrIndexBits MmrIndexProofs MmrIndexMain.
From TF Require Import MmrIdxLocal MmrBits MmrNodes MmrUpdates MmrAppend MmrSuccComplete.
Import ListNotations.
Open Scope Z_scope.
Ltac Zify.zify_post_hook ::= Z.div_mod_to_equations.

Ltac lits :=
  change (2 ^ 64) with 18446744073709551616 in *;
  change (2 ^ 63) with 9223372036854775808 in *;
  change (2 ^ 32) with 4294967296 in *;
  change (2 ^ 128) with 340282366920938463463374607431768211456 in *.

(* ---------------------------------------------------------------- straight-line functions *)
Theorem tie_l2n i : 0 <= i < 2 ^ 64 -> l2n i = mm_leaf_index_to_node_index i.
Proof.
  intros Hi. unfold l2n, mm_leaf_index_to_node_index, mm_chk, two63.
  destruct (Z.ltb_spec i 9223372036854775808) as [Hlt|Hge].
  - destruct (leaf_index_to_node_index_val i ltac:(lits; lia)) as [-> ->]. reflexivity.
  - replace (leaf_index_to_node_index_ok i) with false; [reflexivity|].
    unfold leaf_index_to_node_index_ok, mul_ok. lits. cbv zeta.
    destruct (Z.ltb_spec (2 * i) 18446744073709551616); [lia|reflexivity].
Qed.

Theorem tie_num_nodes n : 0 <= n < 2 ^ 64 -> num_nodes n = mm_num_leafs_to_num_nodes n.
Proof.
  intros Hn. unfold num_nodes, mm_num_leafs_to_num_nodes, mm_chk, two63.
  destruct (Z.ltb_spec n 9223372036854775808) as [Hlt|Hge].
  - destruct (num_leafs_to_num_nodes_val n ltac:(lits; lia)) as [-> ->]. reflexivity.
  - replace (num_leafs_to_num_nodes_ok n) with false; [reflexivity|].
    unfold num_leafs_to_num_nodes_ok, mul_ok. lits. cbv zeta.
    destruct (Z.ltb_spec (2 * n) 18446744073709551616); [lia|reflexivity].
Qed.

Theorem tie_left_sibling x h : 0 <= x < 2 ^ 64 -> 0 <= h < 2 ^ 32 ->
  MmrIdxLocal.left_sibling x h = mm_left_sibling x h.
Proof.
  intros Hx Hh. unfold MmrIdxLocal.left_sibling, mm_left_sibling, mm_chk, shl1.
  destruct (Z.leb_spec 0 (h + 1)); [|lia].
  destruct (Z.ltb_spec (h + 1) 64) as [Hlt|Hge]; cbn [andb obind].
  - pose proof (pow2_pos (h + 1) ltac:(lia)) as Hp. pose proof (pow2_lt (h + 1) 64 ltac:(lia)) as Hq.
    unfold sub64, add64, two64.
    destruct (Z.leb_spec (2 ^ (h + 1)) x) as [Hle|Hgt]; cbn [obind].
    + destruct (left_sibling_val x h ltac:(lia) ltac:(lia)) as [-> ->].
      destruct (Z.ltb_spec (x - 2 ^ (h + 1) + 1) 18446744073709551616); [reflexivity|lits; lia].
    + replace (left_sibling_ok x h) with false; [reflexivity|].
      unfold left_sibling_ok. rewrite wadd32_small by (lits; lia). rewrite wshl64_1, shift_ok_64 by lia.
      unfold add_ok at 1, sub_ok. lits.
      destruct (Z.ltb_spec (h + 1) 4294967296); [|lia]. cbn [andb].
      destruct (Z.leb_spec (2 ^ (h + 1)) x); [lia|reflexivity].
  - replace (left_sibling_ok x h) with false; [reflexivity|].
    unfold left_sibling_ok, add_ok at 1, shift_ok. lits.
    destruct (Z.ltb_spec (h + 1) 4294967296) as [H32|H32]; [|reflexivity]. cbn [andb].
    rewrite wadd32_small by (lits; lia).
    destruct (Z.leb_spec 0 (h + 1)); [|lia]. destruct (Z.ltb_spec (h + 1) 64); [lia|reflexivity].
Qed.

Theorem tie_right_sibling x h : 0 <= x < 2 ^ 64 -> 0 <= h < 2 ^ 32 ->
  MmrIdxLocal.right_sibling x h = mm_right_sibling x h.
Proof.
  intros Hx Hh. unfold MmrIdxLocal.right_sibling, mm_right_sibling, mm_chk, shl1.
  destruct (Z.leb_spec 0 (h + 1)); [|lia].
  destruct (Z.ltb_spec (h + 1) 64) as [Hlt|Hge]; cbn [andb obind].
  - pose proof (pow2_pos (h + 1) ltac:(lia)) as Hp. pose proof (pow2_lt (h + 1) 64 ltac:(lia)) as Hq.
    unfold sub64, add64, two64.
    destruct (Z.ltb_spec (x + 2 ^ (h + 1)) 18446744073709551616) as [Hle|Hgt]; cbn [obind].
    + destruct (right_sibling_val x h ltac:(lia) ltac:(lia) ltac:(lits; lia)) as [-> ->].
      destruct (Z.leb_spec 1 (x + 2 ^ (h + 1))); [reflexivity|lia].
    + replace (right_sibling_ok x h) with false; [reflexivity|].
      unfold right_sibling_ok. rewrite wadd32_small by (lits; lia). rewrite wshl64_1, shift_ok_64 by lia.
      unfold add_ok. lits.
      destruct (Z.ltb_spec (h + 1) 4294967296); [|lia]. cbn [andb].
      destruct (Z.ltb_spec (x + 2 ^ (h + 1)) 18446744073709551616); [lia|reflexivity].
  - replace (right_sibling_ok x h) with false; [reflexivity|].
    unfold right_sibling_ok, add_ok at 1, shift_ok. lits.
    destruct (Z.ltb_spec (h + 1) 4294967296) as [H32|H32]; [|reflexivity]. cbn [andb].
    rewrite wadd32_small by (lits; lia).
    destruct (Z.leb_spec 0 (h + 1)); [|lia]. destruct (Z.ltb_spec (h + 1) 64); [lia|reflexivity].
Qed.

Theorem tie_leftmost_ancestor x : 0 <= x < 2 ^ 64 -> MmrIdxLocal.leftmost_ancestor x = mm_leftmost_ancestor x.
Proof.
  intros Hx. unfold mm_leftmost_ancestor, mm_chk.
  destruct (Z.eq_dec x 0) as [->|Hne]; [reflexivity|].
  unfold MmrIdxLocal.leftmost_ancestor, leftmost_ancestor_ok, MmrIndexGen.leftmost_ancestor, leading_zeros, bitlen.
  destruct (Z.leb_spec x 0); [lia|].
  destruct (Z.eqb_spec x 0) as [|_]; [lia|].
  pose proof (Z.log2_spec x ltac:(lia)) as Hl. pose proof (Z.log2_nonneg x) as Hn0.
  assert (Hl63 : Z.log2 x < 64) by (apply Z.log2_lt_pow2; lia).
  destruct (Z.eqb_spec (64 - (Z.log2 x + 1)) 0) as [E|E]; [reflexivity|].
  assert (E1 : wsub 32 64 (64 - (Z.log2 x + 1)) = Z.log2 x + 1) by (rewrite wsub32_small by (lits; lia); lia).
  rewrite E1. assert (E2 : wsub 32 (Z.log2 x + 1) 1 = Z.log2 x) by (rewrite wsub32_small by (lits; lia); lia).
  rewrite E2. cbv zeta.
  assert (E3 : wadd 32 (Z.log2 x) 1 = Z.log2 x + 1) by (apply wadd32_small; lits; lia).
  rewrite E3. rewrite wshl64_1, shift_ok_64 by lia.
  pose proof (pow2_pos (Z.log2 x + 1) ltac:(lia)) as Hp.
  pose proof (pow2_lt (Z.log2 x + 1) 64 ltac:(lia)) as Hq.
  rewrite wsub64_small by lia.
  replace (sub_ok 64 (64 - (Z.log2 x + 1)) && sub_ok (Z.log2 x + 1) 1 && (add_ok 32 (Z.log2 x) 1 && true && sub_ok (2 ^ (Z.log2 x + 1)) 1)) with true
    by (unfold sub_ok, add_ok; lits; lia).
  replace (64 - (64 - (Z.log2 x + 1)) - 1) with (Z.log2 x) by lia. reflexivity.
Qed.

Theorem tie_rll_leaf i : 0 <= i < 2 ^ 64 -> rll_leaf i = mm_right_lineage_length_from_leaf_index i.
Proof.
  intros Hi. unfold rll_leaf, mm_right_lineage_length_from_leaf_index, mm_chk, two64,
    right_lineage_length_from_leaf_index_ok, right_lineage_length_from_leaf_index, add_ok.
  lits. cbv zeta.
  destruct (Z.ltb_spec (i + 1) 18446744073709551616) as [Hlt|Hge]; cbn [andb]; [|reflexivity].
  rewrite wadd64_small by (lits; lia).
  set (pow2 := Z.land (i + 1) (wnot 64 i)).
  assert (Hp : 0 < pow2 < 2 ^ 64).
  { assert (Ep : pow2 = 2 ^ tz (i + 1)).
    { unfold pow2. replace (wnot 64 i) with (wnot 64 (i + 1 - 1)) by (f_equal; lia). apply land_wnot. lits. lia. }
    rewrite Ep. pose proof (tz_nonneg (i + 1)). split; [apply p2_pos; lia|].
    pose proof (tz_decomp (i + 1) ltac:(lia)) as (q & Hq & E).
    destruct (Z.lt_ge_cases (tz (i + 1)) 64) as [|Hge]; [apply p2_lt; lia|exfalso].
    assert (2 ^ 64 <= 2 ^ tz (i + 1)) by (apply p2_le; lia). lits. nia. }
  unfold leading_zeros, bitlen. destruct (Z.eqb_spec pow2 0); [lia|].
  pose proof (Z.log2_nonneg pow2). assert (Z.log2 pow2 < 64) by (apply Z.log2_lt_pow2; lia).
  replace (sub_ok 64 (64 - (Z.log2 pow2 + 1)) && sub_ok (wsub 32 64 (64 - (Z.log2 pow2 + 1))) 1) with true.
  2:{ rewrite wsub32_small by (lits; lia). unfold sub_ok. lia. }
  f_equal. rewrite !wsub32_small by (lits; try rewrite wsub32_small by (lits; lia); lia). reflexivity.
Qed.

Theorem tie_li_mt_pk i n : 0 <= i -> 0 <= n < 2 ^ 64 ->
  li_mt_pk i n = mm_leaf_index_to_mt_index_and_peak_index i n.
Proof.
  intros Hi Hn. unfold li_mt_pk, mm_leaf_index_to_mt_index_and_peak_index, mm_chk.
  destruct (Z.ltb_spec i n) as [Hlt|Hge].
  - destruct (leaf_index_to_mt_index_and_peak_index_correct n i ltac:(lia) ltac:(lia)) as [Hok _].
    rewrite Hok. f_equal.
    unfold leaf_index_to_mt_index_and_peak_index_ok in Hok. cbv zeta in Hok.
    repeat (apply andb_true_iff in Hok; destruct Hok as [? Hok]).
    unfold leaf_index_to_mt_index_and_peak_index. cbv zeta. unfold ilog2 in *.
    set (h := Z.log2 (Z.lxor i n)) in *.
    assert (Hh : 0 <= h) by apply Z.log2_nonneg.
    assert (Hp : 0 < 2 ^ h) by (apply p2_pos; lia).
    assert (Hw : wrap 64 (2 ^ h) = 2 ^ h) by (apply wrap_small; lia).
    rewrite Hw in *.
    assert (Hm : wsub 64 (2 ^ h) 1 = 2 ^ h - 1) by (apply wsub64_small; lia).
    rewrite Hm in *.
    assert (Hl0 : 0 <= Z.land (2 ^ h - 1) i) by (apply Z.land_nonneg; lia).
    unfold add_ok in *. rewrite wadd64_small by lia.
    pose proof (count_ones_nonneg (Z.land n (2 ^ h - 1))). pose proof (count_ones_lt64 n ltac:(lia)).
    unfold sub_ok in *.
    rewrite (wsub32_small (count_ones n)) in * by (lits; lia).
    rewrite wsub32_small by (lits; lia). reflexivity.
  - rewrite (main_mt_out_of_bounds n i Hge). reflexivity.
Qed.
