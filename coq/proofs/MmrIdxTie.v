(* MmrIdxTie.v - the index functions of the C05/C11/C12 model (model/MmrIdxLocal.v, hand-written) are the index
   functions of C16: gen/MmrIndexGen.v (REGENERATED from shared_basic.rs / shared_advanced.rs on every run) with
   their side conditions, and the loops of model/MmrIndex.v around them.  Every equation holds for ALL u64
   arguments (panic / overflow / fuel outcomes included), so every call the MMR model makes is a call of the
   regenerated code. *)
From Coq Require Import ZArith List Bool Lia.
From TF Require Import Word MmrIndexGen MmrIndex MmrIndexBits MmrIndexRef MmrIndexProofs MmrIndexMain.
From TF Require Import MmrIdxLocal MmrBits MmrNodes MmrUpdates MmrAppend MmrSuccComplete.
Import ListNotations.
Open Scope Z_scope.
Ltac Zify.zify_post_hook ::= Z.div_mod_to_equations.

Ltac lits :=
  change (2 ^ 64) with 18446744073709551616 in *;
  change (2 ^ 63) with 9223372036854775808 in *;
  change (2 ^ 32) with 4294967296 in *;
  change (2 ^ 128) with 340282366920938463463374607431768211456 in *.

(* ---------------------------------------------------------------- straight-line functions *)
Theorem tie_l2n i : 0 <= i < 2 ^ 64 -> l2n i = mm_leaf_index_to_node_index i.
Proof.
  intros Hi. unfold l2n, mm_leaf_index_to_node_index, mm_chk, two63.
  destruct (Z.ltb_spec i 9223372036854775808) as [Hlt|Hge].
  - destruct (leaf_index_to_node_index_val i ltac:(lits; lia)) as [-> ->]. reflexivity.
  - replace (leaf_index_to_node_index_ok i) with false; [reflexivity|].
    to_ref (leaf_index_to_node_index_ref i ltac:(u_range)).
    unfold Ref.leaf_index_to_node_index_ok, mul_ok. lits. cbv zeta.
    destruct (Z.ltb_spec (2 * i) 18446744073709551616); [lia|reflexivity].
Qed.

Theorem tie_num_nodes n : 0 <= n < 2 ^ 64 -> num_nodes n = mm_num_leafs_to_num_nodes n.
Proof.
  intros Hn. unfold num_nodes, mm_num_leafs_to_num_nodes, mm_chk, two63.
  destruct (Z.ltb_spec n 9223372036854775808) as [Hlt|Hge].
  - destruct (num_leafs_to_num_nodes_val n ltac:(lits; lia)) as [-> ->]. reflexivity.
  - replace (num_leafs_to_num_nodes_ok n) with false; [reflexivity|].
    to_ref (num_leafs_to_num_nodes_ref n ltac:(u_range)).
    unfold Ref.num_leafs_to_num_nodes_ok, mul_ok. lits. cbv zeta.
    destruct (Z.ltb_spec (2 * n) 18446744073709551616); [lia|reflexivity].
Qed.

Theorem tie_left_sibling x h : 0 <= x < 2 ^ 64 -> 0 <= h < 2 ^ 32 ->
  MmrIdxLocal.left_sibling x h = mm_left_sibling x h.
Proof.
  intros Hx Hh. unfold MmrIdxLocal.left_sibling, mm_left_sibling, mm_chk, shl1.
  destruct (Z.leb_spec 0 (h + 1)); [|lia].
  destruct (Z.ltb_spec (h + 1) 64) as [Hlt|Hge]; cbn [andb obind].
  - pose proof (pow2_pos (h + 1) ltac:(lia)) as Hp. pose proof (pow2_lt (h + 1) 64 ltac:(lia)) as Hq.
    unfold sub64, add64, two64.
    destruct (Z.leb_spec (2 ^ (h + 1)) x) as [Hle|Hgt]; cbn [obind].
    + destruct (left_sibling_val x h ltac:(lia) ltac:(lia)) as [-> ->].
      destruct (Z.ltb_spec (x - 2 ^ (h + 1) + 1) 18446744073709551616); [reflexivity|lits; lia].
    + replace (left_sibling_ok x h) with false; [reflexivity|].
      to_ref (left_sibling_ref x h ltac:(u_range) ltac:(u_range)).
      unfold Ref.left_sibling_ok. rewrite wadd32_small by (lits; lia). rewrite wshl64_1, shift_ok_64 by lia.
      unfold add_ok at 1, sub_ok. lits.
      destruct (Z.ltb_spec (h + 1) 4294967296); [|lia]. cbn [andb].
      destruct (Z.leb_spec (2 ^ (h + 1)) x); [lia|reflexivity].
  - replace (left_sibling_ok x h) with false; [reflexivity|].
    to_ref (left_sibling_ref x h ltac:(u_range) ltac:(u_range)).
    unfold Ref.left_sibling_ok, add_ok at 1, shift_ok. lits.
    destruct (Z.ltb_spec (h + 1) 4294967296) as [H32|H32]; [|reflexivity]. cbn [andb].
    rewrite wadd32_small by (lits; lia).
    destruct (Z.leb_spec 0 (h + 1)); [|lia]. destruct (Z.ltb_spec (h + 1) 64); [lia|reflexivity].
Qed.

Theorem tie_right_sibling x h : 0 <= x < 2 ^ 64 -> 0 <= h < 2 ^ 32 ->
  MmrIdxLocal.right_sibling x h = mm_right_sibling x h.
Proof.
  intros Hx Hh. unfold MmrIdxLocal.right_sibling, mm_right_sibling, mm_chk, shl1.
  destruct (Z.leb_spec 0 (h + 1)); [|lia].
  destruct (Z.ltb_spec (h + 1) 64) as [Hlt|Hge]; cbn [andb obind].
  - pose proof (pow2_pos (h + 1) ltac:(lia)) as Hp. pose proof (pow2_lt (h + 1) 64 ltac:(lia)) as Hq.
    unfold sub64, add64, two64.
    destruct (Z.ltb_spec (x + 2 ^ (h + 1)) 18446744073709551616) as [Hle|Hgt]; cbn [obind].
    + destruct (right_sibling_val x h ltac:(lia) ltac:(lia) ltac:(lits; lia)) as [-> ->].
      destruct (Z.leb_spec 1 (x + 2 ^ (h + 1))); [reflexivity|lia].
    + replace (right_sibling_ok x h) with false; [reflexivity|].
      to_ref (right_sibling_ref x h ltac:(u_range) ltac:(u_range)).
      unfold Ref.right_sibling_ok. rewrite wadd32_small by (lits; lia). rewrite wshl64_1, shift_ok_64 by lia.
      unfold add_ok. lits.
      destruct (Z.ltb_spec (h + 1) 4294967296); [|lia]. cbn [andb].
      destruct (Z.ltb_spec (x + 2 ^ (h + 1)) 18446744073709551616); [lia|reflexivity].
  - replace (right_sibling_ok x h) with false; [reflexivity|].
    to_ref (right_sibling_ref x h ltac:(u_range) ltac:(u_range)).
    unfold Ref.right_sibling_ok, add_ok at 1, shift_ok. lits.
    destruct (Z.ltb_spec (h + 1) 4294967296) as [H32|H32]; [|reflexivity]. cbn [andb].
    rewrite wadd32_small by (lits; lia).
    destruct (Z.leb_spec 0 (h + 1)); [|lia]. destruct (Z.ltb_spec (h + 1) 64); [lia|reflexivity].
Qed.

Theorem tie_leftmost_ancestor x : 0 <= x < 2 ^ 64 -> MmrIdxLocal.leftmost_ancestor x = mm_leftmost_ancestor x.
Proof.
  intros Hx. unfold mm_leftmost_ancestor, mm_chk.
  to_ref (leftmost_ancestor_ref x ltac:(u_range)).
  destruct (Z.eq_dec x 0) as [->|Hne]; [reflexivity|].
  unfold MmrIdxLocal.leftmost_ancestor, Ref.leftmost_ancestor_ok, Ref.leftmost_ancestor, leading_zeros, bitlen.
  destruct (Z.leb_spec x 0); [lia|].
  destruct (Z.eqb_spec x 0) as [|_]; [lia|].
  pose proof (Z.log2_spec x ltac:(lia)) as Hl. pose proof (Z.log2_nonneg x) as Hn0.
  assert (Hl63 : Z.log2 x < 64) by (apply Z.log2_lt_pow2; lia).
  destruct (Z.eqb_spec (64 - (Z.log2 x + 1)) 0) as [E|E]; [reflexivity|].
  assert (E1 : wsub 32 64 (64 - (Z.log2 x + 1)) = Z.log2 x + 1) by (rewrite wsub32_small by (lits; lia); lia).
  rewrite E1. assert (E2 : wsub 32 (Z.log2 x + 1) 1 = Z.log2 x) by (rewrite wsub32_small by (lits; lia); lia).
  rewrite E2. cbv zeta.
  assert (E3 : wadd 32 (Z.log2 x) 1 = Z.log2 x + 1) by (apply wadd32_small; lits; lia).
  rewrite E3. rewrite wshl64_1, shift_ok_64 by lia.
  pose proof (pow2_pos (Z.log2 x + 1) ltac:(lia)) as Hp.
  pose proof (pow2_lt (Z.log2 x + 1) 64 ltac:(lia)) as Hq.
  rewrite wsub64_small by lia.
  replace (sub_ok 64 (64 - (Z.log2 x + 1)) && sub_ok (Z.log2 x + 1) 1 && (add_ok 32 (Z.log2 x) 1 && true && sub_ok (2 ^ (Z.log2 x + 1)) 1)) with true
    by (unfold sub_ok, add_ok; lits; lia).
  replace (64 - (64 - (Z.log2 x + 1)) - 1) with (Z.log2 x) by lia. reflexivity.
Qed.

Theorem tie_rll_leaf i : 0 <= i < 2 ^ 64 -> rll_leaf i = mm_right_lineage_length_from_leaf_index i.
Proof.
  intros Hi. unfold mm_right_lineage_length_from_leaf_index.
  to_ref (right_lineage_length_from_leaf_index_ref i ltac:(u_range)).
  unfold rll_leaf, mm_chk, two64,
    Ref.right_lineage_length_from_leaf_index_ok, Ref.right_lineage_length_from_leaf_index, add_ok.
  lits. cbv zeta.
  destruct (Z.ltb_spec (i + 1) 18446744073709551616) as [Hlt|Hge]; cbn [andb]; [|reflexivity].
  rewrite wadd64_small by (lits; lia).
  set (pow2 := Z.land (i + 1) (wnot 64 i)).
  assert (Hp : 0 < pow2 < 2 ^ 64).
  { assert (Ep : pow2 = 2 ^ tz (i + 1)).
    { unfold pow2. replace (wnot 64 i) with (wnot 64 (i + 1 - 1)) by (f_equal; lia). apply land_wnot. lits. lia. }
    rewrite Ep. pose proof (tz_nonneg (i + 1)). split; [apply p2_pos; lia|].
    pose proof (tz_decomp (i + 1) ltac:(lia)) as (q & Hq & E).
    destruct (Z.lt_ge_cases (tz (i + 1)) 64) as [|Hge]; [apply p2_lt; lia|exfalso].
    assert (2 ^ 64 <= 2 ^ tz (i + 1)) by (apply p2_le; lia). lits. nia. }
  unfold leading_zeros, bitlen. destruct (Z.eqb_spec pow2 0); [lia|].
  pose proof (Z.log2_nonneg pow2). assert (Z.log2 pow2 < 64) by (apply Z.log2_lt_pow2; lia).
  replace (sub_ok 64 (64 - (Z.log2 pow2 + 1)) && sub_ok (wsub 32 64 (64 - (Z.log2 pow2 + 1))) 1) with true.
  2:{ rewrite wsub32_small by (lits; lia). unfold sub_ok. lia. }
  f_equal. rewrite !wsub32_small by (lits; try rewrite wsub32_small by (lits; lia); lia). reflexivity.
Qed.

Theorem tie_li_mt_pk i n : 0 <= i -> 0 <= n < 2 ^ 64 ->
  li_mt_pk i n = mm_leaf_index_to_mt_index_and_peak_index i n.
Proof.
  intros Hi Hn. unfold mm_leaf_index_to_mt_index_and_peak_index, mm_chk.
  destruct (Z.ltb_spec i n) as [Hlt|Hge].
  - destruct (leaf_index_to_mt_index_and_peak_index_correct n i ltac:(lia) ltac:(lia)) as [Hok Hs].
    rewrite Hok, <- Hs. symmetry. apply li_mt_pk_forest; lia.
  - rewrite (main_mt_out_of_bounds n i Hge). unfold li_mt_pk.
    destruct (Z.ltb_spec i n); [lia|reflexivity].
Qed.

(* ---------------------------------------------------------------- right_lineage_length_and_own_height *)
Lemma rll_height_loop_eq fuel ni c ch rac :
  rll_height_loop fuel ni c ch rac =
  match fuel with
  | O => None
  | S f =>
      if c =? ni then Some (rac, ch) else
      if left_child_ok c ch then
        let lc := left_child c ch in
        if lc <? ni then
          if right_child_ok c && add_ok 32 rac 1 && sub_ok ch 1
          then rll_height_loop f ni (right_child c) (wsub 32 ch 1) (wadd 32 rac 1) else None
        else
          if sub_ok ch 1 then rll_height_loop f ni lc (wsub 32 ch 1) 0 else None
      else None
  end.
Proof. destruct fuel; reflexivity. Qed.

Lemma rll_loop_tie : forall (f : nat) c rac ni (F : nat), 0 <= c < 2 ^ 64 -> 0 <= rac -> rac + Z.of_nat f < 2 ^ 32 - 1 ->
  (f <= 63)%nat -> (f < F)%nat ->
  rll_loop f c (Z.of_nat f) ni rac = rll_height_loop F ni c (Z.of_nat f) rac.
Proof.
  induction f as [|f IH]; intros c rac ni F Hc Hrac Hb Hf HF; destruct F as [|F]; try lia;
    rewrite rll_loop_eq, rll_height_loop_eq.
  - destruct (c =? ni); [reflexivity|].
    change (Z.of_nat 0) with 0. to_ref (left_child_ref c 0 ltac:(u_range) ltac:(u_range)).
    unfold Ref.left_child_ok, sub_ok, shift_ok. cbn [Z.leb Z.ltb Z.compare andb].
    destruct (wshl 64 1 0 <=? c); [|reflexivity]. cbv zeta.
    change (1 <=? 0) with false. rewrite !andb_false_r. destruct (Ref.left_child c 0 <? ni); reflexivity.
  - destruct (c =? ni); [reflexivity|].
    pose proof (p2_nat_pos (S f)) as Hp.
    unfold sub64. destruct (Z.leb_spec (2 ^ Z.of_nat (S f)) c) as [Hle|Hgt].
    + destruct (left_child_val c (Z.of_nat (S f)) ltac:(lia) ltac:(lia)) as [-> ->]. cbn [obind]. cbv zeta.
      replace (Z.of_nat (S f) - 1) with (Z.of_nat f) by lia.
      assert (E1 : wsub 32 (Z.of_nat (S f)) 1 = Z.of_nat f) by (rewrite wsub32_small by (lits; lia); lia).
      rewrite E1.
      destruct (c - 2 ^ Z.of_nat (S f) <? ni).
      * destruct (right_child_val c ltac:(lia)) as [-> ->].
        replace (add_ok 32 rac 1) with true by (unfold add_ok; lits; lia).
        replace (sub_ok (Z.of_nat (S f)) 1) with true by (unfold sub_ok; symmetry; apply Z.leb_le; lia). cbn [andb].
        rewrite wadd32_small by (lits; lia). apply IH; lia.
      * replace (sub_ok (Z.of_nat (S f)) 1) with true by (unfold sub_ok; symmetry; apply Z.leb_le; lia). apply IH; lia.
    + cbn [obind]. replace (left_child_ok c (Z.of_nat (S f))) with false; [reflexivity|].
      symmetry. apply left_child_ok_small; lia.
Qed.

Lemma rll_loop_bounds : forall (f : nat) c rac ni r h, rll_loop f c (Z.of_nat f) ni rac = Some (r, h) -> 0 <= rac ->
  0 <= r /\ 0 <= h <= Z.of_nat f.
Proof.
  induction f as [|f IH]; intros c rac ni r h; rewrite rll_loop_eq; intros Hr Hrac.
  - destruct (c =? ni); [|discriminate Hr]. inversion Hr; subst. lia.
  - destruct (c =? ni); [inversion Hr; subst; lia|].
    destruct (sub64 c (2 ^ Z.of_nat (S f))) as [lc|]; [|discriminate Hr]. cbn [obind] in Hr.
    replace (Z.of_nat (S f) - 1) with (Z.of_nat f) in Hr by lia.
    destruct (lc <? ni); apply IH in Hr; lia.
Qed.

Lemma la_gen_bounds x c h : 0 <= x < 2 ^ 64 -> mm_leftmost_ancestor x = Some (c, h) -> 0 <= c < 2 ^ 64 /\ 0 <= h <= 63.
Proof.
  intros Hx E. destruct (Z.eq_dec x 0) as [->|Hne]; [discriminate E|].
  unfold mm_leftmost_ancestor, mm_chk in E.
  destruct (leftmost_ancestor_val x ltac:(lia)) as [Hok (Hh & Hle & Ev & _)]. rewrite Hok, Ev in E. inversion E; subst.
  pose proof (tsize_lt64 Hh Hle). pose proof (tsize_pos Hh). lia.
Qed.

Theorem tie_rll_and_height x : 0 <= x < 2 ^ 64 -> rll_and_height x = mm_right_lineage_length_and_own_height x.
Proof.
  intros Hx. unfold rll_and_height, mm_right_lineage_length_and_own_height.
  rewrite (tie_leftmost_ancestor x Hx).
  pose proof (la_gen_bounds x) as Hb. unfold mm_leftmost_ancestor, mm_chk in *.
  destruct (leftmost_ancestor_ok x); [|reflexivity]. cbn [obind].
  destruct (MmrIndexGen.leftmost_ancestor x) as [c h]. destruct (Hb c h Hx eq_refl) as [Hc Hh].
  replace h with (Z.of_nat (Z.to_nat h)) at 2 3 by lia. apply rll_loop_tie; lits; lia.
Qed.

Lemma rll_and_height_bounds x r h : 0 <= x < 2 ^ 64 -> rll_and_height x = Some (r, h) -> 0 <= r /\ 0 <= h <= 63.
Proof.
  intros Hx E. unfold rll_and_height in E. rewrite (tie_leftmost_ancestor x Hx) in E.
  destruct (mm_leftmost_ancestor x) as [[c h0]|] eqn:El; [|discriminate E]. cbn [obind] in E.
  destruct (la_gen_bounds x c h0 Hx El) as [Hc Hh].
  replace h0 with (Z.of_nat (Z.to_nat h0)) in E at 2 by lia. apply rll_loop_bounds in E; lia.
Qed.

(* ---------------------------------------------------------------- parent *)
Theorem tie_parent x : 0 <= x < 2 ^ 64 -> parent x = mm_parent x.
Proof.
  intros Hx. unfold parent, step_up, mm_parent. rewrite <- (tie_rll_and_height x Hx).
  pose proof (rll_and_height_bounds x) as Hb.
  destruct (rll_and_height x) as [[rac h]|]; [|reflexivity]. destruct (Hb rac h Hx eq_refl) as [Hr Hh]. cbn [obind].
  destruct (negb (rac =? 0)).
  - unfold add64, mm_chk, add_ok, two64. lits. destruct (Z.ltb_spec (x + 1) 18446744073709551616); cbn [obind]; [|reflexivity].
    rewrite wadd64_small by (lits; lia). reflexivity.
  - unfold shl1, add64, mm_chk, two64. replace (add_ok 32 h 1) with true by (unfold add_ok; lits; lia).
    rewrite wadd32_small by (lits; lia). unfold shift_ok.
    destruct (Z.leb_spec 0 (h + 1)); [|lia]. destruct (Z.ltb_spec (h + 1) 64); cbn [andb obind]; [|reflexivity].
    rewrite wshl64_1 by lia. unfold add_ok. lits.
    pose proof (pow2_pos (h + 1) ltac:(lia)).
    destruct (Z.ltb_spec (x + 2 ^ (h + 1)) 18446744073709551616); cbn [obind]; [|reflexivity].
    rewrite wadd64_small by (lits; lia). reflexivity.
Qed.

(* ---------------------------------------------------------------- right_lineage_length_from_node_index *)
Lemma rll_node_rec_eq fuel ni :
  rll_node_rec fuel ni =
  match fuel with
  | O => None
  | S f =>
      if sub_ok 64 (leading_zeros 64 ni) then
      let bit_width := wsub 32 64 (leading_zeros 64 ni) in
      if shift_ok 128 bit_width then
      let npo2 := wshl 128 1 bit_width in
      if sub_ok npo2 ni then
      let dist := ucast 64 (wsub 128 npo2 ni) in
      if bit_width <? dist then
        if sub_ok bit_width 1 then
        if shift_ok 64 (wsub 32 bit_width 1) then
        let p := wshl 64 1 (wsub 32 bit_width 1) in
        if sub_ok ni p then
        if add_ok 64 (wsub 64 ni p) 1 then
        rll_node_rec f (wadd 64 (wsub 64 ni p) 1) else None else None else None else None
      else
        if sub_ok dist 1 then Some (ucast 32 (wsub 64 dist 1)) else None
      else None else None else None
  end.
Proof. destruct fuel; reflexivity. Qed.

Lemma rll_node_tie : forall fuel ni, 0 <= ni < 2 ^ 64 ->
  rll_node_fuel fuel ni = rll_node_rec fuel ni /\
  (forall r, rll_node_fuel fuel ni = Some r -> 0 <= r <= 63).
Proof.
  induction fuel as [|f IH]; intros ni Hni; [split; [reflexivity|discriminate]|].
  destruct (Z.eq_dec ni 0) as [->|Hne]; [split; [reflexivity|discriminate]|].
  rewrite rll_node_fuel_eq, rll_node_rec_eq. cbv zeta.
  destruct (Z.leb_spec ni 0); [lia|].
  pose proof (Z.log2_spec ni ltac:(lia)) as [Hl1 Hl2]. pose proof (Z.log2_nonneg ni) as Hl0.
  assert (Hl63 : Z.log2 ni < 64) by (apply Z.log2_lt_pow2; lia).
  set (L := Z.log2 ni) in *. replace (Z.succ L) with (L + 1) in Hl2 by lia.
  assert (Elz : leading_zeros 64 ni = 64 - (L + 1)).
  { unfold leading_zeros, bitlen. destruct (Z.eqb_spec ni 0); [lia|reflexivity]. }
  rewrite Elz. replace (sub_ok 64 (64 - (L + 1))) with true by (unfold sub_ok; lia).
  assert (Ebw : wsub 32 64 (64 - (L + 1)) = L + 1) by (rewrite wsub32_small by (lits; lia); lia).
  rewrite Ebw. replace (shift_ok 128 (L + 1)) with true by (unfold shift_ok; lia).
  pose proof (pow2_pos (L + 1) ltac:(lia)) as Hp1. pose proof (pow2_pos L ltac:(lia)) as Hp0.
  assert (Hple : 2 ^ (L + 1) <= 2 ^ 64) by (apply pow2_le; lia).
  assert (E2 : 2 ^ (L + 1) = 2 * 2 ^ L) by (apply pow2_succ; lia).
  assert (Enp : wshl 128 1 (L + 1) = 2 ^ (L + 1)).
  { unfold wshl. rewrite Z.mul_1_l. apply wrap_small. lits. lia. }
  rewrite Enp. replace (sub_ok (2 ^ (L + 1)) ni) with true by (unfold sub_ok; lia).
  assert (Edist : ucast 64 (wsub 128 (2 ^ (L + 1)) ni) = 2 ^ (L + 1) - ni).
  { unfold ucast, wsub. rewrite (wrap_small 128) by (lits; lia). apply wrap_small. lits. lia. }
  rewrite Edist.
  destruct (Z.ltb_spec (L + 1) (2 ^ (L + 1) - ni)) as [Hlt|Hge].
  - replace (sub_ok (L + 1) 1) with true by (unfold sub_ok; lia).
    assert (E3 : wsub 32 (L + 1) 1 = L) by (rewrite wsub32_small by (lits; lia); lia).
    rewrite E3. rewrite shift_ok_64, wshl64_1 by lia.
    replace (sub_ok ni (2 ^ L)) with true by (unfold sub_ok; lia).
    rewrite wsub64_small by lia.
    replace (add_ok 64 (ni - 2 ^ L) 1) with true by (unfold add_ok; lits; lia).
    rewrite wadd64_small by (lits; lia).
    replace (L + 1 - 1) with L by lia.
    apply IH. lits. lia.
  - replace (sub_ok (2 ^ (L + 1) - ni) 1) with true by (unfold sub_ok; lia).
    assert (E4 : ucast 32 (wsub 64 (2 ^ (L + 1) - ni) 1) = 2 ^ (L + 1) - ni - 1).
    { unfold ucast. rewrite wsub64_small by (lits; lia). apply wrap_small. lits. lia. }
    rewrite E4. split; [reflexivity|]. intros r Hr. inversion Hr; subst. lia.
Qed.

Theorem tie_rll_node x : 0 <= x < 2 ^ 64 -> rll_node x = mm_right_lineage_length_from_node_index x.
Proof. intros Hx. unfold rll_node, mm_right_lineage_length_from_node_index. exact (proj1 (rll_node_tie 65 x Hx)). Qed.

(* ---------------------------------------------------------------- node_indices_added_by_append *)
Lemma added_loop_tie : forall (m : nat) x (F : nat), 0 <= x -> (m < F)%nat -> (m <= 100)%nat ->
  MmrIdxLocal.added_loop m x =
  match MmrIndex.added_loop F x (Z.of_nat m) with Some l => Some l | None => None end.
Proof.
  induction m as [|m IH]; intros x F Hx HF Hm; destruct F as [|F]; try lia.
  - reflexivity.
  - cbn [MmrIdxLocal.added_loop MmrIndex.added_loop].
    destruct (Z.eqb_spec (Z.of_nat (S m)) 0); [lia|].
    unfold add64, add_ok, two64. lits.
    destruct (Z.ltb_spec (x + 1) 18446744073709551616); cbn [obind]; [|reflexivity].
    replace (sub_ok (Z.of_nat (S m)) 1) with true by (unfold sub_ok; symmetry; apply Z.leb_le; lia).
    rewrite wadd64_small by (lits; lia).
    replace (wsub 32 (Z.of_nat (S m)) 1) with (Z.of_nat m) by (rewrite wsub32_small by (lits; lia); lia).
    rewrite (IH (x + 1) F) by lia.
    destruct (MmrIndex.added_loop F (x + 1) (Z.of_nat m)); reflexivity.
Qed.

Lemma rll_node_eq x : rll_node x = rll_node_fuel 65 x.
Proof. unfold rll_node. reflexivity. Qed.

Lemma rll_node_bounds x r : 0 <= x < 2 ^ 64 -> rll_node x = Some r -> 0 <= r <= 63.
Proof. intros Hx E. rewrite rll_node_eq in E. exact (proj2 (rll_node_tie 65 x Hx) r E). Qed.

Lemma l2n_cases n : l2n n = if n <? 9223372036854775808 then Some (2 * n - count_ones n + 1) else None.
Proof. unfold l2n, two63. reflexivity. Qed.

Lemma l2n_range n ni : 0 <= n -> l2n n = Some ni -> 0 <= ni < 2 ^ 64.
Proof.
  intros Hn El. rewrite l2n_cases in El. destruct (Z.ltb_spec n 9223372036854775808); [|discriminate El].
  apply (f_equal (fun o => match o with Some z => z | None => 0 end)) in El. cbv beta iota in El. subst ni.
  pose proof (co_le n ltac:(lia)). pose proof (co_nonneg n). lits. lia.
Qed.

Lemma added_loop_tie65 rc x : 0 <= x -> 0 <= rc <= 63 ->
  MmrIdxLocal.added_loop (Z.to_nat rc) x = match MmrIndex.added_loop 65 x rc with Some l => Some l | None => None end.
Proof.
  intros Hx Hr. pose proof (added_loop_tie (Z.to_nat rc) x 65 Hx) as Ht. rewrite Z2Nat.id in Ht by lia. apply Ht; lia.
Qed.

Theorem tie_node_indices_added_by_append n : 0 <= n < 2 ^ 64 ->
  node_indices_added_by_append n = mm_node_indices_added_by_append n.
Proof.
  intros Hn. unfold node_indices_added_by_append, mm_node_indices_added_by_append.
  rewrite <- (tie_l2n n Hn).
  destruct (l2n n) as [ni|] eqn:El; [|reflexivity]. cbn [obind].
  pose proof (l2n_range n ni ltac:(lia) El) as Hni.
  rewrite <- (tie_rll_node ni Hni).
  destruct (rll_node ni) as [rc|] eqn:Er; [|reflexivity]. cbn [obind].
  rewrite (added_loop_tie65 rc ni ltac:(lia) (rll_node_bounds ni rc Hni Er)).
  destruct (MmrIndex.added_loop 65 ni rc); reflexivity.
Qed.

(* ---------------------------------------------------------------- get_authentication_path_node_indices *)
(* one step towards the parent as the loops of MmrIndex.v write it inline *)
Definition mm_up (ni : Z) : option (Z * Z) :=
  match mm_right_lineage_length_and_own_height ni with
  | None => None
  | Some (rac, height) =>
      if negb (rac =? 0) then
        if MmrIndexGen.left_sibling_ok ni height then
        if add_ok 64 ni 1 then Some (MmrIndexGen.left_sibling ni height, wadd 64 ni 1) else None else None
      else
        if MmrIndexGen.right_sibling_ok ni height then
        if add_ok 32 height 1 then
        if shift_ok 64 (wadd 32 height 1) then
        if add_ok 64 ni (wshl 64 1 (wadd 32 height 1))
        then Some (MmrIndexGen.right_sibling ni height, wadd 64 ni (wshl 64 1 (wadd 32 height 1)))
        else None else None else None else None
  end.

Lemma mm_auth_path_loop_eq fuel ni peak nc :
  MmrIndex.auth_path_loop fuel ni peak nc =
  match fuel with
  | O => None
  | S f =>
      if (ni <=? nc) && negb (ni =? peak) then
        match mm_up ni with
        | None => None
        | Some (s, p) =>
            match MmrIndex.auth_path_loop f p peak nc with
            | None => None
            | Some None => Some None
            | Some (Some l) => Some (Some (s :: l))
            end
        end
      else if ni =? peak then Some (Some []) else Some None
  end.
Proof.
  destruct fuel as [|f]; [reflexivity|]. cbn [MmrIndex.auth_path_loop]. unfold mm_up.
  destruct ((ni <=? nc) && negb (ni =? peak)); [|reflexivity].
  destruct (mm_right_lineage_length_and_own_height ni) as [[rac h]|]; [|reflexivity].
  destruct (negb (rac =? 0)).
  - destruct (left_sibling_ok ni h); [|reflexivity]. destruct (add_ok 64 ni 1); reflexivity.
  - destruct (right_sibling_ok ni h); [|reflexivity]. destruct (add_ok 32 h 1); [|reflexivity].
    destruct (shift_ok 64 (wadd 32 h 1)); [|reflexivity]. destruct (add_ok 64 ni (wshl 64 1 (wadd 32 h 1))); reflexivity.
Qed.

Lemma up_info_tie ni : 0 <= ni < 2 ^ 64 ->
  mm_up ni = match up_info ni with Some (_, s, p) => Some (s, p) | None => None end /\
  (forall b s p, up_info ni = Some (b, s, p) -> 0 <= p < 2 ^ 64).
Proof.
  intros Hni. unfold mm_up, up_info. rewrite <- (tie_rll_and_height ni Hni).
  pose proof (rll_and_height_bounds ni) as Hb.
  destruct (rll_and_height ni) as [[rac h]|]; [|split; [reflexivity|discriminate]].
  destruct (Hb rac h Hni eq_refl) as [Hr Hh]. cbn [obind].
  destruct (negb (rac =? 0)).
  - rewrite (tie_left_sibling ni h Hni ltac:(lits; lia)). unfold mm_left_sibling, mm_chk.
    destruct (left_sibling_ok ni h); cbn [obind]; [|split; [reflexivity|discriminate]].
    unfold add64, add_ok, two64. lits.
    destruct (Z.ltb_spec (ni + 1) 18446744073709551616); cbn [obind]; [|split; [reflexivity|discriminate]].
    rewrite wadd64_small by (lits; lia). split; [reflexivity|]. intros b s p E. inversion E; subst. lia.
  - rewrite (tie_right_sibling ni h Hni ltac:(lits; lia)). unfold mm_right_sibling, mm_chk.
    destruct (right_sibling_ok ni h); cbn [obind]; [|split; [reflexivity|discriminate]].
    replace (add_ok 32 h 1) with true by (unfold add_ok; lits; symmetry; apply Z.ltb_lt; lia).
    rewrite wadd32_small by (lits; lia). unfold shl1, shift_ok.
    destruct (Z.leb_spec 0 (h + 1)); [|lia]. destruct (Z.ltb_spec (h + 1) 64); cbn [andb obind]; [|split; [reflexivity|discriminate]].
    rewrite wshl64_1 by lia. pose proof (pow2_pos (h + 1) ltac:(lia)).
    unfold add64, add_ok, two64. lits.
    destruct (Z.ltb_spec (ni + 2 ^ (h + 1)) 18446744073709551616); cbn [obind]; [|split; [reflexivity|discriminate]].
    rewrite wadd64_small by (lits; lia). split; [reflexivity|]. intros b s p E. inversion E; subst. lia.
Qed.

(* the two loops in lock step: the C16 loop tests its fuel before the loop condition, the local one after *)
Lemma auth_path_lockstep peak nc : forall (f : nat) ni, 0 <= ni < 2 ^ 64 ->
  MmrIndex.auth_path_loop (S f) ni peak nc = MmrIdxLocal.auth_path_loop f ni peak nc.
Proof.
  induction f as [|f IH]; intros ni Hni; rewrite mm_auth_path_loop_eq, auth_path_loop_eq.
  - destruct ((ni <=? nc) && negb (ni =? peak)); [|destruct (ni =? peak); reflexivity].
    destruct (mm_up ni) as [[s p]|]; reflexivity.
  - destruct ((ni <=? nc) && negb (ni =? peak)); [|destruct (ni =? peak); reflexivity].
    destruct (up_info_tie ni Hni) as [E Hp]. rewrite E.
    destruct (up_info ni) as [[[b s] p]|]; [|reflexivity]. cbn [obind].
    rewrite (IH p (Hp b s p eq_refl)).
    destruct (MmrIdxLocal.auth_path_loop f p peak nc) as [[l|]|]; reflexivity.
Qed.

(* more fuel than the remaining height changes nothing *)
Lemma root_up_info : up_info (bidx 0 (Z.of_nat 63)) = None.
Proof.
  destruct (rll_and_height_bidx 63 0 ltac:(lia)) as (rac & Hr & _ & Hz).
  { rewrite bidx_formula by lia. cbn. lia. }
  unfold up_info. rewrite Hr. cbn [obind]. cbn [Z.even] in Hz. rewrite Hz. cbn [negb].
  unfold MmrIdxLocal.right_sibling, shl1. reflexivity.
Qed.

Lemma auth_path_stable peak nc : forall (m h : nat) a f f', (h + m = 63)%nat -> 0 <= a < 2 ^ Z.of_nat m ->
  (m + 1 < f)%nat -> (m + 1 < f')%nat ->
  MmrIdxLocal.auth_path_loop f (bidx a (Z.of_nat h)) peak nc = MmrIdxLocal.auth_path_loop f' (bidx a (Z.of_nat h)) peak nc.
Proof.
  induction m as [|m IH]; intros h a f f' Hh Ha Hf Hf'; rewrite !(auth_path_loop_eq _ (bidx a (Z.of_nat h))).
  - destruct ((bidx a (Z.of_nat h) <=? nc) && negb (bidx a (Z.of_nat h) =? peak)); [|reflexivity].
    destruct f as [|f]; [lia|]. destruct f' as [|f']; [lia|].
    change (2 ^ Z.of_nat 0) with 1 in Ha. assert (a = 0) by lia. subst a. replace h with 63%nat by lia.
    rewrite root_up_info. reflexivity.
  - destruct ((bidx a (Z.of_nat h) <=? nc) && negb (bidx a (Z.of_nat h) =? peak)); [|reflexivity].
    destruct f as [|f]; [lia|]. destruct f' as [|f']; [lia|].
    assert (Hin : inb a h).
    { split; [lia|]. rewrite p2_S in Ha. pose proof (p2_nat_pos m) as Hp. pose proof (p2_nat_pos h) as Hph.
      assert (E : 2 ^ 63 = 2 ^ Z.of_nat m * (2 * 2 ^ Z.of_nat h)).
      { rewrite <- p2_S. rewrite <- p2_split. f_equal. lia. }
      rewrite E. nia. }
    rewrite (up_info_bidx h a Hin). cbn [obind].
    rewrite (IH (S h) (a / 2) f f') by (try lia; rewrite p2_S in Ha; lia). reflexivity.
Qed.

Lemma auth_path_zero peak nc (f f' : nat) : (0 < f)%nat -> (0 < f')%nat ->
  MmrIdxLocal.auth_path_loop f 0 peak nc = MmrIdxLocal.auth_path_loop f' 0 peak nc.
Proof.
  intros Hf Hf'. destruct f as [|f]; [lia|]. destruct f' as [|f']; [lia|].
  rewrite !(auth_path_loop_eq _ 0). assert (E0 : up_info 0 = None) by reflexivity. rewrite E0. reflexivity.
Qed.

Theorem tie_auth_path start peak nc : 0 <= start < 2 ^ 64 ->
  get_authentication_path_node_indices start peak nc = mm_get_authentication_path_node_indices start peak nc.
Proof.
  intros Hs. unfold get_authentication_path_node_indices, mm_get_authentication_path_node_indices.
  rewrite (auth_path_lockstep peak nc 65 start Hs).
  destruct (Z.eq_dec start 0) as [->|Hne].
  - apply auth_path_zero; lia.
  - assert (Eb : bidx 0 (Z.of_nat 63) = 2 ^ 64 - 1) by (rewrite bidx_formula by lia; reflexivity).
    destruct (tree_nodes 63 0 start ltac:(lia)) as (a & h & Hh & Ex & Ha & Ea).
    { rewrite Eb. unfold nn. cbn. lia. }
    rewrite Ex. pose proof (p2_nat_pos (63 - h)). apply (auth_path_stable peak nc (63 - h) h a); lia.
Qed.

(* ---------------------------------------------------------------- get_peak_heights_and_peak_node_indices *)
Lemma mm_peaks_loop_eq fuel nc height cand :
  MmrIndex.peaks_loop fuel nc height cand =
  match fuel with
  | O => None
  | S f =>
      if height =? 0 then Some [] else
      if cand >? nc then
        if left_child_ok cand height then
        if sub_ok height 1 then
        let c := left_child cand height in
        let h := wsub 32 height 1 in
        if c <=? nc then
          if MmrIndexGen.right_sibling_ok c h then
          match MmrIndex.peaks_loop f nc h (MmrIndexGen.right_sibling c h) with
          | None => None
          | Some l => Some ((h, c) :: l)
          end else None
        else MmrIndex.peaks_loop f nc h c
        else None else None
      else None
  end.
Proof. destruct fuel; reflexivity. Qed.

Lemma mm_right_sibling_range c h r : mm_right_sibling c h = Some r -> 0 <= r < 2 ^ 64.
Proof.
  unfold mm_right_sibling, mm_chk. destruct (right_sibling_ok c h); [|discriminate]. intros E.
  apply (f_equal (fun o => match o with Some z => z | None => 0 end)) in E. cbv beta iota in E. subst r.
  unfold MmrIndexGen.right_sibling, wsub. apply wrap_range. lia.
Qed.

Lemma peaks_loop_tie nc : forall (hn : nat) cand (F : nat), 0 <= cand < 2 ^ 64 -> (hn <= 63)%nat -> (hn < F)%nat ->
  MmrIndex.peaks_loop F nc (Z.of_nat hn) cand = MmrIdxLocal.peaks_loop hn (Z.of_nat hn) cand nc.
Proof.
  induction hn as [|hn IH]; intros cand F Hc Hh HF; destruct F as [|F]; try lia;
    rewrite mm_peaks_loop_eq, peaks_loop_eq.
  - reflexivity.
  - destruct (Z.eqb_spec (Z.of_nat (S hn)) 0); [lia|].
    rewrite Z.gtb_ltb. destruct (Z.ltb_spec nc cand) as [Hgt|Hle]; destruct (Z.leb_spec cand nc); try lia; [|reflexivity].
    pose proof (p2_nat_pos (S hn)) as Hp. cbv zeta. unfold sub64.
    destruct (Z.leb_spec (2 ^ Z.of_nat (S hn)) cand) as [Hge|Hlt].
    + destruct (left_child_val cand (Z.of_nat (S hn)) ltac:(lia) ltac:(lia)) as [-> ->]. cbn [obind].
      replace (sub_ok (Z.of_nat (S hn)) 1) with true by (unfold sub_ok; symmetry; apply Z.leb_le; lia).
      replace (wsub 32 (Z.of_nat (S hn)) 1) with (Z.of_nat hn) by (rewrite wsub32_small by (lits; lia); lia).
      replace (Z.of_nat (S hn) - 1) with (Z.of_nat hn) by lia.
      destruct (cand - 2 ^ Z.of_nat (S hn) <=? nc).
      * rewrite (tie_right_sibling (cand - 2 ^ Z.of_nat (S hn)) (Z.of_nat hn)) by (lits; lia).
        pose proof (mm_right_sibling_range (cand - 2 ^ Z.of_nat (S hn)) (Z.of_nat hn)) as Hr.
        unfold mm_right_sibling, mm_chk in *.
        destruct (right_sibling_ok (cand - 2 ^ Z.of_nat (S hn)) (Z.of_nat hn)); cbn [obind]; [|reflexivity].
        rewrite (IH _ F (Hr _ eq_refl)) by lia.
        destruct (MmrIdxLocal.peaks_loop hn (Z.of_nat hn) _ nc); reflexivity.
      * apply IH; lia.
    + cbn [obind]. replace (left_child_ok cand (Z.of_nat (S hn))) with false; [reflexivity|].
      symmetry. apply left_child_ok_small; lia.
Qed.

Definition split_peaks (o : option (list (Z * Z))) : option (list Z * list Z) :=
  match o with Some l => Some (map fst l, map snd l) | None => None end.

Lemma mm_chk_range64 (ok : bool) (v r : Z) : 0 <= v < 2 ^ 64 -> mm_chk ok v = Some r -> 0 <= r < 2 ^ 64.
Proof.
  unfold mm_chk. intros Hv E. destruct ok; [|discriminate E].
  apply (f_equal (fun o => match o with Some z => z | None => 0 end)) in E. cbv beta iota in E. subst r. exact Hv.
Qed.

Theorem tie_peak_heights_and_indices n : 0 <= n < 2 ^ 64 ->
  mm_get_peak_heights_and_peak_node_indices n = split_peaks (peak_heights_and_indices n).
Proof.
  intros Hn. unfold mm_get_peak_heights_and_peak_node_indices, peak_heights_and_indices.
  destruct (Z.eqb_spec n 0) as [->|Hn0]; [reflexivity|].
  replace (sub_ok n 1) with true by (unfold sub_ok; symmetry; apply Z.leb_le; lia).
  rewrite wsub64_small by lia.
  rewrite (tie_l2n (n - 1)) by lia. rewrite (tie_num_nodes n Hn).
  pose proof (mm_chk_range64 (leaf_index_to_node_index_ok (n - 1)) (leaf_index_to_node_index (n - 1))) as Hr1.
  pose proof (mm_chk_range64 (num_leafs_to_num_nodes_ok n) (num_leafs_to_num_nodes n)) as Hr2.
  unfold mm_leaf_index_to_node_index, mm_num_leafs_to_num_nodes in *.
  assert (Hv1 : 0 <= leaf_index_to_node_index (n - 1) < 2 ^ 64) by (apply leaf_index_to_node_index_range; u_range).
  assert (Hv2 : 0 <= num_leafs_to_num_nodes n < 2 ^ 64) by (apply num_leafs_to_num_nodes_range; u_range).
  unfold mm_chk at 1. destruct (leaf_index_to_node_index_ok (n - 1)); cbn [obind split_peaks]; [|reflexivity].
  unfold mm_chk at 1. destruct (num_leafs_to_num_nodes_ok n); cbn [obind split_peaks]; [|reflexivity].
  set (rm := leaf_index_to_node_index (n - 1)) in *. set (nc := num_leafs_to_num_nodes n) in *.
  rewrite (tie_leftmost_ancestor rm Hv1).
  pose proof (la_gen_bounds rm) as Hla. unfold mm_leftmost_ancestor, mm_chk in *.
  destruct (leftmost_ancestor_ok rm); cbn [obind split_peaks]; [|reflexivity].
  destruct (MmrIndexGen.leftmost_ancestor rm) as [tp0 th0]. destruct (Hla tp0 th0 Hv1 eq_refl) as [Htp Hth].
  rewrite Z.gtb_ltb.
  (* the adjustment of the top peak *)
  assert (Hadj : exists tp th,
            (if nc <? tp0 then let? tp := sub64 tp0 (2 ^ th0) in let? th := sub64 th0 1 in Some (tp, th) else Some (tp0, th0)) =
            (if (if nc <? tp0 then left_child_ok tp0 th0 && sub_ok th0 1 else true)
             then Some (if nc <? tp0 then left_child tp0 th0 else tp0, if nc <? tp0 then wsub 32 th0 1 else th0) else None) /\
            ((if nc <? tp0 then left_child tp0 th0 else tp0) = tp /\ (if nc <? tp0 then wsub 32 th0 1 else th0) = th /\
             ((if nc <? tp0 then left_child_ok tp0 th0 && sub_ok th0 1 else true) = true -> 0 <= tp < 2 ^ 64 /\ 0 <= th <= 63))).
  { destruct (nc <? tp0).
    - do 2 eexists. split; [|split; [reflexivity|split; [reflexivity|]]].
      + unfold sub64. pose proof (pow2_pos th0 ltac:(lia)) as Hp.
        destruct (Z.leb_spec (2 ^ th0) tp0) as [Hge|Hlt].
        * destruct (left_child_val tp0 th0 ltac:(lia) ltac:(lia)) as [-> ->]. cbn [obind andb].
          unfold sub_ok. destruct (Z.leb_spec 1 th0); cbn [obind]; [|reflexivity].
          rewrite wsub32_small by (lits; lia). reflexivity.
        * cbn [obind]. replace (left_child_ok tp0 th0) with false; [reflexivity|].
          symmetry. apply left_child_ok_small; lia.
      + intros Hok. apply andb_true_iff in Hok. destruct Hok as [Hok1 Hok2].
        unfold sub_ok in Hok2. apply Z.leb_le in Hok2.
        split; [apply left_child_range; u_range|]. unfold wsub. rewrite wrap_small by (lits; lia). lia.
    - do 2 eexists. split; [reflexivity|]. split; [reflexivity|]. split; [reflexivity|]. intros _. lia. }
  destruct Hadj as (tp & th & Eadj & Etp & Eth & Hrange). rewrite Eadj. rewrite Etp, Eth.
  destruct (if nc <? tp0 then left_child_ok tp0 th0 && sub_ok th0 1 else true); cbn [obind split_peaks]; [|reflexivity].
  destruct (Hrange eq_refl) as [Htpr Hthr].
  rewrite (tie_right_sibling tp th Htpr ltac:(lits; lia)).
  pose proof (mm_right_sibling_range tp th) as Hrs. unfold mm_right_sibling, mm_chk in *.
  destruct (right_sibling_ok tp th); cbn [obind split_peaks]; [|reflexivity].
  replace th with (Z.of_nat (Z.to_nat th)) at 1 3 by lia.
  rewrite (peaks_loop_tie nc (Z.to_nat th) _ 65 (Hrs _ eq_refl)) by lia.
  rewrite Z2Nat.id by lia.
  destruct (MmrIdxLocal.peaks_loop (Z.to_nat th) th (MmrIndexGen.right_sibling tp th) nc); reflexivity.
Qed.

(* ---------------------------------------------------------------- the inlined parent / sibling steps *)
Theorem tie_up_info x : 0 <= x < 2 ^ 64 ->
  up_info x =
  match mm_right_lineage_length_and_own_height x with
  | None => None
  | Some (rac, h) =>
      if negb (rac =? 0)
      then let? s := mm_left_sibling x h in let? p := add64 x 1 in Some (true, s, p)
      else let? s := mm_right_sibling x h in let? q := shl1 (h + 1) in let? p := add64 x q in Some (false, s, p)
  end.
Proof.
  intros Hx. unfold up_info. rewrite <- (tie_rll_and_height x Hx).
  pose proof (rll_and_height_bounds x) as Hb.
  destruct (rll_and_height x) as [[rac h]|]; [|reflexivity]. destruct (Hb rac h Hx eq_refl) as [Hr Hh]. cbn [obind].
  rewrite (tie_left_sibling x h Hx ltac:(lits; lia)), (tie_right_sibling x h Hx ltac:(lits; lia)). reflexivity.
Qed.

Theorem tie_step_up x : 0 <= x < 2 ^ 64 ->
  step_up x =
  match mm_right_lineage_length_and_own_height x with
  | None => None
  | Some (rac, h) =>
      if negb (rac =? 0) then let? p := add64 x 1 in Some (true, p)
      else let? q := shl1 (h + 1) in let? p := add64 x q in Some (false, p)
  end.
Proof.
  intros Hx. unfold step_up. rewrite <- (tie_rll_and_height x Hx).
  destruct (rll_and_height x) as [[rac h]|]; reflexivity.
Qed.

(* ---------------------------------------------------------------- all of them *)
Definition u64 (x : Z) : Prop := 0 <= x < 2 ^ 64.

Theorem index_functions_regenerated :
  (forall i n, 0 <= i -> u64 n -> li_mt_pk i n = mm_leaf_index_to_mt_index_and_peak_index i n) /\
  (forall i, u64 i -> rll_leaf i = mm_right_lineage_length_from_leaf_index i) /\
  (forall x, u64 x -> MmrIdxLocal.leftmost_ancestor x = mm_leftmost_ancestor x) /\
  (forall i, u64 i -> l2n i = mm_leaf_index_to_node_index i) /\
  (forall n, u64 n -> num_nodes n = mm_num_leafs_to_num_nodes n) /\
  (forall x h, u64 x -> 0 <= h < 2 ^ 32 -> MmrIdxLocal.left_sibling x h = mm_left_sibling x h) /\
  (forall x h, u64 x -> 0 <= h < 2 ^ 32 -> MmrIdxLocal.right_sibling x h = mm_right_sibling x h) /\
  (forall x, u64 x -> rll_and_height x = mm_right_lineage_length_and_own_height x) /\
  (forall x, u64 x -> rll_node x = mm_right_lineage_length_from_node_index x) /\
  (forall x, u64 x -> parent x = mm_parent x) /\
  (forall n, u64 n -> node_indices_added_by_append n = mm_node_indices_added_by_append n) /\
  (forall start peak nc, u64 start ->
     get_authentication_path_node_indices start peak nc = mm_get_authentication_path_node_indices start peak nc) /\
  (forall n, u64 n -> mm_get_peak_heights_and_peak_node_indices n = split_peaks (peak_heights_and_indices n)).
Proof.
  unfold u64. repeat split.
  - intros; apply tie_li_mt_pk; assumption.
  - exact tie_rll_leaf.
  - exact tie_leftmost_ancestor.
  - exact tie_l2n.
  - exact tie_num_nodes.
  - exact tie_left_sibling.
  - exact tie_right_sibling.
  - exact tie_rll_and_height.
  - exact tie_rll_node.
  - exact tie_parent.
  - exact tie_node_indices_added_by_append.
  - exact tie_auth_path.
  - exact tie_peak_heights_and_indices.
Qed.
