(* MmrIndexBits.v - bit-level lemmas used by the C16 proofs: popcount (Word.count_ones), powers of two,
   land / lxor on numbers written as 2a+b, the `(i+1) & !i` trick, the xor/ilog2 trick. *)
From Coq Require Import ZArith Bool Lia List.
From TF Require Import Word.
Open Scope Z_scope.
Ltac Zify.zify_post_hook ::= Z.div_mod_to_equations.

(* ------------------------------------------------------------------ induction on the binary digits *)
Lemma Z_binary_ind (P : Z -> Prop) :
  P 0 -> (forall a, 0 <= a -> P a -> 0 < a -> P (2 * a)) -> (forall a, 0 <= a -> P a -> P (2 * a + 1)) ->
  forall a, 0 <= a -> P a.
Proof.
  intros H0 H2 H21 a Ha. destruct a as [|p|p]; [exact H0| |lia]. clear Ha.
  induction p as [p IH|p IH|].
  - change (Zpos p~1) with (2 * Zpos p + 1). apply H21; [lia|exact IH].
  - change (Zpos p~0) with (2 * Zpos p). apply H2; [lia|exact IH|lia].
  - change 1 with (2 * 0 + 1). apply H21; [lia|exact H0].
Qed.

(* ------------------------------------------------------------------ powers of two *)
Lemma pow2_pos k : 0 <= k -> 0 < 2 ^ k.
Proof. intros. apply Z.pow_pos_nonneg; lia. Qed.

Lemma pow2_succ k : 0 <= k -> 2 ^ (k + 1) = 2 * 2 ^ k.
Proof. intros. rewrite Z.pow_add_r by lia. change (2 ^ 1) with 2. lia. Qed.

Lemma pow2_le k m : 0 <= k <= m -> 2 ^ k <= 2 ^ m.
Proof. intros. apply Z.pow_le_mono_r; lia. Qed.

Lemma pow2_lt k m : 0 <= k < m -> 2 ^ k < 2 ^ m.
Proof. intros. apply Z.pow_lt_mono_r; lia. Qed.

Lemma pow2_split k m : 0 <= k <= m -> 2 ^ m = 2 ^ (m - k) * 2 ^ k.
Proof. intros. rewrite <- Z.pow_add_r by lia. f_equal. lia. Qed.

(* ------------------------------------------------------------------ popcount *)
Lemma popcount_pos_pos p : 0 < popcount_pos p.
Proof. induction p; cbn [popcount_pos]; lia. Qed.

Lemma count_ones_nonneg a : 0 <= count_ones a.
Proof. destruct a; cbn [count_ones]; try lia. pose proof (popcount_pos_pos p). lia. Qed.

Lemma count_ones_0 : count_ones 0 = 0. Proof. reflexivity. Qed.

Lemma count_ones_double a : 0 <= a -> count_ones (2 * a) = count_ones a.
Proof. intros Ha. destruct a as [|p|p]; [reflexivity|reflexivity|lia]. Qed.

Lemma count_ones_succ_double a : 0 <= a -> count_ones (2 * a + 1) = 1 + count_ones a.
Proof. intros Ha. destruct a as [|p|p]; [reflexivity|reflexivity|lia]. Qed.

Lemma count_ones_2b a b : 0 <= a -> 0 <= b <= 1 -> count_ones (2 * a + b) = b + count_ones a.
Proof.
  intros Ha Hb. assert (b = 0 \/ b = 1) as [-> | ->] by lia.
  - rewrite Z.add_0_r. rewrite count_ones_double by lia. lia.
  - apply count_ones_succ_double. lia.
Qed.

Lemma count_ones_pos a : 0 < a -> 0 < count_ones a.
Proof. intros Ha. destruct a; try lia. cbn [count_ones]. apply popcount_pos_pos. Qed.

Lemma count_ones_le_self a : 0 <= a -> count_ones a <= a.
Proof.
  intros Ha. pattern a. apply Z_binary_ind; [cbn; lia| | |exact Ha].
  - intros b Hb IH _. rewrite count_ones_double by lia. lia.
  - intros b Hb IH. rewrite count_ones_succ_double by lia. lia.
Qed.

Lemma count_ones_bound (k : nat) : forall a, 0 <= a < 2 ^ Z.of_nat k -> count_ones a <= Z.of_nat k.
Proof.
  induction k as [|k IH]; intros a Ha.
  - change (2 ^ Z.of_nat 0) with 1 in Ha. assert (a = 0) by lia. subst. cbn. lia.
  - rewrite Nat2Z.inj_succ, <- Z.add_1_r, pow2_succ in Ha by lia.
    assert (a = 2 * (a / 2) + a mod 2) by (pose proof (Z.div_mod a 2); lia).
    rewrite H. rewrite count_ones_2b by lia.
    specialize (IH (a / 2)). lia.
Qed.

Lemma count_ones_lt64 a : 0 <= a < 2 ^ 64 -> count_ones a <= 64.
Proof. intros. apply (count_ones_bound 64). exact H. Qed.

Lemma count_ones_lt63 a : 0 <= a < 2 ^ 63 -> count_ones a <= 63.
Proof. intros. apply (count_ones_bound 63). exact H. Qed.

(* popcount splits over a cut at bit m *)
Lemma count_ones_split (m : nat) : forall a, 0 <= a ->
  count_ones a = count_ones (a / 2 ^ Z.of_nat m) + count_ones (a mod 2 ^ Z.of_nat m).
Proof.
  induction m as [|m IH]; intros a Ha.
  - change (2 ^ Z.of_nat 0) with 1. rewrite Z.div_1_r, Z.mod_1_r. cbn [count_ones]. lia.
  - rewrite Nat2Z.inj_succ, <- Z.add_1_r, pow2_succ by lia.
    pose proof (pow2_pos (Z.of_nat m) ltac:(lia)) as Hp.
    set (q := 2 ^ Z.of_nat m) in *.
    assert (Ea : a = 2 * (a / 2) + a mod 2) by (pose proof (Z.div_mod a 2); lia).
    assert (E1 : a / (2 * q) = a / 2 / q) by (rewrite Z.div_div by lia; reflexivity).
    assert (E2 : a mod (2 * q) = 2 * ((a / 2) mod q) + a mod 2).
    { rewrite Z.rem_mul_r by lia. lia. }
    rewrite E1, E2. rewrite (count_ones_2b ((a / 2) mod q)) by lia.
    rewrite Ea at 1. rewrite count_ones_2b by lia.
    rewrite (IH (a / 2)) by lia. fold q. lia.
Qed.

Lemma count_ones_mul_pow2 (m : nat) q : 0 <= q -> count_ones (q * 2 ^ Z.of_nat m) = count_ones q.
Proof.
  intros Hq. pose proof (pow2_pos (Z.of_nat m) ltac:(lia)).
  rewrite (count_ones_split m) by nia.
  rewrite Z.div_mul by lia. rewrite Z.mod_mul by lia. cbn [count_ones]. lia.
Qed.

(* popcount of a number with top bit m and low part r *)
Lemma count_ones_pow2_add (m : nat) r : 0 <= r < 2 ^ Z.of_nat m ->
  count_ones (2 ^ Z.of_nat m + r) = 1 + count_ones r.
Proof.
  intros Hr. rewrite (count_ones_split m) by lia.
  replace (2 ^ Z.of_nat m + r) with (1 * 2 ^ Z.of_nat m + r) by lia.
  rewrite Z.div_add_l by lia. rewrite Z.div_small by lia.
  rewrite (Z.add_comm (1 * 2 ^ Z.of_nat m) r), Z_mod_plus_full, Z.mod_small by lia.
  reflexivity.
Qed.

Lemma count_ones_pow2 (m : nat) : count_ones (2 ^ Z.of_nat m) = 1.
Proof.
  pose proof (count_ones_pow2_add m 0) as H. rewrite Z.add_0_r in H. rewrite H; [reflexivity|].
  pose proof (pow2_pos (Z.of_nat m)). lia.
Qed.

Lemma count_ones_ones (m : nat) : count_ones (2 ^ Z.of_nat m - 1) = Z.of_nat m.
Proof.
  induction m as [|m IH]; [reflexivity|].
  rewrite Nat2Z.inj_succ, <- Z.add_1_r, pow2_succ by lia.
  pose proof (pow2_pos (Z.of_nat m) ltac:(lia)).
  replace (2 * 2 ^ Z.of_nat m - 1) with (2 * (2 ^ Z.of_nat m - 1) + 1) by lia.
  rewrite count_ones_succ_double by lia. lia.
Qed.
