(* MmrIndexBits.v - bit-level lemmas used by the C16 proofs: popcount (Word.count_ones), powers of two,
   land / lxor on numbers written as 2a+b, the `(i+1) & !i` trick, the xor/ilog2 trick. *)
From Coq Require Import ZArith Bool Lia List.
From TF Require Import Word.
Open Scope Z_scope.
Ltac Zify.zify_post_hook ::= Z.div_mod_to_equations.

(* ------------------------------------------------------------------ induction on the binary digits *)
Lemma Z_binary_ind (P : Z -> Prop) :
  P 0 -> (forall a, 0 <= a -> P a -> 0 < a -> P (2 * a)) -> (forall a, 0 <= a -> P a -> P (2 * a + 1)) ->
  forall a, 0 <= a -> P a.
Proof.
  intros H0 H2 H21 a Ha. destruct a as [|p|p]; [exact H0| |lia]. clear Ha.
  induction p as [p IH|p IH|].
  - change (Zpos p~1) with (2 * Zpos p + 1). apply H21; [lia|exact IH].
  - change (Zpos p~0) with (2 * Zpos p). apply H2; [lia|exact IH|lia].
  - change 1 with (2 * 0 + 1). apply H21; [lia|exact H0].
Qed.

(* ------------------------------------------------------------------ powers of two *)
Lemma pow2_pos k : 0 <= k -> 0 < 2 ^ k.
Proof. intros. apply Z.pow_pos_nonneg; lia. Qed.

Lemma pow2_succ k : 0 <= k -> 2 ^ (k + 1) = 2 * 2 ^ k.
Proof. intros. rewrite Z.pow_add_r by lia. change (2 ^ 1) with 2. lia. Qed.

Lemma pow2_le k m : 0 <= k <= m -> 2 ^ k <= 2 ^ m.
Proof. intros. apply Z.pow_le_mono_r; lia. Qed.

Lemma pow2_lt k m : 0 <= k < m -> 2 ^ k < 2 ^ m.
Proof. intros. apply Z.pow_lt_mono_r; lia. Qed.

Lemma pow2_split k m : 0 <= k <= m -> 2 ^ m = 2 ^ (m - k) * 2 ^ k.
Proof. intros. rewrite <- Z.pow_add_r by lia. f_equal. lia. Qed.

(* ------------------------------------------------------------------ popcount *)
Lemma popcount_pos_pos p : 0 < popcount_pos p.
Proof. induction p; cbn [popcount_pos]; lia. Qed.

Lemma count_ones_nonneg a : 0 <= count_ones a.
Proof. destruct a; cbn [count_ones]; try lia. pose proof (popcount_pos_pos p). lia. Qed.

Lemma count_ones_0 : count_ones 0 = 0. Proof. reflexivity. Qed.

Lemma count_ones_double a : 0 <= a -> count_ones (2 * a) = count_ones a.
Proof. intros Ha. destruct a as [|p|p]; [reflexivity|reflexivity|lia]. Qed.

Lemma count_ones_succ_double a : 0 <= a -> count_ones (2 * a + 1) = 1 + count_ones a.
Proof. intros Ha. destruct a as [|p|p]; [reflexivity|reflexivity|lia]. Qed.

Lemma count_ones_2b a b : 0 <= a -> 0 <= b <= 1 -> count_ones (2 * a + b) = b + count_ones a.
Proof.
  intros Ha Hb. assert (b = 0 \/ b = 1) as [-> | ->] by lia.
  - rewrite Z.add_0_r. rewrite count_ones_double by lia. lia.
  - apply count_ones_succ_double. lia.
Qed.

Lemma count_ones_pos a : 0 < a -> 0 < count_ones a.
Proof. intros Ha. destruct a; try lia. cbn [count_ones]. apply popcount_pos_pos. Qed.

Lemma count_ones_le_self a : 0 <= a -> count_ones a <= a.
Proof.
  intros Ha. pattern a. apply Z_binary_ind; [cbn; lia| | |exact Ha].
  - intros b Hb IH _. rewrite count_ones_double by lia. lia.
  - intros b Hb IH. rewrite count_ones_succ_double by lia. lia.
Qed.

Lemma count_ones_bound (k : nat) : forall a, 0 <= a < 2 ^ Z.of_nat k -> count_ones a <= Z.of_nat k.
Proof.
  induction k as [|k IH]; intros a Ha.
  - change (2 ^ Z.of_nat 0) with 1 in Ha. assert (a = 0) by lia. subst. cbn. lia.
  - rewrite Nat2Z.inj_succ, <- Z.add_1_r, pow2_succ in Ha by lia.
    assert (a = 2 * (a / 2) + a mod 2) by (pose proof (Z.div_mod a 2); lia).
    rewrite H. rewrite count_ones_2b by lia.
    specialize (IH (a / 2)). lia.
Qed.

Lemma count_ones_lt64 a : 0 <= a < 2 ^ 64 -> count_ones a <= 64.
Proof. intros. apply (count_ones_bound 64). exact H. Qed.

Lemma count_ones_lt63 a : 0 <= a < 2 ^ 63 -> count_ones a <= 63.
Proof. intros. apply (count_ones_bound 63). exact H. Qed.

(* popcount splits over a cut at bit m *)
Lemma count_ones_split (m : nat) : forall a, 0 <= a ->
  count_ones a = count_ones (a / 2 ^ Z.of_nat m) + count_ones (a mod 2 ^ Z.of_nat m).
Proof.
  induction m as [|m IH]; intros a Ha.
  - change (2 ^ Z.of_nat 0) with 1. rewrite Z.div_1_r, Z.mod_1_r. cbn [count_ones]. lia.
  - rewrite Nat2Z.inj_succ, <- Z.add_1_r, pow2_succ by lia.
    pose proof (pow2_pos (Z.of_nat m) ltac:(lia)) as Hp.
    set (q := 2 ^ Z.of_nat m) in *.
    assert (Ea : a = 2 * (a / 2) + a mod 2) by (pose proof (Z.div_mod a 2); lia).
    assert (E1 : a / (2 * q) = a / 2 / q) by (rewrite Z.div_div by lia; reflexivity).
    assert (E2 : a mod (2 * q) = 2 * ((a / 2) mod q) + a mod 2).
    { rewrite Z.rem_mul_r by lia. lia. }
    rewrite E1, E2. rewrite (count_ones_2b ((a / 2) mod q)) by lia.
    rewrite Ea at 1. rewrite count_ones_2b by lia.
    rewrite (IH (a / 2)) by lia. fold q. lia.
Qed.

Lemma count_ones_mul_pow2 (m : nat) q : 0 <= q -> count_ones (q * 2 ^ Z.of_nat m) = count_ones q.
Proof.
  intros Hq. pose proof (pow2_pos (Z.of_nat m) ltac:(lia)).
  rewrite (count_ones_split m) by nia.
  rewrite Z.div_mul by lia. rewrite Z.mod_mul by lia. cbn [count_ones]. lia.
Qed.

(* popcount of a number with top bit m and low part r *)
Lemma count_ones_pow2_add (m : nat) r : 0 <= r < 2 ^ Z.of_nat m ->
  count_ones (2 ^ Z.of_nat m + r) = 1 + count_ones r.
Proof.
  intros Hr. rewrite (count_ones_split m) by lia.
  replace (2 ^ Z.of_nat m + r) with (1 * 2 ^ Z.of_nat m + r) by lia.
  rewrite Z.div_add_l by lia. rewrite Z.div_small by lia.
  rewrite (Z.add_comm (1 * 2 ^ Z.of_nat m) r), Z_mod_plus_full, Z.mod_small by lia.
  reflexivity.
Qed.

Lemma count_ones_pow2 (m : nat) : count_ones (2 ^ Z.of_nat m) = 1.
Proof.
  pose proof (count_ones_pow2_add m 0) as H. rewrite Z.add_0_r in H. rewrite H; [reflexivity|].
  pose proof (pow2_pos (Z.of_nat m)). lia.
Qed.

Lemma count_ones_ones (m : nat) : count_ones (2 ^ Z.of_nat m - 1) = Z.of_nat m.
Proof.
  induction m as [|m IH]; [reflexivity|].
  rewrite Nat2Z.inj_succ, <- Z.add_1_r, pow2_succ by lia.
  pose proof (pow2_pos (Z.of_nat m) ltac:(lia)).
  replace (2 * 2 ^ Z.of_nat m - 1) with (2 * (2 ^ Z.of_nat m - 1) + 1) by lia.
  rewrite count_ones_succ_double by lia. lia.
Qed.

Lemma count_ones_add_high (m : nat) q r : 0 <= q -> 0 <= r < 2 ^ Z.of_nat m ->
  count_ones (q * 2 ^ Z.of_nat m + r) = count_ones q + count_ones r.
Proof.
  intros Hq Hr. rewrite (count_ones_split m) by nia.
  rewrite Z.div_add_l by lia. rewrite Z.div_small by lia.
  rewrite (Z.add_comm (q * 2 ^ Z.of_nat m) r), Z_mod_plus_full, Z.mod_small by lia. rewrite Z.add_0_r. reflexivity.
Qed.

(* ------------------------------------------------------------------ masks, xor, log2 *)
Lemma land_ones_mod h i : 0 <= h -> Z.land (2 ^ h - 1) i = i mod 2 ^ h.
Proof.
  intros Hh. rewrite Z.land_comm. rewrite <- Z.land_ones by lia. rewrite Z.ones_equiv. reflexivity.
Qed.

Lemma div_mul_add q p r : 0 <= r < p -> (q * p + r) / p = q.
Proof. intros H. rewrite Z.div_add_l by lia. rewrite Z.div_small by lia. lia. Qed.

Lemma mod_mul_add q p r : 0 <= r < p -> (q * p + r) mod p = r.
Proof. intros H. rewrite Z.add_comm, Z_mod_plus_full. apply Z.mod_small. exact H. Qed.

(* position of a leaf index i and of the leaf count n relative to the tree of height h that starts after a
   leafs, a a multiple of 2^(h+1): the digits of i and n above h agree, digit h is 0 in i and 1 in n *)
Lemma tree_position_bits h q a i n : 0 <= h -> 0 <= q -> a = q * 2 ^ (h + 1) ->
  a <= i < a + 2 ^ h -> a + 2 ^ h <= n < a + 2 ^ (h + 1) ->
  i / 2 ^ (h + 1) = q /\ n / 2 ^ (h + 1) = q /\ (i / 2 ^ h) mod 2 = 0 /\ (n / 2 ^ h) mod 2 = 1 /\
  i mod 2 ^ h = i - a /\ n mod 2 ^ (h + 1) = n - a /\ n mod 2 ^ h = n - a - 2 ^ h.
Proof.
  intros Hh Hq Ea Hi Hn. rewrite pow2_succ in * by lia.
  pose proof (pow2_pos h Hh) as Hp. set (p := 2 ^ h) in *.
  assert (Ei : i = q * (2 * p) + (i - a)) by lia.
  assert (En : n = q * (2 * p) + (n - a)) by lia.
  assert (Ei2 : i = (2 * q) * p + (i - a)) by lia.
  assert (En2 : n = (2 * q + 1) * p + (n - a - p)) by lia.
  split; [rewrite Ei at 1; apply div_mul_add; lia|].
  split; [rewrite En at 1; apply div_mul_add; lia|].
  split; [rewrite Ei2 at 1; rewrite div_mul_add by lia; rewrite Z.mul_comm; apply Z.mod_mul; lia|].
  split; [rewrite En2 at 1; rewrite div_mul_add by lia; rewrite Z.add_comm, Z.mul_comm, Z_mod_plus_full; reflexivity|].
  split; [rewrite Ei2 at 1; apply mod_mul_add; lia|].
  split; [rewrite En at 1; apply mod_mul_add; lia|].
  rewrite En2 at 1; apply mod_mul_add; lia.
Qed.

Lemma log2_lxor_char h i n : 0 <= h -> 0 <= i -> 0 <= n ->
  i / 2 ^ (h + 1) = n / 2 ^ (h + 1) -> (i / 2 ^ h) mod 2 = 0 -> (n / 2 ^ h) mod 2 = 1 ->
  0 < Z.lxor i n /\ Z.log2 (Z.lxor i n) = h.
Proof.
  intros Hh Hi Hn Eq Bi Bn.
  assert (Hx : 0 <= Z.lxor i n) by (apply Z.lxor_nonneg; tauto).
  assert (Hhi : Z.lxor i n / 2 ^ (h + 1) = 0).
  { rewrite <- Z.shiftr_div_pow2 by lia. rewrite Z.shiftr_lxor. rewrite !Z.shiftr_div_pow2 by lia.
    rewrite Eq. apply Z.lxor_nilpotent. }
  assert (Hbit : (Z.lxor i n / 2 ^ h) mod 2 = 1).
  { rewrite <- Z.testbit_spec' by lia. rewrite Z.lxor_spec.
    assert (Z.b2z (Z.testbit i h) = 0) as T1 by (rewrite Z.testbit_spec' by lia; exact Bi).
    assert (Z.b2z (Z.testbit n h) = 1) as T2 by (rewrite Z.testbit_spec' by lia; exact Bn).
    destruct (Z.testbit i h), (Z.testbit n h); cbn in *; lia. }
  pose proof (pow2_pos h Hh) as Hp. pose proof (pow2_pos (h + 1) ltac:(lia)) as Hp1.
  assert (Hlt : Z.lxor i n < 2 ^ (h + 1)).
  { apply Z.div_small_iff in Hhi; lia. }
  assert (Hge : 2 ^ h <= Z.lxor i n).
  { destruct (Z.lt_ge_cases (Z.lxor i n) (2 ^ h)) as [L|]; [|lia].
    rewrite Z.div_small in Hbit by lia. cbn in Hbit. lia. }
  split; [lia|]. apply Z.log2_unique; [lia|]. change (Z.succ h) with (h + 1). lia.
Qed.

(* ------------------------------------------------------------------ the (i+1) & !i trick *)
Lemma land_2 a b x y :
  Z.land (2 * a + Z.b2z x) (2 * b + Z.b2z y) = 2 * Z.land a b + Z.b2z (x && y).
Proof.
  apply Z.bits_inj'. intros n Hn. rewrite Z.land_spec.
  destruct (Z.eq_dec n 0) as [->|Hne].
  - rewrite !Z.testbit_0_r. reflexivity.
  - replace n with (Z.succ (n - 1)) by lia. rewrite !Z.testbit_succ_r by lia. rewrite Z.land_spec. reflexivity.
Qed.

Lemma land_compl (m : nat) : forall c d, 0 <= c -> 0 <= d -> c + d = 2 ^ Z.of_nat m - 1 -> Z.land c d = 0.
Proof.
  induction m as [|m IH]; intros c d Hc Hd E.
  - change (2 ^ Z.of_nat 0) with 1 in E. assert (c = 0) by lia. assert (d = 0) by lia. subst. reflexivity.
  - rewrite Nat2Z.inj_succ, <- Z.add_1_r, pow2_succ in E by lia.
    rewrite (Z.div2_odd c), (Z.div2_odd d). rewrite land_2.
    pose proof (Z.div2_odd c) as Ec. pose proof (Z.div2_odd d) as Ed.
    assert (0 <= Z.div2 c) by (apply Z.div2_nonneg; lia).
    assert (0 <= Z.div2 d) by (apply Z.div2_nonneg; lia).
    destruct (Z.odd c), (Z.odd d); cbn [Z.b2z andb] in *.
    + lia.
    + rewrite IH by lia. reflexivity.
    + rewrite IH by lia. reflexivity.
    + lia.
Qed.

Lemma land_mul_pow2 a b t : 0 <= t -> Z.land (a * 2 ^ t) (b * 2 ^ t) = Z.land a b * 2 ^ t.
Proof. intros. rewrite <- !Z.shiftl_mul_pow2 by lia. rewrite Z.shiftl_land. reflexivity. Qed.

(* i ends in exactly t ones (then a zero): i = c * 2^(t+1) + 2^t - 1 *)
Lemma land_succ_not (w t : nat) c i : (t < w)%nat -> 0 <= c -> i = c * 2 ^ (Z.of_nat t + 1) + 2 ^ Z.of_nat t - 1 ->
  i + 1 < 2 ^ Z.of_nat w -> Z.land (i + 1) (2 ^ Z.of_nat w - 1 - i) = 2 ^ Z.of_nat t.
Proof.
  intros Htw Hc Ei Hi.
  pose proof (pow2_pos (Z.of_nat t) ltac:(lia)) as Hp.
  rewrite pow2_succ in Ei by lia.
  assert (Ew : 2 ^ Z.of_nat w = 2 ^ Z.of_nat (w - S t) * 2 * 2 ^ Z.of_nat t).
  { rewrite <- Z.mul_assoc, <- pow2_succ, <- Z.pow_add_r by lia. f_equal. lia. }
  pose proof (pow2_pos (Z.of_nat (w - S t)) ltac:(lia)) as Hq.
  set (d := 2 ^ Z.of_nat (w - S t) - 1 - c).
  assert (Hd : 0 <= d) by (unfold d; nia).
  replace (i + 1) with ((2 * c + 1) * 2 ^ Z.of_nat t) by lia.
  replace (2 ^ Z.of_nat w - 1 - i) with ((2 * d + 1) * 2 ^ Z.of_nat t) by (unfold d; lia).
  rewrite land_mul_pow2 by lia.
  change 1 with (Z.b2z true). rewrite land_2. rewrite (land_compl (w - S t) c d) by (unfold d; lia).
  cbn [andb Z.b2z]. lia.
Qed.

Lemma count_ones_succ_le a : 0 <= a -> count_ones (a + 1) <= count_ones a + 1.
Proof.
  intros Ha. pattern a. apply Z_binary_ind; [cbn; lia| | |exact Ha].
  - intros b Hb IH _. rewrite count_ones_succ_double, count_ones_double by lia. lia.
  - intros b Hb IH. replace (2 * b + 1 + 1) with (2 * (b + 1)) by lia.
    rewrite count_ones_double, count_ones_succ_double by lia. lia.
Qed.

Lemma land_pow2_testbit b n : 0 <= b -> Z.land (2 ^ b) n = if Z.testbit n b then 2 ^ b else 0.
Proof.
  intros Hb. apply Z.bits_inj'. intros j Hj. rewrite Z.land_spec, Z.pow2_bits_eqb by lia.
  destruct (Z.testbit n b) eqn:T.
  - rewrite Z.pow2_bits_eqb by lia. destruct (Z.eqb_spec b j) as [<-|]; [rewrite T; reflexivity|reflexivity].
  - rewrite Z.bits_0. destruct (Z.eqb_spec b j) as [<-|]; [rewrite T; reflexivity|reflexivity].
Qed.

Lemma mod_pow2_succ b n : 0 <= b ->
  n mod 2 ^ (b + 1) = n mod 2 ^ b + (if Z.testbit n b then 2 ^ b else 0).
Proof.
  intros Hb. pose proof (pow2_pos b Hb). rewrite pow2_succ by lia. rewrite (Z.mul_comm 2).
  rewrite Z.rem_mul_r by lia. rewrite <- Z.testbit_spec' by lia. destruct (Z.testbit n b); cbn [Z.b2z]; lia.
Qed.

(* ------------------------------------------------------------------ equivalent spellings of the same bit tricks
   (a rewrite of the source may say `|` for `+` on disjoint bits, swap the operands of `&`, or count the ones at or above
   a bit position through `& !mask` or `>>` instead of subtracting the ones below it) *)
Lemma land_ones_mod' h i : 0 <= h -> Z.land i (2 ^ h - 1) = i mod 2 ^ h.
Proof. intros Hh. rewrite Z.land_comm. apply land_ones_mod. exact Hh. Qed.

Lemma lor_pow2_low h x : 0 <= h -> 0 <= x < 2 ^ h -> Z.lor (2 ^ h) x = x + 2 ^ h.
Proof.
  intros Hh Hx.
  assert (L : Z.land (2 ^ h) x = 0).
  { rewrite land_pow2_testbit by lia. destruct (Z.testbit x h) eqn:T; [|reflexivity].
    pose proof (Z.testbit_spec' x h Hh) as S. rewrite T, Z.div_small in S by lia. cbn in S. lia. }
  rewrite <- Z.lxor_lor by exact L. rewrite <- Z.add_nocarry_lxor by exact L. lia.
Qed.

Lemma lor_low_pow2 h x : 0 <= h -> 0 <= x < 2 ^ h -> Z.lor x (2 ^ h) = x + 2 ^ h.
Proof. intros. rewrite Z.lor_comm. apply lor_pow2_low; assumption. Qed.

Lemma wnot64_ones h : 0 <= h <= 64 -> 2 ^ 64 - 1 - (2 ^ h - 1) = Z.ldiff (Z.ones 64) (Z.ones h).
Proof.
  intros Hh. rewrite <- Z.sub_nocarry_ldiff.
  - rewrite !Z.ones_equiv. lia.
  - apply Z.bits_inj'. intros k Hk. rewrite Z.ldiff_spec, Z.bits_0.
    destruct (Z.lt_ge_cases k h) as [L|G].
    + rewrite (Z.ones_spec_low 64 k) by lia. rewrite Bool.andb_false_r. reflexivity.
    + rewrite (Z.ones_spec_high h k) by lia. reflexivity.
Qed.

Lemma land_above h n : 0 <= h < 64 -> 0 <= n < 2 ^ 64 ->
  Z.land n (2 ^ 64 - 1 - (2 ^ h - 1)) = n / 2 ^ h * 2 ^ h.
Proof.
  intros Hh Hn. rewrite wnot64_ones by lia. rewrite Z.ldiff_land, Z.land_assoc.
  rewrite Z.land_ones by lia. rewrite Z.mod_small by lia. rewrite <- Z.ldiff_land.
  rewrite Z.ldiff_ones_r by lia. rewrite Z.shiftr_div_pow2, Z.shiftl_mul_pow2 by lia. reflexivity.
Qed.

Lemma count_ones_above (m : nat) n : (m < 64)%nat -> 0 <= n < 2 ^ 64 ->
  count_ones (Z.land n (2 ^ 64 - 1 - (2 ^ Z.of_nat m - 1))) = count_ones (n / 2 ^ Z.of_nat m).
Proof.
  intros Hm Hn. rewrite land_above by lia. apply count_ones_mul_pow2.
  apply Z.div_pos; [lia|]. apply pow2_pos. lia.
Qed.
