(* MmrIndexGrow.v - C16: the forest obtained by appending leafs one at a time (merging equal-height neighbours,
   spec/Forest.v `grow`) is the forest of the binary decomposition of the leaf count (`forest`). *)
From Coq Require Import ZArith Bool Lia List.
From TF Require Import Word MmrIndexGen MmrIndex Forest MmrIndexBits MmrIndexProofs MmrIndexLoops.
Import ListNotations.
Open Scope Z_scope.

Definition head_height_ge (k : nat) (rest : list ptree) : Prop :=
  match rest with [] => True | t :: _ => (k <= pt_height t)%nat end.

Lemma merge_in_stop t rest : head_height_ge (S (pt_height t)) rest -> merge_in t rest = t :: rest.
Proof.
  destruct rest as [|t' r]; intros H; [reflexivity|]. cbn [merge_in]. cbn [head_height_ge] in H.
  destruct (Nat.eqb_spec (pt_height t') (pt_height t)); [lia|reflexivity].
Qed.

(* appending one leaf to the part of the forest that lives in the slot (k, o, l) *)
Lemma merge_in_slot k : forall m o l rest, 0 <= m < tleafs k -> head_height_ge k rest ->
  merge_in (PTree 0 (o + ncount m) (l + m)) (rev (forest_from k m o l) ++ rest) =
  if m + 1 =? tleafs k then merge_in (PTree k o l) rest
  else rev (forest_from k (m + 1) o l) ++ rest.
Proof.
  induction k as [|k IH]; intros m o l rest Hm Hr.
  - change (tleafs 0) with 1 in *. assert (m = 0) as -> by lia. cbn [forest_from rev app Z.add Z.eqb Pos.eqb].
    rewrite ncount_0, !Z.add_0_r. reflexivity.
  - cbn [forest_from]. rewrite tleafs_S in *. pose proof (tleafs_pos k) as Hk.
    destruct (Z.leb_spec (tleafs k) m) as [Hb|Hb].
    + cbn [rev]. rewrite <- app_assoc. cbn [app].
      rewrite (ncount_split k m) by lia.
      replace (o + (tsize k + ncount (m - tleafs k))) with (o + tsize k + ncount (m - tleafs k)) by lia.
      replace (l + m) with (l + tleafs k + (m - tleafs k)) by lia.
      rewrite IH by (cbn [head_height_ge pt_height]; lia).
      replace (m - tleafs k + 1) with (m + 1 - tleafs k) by lia.
      destruct (Z.eqb_spec (m + 1 - tleafs k) (tleafs k)) as [e|ne].
      * destruct (Z.eqb_spec (m + 1) (2 * tleafs k)); [|lia].
        cbn [merge_in pt_height pt_offset pt_first_leaf]. rewrite Nat.eqb_refl. reflexivity.
      * destruct (Z.eqb_spec (m + 1) (2 * tleafs k)); [lia|].
        destruct (Z.leb_spec (tleafs k) (m + 1)); [|lia]. cbn [rev]. rewrite <- app_assoc. reflexivity.
    + rewrite IH by (destruct rest; cbn [head_height_ge] in *; lia).
      destruct (Z.eqb_spec (m + 1) (tleafs k)) as [e|ne].
      * destruct (Z.eqb_spec (m + 1) (2 * tleafs k)); [lia|].
        destruct (Z.leb_spec (tleafs k) (m + 1)); [|lia].
        rewrite e, Z.sub_diag, forest_from_zero. cbn [rev app].
        apply merge_in_stop. cbn [pt_height]. exact Hr.
      * destruct (Z.eqb_spec (m + 1) (2 * tleafs k)); [lia|].
        destruct (Z.leb_spec (tleafs k) (m + 1)); [lia|]. reflexivity.
Qed.

Lemma ncount_after_tree h q a : 0 <= q -> a = q * (2 * tleafs h) -> ncount (a + tleafs h) = ncount a + tsize h.
Proof.
  intros Hq Ea. unfold ncount. rewrite tsize_tleafs.
  assert (C : count_ones (a + tleafs h) = count_ones a + 1).
  { rewrite Ea. rewrite <- tleafs_S. rewrite !tleafs_pow.
    assert (2 ^ Z.of_nat h < 2 ^ Z.of_nat (S h)) by (apply pow2_lt; lia).
    pose proof (pow2_pos (Z.of_nat h) ltac:(lia)).
    rewrite count_ones_add_high by lia. rewrite count_ones_mul_pow2 by lia. rewrite count_ones_pow2. reflexivity. }
  rewrite C. lia.
Qed.

Theorem grow_is_forest (n : nat) : Z.of_nat n < 2 ^ 64 -> grow n = rev (forest (Z.of_nat n)).
Proof.
  induction n as [|n IH]; intros Hn; [reflexivity|].
  cbn [grow]. rewrite IH by lia. rewrite (forest_eq (Z.of_nat n)), (forest_eq (Z.of_nat (S n))).
  destruct n as [|n'].
  - vm_compute. reflexivity.
  - set (m := Z.of_nat (S n')) in *. assert (Hm : 0 < m < tleafs 64) by (rewrite tleafs_64; lia).
    destruct (last_tree 64 m 0 0 Hm) as (pre & h & a & q & F & Hq & Ea & Em).
    pose proof (merge_in_slot 64 m 0 0 [] ltac:(lia) I) as M. rewrite !app_nil_r in M.
    destruct (Z.eqb_spec (m + 1) (tleafs 64)) as [e|_]; [rewrite tleafs_64 in e; lia|].
    replace (Z.of_nat (S (S n'))) with (m + 1) by lia. rewrite <- M.
    rewrite F, rev_unit. unfold append_leaf. rewrite <- (rev_unit pre). rewrite <- F.
    unfold pt_root. cbn [pt_height pt_offset pt_first_leaf].
    rewrite !Z.add_0_l. rewrite <- (ncount_after_tree h q a Hq Ea). rewrite Em. reflexivity.
Qed.

(* ================================================================== the materialised trees *)
Lemma m_node_materialise h o l : m_node (materialise h o l) = o + tsize h.
Proof. destruct h; reflexivity. Qed.

Lemma m_height_materialise h : forall o l, m_height (materialise h o l) = Z.of_nat h.
Proof. induction h as [|h IH]; intros o l; [reflexivity|]. cbn [materialise m_height]. rewrite IH. lia. Qed.

Lemma m_first_leaf_materialise h : forall o l, m_first_leaf (materialise h o l) = l.
Proof. induction h as [|h IH]; intros o l; [reflexivity|]. cbn [materialise m_first_leaf]. apply IH. Qed.

(* what the descent says about a node is what the plain traversal of the explicit tree records for it *)
Theorem t_locate_in_materialised h : forall o l x r isr par sib ni,
  t_locate h o l x r isr par sib = Some ni -> In (x, ni) (m_infos (materialise h o l) r isr par sib).
Proof.
  induction h as [|h IH]; intros o l x r isr par sib ni E.
  - cbn [t_locate] in E. destruct (Z.eqb_spec x (o + tsize 0)) as [->|]; [|discriminate].
    injection E as <-. left. reflexivity.
  - cbn [t_locate] in E. cbn [materialise m_infos m_height m_first_leaf].
    rewrite !m_node_materialise, m_height_materialise, m_first_leaf_materialise.
    destruct (Z.eqb_spec x (o + tsize (S h))) as [->|].
    + injection E as <-. apply in_or_app. right. apply in_or_app. right. left.
      f_equal. f_equal. lia.
    + destruct (x <=? o + tsize h).
      * apply in_or_app. left. apply IH. exact E.
      * apply in_or_app. right. apply in_or_app. left. apply IH. exact E.
Qed.

Lemma upfrom_app a : forall b x, upfrom (a + b) x = upfrom a x ++ upfrom b (x + Z.of_nat a).
Proof.
  induction a as [|a IH]; intros b x; [cbn [upfrom app Nat.add]; rewrite Z.add_0_r; reflexivity|].
  cbn [Nat.add upfrom app]. rewrite IH. do 3 f_equal. lia.
Qed.

(* post-order numbering: the nodes of the explicit tree are o+1, ..., o + tsize h in post-order *)
Theorem m_postorder_materialise h : forall o l,
  m_postorder (materialise h o l) = upfrom (Z.to_nat (tsize h)) o.
Proof.
  induction h as [|h IH]; intros o l; [reflexivity|].
  cbn [materialise m_postorder]. rewrite !IH. rewrite tsize_S. pose proof (tsize_pos h) as Hp.
  replace (Z.to_nat (2 * tsize h + 1)) with (Z.to_nat (tsize h) + (Z.to_nat (tsize h) + 1))%nat by lia.
  rewrite !upfrom_app. rewrite !Z2Nat.id by lia. do 2 f_equal. cbn [upfrom]. f_equal. lia.
Qed.
