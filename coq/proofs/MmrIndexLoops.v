(* MmrIndexLoops.v - C16: the looping / recursive index functions of model/MmrIndex.v against the forest
   specification spec/Forest.v: termination within the fuel, no overflow, agreement with the structural answer. *)
From Coq Require Import ZArith Bool Lia List.
From TF Require Import Word MmrIndexGen MmrIndex Forest MmrIndexBits MmrIndexProofs.
Import ListNotations.
Open Scope Z_scope.
Ltac Zify.zify_post_hook ::= Z.div_mod_to_equations.

(* ================================================================== the descent, stripped to what the loops compute *)
(* (right lineage length, height, first leaf) of node x in the perfect tree (h, o, l); r = right lineage length
   of the root of that tree *)
Fixpoint desc (h : nat) (o l x r : Z) : option (Z * Z * Z) :=
  if x =? o + tsize h then Some (r, Z.of_nat h, l) else
  match h with
  | O => None
  | S h' => if x <=? o + tsize h' then desc h' o l x 0
            else desc h' (o + tsize h') (l + tleafs h') x (r + 1)
  end.

Lemma desc_S h o l x r :
  desc (S h) o l x r =
  if x =? o + tsize (S h) then Some (r, Z.of_nat (S h), l)
  else if x <=? o + tsize h then desc h o l x 0 else desc h (o + tsize h) (l + tleafs h) x (r + 1).
Proof. reflexivity. Qed.

Lemma t_locate_desc h : forall o l x r isr par sib ni,
  t_locate h o l x r isr par sib = Some ni -> desc h o l x r = Some (ni_rll ni, ni_height ni, ni_first_leaf ni).
Proof.
  induction h as [|h IH]; intros o l x r isr par sib ni E.
  - cbn [t_locate] in E. cbn [desc]. destruct (x =? o + tsize 0); [|discriminate].
    injection E as <-. reflexivity.
  - cbn [t_locate] in E. rewrite desc_S.
    destruct (x =? o + tsize (S h)).
    + injection E as <-. reflexivity.
    + destruct (x <=? o + tsize h); eapply IH; exact E.
Qed.

Lemma t_locate_total h : forall o l x r isr par sib, o < x <= o + tsize h ->
  exists ni, t_locate h o l x r isr par sib = Some ni.
Proof.
  induction h as [|h IH]; intros o l x r isr par sib Hx.
  - change (tsize 0) with 1 in Hx. cbn [t_locate]. change (tsize 0) with 1.
    destruct (Z.eqb_spec x (o + 1)); [eauto|lia].
  - cbn [t_locate]. rewrite tsize_S in Hx. pose proof (tsize_pos h).
    destruct (Z.eqb_spec x (o + tsize (S h))); [eauto|].
    rewrite tsize_S in n.
    destruct (Z.leb_spec x (o + tsize h)); apply IH; lia.
Qed.

(* facts about the located node that relate its fields to each other; the tree it was found in occupies
   node indices in (A, B] *)
Definition ni_consistent (x : Z) (ni : nodeinfo) (A B : Z) : Prop :=
  0 <= ni_height ni /\ 0 <= ni_rll ni /\
  (ni_is_right ni = true -> 0 < ni_rll ni /\ ni_parent ni = Some (x + 1) /\
                            ni_sibling ni = Some (x - (2 ^ (ni_height ni + 1) - 1))) /\
  (ni_is_right ni = false -> ni_rll ni = 0 /\
     ((ni_parent ni = None /\ ni_sibling ni = None) \/
      (ni_parent ni = Some (x + 2 ^ (ni_height ni + 1)) /\ ni_sibling ni = Some (x + 2 ^ (ni_height ni + 1) - 1)))) /\
  (forall p, ni_parent ni = Some p -> p <= B) /\
  (ni_height ni = 0 -> ni_children ni = None) /\
  (0 < ni_height ni -> ni_children ni = Some (x - 2 ^ ni_height ni, x - 1)) /\
  (forall s, ni_sibling ni = Some s -> A < s) /\
  A + (2 ^ (ni_height ni + 1) - 1) <= x <= B.

Lemma consistent_root (hh : nat) x l r isr par sib ch A B :
  0 <= r ->
  (isr = true -> 0 < r /\ par = Some (x + 1) /\ sib = Some (x - tsize hh)) ->
  (isr = false -> r = 0 /\ ((par = None /\ sib = None) \/
                           (par = Some (x + tsize hh + 1) /\ sib = Some (x + tsize hh)))) ->
  (forall p, par = Some p -> p <= B) ->
  (hh = O -> ch = None) ->
  (forall h', hh = S h' -> ch = Some (x - tsize h' - 1, x - 1)) ->
  (forall s, sib = Some s -> A < s) -> A + tsize hh <= x <= B ->
  ni_consistent x (NodeInfo (Z.of_nat hh) r isr par sib ch l) A B.
Proof.
  intros Hr Ht Hf HB Hc0 HcS HA HAx.
  assert (P : 2 ^ (Z.of_nat hh + 1) - 1 = tsize hh) by (rewrite tsize_pow; reflexivity).
  unfold ni_consistent. cbn [ni_height ni_rll ni_is_right ni_parent ni_sibling ni_children].
  refine (conj _ (conj _ (conj _ (conj _ (conj _ (conj _ (conj _ (conj _ _)))))))).
  - lia.
  - exact Hr.
  - intros H. destruct (Ht H) as (H1 & -> & ->). rewrite P. auto.
  - intros H. destruct (Hf H) as (H1 & [[-> ->]|[-> ->]]); split; auto.
    right. split; f_equal; lia.
  - exact HB.
  - intros H. apply Hc0. lia.
  - intros H. destruct hh as [|h']; [lia|]. rewrite (HcS h' eq_refl). f_equal. f_equal.
    rewrite <- tleafs_pow, tleafs_S, tsize_tleafs. lia.
  - exact HA.
  - rewrite P. exact HAx.
Qed.

Lemma t_locate_consistent h : forall o l x r isr par sib ni A B,
  t_locate h o l x r isr par sib = Some ni ->
  0 <= r ->
  (isr = true -> 0 < r /\ par = Some (o + tsize h + 1) /\ sib = Some (o + tsize h - tsize h)) ->
  (isr = false -> r = 0 /\ ((par = None /\ sib = None) \/
                           (par = Some (o + tsize h + tsize h + 1) /\ sib = Some (o + tsize h + tsize h)))) ->
  (forall p, par = Some p -> p <= B) -> o + tsize h <= B ->
  (forall s, sib = Some s -> A < s) -> A <= o ->
  ni_consistent x ni A B.
Proof.
  induction h as [|h IH]; intros o l x r isr par sib ni A B E Hr Ht Hf HB HB2 HA HA2.
  - cbn [t_locate] in E. destruct (Z.eqb_spec x (o + tsize 0)); [|discriminate].
    injection E as <-. subst x. apply (consistent_root 0); auto; [intros; discriminate|lia].
  - cbn [t_locate] in E. pose proof (tsize_pos h) as Hp.
    destruct (Z.eqb_spec x (o + tsize (S h))) as [->|Hne].
    + injection E as <-. apply (consistent_root (S h)); auto; [intros; discriminate| |lia].
      intros h' [= <-]. rewrite tsize_S. f_equal. f_equal; lia.
    + rewrite tsize_S in *.
      destruct (Z.leb_spec x (o + tsize h)).
      * eapply IH; [exact E|lia| | | |lia| |lia].
        -- intros; discriminate.
        -- intros _. split; [reflexivity|]. right. split; f_equal; lia.
        -- intros p Hp'. assert (p = o + (2 * tsize h + 1)) by congruence. lia.
        -- intros s Hs'. assert (s = o + tsize h + tsize h) by congruence. lia.
      * eapply IH; [exact E|lia| | | |lia| |lia].
        -- intros _. split; [lia|]. split; f_equal; lia.
        -- intros; discriminate.
        -- intros p Hp'. assert (p = o + (2 * tsize h + 1)) by congruence. lia.
        -- intros s Hs'. assert (s = o + tsize h) by congruence. lia.
Qed.

(* ================================================================== properties of the descent *)
Lemma desc_total h : forall o l x r, o < x <= o + tsize h -> 0 <= r ->
  exists a b c, desc h o l x r = Some (a, b, c) /\ 0 <= b <= Z.of_nat h /\ 0 <= a <= r + (Z.of_nat h - b).
Proof.
  induction h as [|h IH]; intros o l x r Hx Hr.
  - change (tsize 0) with 1 in Hx. cbn [desc]. change (tsize 0) with 1.
    destruct (Z.eqb_spec x (o + 1)); [|lia]. exists r, 0, l. cbn. split; [reflexivity|lia].
  - rewrite desc_S. rewrite tsize_S in *. pose proof (tsize_pos h).
    destruct (Z.eqb_spec x (o + (2 * tsize h + 1))).
    + exists r, (Z.of_nat (S h)), l. split; [reflexivity|lia].
    + destruct (Z.leb_spec x (o + tsize h)).
      * destruct (IH o l x 0 ltac:(lia) ltac:(lia)) as (a & b & c & E & Hb & Ha).
        exists a, b, c. split; [exact E|lia].
      * destruct (IH (o + tsize h) (l + tleafs h) x (r + 1) ltac:(lia) ltac:(lia)) as (a & b & c & E & Hb & Ha).
        exists a, b, c. split; [exact E|lia].
Qed.

(* a tree on the left edge of a bigger tree: same answers *)
Lemma desc_left_spine d : forall h o l x, o < x <= o + tsize h -> desc (d + h) o l x 0 = desc h o l x 0.
Proof.
  induction d as [|d IH]; intros h o l x Hx; [reflexivity|].
  change (S d + h)%nat with (S (d + h)). rewrite desc_S.
  pose proof (tsize_mono h (d + h) ltac:(lia)). pose proof (tsize_pos (d + h)). rewrite tsize_S.
  destruct (Z.eqb_spec x (o + (2 * tsize (d + h) + 1))); [lia|].
  destruct (Z.leb_spec x (o + tsize (d + h))); [|lia]. apply IH. exact Hx.
Qed.

(* the nodes on the right edge *)
Lemma desc_right_spine h : forall o l r (d : nat), (d <= h)%nat ->
  exists c, desc h o l (o + tsize h - Z.of_nat d) r = Some (r + Z.of_nat d, Z.of_nat (h - d), c).
Proof.
  induction h as [|h IH]; intros o l r d Hd.
  - assert (d = O) by lia. subst d. cbn [desc]. rewrite Z.sub_0_r, Z.eqb_refl. exists l. f_equal. f_equal. f_equal. lia.
  - rewrite desc_S. destruct d as [|d].
    + rewrite Z.sub_0_r, Z.eqb_refl. exists l. f_equal. f_equal. f_equal. lia.
    + pose proof (tsize_ge_height h). rewrite tsize_S.
      destruct (Z.eqb_spec (o + (2 * tsize h + 1) - Z.of_nat (S d)) (o + (2 * tsize h + 1))); [lia|].
      destruct (Z.leb_spec (o + (2 * tsize h + 1) - Z.of_nat (S d)) (o + tsize h)); [lia|].
      destruct (IH (o + tsize h) (l + tleafs h) (r + 1) d ltac:(lia)) as (c & E).
      exists c. replace (o + (2 * tsize h + 1) - Z.of_nat (S d)) with (o + tsize h + tsize h - Z.of_nat d) by lia.
      rewrite E. f_equal. f_equal. f_equal. lia.
Qed.

(* translation of the whole tree *)
Lemma desc_translate h : forall o l x r o' l' a b c, desc h o l x r = Some (a, b, c) ->
  desc h o' l' (x - o + o') r = Some (a, b, c - l + l').
Proof.
  induction h as [|h IH]; intros o l x r o' l' a b c E.
  - cbn [desc] in *. destruct (Z.eqb_spec x (o + tsize 0)); [|discriminate].
    destruct (Z.eqb_spec (x - o + o') (o' + tsize 0)); [|lia]. injection E as <- <- <-. f_equal. f_equal. lia.
  - rewrite desc_S in *.
    destruct (Z.eqb_spec x (o + tsize (S h))).
    + destruct (Z.eqb_spec (x - o + o') (o' + tsize (S h))); [|lia]. injection E as <- <- <-. f_equal. f_equal. lia.
    + destruct (Z.eqb_spec (x - o + o') (o' + tsize (S h))); [lia|].
      destruct (Z.leb_spec x (o + tsize h)).
      * destruct (Z.leb_spec (x - o + o') (o' + tsize h)); [|lia]. apply IH. exact E.
      * destruct (Z.leb_spec (x - o + o') (o' + tsize h)); [lia|].
        replace (x - o + o') with (x - (o + tsize h) + (o' + tsize h)) by lia.
        replace (c - l + l') with (c - (l + tleafs h) + (l' + tleafs h)) by lia.
        apply IH. exact E.
Qed.

(* off the right edge the right lineage length of the root does not matter *)
Lemma desc_shift h : forall o l x r o' l' r' a b c, o < x <= o + tsize h -> x < o + tsize h - Z.of_nat h ->
  desc h o l x r = Some (a, b, c) -> desc h o' l' (x - o + o') r' = Some (a, b, c - l + l').
Proof.
  induction h as [|h IH]; intros o l x r o' l' r' a b c Hx Hs E.
  - change (tsize 0) with 1 in *. lia.
  - rewrite desc_S in *. rewrite tsize_S in *. pose proof (tsize_pos h).
    destruct (Z.eqb_spec x (o + (2 * tsize h + 1))); [lia|].
    destruct (Z.eqb_spec (x - o + o') (o' + (2 * tsize h + 1))); [lia|].
    destruct (Z.leb_spec x (o + tsize h)).
    + destruct (Z.leb_spec (x - o + o') (o' + tsize h)); [|lia]. apply desc_translate. exact E.
    + destruct (Z.leb_spec (x - o + o') (o' + tsize h)); [lia|].
      replace (x - o + o') with (x - (o + tsize h) + (o' + tsize h)) by lia.
      replace (c - l + l') with (c - (l + tleafs h) + (l' + tleafs h)) by lia.
      eapply IH; [| |exact E]; lia.
Qed.

(* ================================================================== the forest and the descent from the slot (k, o) *)
Lemma f_locate_desc k : forall n o l x pk r, 0 <= n < tleafs k -> o < x <= o + ncount n ->
  exists pk' t ni,
    f_locate_in (forest_from k n o l) x pk = Some (pk', t, ni) /\
    desc k o l x r = Some (ni_rll ni, ni_height ni, ni_first_leaf ni) /\
    In t (forest_from k n o l) /\ pt_has_node t x = true /\
    t_locate (pt_height t) (pt_offset t) (pt_first_leaf t) x 0 false None None = Some ni /\
    o <= pt_offset t /\ pt_root t <= o + ncount n.
Proof.
  induction k as [|k IH]; intros n o l x pk r Hn Hx.
  - change (tleafs 0) with 1 in Hn. assert (n = 0) by lia. subst n. rewrite ncount_0 in Hx. lia.
  - cbn [forest_from]. rewrite desc_S. rewrite tleafs_S in Hn. pose proof (tsize_pos k) as Hp.
    pose proof (ncount_lt_tsize (S k) n ltac:(rewrite tleafs_S; lia)) as Hlt. rewrite tsize_S in *.
    destruct (Z.eqb_spec x (o + (2 * tsize k + 1))); [lia|].
    destruct (Z.leb_spec (tleafs k) n) as [Hb|Hb].
    + pose proof (ncount_split k n ltac:(lia)) as Hs.
      cbn [f_locate_in]. unfold pt_has_node at 1, pt_root at 1. cbn [pt_offset pt_height pt_first_leaf].
      destruct (Z.ltb_spec o x); [|lia]. cbn [andb].
      destruct (Z.leb_spec x (o + tsize k)) as [Hle|Hgt].
      * destruct (t_locate_total k o l x 0 false None None ltac:(lia)) as (ni & E).
        rewrite E. exists pk, (PTree k o l), ni. split; [reflexivity|].
        split; [eapply t_locate_desc; exact E|]. split; [left; reflexivity|].
        unfold pt_has_node, pt_root. cbn [pt_offset pt_height pt_first_leaf].
        split; [apply andb_true_intro; split; lia|]. split; [exact E|].
        pose proof (ncount_nonneg (n - tleafs k) ltac:(lia)). lia.
      * destruct (IH (n - tleafs k) (o + tsize k) (l + tleafs k) x (pk + 1) (r + 1) ltac:(lia) ltac:(lia))
          as (pk' & t & ni & E & D & I & Hhas & T & Ho & Hr).
        exists pk', t, ni. split; [exact E|]. split; [exact D|]. split; [right; exact I|].
        split; [exact Hhas|]. split; [exact T|]. lia.
    + pose proof (ncount_lt_tsize k n ltac:(lia)).
      destruct (Z.leb_spec x (o + tsize k)); [|lia].
      destruct (IH n o l x pk 0 ltac:(lia) ltac:(lia)) as (pk' & t & ni & E & D & R).
      exists pk', t, ni. split; [exact E|]. split; [exact D|exact R].
Qed.

(* ================================================================== right_lineage_length_and_own_height *)
Lemma rll_height_loop_desc h : forall fuel o l x r, (h < fuel)%nat -> 0 <= o -> o + tsize h < 2 ^ 64 ->
  o < x <= o + tsize h -> 0 <= r -> r + Z.of_nat h < 2 ^ 32 ->
  exists a b c, desc h o l x r = Some (a, b, c) /\
                rll_height_loop fuel x (o + tsize h) (Z.of_nat h) r = Some (a, b).
Proof.
  induction h as [|h IH]; intros fuel o l x r Hf Ho Hb Hx Hr Hr32.
  - destruct fuel as [|f]; [lia|]. change (tsize 0) with 1 in *. cbn [rll_height_loop desc]. change (tsize 0) with 1.
    destruct (Z.eqb_spec (o + 1) x); [|lia]. destruct (Z.eqb_spec x (o + 1)); [|lia].
    exists r, 0, l. split; reflexivity.
  - destruct fuel as [|f]; [lia|]. cbn [rll_height_loop]. rewrite desc_S.
    pose proof (tsize_pos h) as Hp.
    assert (P2 : 2 ^ Z.of_nat (S h) = tsize h + 1) by (rewrite <- tleafs_pow, tleafs_S, tsize_tleafs; lia).
    pose proof (tsize_lt64_inv (S h) ltac:(lia)) as H63.
    rewrite tsize_S in *.
    destruct (Z.eqb_spec (o + (2 * tsize h + 1)) x) as [<-|Hne].
    + rewrite Z.eqb_refl. exists r, (Z.of_nat (S h)), l. split; reflexivity.
    + destruct (Z.eqb_spec x (o + (2 * tsize h + 1))); [lia|].
      destruct (left_child_val (o + (2 * tsize h + 1)) (Z.of_nat (S h)) ltac:(lia) ltac:(lia)) as [-> ->].
      rewrite P2. replace (o + (2 * tsize h + 1) - (tsize h + 1)) with (o + tsize h) by lia.
      assert (Eh : wsub 32 (Z.of_nat (S h)) 1 = Z.of_nat h) by (rewrite wsub32_small by (pow_lits; lia); lia).
      rewrite Eh. unfold sub_ok. destruct (Z.leb_spec 1 (Z.of_nat (S h))); [|lia].
      destruct (Z.ltb_spec (o + tsize h) x) as [Hgt|Hle].
      * destruct (Z.leb_spec x (o + tsize h)); [lia|].
        destruct (right_child_val (o + (2 * tsize h + 1)) ltac:(lia)) as [-> ->].
        unfold add_ok. destruct (Z.ltb_spec (r + 1) (2 ^ 32)); [|lia]. cbn [andb].
        rewrite wadd32_small by lia.
        replace (o + (2 * tsize h + 1) - 1) with (o + tsize h + tsize h) by lia.
        apply IH; lia.
      * destruct (Z.leb_spec x (o + tsize h)); [|lia]. apply IH; lia.
Qed.

Theorem rll_and_height_desc x : 1 <= x < 2 ^ 64 ->
  exists a b c, desc 64 0 0 x 0 = Some (a, b, c) /\ mm_right_lineage_length_and_own_height x = Some (a, b).
Proof.
  intros Hx. unfold mm_right_lineage_length_and_own_height.
  destruct (leftmost_ancestor_val x Hx) as (-> & H & HH & -> & Hr).
  pose proof (tleafs_pos H). pose proof (tsize_lt64 H HH).
  destruct (rll_height_loop_desc H 65 0 0 x 0 ltac:(lia) ltac:(lia) ltac:(lia) ltac:(lia) ltac:(lia) ltac:(pow_lits; lia))
    as (a & b & c & D & L).
  exists a, b, c. rewrite Z.add_0_l in L. split; [|exact L].
  replace 64%nat with ((64 - H) + H)%nat by lia. rewrite desc_left_spine by lia. exact D.
Qed.

(* ================================================================== nodes of the forest: the model against the specification *)
Lemma ncount_lt64 n : 0 <= n < 2 ^ 63 -> ncount n < 2 ^ 64.
Proof. intros. unfold ncount. pose proof (count_ones_nonneg n). pow_lits. lia. Qed.

Lemma pow2_lt64_inv h : 0 <= h -> 2 ^ h < 2 ^ 64 -> h < 64.
Proof. intros Hh H. apply (Z.pow_lt_mono_r_iff 2); lia. Qed.

Theorem node_located n x : 0 <= n < 2 ^ 64 -> ncount n < 2 ^ 64 -> 1 <= x <= ncount n ->
  exists pk t ni, f_locate n x = Some (pk, t, ni) /\
    mm_right_lineage_length_and_own_height x = Some (ni_rll ni, ni_height ni) /\
    desc 64 0 0 x 0 = Some (ni_rll ni, ni_height ni, ni_first_leaf ni) /\
    ni_consistent x ni 0 (ncount n) /\ In t (forest n) /\ pt_has_node t x = true.
Proof.
  intros Hn Hc Hx. unfold f_locate, forest.
  destruct (f_locate_desc 64 n 0 0 x 0 0 ltac:(rewrite tleafs_64; lia) ltac:(lia))
    as (pk & t & ni & E & D & I & Hhas & T & Ho & Hr).
  exists pk, t, ni. split; [exact E|].
  destruct (rll_and_height_desc x ltac:(lia)) as (a & b & c & D' & L).
  rewrite D in D'. injection D' as <- <- <-.
  split; [exact L|]. split; [exact D|]. split; [|split; [exact I|exact Hhas]].
  eapply t_locate_consistent; [exact T|lia| | | | | |exact Ho].
  - intros; discriminate.
  - intros _. split; [reflexivity|left; split; reflexivity].
  - intros p Hp'; discriminate.
  - unfold pt_root in Hr. lia.
  - intros s Hs'; discriminate.
Qed.

Theorem parent_correct n x pk t ni p : 0 <= n < 2 ^ 64 -> ncount n < 2 ^ 64 -> 1 <= x <= ncount n ->
  f_locate n x = Some (pk, t, ni) -> ni_parent ni = Some p -> mm_parent x = Some p.
Proof.
  intros Hn Hc Hx E Hp.
  destruct (node_located n x Hn Hc Hx) as (pk' & t' & ni' & E' & L & _ & C & _).
  rewrite E in E'. injection E' as <- <- <-.
  destruct C as (Hh & Hr & Ct & Cf & CB & _).
  unfold mm_parent. rewrite L. pose proof (CB p Hp) as HpB.
  destruct (ni_is_right ni) eqn:R.
  - destruct (Ct eq_refl) as (Hr0 & Ep & _). rewrite Hp in Ep. injection Ep as ->.
    destruct (Z.eqb_spec (ni_rll ni) 0); [lia|]. cbn [negb]. unfold mm_chk, add_ok.
    destruct (Z.ltb_spec (x + 1) (2 ^ 64)); [|lia]. rewrite wadd64_small by lia. reflexivity.
  - destruct (Cf eq_refl) as (Hr0 & [[Ep _]|[Ep _]]); [congruence|]. rewrite Hp in Ep. injection Ep as ->.
    rewrite Hr0. cbn [Z.eqb negb].
    pose proof (pow2_pos (ni_height ni + 1) ltac:(lia)) as Hpp.
    pose proof (pow2_lt64_inv (ni_height ni + 1) ltac:(lia) ltac:(lia)) as H64.
    assert (E1 : wadd 32 (ni_height ni) 1 = ni_height ni + 1) by (apply wadd32_small; pow_lits; lia).
    rewrite E1. rewrite wshl64_1, shift_ok_64 by lia. unfold add_ok.
    destruct (Z.ltb_spec (ni_height ni + 1) (2 ^ 32)); [|pow_lits; lia].
    unfold mm_chk. destruct (Z.ltb_spec (x + 2 ^ (ni_height ni + 1)) (2 ^ 64)); [|lia].
    rewrite wadd64_small by lia. reflexivity.
Qed.

Theorem sibling_correct n x pk t ni s : 0 <= n < 2 ^ 64 -> ncount n < 2 ^ 64 -> 1 <= x <= ncount n ->
  f_locate n x = Some (pk, t, ni) -> ni_sibling ni = Some s ->
  (if ni_is_right ni then mm_left_sibling x (ni_height ni) else mm_right_sibling x (ni_height ni)) = Some s.
Proof.
  intros Hn Hc Hx E Hs.
  destruct (node_located n x Hn Hc Hx) as (pk' & t' & ni' & E' & L & _ & C & _).
  rewrite E in E'. injection E' as <- <- <-.
  destruct C as (Hh & Hr & Ct & Cf & CB & _ & _ & CA & CAx).
  pose proof (pow2_pos (ni_height ni + 1) ltac:(lia)) as Hpp.
  pose proof (CA s Hs) as HsA.
  destruct (ni_is_right ni) eqn:R.
  - destruct (Ct eq_refl) as (Hr0 & _ & Es). rewrite Hs in Es. injection Es as ->.
    pose proof (pow2_lt64_inv (ni_height ni + 1) ltac:(lia) ltac:(lia)) as H64.
    unfold mm_left_sibling. destruct (left_sibling_val x (ni_height ni) ltac:(lia) ltac:(lia)) as [-> ->].
    unfold mm_chk. f_equal. lia.
  - destruct (Cf eq_refl) as (Hr0 & [[_ Es]|[Ep Es]]); [congruence|]. rewrite Hs in Es. injection Es as ->.
    pose proof (CB _ Ep) as HpB.
    pose proof (pow2_lt64_inv (ni_height ni + 1) ltac:(lia) ltac:(lia)) as H64.
    unfold mm_right_sibling. destruct (right_sibling_val x (ni_height ni) ltac:(lia) ltac:(lia) ltac:(lia)) as [-> ->].
    reflexivity.
Qed.

Theorem children_correct n x pk t ni lc rc : 0 <= n < 2 ^ 64 -> ncount n < 2 ^ 64 -> 1 <= x <= ncount n ->
  f_locate n x = Some (pk, t, ni) -> ni_children ni = Some (lc, rc) ->
  mm_left_child x (ni_height ni) = Some lc /\ mm_right_child x = Some rc.
Proof.
  intros Hn Hc Hx E Hch.
  destruct (node_located n x Hn Hc Hx) as (pk' & t' & ni' & E' & L & _ & C & _).
  rewrite E in E'. injection E' as <- <- <-.
  destruct C as (Hh & Hr & _ & _ & _ & C0 & CS & _ & CAx).
  assert (0 < ni_height ni) as Hpos.
  { destruct (Z.eq_dec (ni_height ni) 0) as [Z0|]; [|lia]. rewrite (C0 Z0) in Hch. discriminate. }
  rewrite (CS Hpos) in Hch. injection Hch as <- <-.
  pose proof (pow2_pos (ni_height ni) ltac:(lia)) as Hpp.
  pose proof (pow2_succ (ni_height ni) ltac:(lia)) as Hps.
  pose proof (pow2_lt64_inv (ni_height ni) ltac:(lia) ltac:(lia)) as H64.
  unfold mm_left_child, mm_right_child.
  destruct (left_child_val x (ni_height ni) ltac:(lia) ltac:(lia)) as [-> ->].
  destruct (right_child_val x ltac:(lia)) as [-> ->]. split; reflexivity.
Qed.

(* ================================================================== leafs as nodes *)
Lemma ncount_succ n : 0 <= n -> ncount n + 1 <= ncount (n + 1).
Proof. intros. unfold ncount. pose proof (count_ones_succ_le n H). lia. Qed.

Lemma ncount_mono_strict i d : 0 <= i -> 0 <= d -> ncount i + d <= ncount (i + d).
Proof.
  intros Hi Hd. pattern d. apply natlike_ind; [rewrite !Z.add_0_r; lia| |exact Hd].
  intros e He IH. pose proof (ncount_succ (i + e) ltac:(lia)). replace (i + Z.succ e) with (i + e + 1) by lia. lia.
Qed.

Lemma ncount_lt i n : 0 <= i < n -> ncount i + 1 <= ncount n.
Proof. intros. pose proof (ncount_mono_strict i (n - i) ltac:(lia) ltac:(lia)). replace (i + (n - i)) with n in * by lia. lia. Qed.

(* the node of leaf i inside a perfect tree: height 0, first leaf i, right lineage = trailing ones of i - l *)
Lemma desc_leaf h : forall o l i r, l <= i < l + tleafs h -> 0 <= r ->
  exists t : nat, (t <= h)%nat /\ (i - l) mod 2 ^ (Z.of_nat t + 1) = 2 ^ Z.of_nat t - 1 /\
    desc h o l (t_leaf_node h o l i) r = Some ((if Nat.eqb t h then r + Z.of_nat h else Z.of_nat t), 0, i).
Proof.
  induction h as [|h IH]; intros o l i r Hi Hr.
  - change (tleafs 0) with 1 in Hi. assert (i = l) by lia. subst i. exists O. split; [lia|].
    split; [rewrite Z.sub_diag; reflexivity|]. cbn [t_leaf_node desc Nat.eqb]. change (tsize 0) with 1.
    rewrite Z.eqb_refl. f_equal. f_equal. f_equal. lia.
  - rewrite tleafs_S in Hi. pose proof (tleafs_pos h) as Hp. pose proof (tsize_pos h) as Hps.
    cbn [t_leaf_node]. rewrite desc_S. rewrite tsize_S.
    destruct (Z.ltb_spec i (l + tleafs h)) as [Hl|Hg].
    + pose proof (t_leaf_node_val h o l i ltac:(lia)) as V.
      pose proof (ncount_lt_tsize h (i - l) ltac:(lia)) as B. pose proof (ncount_nonneg (i - l) ltac:(lia)) as B0.
      destruct (Z.eqb_spec (t_leaf_node h o l i) (o + (2 * tsize h + 1))); [lia|].
      destruct (Z.leb_spec (t_leaf_node h o l i) (o + tsize h)); [|lia].
      destruct (IH o l i 0 ltac:(lia) ltac:(lia)) as (t & Ht & Em & D).
      exists t. split; [lia|]. split; [exact Em|]. rewrite D.
      destruct (Nat.eqb_spec t h); destruct (Nat.eqb_spec t (S h)); try lia; f_equal; f_equal; f_equal; lia.
    + pose proof (t_leaf_node_val h (o + tsize h) (l + tleafs h) i ltac:(lia)) as V.
      pose proof (ncount_lt_tsize h (i - (l + tleafs h)) ltac:(lia)) as B.
      pose proof (ncount_nonneg (i - (l + tleafs h)) ltac:(lia)) as B0.
      destruct (Z.eqb_spec (t_leaf_node h (o + tsize h) (l + tleafs h) i) (o + (2 * tsize h + 1))); [lia|].
      destruct (Z.leb_spec (t_leaf_node h (o + tsize h) (l + tleafs h) i) (o + tsize h)); [lia|].
      destruct (IH (o + tsize h) (l + tleafs h) i (r + 1) ltac:(lia) ltac:(lia)) as (t & Ht & Em & D).
      rewrite D. rewrite tleafs_pow in *.
      pose proof (pow2_pos (Z.of_nat t) ltac:(lia)) as Hpt.
      destruct (Nat.eqb_spec t h) as [->|Hne].
      * exists (S h). split; [lia|]. rewrite Nat.eqb_refl.
        assert (2 ^ (Z.of_nat h + 1) = 2 * 2 ^ Z.of_nat h) as P1 by (apply pow2_succ; lia).
        rewrite Z.mod_small in Em by lia.
        split; [|f_equal; f_equal; f_equal; lia].
        rewrite Nat2Z.inj_succ, <- Z.add_1_r. rewrite Z.mod_small; rewrite ?(pow2_succ (Z.of_nat h + 1)) by lia; lia.
      * exists t. split; [lia|]. destruct (Nat.eqb_spec t (S h)); [lia|]. split; [|reflexivity].
        rewrite <- Em. replace (i - l) with (i - (l + 2 ^ Z.of_nat h) + 2 ^ Z.of_nat h) by lia.
        rewrite (pow2_split (Z.of_nat t + 1) (Z.of_nat h)) by lia. apply Z_mod_plus_full.
Qed.

Theorem leaf_node_located n i : 0 <= i < n -> n < 2 ^ 64 -> ncount n < 2 ^ 64 -> i < 2 ^ 63 ->
  exists pk t ni, f_locate n (leaf_index_to_node_index i) = Some (pk, t, ni) /\
    ni_height ni = 0 /\ ni_first_leaf ni = i /\
    right_lineage_length_from_leaf_index_ok i = true /\ ni_rll ni = right_lineage_length_from_leaf_index i /\
    desc 64 0 0 (leaf_index_to_node_index i) 0 = Some (ni_rll ni, 0, i).
Proof.
  intros Hi Hn Hc Hi63.
  destruct (leaf_index_to_node_index_val i ltac:(lia)) as [_ V]. fold (ncount i) in V.
  pose proof (ncount_lt i n Hi) as Hlt. pose proof (ncount_nonneg i ltac:(lia)) as H0.
  destruct (node_located n (leaf_index_to_node_index i) ltac:(lia) Hc ltac:(lia)) as (pk & t & ni & E & L & D & C & _).
  exists pk, t, ni. split; [exact E|].
  destruct (desc_leaf 64 0 0 i 0 ltac:(rewrite tleafs_64; lia) ltac:(lia)) as (tt & Ht & Em & D').
  rewrite t_leaf_node_val in D' by (rewrite tleafs_64; lia). rewrite Z.sub_0_r, Z.add_0_l in D'. rewrite <- V in D'.
  rewrite D in D'. injection D' as E1 E2 E3. rewrite Z.sub_0_r in Em.
  assert (tt <> 64%nat) as Hne.
  { intros ->. change (2 ^ (Z.of_nat 64 + 1)) with (2 ^ 65) in Em. rewrite Z.mod_small in Em by (pow_lits; lia).
    change (2 ^ Z.of_nat 64) with (2 ^ 64) in Em. pow_lits. lia. }
  destruct (Nat.eqb_spec tt 64); [contradiction|].
  destruct (right_lineage_length_from_leaf_index_char tt i ltac:(lia) ltac:(pow_lits; lia) Em) as [Ok Val].
  split; [exact E2|]. split; [exact E3|]. split; [exact Ok|]. split; [lia|].
  rewrite D. f_equal. f_equal; [f_equal|]; assumption.
Qed.

Theorem spec_leaf_rll_correct n i : 0 <= i < n -> n < 2 ^ 64 -> ncount n < 2 ^ 64 -> i < 2 ^ 63 ->
  spec_leaf_rll n i = Some (right_lineage_length_from_leaf_index i).
Proof.
  intros Hi Hn Hc Hi63. unfold spec_leaf_rll.
  rewrite (spec_leaf_index_to_node_index_correct n i) by lia.
  destruct (leaf_node_located n i Hi Hn Hc Hi63) as (pk & t & ni & E & _ & _ & _ & R & _).
  rewrite E. f_equal. exact R.
Qed.

(* ================================================================== node_index_to_leaf_index *)
Lemma n2l_loop_desc h : forall fuel o l x r acc a c, (h < fuel)%nat -> 0 <= o -> o + tsize h < 2 ^ 64 ->
  desc h o l x r = Some (a, 0, c) -> 0 <= acc -> acc + tleafs h <= 2 ^ 64 ->
  n2l_loop fuel x (o + tsize h) (Z.of_nat h) acc = Some (acc + (c - l)).
Proof.
  induction h as [|h IH]; intros fuel o l x r acc a c Hf Ho Hb D Hacc Hab.
  - destruct fuel as [|f]; [lia|]. cbn [n2l_loop]. cbn [Z.of_nat Z.eqb].
    cbn [desc] in D. destruct (x =? o + tsize 0); [|discriminate]. injection D as _ <-. f_equal. lia.
  - destruct fuel as [|f]; [lia|]. cbn [n2l_loop]. rewrite desc_S in D.
    pose proof (tsize_pos h) as Hp. pose proof (tleafs_pos h) as Hpl.
    assert (P2 : 2 ^ Z.of_nat (S h) = tsize h + 1) by (rewrite <- tleafs_pow, tleafs_S, tsize_tleafs; lia).
    pose proof (tsize_lt64_inv (S h) ltac:(lia)) as H63.
    destruct (Z.eqb_spec x (o + tsize (S h))); [injection D as _ D0 _; lia|].
    rewrite tsize_S, tleafs_S in *.
    destruct (Z.eqb_spec (Z.of_nat (S h)) 0); [lia|].
    destruct (left_child_val (o + (2 * tsize h + 1)) (Z.of_nat (S h)) ltac:(lia) ltac:(lia)) as [-> ->].
    rewrite P2. replace (o + (2 * tsize h + 1) - (tsize h + 1)) with (o + tsize h) by lia.
    assert (Eh : wsub 32 (Z.of_nat (S h)) 1 = Z.of_nat h) by (rewrite wsub32_small by (pow_lits; lia); lia).
    rewrite Eh. unfold sub_ok. destruct (Z.leb_spec 1 (Z.of_nat (S h))); [|lia].
    destruct (Z.leb_spec x (o + tsize h)).
    + eapply IH; [lia|lia|lia|exact D|lia|lia].
    + destruct (right_child_val (o + (2 * tsize h + 1)) ltac:(lia)) as [-> ->].
      rewrite shift_ok_64, wshl64_1 by lia. rewrite <- tleafs_pow.
      unfold add_ok. destruct (Z.ltb_spec (acc + tleafs h) (2 ^ 64)); [|lia].
      rewrite wadd64_small by lia.
      replace (o + (2 * tsize h + 1) - 1) with (o + tsize h + tsize h) by lia.
      replace (acc + (c - l)) with (acc + tleafs h + (c - (l + tleafs h))) by lia.
      eapply IH; [lia|lia|lia|exact D|lia|lia].
Qed.

Theorem node_index_to_leaf_index_desc x a b c : 1 <= x < 2 ^ 64 -> desc 64 0 0 x 0 = Some (a, b, c) ->
  mm_node_index_to_leaf_index x = Some (if b =? 0 then Some c else None).
Proof.
  intros Hx D. unfold mm_node_index_to_leaf_index.
  destruct (rll_and_height_desc x Hx) as (a' & b' & c' & D' & L). rewrite D in D'. injection D' as <- <- <-.
  rewrite L. destruct (Z.eqb_spec b 0) as [->|]; [|reflexivity]. cbn [negb].
  destruct (leftmost_ancestor_val x Hx) as (-> & H & HH & -> & Hr).
  pose proof (tleafs_pos H). pose proof (tsize_lt64 H HH).
  replace 64%nat with ((64 - H) + H)%nat in D by lia. rewrite desc_left_spine in D by lia.
  pose proof (n2l_loop_desc H 65 0 0 x 0 0 a c ltac:(lia) ltac:(lia) ltac:(lia) D ltac:(lia)) as N.
  change (0 + tsize H) with (tsize H) in N. rewrite N; [f_equal; f_equal; lia|].
  pose proof (tleafs_mono H 63 HH). rewrite tleafs_63 in *. pow_lits. lia.
Qed.

Theorem node_index_to_leaf_index_correct n x : 0 <= n < 2 ^ 64 -> ncount n < 2 ^ 64 -> 1 <= x <= ncount n ->
  spec_node_index_to_leaf_index n x = mm_node_index_to_leaf_index x.
Proof.
  intros Hn Hc Hx. destruct (node_located n x Hn Hc Hx) as (pk & t & ni & E & _ & D & _).
  unfold spec_node_index_to_leaf_index. rewrite E.
  rewrite (node_index_to_leaf_index_desc x _ _ _ ltac:(lia) D). destruct (ni_height ni =? 0); reflexivity.
Qed.

(* ================================================================== right_lineage_length_from_node_index *)
Lemma rll_node_rec_desc : forall fuel x, 1 <= x < 2 ^ 64 -> Z.log2 x + 1 < Z.of_nat fuel ->
  exists a b c, desc 64 0 0 x 0 = Some (a, b, c) /\ rll_node_rec fuel x = Some a.
Proof.
  induction fuel as [|f IH]; intros x Hx Hf; [pose proof (Z.log2_nonneg x); lia|].
  pose proof (Z.log2_spec x ltac:(lia)) as Hl. pose proof (Z.log2_nonneg x) as Hn.
  assert (Hl63 : Z.log2 x < 64) by (apply Z.log2_lt_pow2; lia).
  set (lg := Z.log2 x) in *. change (Z.succ lg) with (lg + 1) in Hl.
  pose proof (pow2_succ lg ltac:(lia)) as Hps. pose proof (pow2_pos lg ltac:(lia)) as Hpp.
  assert (Hp64 : 2 ^ (lg + 1) <= 2 ^ 64) by (apply pow2_le; lia).
  assert (Hp128 : 2 ^ 64 < 2 ^ 128) by reflexivity.
  cbn [rll_node_rec]. unfold leading_zeros, bitlen. destruct (Z.eqb_spec x 0); [lia|]. fold lg.
  unfold sub_ok at 1. destruct (Z.leb_spec (64 - (lg + 1)) 64); [|lia].
  assert (E1 : wsub 32 64 (64 - (lg + 1)) = lg + 1) by (rewrite wsub32_small by (pow_lits; lia); lia).
  rewrite E1. unfold shift_ok at 1. destruct (Z.leb_spec 0 (lg + 1)); [|lia]. destruct (Z.ltb_spec (lg + 1) 128); [|lia].
  cbn [andb].
  assert (E2 : wshl 128 1 (lg + 1) = 2 ^ (lg + 1)) by (unfold wshl; rewrite Z.mul_1_l; apply wrap_small; lia).
  rewrite E2. unfold sub_ok at 1. destruct (Z.leb_spec x (2 ^ (lg + 1))); [|lia].
  assert (E3 : ucast 64 (wsub 128 (2 ^ (lg + 1)) x) = 2 ^ (lg + 1) - x).
  { unfold ucast, wsub. rewrite (wrap_small 128) by lia. apply wrap_small. lia. }
  rewrite E3.
  (* the perfect tree of height lg at offset 0 contains x *)
  set (hb := Z.to_nat lg).
  assert (Ts : tsize hb = 2 ^ (lg + 1) - 1) by (rewrite tsize_pow; unfold hb; rewrite Z2Nat.id by lia; reflexivity).
  assert (Spine : desc 64 0 0 x 0 = desc hb 0 0 x 0).
  { replace 64%nat with ((64 - hb) + hb)%nat by (unfold hb; lia). apply desc_left_spine. lia. }
  destruct (Z.ltb_spec (lg + 1) (2 ^ (lg + 1) - x)) as [Hfar|Hnear].
  - (* off the right edge: same position in the left subtree *)
    assert (Hlg : 2 <= lg).
    { destruct (Z.eq_dec lg 0) as [e|]; [rewrite e in *; change (2 ^ (0 + 1)) with 2 in *; lia|].
      destruct (Z.eq_dec lg 1) as [e|]; [rewrite e in *; change (2 ^ (1 + 1)) with 4 in *; change (2 ^ 1) with 2 in *; lia|]. lia. }
    assert (E4 : wsub 32 (lg + 1) 1 = lg) by (rewrite wsub32_small by (pow_lits; lia); lia).
    unfold sub_ok at 1. destruct (Z.leb_spec 1 (lg + 1)); [|lia]. rewrite E4.
    rewrite shift_ok_64, wshl64_1 by lia. unfold sub_ok at 1. destruct (Z.leb_spec (2 ^ lg) x); [|lia].
    rewrite wsub64_small by lia. unfold add_ok. destruct (Z.ltb_spec (x - 2 ^ lg + 1) (2 ^ 64)); [|lia].
    rewrite wadd64_small by lia.
    destruct hb as [|h'] eqn:Ehb; [unfold hb in Ehb; lia|].
    assert (Ts' : tsize h' = 2 ^ lg - 1) by (rewrite tsize_S in Ts; lia).
    assert (Hh' : Z.of_nat h' = lg - 1) by (unfold hb in Ehb; lia).
    rewrite (desc_S h') in Spine. rewrite !Z.add_0_l in Spine.
    destruct (Z.eqb_spec x (tsize (S h'))); [lia|].
    destruct (Z.leb_spec x (tsize h')); [lia|].
    destruct (desc_total h' (tsize h') (tleafs h') x 1 ltac:(lia) ltac:(lia)) as (a & b & c & D & _).
    rewrite D in Spine.
    pose proof (desc_shift h' (tsize h') (tleafs h') x 1 0 0 0 a b c ltac:(lia) ltac:(lia) D) as Sh.
    assert (Hx' : 1 <= x - 2 ^ lg + 1 < 2 ^ 64) by lia.
    assert (Hlog : Z.log2 (x - 2 ^ lg + 1) < lg).
    { apply Z.log2_lt_pow2; lia. }
    destruct (IH (x - 2 ^ lg + 1) Hx' ltac:(lia)) as (a' & b' & c' & D' & R).
    replace (x - tsize h' + 0) with (x - 2 ^ lg + 1) in Sh by lia.
    replace 64%nat with ((64 - h') + h')%nat in D' by lia. rewrite desc_left_spine in D' by lia.
    rewrite Sh in D'. injection D' as <- <- <-.
    exists a, b, c. split; [exact Spine|exact R].
  - (* on the right edge *)
    unfold sub_ok. destruct (Z.leb_spec 1 (2 ^ (lg + 1) - x)); [|lia].
    assert (E5 : ucast 32 (wsub 64 (2 ^ (lg + 1) - x) 1) = 2 ^ (lg + 1) - x - 1).
    { unfold ucast. rewrite wsub64_small by lia. apply wrap_small. pow_lits. lia. }
    rewrite E5.
    destruct (desc_right_spine hb 0 0 0 (Z.to_nat (2 ^ (lg + 1) - x - 1)) ltac:(unfold hb; lia)) as (c & D).
    rewrite Z2Nat.id in D by lia. replace (0 + tsize hb - (2 ^ (lg + 1) - x - 1)) with x in D by lia.
    rewrite <- Spine in D. eexists _, _, c. split; [exact D|]. reflexivity.
Qed.

Theorem rll_from_node_index_desc x : 1 <= x < 2 ^ 64 ->
  exists a b c, desc 64 0 0 x 0 = Some (a, b, c) /\ mm_right_lineage_length_from_node_index x = Some a.
Proof.
  intros Hx. unfold mm_right_lineage_length_from_node_index. apply rll_node_rec_desc; [exact Hx|].
  assert (Z.log2 x < 64) by (apply Z.log2_lt_pow2; lia). lia.
Qed.

Theorem rll_from_node_index_correct n x pk t ni : 0 <= n < 2 ^ 64 -> ncount n < 2 ^ 64 -> 1 <= x <= ncount n ->
  f_locate n x = Some (pk, t, ni) -> mm_right_lineage_length_from_node_index x = Some (ni_rll ni).
Proof.
  intros Hn Hc Hx E. destruct (node_located n x Hn Hc Hx) as (pk' & t' & ni' & E' & _ & D & _).
  rewrite E in E'. injection E' as <- <- <-.
  destruct (rll_from_node_index_desc x ltac:(lia)) as (a & b & c & D' & R). rewrite D in D'. injection D' as <- <- <-.
  exact R.
Qed.

(* ================================================================== peaks *)
Lemma forest_from_skip d : forall k n o l, 0 <= n < tleafs k -> forest_from (d + k) n o l = forest_from k n o l.
Proof.
  induction d as [|d IH]; intros k n o l Hn; [reflexivity|].
  change (S d + k)%nat with (S (d + k)). cbn [forest_from].
  pose proof (tleafs_mono k (d + k) ltac:(lia)).
  destruct (Z.leb_spec (tleafs (d + k)) n); [lia|]. apply IH. exact Hn.
Qed.

Definition peak_pair (t : ptree) : Z * Z := (Z.of_nat (pt_height t), pt_root t).

Lemma peaks_loop_spec k : forall fuel m o l, (k < fuel)%nat -> 0 <= m < tleafs k -> 0 <= o -> o + tsize k < 2 ^ 64 ->
  peaks_loop fuel (o + ncount m) (Z.of_nat k) (o + tsize k) = Some (map peak_pair (forest_from k m o l)).
Proof.
  induction k as [|k IH]; intros fuel m o l Hf Hm Ho Hb.
  - destruct fuel as [|f]; [lia|]. reflexivity.
  - destruct fuel as [|f]; [lia|]. cbn [peaks_loop forest_from].
    destruct (Z.eqb_spec (Z.of_nat (S k)) 0); [lia|].
    pose proof (ncount_lt_tsize (S k) m Hm) as Hlt.
    pose proof (tsize_lt64_inv (S k) ltac:(lia)) as H63.
    assert (P2 : 2 ^ Z.of_nat (S k) = tsize k + 1) by (rewrite <- tleafs_pow, tleafs_S, tsize_tleafs; lia).
    pose proof (tsize_pos k) as Hp.
    rewrite tsize_S, tleafs_S in *.
    rewrite Z.gtb_ltb. destruct (Z.ltb_spec (o + ncount m) (o + (2 * tsize k + 1))); [|lia].
    destruct (left_child_val (o + (2 * tsize k + 1)) (Z.of_nat (S k)) ltac:(lia) ltac:(lia)) as [-> ->].
    rewrite P2. replace (o + (2 * tsize k + 1) - (tsize k + 1)) with (o + tsize k) by lia.
    assert (Eh : wsub 32 (Z.of_nat (S k)) 1 = Z.of_nat k) by (rewrite wsub32_small by (pow_lits; lia); lia).
    rewrite Eh. unfold sub_ok. destruct (Z.leb_spec 1 (Z.of_nat (S k))); [|lia].
    destruct (Z.leb_spec (tleafs k) m) as [Hbit|Hbit].
    + pose proof (ncount_split k m ltac:(lia)) as Hs.
      pose proof (ncount_nonneg (m - tleafs k) ltac:(lia)).
      destruct (Z.leb_spec (o + tsize k) (o + ncount m)); [|lia].
      assert (P3 : 2 ^ (Z.of_nat k + 1) = tsize k + 1) by (rewrite <- P2; f_equal; lia).
      destruct (right_sibling_val (o + tsize k) (Z.of_nat k) ltac:(lia) ltac:(lia) ltac:(lia)) as [-> ->].
      rewrite P3. replace (o + tsize k + (tsize k + 1) - 1) with (o + tsize k + tsize k) by lia.
      replace (o + ncount m) with (o + tsize k + ncount (m - tleafs k)) by lia.
      rewrite (IH f (m - tleafs k) (o + tsize k) (l + tleafs k)) by lia.
      cbn [map]. unfold peak_pair at 2, pt_root. cbn [pt_height pt_offset]. reflexivity.
    + pose proof (ncount_lt_tsize k m ltac:(lia)).
      destruct (Z.leb_spec (o + tsize k) (o + ncount m)); [lia|].
      apply IH; lia.
Qed.

Lemma height_interval_unique H a v : tleafs H <= v <= tsize H -> tleafs a <= v <= tsize a -> H = a.
Proof.
  intros HH Ha. rewrite !tsize_tleafs in *.
  destruct (lt_eq_lt_dec H a) as [[L|E]|L]; [|exact E|].
  - pose proof (tleafs_mono (S H) a L). rewrite tleafs_S in *. lia.
  - pose proof (tleafs_mono (S a) H L). rewrite tleafs_S in *. lia.
Qed.

Lemma tleafs_ge_height h : Z.of_nat h + 1 <= tleafs h.
Proof. induction h as [|h IH]; [change (tleafs 0) with 1; lia|]. rewrite tleafs_S, Nat2Z.inj_succ. lia. Qed.

Lemma ncount_tleafs a : ncount (tleafs a) = tsize a.
Proof.
  unfold ncount. rewrite tsize_tleafs. rewrite tleafs_pow. rewrite count_ones_pow2. reflexivity.
Qed.

Lemma ncount_mono i n : 0 <= i <= n -> ncount i <= ncount n.
Proof. intros. pose proof (ncount_mono_strict i (n - i) ltac:(lia) ltac:(lia)). replace (i + (n - i)) with n in * by lia. lia. Qed.

Theorem peaks_correct n : 0 <= n < 2 ^ 63 ->
  mm_get_peak_heights_and_peak_node_indices n = Some (spec_peak_heights n, spec_peak_node_indices n).
Proof.
  intros Hn. unfold mm_get_peak_heights_and_peak_node_indices.
  destruct (Z.eqb_spec n 0) as [->|Hn0]; [reflexivity|].
  unfold sub_ok at 1. destruct (Z.leb_spec 1 n) as [_|]; [|lia]. rewrite wsub64_small by (pow_lits; lia).
  destruct (leaf_index_to_node_index_val (n - 1) ltac:(lia)) as [-> ->]. fold (ncount (n - 1)).
  destruct (num_leafs_to_num_nodes_val n ltac:(lia)) as [-> ->]. fold (ncount n).
  pose proof (ncount_lt (n - 1) n ltac:(lia)) as Hlt1. pose proof (ncount_nonneg (n - 1) ltac:(lia)) as Hnn.
  pose proof (ncount_lt64 n Hn) as Hc64.
  destruct (leftmost_ancestor_val (ncount (n - 1) + 1) ltac:(lia)) as (-> & H & HH & -> & Hr).
  (* the top tree *)
  pose proof (Z.log2_spec n ltac:(lia)) as Hl. pose proof (Z.log2_nonneg n) as Hlg0.
  assert (Hl63 : Z.log2 n < 63) by (apply Z.log2_lt_pow2; lia).
  set (a := Z.to_nat (Z.log2 n)).
  assert (Ta : tleafs a = 2 ^ Z.log2 n) by (rewrite tleafs_pow; unfold a; rewrite Z2Nat.id by lia; reflexivity).
  assert (Ha : tleafs a <= n < 2 * tleafs a).
  { rewrite Ta. change (Z.succ (Z.log2 n)) with (Z.log2 n + 1) in Hl. rewrite pow2_succ in Hl by lia. lia. }
  assert (Ha62 : (a <= 62)%nat) by (unfold a; lia).
  pose proof (ncount_split a n Ha) as Hs. pose proof (tsize_pos a) as Hpa. pose proof (tleafs_pos a) as Hpl.
  pose proof (tsize_lt64 (S a) ltac:(lia)) as HS64. rewrite tsize_S in HS64.
  assert (F : forest n = PTree a 0 0 :: forest_from a (n - tleafs a) (0 + tsize a) (0 + tleafs a)).
  { unfold forest. replace 64%nat with ((63 - a) + S a)%nat by lia.
    rewrite forest_from_skip by (rewrite tleafs_S; lia). cbn [forest_from].
    destruct (Z.leb_spec (tleafs a) n); [reflexivity|lia]. }
  assert (P3 : 2 ^ (Z.of_nat a + 1) = tsize a + 1).
  { replace (Z.of_nat a + 1) with (Z.of_nat (S a)) by lia. rewrite <- tleafs_pow, tleafs_S, tsize_tleafs. lia. }
  assert (Top : (if tsize H >? ncount n then left_child (tsize H) (Z.of_nat H) else tsize H) = tsize a /\
                (if tsize H >? ncount n then wsub 32 (Z.of_nat H) 1 else Z.of_nat H) = Z.of_nat a /\
                (if tsize H >? ncount n then left_child_ok (tsize H) (Z.of_nat H) && sub_ok (Z.of_nat H) 1 else true) = true).
  { destruct (Z.eq_dec n (tleafs a)) as [En|Hne].
    - (* n is a power of two: one tree *)
      assert (H = a) as ->.
      { apply (height_interval_unique H a (ncount (n - 1) + 1)); [exact Hr|].
        rewrite En. unfold ncount at 1 2. rewrite tleafs_pow, count_ones_ones, tsize_tleafs, tleafs_pow.
        pose proof (tleafs_ge_height a) as G. rewrite tleafs_pow in G. lia. }
      rewrite En, ncount_tleafs. rewrite Z.gtb_ltb, Z.ltb_irrefl. auto.
    - assert (H = S a) as ->.
      { apply (height_interval_unique H (S a) (ncount (n - 1) + 1)); [exact Hr|].
        pose proof (ncount_mono (tleafs a) (n - 1) ltac:(lia)) as M. rewrite ncount_tleafs in M.
        pose proof (ncount_lt_tsize (S a) n ltac:(rewrite tleafs_S; lia)) as G.
        rewrite tsize_S in *. rewrite tleafs_S. rewrite tsize_tleafs in *. lia. }
      pose proof (ncount_lt_tsize (S a) n ltac:(rewrite tleafs_S; lia)) as G.
      rewrite Z.gtb_ltb. destruct (Z.ltb_spec (ncount n) (tsize (S a))); [|lia].
      rewrite tsize_S.
      assert (P2 : 2 ^ Z.of_nat (S a) = tsize a + 1) by (rewrite <- tleafs_pow, tleafs_S, tsize_tleafs; lia).
      destruct (left_child_val (2 * tsize a + 1) (Z.of_nat (S a)) ltac:(lia) ltac:(lia)) as [-> ->].
      rewrite P2. rewrite wsub32_small by (pow_lits; lia). unfold sub_ok.
      split; [lia|]. split; [lia|]. destruct (Z.leb_spec 1 (Z.of_nat (S a))); [reflexivity|lia]. }
  destruct Top as (-> & -> & ->).
  destruct (right_sibling_val (tsize a) (Z.of_nat a) ltac:(lia) ltac:(lia) ltac:(lia)) as [-> ->].
  rewrite P3. replace (tsize a + (tsize a + 1) - 1) with (tsize a + tsize a) by lia.
  rewrite Hs.
  rewrite (peaks_loop_spec a 65 (n - tleafs a) (tsize a) (0 + tleafs a)) by lia.
  unfold spec_peak_heights, spec_peak_node_indices. rewrite F. cbn [map pt_height]. unfold pt_root at 2.
  cbn [pt_height pt_offset]. rewrite !map_map. reflexivity.
Qed.

(* ================================================================== get_peak_heights *)
Fixpoint heights_from (k : nat) (m : Z) : list Z :=
  match k with
  | O => []
  | S k' => if tleafs k' <=? m then Z.of_nat k' :: heights_from k' (m - tleafs k') else heights_from k' m
  end.

Lemma heights_from_forest k : forall m o l,
  map (fun t => Z.of_nat (pt_height t)) (forest_from k m o l) = heights_from k m.
Proof.
  induction k as [|k IH]; intros m o l; [reflexivity|].
  cbn [forest_from heights_from]. destruct (tleafs k <=? m); [cbn [map pt_height]; f_equal|]; apply IH.
Qed.

Lemma heights_step (b : nat) n : 0 <= n ->
  heights_from (S b) (n mod 2 ^ Z.of_nat (S b)) =
  if Z.testbit n (Z.of_nat b) then Z.of_nat b :: heights_from b (n mod 2 ^ Z.of_nat b)
  else heights_from b (n mod 2 ^ Z.of_nat b).
Proof.
  intros Hn. replace (Z.of_nat (S b)) with (Z.of_nat b + 1) by lia. cbn [heights_from]. rewrite mod_pow2_succ by lia. rewrite tleafs_pow.
  pose proof (pow2_pos (Z.of_nat b) ltac:(lia)) as Hp.
  pose proof (Z.mod_pos_bound n (2 ^ Z.of_nat b) Hp) as Hm.
  destruct (Z.testbit n (Z.of_nat b)).
  - destruct (Z.leb_spec (2 ^ Z.of_nat b) (n mod 2 ^ Z.of_nat b + 2 ^ Z.of_nat b)); [|lia].
    f_equal. f_equal. lia.
  - rewrite Z.add_0_r. destruct (Z.leb_spec (2 ^ Z.of_nat b) (n mod 2 ^ Z.of_nat b)); [lia|reflexivity].
Qed.

Lemma peak_heights_loop_spec (nbn : nat) n : (nbn <= 63)%nat -> 0 <= n ->
  forall (d b : nat) fuel, (d + b = S nbn)%nat -> (d < fuel)%nat ->
  peak_heights_loop fuel (Z.of_nat b) (Z.of_nat nbn) n (heights_from b (n mod 2 ^ Z.of_nat b)) =
  Some (heights_from (S nbn) (n mod 2 ^ (Z.of_nat nbn + 1))).
Proof.
  intros Hnb Hn. induction d as [|d IH]; intros b fuel Hd Hf.
  - destruct fuel as [|f]; [lia|]. cbn [peak_heights_loop].
    destruct (Z.ltb_spec (Z.of_nat nbn) (Z.of_nat b)); [|lia].
    replace b with (S nbn) by lia. do 3 f_equal. lia.
  - destruct fuel as [|f]; [lia|]. cbn [peak_heights_loop].
    destruct (Z.ltb_spec (Z.of_nat nbn) (Z.of_nat b)); [lia|].
    rewrite shift_ok_64, wshl64_1 by lia. rewrite land_pow2_testbit by lia.
    pose proof (pow2_pos (Z.of_nat b) ltac:(lia)) as Hp.
    replace (Z.of_nat b + 1) with (Z.of_nat (S b)) by lia.
    specialize (IH (S b) f ltac:(lia) ltac:(lia)).
    rewrite heights_step in IH by lia.
    destruct (Z.testbit n (Z.of_nat b)).
    + destruct (Z.eqb_spec (2 ^ Z.of_nat b) 0); [lia|]. cbn [negb]. exact IH.
    + cbn [Z.eqb negb]. exact IH.
Qed.

Theorem peak_heights_correct n : 0 <= n < 2 ^ 64 -> mm_get_peak_heights n = Some (spec_peak_heights n).
Proof.
  intros Hn. unfold mm_get_peak_heights, spec_peak_heights, forest.
  destruct (Z.eqb_spec n 0) as [->|Hn0]; [rewrite forest_from_zero; reflexivity|].
  pose proof (Z.log2_spec n ltac:(lia)) as Hl. pose proof (Z.log2_nonneg n) as Hlg0.
  assert (Hl64 : Z.log2 n < 64) by (apply Z.log2_lt_pow2; lia).
  set (nbn := Z.to_nat (Z.log2 n)).
  assert (Enb : Z.of_nat nbn = Z.log2 n) by (unfold nbn; lia).
  unfold ilog2. rewrite <- Enb.
  pose proof (peak_heights_loop_spec nbn n ltac:(lia) ltac:(lia) (S nbn) 0 66 ltac:(lia) ltac:(lia)) as L.
  change (Z.of_nat 0) with 0 in L. change (heights_from 0 (n mod 2 ^ 0)) with (@nil Z) in L.
  rewrite L. f_equal.
  change (Z.succ (Z.log2 n)) with (Z.log2 n + 1) in Hl. rewrite <- Enb in Hl.
  rewrite Z.mod_small by lia.
  replace 64%nat with ((63 - nbn) + S nbn)%nat by lia.
  rewrite forest_from_skip by (rewrite tleafs_pow, Nat2Z.inj_succ, <- Z.add_1_r; lia).
  rewrite heights_from_forest. reflexivity.
Qed.

(* ================================================================== node_indices_added_by_append *)
Fixpoint upfrom (t : nat) (x : Z) : list Z :=
  match t with O => [] | S t' => (x + 1) :: upfrom t' (x + 1) end.

Lemma upfrom_snoc t : forall x, upfrom (S t) x = upfrom t x ++ [x + Z.of_nat (S t)].
Proof.
  induction t as [|t IH]; intros x; [cbn; f_equal; lia|].
  change (upfrom (S (S t)) x) with ((x + 1) :: upfrom (S t) (x + 1)). rewrite IH.
  cbn [upfrom app]. f_equal. f_equal. f_equal. lia.
Qed.

Lemma right_spine_upfrom h : forall o,
  right_spine h o = (o + tsize h - Z.of_nat h) :: upfrom h (o + tsize h - Z.of_nat h).
Proof.
  induction h as [|h IH]; intros o.
  - cbn [right_spine upfrom]. change (tsize 0) with 1. f_equal. lia.
  - cbn [right_spine]. rewrite IH. rewrite upfrom_snoc. rewrite tsize_S.
    replace (o + (2 * tsize h + 1) - Z.of_nat (S h)) with (o + tsize h + tsize h - Z.of_nat h) by lia.
    cbn [app]. f_equal. f_equal. f_equal. lia.
Qed.

Lemma added_loop_upfrom t : forall fuel x, (t < fuel)%nat -> 0 <= x -> x + Z.of_nat t < 2 ^ 64 -> Z.of_nat t < 2 ^ 32 ->
  added_loop fuel x (Z.of_nat t) = Some (upfrom t x).
Proof.
  induction t as [|t IH]; intros fuel x Hf Hx Hb H32.
  - destruct fuel as [|f]; [lia|]. reflexivity.
  - destruct fuel as [|f]; [lia|]. cbn [added_loop].
    destruct (Z.eqb_spec (Z.of_nat (S t)) 0); [lia|].
    unfold add_ok, sub_ok. destruct (Z.ltb_spec (x + 1) (2 ^ 64)); [|lia].
    destruct (Z.leb_spec 1 (Z.of_nat (S t))); [|lia].
    rewrite wadd64_small by lia. rewrite wsub32_small by lia.
    replace (Z.of_nat (S t) - 1) with (Z.of_nat t) by lia.
    rewrite IH by lia. reflexivity.
Qed.

(* the last tree of a non-empty forest *)
Lemma last_tree k : forall m o l, 0 < m < tleafs k ->
  exists pre (h : nat) a q, forest_from k m o l = pre ++ [PTree h (o + ncount a) (l + a)] /\
    0 <= q /\ a = q * (2 * tleafs h) /\ a + tleafs h = m.
Proof.
  induction k as [|k IH]; intros m o l Hm.
  - change (tleafs 0) with 1 in Hm. lia.
  - cbn [forest_from]. rewrite tleafs_S in Hm. pose proof (tleafs_pos k) as Hk.
    destruct (Z.leb_spec (tleafs k) m) as [Hb|Hb].
    + destruct (Z.eq_dec m (tleafs k)) as [->|Hne].
      * rewrite Z.sub_diag, forest_from_zero. exists [], k, 0, 0. rewrite ncount_0, !Z.add_0_r.
        split; [reflexivity|lia].
      * destruct (IH (m - tleafs k) (o + tsize k) (l + tleafs k) ltac:(lia)) as (pre & h & a & q & E & Hq & Ea & Em).
        assert (Hhk : (h < k)%nat).
        { destruct (le_lt_dec k h) as [L|]; [|assumption]. pose proof (tleafs_mono k h L). pose proof (tleafs_pos h). nia. }
        exists (PTree k o l :: pre), h, (tleafs k + a), (tleafs (k - S h) + q).
        assert (Ha : 0 <= a < tleafs k) by (pose proof (tleafs_pos h); nia).
        assert (N : ncount (tleafs k + a) = tsize k + ncount a).
        { rewrite (ncount_split k) by lia. f_equal. f_equal. lia. }
        rewrite E, N.
        replace (o + tsize k + ncount a) with (o + (tsize k + ncount a)) by lia.
        replace (l + tleafs k + a) with (l + (tleafs k + a)) by lia.
        split; [reflexivity|].
        split; [pose proof (tleafs_pos (k - S h)); lia|].
        split; [rewrite (tleafs_mult h k) by lia; lia|lia].
    + destruct (IH m o l ltac:(lia)) as (pre & h & a & q & E & R). exists pre, h, a, q. split; [exact E|exact R].
Qed.

Theorem added_by_append_correct n : 0 <= n < 2 ^ 63 ->
  mm_node_indices_added_by_append n = Some (spec_added_by_append n).
Proof.
  intros Hn. unfold mm_node_indices_added_by_append, mm_leaf_index_to_node_index.
  destruct (leaf_index_to_node_index_val n Hn) as [Ok V]. rewrite Ok. unfold mm_chk.
  assert (Hc : ncount (n + 1) < 2 ^ 64).
  { unfold ncount. pose proof (count_ones_pos (n + 1) ltac:(lia)). pow_lits. lia. }
  destruct (leaf_node_located (n + 1) n ltac:(lia) ltac:(pow_lits; lia) Hc ltac:(lia))
    as (pk & t & ni & E & H0 & Hfl & OkR & R & D).
  destruct (rll_from_node_index_desc (leaf_index_to_node_index n)) as (a' & b' & c' & D' & RN).
  { rewrite V. fold (ncount n). pose proof (ncount_nonneg n ltac:(lia)). unfold ncount in *.
    pose proof (count_ones_nonneg n). pow_lits. lia. }
  rewrite D in D'. injection D' as <- <- <-. rewrite RN. rewrite R.
  (* the last tree of forest (n+1) *)
  unfold spec_added_by_append, forest.
  destruct (last_tree 64 (n + 1) 0 0 ltac:(rewrite tleafs_64; pow_lits; lia)) as (pre & h & a & q & F & Hq & Ea & Em).
  rewrite F. rewrite rev_unit. cbn [pt_height pt_offset]. rewrite Z.add_0_l.
  pose proof (tleafs_pos h) as Hp.
  assert (Hh63 : (h <= 63)%nat).
  { destruct (le_lt_dec h 63) as [|L]; [assumption|]. pose proof (tleafs_mono 64 h ltac:(lia)). rewrite tleafs_64 in *. pow_lits. nia. }
  (* n ends in exactly h ones *)
  assert (Emod : n mod 2 ^ (Z.of_nat h + 1) = 2 ^ Z.of_nat h - 1).
  { rewrite <- tleafs_S, tleafs_pow in Ea. rewrite Nat2Z.inj_succ, <- Z.add_1_r in Ea.
    rewrite tleafs_pow in *. replace n with (q * 2 ^ (Z.of_nat h + 1) + (2 ^ Z.of_nat h - 1)) at 1 by lia.
    apply mod_mul_add. rewrite pow2_succ by lia. lia. }
  destruct (right_lineage_length_from_leaf_index_char h n Hh63 ltac:(pow_lits; lia) Emod) as [_ ->].
  (* node index of leaf n *)
  assert (X : leaf_index_to_node_index n = ncount a + tsize h - Z.of_nat h).
  { rewrite V. fold (ncount n). rewrite (ncount_tree_split h q n a Hq Ea ltac:(lia)).
    replace (n - a) with (tleafs h - 1) by lia. unfold ncount at 2. rewrite tleafs_pow, count_ones_ones.
    rewrite tsize_tleafs, tleafs_pow. lia. }
  pose proof (ncount_nonneg a ltac:(nia)) as Hna. pose proof (tsize_ge_height h) as Hge.
  assert (Hroot : ncount a + tsize h < 2 ^ 64).
  { replace (ncount a + tsize h) with (ncount (n + 1)); [exact Hc|].
    replace (n + 1) with (a + tleafs h) by lia.
    unfold ncount. rewrite tsize_tleafs.
    assert (C : count_ones (a + tleafs h) = count_ones a + 1).
    { rewrite Ea. rewrite <- tleafs_S. rewrite !tleafs_pow.
      assert (2 ^ Z.of_nat h < 2 ^ Z.of_nat (S h)) by (apply pow2_lt; lia).
      pose proof (pow2_pos (Z.of_nat h) ltac:(lia)).
      rewrite count_ones_add_high by lia. rewrite count_ones_mul_pow2 by lia. rewrite count_ones_pow2. reflexivity. }
    rewrite C. lia. }
  rewrite added_loop_upfrom by (rewrite ?X; pow_lits; lia).
  rewrite right_spine_upfrom. rewrite X. reflexivity.
Qed.

(* ================================================================== every tree of the forest inside its slot *)
Lemma forest_from_In k : forall n o l t, 0 <= n < tleafs k -> In t (forest_from k n o l) ->
  o <= pt_offset t /\ pt_root t <= o + ncount n /\
  o + ncount n < pt_root t + tsize (pt_height t) + 1 /\
  pt_root t + tsize (pt_height t) + 1 <= o + tsize k /\
  (forall p r, pt_offset t < p <= pt_root t ->
     desc k o l p r = desc (pt_height t) (pt_offset t) (pt_first_leaf t) p 0).
Proof.
  induction k as [|k IH]; intros n o l t Hn HI; [destruct HI|].
  cbn [forest_from] in HI. rewrite tleafs_S in Hn. pose proof (tsize_pos k) as Hp.
  pose proof (ncount_lt_tsize (S k) n ltac:(rewrite tleafs_S; lia)) as Hlt. rewrite tsize_S in *.
  destruct (Z.leb_spec (tleafs k) n) as [Hb|Hb].
  - pose proof (ncount_split k n ltac:(lia)) as Hs. pose proof (ncount_nonneg (n - tleafs k) ltac:(lia)) as Hnn.
    destruct HI as [<-|HI].
    + unfold pt_root. cbn [pt_offset pt_height pt_first_leaf].
      repeat split; try lia. intros p r Hpr. rewrite desc_S, tsize_S.
      destruct (Z.eqb_spec p (o + (2 * tsize k + 1))); [lia|].
      destruct (Z.leb_spec p (o + tsize k)); [reflexivity|lia].
    + destruct (IH (n - tleafs k) (o + tsize k) (l + tleafs k) t ltac:(lia) HI) as (A & B & C & D & E).
      repeat split; try lia. intros p r Hpr. rewrite desc_S, tsize_S.
      destruct (Z.eqb_spec p (o + (2 * tsize k + 1))); [lia|].
      destruct (Z.leb_spec p (o + tsize k)); [lia|]. apply E. exact Hpr.
  - pose proof (ncount_lt_tsize k n ltac:(lia)).
    destruct (IH n o l t ltac:(lia) HI) as (A & B & C & D & E).
    repeat split; try lia. intros p r Hpr. rewrite desc_S, tsize_S.
    destruct (Z.eqb_spec p (o + (2 * tsize k + 1))); [lia|].
    destruct (Z.leb_spec p (o + tsize k)); [|lia]. apply E. exact Hpr.
Qed.

(* ================================================================== authentication paths *)
Lemma t_path_acc h : forall o x acc,
  t_path h o x acc = match t_path h o x [] with Some P => Some (P ++ acc) | None => None end.
Proof.
  induction h as [|h IH]; intros o x acc.
  - cbn [t_path]. destruct (x =? o + tsize 0); reflexivity.
  - cbn [t_path]. destruct (x =? o + tsize (S h)); [reflexivity|].
    destruct (x <=? o + tsize h).
    + rewrite (IH o x (_ :: acc)), (IH o x [_]). destruct (t_path h o x []); [|reflexivity].
      rewrite <- app_assoc. reflexivity.
    + rewrite (IH _ x (_ :: acc)), (IH _ x [_]). destruct (t_path h (o + tsize h) x []); [|reflexivity].
      rewrite <- app_assoc. reflexivity.
Qed.

Lemma t_path_root h o acc : t_path h o (o + tsize h) acc = Some acc.
Proof. destruct h; cbn [t_path]; rewrite Z.eqb_refl; reflexivity. Qed.

Lemma t_locate_root h o l r isr par sib ni : t_locate h o l (o + tsize h) r isr par sib = Some ni ->
  ni_parent ni = par /\ ni_sibling ni = sib.
Proof. destruct h; cbn [t_locate]; rewrite Z.eqb_refl; intros [= <-]; split; reflexivity. Qed.

(* a node below the root: its path is (node, sibling) followed by the path of its parent *)
Lemma t_path_step h : forall o l x r isr par sib ni, o < x < o + tsize h ->
  t_locate h o l x r isr par sib = Some ni ->
  exists p s P', ni_parent ni = Some p /\ ni_sibling ni = Some s /\ o < p <= o + tsize h /\ x < p /\
                 t_path h o x [] = Some ((x, s) :: P') /\ t_path h o p [] = Some P'.
Proof.
  induction h as [|h IH]; intros o l x r isr par sib ni Hx E.
  - change (tsize 0) with 1 in Hx. lia.
  - cbn [t_locate] in E. pose proof (tsize_pos h) as Hp.
    destruct (Z.eqb_spec x (o + tsize (S h))) as [e|Hne]; [lia|].
    cbn [t_path]. destruct (Z.eqb_spec x (o + tsize (S h))); [lia|].
    rewrite tsize_S in *.
    destruct (Z.leb_spec x (o + tsize h)) as [Hle|Hgt].
    + destruct (Z.eq_dec x (o + tsize h)) as [->|Hlt].
      * destruct (t_locate_root _ _ _ _ _ _ _ _ E) as [-> ->].
        exists (o + (2 * tsize h + 1)), (o + tsize h + tsize h), [].
        rewrite t_path_root. rewrite Z.eqb_refl. repeat split; try reflexivity; lia.
      * destruct (IH o l x 0 false _ _ ni ltac:(lia) E) as (p & s & P' & Ep & Es & Hpr & Hxp & T1 & T2).
        exists p, s, (P' ++ [(o + tsize h, o + tsize h + tsize h)]).
        split; [exact Ep|]. split; [exact Es|]. split; [lia|]. split; [exact Hxp|].
        rewrite t_path_acc, T1. split; [reflexivity|].
        destruct (Z.eqb_spec p (o + (2 * tsize h + 1))); [lia|].
        destruct (Z.leb_spec p (o + tsize h)); [|lia]. rewrite t_path_acc, T2. reflexivity.
    + destruct (Z.eq_dec x (o + tsize h + tsize h)) as [->|Hlt].
      * destruct (t_locate_root _ _ _ _ _ _ _ _ E) as [-> ->].
        exists (o + (2 * tsize h + 1)), (o + tsize h), [].
        rewrite t_path_root. rewrite Z.eqb_refl. repeat split; try reflexivity; lia.
      * destruct (IH (o + tsize h) (l + tleafs h) x (r + 1) true _ _ ni ltac:(lia) E)
          as (p & s & P' & Ep & Es & Hpr & Hxp & T1 & T2).
        exists p, s, (P' ++ [(o + tsize h + tsize h, o + tsize h)]).
        split; [exact Ep|]. split; [exact Es|]. split; [lia|]. split; [exact Hxp|].
        rewrite t_path_acc, T1. split; [reflexivity|].
        destruct (Z.eqb_spec p (o + (2 * tsize h + 1))); [lia|].
        destruct (Z.leb_spec p (o + tsize h)); [lia|]. rewrite t_path_acc, T2. reflexivity.
Qed.

Definition lift_sib (s : Z) (r : option (option (list Z))) : option (option (list Z)) :=
  match r with None => None | Some None => Some None | Some (Some l) => Some (Some (s :: l)) end.

Lemma auth_path_loop_unfold f x tg nc :
  auth_path_loop (S f) x tg nc =
  if (x <=? nc) && negb (x =? tg) then
    match mm_right_lineage_length_and_own_height x with
    | None => None
    | Some (rac, height) =>
        if negb (rac =? 0) then
          if left_sibling_ok x height then
            if add_ok 64 x 1 then lift_sib (left_sibling x height) (auth_path_loop f (wadd 64 x 1) tg nc) else None
          else None
        else
          if right_sibling_ok x height then
            if add_ok 32 height 1 then
              if shift_ok 64 (wadd 32 height 1) then
                if add_ok 64 x (wshl 64 1 (wadd 32 height 1)) then
                  lift_sib (right_sibling x height) (auth_path_loop f (wadd 64 x (wshl 64 1 (wadd 32 height 1))) tg nc)
                else None
              else None
            else None
          else None
    end
  else if x =? tg then Some (Some []) else Some None.
Proof. reflexivity. Qed.

Lemma climb_cons x s P R tg : climb ((x, s) :: P) R tg =
  if x =? tg then Some [] else match climb P R tg with Some l => Some (s :: l) | None => None end.
Proof. reflexivity. Qed.

Section AuthInTree.
  Variables (h : nat) (o l nc tg : Z).
  Let R := o + tsize h.
  Hypothesis Ho : 0 <= o.
  Hypothesis Hfit : R + tsize h + 1 < 2 ^ 64.
  Hypothesis Hnc : R <= nc < R + tsize h + 1.
  Hypothesis Htg : 1 <= tg <= nc.
  Hypothesis G : forall p a b c, o < p <= R -> desc h o l p 0 = Some (a, b, c) ->
                 mm_right_lineage_length_and_own_height p = Some (a, b).

  Lemma auth_loop_tree : forall (len : nat) P x fuel, length P = len -> o < x <= R ->
    t_path h o x [] = Some P -> (len + 2 <= fuel)%nat ->
    auth_path_loop fuel x tg nc = Some (climb P R tg).
  Proof.
    pose proof (tsize_pos h) as Hp.
    assert (Hh63 : (S h <= 63)%nat) by (apply tsize_lt64_inv; rewrite tsize_S; unfold R in *; lia).
    assert (P2 : 2 ^ (Z.of_nat h + 1) = tsize h + 1).
    { replace (Z.of_nat h + 1) with (Z.of_nat (S h)) by lia. rewrite <- tleafs_pow, tleafs_S, tsize_tleafs. lia. }
    induction len as [|len IH]; intros P x fuel HL Hx T Hf.
    - (* x is the root of the tree *)
      destruct P; [|discriminate]. clear HL.
      assert (x = R) as ->.
      { destruct (Z.eq_dec x R) as [|Hne]; [assumption|exfalso].
        destruct (t_locate_total h o l x 0 false None None ltac:(unfold R in *; lia)) as (ni & E).
        destruct (t_path_step h o l x 0 false None None ni ltac:(unfold R in *; lia) E) as (p & s & P' & _ & _ & _ & _ & T1 & _).
        rewrite T in T1. discriminate. }
      destruct fuel as [|[|f]]; [lia|lia|]. rewrite auth_path_loop_unfold. cbn [climb].
      destruct (Z.leb_spec R nc); [|lia]. cbn [andb].
      destruct (Z.eqb_spec R tg) as [e|Hne]; [reflexivity|]. cbn [negb].
      assert (D : desc h o l R 0 = Some (0, Z.of_nat h, l)).
      { unfold R. destruct h; cbn [desc]; rewrite Z.eqb_refl; reflexivity. }
      rewrite (G R _ _ _ ltac:(unfold R in *; lia) D). cbn [Z.eqb negb].
      destruct (right_sibling_val R (Z.of_nat h) ltac:(lia) ltac:(unfold R; lia) ltac:(rewrite P2; lia)) as [-> ->].
      rewrite wadd32_small by (pow_lits; lia). rewrite shift_ok_64, wshl64_1 by lia. rewrite P2.
      unfold add_ok. destruct (Z.ltb_spec (Z.of_nat h + 1) (2 ^ 32)); [|pow_lits; lia].
      destruct (Z.ltb_spec (R + (tsize h + 1)) (2 ^ 64)); [|lia].
      rewrite wadd64_small by (unfold R; lia).
      rewrite auth_path_loop_unfold.
      destruct (Z.leb_spec (R + (tsize h + 1)) nc); [lia|]. cbn [andb].
      destruct (Z.eqb_spec (R + (tsize h + 1)) tg); [lia|]. reflexivity.
    - (* x is below the root *)
      destruct (t_locate_total h o l x 0 false None None ltac:(unfold R in *; lia)) as (ni & E).
      assert (Hne : x <> R).
      { intros ->. unfold R in T. rewrite t_path_root in T. injection T as <-. discriminate. }
      destruct (t_path_step h o l x 0 false None None ni ltac:(unfold R in *; lia) E)
        as (p & s & P' & Ep & Es & Hpr & Hxp & T1 & T2).
      rewrite T in T1. injection T1 as ->. cbn [length] in HL.
      destruct fuel as [|f]; [lia|]. rewrite auth_path_loop_unfold, climb_cons.
      destruct (Z.leb_spec x nc); [|unfold R in *; lia]. cbn [andb].
      destruct (Z.eqb_spec x tg) as [e|Hntg]; [reflexivity|]. cbn [negb].
      rewrite (G x _ _ _ Hx (t_locate_desc _ _ _ _ _ _ _ _ _ E)).
      assert (C : ni_consistent x ni o R).
      { eapply t_locate_consistent; [exact E|lia| | | |unfold R; lia| |lia].
        - intros; discriminate.
        - intros _. split; [reflexivity|left; split; reflexivity].
        - intros q Hq; discriminate.
        - intros q Hq; discriminate. }
      destruct C as (Hh0 & Hr0 & Ct & Cf & CB & _ & _ & CA & CAx).
      pose proof (pow2_pos (ni_height ni + 1) ltac:(lia)) as Hpp.
      pose proof (CA s Es) as HsA. pose proof (CB p Ep) as HpB.
      specialize (IH P' p f ltac:(lia) ltac:(unfold R; lia) T2 ltac:(lia)).
      destruct (ni_is_right ni) eqn:IR.
      + destruct (Ct eq_refl) as (Hrpos & Ep' & Es'). rewrite Ep in Ep'. rewrite Es in Es'.
        injection Ep' as ->. injection Es' as ->.
        destruct (Z.eqb_spec (ni_rll ni) 0); [lia|]. cbn [negb].
        pose proof (pow2_lt64_inv (ni_height ni + 1) ltac:(lia) ltac:(unfold R in *; lia)) as H64.
        destruct (left_sibling_val x (ni_height ni) ltac:(lia) ltac:(unfold R in *; lia)) as [-> ->].
        unfold add_ok. destruct (Z.ltb_spec (x + 1) (2 ^ 64)); [|unfold R in *; lia].
        rewrite wadd64_small by lia. rewrite IH. unfold lift_sib.
        replace (x - 2 ^ (ni_height ni + 1) + 1) with (x - (2 ^ (ni_height ni + 1) - 1)) by lia.
        destruct (climb P' R tg); reflexivity.
      + destruct (Cf eq_refl) as (Hrz & [[Ep' _]|[Ep' Es']]); [congruence|]. rewrite Ep in Ep'. rewrite Es in Es'.
        injection Ep' as ->. injection Es' as ->.
        rewrite Hrz. cbn [Z.eqb negb].
        pose proof (pow2_lt64_inv (ni_height ni + 1) ltac:(lia) ltac:(unfold R in *; lia)) as H64.
        destruct (right_sibling_val x (ni_height ni) ltac:(lia) ltac:(lia) ltac:(unfold R in *; lia)) as [-> ->].
        rewrite wadd32_small by (pow_lits; lia). rewrite shift_ok_64, wshl64_1 by lia.
        unfold add_ok. destruct (Z.ltb_spec (ni_height ni + 1) (2 ^ 32)); [|pow_lits; lia].
        destruct (Z.ltb_spec (x + 2 ^ (ni_height ni + 1)) (2 ^ 64)); [|unfold R in *; lia].
        rewrite wadd64_small by lia. rewrite IH. unfold lift_sib.
        destruct (climb P' R tg); reflexivity.
  Qed.
End AuthInTree.

Lemma t_path_length h : forall o x acc P, t_path h o x acc = Some P -> (length P <= h + length acc)%nat.
Proof.
  induction h as [|h IH]; intros o x acc P E.
  - cbn [t_path] in E. destruct (x =? o + tsize 0); [|discriminate]. injection E as <-. lia.
  - cbn [t_path] in E. destruct (x =? o + tsize (S h)); [injection E as <-; lia|].
    destruct (x <=? o + tsize h); apply IH in E; cbn [length] in E; lia.
Qed.

Lemma t_path_total h o (l : Z) x : o < x <= o + tsize h -> exists P, t_path h o x [] = Some P.
Proof.
  intros Hx. destruct (Z.eq_dec x (o + tsize h)) as [->|Hne]; [rewrite t_path_root; eauto|].
  destruct (t_locate_total h o l x 0 false None None Hx) as (ni & E).
  destruct (t_path_step h o l x 0 false None None ni ltac:(lia) E) as (p & s & P' & _ & _ & _ & _ & T & _). eauto.
Qed.

Lemma forest_eq n : forest n = forest_from 64 n 0 0.
Proof. reflexivity. Qed.

(* a tree of a forest below 2^63 leafs: where it lies, and that the model's descent agrees with the tree's own *)
Lemma forest63_tree n t : 0 <= n < 2 ^ 63 -> In t (forest n) ->
  0 <= pt_offset t /\ pt_root t <= ncount n /\ ncount n < pt_root t + tsize (pt_height t) + 1 /\
  pt_root t + tsize (pt_height t) + 1 < 2 ^ 64 /\
  (forall p a b c, pt_offset t < p <= pt_root t ->
     desc (pt_height t) (pt_offset t) (pt_first_leaf t) p 0 = Some (a, b, c) ->
     mm_right_lineage_length_and_own_height p = Some (a, b)).
Proof.
  intros Hn HI. rewrite forest_eq in HI.
  assert (F : forest_from 64 n 0 0 = forest_from 63 n 0 0).
  { replace 64%nat with (1 + 63)%nat by reflexivity. apply forest_from_skip. rewrite tleafs_63. lia. }
  rewrite F in HI.
  destruct (forest_from_In 63 n 0 0 t ltac:(rewrite tleafs_63; lia) HI) as (A & B & C & D & Ed).
  rewrite tsize_63 in D.
  split; [exact A|]. split; [lia|]. split; [lia|]. split; [lia|].
  intros p a b c Hp Dp.
  destruct (rll_and_height_desc p ltac:(pose proof (tsize_pos (pt_height t)); lia)) as (a' & b' & c' & D' & L).
  assert (S1 : desc 64 0 0 p 0 = desc 63 0 0 p 0).
  { replace 64%nat with (1 + 63)%nat by reflexivity. apply desc_left_spine. rewrite tsize_63.
    pose proof (tsize_pos (pt_height t)). lia. }
  rewrite S1 in D'. rewrite (Ed p 0 Hp) in D'. rewrite Dp in D'. injection D' as <- <- <-. exact L.
Qed.

Theorem auth_path_correct n start tg : 0 <= n < 2 ^ 63 -> 1 <= start <= ncount n -> 1 <= tg <= ncount n ->
  mm_get_authentication_path_node_indices start tg (ncount n) = spec_auth_path n start tg.
Proof.
  intros Hn Hs Ht.
  assert (H64 : 0 <= n < 2 ^ 64) by (pow_lits; lia). pose proof (ncount_lt64 n Hn) as Hc.
  destruct (node_located n start H64 Hc Hs) as (pk & t & ni & E & _ & _ & _ & HI & Hhas).
  unfold spec_auth_path. rewrite E.
  destruct (forest63_tree n t Hn HI) as (A & B & C & D & G).
  unfold pt_has_node in Hhas. apply andb_prop in Hhas. destruct Hhas as [Hh1 Hh2].
  apply Z.ltb_lt in Hh1. apply Z.leb_le in Hh2.
  destruct (t_path_total (pt_height t) (pt_offset t) (pt_first_leaf t) start ltac:(unfold pt_root in *; lia)) as (P & T).
  rewrite T. unfold mm_get_authentication_path_node_indices.
  pose proof (t_path_length _ _ _ _ _ T) as HL. cbn [length] in HL.
  assert (Hh : (pt_height t <= 63)%nat).
  { apply tsize_lt64_inv. pose proof (tsize_pos (pt_height t)). unfold pt_root in *. lia. }
  unfold pt_root in *.
  apply (auth_loop_tree (pt_height t) (pt_offset t) (pt_first_leaf t) (ncount n) tg A D ltac:(lia) Ht G)
    with (len := length P); [reflexivity|lia|exact T|lia].
Qed.
