(* MmrIndexMain.v - C16: the statements pinned in props/C16.v, assembled from MmrIndexProofs / MmrIndexLoops. *)
From Coq Require Import ZArith Bool Lia List.
From TF Require Import Word MmrIndexGen MmrIndex Forest MmrIndexBits MmrIndexProofs MmrIndexLoops.
Import ListNotations.
Open Scope Z_scope.

Lemma spec_node_count_ncount n : 0 <= n < 2 ^ 64 -> spec_node_count n = ncount n.
Proof. intros. unfold spec_node_count, forest. apply forest_from_node_count. rewrite tleafs_64. lia. Qed.

Lemma dom63 n : 0 <= n < 2 ^ 63 -> 0 <= n < 2 ^ 64 /\ ncount n < 2 ^ 64.
Proof. intros H. split; [pow_lits; lia|apply ncount_lt64; exact H]. Qed.

Theorem main_leaf_index_to_node_index n i : 0 <= i < n -> n <= 2 ^ 63 ->
  leaf_index_to_node_index_ok i = true /\
  spec_leaf_index_to_node_index n i = Some (leaf_index_to_node_index i).
Proof.
  intros Hi Hn. split; [apply leaf_index_to_node_index_val; lia|].
  apply spec_leaf_index_to_node_index_correct; pow_lits; lia.
Qed.

Theorem main_mt_out_of_bounds n i : n <= i -> leaf_index_to_mt_index_and_peak_index_ok i n = false.
Proof.
  intros H. unfold leaf_index_to_mt_index_and_peak_index_ok.
  (* the assert!(leaf_index < leaf_count) is the first conjunct, however the comparison is spelt *)
  match goal with |- (?c && _) = false => let E := fresh in assert (E : c = false) by lia; rewrite E; reflexivity end.
Qed.

Theorem main_right_lineage_length_from_leaf_index n i : 0 <= i < n -> n < 2 ^ 63 ->
  right_lineage_length_from_leaf_index_ok i = true /\
  spec_leaf_rll n i = Some (right_lineage_length_from_leaf_index i).
Proof.
  intros Hi Hn. destruct (dom63 n ltac:(lia)) as [H1 H2].
  destruct (leaf_node_located n i Hi ltac:(lia) H2 ltac:(lia)) as (pk & t & ni & _ & _ & _ & Ok & _).
  split; [exact Ok|]. apply spec_leaf_rll_correct; lia.
Qed.

Theorem main_node n x : 0 <= n < 2 ^ 63 -> 1 <= x <= spec_node_count n ->
  exists pk t ni, f_locate n x = Some (pk, t, ni) /\
    mm_right_lineage_length_and_own_height x = Some (ni_rll ni, ni_height ni) /\
    mm_right_lineage_length_from_node_index x = Some (ni_rll ni) /\
    mm_node_index_to_leaf_index x = Some (if ni_height ni =? 0 then Some (ni_first_leaf ni) else None).
Proof.
  intros Hn Hx. destruct (dom63 n Hn) as [H1 H2]. rewrite spec_node_count_ncount in Hx by exact H1.
  destruct (node_located n x H1 H2 Hx) as (pk & t & ni & E & L & D & _).
  exists pk, t, ni. split; [exact E|]. split; [exact L|].
  split; [eapply rll_from_node_index_correct; eassumption|].
  apply (node_index_to_leaf_index_desc x _ _ _ ltac:(lia) D).
Qed.

Theorem main_does_not_crash x : 1 <= x < 2 ^ 64 ->
  leftmost_ancestor_ok x = true /\
  (exists r h, mm_right_lineage_length_and_own_height x = Some (r, h)) /\
  (exists r, mm_right_lineage_length_from_node_index x = Some r) /\
  (exists r, mm_node_index_to_leaf_index x = Some r).
Proof.
  intros Hx. split; [apply leftmost_ancestor_val; exact Hx|].
  destruct (rll_and_height_desc x Hx) as (a & b & c & D & L).
  split; [eauto|]. split.
  - destruct (rll_from_node_index_desc x Hx) as (a' & b' & c' & _ & R). eauto.
  - rewrite (node_index_to_leaf_index_desc x a b c Hx D). eauto.
Qed.

Theorem main_parent n x pk t ni p : 0 <= n < 2 ^ 63 -> 1 <= x <= spec_node_count n ->
  f_locate n x = Some (pk, t, ni) -> ni_parent ni = Some p -> mm_parent x = Some p.
Proof.
  intros Hn Hx. destruct (dom63 n Hn) as [H1 H2]. rewrite spec_node_count_ncount in Hx by exact H1.
  apply parent_correct; assumption.
Qed.

Theorem main_sibling n x pk t ni s : 0 <= n < 2 ^ 63 -> 1 <= x <= spec_node_count n ->
  f_locate n x = Some (pk, t, ni) -> ni_sibling ni = Some s ->
  (if ni_is_right ni then mm_left_sibling x (ni_height ni) else mm_right_sibling x (ni_height ni)) = Some s.
Proof.
  intros Hn Hx. destruct (dom63 n Hn) as [H1 H2]. rewrite spec_node_count_ncount in Hx by exact H1.
  apply sibling_correct; assumption.
Qed.

Theorem main_children n x pk t ni lc rc : 0 <= n < 2 ^ 63 -> 1 <= x <= spec_node_count n ->
  f_locate n x = Some (pk, t, ni) -> ni_children ni = Some (lc, rc) ->
  mm_left_child x (ni_height ni) = Some lc /\ mm_right_child x = Some rc.
Proof.
  intros Hn Hx. destruct (dom63 n Hn) as [H1 H2]. rewrite spec_node_count_ncount in Hx by exact H1.
  apply children_correct; assumption.
Qed.

Theorem main_is_right n x pk t ni : 0 <= n < 2 ^ 63 -> 1 <= x <= spec_node_count n ->
  f_locate n x = Some (pk, t, ni) -> (ni_is_right ni = true <-> ni_rll ni <> 0).
Proof.
  intros Hn Hx E. destruct (dom63 n Hn) as [H1 H2]. rewrite spec_node_count_ncount in Hx by exact H1.
  destruct (node_located n x H1 H2 Hx) as (pk' & t' & ni' & E' & _ & _ & C & _).
  rewrite E in E'. injection E' as <- <- <-. destruct C as (_ & _ & Ct & Cf & _).
  destruct (ni_is_right ni); split; intros H; try reflexivity; try discriminate.
  - destruct (Ct eq_refl). lia.
  - destruct (Cf eq_refl). lia.
Qed.

Theorem main_node_index_to_leaf_index n x : 0 <= n < 2 ^ 63 -> 1 <= x <= spec_node_count n ->
  spec_node_index_to_leaf_index n x = mm_node_index_to_leaf_index x.
Proof.
  intros Hn Hx. destruct (dom63 n Hn) as [H1 H2]. rewrite spec_node_count_ncount in Hx by exact H1.
  apply node_index_to_leaf_index_correct; assumption.
Qed.

Theorem main_leaf_node_round_trip i : 0 <= i < 2 ^ 63 ->
  mm_node_index_to_leaf_index (leaf_index_to_node_index i) = Some (Some i).
Proof.
  intros Hi.
  assert (Hc : ncount (i + 1) < 2 ^ 64).
  { unfold ncount. pose proof (count_ones_pos (i + 1) ltac:(lia)). pow_lits. lia. }
  destruct (leaf_node_located (i + 1) i ltac:(lia) ltac:(pow_lits; lia) Hc ltac:(lia)) as (pk & t & ni & _ & _ & _ & _ & _ & D).
  destruct (leaf_index_to_node_index_val i Hi) as [_ V].
  assert (R : 1 <= leaf_index_to_node_index i < 2 ^ 64).
  { rewrite V. pose proof (count_ones_le_self i ltac:(lia)). pose proof (count_ones_nonneg i). pow_lits. lia. }
  rewrite (node_index_to_leaf_index_desc _ _ _ _ R D). reflexivity.
Qed.

Theorem main_auth_path n start tg : 0 <= n < 2 ^ 63 ->
  1 <= start <= spec_node_count n -> 1 <= tg <= spec_node_count n ->
  mm_get_authentication_path_node_indices start tg (spec_node_count n) = spec_auth_path n start tg.
Proof.
  intros Hn Hs Ht. destruct (dom63 n Hn) as [H1 H2]. rewrite spec_node_count_ncount in * by exact H1.
  apply auth_path_correct; assumption.
Qed.

(* every u64 node index >= 1 is a node of the MMR with 2^63 leafs (one perfect tree of height 63) *)
Theorem main_node_u64 x : 1 <= x < 2 ^ 64 ->
  exists pk t ni, f_locate (2 ^ 63) x = Some (pk, t, ni) /\
    mm_right_lineage_length_and_own_height x = Some (ni_rll ni, ni_height ni) /\
    mm_right_lineage_length_from_node_index x = Some (ni_rll ni) /\
    mm_node_index_to_leaf_index x = Some (if ni_height ni =? 0 then Some (ni_first_leaf ni) else None).
Proof.
  intros Hx. assert (N : ncount (2 ^ 63) = 2 ^ 64 - 1) by reflexivity.
  assert (H1 : 0 <= 2 ^ 63 < 2 ^ 64) by (pow_lits; lia).
  assert (H2 : ncount (2 ^ 63) < 2 ^ 64) by (rewrite N; lia).
  destruct (node_located (2 ^ 63) x H1 H2 ltac:(rewrite N; lia)) as (pk & t & ni & E & L & D & _).
  exists pk, t, ni. split; [exact E|]. split; [exact L|].
  split; [eapply rll_from_node_index_correct; [exact H1|exact H2|rewrite N; lia|exact E]|].
  apply (node_index_to_leaf_index_desc x _ _ _ Hx D).
Qed.
