(* MmrIndexProofs.v - lemmas for property C16 about the REGENERATED straight-line MMR index functions
   (gen/MmrIndexGen.v) and the forest specification (spec/Forest.v).  The loops of model/MmrIndex.v are in
   MmrIndexLoops.v. *)
From Coq Require Import ZArith Bool Lia List.
From TF Require Import Word MmrIndexGen MmrIndex Forest MmrIndexBits MmrIndexRef.
Import ListNotations.
Open Scope Z_scope.
Ltac Zify.zify_post_hook ::= Z.div_mod_to_equations.

(* ================================================================== sizes *)
Lemma tleafs_pow h : tleafs h = 2 ^ Z.of_nat h.
Proof.
  induction h as [|h IH]; [reflexivity|].
  cbn [tleafs]. rewrite IH, Nat2Z.inj_succ, <- Z.add_1_r, pow2_succ by lia. reflexivity.
Qed.

Lemma tsize_tleafs h : tsize h = 2 * tleafs h - 1.
Proof. induction h as [|h IH]; [reflexivity|]. cbn [tsize tleafs]. lia. Qed.

Lemma tsize_pow h : tsize h = 2 ^ (Z.of_nat h + 1) - 1.
Proof. rewrite tsize_tleafs, tleafs_pow, pow2_succ by lia. reflexivity. Qed.

Lemma tleafs_pos h : 0 < tleafs h.
Proof. rewrite tleafs_pow. apply pow2_pos. lia. Qed.

Lemma tsize_pos h : 0 < tsize h.
Proof. pose proof (tleafs_pos h). rewrite tsize_tleafs. lia. Qed.

Lemma tleafs_S h : tleafs (S h) = 2 * tleafs h. Proof. reflexivity. Qed.
Lemma tsize_S h : tsize (S h) = 2 * tsize h + 1. Proof. reflexivity. Qed.

Lemma tleafs_mono a b : (a <= b)%nat -> tleafs a <= tleafs b.
Proof. intros. rewrite !tleafs_pow. apply pow2_le. lia. Qed.

Lemma tsize_mono a b : (a <= b)%nat -> tsize a <= tsize b.
Proof. intros. pose proof (tleafs_mono a b H). rewrite !tsize_tleafs. lia. Qed.

Lemma tsize_ge_height h : Z.of_nat h + 1 <= tsize h.
Proof. induction h as [|h IH]; [cbn; lia|]. rewrite tsize_S, Nat2Z.inj_succ. lia. Qed.

Lemma tleafs_63 : tleafs 63 = 2 ^ 63. Proof. reflexivity. Qed.
Lemma tleafs_64 : tleafs 64 = 2 ^ 64. Proof. reflexivity. Qed.
Lemma tsize_63 : tsize 63 = 2 ^ 64 - 1. Proof. reflexivity. Qed.

Lemma tsize_lt64 h : (h <= 63)%nat -> tsize h < 2 ^ 64.
Proof. intros. pose proof (tsize_mono h 63 H). rewrite tsize_63 in *. lia. Qed.

Lemma tsize_lt64_inv h : tsize h < 2 ^ 64 -> (h <= 63)%nat.
Proof.
  intros H. destruct (le_lt_dec h 63) as [|L]; [assumption|exfalso].
  pose proof (tsize_mono 64 h ltac:(lia)) as M. assert (tsize 64 = 2 ^ 65 - 1) as E by reflexivity.
  rewrite E in M. change (2 ^ 65) with 36893488147419103232 in M. change (2 ^ 64) with 18446744073709551616 in H. lia.
Qed.

Global Opaque tsize tleafs.

(* ================================================================== Word helpers *)
Ltac pow_lits :=
  change (2 ^ 64) with 18446744073709551616 in *;
  change (2 ^ 63) with 9223372036854775808 in *;
  change (2 ^ 32) with 4294967296 in *;
  change (2 ^ 128) with 340282366920938463463374607431768211456 in *.

Lemma wshl64_1 k : 0 <= k < 64 -> wshl 64 1 k = 2 ^ k.
Proof.
  intros H. unfold wshl. rewrite Z.mul_1_l. apply wrap_small.
  split; [apply Z.pow_nonneg; lia|apply pow2_lt; lia].
Qed.

Lemma shift_ok_64 k : 0 <= k < 64 -> shift_ok 64 k = true.
Proof. intros. unfold shift_ok. lia. Qed.

Lemma wadd32_small a b : 0 <= a -> 0 <= b -> a + b < 2 ^ 32 -> wadd 32 a b = a + b.
Proof. intros. unfold wadd. apply wrap_small. lia. Qed.
Lemma wsub32_small a b : 0 <= b <= a -> a < 2 ^ 32 -> wsub 32 a b = a - b.
Proof. intros. unfold wsub. apply wrap_small. lia. Qed.
Lemma wadd64_small a b : 0 <= a -> 0 <= b -> a + b < 2 ^ 64 -> wadd 64 a b = a + b.
Proof. intros. unfold wadd. apply wrap_small. lia. Qed.
Lemma wsub64_small a b : 0 <= b <= a -> a < 2 ^ 64 -> wsub 64 a b = a - b.
Proof. intros. unfold wsub. apply wrap_small. lia. Qed.

(* ================================================================== children and siblings: values *)
Lemma left_child_val x h : 0 <= h < 64 -> 2 ^ h <= x < 2 ^ 64 ->
  left_child_ok x h = true /\ left_child x h = x - 2 ^ h.
Proof.
  intros Hh Hx. pose proof (pow2_pos h ltac:(lia)).
  to_ref (left_child_ref x h ltac:(u_range) ltac:(u_range)).
  unfold Ref.left_child_ok, Ref.left_child. rewrite wshl64_1, shift_ok_64 by lia.
  rewrite wsub64_small by lia. unfold sub_ok. split; [lia|reflexivity].
Qed.

Lemma left_child_ok_small x h : 0 <= h < 64 -> 0 <= x < 2 ^ h -> left_child_ok x h = false.
Proof.
  intros Hh Hx. pose proof (pow2_lt h 64 ltac:(lia)).
  to_ref (left_child_ref x h ltac:(u_range) ltac:(u_range)).
  unfold Ref.left_child_ok. rewrite wshl64_1, shift_ok_64 by lia. unfold sub_ok. cbn [andb]. apply Z.leb_gt. lia.
Qed.

(* every regenerated function returns a wrapped word *)
Lemma left_child_range x h : u64 x -> u32 h -> 0 <= left_child x h < 2 ^ 64.
Proof. intros Hx Hh. to_ref (left_child_ref x h Hx Hh). unfold Ref.left_child, wsub. apply wrap_range. lia. Qed.

Lemma leaf_index_to_node_index_range i : u64 i -> 0 <= leaf_index_to_node_index i < 2 ^ 64.
Proof.
  intros Hi. to_ref (leaf_index_to_node_index_ref i Hi). unfold Ref.leaf_index_to_node_index, wadd. cbv zeta.
  apply wrap_range. lia.
Qed.

Lemma num_leafs_to_num_nodes_range n : u64 n -> 0 <= num_leafs_to_num_nodes n < 2 ^ 64.
Proof.
  intros Hn. to_ref (num_leafs_to_num_nodes_ref n Hn). unfold Ref.num_leafs_to_num_nodes, wsub. cbv zeta.
  apply wrap_range. lia.
Qed.

Lemma right_child_val x : 1 <= x < 2 ^ 64 -> right_child_ok x = true /\ right_child x = x - 1.
Proof.
  intros H. to_ref (right_child_ref x ltac:(u_range)). unfold Ref.right_child_ok, Ref.right_child, sub_ok. rewrite wsub64_small by lia. split; [lia|reflexivity].
Qed.

Lemma left_sibling_val x h : 0 <= h < 63 -> 2 ^ (h + 1) <= x < 2 ^ 64 ->
  left_sibling_ok x h = true /\ left_sibling x h = x - 2 ^ (h + 1) + 1.
Proof.
  intros Hh Hx. pose proof (pow2_pos (h + 1) ltac:(lia)).
  to_ref (left_sibling_ref x h ltac:(u_range) ltac:(u_range)).
  unfold Ref.left_sibling_ok, Ref.left_sibling.
  assert (E : wadd 32 h 1 = h + 1) by (apply wadd32_small; pow_lits; lia).
  rewrite E. rewrite wshl64_1, shift_ok_64 by lia.
  rewrite wsub64_small by lia. rewrite wadd64_small by lia.
  unfold add_ok, sub_ok. pow_lits. split; [lia|reflexivity].
Qed.

Lemma right_sibling_val x h : 0 <= h < 63 -> 0 <= x -> x + 2 ^ (h + 1) < 2 ^ 64 ->
  right_sibling_ok x h = true /\ right_sibling x h = x + 2 ^ (h + 1) - 1.
Proof.
  intros Hh Hx Hs. pose proof (pow2_pos (h + 1) ltac:(lia)).
  to_ref (right_sibling_ref x h ltac:(u_range) ltac:(u_range)).
  unfold Ref.right_sibling_ok, Ref.right_sibling.
  assert (E : wadd 32 h 1 = h + 1) by (apply wadd32_small; pow_lits; lia).
  rewrite E. rewrite wshl64_1, shift_ok_64 by lia.
  rewrite wadd64_small by lia. rewrite wsub64_small by lia.
  unfold add_ok, sub_ok. pow_lits. split; [lia|reflexivity].
Qed.

(* ================================================================== leaf index -> node index, node count *)
(* both proofs are semantic (linear arithmetic over the unfolded wrap-around operators), so that harmless
   rewrites of the source expression are re-proved automatically *)
Ltac word_arith :=
  cbv zeta; unfold mul_ok, sub_ok, add_ok, wmul, wsub, wadd, wrap; pow_lits;
  rewrite ?andb_true_iff, ?Z.ltb_lt, ?Z.leb_le; lia.

Lemma leaf_index_to_node_index_val i : 0 <= i < 2 ^ 63 ->
  leaf_index_to_node_index_ok i = true /\ leaf_index_to_node_index i = 2 * i - count_ones i + 1.
Proof.
  intros Hi. to_ref (leaf_index_to_node_index_ref i ltac:(u_range)).
  unfold Ref.leaf_index_to_node_index_ok, Ref.leaf_index_to_node_index.
  pose proof (count_ones_nonneg i). pose proof (count_ones_le_self i ltac:(lia)).
  generalize dependent (count_ones i). intros c Hc0 Hc. pow_lits. split; word_arith.
Qed.

Lemma num_leafs_to_num_nodes_val n : 0 <= n < 2 ^ 63 ->
  num_leafs_to_num_nodes_ok n = true /\ num_leafs_to_num_nodes n = 2 * n - count_ones n.
Proof.
  intros Hi. to_ref (num_leafs_to_num_nodes_ref n ltac:(u_range)).
  unfold Ref.num_leafs_to_num_nodes_ok, Ref.num_leafs_to_num_nodes.
  pose proof (count_ones_nonneg n). pose proof (count_ones_le_self n ltac:(lia)).
  generalize dependent (count_ones n). intros c Hc0 Hc. pow_lits. split; word_arith.
Qed.

(* ================================================================== leftmost ancestor *)
Lemma leftmost_ancestor_val x : 1 <= x < 2 ^ 64 ->
  leftmost_ancestor_ok x = true /\
  exists H : nat, (H <= 63)%nat /\ leftmost_ancestor x = (tsize H, Z.of_nat H) /\ tleafs H <= x <= tsize H.
Proof.
  intros Hx. to_ref (leftmost_ancestor_ref x ltac:(u_range)).
  unfold Ref.leftmost_ancestor_ok, Ref.leftmost_ancestor, leading_zeros, bitlen.
  destruct (Z.eqb_spec x 0) as [->|_]; [lia|].
  pose proof (Z.log2_spec x ltac:(lia)) as Hl. pose proof (Z.log2_nonneg x) as Hn.
  assert (Hl63 : Z.log2 x < 64) by (apply Z.log2_lt_pow2; lia).
  destruct (Z.eqb_spec (64 - (Z.log2 x + 1)) 0) as [E|E].
  - split; [reflexivity|]. exists 63%nat. split; [lia|]. split; [reflexivity|].
    assert (Z.log2 x = 63) as E2 by lia. rewrite E2 in Hl. rewrite tleafs_63, tsize_63. change (Z.succ 63) with 64 in Hl. lia.
  - assert (E1 : wsub 32 64 (64 - (Z.log2 x + 1)) = Z.log2 x + 1) by (rewrite wsub32_small by (pow_lits; lia); lia).
    rewrite E1. assert (E2 : wsub 32 (Z.log2 x + 1) 1 = Z.log2 x) by (rewrite wsub32_small by (pow_lits; lia); lia).
    rewrite E2. cbv zeta.
    assert (E3 : wadd 32 (Z.log2 x) 1 = Z.log2 x + 1) by (apply wadd32_small; pow_lits; lia).
    rewrite E3. rewrite wshl64_1, shift_ok_64 by lia.
    pose proof (pow2_pos (Z.log2 x + 1) ltac:(lia)) as Hp.
    pose proof (pow2_lt (Z.log2 x + 1) 64 ltac:(lia)) as Hq.
    rewrite wsub64_small by lia.
    split; [unfold sub_ok, add_ok; pow_lits; lia|].
    exists (Z.to_nat (Z.log2 x)). split; [lia|].
    rewrite tsize_pow, tleafs_pow, Z2Nat.id by lia. split; [reflexivity|].
    change (Z.succ (Z.log2 x)) with (Z.log2 x + 1) in Hl. lia.
Qed.

(* ================================================================== the forest: leafs *)
(* number of nodes of the MMR with n leafs, as plain arithmetic *)
Definition ncount (n : Z) : Z := 2 * n - count_ones n.

Lemma ncount_0 : ncount 0 = 0. Proof. reflexivity. Qed.

Lemma ncount_nonneg n : 0 <= n -> 0 <= ncount n.
Proof. intros. unfold ncount. pose proof (count_ones_le_self n H). lia. Qed.

Lemma ncount_split k n : tleafs k <= n < 2 * tleafs k -> ncount n = tsize k + ncount (n - tleafs k).
Proof.
  intros H. unfold ncount. rewrite tsize_tleafs. rewrite tleafs_pow in *.
  replace n with (2 ^ Z.of_nat k + (n - 2 ^ Z.of_nat k)) at 2 by lia.
  rewrite count_ones_pow2_add by lia. lia.
Qed.

Lemma ncount_lt_tsize k n : 0 <= n < tleafs k -> ncount n < tsize k.
Proof.
  intros H. unfold ncount. rewrite tsize_tleafs. pose proof (count_ones_nonneg n).
  destruct (Z.eq_dec n 0) as [->|]; [cbn [count_ones]; lia|].
  pose proof (count_ones_pos n ltac:(lia)). lia.
Qed.

Lemma tleafs_mult h k : (h < k)%nat -> tleafs k = tleafs (k - S h) * (2 * tleafs h).
Proof.
  intros H. rewrite <- tleafs_S. rewrite !tleafs_pow. rewrite <- Z.pow_add_r by lia. f_equal. lia.
Qed.

Lemma t_leaf_node_val h : forall o l i, l <= i < l + tleafs h ->
  t_leaf_node h o l i = o + ncount (i - l) + 1.
Proof.
  induction h as [|h IH]; intros o l i Hi.
  - change (tleafs 0) with 1 in Hi. assert (i - l = 0) as -> by lia. cbn [t_leaf_node]. rewrite ncount_0. lia.
  - cbn [t_leaf_node]. rewrite tleafs_S in Hi. pose proof (tleafs_pos h).
    destruct (Z.ltb_spec i (l + tleafs h)).
    + apply IH. lia.
    + rewrite IH by lia. rewrite (ncount_split h (i - l)) by lia.
      replace (i - (l + tleafs h)) with (i - l - tleafs h) by lia. lia.
Qed.

Lemma t_leaf_mt_val h : forall l i m, l <= i < l + tleafs h ->
  t_leaf_mt h l i m = m * tleafs h + (i - l).
Proof.
  induction h as [|h IH]; intros l i m Hi.
  - change (tleafs 0) with 1 in *. cbn [t_leaf_mt]. lia.
  - cbn [t_leaf_mt]. rewrite tleafs_S in *. pose proof (tleafs_pos h).
    destruct (Z.ltb_spec i (l + tleafs h)).
    + rewrite IH by lia. lia.
    + rewrite IH by lia. lia.
Qed.

Lemma forest_from_zero k : forall o l, forest_from k 0 o l = [].
Proof.
  induction k as [|k IH]; intros o l; [reflexivity|].
  cbn [forest_from]. pose proof (tleafs_pos k). destruct (Z.leb_spec (tleafs k) 0); [lia|apply IH].
Qed.

(* the tree of the forest that holds leaf i: a = number of leafs in the trees before it *)
Lemma find_leaf_spec k : forall n o l i pk,
  0 <= n < tleafs k -> l <= i < l + n ->
  exists (h : nat) a q,
    f_find_leaf (forest_from k n o l) i pk = Some (pk + count_ones a, PTree h (o + ncount a) (l + a)) /\
    (h < k)%nat /\ 0 <= q /\ a = q * (2 * tleafs h) /\ a + tleafs h <= n < a + 2 * tleafs h /\
    a <= i - l < a + tleafs h.
Proof.
  induction k as [|k IH]; intros n o l i pk Hn Hi.
  - change (tleafs 0) with 1 in Hn. lia.
  - cbn [forest_from]. rewrite tleafs_S in Hn. pose proof (tleafs_pos k) as Hk.
    destruct (Z.leb_spec (tleafs k) n) as [Hb|Hb].
    + cbn [f_find_leaf]. unfold pt_has_leaf. cbn [pt_first_leaf pt_height].
      destruct (Z.leb_spec l i) as [_|]; [|lia]. cbn [andb].
      destruct (Z.ltb_spec i (l + tleafs k)) as [Hlt|Hge].
      * exists k, 0, 0. cbn [count_ones]. rewrite ncount_0, !Z.add_0_r. split; [reflexivity|]. lia.
      * destruct (IH (n - tleafs k) (o + tsize k) (l + tleafs k) i (pk + 1) ltac:(lia) ltac:(lia))
          as (h & a & q & E & Hh & Hq & Ea & Hna & Hia).
        exists h, (tleafs k + a), (tleafs (k - S h) + q).
        assert (Ha : 0 <= a < tleafs k) by (pose proof (tleafs_pos h); nia).
        assert (C : count_ones (tleafs k + a) = 1 + count_ones a).
        { rewrite tleafs_pow in *. apply count_ones_pow2_add. lia. }
        assert (N : ncount (tleafs k + a) = tsize k + ncount a).
        { rewrite (ncount_split k) by lia. f_equal. f_equal. lia. }
        rewrite E, C, N. split; [f_equal; f_equal; [lia|f_equal; lia]|].
        split; [lia|]. split; [pose proof (tleafs_pos (k - S h)); lia|].
        split; [rewrite (tleafs_mult h k) by lia; lia|]. lia.
    + destruct (IH n o l i pk ltac:(lia) ltac:(lia)) as (h & a & q & E & Hh & R).
      exists h, a, q. split; [exact E|]. split; [lia|exact R].
Qed.

(* popcount of a leaf index inside its tree *)
Lemma count_ones_tree_split h q i a : 0 <= q -> a = q * (2 * tleafs h) -> a <= i < a + tleafs h ->
  count_ones i = count_ones a + count_ones (i - a).
Proof.
  intros Hq Ea Hi. rewrite <- tleafs_S in Ea. rewrite tleafs_pow in *.
  pose proof (pow2_pos (Z.of_nat h) ltac:(lia)).
  assert (2 ^ Z.of_nat h < 2 ^ Z.of_nat (S h)) by (apply pow2_lt; lia).
  replace i with (q * 2 ^ Z.of_nat (S h) + (i - a)) at 1 by lia.
  rewrite count_ones_add_high by lia. rewrite Ea, count_ones_mul_pow2 by lia. reflexivity.
Qed.

Lemma ncount_tree_split h q i a : 0 <= q -> a = q * (2 * tleafs h) -> a <= i < a + tleafs h ->
  ncount i = ncount a + ncount (i - a).
Proof. intros. unfold ncount. rewrite (count_ones_tree_split h q i a) by assumption. lia. Qed.

Theorem spec_leaf_index_to_node_index_correct n i : 0 <= i < n -> n < 2 ^ 64 -> i < 2 ^ 63 ->
  spec_leaf_index_to_node_index n i = Some (leaf_index_to_node_index i).
Proof.
  intros Hi Hn Hi63. unfold spec_leaf_index_to_node_index, forest.
  destruct (find_leaf_spec 64 n 0 0 i 0 ltac:(rewrite tleafs_64; lia) ltac:(lia))
    as (h & a & q & E & Hh & Hq & Ea & Hna & Hia).
  rewrite E. cbn [pt_height pt_offset pt_first_leaf].
  rewrite t_leaf_node_val by lia.
  destruct (leaf_index_to_node_index_val i ltac:(lia)) as [_ ->].
  rewrite Z.sub_0_r in Hia. fold (ncount i). rewrite (ncount_tree_split h q i a) by lia.
  reflexivity.
Qed.

(* ================================================================== Merkle tree index and peak index *)
Theorem leaf_index_to_mt_index_and_peak_index_correct n i : 0 <= i < n -> n < 2 ^ 64 ->
  leaf_index_to_mt_index_and_peak_index_ok i n = true /\
  spec_mt_index_and_peak_index n i = Some (leaf_index_to_mt_index_and_peak_index i n).
Proof.
  intros Hi Hn. unfold spec_mt_index_and_peak_index, forest.
  destruct (find_leaf_spec 64 n 0 0 i 0 ltac:(rewrite tleafs_64; lia) ltac:(lia))
    as (h & a & q & E & Hh & Hq & Ea & Hna & Hia).
  rewrite E. cbn [pt_height pt_offset pt_first_leaf]. rewrite t_leaf_mt_val by lia.
  rewrite Z.sub_0_r in Hia. rewrite !Z.add_0_l.
  rewrite <- tleafs_S in Ea. rewrite tleafs_pow in *.
  rewrite Nat2Z.inj_succ, <- Z.add_1_r in Ea.
  assert (Hh' : 0 <= Z.of_nat h < 64) by lia.
  set (hz := Z.of_nat h) in *.
  pose proof (pow2_pos hz ltac:(lia)) as Hp.
  assert (Hp64 : 2 ^ hz < 2 ^ 64) by (apply pow2_lt; lia).
  rewrite <- (pow2_succ hz) in Hna by lia.
  destruct (tree_position_bits hz q a i n ltac:(lia) Hq Ea Hia Hna) as (D1 & D2 & B1 & B2 & M1 & M2 & M3).
  destruct (log2_lxor_char hz i n ltac:(lia) ltac:(lia) ltac:(lia) ltac:(congruence) B1 B2) as [X0 XL].
  pose proof (pow2_succ hz ltac:(lia)) as Hps.
  assert (Hp65 : 2 ^ (hz + 1) <= 2 ^ 64) by (apply pow2_le; lia).
  (* popcounts *)
  assert (C1 : count_ones n = count_ones q + 1 + count_ones (n - a - 2 ^ hz)).
  { rewrite (count_ones_split (S h) n) by lia. rewrite Nat2Z.inj_succ, <- Z.add_1_r. fold hz.
    rewrite D2, M2.
    assert (R : n - a = 2 ^ Z.of_nat h + (n - a - 2 ^ hz)) by (unfold hz; lia). rewrite R at 1.
    rewrite count_ones_pow2_add by (fold hz; lia). lia. }
  assert (C2 : count_ones a = count_ones q).
  { rewrite Ea. replace (hz + 1) with (Z.of_nat (S h)) by (unfold hz; lia). apply count_ones_mul_pow2. exact Hq. }
  pose proof (count_ones_nonneg q) as Cq. pose proof (count_ones_nonneg (n - a - 2 ^ hz)) as Cr.
  pose proof (count_ones_lt64 n ltac:(lia)) as Cn.
  (* ones of n at or above bit hz (the spelling `(n & !mask).count_ones()` / `(n >> h).count_ones()`) *)
  assert (K1 : count_ones (n / 2 ^ hz) = count_ones q + 1).
  { pose proof (count_ones_split h n ltac:(lia)) as S. fold hz in S. rewrite M3 in S. lia. }
  pose proof (count_ones_nonneg a) as Ca.
  unfold leaf_index_to_mt_index_and_peak_index_ok, leaf_index_to_mt_index_and_peak_index. cbv zeta.
  unfold ilog2. rewrite ?(Z.lxor_comm n i). rewrite XL.
  (* normalise the bit-level spellings; every step is optional (`?`), so the script does not depend on which of the
     equivalent forms the source uses: 2u64.pow(h) or 1 << h;  mask & x or x & mask;  x + 2^h or x | 2^h (either order);
     ones(n) - ones(n & mask) - 1,  ones(n & !mask) - 1  or  ones(n >> h) - 1 *)
  rewrite ?(wshl64_1 hz) by lia.
  assert (E2 : wrap 64 (2 ^ hz) = 2 ^ hz) by (apply wrap_small; lia). rewrite ?E2.
  assert (E3 : wsub 64 (2 ^ hz) 1 = 2 ^ hz - 1) by (apply wsub64_small; lia). rewrite ?E3.
  unfold wnot, wshr.
  assert (K0 : count_ones (Z.land n (2 ^ 64 - 1 - (2 ^ hz - 1))) = count_ones (n / 2 ^ hz))
    by (apply (count_ones_above h n); lia).
  rewrite ?K0.
  rewrite ?(land_ones_mod hz), ?(land_ones_mod' hz) by lia. rewrite ?M1, ?M3.
  rewrite ?(lor_pow2_low hz (i - a)), ?(lor_low_pow2 hz (i - a)) by lia.
  rewrite ?K1.
  (* what is left is word arithmetic on  i - a,  2^hz  and the popcounts, which are abstracted *)
  unfold shift_ok, sub_ok, add_ok, wadd, wsub, wrap.
  generalize dependent (count_ones n). generalize dependent (count_ones (n - a - 2 ^ hz)).
  generalize dependent (count_ones q). generalize dependent (count_ones a).
  intros ca Ca cq C2 Cq cr Cr cn C1 Cn.
  set (p := 2 ^ hz) in *. clearbody p. pow_lits.
  split.
  - repeat (apply andb_true_intro; split); lia.
  - f_equal. f_equal; lia.
Qed.

(* ================================================================== node count *)
Lemma forest_from_node_count k : forall n o l, 0 <= n < tleafs k ->
  fold_right (fun t acc => tsize (pt_height t) + acc) 0 (forest_from k n o l) = ncount n.
Proof.
  induction k as [|k IH]; intros n o l Hn.
  - change (tleafs 0) with 1 in Hn. assert (n = 0) as -> by lia. reflexivity.
  - cbn [forest_from]. rewrite tleafs_S in Hn.
    destruct (Z.leb_spec (tleafs k) n).
    + cbn [fold_right pt_height]. rewrite IH by lia. rewrite (ncount_split k n) by lia. reflexivity.
    + apply IH. lia.
Qed.

Lemma forest_from_leaf_count k : forall n o l, 0 <= n < tleafs k ->
  fold_right (fun t acc => tleafs (pt_height t) + acc) 0 (forest_from k n o l) = n.
Proof.
  induction k as [|k IH]; intros n o l Hn.
  - change (tleafs 0) with 1 in Hn. assert (n = 0) as -> by lia. reflexivity.
  - cbn [forest_from]. rewrite tleafs_S in Hn.
    destruct (Z.leb_spec (tleafs k) n).
    + cbn [fold_right pt_height]. rewrite IH by lia. lia.
    + apply IH. lia.
Qed.

Theorem spec_node_count_correct n : 0 <= n < 2 ^ 63 ->
  num_leafs_to_num_nodes_ok n = true /\ spec_node_count n = num_leafs_to_num_nodes n.
Proof.
  intros Hn. destruct (num_leafs_to_num_nodes_val n Hn) as [-> ->]. split; [reflexivity|].
  unfold spec_node_count, forest. apply forest_from_node_count. rewrite tleafs_64. lia.
Qed.

Theorem spec_leaf_count_correct n : 0 <= n < 2 ^ 64 -> spec_leaf_count_of_forest n = n.
Proof. intros. unfold spec_leaf_count_of_forest, forest. apply forest_from_leaf_count. rewrite tleafs_64. lia. Qed.

(* ================================================================== right lineage length of a leaf *)
(* i ends in exactly t ones:  i mod 2^(t+1) = 2^t - 1 *)
Lemma right_lineage_length_from_leaf_index_char (t : nat) i : (t <= 63)%nat -> 0 <= i < 2 ^ 64 - 1 ->
  i mod 2 ^ (Z.of_nat t + 1) = 2 ^ Z.of_nat t - 1 ->
  right_lineage_length_from_leaf_index_ok i = true /\ right_lineage_length_from_leaf_index i = Z.of_nat t.
Proof.
  intros Ht Hi Em.
  pose proof (pow2_pos (Z.of_nat t) ltac:(lia)) as Hp.
  pose proof (pow2_pos (Z.of_nat t + 1) ltac:(lia)) as Hp1.
  assert (Ei : i = (i / 2 ^ (Z.of_nat t + 1)) * 2 ^ (Z.of_nat t + 1) + 2 ^ Z.of_nat t - 1).
  { pose proof (Z.div_mod i (2 ^ (Z.of_nat t + 1)) ltac:(lia)). lia. }
  assert (Hc : 0 <= i / 2 ^ (Z.of_nat t + 1)) by (apply Z.div_pos; lia).
  pose proof (land_succ_not 64 t _ i ltac:(lia) Hc Ei ltac:(change (2 ^ Z.of_nat 64) with (2 ^ 64); lia)) as L.
  change (2 ^ Z.of_nat 64) with (2 ^ 64) in L.
  to_ref (right_lineage_length_from_leaf_index_ref i ltac:(u_range)).
  unfold Ref.right_lineage_length_from_leaf_index_ok, Ref.right_lineage_length_from_leaf_index. cbv zeta.
  rewrite wadd64_small by lia. unfold wnot. rewrite L.
  unfold leading_zeros, bitlen. destruct (Z.eqb_spec (2 ^ Z.of_nat t) 0); [lia|].
  rewrite Z.log2_pow2 by lia.
  assert (E1 : wsub 32 64 (64 - (Z.of_nat t + 1)) = Z.of_nat t + 1) by (rewrite wsub32_small by (pow_lits; lia); lia).
  rewrite E1. rewrite wsub32_small by (pow_lits; lia).
  unfold add_ok, sub_ok. pow_lits. split; [lia|lia].
Qed.

(* ================================================================== the local model of the MMR routines *)
From TF Require MmrIdxLocal.

(* the hand-written model of the same function (model/MmrIdxLocal.v, used by the C05/C11/C12 model) against the forest
   specification, by the same route; the tie below then goes through the SPECIFICATION and does not depend on how the
   source spells the function *)
Lemma li_mt_pk_forest n i : 0 <= i < n -> n < 2 ^ 64 ->
  spec_mt_index_and_peak_index n i = MmrIdxLocal.li_mt_pk i n.
Proof.
  intros Hi Hn. unfold spec_mt_index_and_peak_index, forest.
  destruct (find_leaf_spec 64 n 0 0 i 0 ltac:(rewrite tleafs_64; lia) ltac:(lia))
    as (h & a & q & E & Hh & Hq & Ea & Hna & Hia).
  rewrite E. cbn [pt_height pt_offset pt_first_leaf]. rewrite t_leaf_mt_val by lia.
  rewrite Z.sub_0_r in Hia. rewrite !Z.add_0_l.
  rewrite <- tleafs_S in Ea. rewrite tleafs_pow in *.
  rewrite Nat2Z.inj_succ, <- Z.add_1_r in Ea.
  assert (Hh' : 0 <= Z.of_nat h < 64) by lia.
  set (hz := Z.of_nat h) in *.
  pose proof (pow2_pos hz ltac:(lia)) as Hp.
  assert (Hp64 : 2 ^ hz < 2 ^ 64) by (apply pow2_lt; lia).
  rewrite <- (pow2_succ hz) in Hna by lia.
  destruct (tree_position_bits hz q a i n ltac:(lia) Hq Ea Hia Hna) as (D1 & D2 & B1 & B2 & M1 & M2 & M3).
  destruct (log2_lxor_char hz i n ltac:(lia) ltac:(lia) ltac:(lia) ltac:(congruence) B1 B2) as [X0 XL].
  pose proof (pow2_succ hz ltac:(lia)) as Hps.
  assert (Hp65 : 2 ^ (hz + 1) <= 2 ^ 64) by (apply pow2_le; lia).
  (* popcounts *)
  assert (C1 : count_ones n = count_ones q + 1 + count_ones (n - a - 2 ^ hz)).
  { rewrite (count_ones_split (S h) n) by lia. rewrite Nat2Z.inj_succ, <- Z.add_1_r. fold hz.
    rewrite D2, M2.
    assert (R : n - a = 2 ^ Z.of_nat h + (n - a - 2 ^ hz)) by (unfold hz; lia). rewrite R at 1.
    rewrite count_ones_pow2_add by (fold hz; lia). lia. }
  assert (C2 : count_ones a = count_ones q).
  { rewrite Ea. replace (hz + 1) with (Z.of_nat (S h)) by (unfold hz; lia). apply count_ones_mul_pow2. exact Hq. }
  pose proof (count_ones_nonneg q) as Cq. pose proof (count_ones_nonneg (n - a - 2 ^ hz)) as Cr.
  pose proof (count_ones_lt64 n ltac:(lia)) as Cn.
  unfold MmrIdxLocal.li_mt_pk. destruct (Z.ltb_spec i n) as [_|]; [|lia]. cbv zeta.
  rewrite ?(Z.lxor_comm n i). rewrite XL.
  rewrite (land_ones_mod hz) by lia. rewrite (land_ones_mod' hz) by lia. rewrite M1, M3.
  f_equal. f_equal; lia.
Qed.

