(* MmrIndexProofs.v - lemmas for property C16 about the REGENERATED straight-line MMR index functions
   (gen/MmrIndexGen.v), the hand-written loop models (model/MmrIndex.v) and the forest specification
   (spec/Forest.v). *)
From Coq Require Import ZArith Bool Lia List.
From TF Require Import Word MmrIndexGen MmrIndex Forest.
Import ListNotations.
Open Scope Z_scope.
Ltac Zify.zify_post_hook ::= Z.div_mod_to_equations.

Lemma right_child_ok_all x : 1 <= x -> right_child_ok x = true.
Proof. intros H. unfold right_child_ok, sub_ok. lia. Qed.

Lemma right_child_val x : 1 <= x < 2 ^ 64 -> right_child x = x - 1.
Proof. intros H. unfold right_child, wsub. apply wrap_small. lia. Qed.
