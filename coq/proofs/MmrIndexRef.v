(* MmrIndexRef.v - FROZEN transcriptions of the nine straight-line index functions (the translation of the pinned source,
   module Ref) and, for each, the lemma that the REGENERATED function (gen/MmrIndexGen.v) and its side condition agree
   with the frozen one on all u64 / u32 arguments.  On the pinned source the two are syntactically equal (reflexivity);
   after a re-spelling of the same computation (a named constant, `x * 2` for `2 * x`, the operands of `&` swapped,
   `u64::MAX - x` for `!x`, an `if/else` expression for an early return, `< 1` for `== 0`, ...) the lemma is re-proved by
   unfolding the word operations, splitting on the conditions and linear arithmetic, descending through equal bit-level
   sub-terms by congruence.  The theorems of MmrIndexProofs / MmrIdxTie are proved about the frozen functions and carried over
   through these lemmas, so they hold for the code as it is now whenever the lemmas check - and a change of a value, a panic
   condition or a wrap makes them fail. *)
From Coq Require Import ZArith Bool Lia List.
From TF Require Import Word MmrIndexGen MmrIndexBits.
Import ListNotations.
Open Scope Z_scope.
Open Scope bool_scope.
Ltac Zify.zify_post_hook ::= Z.div_mod_to_equations.

Module Ref.
Definition left_child (node_index : Z) (height : Z) : Z :=
  (wsub 64 node_index (wshl 64 1 height)).

Definition left_child_ok (node_index : Z) (height : Z) : bool :=
  (((shift_ok 64 height)) && (sub_ok node_index (wshl 64 1 height))).

Definition right_child (node_index : Z) : Z :=
  (wsub 64 node_index 1).

Definition right_child_ok (node_index : Z) : bool :=
  ((sub_ok node_index 1)).

Definition leaf_index_to_mt_index_and_peak_index (leaf_index : Z) (leaf_count : Z) : (Z * Z) :=
  (let discrepancies := (Z.lxor leaf_index leaf_count) in
  (let local_mt_height := (ilog2 discrepancies) in
  (let local_mt_leaf_count := (wrap 64 (2 ^ local_mt_height)) in
  (let remainder_bitmask := (wsub 64 local_mt_leaf_count 1) in
  (let local_leaf_index := (Z.land remainder_bitmask leaf_index) in
  (let mt_index := (wadd 64 local_leaf_index local_mt_leaf_count) in
  (let all_the_ones := (count_ones leaf_count) in
  (let ones_to_subtract := (count_ones (Z.land leaf_count remainder_bitmask)) in
  (let peak_index := (wsub 32 (wsub 32 all_the_ones ones_to_subtract) 1) in
  (mt_index, peak_index)))))))))).

Definition leaf_index_to_mt_index_and_peak_index_ok (leaf_index : Z) (leaf_count : Z) : bool :=
  ((leaf_index <? leaf_count) && ((let discrepancies := (Z.lxor leaf_index leaf_count) in
  (((0 <? discrepancies)) && (let local_mt_height := (ilog2 discrepancies) in
  (((2 ^ local_mt_height <? 2 ^ 64)) && (let local_mt_leaf_count := (wrap 64 (2 ^ local_mt_height)) in
  (((sub_ok local_mt_leaf_count 1)) && (let remainder_bitmask := (wsub 64 local_mt_leaf_count 1) in
  ((let local_leaf_index := (Z.land remainder_bitmask leaf_index) in
  (((add_ok 64 local_leaf_index local_mt_leaf_count)) && (let mt_index := (wadd 64 local_leaf_index local_mt_leaf_count) in
  ((let all_the_ones := (count_ones leaf_count) in
  ((let ones_to_subtract := (count_ones (Z.land leaf_count remainder_bitmask)) in
  (((sub_ok all_the_ones ones_to_subtract)) && (sub_ok (wsub 32 all_the_ones ones_to_subtract) 1))))))))))))))))))).

Definition right_lineage_length_from_leaf_index (leaf_index : Z) : Z :=
  (let pow2 := (Z.land (wadd 64 leaf_index 1) (wnot 64 leaf_index)) in
  (wsub 32 (wsub 32 64 (leading_zeros 64 pow2)) 1)).

Definition right_lineage_length_from_leaf_index_ok (leaf_index : Z) : bool :=
  ((((add_ok 64 leaf_index 1))) && (let pow2 := (Z.land (wadd 64 leaf_index 1) (wnot 64 leaf_index)) in
  (((sub_ok 64 (leading_zeros 64 pow2))) && (sub_ok (wsub 32 64 (leading_zeros 64 pow2)) 1)))).

Definition leftmost_ancestor (node_index : Z) : (Z * Z) :=
  (if ((leading_zeros 64 node_index) =? 0) then (18446744073709551615, 63) else
  (let h := (wsub 32 (wsub 32 64 (leading_zeros 64 node_index)) 1) in
  (let ret := (wsub 64 (wshl 64 1 (wadd 32 h 1)) 1) in
  (ret, h)))).

Definition leftmost_ancestor_ok (node_index : Z) : bool :=
  ((if ((leading_zeros 64 node_index) =? 0) then true else
  ((((sub_ok 64 (leading_zeros 64 node_index))) && (sub_ok (wsub 32 64 (leading_zeros 64 node_index)) 1)) && (let h := (wsub 32 (wsub 32 64 (leading_zeros 64 node_index)) 1) in
  ((((add_ok 32 h 1)) && (shift_ok 64 (wadd 32 h 1))) && (sub_ok (wshl 64 1 (wadd 32 h 1)) 1)))))).

Definition leaf_index_to_node_index (leaf_index : Z) : Z :=
  (let hamming_weight := (count_ones leaf_index) in
  (wadd 64 (wsub 64 (wmul 64 2 leaf_index) hamming_weight) 1)).

Definition leaf_index_to_node_index_ok (leaf_index : Z) : bool :=
  ((let hamming_weight := (count_ones leaf_index) in
  ((((mul_ok 64 2 leaf_index)) && (sub_ok (wmul 64 2 leaf_index) hamming_weight)) && (add_ok 64 (wsub 64 (wmul 64 2 leaf_index) hamming_weight) 1)))).

Definition left_sibling (node_index : Z) (height : Z) : Z :=
  (wadd 64 (wsub 64 node_index (wshl 64 1 (wadd 32 height 1))) 1).

Definition left_sibling_ok (node_index : Z) (height : Z) : bool :=
  (((((add_ok 32 height 1)) && (shift_ok 64 (wadd 32 height 1))) && (sub_ok node_index (wshl 64 1 (wadd 32 height 1)))) && (add_ok 64 (wsub 64 node_index (wshl 64 1 (wadd 32 height 1))) 1)).

Definition right_sibling (node_index : Z) (height : Z) : Z :=
  (wsub 64 (wadd 64 node_index (wshl 64 1 (wadd 32 height 1))) 1).

Definition right_sibling_ok (node_index : Z) (height : Z) : bool :=
  (((((add_ok 32 height 1)) && (shift_ok 64 (wadd 32 height 1))) && (add_ok 64 node_index (wshl 64 1 (wadd 32 height 1)))) && (sub_ok (wadd 64 node_index (wshl 64 1 (wadd 32 height 1))) 1)).

Definition num_leafs_to_num_nodes (num_leafs : Z) : Z :=
  (let hamming_weight := (count_ones num_leafs) in
  (wsub 64 (wmul 64 2 num_leafs) hamming_weight)).

Definition num_leafs_to_num_nodes_ok (num_leafs : Z) : bool :=
  ((let hamming_weight := (count_ones num_leafs) in
  (((mul_ok 64 2 num_leafs)) && (sub_ok (wmul 64 2 num_leafs) hamming_weight)))).
End Ref.

Definition u64 (x : Z) : Prop := 0 <= x < 2 ^ 64.
Definition u32 (x : Z) : Prop := 0 <= x < 2 ^ 32.

Ltac ref_lits :=
  change (2 ^ 64) with 18446744073709551616 in *;
  change (2 ^ 63) with 9223372036854775808 in *;
  change (2 ^ 32) with 4294967296 in *;
  change (2 ^ 128) with 340282366920938463463374607431768211456 in *.

Ltac ref_unfold :=
  cbv zeta;
  unfold ovf_add, ovf_sub, wsub, wadd, wmul, wshl, wshr, wnot, ucast, wrap, b2z, add_ok, sub_ok, mul_ok, shift_ok,
    leading_zeros, bitlen, ilog2 in *;
  cbv zeta; ref_lits.

Ltac ref_split :=
  repeat match goal with |- context [if ?c then _ else _] => destruct c eqn:? end.

(* equality of two word-level expressions: arithmetic first; otherwise descend by congruence (so that bit-level operators
   and powers of two with provably equal arguments are identified), trying the other operand order for `&`, `|`, `^` *)
Ltac ref_eq :=
  first
    [ lia
    | reflexivity
    | match goal with
      | |- Z.land ?a ?b = Z.land ?c ?d => first [ f_equal; ref_eq | rewrite (Z.land_comm c d); f_equal; ref_eq ]
      | |- Z.lor ?a ?b = Z.lor ?c ?d => first [ f_equal; ref_eq | rewrite (Z.lor_comm c d); f_equal; ref_eq ]
      | |- Z.lxor ?a ?b = Z.lxor ?c ?d => first [ f_equal; ref_eq | rewrite (Z.lxor_comm c d); f_equal; ref_eq ]
      end
    | progress f_equal; ref_eq ].

(* booleans: both sides are conjunctions of comparisons; decide each side under the case analysis of the other *)
Ltac ref_bool :=
  first
    [ reflexivity
    | lia
    | match goal with
      | |- ?l = ?r => destruct l eqn:?; destruct r eqn:?; try reflexivity; exfalso; lia
      end ].

Lemma log2_u64 a : 0 <= a < 18446744073709551616 -> Z.log2 a < 64.
Proof.
  intros H. destruct (Z.eq_dec a 0) as [->|N]; [reflexivity|].
  apply Z.log2_lt_pow2; [lia|]. change (2 ^ 64) with 18446744073709551616. lia.
Qed.

(* `t mod K` with 0 <= t < K provable: drop the `mod` (innermost first) *)
Ltac ref_no_mod t :=
  lazymatch t with
  | context [_ mod _] => fail
  | _ => idtac
  end.
Ltac ref_small_mods :=
  repeat match goal with
  | |- context [?t mod ?K] =>
      ref_no_mod t;
      let E := fresh in assert (E : t mod K = t) by (apply Z.mod_small; lia); rewrite !E; clear E
  end.
(* two powers of two whose exponents are provably equal become the same term *)
Ltac ref_unify_pows :=
  repeat match goal with
  | |- context [2 ^ ?e1] =>
      match goal with
      | |- context [2 ^ ?e2] =>
          tryif constr_eq e1 e2 then fail else
          (let E := fresh in assert (E : e2 = e1) by lia; rewrite !E; clear E)
      end
  end.

(* two applications of `&`, `|` or `^` whose operands are provably equal (in either order) become the same term *)
Ltac ref_unify_op op comm :=
  repeat match goal with
  | |- context [op ?a ?b] =>
      match goal with
      | |- context [op ?c ?d] =>
          tryif (constr_eq a c; constr_eq b d) then fail else
          (let E := fresh in
           assert (E : op c d = op a b) by
             first [ f_equal; lia | rewrite (comm c d); f_equal; lia ];
           rewrite !E; clear E)
      end
  end.
Ltac ref_unify_bitops :=
  ref_unify_op Z.land Z.land_comm; ref_unify_op Z.lor Z.lor_comm; ref_unify_op Z.lxor Z.lxor_comm.

(* facts about the opaque bit-level terms of the goal that the arithmetic may need (a popcount is between 0 and its
   argument and at most 64; a logarithm of a u64 is between 0 and 63; `&` of non-negative numbers is bounded by both) *)
Ltac ref_fact_for t :=
  lazymatch t with
  | count_ones ?a =>
      pose proof (count_ones_nonneg a);
      try (assert (count_ones a <= a) by (apply count_ones_le_self; lia));
      try (assert (count_ones a <= 64) by (apply count_ones_lt64; lia))
  | Z.log2 ?a =>
      pose proof (Z.log2_nonneg a);
      try (assert (Z.log2 a < 64) by (apply log2_u64; lia))
  | Z.land ?a ?b =>
      try (assert (0 <= Z.land a b) by (apply Z.land_nonneg; lia))
  end.
Ltac ref_facts :=
  repeat match goal with
  | |- context [count_ones ?a] =>
      lazymatch goal with
      | _ : 0 <= count_ones a |- _ => fail
      | _ => ref_fact_for (count_ones a)
      end
  | |- context [Z.log2 ?a] =>
      lazymatch goal with
      | _ : 0 <= Z.log2 a |- _ => fail
      | _ => ref_fact_for (Z.log2 a)
      end
  end.

Ltac ref_tac :=
  intros; first
    [ split; reflexivity
    | unfold u64, u32 in *; split; ref_unfold; try ref_unify_bitops; ref_facts; ref_split;
      first [ exfalso; lia
            | try ref_small_mods; try ref_unify_pows; first [ ref_eq | ref_bool ] ] ].

Lemma left_child_ref x h : u64 x -> u32 h ->
  left_child x h = Ref.left_child x h /\ left_child_ok x h = Ref.left_child_ok x h.
Proof. unfold left_child, left_child_ok, Ref.left_child, Ref.left_child_ok. ref_tac. Qed.

Lemma right_child_ref x : u64 x ->
  right_child x = Ref.right_child x /\ right_child_ok x = Ref.right_child_ok x.
Proof. unfold right_child, right_child_ok, Ref.right_child, Ref.right_child_ok. ref_tac. Qed.

Lemma leaf_index_to_mt_index_and_peak_index_ok_ref i n : u64 i -> u64 n -> n <= i ->
  leaf_index_to_mt_index_and_peak_index_ok i n = false.
Proof.
  intros Hi Hn Hle. unfold leaf_index_to_mt_index_and_peak_index_ok.
  match goal with |- (?c && _) = false => replace c with false; [reflexivity|] end.
  first [ symmetry; apply Z.ltb_ge; lia | lia ].
Qed.

Lemma right_lineage_length_from_leaf_index_ref i : u64 i ->
  right_lineage_length_from_leaf_index i = Ref.right_lineage_length_from_leaf_index i /\
  right_lineage_length_from_leaf_index_ok i = Ref.right_lineage_length_from_leaf_index_ok i.
Proof.
  unfold right_lineage_length_from_leaf_index, right_lineage_length_from_leaf_index_ok,
    Ref.right_lineage_length_from_leaf_index, Ref.right_lineage_length_from_leaf_index_ok. ref_tac.
Qed.

Lemma leftmost_ancestor_ref x : u64 x ->
  leftmost_ancestor x = Ref.leftmost_ancestor x /\ leftmost_ancestor_ok x = Ref.leftmost_ancestor_ok x.
Proof. unfold leftmost_ancestor, leftmost_ancestor_ok, Ref.leftmost_ancestor, Ref.leftmost_ancestor_ok. ref_tac. Qed.

Lemma leaf_index_to_node_index_ref i : u64 i ->
  leaf_index_to_node_index i = Ref.leaf_index_to_node_index i /\
  leaf_index_to_node_index_ok i = Ref.leaf_index_to_node_index_ok i.
Proof.
  unfold leaf_index_to_node_index, leaf_index_to_node_index_ok, Ref.leaf_index_to_node_index,
    Ref.leaf_index_to_node_index_ok. ref_tac.
Qed.

Lemma left_sibling_ref x h : u64 x -> u32 h ->
  left_sibling x h = Ref.left_sibling x h /\ left_sibling_ok x h = Ref.left_sibling_ok x h.
Proof. unfold left_sibling, left_sibling_ok, Ref.left_sibling, Ref.left_sibling_ok. ref_tac. Qed.

Lemma right_sibling_ref x h : u64 x -> u32 h ->
  right_sibling x h = Ref.right_sibling x h /\ right_sibling_ok x h = Ref.right_sibling_ok x h.
Proof. unfold right_sibling, right_sibling_ok, Ref.right_sibling, Ref.right_sibling_ok. ref_tac. Qed.

Lemma num_leafs_to_num_nodes_ref n : u64 n ->
  num_leafs_to_num_nodes n = Ref.num_leafs_to_num_nodes n /\
  num_leafs_to_num_nodes_ok n = Ref.num_leafs_to_num_nodes_ok n.
Proof.
  unfold num_leafs_to_num_nodes, num_leafs_to_num_nodes_ok, Ref.num_leafs_to_num_nodes, Ref.num_leafs_to_num_nodes_ok.
  ref_tac.
Qed.

(* use:  to_ref (f_ref x ..side conditions..)  replaces the regenerated f and f_ok in the goal by the frozen ones *)
Ltac to_ref L :=
  let Ev := fresh "Ev" in let Eo := fresh "Eo" in
  destruct L as [Ev Eo]; rewrite ?Ev, ?Eo; clear Ev Eo.
Ltac u_range := first [ assumption | unfold u64, u32; ref_lits; lia ].
