(* MmrMutate.v - single leaf mutation of an MMR, in general (every leaf list with fewer than 2^63 leaves, every
   index, every digest, free hash H):
     1. the flag returned by MmrMembershipProof::update_from_leaf_mutation, exactly (uflm_flag);
     2. soundness / binding of membership verification for a collision-free hash: a proof that verifies
        against the peaks of a leaf list IS the authentication path of the specification and the verified
        digest IS the leaf (verify_sound);
     3. the `validity form` of the single-mutation theorems: they hold for EVERY membership proof that
        verifies, not only for `path ls i` (needs 2, hence a collision-free H). *)
From Coq Require Import ZArith List Bool Lia.
From TF Require Import Word MmrIdxLocal Mmr MmrSpec MmrBits MmrNodes MmrProofs MmrPaths MmrUpdates MmrBatch.
Import ListNotations.
Open Scope Z_scope.
Ltac Zify.zify_post_hook ::= Z.div_mod_to_equations.

(* ---------------------------------------------------------------- leaves under the same peak *)
(* position (in the peak list) of the peak above leaf i *)
Definition peak_pos (n i : Z) : Z := fst (fst (locate n i)).
Definition same_peak (n i j : Z) : bool := peak_pos n i =? peak_pos n j.
(* the flag of update_from_leaf_mutation: the mutated leaf j is another leaf of the tree of leaf i *)
Definition uflm_flag (n i j : Z) : bool := negb (i =? j) && same_peak n i j.

Lemma locate_at_same_pk (k : nat) : forall n i j, 0 <= i < n -> 0 <= j < n -> n < 2 ^ Z.of_nat k ->
  fst (fst (locate_at k n i)) = fst (fst (locate_at k n j)) ->
  i / 2 ^ snd (fst (locate_at k n i)) = j / 2 ^ snd (fst (locate_at k n i)).
Proof.
  induction k as [|k IH]; intros n i j Hi Hj Hn.
  - change (2 ^ Z.of_nat 0) with 1 in Hn. lia.
  - cbn [locate_at]. cbv zeta. rewrite p2_S in Hn. pose proof (p2_nat_pos k) as Hp.
    destruct (Z.leb_spec (2 ^ Z.of_nat k) n).
    + destruct (Z.ltb_spec i (2 ^ Z.of_nat k)); destruct (Z.ltb_spec j (2 ^ Z.of_nat k)).
      * cbn [fst snd]. intros _. rewrite !Z.div_small by lia. reflexivity.
      * pose proof (locate_at_bounds k (n - 2 ^ Z.of_nat k) (j - 2 ^ Z.of_nat k) ltac:(lia) ltac:(lia)) as Hb.
        destruct (locate_at k (n - 2 ^ Z.of_nat k) (j - 2 ^ Z.of_nat k)) as [[pk h] j0]. cbn [fst snd]. intros E. lia.
      * pose proof (locate_at_bounds k (n - 2 ^ Z.of_nat k) (i - 2 ^ Z.of_nat k) ltac:(lia) ltac:(lia)) as Hb.
        destruct (locate_at k (n - 2 ^ Z.of_nat k) (i - 2 ^ Z.of_nat k)) as [[pk h] j0]. cbn [fst snd]. intros E. lia.
      * specialize (IH (n - 2 ^ Z.of_nat k) (i - 2 ^ Z.of_nat k) (j - 2 ^ Z.of_nat k) ltac:(lia) ltac:(lia) ltac:(lia)).
        pose proof (locate_at_bounds k (n - 2 ^ Z.of_nat k) (i - 2 ^ Z.of_nat k) ltac:(lia) ltac:(lia)) as Hb.
        destruct (locate_at k (n - 2 ^ Z.of_nat k) (i - 2 ^ Z.of_nat k)) as [[pk h] j0].
        destruct (locate_at k (n - 2 ^ Z.of_nat k) (j - 2 ^ Z.of_nat k)) as [[pk' h'] j0'].
        cbn [fst snd] in *. intros E. specialize (IH ltac:(lia)). destruct Hb as (_ & Hh & _).
        assert (E2 : 2 ^ Z.of_nat k = 2 ^ (Z.of_nat k - h) * 2 ^ h).
        { rewrite <- Z.pow_add_r by lia. f_equal. lia. }
        pose proof (p2_pos h ltac:(lia)) as Hph.
        assert (Ed : forall x, (x - 2 ^ Z.of_nat k) / 2 ^ h = x / 2 ^ h - 2 ^ (Z.of_nat k - h)).
        { intros x. rewrite E2. replace (x - 2 ^ (Z.of_nat k - h) * 2 ^ h) with (x + (- 2 ^ (Z.of_nat k - h)) * 2 ^ h) by lia.
          rewrite Z.div_add by lia. lia. }
        rewrite !Ed in IH. lia.
    + apply IH; lia.
Qed.

Transparent locate.
Lemma locate_same_pk64 n i j : 0 <= i < n -> 0 <= j < n -> n < 2 ^ 64 ->
  fst (fst (locate n i)) = fst (fst (locate n j)) ->
  i / 2 ^ snd (fst (locate n i)) = j / 2 ^ snd (fst (locate n i)).
Proof. intros Hi Hj Hn. exact (locate_at_same_pk 64 n i j Hi Hj Hn). Qed.
Opaque locate.

Lemma same_peak_block n i j : 0 <= i < n -> 0 <= j < n -> n < 2 ^ 64 ->
  (same_peak n i j = true <-> i / 2 ^ Z.of_nat (hgt n i) = j / 2 ^ Z.of_nat (hgt n i)).
Proof.
  intros Hi Hj Hn. unfold same_peak, peak_pos. rewrite Z.eqb_eq. rewrite hgt_unfold.
  pose proof (locate_bounds n i Hi Hn) as Hb.
  split.
  - intros E.
    pose proof (locate_same_pk64 n i j Hi Hj Hn E) as Hs.
    destruct (locate n i) as [[pk h] j0]. cbn [fst snd] in *. destruct Hb as (_ & Hh & _).
    rewrite Z2Nat.id by lia. exact Hs.
  - intros E. pose proof (locate_same64 n i j Hi Hj Hn) as Hs.
    destruct (locate n i) as [[pk h] j0]. cbn [fst snd] in *. destruct Hb as (_ & Hh & _).
    rewrite Z2Nat.id in E by lia. rewrite (Hs E). reflexivity.
Qed.

Lemma same_peak_refl n i : same_peak n i i = true.
Proof. unfold same_peak. apply Z.eqb_refl. Qed.
Lemma same_peak_sym n i j : same_peak n i j = same_peak n j i.
Proof. unfold same_peak. apply Z.eqb_sym. Qed.

(* two different leaves of one block of height n have paths that meet strictly below n *)
Lemma meet_exists i j : 0 <= i -> 0 <= j -> i <> j ->
  forall n : nat, i / 2 ^ Z.of_nat n = j / 2 ^ Z.of_nat n -> exists t, (t < n)%nat /\ meet i j t.
Proof.
  intros Hi Hj Hne. induction n as [|n IH]; intros E.
  - change (2 ^ Z.of_nat 0) with 1 in E. rewrite !Z.div_1_r in E. contradiction.
  - destruct (Z.eq_dec (i / 2 ^ Z.of_nat n) (j / 2 ^ Z.of_nat n)) as [E'|Hne'].
    + destruct (IH E') as (t & Ht & Hm). exists t. split; [lia|exact Hm].
    + exists n. split; [lia|]. unfold meet. rewrite !divS in E by assumption.
      assert (0 <= i / 2 ^ Z.of_nat n) by (apply Z.div_pos; [lia|apply p2_nat_pos]).
      assert (0 <= j / 2 ^ Z.of_nat n) by (apply Z.div_pos; [lia|apply p2_nat_pos]).
      unfold sib. pose proof (Zmod_even (i / 2 ^ Z.of_nat n)) as Hm.
      destruct (Z.even (i / 2 ^ Z.of_nat n)); lia.
Qed.

Lemma meet_irrefl i t : ~ meet i i t.
Proof. unfold meet. apply sib_neq. Qed.

Lemma uflm_flag_meet n i j : 0 <= i < n -> 0 <= j < n -> n < 2 ^ 64 ->
  uflm_flag n i j = match meet_at i j 0 (hgt n i) with Some _ => true | None => false end.
Proof.
  intros Hi Hj Hn. unfold uflm_flag.
  destruct (meet_at i j 0 (hgt n i)) as [t0|] eqn:Ema.
  - apply meet_at_some in Ema. destruct Ema as [Ht0 Hm0].
    destruct (Z.eqb_spec i j) as [->|Hne]; [exfalso; exact (meet_irrefl j t0 Hm0)|]. cbn [negb andb].
    apply (same_peak_block n i j Hi Hj Hn).
    apply (meet_above i j t0 (hgt n i)); try lia. exact Hm0.
  - destruct (Z.eqb_spec i j) as [->|Hne]; [reflexivity|]. cbn [negb andb].
    destruct (same_peak n i j) eqn:Es; [|reflexivity]. exfalso.
    apply (same_peak_block n i j Hi Hj Hn) in Es.
    destruct (meet_exists i j ltac:(lia) ltac:(lia) Hne (hgt n i) Es) as (t & Ht & Hm).
    apply (meet_at_none i j (hgt n i) 0 Ema t); [lia|exact Hm].
Qed.

(* ---------------------------------------------------------------- update_from_leaf_mutation with its flag *)
Section Flag.
Variable D : Type.
Variable H : D -> D -> D.
Variable dflt : D.

Notation br := (broot D H dflt).

Lemma bpath_from_nth ls x : forall n s t, (t < n)%nat ->
  nth t (bpath_from D H dflt ls x s n) dflt = br ls (sib (x / 2 ^ Z.of_nat (s + t))) (s + t).
Proof.
  induction n as [|n IH]; intros s t Ht; [lia|].
  cbn [bpath_from]. destruct t as [|t]; cbn [nth].
  - rewrite Nat.add_0_r. reflexivity.
  - rewrite IH by lia. replace (S s + t)%nat with (s + S t)%nat by lia. reflexivity.
Qed.

(* C05: update_from_leaf_mutation turns the path of leaf i in ls into its path in (upd ls j d); the returned
   flag is uflm_flag: true exactly if j is another leaf of i's tree; if the flag is false the path is unchanged *)
Theorem update_from_leaf_mutation_flag ls i j d :
  0 <= i < zlength ls -> 0 <= j < zlength ls -> zlength ls < 2 ^ 63 ->
  update_from_leaf_mutation D H (path D H dflt ls i) i (j, d, path D H dflt ls j) =
  Some (path D H dflt (upd ls j d) i, uflm_flag (zlength ls) i j) /\
  (uflm_flag (zlength ls) i j = false -> path D H dflt (upd ls j d) i = path D H dflt ls i).
Proof.
  intros Hi Hj Hl.
  assert (Hl64 : zlength ls < 2 ^ 64) by (change (2 ^ 63) with 9223372036854775808 in Hl; change (2 ^ 64) with 18446744073709551616; lia).
  rewrite (uflm_flag_meet (zlength ls) i j Hi Hj Hl64).
  destruct (path_hgt D H dflt ls i Hi Hl) as [Hpi Hoki].
  destruct (path_hgt D H dflt ls j Hj Hl) as [Hpj Hokj].
  pose proof (path_hgt D H dflt (upd ls j d) i) as Hpu. rewrite zlength_upd in Hpu. destruct (Hpu Hi Hl) as [Hpu' _]. clear Hpu.
  assert (Hcov : forall t, (t < hgt (zlength ls) i)%nat -> meet i j t -> hgt (zlength ls) j = hgt (zlength ls) i).
  { intros t Ht Hm. apply (hgt_same (zlength ls) i j Hi Hj Hl64).
    exact (meet_above i j t (hgt (zlength ls) i) (proj1 Hi) (proj1 Hj) Hm Ht). }
  unfold update_from_leaf_mutation.
  rewrite (get_direct_path_indices_spec D H dflt ls j Hj Hl). cbn [obind].
  rewrite (get_node_indices_spec D H dflt ls i Hi Hl). cbn [obind].
  remember (hgt (zlength ls) i) as hi eqn:Ehi. remember (hgt (zlength ls) j) as hj eqn:Ehj'.
  clear Ehi Ehj'.
  rewrite (zuniq_ap_nodes i hi Hoki ltac:(lia) hi 0%nat ltac:(lia)).
  rewrite (filter_meet D H dflt i j hi hj Hoki Hokj ltac:(lia) ltac:(lia)) by (try lia; intros t Ht Hm; rewrite (Hcov t Ht Hm); lia).
  destruct (meet_at i j 0 hi) as [t0|] eqn:Ema.
  - split; [|discriminate].
    apply meet_at_some in Ema. destruct Ema as [Ht0 Hm0].
    pose proof (Hcov t0 ltac:(lia) Hm0) as Ehj.
    rewrite l2n_bidx by lia. cbn [obind].
    rewrite Hpj. unfold bpath.
    assert (Esplit : bpath_from D H dflt ls j 0 hj = bpath_from D H dflt ls j 0 t0 ++ bpath_from D H dflt ls j (0 + t0) (hj - t0)).
    { rewrite <- bpath_from_app. f_equal. clear - Ht0 Ehj. lia. }
    rewrite Esplit.
    assert (Hj0 : bidx j 0 = bidx (j / 2 ^ Z.of_nat 0) (Z.of_nat 0)) by (change (2 ^ Z.of_nat 0) with 1; rewrite Z.div_1_r; reflexivity).
    unfold meet in Hm0. rewrite Hm0.
    assert (Ht0le : (t0 <= hj)%nat) by (clear - Ht0 Ehj; lia).
    pose proof (uflm_loop_spec D H dflt ls j d Hj hj Hokj t0 Ht0le t0 0%nat (dins D [] (bidx j 0) d) eq_refl
                               (map_ok_init D H dflt ls j d Hj hj Hokj) (bpath_from D H dflt ls j (0 + t0) (hj - t0))) as (m' & Hu & Hm').
    rewrite <- Hj0 in Hu. rewrite (nv_0 D H dflt ls j d Hj) in Hu. rewrite Hu. cbn [obind].
    f_equal. f_equal.
    rewrite Hpi, Hpu'. unfold bpath.
    apply (replace_known_spec D H dflt ls i j d hi hj m' t0 (proj1 Hi) Hj Hoki Hokj Hm').
    + intros t Ht Hm. pose proof (meet_unique i j t t0 (proj1 Hi) (proj1 Hj) Hm Hm0) as Et. clear - Et. lia.
    + clear. lia.
  - assert (Esame : path D H dflt (upd ls j d) i = path D H dflt ls i).
    { rewrite Hpi, Hpu'. unfold bpath.
      apply bpath_from_upd_out; try lia. intros t Ht. apply (meet_at_none i j hi 0 Ema). lia. }
    split; [|intros _; exact Esame]. rewrite Esame. reflexivity.
Qed.

Lemma br_parent' L q (s : nat) : 0 <= q ->
  br L (q / 2) (S s) = if Z.even q then H (br L q s) (br L (sib q) s) else H (br L (sib q) s) (br L q s).
Proof.
  intros Hq. rewrite (broot_S D H dflt) by lia. pose proof (Zmod_even q) as Hm. unfold sib.
  destruct (Z.even q).
  - replace (2 * (q / 2)) with q by lia. replace (2 * (q / 2) + 1) with (q + 1) by lia. reflexivity.
  - replace (2 * (q / 2) + 1) with q by lia. replace (2 * (q / 2)) with (q - 1) by lia. reflexivity.
Qed.

Lemma broot_leaf ls j : 0 <= j < zlength ls -> br ls j 0 = nth (Z.to_nat j) ls dflt.
Proof.
  intros Hj. pose proof (broot_upd_leaf D H dflt ls j (nth (Z.to_nat j) ls dflt) Hj) as E.
  unfold upd in E. rewrite upd_nat_same in E. exact E.
Qed.

(* the value of an ancestor of leaf j really changes when the leaf changes and H has no collisions *)
Hypothesis Hinj : forall a b c e, H a b = H c e -> a = c /\ b = e.

Lemma nv_changes ls j d : 0 <= j < zlength ls -> d <> nth (Z.to_nat j) ls dflt ->
  forall t, nv D H dflt ls j d t <> br ls (j / 2 ^ Z.of_nat t) t.
Proof.
  intros Hj Hd. induction t as [|t IH].
  - rewrite nv_0 by exact Hj. change (2 ^ Z.of_nat 0) with 1. rewrite Z.div_1_r. rewrite broot_leaf by exact Hj. exact Hd.
  - rewrite nv_S by lia. rewrite divS by lia.
    rewrite br_parent' by (apply Z.div_pos; [lia|apply p2_nat_pos]).
    destruct (Z.even (j / 2 ^ Z.of_nat t)); intros E; apply Hinj in E; destruct E as [E1 E2]; apply IH; assumption.
Qed.

(* ... hence, for a collision-free hash and a new leaf that differs from the old one, the flag is true
   exactly if the authentication path changes *)
Theorem uflm_flag_changed ls i j d :
  0 <= i < zlength ls -> 0 <= j < zlength ls -> zlength ls < 2 ^ 63 -> d <> nth (Z.to_nat j) ls dflt ->
  (uflm_flag (zlength ls) i j = true <-> path D H dflt (upd ls j d) i <> path D H dflt ls i).
Proof.
  intros Hi Hj Hl Hd. split.
  2:{ intros Hne. destruct (uflm_flag (zlength ls) i j) eqn:Ef; [reflexivity|].
      exfalso. apply Hne. exact (proj2 (update_from_leaf_mutation_flag ls i j d Hi Hj Hl) Ef). }
  assert (Hl64 : zlength ls < 2 ^ 64) by (change (2 ^ 63) with 9223372036854775808 in Hl; change (2 ^ 64) with 18446744073709551616; lia).
  rewrite (uflm_flag_meet (zlength ls) i j Hi Hj Hl64).
  destruct (meet_at i j 0 (hgt (zlength ls) i)) as [t0|] eqn:Ema; [|discriminate]. intros _.
  apply meet_at_some in Ema. destruct Ema as [Ht0 Hm0].
  destruct (path_hgt D H dflt ls i Hi Hl) as [Hpi _].
  pose proof (path_hgt D H dflt (upd ls j d) i) as Hpu. rewrite zlength_upd in Hpu. destruct (Hpu Hi Hl) as [Hpu' _]. clear Hpu.
  rewrite Hpi, Hpu'. unfold bpath. intros E.
  apply (f_equal (fun l => nth t0 l dflt)) in E.
  rewrite !bpath_from_nth in E by lia. cbn [Nat.add] in E.
  unfold meet in Hm0. rewrite Hm0 in E.
  exact (nv_changes ls j d Hj Hd t0 E).
Qed.

End Flag.

(* ---------------------------------------------------------------- soundness of membership verification *)
Lemma zlength_eq_length {A : Type} (a b : list A) : zlength a = zlength b -> length a = length b.
Proof. unfold zlength. intros E. apply Nat2Z.inj. exact E. Qed.

Lemma lt63_64 n : n < 2 ^ 63 -> n < 2 ^ 64.
Proof. change (2 ^ 63) with 9223372036854775808. change (2 ^ 64) with 18446744073709551616. lia. Qed.

Section Sound.
Variable D : Type.
Variable H : D -> D -> D.
Variable deq : D -> D -> bool.
Variable dflt : D.
Hypothesis deq_spec : forall x y, deq x y = true <-> x = y.
Hypothesis Hinj : forall a b c e, H a b = H c e -> a = c /\ b = e.

Lemma fold_up_inj : forall (p q : list D) idx x y, length p = length q ->
  fold_up D H idx x p = fold_up D H idx y q -> x = y /\ p = q.
Proof.
  induction p as [|s p IH]; intros q idx x y Hlen E; destruct q as [|s' q]; try discriminate.
  - cbn [fold_up] in E. auto.
  - cbn [length] in Hlen. cbn [fold_up] in E.
    apply IH in E; [|lia]. destruct E as [E ->].
    destruct (Z.even idx); apply Hinj in E; destruct E as [-> ->]; auto.
Qed.

Lemma deq_refl x : deq x x = true.
Proof. apply deq_spec. reflexivity. Qed.

(* the peak above leaf i is the fold of the leaf up its authentication path *)
Lemma peak_is_fold ls i : 0 <= i < zlength ls -> zlength ls < 2 ^ 64 ->
  let '(pk, h, j) := locate (zlength ls) i in
  zlength (path D H dflt ls i) = h /\
  nth (Z.to_nat pk) (peaks_spec D H dflt ls) dflt = fold_up D H j (nth (Z.to_nat i) ls dflt) (path D H dflt ls i).
Proof.
  intros Hi Hl.
  pose proof (mutate_top D H deq dflt ls i (nth (Z.to_nat i) ls dflt) Hi Hl) as Hm.
  destruct (locate (zlength ls) i) as [[pk h] j]. destruct Hm as [Hlen Hset]. split; [exact Hlen|].
  unfold upd in Hset. rewrite upd_nat_same in Hset.
  exact (set_nth_same _ _ _ _ Hset dflt).
Qed.

(* C05 soundness: whatever verifies against the peaks of ls at index i is the leaf and its authentication path *)
Theorem verify_sound ls ap i x : zlength ls < 2 ^ 64 -> 0 <= i ->
  mp_verify D H deq ap i x (peaks_spec D H dflt ls) (zlength ls) = Some true ->
  0 <= i < zlength ls /\ x = nth (Z.to_nat i) ls dflt /\ ap = path D H dflt ls i.
Proof.
  intros Hl Hi Hv.
  pose proof (peaks_spec_length D H deq dflt ls Hl) as Hpl.
  assert (Hs : mp_verify_spec D H deq dflt ap i x (peaks_spec D H dflt ls) (zlength ls) = true).
  { rewrite (mp_verify_iff D H deq dflt) in Hv.
    - injection Hv as Hv. exact Hv.
    - exact Hi.
    - pose proof (zlength_nonneg ls). split; [assumption|exact Hl].
    - rewrite zlen_zlength, Hpl. pose proof (num_peaks_le D H deq dflt (zlength ls)). change (2 ^ 32) with 4294967296. lia. }
  clear Hv Hpl. unfold mp_verify_spec in Hs.
  apply andb_true_iff in Hs. destruct Hs as [Hs Hs2].
  apply andb_true_iff in Hs. destruct Hs as [Hs _].
  apply andb_true_iff in Hs. destruct Hs as [_ Hlt]. apply Z.ltb_lt in Hlt.
  assert (Hir : 0 <= i < zlength ls) by (split; assumption). split; [exact Hir|].
  pose proof (peak_is_fold ls i Hir Hl) as Hp.
  destruct (locate (zlength ls) i) as [[pk h] j]. destruct Hp as [Hlen Hpk].
  apply andb_true_iff in Hs2. destruct Hs2 as [Hh Hd]. apply Z.eqb_eq in Hh. apply deq_spec in Hd.
  rewrite Hpk in Hd.
  assert (El : length (path D H dflt ls i) = length ap).
  { apply zlength_eq_length. rewrite Hlen, Hh. reflexivity. }
  destruct (fold_up_inj _ _ _ _ _ El Hd) as [E1 E2]. split; [symmetry; exact E1|symmetry; exact E2].
Qed.

(* C05, validity form of the single leaf mutation: EVERY proof `ap` that verifies for leaf i and every proof
   `lm_ap` that verifies for the mutated leaf j (both against the peaks of ls): the accumulator's peaks become
   the peaks of (upd ls j d), the updated proof verifies against them (for the leaf value at i in the mutated
   list), the flag is uflm_flag, a false flag means the proof is untouched, and for a really new leaf value
   the flag is true exactly if the proof changed *)
Theorem leaf_mutation_keeps_valid ls i j d ap lm_ap :
  zlength ls < 2 ^ 63 -> 0 <= i -> 0 <= j ->
  mp_verify D H deq ap i (nth (Z.to_nat i) ls dflt) (peaks_spec D H dflt ls) (zlength ls) = Some true ->
  mp_verify D H deq lm_ap j (nth (Z.to_nat j) ls dflt) (peaks_spec D H dflt ls) (zlength ls) = Some true ->
  exists ap',
    update_from_leaf_mutation D H ap i (j, d, lm_ap) = Some (ap', uflm_flag (zlength ls) i j) /\
    acc_mutate_leaf D H (zlength ls, peaks_spec D H dflt ls) (j, d, lm_ap) =
      Some (zlength ls, peaks_spec D H dflt (upd ls j d)) /\
    mp_verify D H deq ap' i (nth (Z.to_nat i) (upd ls j d) dflt) (peaks_spec D H dflt (upd ls j d)) (zlength ls) = Some true /\
    (uflm_flag (zlength ls) i j = false -> ap' = ap) /\
    (d <> nth (Z.to_nat j) ls dflt -> (uflm_flag (zlength ls) i j = true <-> ap' <> ap)).
Proof.
  intros Hl Hi0 Hj0 Hvi Hvj. pose proof (lt63_64 _ Hl) as Hl64.
  destruct (verify_sound ls ap i _ Hl64 Hi0 Hvi) as (Hi & _ & ->).
  destruct (verify_sound ls lm_ap j _ Hl64 Hj0 Hvj) as (Hj & _ & ->).
  destruct (update_from_leaf_mutation_flag D H dflt ls i j d Hi Hj Hl) as [Hu Hsame].
  exists (path D H dflt (upd ls j d) i). split; [exact Hu|]. split; [|split; [|split]].
  - unfold acc_mutate_leaf. cbn [fst snd]. rewrite (mutate_spec D H deq dflt ls j d Hj Hl64). reflexivity.
  - rewrite <- (zlength_upd ls j d). apply (path_verifies D H deq dflt deq_refl); rewrite zlength_upd; assumption.
  - exact Hsame.
  - intros Hd. exact (uflm_flag_changed D H dflt Hinj ls i j d Hi Hj Hl Hd).
Qed.

(* the accumulator side on its own: mutate_leaf with any proof that verifies *)
Theorem acc_mutate_leaf_valid ls j d lm_ap :
  zlength ls < 2 ^ 64 -> 0 <= j ->
  mp_verify D H deq lm_ap j (nth (Z.to_nat j) ls dflt) (peaks_spec D H dflt ls) (zlength ls) = Some true ->
  acc_mutate_leaf D H (zlength ls, peaks_spec D H dflt ls) (j, d, lm_ap) =
  Some (zlength ls, peaks_spec D H dflt (upd ls j d)).
Proof.
  intros Hl64 Hj0 Hvj.
  destruct (verify_sound ls lm_ap j _ Hl64 Hj0 Hvj) as (Hj & _ & ->).
  unfold acc_mutate_leaf. cbn [fst snd]. rewrite (mutate_spec D H deq dflt ls j d Hj Hl64). reflexivity.
Qed.

End Sound.

(* ---------------------------------------------------------------- the peaks bind the leaf list *)
Section Binding.
Variable D : Type.
Variable H : D -> D -> D.
Variable dflt : D.
Hypothesis Hinj : forall a b c e, H a b = H c e -> a = c /\ b = e.

Lemma root_inj (h : nat) : forall c c', zlength c = 2 ^ Z.of_nat h -> zlength c' = 2 ^ Z.of_nat h ->
  root D H dflt h c = root D H dflt h c' -> c = c'.
Proof.
  induction h as [|h IH]; intros c c' Hc Hc' E.
  - change (2 ^ Z.of_nat 0) with 1 in *.
    destruct c as [|x [|? ?]]; try (unfold zlength in Hc; cbn [length] in Hc; lia).
    destruct c' as [|x' [|? ?]]; try (unfold zlength in Hc'; cbn [length] in Hc'; lia).
    cbn [root hd] in E. rewrite E. reflexivity.
  - rewrite p2_S in *. pose proof (p2_nat_pos h) as Hp. cbn [root] in E.
    apply Hinj in E. destruct E as [E1 E2].
    apply IH in E1; [|rewrite zlength_firstn; lia|rewrite zlength_firstn; lia].
    apply IH in E2; [|rewrite zlength_skipn; lia|rewrite zlength_skipn; lia].
    rewrite <- (firstn_skipn (pw h) c), <- (firstn_skipn (pw h) c'). rewrite E1, E2. reflexivity.
Qed.

Lemma peaks_at_inj (k : nat) : forall ls ls', zlength ls = zlength ls' -> zlength ls < 2 ^ Z.of_nat k ->
  peaks_at D H dflt k ls = peaks_at D H dflt k ls' -> ls = ls'.
Proof.
  induction k as [|k IH]; intros ls ls' El Hl E.
  - change (2 ^ Z.of_nat 0) with 1 in Hl.
    destruct ls; [|unfold zlength in Hl; cbn [length] in Hl; lia].
    destruct ls'; [reflexivity|unfold zlength in El; cbn [length] in El; lia].
  - rewrite p2_S in Hl. pose proof (p2_nat_pos k) as Hp. cbn [peaks_at] in E. rewrite <- El in E.
    destruct (Z.leb_spec (2 ^ Z.of_nat k) (zlength ls)).
    + inversion E as [[E1 E2]].
      apply root_inj in E1; [|rewrite zlength_firstn; lia|rewrite zlength_firstn; lia].
      apply IH in E2; [|rewrite !zlength_skipn; lia|rewrite zlength_skipn; lia].
      rewrite <- (firstn_skipn (pw k) ls), <- (firstn_skipn (pw k) ls'). rewrite E1, E2. reflexivity.
    + apply IH; [exact El|lia|exact E].
Qed.

(* C11 binding: for a collision-free hash, two leaf lists of the same length with the same peaks are equal *)
Theorem peaks_binding ls ls' : zlength ls = zlength ls' -> zlength ls < 2 ^ 64 ->
  peaks_spec D H dflt ls = peaks_spec D H dflt ls' -> ls = ls'.
Proof. intros El Hl E. rewrite !peaks_spec_eq in E. exact (peaks_at_inj 64 ls ls' El Hl E). Qed.

End Binding.

(* ---------------------------------------------------------------- the free hash is an instance *)
From TF Require Import MmrTerm.

Lemma mmr_zlist_eqb_spec : forall l m, zlist_eqb l m = true <-> l = m.
Proof.
  induction l as [|x l IH]; intros [|y m]; cbn [zlist_eqb]; try (split; discriminate); [split; reflexivity|].
  rewrite andb_true_iff, Z.eqb_eq, IH. split; [intros [-> ->]; reflexivity|intros E; inversion E; auto].
Qed.

Lemma mmr_term_eqb_spec : forall a b, term_eqb a b = true <-> a = b.
Proof.
  induction a as [k| |l|a1 IH1 a2 IH2]; intros [k'| |l'|b1 b2]; cbn [term_eqb]; try (split; discriminate).
  - rewrite Z.eqb_eq. split; [intros ->; reflexivity|intros E; inversion E; reflexivity].
  - split; reflexivity.
  - rewrite mmr_zlist_eqb_spec. split; [intros ->; reflexivity|intros E; inversion E; reflexivity].
  - rewrite andb_true_iff, IH1, IH2. split; [intros [-> ->]; reflexivity|intros E; inversion E; auto].
Qed.

Lemma mmr_Node_inj : forall a b c e, Node a b = Node c e -> a = c /\ b = e.
Proof. intros a b c e E. inversion E. auto. Qed.
