(* MmrNodes.v - the post-order node numbering behind the index-keyed MMR routines.
   Block (a, h) = the perfect subtree of height h over the leaves [a * 2^h, (a+1) * 2^h).  Its node index is
   bidx a h = (number of nodes of an MMR with a * 2^h leafs) + 2^(h+1) - 1.
   right_lineage_length_and_own_height finds (is right child, height) of every such node; parent / sibling
   arithmetic follows; the numbering is injective. *)
From Coq Require Import ZArith List Bool Lia.
From TF Require Import Word MmrIdxLocal MmrBits.
Import ListNotations.
Open Scope Z_scope.
Ltac Zify.zify_post_hook ::= Z.div_mod_to_equations.

(* ---------------------------------------------------------------- count_ones, more *)
Lemma co_0 : count_ones 0 = 0. Proof. reflexivity. Qed.

Lemma co_le a : 0 <= a -> count_ones a <= a.
Proof.
  intros Ha. destruct a as [|p|p]; [cbn; lia| |lia]. cbn [count_ones].
  induction p as [p IH|p IH|]; cbn [popcount_pos]; lia.
Qed.

Lemma co_succ_le a : 0 <= a -> count_ones (a + 1) <= count_ones a + 1.
Proof.
  intros Ha. destruct a as [|p|p]; [cbn; lia| |lia].
  cbn [Z.add count_ones]. rewrite Pos.add_1_r.
  induction p as [p IH|p IH|]; cbn [Pos.succ popcount_pos]; lia.
Qed.

Lemma co_mul_pow2 (m : nat) a : 0 <= a -> count_ones (a * 2 ^ Z.of_nat m) = count_ones a.
Proof.
  intros Ha. induction m as [|m IH]; [rewrite Z.mul_1_r; reflexivity|].
  rewrite p2_S. replace (a * (2 * 2 ^ Z.of_nat m)) with (2 * (a * 2 ^ Z.of_nat m)) by lia.
  rewrite co_double by (pose proof (p2_nat_pos m); nia). exact IH.
Qed.

Lemma co_split (m : nat) : forall b r, 0 <= b -> 0 <= r < 2 ^ Z.of_nat m ->
  count_ones (b * 2 ^ Z.of_nat m + r) = count_ones b + count_ones r.
Proof.
  induction m as [|m IH]; intros b r Hb Hr.
  - change (2 ^ Z.of_nat 0) with 1 in *. assert (r = 0) by lia. subst. rewrite Z.mul_1_r, Z.add_0_r. cbn. lia.
  - rewrite p2_S in *. pose proof (p2_nat_pos m) as Hp.
    assert (E : r = 2 * (r / 2) + r mod 2) by (apply Z.div_mod; lia).
    assert (Hq : 0 <= r / 2 < 2 ^ Z.of_nat m) by lia.
    assert (Hb2 : r mod 2 = 0 \/ r mod 2 = 1) by lia.
    destruct Hb2 as [Hb2|Hb2]; rewrite Hb2 in E.
    + replace (b * (2 * 2 ^ Z.of_nat m) + r) with (2 * (b * 2 ^ Z.of_nat m + r / 2)) by lia.
      rewrite co_double by nia. rewrite IH by lia.
      rewrite E at 2. replace (2 * (r / 2) + 0) with (2 * (r / 2)) by lia. rewrite co_double by lia. reflexivity.
    + replace (b * (2 * 2 ^ Z.of_nat m) + r) with (2 * (b * 2 ^ Z.of_nat m + r / 2) + 1) by lia.
      rewrite co_succ_double by nia. rewrite IH by lia.
      rewrite E at 2. rewrite co_succ_double by lia. lia.
Qed.

(* ---------------------------------------------------------------- node counts and block indices *)
Definition nn (n : Z) : Z := 2 * n - count_ones n.
Definition bidx (a h : Z) : Z := nn (a * 2 ^ h) + 2 ^ (h + 1) - 1.

Lemma nn_mono_step n : 0 <= n -> nn n < nn (n + 1).
Proof. intros Hn. unfold nn. pose proof (co_succ_le n Hn). lia. Qed.

Lemma nn_mono : forall n m, 0 <= n -> n < m -> nn n < nn m.
Proof.
  intros n m Hn Hlt. replace m with (n + Z.of_nat (Z.to_nat (m - n))) by lia.
  assert (Hk : (0 < Z.to_nat (m - n))%nat) by lia. revert Hk.
  generalize (Z.to_nat (m - n)) as k. induction k as [|k IH]; intros Hk; [lia|].
  destruct k as [|k'].
  - replace (n + Z.of_nat 1) with (n + 1) by lia. apply nn_mono_step. exact Hn.
  - specialize (IH ltac:(lia)).
    replace (n + Z.of_nat (S (S k'))) with ((n + Z.of_nat (S k')) + 1) by lia.
    pose proof (nn_mono_step (n + Z.of_nat (S k')) ltac:(lia)). lia.
Qed.

Lemma bidx_formula (h : nat) a : 0 <= a ->
  bidx a (Z.of_nat h) = 2 * a * 2 ^ Z.of_nat h - count_ones a + 2 * 2 ^ Z.of_nat h - 1.
Proof. intros Ha. unfold bidx, nn. rewrite co_mul_pow2 by exact Ha. rewrite p2_succ by lia. lia. Qed.

Lemma bidx_leaf li : 0 <= li -> bidx li 0 = 2 * li - count_ones li + 1.
Proof. intros. rewrite (bidx_formula 0) by assumption. change (2 ^ Z.of_nat 0) with 1. lia. Qed.

Lemma l2n_bidx li : 0 <= li < 2 ^ 63 -> l2n li = Some (bidx li 0).
Proof.
  intros Hl. unfold l2n, two63. change (2 ^ 63) with 9223372036854775808 in Hl.
  destruct (Z.ltb_spec li 9223372036854775808); [|lia]. rewrite bidx_leaf by lia. reflexivity.
Qed.

(* children and parents *)
Lemma bidx_right_parent (h : nat) a : 0 <= a -> bidx (2 * a + 1) (Z.of_nat h) + 1 = bidx a (Z.of_nat (S h)).
Proof.
  intros Ha. rewrite !bidx_formula by lia. rewrite co_succ_double by lia. rewrite p2_S. lia.
Qed.
Lemma bidx_left_parent (h : nat) a : 0 <= a ->
  bidx (2 * a) (Z.of_nat h) + 2 * 2 ^ Z.of_nat h = bidx a (Z.of_nat (S h)).
Proof.
  intros Ha. rewrite !bidx_formula by lia. rewrite co_double by lia. rewrite p2_S. lia.
Qed.
Lemma bidx_siblings (h : nat) a : 0 <= a ->
  bidx (2 * a + 1) (Z.of_nat h) = bidx (2 * a) (Z.of_nat h) + 2 * 2 ^ Z.of_nat h - 1.
Proof. intros Ha. pose proof (bidx_right_parent h a Ha). pose proof (bidx_left_parent h a Ha). lia. Qed.

Lemma bidx_lower (h : nat) a : 0 <= a -> 2 * 2 ^ Z.of_nat h - 1 <= bidx a (Z.of_nat h).
Proof.
  intros Ha. rewrite bidx_formula by exact Ha. pose proof (co_le a Ha). pose proof (p2_nat_pos h). nia.
Qed.
Lemma bidx_upper (h : nat) a : 0 <= a -> bidx a (Z.of_nat h) <= 2 * (a + 1) * 2 ^ Z.of_nat h - 1.
Proof.
  intros Ha. rewrite bidx_formula by exact Ha. pose proof (co_nonneg a). nia.
Qed.

Lemma bidx_mono (h : nat) a a' : 0 <= a -> a < a' -> bidx a (Z.of_nat h) < bidx a' (Z.of_nat h).
Proof.
  intros Ha Hlt. unfold bidx. pose proof (p2_nat_pos h).
  pose proof (nn_mono (a * 2 ^ Z.of_nat h) (a' * 2 ^ Z.of_nat h) ltac:(nia) ltac:(nia)). lia.
Qed.

(* block (a, h) lies inside block (b, h + m) where b = a / 2^m *)
Lemma bidx_inside (h m : nat) b r : 0 <= b -> 0 <= r < 2 ^ Z.of_nat m ->
  nn (b * 2 ^ Z.of_nat (h + m)) < bidx (b * 2 ^ Z.of_nat m + r) (Z.of_nat h) /\
  bidx (b * 2 ^ Z.of_nat m + r) (Z.of_nat h) <= bidx b (Z.of_nat (h + m)) /\
  (bidx (b * 2 ^ Z.of_nat m + r) (Z.of_nat h) = bidx b (Z.of_nat (h + m)) -> m = 0%nat).
Proof.
  intros Hb Hr. pose proof (p2_nat_pos h) as Hh. pose proof (p2_nat_pos m) as Hm.
  rewrite !bidx_formula by nia. unfold nn. rewrite co_mul_pow2 by exact Hb.
  rewrite co_split by assumption.
  rewrite Nat2Z.inj_add. rewrite Z.pow_add_r by lia.
  pose proof (co_le r ltac:(lia)) as Hc. pose proof (co_nonneg r) as Hc0.
  split; [nia|]. split; [nia|].
  intros E. destruct m as [|m]; [reflexivity|]. exfalso.
  rewrite p2_S in *.
  assert (E1 : 2 * 2 ^ Z.of_nat h * (2 * 2 ^ Z.of_nat m - r - 1) + count_ones r = 0) by nia.
  assert (Hr0 : count_ones r = 0) by nia.
  assert (r = 2 * 2 ^ Z.of_nat m - 1) by nia.
  assert (0 < r) by (pose proof (p2_nat_pos m); lia).
  destruct r as [|p|p]; try lia. cbn [count_ones] in Hr0.
  assert (0 < popcount_pos p) by (clear; induction p; cbn [popcount_pos]; lia). lia.
Qed.

Lemma nn_right_base (c : nat) A : 0 <= A -> nn ((2 * A + 1) * 2 ^ Z.of_nat c) = bidx (2 * A) (Z.of_nat c).
Proof.
  intros HA. rewrite bidx_formula by lia. unfold nn. rewrite co_mul_pow2 by lia.
  rewrite co_succ_double, co_double by lia. lia.
Qed.

(* ---------------------------------------------------------------- right_lineage_length_and_own_height *)
Lemma leftmost_ancestor_spec ni : 1 <= ni < 2 ^ 64 ->
  leftmost_ancestor ni = Some (2 ^ (Z.log2 ni + 1) - 1, Z.log2 ni).
Proof.
  intros Hni. unfold leftmost_ancestor.
  destruct (Z.leb_spec ni 0); [lia|].
  assert (Hlog : 0 <= Z.log2 ni < 64).
  { split; [apply Z.log2_nonneg|]. apply Z.log2_lt_pow2; lia. }
  unfold leading_zeros, bitlen. destruct (Z.eqb_spec ni 0); [lia|].
  destruct (Z.eqb_spec (64 - (Z.log2 ni + 1)) 0) as [E|E].
  - replace (Z.log2 ni) with 63 by lia. reflexivity.
  - f_equal. f_equal; [f_equal; f_equal|]; lia.
Qed.

Lemma rll_loop_eq fuel candidate ch ni rac :
  rll_loop fuel candidate ch ni rac =
  if candidate =? ni then Some (rac, ch)
  else match fuel with
       | O => None
       | S f =>
         let? lc := sub64 candidate (2 ^ ch) in
         if lc <? ni then rll_loop f (candidate - 1) (ch - 1) ni (rac + 1)
         else rll_loop f lc (ch - 1) ni 0
       end.
Proof. destruct fuel; reflexivity. Qed.

Lemma rll_loop_spec (h : nat) : forall (m : nat) A r rac,
  0 <= A -> 0 <= r < 2 ^ Z.of_nat m -> 0 <= rac -> (rac =? 0) = Z.even A ->
  exists rac', rll_loop (h + m) (bidx A (Z.of_nat (h + m))) (Z.of_nat (h + m))
                        (bidx (A * 2 ^ Z.of_nat m + r) (Z.of_nat h)) rac = Some (rac', Z.of_nat h) /\
               0 <= rac' /\ (rac' =? 0) = Z.even (A * 2 ^ Z.of_nat m + r).
Proof.
  induction m as [|m IH]; intros A r rac HA Hr Hrac Hev.
  - change (2 ^ Z.of_nat 0) with 1 in *. assert (r = 0) by lia. subst r.
    rewrite Z.mul_1_r, Z.add_0_r, Nat.add_0_r. rewrite rll_loop_eq. rewrite Z.eqb_refl.
    exists rac. auto.
  - pose proof (bidx_inside h (S m) A r HA Hr) as (Hin1 & Hin2 & Hin3).
    rewrite rll_loop_eq.
    destruct (Z.eqb_spec (bidx A (Z.of_nat (h + S m))) (bidx (A * 2 ^ Z.of_nat (S m) + r) (Z.of_nat h))) as [E|_].
    { symmetry in E. apply Hin3 in E. discriminate. }
    replace (h + S m)%nat with (S (h + m)) by lia. cbv zeta.
    pose proof (p2_nat_pos (S (h + m))) as Hpc. pose proof (p2_nat_pos m) as Hpm. pose proof (p2_nat_pos (h + m)) as Hphm.
    pose proof (bidx_lower (S (h + m)) A HA) as Hlow.
    pose proof (bidx_left_parent (h + m) A HA) as Hlp.
    pose proof (bidx_right_parent (h + m) A HA) as Hrp.
    unfold sub64. destruct (Z.leb_spec (2 ^ Z.of_nat (S (h + m))) (bidx A (Z.of_nat (S (h + m))))); [|lia].
    cbn [obind].
    replace (bidx A (Z.of_nat (S (h + m))) - 2 ^ Z.of_nat (S (h + m))) with (bidx (2 * A) (Z.of_nat (h + m)))
      by (rewrite p2_S; lia).
    replace (Z.of_nat (S (h + m)) - 1) with (Z.of_nat (h + m)) by lia.
    rewrite p2_S in Hr.
    set (b := r / 2 ^ Z.of_nat m). set (r' := r mod 2 ^ Z.of_nat m).
    assert (Hb : b = 0 \/ b = 1) by (unfold b; nia).
    assert (Hr' : 0 <= r' < 2 ^ Z.of_nat m) by (unfold r'; apply Z.mod_pos_bound; lia).
    assert (Ea : A * 2 ^ Z.of_nat (S m) + r = (2 * A + b) * 2 ^ Z.of_nat m + r').
    { rewrite p2_S. unfold b, r'. pose proof (Z.div_mod r (2 ^ Z.of_nat m) ltac:(lia)). nia. }
    rewrite Ea.
    destruct Hb as [Hb|Hb]; rewrite Hb.
    + pose proof (bidx_inside h m (2 * A) r' ltac:(lia) Hr') as (_ & Hle & _).
      replace (2 * A + 0) with (2 * A) by lia.
      destruct (Z.ltb_spec (bidx (2 * A) (Z.of_nat (h + m))) (bidx (2 * A * 2 ^ Z.of_nat m + r') (Z.of_nat h))); [lia|].
      apply IH; try lia. rewrite Z.even_mul. reflexivity.
    + pose proof (bidx_inside h m (2 * A + 1) r' ltac:(lia) Hr') as (Hgt & _ & _).
      rewrite nn_right_base in Hgt by lia.
      destruct (Z.ltb_spec (bidx (2 * A) (Z.of_nat (h + m))) (bidx ((2 * A + 1) * 2 ^ Z.of_nat m + r') (Z.of_nat h))); [|lia].
      replace (bidx A (Z.of_nat (S (h + m))) - 1) with (bidx (2 * A + 1) (Z.of_nat (h + m))) by lia.
      apply IH; try lia.
      * destruct (Z.eqb_spec (rac + 1) 0); [lia|]. rewrite Z.even_add, Z.even_mul. reflexivity.
Qed.

Theorem rll_and_height_bidx (h : nat) a : 0 <= a -> bidx a (Z.of_nat h) < 2 ^ 64 ->
  exists rac, rll_and_height (bidx a (Z.of_nat h)) = Some (rac, Z.of_nat h) /\ 0 <= rac /\ (rac =? 0) = Z.even a.
Proof.
  intros Ha Hlt. pose proof (bidx_lower h a Ha) as Hlow. pose proof (p2_nat_pos h) as Hp.
  set (ni := bidx a (Z.of_nat h)) in *.
  assert (Hni : 1 <= ni < 2 ^ 64) by lia.
  unfold rll_and_height. rewrite leftmost_ancestor_spec by exact Hni. cbn [obind].
  pose proof (Z.log2_spec ni ltac:(lia)) as [Hl1 Hl2].
  assert (Hh0 : Z.of_nat h <= Z.log2 ni).
  { apply Z.log2_le_pow2; lia. }
  set (m := Z.to_nat (Z.log2 ni - Z.of_nat h)).
  assert (Em : Z.log2 ni = Z.of_nat (h + m)) by (unfold m; lia).
  assert (Ha2 : a < 2 ^ Z.of_nat m).
  { destruct (Z.lt_ge_cases a (2 ^ Z.of_nat m)) as [|Hge]; [assumption|exfalso].
    assert (bidx (2 ^ Z.of_nat m) (Z.of_nat h) <= ni).
    { destruct (Z.eq_dec a (2 ^ Z.of_nat m)) as [Ea|Hne]; [rewrite <- Ea; unfold ni; lia|].
      pose proof (bidx_mono h (2 ^ Z.of_nat m) a ltac:(pose proof (p2_nat_pos m); lia) ltac:(lia)). unfold ni. lia. }
    rewrite bidx_formula in H by (pose proof (p2_nat_pos m); lia).
    replace (count_ones (2 ^ Z.of_nat m)) with 1 in H.
    2:{ pose proof (co_pow2_add m 0 ltac:(pose proof (p2_nat_pos m); lia)) as Hc. rewrite Z.add_0_r in Hc. rewrite Hc. reflexivity. }
    rewrite Z.pow_succ_r in Hl2 by lia. rewrite Em in Hl2. rewrite Nat2Z.inj_add, Z.pow_add_r in Hl2 by lia. nia. }
  rewrite Em. replace (Z.of_nat (h + m) + 1) with (Z.of_nat (S (h + m))) by lia.
  replace (2 ^ Z.of_nat (S (h + m)) - 1) with (bidx 0 (Z.of_nat (h + m))).
  2:{ rewrite bidx_formula by lia. rewrite p2_S. cbn [count_ones]. lia. }
  rewrite Nat2Z.id.
  pose proof (rll_loop_spec h m 0 a 0 ltac:(lia) ltac:(lia) ltac:(lia) eq_refl) as (rac' & Hr1 & Hr2 & Hr3).
  rewrite Z.mul_0_l, Z.add_0_l in Hr1, Hr3.
  exists rac'. auto.
Qed.

(* ---------------------------------------------------------------- parent / sibling steps *)
Definition sib (a : Z) : Z := if Z.even a then a + 1 else a - 1.
(* block (a, h) and everything up to its parent lie among the first 2^63 leaves *)
Definition inb (a : Z) (h : nat) : Prop := 0 <= a /\ (a / 2 + 1) * (2 * 2 ^ Z.of_nat h) <= 2 ^ 63.

Lemma sib_nonneg a : 0 <= a -> 0 <= sib a.
Proof. intros. unfold sib. destruct (Z.even a) eqn:E; [lia|]. destruct (Z.eq_dec a 0) as [->|]; [discriminate E|lia]. Qed.
Lemma sib_div2 a : 0 <= a -> sib a / 2 = a / 2.
Proof.
  intros Ha. unfold sib. pose proof (Zmod_even a) as Hm. destruct (Z.even a); lia.
Qed.
Lemma sib_even a : Z.even (sib a) = negb (Z.even a).
Proof.
  unfold sib. destruct (Z.even a) eqn:E.
  - rewrite Z.even_add, E. reflexivity.
  - rewrite Z.even_sub, E. reflexivity.
Qed.
Lemma sib_sib a : sib (sib a) = a.
Proof. unfold sib at 1. rewrite sib_even. unfold sib. destruct (Z.even a); cbn [negb]; lia. Qed.

Lemma inb_bound (h : nat) a : inb a h -> bidx (a / 2) (Z.of_nat (S h)) < 2 ^ 64 /\ Z.of_nat h + 1 < 64.
Proof.
  intros [Ha Hb]. pose proof (p2_nat_pos h) as Hp.
  pose proof (bidx_upper (S h) (a / 2) ltac:(lia)) as Hu. rewrite p2_S in Hu.
  change (2 ^ 63) with 9223372036854775808 in Hb. change (2 ^ 64) with 18446744073709551616.
  split; [nia|].
  destruct (Z.le_gt_cases (Z.of_nat h) 62); [lia|exfalso].
  assert (2 ^ 63 <= 2 ^ Z.of_nat h) by (apply p2_le; lia).
  change (2 ^ 63) with 9223372036854775808 in *. nia.
Qed.

Lemma up_info_bidx (h : nat) a : inb a h ->
  up_info (bidx a (Z.of_nat h)) = Some (negb (Z.even a), bidx (sib a) (Z.of_nat h), bidx (a / 2) (Z.of_nat (S h))).
Proof.
  intros Hin. pose proof (inb_bound h a Hin) as [Hpar Hh]. destruct Hin as [Ha Hb].
  pose proof (p2_nat_pos h) as Hp.
  pose proof (Zmod_even a) as Hm. unfold sib.
  remember (a / 2) as q eqn:Eq.
  assert (Hq : 0 <= q) by lia.
  pose proof (bidx_right_parent h q Hq) as Hrp. pose proof (bidx_left_parent h q Hq) as Hlp.
  pose proof (bidx_siblings h q Hq) as Hsb.
  pose proof (bidx_lower h (2 * q) ltac:(lia)) as Hlow.
  change (2 ^ 64) with 18446744073709551616 in *.
  destruct (Z.even a) eqn:Ev.
  - assert (Ea : a = 2 * q) by lia. subst a.
    destruct (rll_and_height_bidx h (2 * q) Ha ltac:(change (2 ^ 64) with 18446744073709551616; lia)) as (rac & Hr & Hr0 & Hre).
    unfold up_info. rewrite Hr. cbn [obind]. rewrite Ev in Hre.
    destruct (Z.eqb_spec rac 0); [|discriminate]. cbn [negb].
    unfold right_sibling, shl1, add64, sub64, two64.
    destruct (Z.leb_spec 0 (Z.of_nat h + 1)); [|lia]. destruct (Z.ltb_spec (Z.of_nat h + 1) 64); [|lia].
    cbn [andb obind]. rewrite p2_succ by lia.
    destruct (Z.ltb_spec (bidx (2 * q) (Z.of_nat h) + 2 * 2 ^ Z.of_nat h) 18446744073709551616); [|lia]. cbn [obind].
    destruct (Z.leb_spec 1 (bidx (2 * q) (Z.of_nat h) + 2 * 2 ^ Z.of_nat h)); [|lia]. cbn [obind].
    rewrite Hsb, <- Hlp. reflexivity.
  - assert (Ea : a = 2 * q + 1) by lia. subst a.
    destruct (rll_and_height_bidx h (2 * q + 1) Ha ltac:(change (2 ^ 64) with 18446744073709551616; lia)) as (rac & Hr & Hr0 & Hre).
    unfold up_info. rewrite Hr. cbn [obind]. rewrite Ev in Hre.
    destruct (Z.eqb_spec rac 0); [discriminate|]. cbn [negb].
    unfold left_sibling, shl1, add64, sub64, two64.
    destruct (Z.leb_spec 0 (Z.of_nat h + 1)); [|lia]. destruct (Z.ltb_spec (Z.of_nat h + 1) 64); [|lia].
    cbn [andb obind]. rewrite p2_succ by lia.
    destruct (Z.leb_spec (2 * 2 ^ Z.of_nat h) (bidx (2 * q + 1) (Z.of_nat h))); [|lia]. cbn [obind].
    destruct (Z.ltb_spec (bidx (2 * q + 1) (Z.of_nat h) - 2 * 2 ^ Z.of_nat h + 1) 18446744073709551616); [|lia]. cbn [obind].
    destruct (Z.ltb_spec (bidx (2 * q + 1) (Z.of_nat h) + 1) 18446744073709551616); [|lia]. cbn [obind].
    replace (2 * q + 1 - 1) with (2 * q) by lia.
    rewrite Hrp. replace (bidx (2 * q + 1) (Z.of_nat h) - 2 * 2 ^ Z.of_nat h + 1) with (bidx (2 * q) (Z.of_nat h)) by lia.
    reflexivity.
Qed.

Lemma step_up_bidx (h : nat) a : inb a h ->
  step_up (bidx a (Z.of_nat h)) = Some (negb (Z.even a), bidx (a / 2) (Z.of_nat (S h))).
Proof.
  intros Hin. pose proof (up_info_bidx h a Hin) as Hu. unfold up_info in Hu. unfold step_up.
  destruct (rll_and_height (bidx a (Z.of_nat h))) as [[rac hh]|]; [|discriminate]. cbn [obind] in *.
  destruct (negb (rac =? 0)).
  - destruct (left_sibling (bidx a (Z.of_nat h)) hh); [|discriminate]. cbn [obind] in Hu.
    destruct (add64 (bidx a (Z.of_nat h)) 1); [|discriminate]. cbn [obind] in *. inversion Hu; subst. reflexivity.
  - destruct (right_sibling (bidx a (Z.of_nat h)) hh); [|discriminate]. cbn [obind] in Hu.
    destruct (shl1 (hh + 1)); [|discriminate]. cbn [obind] in *.
    destruct (add64 (bidx a (Z.of_nat h)) z0); [|discriminate]. cbn [obind] in *. inversion Hu; subst. reflexivity.
Qed.

Lemma parent_bidx (h : nat) a : inb a h -> parent (bidx a (Z.of_nat h)) = Some (bidx (a / 2) (Z.of_nat (S h))).
Proof. intros Hin. unfold parent. rewrite step_up_bidx by exact Hin. reflexivity. Qed.

(* the numbering is injective *)
Lemma bidx_inj (h h' : nat) a a' : 0 <= a -> 0 <= a' -> bidx a (Z.of_nat h) < 2 ^ 64 ->
  bidx a (Z.of_nat h) = bidx a' (Z.of_nat h') -> h = h' /\ a = a'.
Proof.
  intros Ha Ha' Hlt E.
  destruct (rll_and_height_bidx h a Ha Hlt) as (r1 & H1 & _).
  destruct (rll_and_height_bidx h' a' Ha' ltac:(rewrite <- E; exact Hlt)) as (r2 & H2 & _).
  rewrite E in H1. rewrite H1 in H2. inversion H2. assert (h = h') by lia. subst h'. split; [reflexivity|].
  destruct (Z.lt_trichotomy a a') as [Hl|[He|Hg]]; [|exact He|].
  - pose proof (bidx_mono h a a' Ha Hl). lia.
  - pose proof (bidx_mono h a' a Ha' Hg). lia.
Qed.
