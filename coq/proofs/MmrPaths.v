(* MmrPaths.v - authentication paths element by element: the t-th digest of `path ls i` is the root of the
   block sib(i / 2^t) at height t; how block roots react to the mutation of one leaf. *)
From Coq Require Import ZArith List Bool Lia.
From TF Require Import Word MmrIdxLocal Mmr MmrSpec MmrBits MmrNodes MmrProofs.
Import ListNotations.
Open Scope Z_scope.
Ltac Zify.zify_post_hook ::= Z.div_mod_to_equations.

Definition blk {A : Type} (ls : list A) (a : Z) (t : nat) : list A :=
  firstn (pw t) (skipn (Z.to_nat (a * 2 ^ Z.of_nat t)) ls).

Lemma skipn_firstn_add {A : Type} : forall (n m : nat) (l : list A), skipn n (firstn (n + m) l) = firstn m (skipn n l).
Proof.
  induction n as [|n IH]; intros m l; [reflexivity|].
  destruct l as [|x l]; [cbn; rewrite firstn_nil; reflexivity|]. cbn [Nat.add firstn skipn]. apply IH.
Qed.

Lemma pw_S (t : nat) : pw (S t) = (pw t + pw t)%nat.
Proof. pose proof (pw_spec t). pose proof (pw_spec (S t)). rewrite p2_S in *. lia. Qed.

Lemma blk_left {A : Type} (ls : list A) a (t : nat) : 0 <= a ->
  firstn (pw t) (blk ls a (S t)) = blk ls (2 * a) t.
Proof.
  intros Ha. unfold blk. rewrite firstn_firstn. rewrite pw_S.
  replace (Nat.min (pw t) (pw t + pw t)) with (pw t) by lia.
  f_equal. f_equal. rewrite p2_S. f_equal. lia.
Qed.

Lemma blk_right {A : Type} (ls : list A) a (t : nat) : 0 <= a ->
  skipn (pw t) (blk ls a (S t)) = blk ls (2 * a + 1) t.
Proof.
  intros Ha. unfold blk. rewrite pw_S. rewrite skipn_firstn_add. rewrite skipn_add.
  f_equal. f_equal. pose proof (pw_spec t). pose proof (p2_nat_pos t). rewrite p2_S. nia.
Qed.

Lemma blk_length {A : Type} (ls : list A) a (t : nat) : 0 <= a -> (a + 1) * 2 ^ Z.of_nat t <= zlength ls ->
  zlength (blk ls a t) = 2 ^ Z.of_nat t.
Proof.
  intros Ha Hl. unfold blk, zlength in *. rewrite firstn_length, skipn_length.
  pose proof (pw_spec t). pose proof (p2_nat_pos t). nia.
Qed.

Lemma modp2_down (k : nat) x : x mod (2 * 2 ^ Z.of_nat k) = 0 -> x mod 2 ^ Z.of_nat k = 0.
Proof.
  intros Hx. pose proof (p2_nat_pos k).
  apply Z.mod_divide in Hx; [|lia]. destruct Hx as [q Hq].
  subst x. replace (q * (2 * 2 ^ Z.of_nat k)) with ((q * 2) * 2 ^ Z.of_nat k) by lia. apply Z.mod_mul. lia.
Qed.
Lemma modp2_step (k : nat) x : x mod (2 * 2 ^ Z.of_nat k) = 0 -> (x + 2 ^ Z.of_nat k) mod 2 ^ Z.of_nat k = 0.
Proof.
  intros Hx. apply modp2_down in Hx. pose proof (p2_nat_pos k).
  rewrite <- (Z.mul_1_l (2 ^ Z.of_nat k)) at 1. rewrite Z.mod_add by lia. exact Hx.
Qed.

Section Paths.
Variable D : Type.
Variable H : D -> D -> D.
Variable dflt : D.

Notation root := (root D H dflt).
Notation tree_path := (tree_path D H dflt).
Notation path_at := (path_at D H dflt).

Definition broot (ls : list D) (a : Z) (t : nat) : D := root t (blk ls a t).

Lemma broot_S ls a t : 0 <= a -> broot ls a (S t) = H (broot ls (2 * a) t) (broot ls (2 * a + 1) t).
Proof. intros Ha. unfold broot. cbn [MmrSpec.root]. rewrite blk_left, blk_right by exact Ha. reflexivity. Qed.

(* expected path: siblings of the ancestors of leaf x, heights s .. s + n - 1 *)
Fixpoint bpath_from (ls : list D) (x : Z) (s n : nat) : list D :=
  match n with
  | O => []
  | S n' => broot ls (sib (x / 2 ^ Z.of_nat s)) s :: bpath_from ls x (S s) n'
  end.
Definition bpath (ls : list D) (x : Z) (h : nat) : list D := bpath_from ls x 0 h.

Lemma bpath_from_app ls x : forall n s m, bpath_from ls x s (n + m) = bpath_from ls x s n ++ bpath_from ls x (s + n) m.
Proof.
  induction n as [|n IH]; intros s m.
  - rewrite Nat.add_0_r. reflexivity.
  - cbn [Nat.add bpath_from app]. rewrite IH. f_equal. f_equal. f_equal. lia.
Qed.

Lemma bpath_from_ext ls x y : forall n s, x / 2 ^ Z.of_nat s = y / 2 ^ Z.of_nat s ->
  bpath_from ls x s n = bpath_from ls y s n.
Proof.
  induction n as [|n IH]; intros s E; [reflexivity|].
  cbn [bpath_from]. rewrite E. f_equal. apply IH.
  pose proof (p2_nat_pos s).
  rewrite !p2_S. rewrite !(Z.mul_comm 2). rewrite <- !Z.div_div by lia. rewrite E. reflexivity.
Qed.

Lemma bpath_snoc ls x h : bpath ls x (S h) = bpath ls x h ++ [broot ls (sib (x / 2 ^ Z.of_nat h)) h].
Proof.
  unfold bpath. replace (S h) with (h + 1)%nat at 1 by lia. rewrite bpath_from_app. reflexivity.
Qed.

(* inside one perfect block b of height h *)
Lemma tree_path_blocks (h : nat) : forall ls b j, 0 <= b -> 0 <= j < 2 ^ Z.of_nat h ->
  tree_path h (blk ls b h) j = bpath ls (b * 2 ^ Z.of_nat h + j) h.
Proof.
  induction h as [|h IH]; intros ls b j Hb Hj; [reflexivity|].
  rewrite p2_S in Hj. pose proof (p2_nat_pos h) as Hp.
  cbn [MmrSpec.tree_path]. rewrite blk_left, blk_right by exact Hb.
  rewrite bpath_snoc. rewrite p2_S.
  destruct (Z.ltb_spec j (2 ^ Z.of_nat h)).
  - rewrite IH by lia. f_equal.
    + f_equal. lia.
    + f_equal. unfold broot. f_equal. f_equal.
      replace ((b * (2 * 2 ^ Z.of_nat h) + j) / 2 ^ Z.of_nat h) with (2 * b) by nia.
      unfold sib. rewrite Z.even_mul. reflexivity.
  - rewrite IH by lia. f_equal.
    + f_equal. lia.
    + f_equal. unfold broot. f_equal. f_equal.
      replace ((b * (2 * 2 ^ Z.of_nat h) + j) / 2 ^ Z.of_nat h) with (2 * b + 1) by nia.
      unfold sib. rewrite Z.even_add, Z.even_mul. cbn. lia.
Qed.


(* the tree of leaf i: aligned block (i / 2^h, h) inside the list; j = i mod 2^h *)
Lemma locate_block (k : nat) : forall n i, 0 <= i < n -> n < 2 ^ Z.of_nat k ->
  let '(pk, h, j) := locate_at k n i in
  (i / 2 ^ h + 1) * 2 ^ h <= n /\ j = i mod 2 ^ h.
Proof.
  induction k as [|k IH]; intros n i Hi Hn.
  - change (2 ^ Z.of_nat 0) with 1 in Hn. lia.
  - cbn [locate_at]. cbv zeta. rewrite p2_S in Hn. pose proof (p2_nat_pos k) as Hp.
    destruct (Z.leb_spec (2 ^ Z.of_nat k) n).
    + destruct (Z.ltb_spec i (2 ^ Z.of_nat k)).
      * rewrite Z.div_small, Z.mod_small by lia. lia.
      * specialize (IH (n - 2 ^ Z.of_nat k) (i - 2 ^ Z.of_nat k) ltac:(lia) ltac:(lia)).
        pose proof (locate_at_bounds k (n - 2 ^ Z.of_nat k) (i - 2 ^ Z.of_nat k) ltac:(lia) ltac:(lia)) as Hb.
        destruct (locate_at k (n - 2 ^ Z.of_nat k) (i - 2 ^ Z.of_nat k)) as [[pk h] j].
        destruct Hb as (_ & Hh & _). destruct IH as [IH1 IH2].
        assert (E : 2 ^ Z.of_nat k = 2 ^ (Z.of_nat k - h) * 2 ^ h).
        { rewrite <- Z.pow_add_r by lia. f_equal. lia. }
        pose proof (p2_pos h ltac:(lia)) as Hph. pose proof (p2_pos (Z.of_nat k - h) ltac:(lia)) as Hpd.
        assert (Ed : (i - 2 ^ Z.of_nat k) / 2 ^ h = i / 2 ^ h - 2 ^ (Z.of_nat k - h)).
        { rewrite E. replace (i - 2 ^ (Z.of_nat k - h) * 2 ^ h) with (i + (- 2 ^ (Z.of_nat k - h)) * 2 ^ h) by lia.
          rewrite Z.div_add by lia. lia. }
        assert (Em : (i - 2 ^ Z.of_nat k) mod 2 ^ h = i mod 2 ^ h).
        { rewrite E. replace (i - 2 ^ (Z.of_nat k - h) * 2 ^ h) with (i + (- 2 ^ (Z.of_nat k - h)) * 2 ^ h) by lia.
          apply Z.mod_add. lia. }
        rewrite Ed in IH1. rewrite Em in IH2. split; [|exact IH2]. nia.
    + specialize (IH n i Hi ltac:(lia)). destruct (locate_at k n i) as [[pk h] j]. exact IH.
Qed.

Lemma skipn_blk (full : list D) o (k : nat) : 0 <= o -> o mod 2 ^ Z.of_nat k = 0 ->
  firstn (pw k) (skipn (Z.to_nat o) full) = blk full (o / 2 ^ Z.of_nat k) k.
Proof.
  intros Ho Hm. unfold blk. f_equal. f_equal. f_equal. pose proof (p2_nat_pos k).
  pose proof (Z.div_mod o (2 ^ Z.of_nat k) ltac:(lia)). lia.
Qed.

Lemma path_at_blocks (k : nat) : forall full o i,
  0 <= o -> o mod 2 ^ Z.of_nat k = 0 ->
  0 <= i < zlength (skipn (Z.to_nat o) full) -> zlength (skipn (Z.to_nat o) full) < 2 ^ Z.of_nat k ->
  let '(pk, h, j) := locate_at k (zlength (skipn (Z.to_nat o) full)) i in
  path_at k (skipn (Z.to_nat o) full) i = bpath full (o + i) (Z.to_nat h).
Proof.
  induction k as [|k IH]; intros full o i Ho Hm Hi Hl.
  - change (2 ^ Z.of_nat 0) with 1 in Hl. lia.
  - rewrite p2_S in Hl, Hm. pose proof (p2_nat_pos k) as Hp.
    pose proof (modp2_down k o Hm) as Hm'.
    cbn [locate_at MmrSpec.path_at]. cbv zeta.
    destruct (Z.leb_spec (2 ^ Z.of_nat k) (zlength (skipn (Z.to_nat o) full))) as [Hge|Hlt].
    + destruct (Z.ltb_spec i (2 ^ Z.of_nat k)).
      * rewrite Nat2Z.id. rewrite skipn_blk by assumption.
        rewrite tree_path_blocks by lia.
        f_equal. pose proof (Z.div_mod o (2 ^ Z.of_nat k) ltac:(lia)). lia.
      * rewrite skipn_add.
        replace (Z.to_nat o + pw k)%nat with (Z.to_nat (o + 2 ^ Z.of_nat k)) by (pose proof (pw_spec k); lia).
        assert (Hl2 : zlength (skipn (Z.to_nat (o + 2 ^ Z.of_nat k)) full) = zlength (skipn (Z.to_nat o) full) - 2 ^ Z.of_nat k).
        { unfold zlength in *. rewrite !skipn_length in *. lia. }
        specialize (IH full (o + 2 ^ Z.of_nat k) (i - 2 ^ Z.of_nat k) ltac:(lia) (modp2_step k o Hm)).
        rewrite Hl2 in IH. specialize (IH ltac:(lia) ltac:(lia)).
        destruct (locate_at k (zlength (skipn (Z.to_nat o) full) - 2 ^ Z.of_nat k) (i - 2 ^ Z.of_nat k)) as [[pk h] j].
        rewrite IH. f_equal. lia.
    + specialize (IH full o i Ho Hm' Hi ltac:(lia)).
      destruct (locate_at k (zlength (skipn (Z.to_nat o) full)) i) as [[pk h] j]. exact IH.
Qed.

(* the authentication path, element by element *)
Theorem path_blocks ls i : 0 <= i < zlength ls -> zlength ls < 2 ^ 64 ->
  let '(pk, h, j) := locate (zlength ls) i in
  path D H dflt ls i = bpath ls i (Z.to_nat h) /\ 0 <= h < 64 /\ (i / 2 ^ h + 1) * 2 ^ h <= zlength ls.
Proof.
  intros Hi Hl. rewrite locate_at64. rewrite path_eq.
  pose proof (path_at_blocks 64 ls 0 i ltac:(lia) eq_refl) as Hp. cbn [Z.to_nat skipn] in Hp.
  specialize (Hp Hi Hl). rewrite Z.add_0_l in Hp.
  pose proof (locate_block 64 (zlength ls) i Hi Hl) as Hb.
  pose proof (locate_at_bounds 64 (zlength ls) i Hi Hl) as Hbd.
  destruct (locate_at 64 (zlength ls) i) as [[pk h] j].
  destruct Hb as [Hb1 _]. destruct Hbd as (_ & Hh & _). auto.
Qed.

End Paths.

(* ---------------------------------------------------------------- block roots under a leaf mutation *)
Lemma in_block_iff j a (t : nat) : 0 <= j -> (j / 2 ^ Z.of_nat t = a <-> a * 2 ^ Z.of_nat t <= j < (a + 1) * 2 ^ Z.of_nat t).
Proof. intros Hj. pose proof (p2_nat_pos t). split; intros; nia. Qed.

Lemma blk_upd_out {A : Type} (ls : list A) j (d : A) a (t : nat) : 0 <= a -> 0 <= j ->
  j / 2 ^ Z.of_nat t <> a -> blk (upd ls j d) a t = blk ls a t.
Proof.
  intros Ha Hj Hne. pose proof (p2_nat_pos t) as Hp. pose proof (pw_spec t) as Hpw.
  assert (Hout : j < a * 2 ^ Z.of_nat t \/ (a + 1) * 2 ^ Z.of_nat t <= j).
  { destruct (Z.lt_ge_cases j (a * 2 ^ Z.of_nat t)); [left; assumption|].
    destruct (Z.lt_ge_cases j ((a + 1) * 2 ^ Z.of_nat t)); [|right; assumption].
    exfalso. apply Hne. apply in_block_iff; lia. }
  unfold blk, upd. destruct Hout as [Hlt|Hge].
  - rewrite upd_nat_skipn_lt by nia. reflexivity.
  - rewrite upd_nat_skipn_ge by nia. rewrite upd_nat_firstn_ge by nia. reflexivity.
Qed.

Section Mut.
Variable D : Type.
Variable H : D -> D -> D.
Variable dflt : D.
Notation br := (broot D H dflt).

Lemma broot_upd_out ls j d a t : 0 <= a -> 0 <= j -> j / 2 ^ Z.of_nat t <> a ->
  br (upd ls j d) a t = br ls a t.
Proof. intros. unfold broot. rewrite blk_upd_out by assumption. reflexivity. Qed.

Lemma broot_upd_leaf ls j d : 0 <= j < zlength ls -> br (upd ls j d) j 0 = d.
Proof.
  intros Hj. unfold broot, blk. cbn [MmrSpec.root]. change (2 ^ Z.of_nat 0) with 1. rewrite Z.mul_1_r.
  unfold upd. rewrite upd_nat_skipn_ge by lia. rewrite Nat.sub_diag.
  destruct (skipn (Z.to_nat j) ls) eqn:E.
  - exfalso. pose proof (skipn_length (Z.to_nat j) ls) as Hs. rewrite E in Hs. unfold zlength in Hj. cbn in Hs. lia.
  - reflexivity.
Qed.

(* value of the ancestor of leaf j at height s in the list with leaf j replaced by d *)
Definition nv (ls : list D) (j : Z) (d : D) (s : nat) : D := br (upd ls j d) (j / 2 ^ Z.of_nat s) s.

Lemma div_p2_S j (s : nat) : 0 <= j -> j / 2 ^ Z.of_nat (S s) = j / 2 ^ Z.of_nat s / 2.
Proof. intros. rewrite p2_S. rewrite (Z.mul_comm 2). rewrite Z.div_div by (pose proof (p2_nat_pos s); lia). reflexivity. Qed.

Lemma nv_0 ls j d : 0 <= j < zlength ls -> nv ls j d 0 = d.
Proof. intros. unfold nv. change (2 ^ Z.of_nat 0) with 1. rewrite Z.div_1_r. apply broot_upd_leaf. assumption. Qed.

Lemma nv_S ls j d s : 0 <= j ->
  nv ls j d (S s) =
  if Z.even (j / 2 ^ Z.of_nat s)
  then H (nv ls j d s) (br ls (sib (j / 2 ^ Z.of_nat s)) s)
  else H (br ls (sib (j / 2 ^ Z.of_nat s)) s) (nv ls j d s).
Proof.
  intros Hj. unfold nv. rewrite div_p2_S by exact Hj.
  set (q := j / 2 ^ Z.of_nat s). assert (Hq : 0 <= q) by (unfold q; apply Z.div_pos; [lia|apply p2_nat_pos]).
  rewrite (broot_S D H dflt) by lia. pose proof (Zmod_even q) as Hm. unfold sib.
  destruct (Z.even q).
  - replace (2 * (q / 2)) with q by lia. replace (q + 1) with (2 * (q / 2) + 1) at 2 by lia.
    f_equal. replace (2 * (q / 2) + 1) with (q + 1) by lia.
    apply broot_upd_out; try lia.
  - replace (2 * (q / 2) + 1) with q by lia.
    f_equal. replace (2 * (q / 2)) with (q - 1) by lia.
    apply broot_upd_out; try lia.
Qed.

End Mut.
