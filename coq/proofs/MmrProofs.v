(* MmrProofs.v - lemmas about the MMR model (Mmr.v, MmrIdxLocal.v) against the specification (MmrSpec.v). *)
From Coq Require Import ZArith List Bool Lia.
From TF Require Import Word MmrIdxLocal Mmr MmrSpec MmrTerm.
Import ListNotations.
Open Scope Z_scope.
Ltac Zify.zify_post_hook ::= Z.div_mod_to_equations.

(* ------------------------------------------------------------------------------------------ bagging *)
Section Bag.
Variable D : Type.
Variable H : D -> D -> D.
Variable hash0 : D.

Lemma bag_spec_cons : forall p q r, bag_spec D H hash0 (p :: q :: r) = H p (bag_spec D H hash0 (q :: r)).
Proof. reflexivity. Qed.

Lemma bag_fold : forall rest tl, tl <> [] ->
  fold_left (fun acc peak => H peak acc) rest (bag_spec D H hash0 tl) = bag_spec D H hash0 (rev rest ++ tl).
Proof.
  induction rest as [|x rest IH]; intros tl Htl; [reflexivity|].
  cbn [fold_left rev]. rewrite <- app_assoc. cbn [app].
  rewrite <- (IH (x :: tl)) by discriminate.
  destruct tl as [|y tl']; [contradiction|]. reflexivity.
Qed.

Lemma bag_peaks_spec : forall peaks, bag_peaks D H hash0 peaks = bag_spec D H hash0 peaks.
Proof.
  intros peaks. unfold bag_peaks.
  destruct (rev peaks) as [|lp [|sl rest]] eqn:E.
  - apply (f_equal (@rev D)) in E. rewrite rev_involutive in E. subst. reflexivity.
  - apply (f_equal (@rev D)) in E. rewrite rev_involutive in E. subst. reflexivity.
  - apply (f_equal (@rev D)) in E. rewrite rev_involutive in E. subst peaks.
    cbn [rev]. rewrite <- app_assoc. cbn [app].
    change (H sl lp) with (bag_spec D H hash0 [sl; lp]).
    apply bag_fold. discriminate.
Qed.

Lemma bag_peaks_cases :
  bag_peaks D H hash0 [] = hash0 /\
  (forall p, bag_peaks D H hash0 [p] = p) /\
  (forall p q r, bag_peaks D H hash0 (p :: q :: r) = H p (bag_peaks D H hash0 (q :: r))).
Proof.
  split; [reflexivity|]. split; [reflexivity|].
  intros. rewrite !bag_peaks_spec. reflexivity.
Qed.
End Bag.

(* ------------------------------------------------------------------------------------------ C12: the unrepaired verify *)
(* The code as it is (sp_verify_v0) on an old accumulator whose peak list disagrees with its leaf count. *)
Lemma sp_verify_v0_panics :
  sp_verify_v0 term Node term_eqb Dflt [] (1, [Atom 0; Atom 5]) (1, [Atom 0]) = None.
Proof. vm_compute. reflexivity. Qed.

Lemma sp_verify_v0_accepts :
  sp_verify_v0 term Node term_eqb Dflt [] (1, []) (1, [Atom 0]) = Some true.
Proof. vm_compute. reflexivity. Qed.

Lemma sp_verify_v1_rejects_both :
  sp_verify_v1 term Node term_eqb Dflt [] (1, [Atom 0; Atom 5]) (1, [Atom 0]) = Some false /\
  sp_verify_v1 term Node term_eqb Dflt [] (1, []) (1, [Atom 0]) = Some false.
Proof. vm_compute. split; reflexivity. Qed.

(* ------------------------------------------------------------------------------------------ index functions *)
From TF Require Import MmrBits.

Lemma rll_leaf_spec n : 0 <= n -> n + 1 < 2 ^ 64 -> rll_leaf n = Some (tz (n + 1)).
Proof.
  intros Hn Hlt. unfold rll_leaf, two64.
  change 18446744073709551616 with (2 ^ 64).
  destruct (Z.ltb_spec (n + 1) (2 ^ 64)) as [_|]; [|lia].
  replace n with ((n + 1) - 1) at 2 by lia.
  rewrite land_wnot by lia. f_equal.
  pose proof (tz_nonneg (n + 1)) as Ht.
  unfold leading_zeros, bitlen.
  pose proof (p2_pos (tz (n + 1)) Ht).
  destruct (Z.eqb_spec (2 ^ tz (n + 1)) 0); [lia|].
  rewrite Z.log2_pow2 by lia. lia.
Qed.

Lemma popcount_at_spec (k : nat) : forall n, 0 <= n < 2 ^ Z.of_nat k -> count_ones n = popcount_at k n.
Proof.
  induction k as [|k IH]; intros n Hn.
  - change (2 ^ Z.of_nat 0) with 1 in Hn. assert (n = 0) by lia. subst. reflexivity.
  - cbn [popcount_at]. rewrite p2_S in Hn.
    destruct (Z.leb_spec (2 ^ Z.of_nat k) n).
    + replace n with (2 ^ Z.of_nat k + (n - 2 ^ Z.of_nat k)) at 1 by lia.
      rewrite co_pow2_add by lia. rewrite IH by lia. reflexivity.
    + apply IH. lia.
Qed.

Lemma num_peaks_spec n : 0 <= n < 2 ^ 64 -> count_ones n = num_peaks n.
Proof. intros. unfold num_peaks. apply (popcount_at_spec 64). exact H. Qed.

Lemma popcount_at_nonneg (k : nat) : forall n, 0 <= popcount_at k n.
Proof. induction k as [|k IH]; intros n; cbn [popcount_at]; [lia|]. destruct (_ <=? _); [specialize (IH (n - 2 ^ Z.of_nat k))|specialize (IH n)]; lia. Qed.

Lemma locate_at_bounds (k : nat) : forall n i, 0 <= i < n -> n < 2 ^ Z.of_nat k ->
  let '(pk, h, j) := locate_at k n i in
  0 <= pk < popcount_at k n /\ 0 <= h < Z.of_nat k /\ 0 <= j < 2 ^ h.
Proof.
  induction k as [|k IH]; intros n i Hi Hn.
  - change (2 ^ Z.of_nat 0) with 1 in Hn. lia.
  - cbn [locate_at popcount_at]. rewrite p2_S in Hn. cbv zeta.
    destruct (Z.leb_spec (2 ^ Z.of_nat k) n).
    + destruct (Z.ltb_spec i (2 ^ Z.of_nat k)).
      * pose proof (popcount_at_nonneg k (n - 2 ^ Z.of_nat k)). lia.
      * specialize (IH (n - 2 ^ Z.of_nat k) (i - 2 ^ Z.of_nat k) ltac:(lia) ltac:(lia)).
        destruct (locate_at k (n - 2 ^ Z.of_nat k) (i - 2 ^ Z.of_nat k)) as [[pk h] j]. lia.
    + specialize (IH n i ltac:(lia) ltac:(lia)).
      destruct (locate_at k n i) as [[pk h] j]. lia.
Qed.

Lemma li_mt_pk_top (k : nat) i n : 0 <= i < 2 ^ Z.of_nat k -> 2 ^ Z.of_nat k <= n < 2 * 2 ^ Z.of_nat k ->
  li_mt_pk i n = Some (2 ^ Z.of_nat k + i, 0).
Proof.
  intros Hi Hn. unfold li_mt_pk.
  destruct (Z.ltb_spec i n); [|lia].
  set (r := n - 2 ^ Z.of_nat k). replace n with (2 ^ Z.of_nat k + r) by (unfold r; lia).
  assert (Hr : 0 <= r < 2 ^ Z.of_nat k) by (unfold r; lia).
  rewrite lxor_top_one by lia.
  rewrite log2_pow2_add by (apply lxor_small; lia).
  rewrite (Z.land_comm _ i). rewrite !land_mask by lia.
  rewrite (Z.mod_small i) by lia.
  replace ((2 ^ Z.of_nat k + r) mod 2 ^ Z.of_nat k) with r.
  2:{ rewrite Z.add_comm. rewrite <- (Z.mul_1_l (2 ^ Z.of_nat k)) at 1. rewrite Z.mod_add by lia.
      symmetry. apply Z.mod_small. lia. }
  rewrite co_pow2_add by lia. f_equal. f_equal; lia.
Qed.

Lemma mod_pow2_add (k : nat) h x : 0 <= h <= Z.of_nat k -> (2 ^ Z.of_nat k + x) mod 2 ^ h = x mod 2 ^ h.
Proof.
  intros Hh. replace (2 ^ Z.of_nat k) with (2 ^ (Z.of_nat k - h) * 2 ^ h).
  2:{ rewrite <- Z.pow_add_r by lia. f_equal. lia. }
  rewrite Z.add_comm. apply Z.mod_add. pose proof (p2_pos h). lia.
Qed.

Lemma li_mt_pk_shift (k : nat) i n : 0 <= i < n -> n < 2 ^ Z.of_nat k ->
  li_mt_pk (2 ^ Z.of_nat k + i) (2 ^ Z.of_nat k + n) =
  match li_mt_pk i n with Some (mt, pk) => Some (mt, pk + 1) | None => None end.
Proof.
  intros Hi Hn. unfold li_mt_pk.
  destruct (Z.ltb_spec (2 ^ Z.of_nat k + i) (2 ^ Z.of_nat k + n)); [|lia].
  destruct (Z.ltb_spec i n); [|lia].
  rewrite lxor_top_both by lia.
  set (x := Z.lxor i n).
  assert (Hx : 0 < x < 2 ^ Z.of_nat k).
  { pose proof (lxor_small k i n ltac:(lia) ltac:(lia)). 
    assert (x <> 0) by (unfold x; intros E; apply Z.lxor_eq in E; lia). unfold x in *. lia. }
  assert (Hh : 0 <= Z.log2 x < Z.of_nat k).
  { split; [apply Z.log2_nonneg|]. apply Z.log2_lt_pow2; lia. }
  rewrite !(Z.land_comm (2 ^ Z.log2 x - 1)). rewrite !land_mask by lia.
  rewrite !mod_pow2_add by lia.
  rewrite co_pow2_add by lia. f_equal. f_equal. lia.
Qed.

Lemma li_mt_pk_locate (k : nat) : forall n i, 0 <= i < n -> n < 2 ^ Z.of_nat k ->
  li_mt_pk i n = Some (let '(pk, h, j) := locate_at k n i in (2 ^ h + j, pk)).
Proof.
  induction k as [|k IH]; intros n i Hi Hn.
  - change (2 ^ Z.of_nat 0) with 1 in Hn. lia.
  - cbn [locate_at]. rewrite p2_S in Hn. cbv zeta.
    destruct (Z.leb_spec (2 ^ Z.of_nat k) n).
    + destruct (Z.ltb_spec i (2 ^ Z.of_nat k)).
      * apply li_mt_pk_top; lia.
      * replace i with (2 ^ Z.of_nat k + (i - 2 ^ Z.of_nat k)) at 1 by lia.
        replace n with (2 ^ Z.of_nat k + (n - 2 ^ Z.of_nat k)) at 1 by lia.
        rewrite li_mt_pk_shift by lia. rewrite IH by lia.
        destruct (locate_at k (n - 2 ^ Z.of_nat k) (i - 2 ^ Z.of_nat k)) as [[pk h] j]. reflexivity.
    + apply IH; lia.
Qed.

Lemma li_mt_pk_spec n i : 0 <= i < n -> n < 2 ^ 64 ->
  li_mt_pk i n = Some (let '(pk, h, j) := locate n i in (2 ^ h + j, pk)).
Proof. intros. unfold locate. apply (li_mt_pk_locate 64); assumption. Qed.

Lemma li_mt_pk_none n i : n <= i -> li_mt_pk i n = None.
Proof. intros. unfold li_mt_pk. destruct (Z.ltb_spec i n); [lia|reflexivity]. Qed.
