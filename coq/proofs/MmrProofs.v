(* MmrProofs.v - lemmas about the MMR model (Mmr.v, MmrIdxLocal.v) against the specification (MmrSpec.v). *)
From Coq Require Import ZArith List Bool Lia.
From TF Require Import Word MmrIdxLocal Mmr MmrSpec MmrTerm.
Import ListNotations.
Open Scope Z_scope.
Ltac Zify.zify_post_hook ::= Z.div_mod_to_equations.

(* ------------------------------------------------------------------------------------------ bagging *)
Section Bag.
Variable D : Type.
Variable H : D -> D -> D.
Variable hash0 : D.

Lemma bag_spec_cons : forall p q r, bag_spec D H hash0 (p :: q :: r) = H p (bag_spec D H hash0 (q :: r)).
Proof. reflexivity. Qed.

Lemma bag_fold : forall rest tl, tl <> [] ->
  fold_left (fun acc peak => H peak acc) rest (bag_spec D H hash0 tl) = bag_spec D H hash0 (rev rest ++ tl).
Proof.
  induction rest as [|x rest IH]; intros tl Htl; [reflexivity|].
  cbn [fold_left rev]. rewrite <- app_assoc. cbn [app].
  rewrite <- (IH (x :: tl)) by discriminate.
  destruct tl as [|y tl']; [contradiction|]. reflexivity.
Qed.

Lemma bag_peaks_spec : forall peaks, bag_peaks D H hash0 peaks = bag_spec D H hash0 peaks.
Proof.
  intros peaks. unfold bag_peaks.
  destruct (rev peaks) as [|lp [|sl rest]] eqn:E.
  - apply (f_equal (@rev D)) in E. rewrite rev_involutive in E. subst. reflexivity.
  - apply (f_equal (@rev D)) in E. rewrite rev_involutive in E. subst. reflexivity.
  - apply (f_equal (@rev D)) in E. rewrite rev_involutive in E. subst peaks.
    cbn [rev]. rewrite <- app_assoc. cbn [app].
    change (H sl lp) with (bag_spec D H hash0 [sl; lp]).
    apply bag_fold. discriminate.
Qed.

Lemma bag_peaks_cases :
  bag_peaks D H hash0 [] = hash0 /\
  (forall p, bag_peaks D H hash0 [p] = p) /\
  (forall p q r, bag_peaks D H hash0 (p :: q :: r) = H p (bag_peaks D H hash0 (q :: r))).
Proof.
  split; [reflexivity|]. split; [reflexivity|].
  intros. rewrite !bag_peaks_spec. reflexivity.
Qed.
End Bag.

(* ------------------------------------------------------------------------------------------ C12: the unrepaired verify *)
(* The code as it is (sp_verify_v0) on an old accumulator whose peak list disagrees with its leaf count. *)
Lemma sp_verify_v0_panics :
  sp_verify_v0 term Node term_eqb Dflt [] (1, [Atom 0; Atom 5]) (1, [Atom 0]) = None.
Proof. vm_compute. reflexivity. Qed.

Lemma sp_verify_v0_accepts :
  sp_verify_v0 term Node term_eqb Dflt [] (1, []) (1, [Atom 0]) = Some true.
Proof. vm_compute. reflexivity. Qed.

Lemma sp_verify_v1_rejects_both :
  sp_verify_v1 term Node term_eqb Dflt [] (1, [Atom 0; Atom 5]) (1, [Atom 0]) = Some false /\
  sp_verify_v1 term Node term_eqb Dflt [] (1, []) (1, [Atom 0]) = Some false.
Proof. vm_compute. split; reflexivity. Qed.

(* ------------------------------------------------------------------------------------------ index functions *)
From TF Require Import MmrBits.

Lemma rll_leaf_spec n : 0 <= n -> n + 1 < 2 ^ 64 -> rll_leaf n = Some (tz (n + 1)).
Proof.
  intros Hn Hlt. unfold rll_leaf, two64.
  change 18446744073709551616 with (2 ^ 64).
  destruct (Z.ltb_spec (n + 1) (2 ^ 64)) as [_|]; [|lia].
  replace n with ((n + 1) - 1) at 2 by lia.
  rewrite land_wnot by lia. f_equal.
  pose proof (tz_nonneg (n + 1)) as Ht.
  unfold leading_zeros, bitlen.
  pose proof (p2_pos (tz (n + 1)) Ht).
  destruct (Z.eqb_spec (2 ^ tz (n + 1)) 0); [lia|].
  rewrite Z.log2_pow2 by lia. lia.
Qed.

Lemma popcount_at_spec (k : nat) : forall n, 0 <= n < 2 ^ Z.of_nat k -> count_ones n = popcount_at k n.
Proof.
  induction k as [|k IH]; intros n Hn.
  - change (2 ^ Z.of_nat 0) with 1 in Hn. assert (n = 0) by lia. subst. reflexivity.
  - cbn [popcount_at]. rewrite p2_S in Hn.
    destruct (Z.leb_spec (2 ^ Z.of_nat k) n).
    + replace n with (2 ^ Z.of_nat k + (n - 2 ^ Z.of_nat k)) at 1 by lia.
      rewrite co_pow2_add by lia. rewrite IH by lia. reflexivity.
    + apply IH. lia.
Qed.

Lemma num_peaks_spec n : 0 <= n < 2 ^ 64 -> count_ones n = num_peaks n.
Proof. intros. unfold num_peaks. apply (popcount_at_spec 64). exact H. Qed.

Lemma popcount_at_nonneg (k : nat) : forall n, 0 <= popcount_at k n.
Proof. induction k as [|k IH]; intros n; cbn [popcount_at]; [lia|]. destruct (_ <=? _); [specialize (IH (n - 2 ^ Z.of_nat k))|specialize (IH n)]; lia. Qed.

Lemma locate_at_bounds (k : nat) : forall n i, 0 <= i < n -> n < 2 ^ Z.of_nat k ->
  let '(pk, h, j) := locate_at k n i in
  0 <= pk < popcount_at k n /\ 0 <= h < Z.of_nat k /\ 0 <= j < 2 ^ h.
Proof.
  induction k as [|k IH]; intros n i Hi Hn.
  - change (2 ^ Z.of_nat 0) with 1 in Hn. lia.
  - cbn [locate_at popcount_at]. rewrite p2_S in Hn. cbv zeta.
    destruct (Z.leb_spec (2 ^ Z.of_nat k) n).
    + destruct (Z.ltb_spec i (2 ^ Z.of_nat k)).
      * pose proof (popcount_at_nonneg k (n - 2 ^ Z.of_nat k)). lia.
      * specialize (IH (n - 2 ^ Z.of_nat k) (i - 2 ^ Z.of_nat k) ltac:(lia) ltac:(lia)).
        destruct (locate_at k (n - 2 ^ Z.of_nat k) (i - 2 ^ Z.of_nat k)) as [[pk h] j]. lia.
    + specialize (IH n i ltac:(lia) ltac:(lia)).
      destruct (locate_at k n i) as [[pk h] j]. lia.
Qed.

Lemma li_mt_pk_top (k : nat) i n : 0 <= i < 2 ^ Z.of_nat k -> 2 ^ Z.of_nat k <= n < 2 * 2 ^ Z.of_nat k ->
  li_mt_pk i n = Some (2 ^ Z.of_nat k + i, 0).
Proof.
  intros Hi Hn. unfold li_mt_pk.
  destruct (Z.ltb_spec i n); [|lia].
  set (r := n - 2 ^ Z.of_nat k). replace n with (2 ^ Z.of_nat k + r) by (unfold r; lia).
  assert (Hr : 0 <= r < 2 ^ Z.of_nat k) by (unfold r; lia).
  rewrite lxor_top_one by lia.
  rewrite log2_pow2_add by (apply lxor_small; lia).
  rewrite (Z.land_comm _ i). rewrite !land_mask by lia.
  rewrite (Z.mod_small i) by lia.
  replace ((2 ^ Z.of_nat k + r) mod 2 ^ Z.of_nat k) with r.
  2:{ rewrite Z.add_comm. rewrite <- (Z.mul_1_l (2 ^ Z.of_nat k)) at 1. rewrite Z.mod_add by lia.
      symmetry. apply Z.mod_small. lia. }
  rewrite co_pow2_add by lia. f_equal. f_equal; lia.
Qed.

Lemma mod_pow2_add (k : nat) h x : 0 <= h <= Z.of_nat k -> (2 ^ Z.of_nat k + x) mod 2 ^ h = x mod 2 ^ h.
Proof.
  intros Hh. replace (2 ^ Z.of_nat k) with (2 ^ (Z.of_nat k - h) * 2 ^ h).
  2:{ rewrite <- Z.pow_add_r by lia. f_equal. lia. }
  rewrite Z.add_comm. apply Z.mod_add. pose proof (p2_pos h). lia.
Qed.

Lemma li_mt_pk_shift (k : nat) i n : 0 <= i < n -> n < 2 ^ Z.of_nat k ->
  li_mt_pk (2 ^ Z.of_nat k + i) (2 ^ Z.of_nat k + n) =
  match li_mt_pk i n with Some (mt, pk) => Some (mt, pk + 1) | None => None end.
Proof.
  intros Hi Hn. unfold li_mt_pk.
  destruct (Z.ltb_spec (2 ^ Z.of_nat k + i) (2 ^ Z.of_nat k + n)); [|lia].
  destruct (Z.ltb_spec i n); [|lia].
  rewrite lxor_top_both by lia.
  set (x := Z.lxor i n).
  assert (Hx : 0 < x < 2 ^ Z.of_nat k).
  { pose proof (lxor_small k i n ltac:(lia) ltac:(lia)). 
    assert (x <> 0) by (unfold x; intros E; apply Z.lxor_eq in E; lia). unfold x in *. lia. }
  assert (Hh : 0 <= Z.log2 x < Z.of_nat k).
  { split; [apply Z.log2_nonneg|]. apply Z.log2_lt_pow2; lia. }
  rewrite !(Z.land_comm (2 ^ Z.log2 x - 1)). rewrite !land_mask by lia.
  rewrite !mod_pow2_add by lia.
  rewrite co_pow2_add by lia. f_equal. f_equal. lia.
Qed.

Lemma li_mt_pk_locate (k : nat) : forall n i, 0 <= i < n -> n < 2 ^ Z.of_nat k ->
  li_mt_pk i n = Some (let '(pk, h, j) := locate_at k n i in (2 ^ h + j, pk)).
Proof.
  induction k as [|k IH]; intros n i Hi Hn.
  - change (2 ^ Z.of_nat 0) with 1 in Hn. lia.
  - cbn [locate_at]. rewrite p2_S in Hn. cbv zeta.
    destruct (Z.leb_spec (2 ^ Z.of_nat k) n).
    + destruct (Z.ltb_spec i (2 ^ Z.of_nat k)).
      * apply li_mt_pk_top; lia.
      * replace i with (2 ^ Z.of_nat k + (i - 2 ^ Z.of_nat k)) at 1 by lia.
        replace n with (2 ^ Z.of_nat k + (n - 2 ^ Z.of_nat k)) at 1 by lia.
        rewrite li_mt_pk_shift by lia. rewrite IH by lia.
        destruct (locate_at k (n - 2 ^ Z.of_nat k) (i - 2 ^ Z.of_nat k)) as [[pk h] j]. reflexivity.
    + apply IH; lia.
Qed.

Lemma li_mt_pk_spec n i : 0 <= i < n -> n < 2 ^ 64 ->
  li_mt_pk i n = Some (let '(pk, h, j) := locate n i in (2 ^ h + j, pk)).
Proof. intros. unfold locate. apply (li_mt_pk_locate 64); assumption. Qed.

Lemma li_mt_pk_none n i : n <= i -> li_mt_pk i n = None.
Proof. intros. unfold li_mt_pk. destruct (Z.ltb_spec i n); [lia|reflexivity]. Qed.

(* ------------------------------------------------------------------------------------------ C12: verify *)
Lemma skipn_nth {A : Type} (d : A) : forall (l : list A) (a : nat), (a < length l)%nat ->
  skipn a l = nth a l d :: skipn (S a) l.
Proof.
  induction l as [|x l IH]; intros a Ha; cbn [length] in Ha; [lia|].
  destruct a as [|a]; [reflexivity|]. cbn [skipn nth]. apply IH. lia.
Qed.

Lemma skipn_add {A : Type} : forall (b a : nat) (l : list A), skipn a (skipn b l) = skipn (b + a) l.
Proof.
  induction b as [|b IH]; intros a l; [reflexivity|].
  destruct l as [|x l]; [cbn; destruct a; reflexivity|]. cbn [skipn Nat.add]. apply IH.
Qed.

Lemma locate_aligned (K : nat) : forall nc off (k : nat), 0 <= off -> off mod 2 ^ Z.of_nat k = 0 ->
  off + 2 ^ Z.of_nat k <= nc -> nc < 2 ^ Z.of_nat K ->
  let '(pk, hh, j) := locate_at K nc off in Z.of_nat k <= hh /\ j mod 2 ^ Z.of_nat k = 0.
Proof.
  induction K as [|K IH]; intros nc off k Hoff Hal Hle Hnc.
  - change (2 ^ Z.of_nat 0) with 1 in Hnc. pose proof (p2_nat_pos k). lia.
  - cbn [locate_at]. cbv zeta. rewrite p2_S in Hnc. pose proof (p2_nat_pos k) as Hkp.
    destruct (Z.leb_spec (2 ^ Z.of_nat K) nc).
    + destruct (Z.ltb_spec off (2 ^ Z.of_nat K)).
      * split; [|exact Hal].
        destruct (Z.le_gt_cases (Z.of_nat k) (Z.of_nat K)) as [|Hgt]; [assumption|].
        assert (2 ^ (Z.of_nat K + 1) <= 2 ^ Z.of_nat k) by (apply p2_le; lia).
        rewrite p2_succ in * by lia. lia.
      * assert (Hk : Z.of_nat k < Z.of_nat K).
        { destruct (Z.lt_ge_cases (Z.of_nat k) (Z.of_nat K)) as [|Hge]; [assumption|].
          assert (2 ^ Z.of_nat K <= 2 ^ Z.of_nat k) by (apply p2_le; lia). lia. }
        assert (Hdiv : (2 ^ Z.of_nat K) mod 2 ^ Z.of_nat k = 0).
        { replace (2 ^ Z.of_nat K) with (2 ^ (Z.of_nat K - Z.of_nat k) * 2 ^ Z.of_nat k).
          - apply Z.mod_mul. lia.
          - rewrite <- Z.pow_add_r by lia. f_equal. lia. }
        specialize (IH (nc - 2 ^ Z.of_nat K) (off - 2 ^ Z.of_nat K) k ltac:(lia)).
        destruct (locate_at K (nc - 2 ^ Z.of_nat K) (off - 2 ^ Z.of_nat K)) as [[pk hh] j].
        apply IH; try lia.
        rewrite Zminus_mod. rewrite Hal, Hdiv. reflexivity.
    + specialize (IH nc off k Hoff Hal Hle ltac:(lia)).
      destruct (locate_at K nc off) as [[pk hh] j]. exact IH.
Qed.


Lemma locate_bounds n i : 0 <= i < n -> n < 2 ^ 64 ->
  let '(pk, h, j) := locate n i in 0 <= pk < num_peaks n /\ 0 <= h < 64 /\ 0 <= j < 2 ^ h.
Proof. intros Hi Hn. exact (locate_at_bounds 64 n i Hi Hn). Qed.

Lemma locate_aligned64 nc off (k : nat) : 0 <= off -> off mod 2 ^ Z.of_nat k = 0 ->
  off + 2 ^ Z.of_nat k <= nc -> nc < 2 ^ 64 ->
  let '(pk, hh, j) := locate nc off in Z.of_nat k <= hh /\ j mod 2 ^ Z.of_nat k = 0.
Proof. intros. exact (locate_aligned 64 nc off k H H0 H1 H2). Qed.

Lemma num_peaks_at n : num_peaks n = popcount_at 64 n.
Proof. reflexivity. Qed.

Lemma locate_at64 n i : locate n i = locate_at 64 n i.
Proof. reflexivity. Qed.

Opaque locate num_peaks.

Lemma len_u32_some {D : Type} (l : list D) : zlen l < 2 ^ 32 -> len_u32 l = Some (zlen l).
Proof.
  intros Hl. unfold len_u32. change (2 ^ 32) with 4294967296 in Hl.
  destruct (Z.ltb_spec (zlen l) 4294967296); [reflexivity|lia].
Qed.


Section Succ.
Variable D : Type.
Variable H : D -> D -> D.
Variable deq : D -> D -> bool.
Variable dflt : D.

Lemma sp_climb_snd : forall n idx node paths ap,
  snd (sp_climb D H dflt n idx node paths ap) = ap + Z.of_nat n.
Proof.
  induction n as [|n IH]; intros; cbn [sp_climb]; [cbn; lia|]. rewrite IH. lia.
Qed.

Lemma sp_climb_spec : forall n x node paths ap, 0 <= x < 2 ^ Z.of_nat n -> 0 <= ap ->
  ap + Z.of_nat n <= zlen paths ->
  sp_climb D H dflt n (2 ^ Z.of_nat n + x) node paths ap =
  (fold_up D H x node (firstn n (skipn (Z.to_nat ap) paths)), ap + Z.of_nat n).
Proof.
  induction n as [|n IH]; intros x node paths ap Hx Hap Hlen.
  - cbn. f_equal. lia.
  - cbn [sp_climb]. rewrite p2_S in *. unfold zlen in Hlen.
    rewrite (skipn_nth dflt paths (Z.to_nat ap)) by lia.
    cbn [firstn fold_up].
    replace ((2 * 2 ^ Z.of_nat n + x) / 2) with (2 ^ Z.of_nat n + x / 2) by lia.
    replace (Z.land (2 * 2 ^ Z.of_nat n + x) 1 =? 0) with (Z.even x).
    2:{ change 1 with (2 ^ 1 - 1). rewrite land_mask by lia. change (2 ^ 1) with 2.
        rewrite Z.add_comm, Z.mul_comm, Z.mod_add by lia. rewrite Zmod_even. destruct (Z.even x); reflexivity. }
    rewrite IH.
    + replace (Z.to_nat (ap + 1)) with (S (Z.to_nat ap)) by lia. f_equal. lia.
    + split; [apply Z.div_pos; lia | apply Z.div_lt_upper_bound; lia].
    + lia.
    + unfold zlen. lia.
Qed.

Variable nc : Z.
Variable np : list D.
Hypothesis Hnc : 0 <= nc < 2 ^ 64.
Hypothesis Hnp : zlen np = num_peaks nc.

Lemma loop_step_A (k : nat) rem offset :
  2 ^ Z.of_nat k <= rem < 2 * 2 ^ Z.of_nat k -> 0 <= offset -> offset mod 2 ^ Z.of_nat k = 0 ->
  offset + rem <= nc ->
  exists npk hh j, locate nc offset = (npk, hh, j) /\
    0 <= npk < zlen np /\ 0 <= j /\
    Z.of_nat k <= hh /\ 0 <= j / 2 ^ Z.of_nat k < 2 ^ (hh - Z.of_nat k).
Proof.
  intros Hrem Hoff Hal Hle.
  pose proof (p2_nat_pos k) as Hkp.
  pose proof (locate_bounds nc offset ltac:(lia) ltac:(lia)) as Hb.
  pose proof (locate_aligned64 nc offset k Hoff Hal ltac:(lia) ltac:(lia)) as Ha.
  destruct (locate nc offset) as [[npk hh] j].
  exists npk, hh, j. split; [reflexivity|].
  destruct Hb as (Hpk & Hhh & Hj). destruct Ha as (Hkh & Hjm).
  assert (E2 : 2 ^ hh = 2 ^ (hh - Z.of_nat k) * 2 ^ Z.of_nat k).
  { rewrite <- Z.pow_add_r by lia. f_equal. lia. }
  split; [lia|]. split; [lia|]. split; [exact Hkh|].
  split; [apply Z.div_pos; lia|]. apply Z.div_lt_upper_bound; [lia|]. rewrite Z.mul_comm. rewrite <- E2. lia.
Qed.

Lemma loop_step_B (k : nat) pk r rem offset ap paths npk hh j :
  2 ^ Z.of_nat k <= rem < 2 * 2 ^ Z.of_nat k -> 0 <= offset ->
  offset + rem <= nc ->
  li_mt_pk offset nc = Some (2 ^ hh + j, npk) ->
  0 <= npk < zlen np -> 0 <= j ->
  Z.of_nat k <= hh -> 0 <= j / 2 ^ Z.of_nat k < 2 ^ (hh - Z.of_nat k) ->
  sp_verify_loop D H deq dflt (pk :: r) rem offset ap paths nc np =
  (let '(node, ap') := sp_climb D H dflt (Z.to_nat (hh - Z.of_nat k)) (2 ^ (hh - Z.of_nat k) + j / 2 ^ Z.of_nat k) pk paths ap in
   if negb (deq (nth (Z.to_nat npk) np dflt) node) then Some false
   else sp_verify_loop D H deq dflt r (rem - 2 ^ Z.of_nat k) (offset + 2 ^ Z.of_nat k) ap' paths nc np).
Proof.
  intros Hrem Hoff Hle Hli Hpk Hj Hkh Hq.
  pose proof (p2_nat_pos k) as Hkp.
  assert (E2 : 2 ^ hh = 2 ^ (hh - Z.of_nat k) * 2 ^ Z.of_nat k).
  { rewrite <- Z.pow_add_r by lia. f_equal. lia. }
  assert (El : Z.log2 rem = Z.of_nat k).
  { apply Z.log2_unique; [lia|]. rewrite Z.pow_succ_r by lia. lia. }
  assert (Hadd : add64 offset (2 ^ Z.of_nat k) = Some (offset + 2 ^ Z.of_nat k)).
  { unfold add64, two64. change (2 ^ 64) with 18446744073709551616 in Hnc.
    destruct (Z.ltb_spec (offset + 2 ^ Z.of_nat k) 18446744073709551616); [reflexivity|lia]. }
  assert (Ecur : (2 ^ hh + j) / 2 ^ Z.of_nat k = 2 ^ (hh - Z.of_nat k) + j / 2 ^ Z.of_nat k).
  { rewrite E2. rewrite Z.div_add_l by lia. reflexivity. }
  pose proof (p2_pos (hh - Z.of_nat k) ltac:(lia)) as Hpp.
  assert (Elog : Z.log2 (2 ^ (hh - Z.of_nat k) + j / 2 ^ Z.of_nat k) = hh - Z.of_nat k).
  { apply Z.log2_unique; [lia|]. rewrite Z.pow_succ_r by lia. lia. }
  assert (Hnth : nth_error np (Z.to_nat npk) = Some (nth (Z.to_nat npk) np dflt)).
  { apply nth_error_nth'. unfold zlen in Hpk. lia. }
  cbn [sp_verify_loop].
  destruct (Z.leb_spec rem 0); [lia|].
  rewrite El. rewrite Hli. cbn [obind]. rewrite Hadd. cbn [obind]. rewrite Ecur.
  destruct (Z.leb_spec (2 ^ (hh - Z.of_nat k) + j / 2 ^ Z.of_nat k) 0); [lia|].
  rewrite Elog.
  destruct (sp_climb D H dflt (Z.to_nat (hh - Z.of_nat k)) (2 ^ (hh - Z.of_nat k) + j / 2 ^ Z.of_nat k) pk paths ap) as [node ap'].
  rewrite Hnth. cbn [obind]. reflexivity.
Qed.

Lemma locate_facts (k : nat) rem offset :
  2 ^ Z.of_nat k <= rem < 2 * 2 ^ Z.of_nat k -> 0 <= offset -> offset mod 2 ^ Z.of_nat k = 0 ->
  offset + rem <= nc ->
  exists npk hh j, locate nc offset = (npk, hh, j) /\
    li_mt_pk offset nc = Some (2 ^ hh + j, npk) /\ 0 <= npk < zlen np /\ 0 <= j /\
    Z.of_nat k <= hh /\ 0 <= j / 2 ^ Z.of_nat k < 2 ^ (hh - Z.of_nat k).
Proof.
  intros Hrem Hoff Hal Hle.
  destruct (loop_step_A k rem offset Hrem Hoff Hal Hle) as (npk & hh & j & Eloc & Hrest).
  exists npk, hh, j. split; [exact Eloc|]. split; [|exact Hrest].
  pose proof (p2_nat_pos k) as Hkp.
  pose proof (li_mt_pk_spec nc offset ltac:(lia) ltac:(lia)) as Hli.
  rewrite Eloc in Hli. exact Hli.
Qed.

Lemma mod_pow2_down (k : nat) x : x mod (2 * 2 ^ Z.of_nat k) = 0 -> x mod 2 ^ Z.of_nat k = 0.
Proof.
  intros Hx. pose proof (p2_nat_pos k).
  apply Z.mod_divide in Hx; [|lia]. destruct Hx as [q Hq].
  subst x. replace (q * (2 * 2 ^ Z.of_nat k)) with ((q * 2) * 2 ^ Z.of_nat k) by lia. apply Z.mod_mul. lia.
Qed.

Lemma mod_pow2_step (k : nat) x : x mod (2 * 2 ^ Z.of_nat k) = 0 -> (x + 2 ^ Z.of_nat k) mod 2 ^ Z.of_nat k = 0.
Proof.
  intros Hx. apply mod_pow2_down in Hx. pose proof (p2_nat_pos k).
  rewrite <- (Z.mul_1_l (2 ^ Z.of_nat k)) at 1. rewrite Z.mod_add by lia. exact Hx.
Qed.

Lemma zlen_cons_inv (l : list D) n : zlen l = 1 + n -> 0 <= n -> exists x r, l = x :: r /\ zlen r = n.
Proof.
  intros Hl Hn. destruct l as [|x r]; unfold zlen in *; cbn [length] in *; [lia|].
  exists x, r. split; [reflexivity|lia].
Qed.

Lemma loop_total (k : nat) : forall old_peaks rem offset ap paths,
  0 <= rem < 2 ^ Z.of_nat k -> zlen old_peaks = popcount_at k rem -> 0 <= offset ->
  offset mod 2 ^ Z.of_nat k = 0 -> offset + rem <= nc -> 0 <= ap ->
  exists b, sp_verify_loop D H deq dflt old_peaks rem offset ap paths nc np = Some b /\
            (zlen paths < ap -> b = false).
Proof.
  induction k as [|k IH]; intros old_peaks rem offset ap paths Hrem Hlen Hoff Hal Hle Hap.
  - change (2 ^ Z.of_nat 0) with 1 in Hrem. cbn [popcount_at] in Hlen.
    destruct old_peaks; [|unfold zlen in Hlen; cbn [length] in Hlen; lia].
    cbn [sp_verify_loop]. eexists. split; [reflexivity|].
    intros Hlt. apply Z.eqb_neq. lia.
  - rewrite p2_S in *. cbn [popcount_at] in Hlen. cbv zeta in Hlen.
    destruct (Z.leb_spec (2 ^ Z.of_nat k) rem) as [Hge|Hlt].
    + pose proof (popcount_at_nonneg k (rem - 2 ^ Z.of_nat k)) as Hpn.
      destruct (zlen_cons_inv _ _ Hlen Hpn) as (pk & r & -> & Hr).
      pose proof (mod_pow2_down k offset Hal) as Hal'.
      destruct (locate_facts k rem offset ltac:(lia) Hoff Hal' Hle) as (npk & hh & j & Eloc & Hli & Hpk & Hj & Hkh & Hq).
      rewrite (loop_step_B k pk r rem offset ap paths npk hh j); try lia; try assumption.
      pose proof (sp_climb_snd (Z.to_nat (hh - Z.of_nat k)) (2 ^ (hh - Z.of_nat k) + j / 2 ^ Z.of_nat k) pk paths ap) as Hsnd.
      destruct (sp_climb D H dflt (Z.to_nat (hh - Z.of_nat k)) (2 ^ (hh - Z.of_nat k) + j / 2 ^ Z.of_nat k) pk paths ap) as [node ap'].
      cbn [snd] in Hsnd.
      destruct (negb (deq (nth (Z.to_nat npk) np dflt) node)).
      * eexists. split; [reflexivity|]. reflexivity.
      * destruct (IH r (rem - 2 ^ Z.of_nat k) (offset + 2 ^ Z.of_nat k) ap' paths) as (b & Hb1 & Hb2); try lia.
        { apply mod_pow2_step. exact Hal. }
        exists b. split; [exact Hb1|]. intros. apply Hb2. lia.
    + apply IH; try lia; try assumption. apply mod_pow2_down. exact Hal.
Qed.

Lemma skipn_nil_iff (l : list D) (a : nat) : (a <= length l)%nat -> (skipn a l = [] <-> a = length l).
Proof.
  intros Ha. split; intros E.
  - pose proof (skipn_length a l) as Hs. rewrite E in Hs. cbn in Hs. lia.
  - subst. apply skipn_all.
Qed.

Lemma succ_loop_nil (k : nat) : forall offset ps,
  succ_loop D H deq dflt k [] 0 offset ps nc np = match ps with [] => true | _ => false end.
Proof.
  induction k as [|k IH]; intros; [reflexivity|].
  cbn [succ_loop]. cbv zeta. pose proof (p2_nat_pos k).
  destruct (Z.leb_spec (2 ^ Z.of_nat k) 0); [lia|]. apply IH.
Qed.

Lemma loop_spec (k : nat) : forall old_peaks rem offset ap paths,
  0 <= rem < 2 ^ Z.of_nat k -> zlen old_peaks = popcount_at k rem -> 0 <= offset ->
  offset mod 2 ^ Z.of_nat k = 0 -> offset + rem <= nc -> 0 <= ap <= zlen paths ->
  sp_verify_loop D H deq dflt old_peaks rem offset ap paths nc np =
  Some (succ_loop D H deq dflt k old_peaks rem offset (skipn (Z.to_nat ap) paths) nc np).
Proof.
  induction k as [|k IH]; intros old_peaks rem offset ap paths Hrem Hlen Hoff Hal Hle Hap.
  - change (2 ^ Z.of_nat 0) with 1 in Hrem. cbn [popcount_at] in Hlen.
    destruct old_peaks; [|unfold zlen in Hlen; cbn [length] in Hlen; lia].
    cbn [sp_verify_loop succ_loop]. f_equal. unfold zlen in *.
    pose proof (skipn_nil_iff paths (Z.to_nat ap) ltac:(lia)) as Hs.
    destruct (skipn (Z.to_nat ap) paths) eqn:E.
    + apply Z.eqb_eq. destruct Hs as [Hs _]. specialize (Hs eq_refl). lia.
    + apply Z.eqb_neq. intros Heq. destruct Hs as [_ Hs]. assert (Hnil : d :: l = []) by (apply Hs; lia). discriminate Hnil.
  - rewrite p2_S in *. cbn [popcount_at] in Hlen. cbv zeta in Hlen.
    cbn [succ_loop]. cbv zeta.
    destruct (Z.leb_spec (2 ^ Z.of_nat k) rem) as [Hge|Hlt].
    + pose proof (popcount_at_nonneg k (rem - 2 ^ Z.of_nat k)) as Hpn.
      destruct (zlen_cons_inv _ _ Hlen Hpn) as (pk & r & -> & Hr).
      pose proof (mod_pow2_down k offset Hal) as Hal'.
      destruct (locate_facts k rem offset ltac:(lia) Hoff Hal' Hle) as (npk & hh & j & Eloc & Hli & Hpk & Hj & Hkh & Hq).
      rewrite (loop_step_B k pk r rem offset ap paths npk hh j); try lia; try assumption.
      rewrite Eloc.
      destruct (Z.leb_spec 0 (hh - Z.of_nat k)); [|lia]. cbn [andb].
      assert (Hzl : zlength (skipn (Z.to_nat ap) paths) = zlen paths - ap).
      { unfold zlength, zlen in *. rewrite skipn_length. lia. }
      rewrite Hzl.
      destruct (Z.leb_spec (hh - Z.of_nat k) (zlen paths - ap)) as [Henough|Hshort].
      * cbn [andb].
        replace (2 ^ (hh - Z.of_nat k)) with (2 ^ Z.of_nat (Z.to_nat (hh - Z.of_nat k))) by (f_equal; lia).
        rewrite sp_climb_spec; try lia.
        2:{ rewrite Z2Nat.id by lia. exact Hq. }
        destruct (deq (nth (Z.to_nat npk) np dflt)
                      (fold_up D H (j / 2 ^ Z.of_nat k) pk (firstn (Z.to_nat (hh - Z.of_nat k)) (skipn (Z.to_nat ap) paths)))).
        -- cbn [negb andb].
           rewrite IH; try lia; try assumption.
           ++ f_equal. f_equal. rewrite skipn_add. f_equal. lia.
           ++ apply mod_pow2_step. exact Hal.
        -- reflexivity.
      * cbn [andb].
        pose proof (sp_climb_snd (Z.to_nat (hh - Z.of_nat k)) (2 ^ (hh - Z.of_nat k) + j / 2 ^ Z.of_nat k) pk paths ap) as Hsnd.
        destruct (sp_climb D H dflt (Z.to_nat (hh - Z.of_nat k)) (2 ^ (hh - Z.of_nat k) + j / 2 ^ Z.of_nat k) pk paths ap) as [node ap'].
        cbn [snd] in Hsnd.
        destruct (negb (deq (nth (Z.to_nat npk) np dflt) node)); [reflexivity|].
        destruct (loop_total k r (rem - 2 ^ Z.of_nat k) (offset + 2 ^ Z.of_nat k) ap' paths) as (b & Hb1 & Hb2); try lia.
        { apply mod_pow2_step. exact Hal. }
        rewrite Hb1. f_equal. apply Hb2. lia.
    + apply IH; try lia; try assumption. apply mod_pow2_down. exact Hal.
Qed.

End Succ.

(* the repaired verify decides exactly the specification, and never panics *)
Theorem sp_verify_v1_spec (D : Type) (H : D -> D -> D) (deq : D -> D -> bool) (dflt : D)
        (sp : list D) (old new : Z * list D) :
  0 <= fst old < 2 ^ 64 -> 0 <= fst new < 2 ^ 64 -> zlen (snd old) < 2 ^ 32 -> zlen (snd new) < 2 ^ 32 ->
  sp_verify_v1 D H deq dflt sp old new = Some (succ_verify_spec D H deq dflt sp old new).
Proof.
  intros Ho Hn Hlo Hln. destruct old as [oc op], new as [nc np]. cbn [fst snd] in *.
  unfold sp_verify_v1, sp_verify_gen, succ_verify_spec. cbn [fst snd].
  rewrite Z.ltb_antisym.
  destruct (Z.leb_spec oc nc) as [Hle|Hgt]; [|reflexivity]. cbn [negb andb].
  rewrite (len_u32_some np Hln). cbn [obind].
  rewrite <- (num_peaks_spec nc Hn). change (zlength np) with (zlen np).
  rewrite (Z.eqb_sym (zlen np)).
  destruct (Z.eqb_spec (count_ones nc) (zlen np)) as [Enp|]; [|reflexivity]. cbn [negb andb].
  rewrite (len_u32_some op Hlo). cbn [obind].
  rewrite <- (num_peaks_spec oc Ho). change (zlength op) with (zlen op).
  rewrite (Z.eqb_sym (zlen op)).
  destruct (Z.eqb_spec (count_ones oc) (zlen op)) as [Eop|]; [|reflexivity]. cbn [negb andb].
  assert (Hnp : zlen np = num_peaks nc) by (rewrite <- Enp; apply num_peaks_spec; exact Hn).
  rewrite (loop_spec D H deq dflt nc np Hn Hnp 64 op oc 0 0 sp).
  - reflexivity.
  - exact Ho.
  - rewrite <- Eop. rewrite <- num_peaks_at. apply num_peaks_spec. exact Ho.
  - lia.
  - reflexivity.
  - lia.
  - unfold zlen. lia.
Qed.

Theorem sp_verify_v1_total (D : Type) (H : D -> D -> D) (deq : D -> D -> bool) (dflt : D)
        (sp : list D) (old new : Z * list D) :
  0 <= fst old < 2 ^ 64 -> 0 <= fst new < 2 ^ 64 -> zlen (snd old) < 2 ^ 32 -> zlen (snd new) < 2 ^ 32 ->
  sp_verify_v1 D H deq dflt sp old new <> None /\
  (zlen (snd old) <> count_ones (fst old) \/ zlen (snd new) <> count_ones (fst new) \/ fst new < fst old ->
   sp_verify_v1 D H deq dflt sp old new = Some false).
Proof.
  intros Ho Hn Hlo Hln. rewrite sp_verify_v1_spec by assumption. split; [discriminate|].
  intros Hbad. f_equal. unfold succ_verify_spec.
  rewrite <- (num_peaks_spec (fst new) Hn), <- (num_peaks_spec (fst old) Ho).
  change (zlength (snd new)) with (zlen (snd new)). change (zlength (snd old)) with (zlen (snd old)).
  destruct (Z.leb_spec (fst old) (fst new)); cbn [andb]; [|reflexivity].
  destruct (Z.eqb_spec (zlen (snd new)) (count_ones (fst new))); cbn [andb]; [|reflexivity].
  destruct (Z.eqb_spec (zlen (snd old)) (count_ones (fst old))); cbn [andb]; [|reflexivity].
  lia.
Qed.

(* on a consistent old accumulator the historical code and the repaired code coincide *)
Lemma sp_verify_v0_consistent (D : Type) (H : D -> D -> D) (deq : D -> D -> bool) (dflt : D)
      (sp : list D) (old new : Z * list D) :
  zlen (snd old) < 2 ^ 32 -> zlen (snd old) = count_ones (fst old) ->
  sp_verify_v0 D H deq dflt sp old new = sp_verify_v1 D H deq dflt sp old new.
Proof.
  intros Hl Hc. unfold sp_verify_v0, sp_verify_v1, sp_verify_gen.
  rewrite (len_u32_some (snd old) Hl). cbn [obind].
  rewrite Hc. rewrite Z.eqb_refl. reflexivity.
Qed.

(* ------------------------------------------------------------------------------------------ lists *)
Lemma pw_spec (k : nat) : Z.of_nat (pw k) = 2 ^ Z.of_nat k.
Proof. unfold pw. rewrite Z2Nat.id; [reflexivity|]. pose proof (p2_nat_pos k). lia. Qed.

Lemma zlength_app {A : Type} (a b : list A) : zlength (a ++ b) = zlength a + zlength b.
Proof. unfold zlength. rewrite app_length. lia. Qed.
Lemma zlength_nonneg {A : Type} (a : list A) : 0 <= zlength a.
Proof. unfold zlength. lia. Qed.
Lemma zlength_firstn {A : Type} (k : nat) (l : list A) : 2 ^ Z.of_nat k <= zlength l ->
  zlength (firstn (pw k) l) = 2 ^ Z.of_nat k.
Proof. intros Hl. unfold zlength in *. rewrite firstn_length. pose proof (pw_spec k). lia. Qed.
Lemma zlength_skipn {A : Type} (k : nat) (l : list A) : 2 ^ Z.of_nat k <= zlength l ->
  zlength (skipn (pw k) l) = zlength l - 2 ^ Z.of_nat k.
Proof. intros Hl. unfold zlength in *. rewrite skipn_length. pose proof (pw_spec k). lia. Qed.
Lemma firstn_app_l {A : Type} (k : nat) (l m : list A) : 2 ^ Z.of_nat k <= zlength l ->
  firstn (pw k) (l ++ m) = firstn (pw k) l.
Proof.
  intros Hl. rewrite firstn_app. unfold zlength in Hl. pose proof (pw_spec k).
  replace (pw k - length l)%nat with 0%nat by lia. cbn [firstn]. apply app_nil_r.
Qed.
Lemma skipn_app_l {A : Type} (k : nat) (l m : list A) : 2 ^ Z.of_nat k <= zlength l ->
  skipn (pw k) (l ++ m) = skipn (pw k) l ++ m.
Proof.
  intros Hl. rewrite skipn_app. unfold zlength in Hl. pose proof (pw_spec k).
  replace (pw k - length l)%nat with 0%nat by lia. reflexivity.
Qed.
Lemma firstn_all_eq {A : Type} (k : nat) (l : list A) : zlength l = 2 ^ Z.of_nat k -> firstn (pw k) l = l.
Proof. intros Hl. apply firstn_all2. unfold zlength in Hl. pose proof (pw_spec k). lia. Qed.
Lemma skipn_all_eq {A : Type} (k : nat) (l : list A) : zlength l = 2 ^ Z.of_nat k -> skipn (pw k) l = [].
Proof. intros Hl. apply skipn_all2. unfold zlength in Hl. pose proof (pw_spec k). lia. Qed.

(* ------------------------------------------------------------------------------------------ append *)
Section Append.
Variable D : Type.
Variable H : D -> D -> D.
Variable dflt : D.

Notation root := (root D H dflt).
Notation peaks_at := (peaks_at D H dflt).
Notation path_at := (path_at D H dflt).
Notation tree_path := (tree_path D H dflt).
Notation append_loop := (append_loop D H).

Lemma append_loop_eq t top rest :
  append_loop t top rest =
  if t =? 0 then Some (top :: rest, [])
  else match rest with
       | [] => None
       | prev :: rest' =>
         match append_loop (t - 1) (H prev top) rest' with
         | Some (st, ap) => Some (st, prev :: ap)
         | None => None
         end
       end.
Proof. destruct rest; reflexivity. Qed.

Lemma append_loop_app_r : forall s t top st ap x,
  append_loop t top s = Some (st, ap) -> append_loop t top (s ++ x) = Some (st ++ x, ap).
Proof.
  induction s as [|prev s IH]; intros t top st ap x Hs; rewrite append_loop_eq in Hs; rewrite append_loop_eq.
  - destruct (t =? 0); [|discriminate]. inversion Hs; subst. reflexivity.
  - destruct (t =? 0).
    + inversion Hs; subst. reflexivity.
    + cbn [app]. destruct (append_loop (t - 1) (H prev top) s) as [[st' ap']|] eqn:E; [|discriminate].
      inversion Hs; subst. rewrite (IH _ _ _ _ x E). reflexivity.
Qed.

Lemma append_loop_split : forall s t1 top r s' ap1 t2 x, 0 <= t1 -> 0 <= t2 ->
  append_loop t1 top s = Some (r :: s', ap1) ->
  append_loop (t1 + t2) top (s ++ x) =
  match append_loop t2 r (s' ++ x) with Some (st, ap2) => Some (st, ap1 ++ ap2) | None => None end.
Proof.
  induction s as [|prev s IH]; intros t1 top r s' ap1 t2 x H1 H2 Hs; rewrite append_loop_eq in Hs.
  - destruct (Z.eqb_spec t1 0) as [->|]; [|discriminate]. inversion Hs; subst.
    cbn [Z.add app]. destruct (append_loop t2 r x) as [[st ap2]|]; reflexivity.
  - destruct (Z.eqb_spec t1 0) as [->|Hne].
    + inversion Hs; subst. cbn [Z.add].
      match goal with |- _ = match ?X with _ => _ end => destruct X as [[? ?]|] end; reflexivity.
    + destruct (append_loop (t1 - 1) (H prev top) s) as [[st' ap']|] eqn:E; [|discriminate].
      inversion Hs; subst.
      rewrite append_loop_eq. destruct (Z.eqb_spec (t1 + t2) 0) as [Hz|Hz]; [exfalso; clear - Hz H1 H2 Hne; lia|]. cbn [app].
      replace (t1 + t2 - 1) with ((t1 - 1) + t2) by lia.
      rewrite (IH (t1 - 1) _ _ _ _ t2 x ltac:(lia) H2 E).
      destruct (append_loop t2 r (s' ++ x)) as [[st ap2]|]; reflexivity.
Qed.

Lemma peaks_at_nil (k : nat) : peaks_at k [] = [].
Proof.
  induction k as [|k IH]; [reflexivity|]. cbn [peaks_at]. pose proof (p2_nat_pos k).
  change (zlength (@nil D)) with 0. destruct (Z.leb_spec (2 ^ Z.of_nat k) 0); [lia|exact IH].
Qed.

(* all bit positions below k set: the merge loop folds everything into one tree *)
Lemma append_all_ones (k : nat) : forall ls d, zlength ls = 2 ^ Z.of_nat k - 1 ->
  append_loop (Z.of_nat k) d (rev (peaks_at k ls)) =
  Some ([root k (ls ++ [d])], tree_path k (ls ++ [d]) (2 ^ Z.of_nat k - 1)).
Proof.
  induction k as [|k IH]; intros ls d Hl.
  - change (2 ^ Z.of_nat 0) with 1 in Hl. destruct ls; [|unfold zlength in Hl; cbn [length] in Hl; lia]. reflexivity.
  - rewrite p2_S in *. pose proof (p2_nat_pos k) as Hp.
    cbn [peaks_at root tree_path].
    destruct (Z.leb_spec (2 ^ Z.of_nat k) (zlength ls)); [|lia].
    destruct (Z.ltb_spec (2 * 2 ^ Z.of_nat k - 1) (2 ^ Z.of_nat k)); [lia|].
    rewrite firstn_app_l, skipn_app_l by lia.
    cbn [rev]. rewrite Nat2Z.inj_succ. unfold Z.succ.
    assert (Hl2 : zlength (skipn (pw k) ls) = 2 ^ Z.of_nat k - 1) by (rewrite zlength_skipn; lia).
    rewrite (append_loop_split _ (Z.of_nat k) _ _ _ _ 1 _ ltac:(lia) ltac:(lia) (IH _ d Hl2)).
    cbn [app]. rewrite append_loop_eq. cbn [Z.eqb]. rewrite append_loop_eq. cbn [Z.sub Z.eqb Z.add Z.opp Z.pos_sub].
    replace (2 * 2 ^ Z.of_nat k - 1 - 2 ^ Z.of_nat k) with (2 ^ Z.of_nat k - 1) by lia.
    reflexivity.
Qed.

Lemma append_general (k : nat) : forall ls d, zlength ls < 2 ^ Z.of_nat k - 1 ->
  append_loop (tz (zlength ls + 1)) d (rev (peaks_at k ls)) =
  Some (rev (peaks_at k (ls ++ [d])), path_at k (ls ++ [d]) (zlength ls)).
Proof.
  induction k as [|k IH]; intros ls d Hl.
  - change (2 ^ Z.of_nat 0) with 1 in Hl. pose proof (zlength_nonneg ls). lia.
  - rewrite p2_S in *. pose proof (p2_nat_pos k) as Hp. pose proof (zlength_nonneg ls) as Hz.
    cbn [peaks_at path_at]. rewrite zlength_app. change (zlength [d]) with 1.
    destruct (Z.leb_spec (2 ^ Z.of_nat k) (zlength ls)) as [Hge|Hlt].
    + destruct (Z.leb_spec (2 ^ Z.of_nat k) (zlength ls + 1)); [|lia].
      destruct (Z.ltb_spec (zlength ls) (2 ^ Z.of_nat k)); [lia|].
      rewrite firstn_app_l, skipn_app_l by lia.
      cbn [rev].
      assert (Hl2 : zlength (skipn (pw k) ls) < 2 ^ Z.of_nat k - 1) by (rewrite zlength_skipn; lia).
      specialize (IH _ d Hl2). rewrite zlength_skipn in IH by lia.
      replace (zlength ls + 1) with (2 ^ Z.of_nat k + (zlength ls - 2 ^ Z.of_nat k + 1)) by lia.
      rewrite tz_pow2_add by lia.
      apply append_loop_app_r. exact IH.
    + destruct (Z.eq_dec (zlength ls) (2 ^ Z.of_nat k - 1)) as [Heq|Hne].
      * destruct (Z.leb_spec (2 ^ Z.of_nat k) (zlength ls + 1)); [|lia].
        destruct (Z.ltb_spec (zlength ls) (2 ^ Z.of_nat k)); [|lia].
        assert (Hfull : zlength (ls ++ [d]) = 2 ^ Z.of_nat k) by (rewrite zlength_app; change (zlength [d]) with 1; lia).
        rewrite firstn_all_eq, skipn_all_eq by exact Hfull.
        rewrite peaks_at_nil. cbn [rev app].
        replace (zlength ls + 1) with (2 ^ Z.of_nat k) by lia. rewrite tz_pow2.
        rewrite (append_all_ones k ls d Heq). rewrite Heq. reflexivity.
      * destruct (Z.leb_spec (2 ^ Z.of_nat k) (zlength ls + 1)); [lia|].
        apply IH. lia.
Qed.

Theorem append_spec ls d : zlength ls + 1 < 2 ^ 64 ->
  calculate_new_peaks_from_append D H (zlength ls) (peaks_spec D H dflt ls) d =
  Some (peaks_spec D H dflt (ls ++ [d]), path D H dflt (ls ++ [d]) (zlength ls)).
Proof.
  intros Hl. unfold calculate_new_peaks_from_append.
  rewrite rll_leaf_spec by (pose proof (zlength_nonneg ls); lia). cbn [obind].
  unfold peaks_spec, path.
  rewrite (append_general 64 ls d) by (change (Z.of_nat 64) with 64; lia). cbn [obind].
  rewrite rev_involutive. reflexivity.
Qed.

End Append.

(* ------------------------------------------------------------------------------------------ folding up a path *)
Lemma upd_nat_length {A : Type} : forall (l : list A) n x, length (upd_nat l n x) = length l.
Proof. induction l as [|y l IH]; intros [|n] x; cbn [upd_nat length]; try reflexivity. rewrite IH. reflexivity. Qed.
Lemma zlength_upd {A : Type} (l : list A) i x : zlength (upd l i x) = zlength l.
Proof. unfold zlength, upd. rewrite upd_nat_length. reflexivity. Qed.
Lemma upd_nat_firstn_lt {A : Type} : forall (p n : nat) (l : list A) x, (n < p)%nat ->
  firstn p (upd_nat l n x) = upd_nat (firstn p l) n x.
Proof.
  induction p as [|p IH]; intros n l x Hn; [lia|].
  destruct l as [|y l]; [reflexivity|]. destruct n as [|n]; [reflexivity|].
  cbn [upd_nat firstn]. rewrite IH by lia. reflexivity.
Qed.
Lemma upd_nat_skipn_lt {A : Type} : forall (p n : nat) (l : list A) x, (n < p)%nat ->
  skipn p (upd_nat l n x) = skipn p l.
Proof.
  induction p as [|p IH]; intros n l x Hn; [lia|].
  destruct l as [|y l]; [reflexivity|]. destruct n as [|n]; [reflexivity|].
  cbn [upd_nat skipn]. apply IH. lia.
Qed.
Lemma upd_nat_firstn_ge {A : Type} : forall (p n : nat) (l : list A) x, (p <= n)%nat ->
  firstn p (upd_nat l n x) = firstn p l.
Proof.
  induction p as [|p IH]; intros n l x Hn; [reflexivity|].
  destruct l as [|y l]; [reflexivity|]. destruct n as [|n]; [lia|].
  cbn [upd_nat firstn]. rewrite IH by lia. reflexivity.
Qed.
Lemma upd_nat_skipn_ge {A : Type} : forall (p n : nat) (l : list A) x, (p <= n)%nat ->
  skipn p (upd_nat l n x) = upd_nat (skipn p l) (n - p) x.
Proof.
  induction p as [|p IH]; intros n l x Hn.
  - cbn [skipn]. rewrite Nat.sub_0_r. reflexivity.
  - destruct l as [|y l]; [reflexivity|]. destruct n as [|n]; [lia|].
    cbn [upd_nat skipn]. rewrite IH by lia. reflexivity.
Qed.

Lemma upd_firstn_lt {A : Type} (k : nat) (l : list A) j x : 0 <= j < 2 ^ Z.of_nat k ->
  firstn (pw k) (upd l j x) = upd (firstn (pw k) l) j x.
Proof. intros. unfold upd. apply upd_nat_firstn_lt. pose proof (pw_spec k). lia. Qed.
Lemma upd_skipn_lt {A : Type} (k : nat) (l : list A) j x : 0 <= j < 2 ^ Z.of_nat k ->
  skipn (pw k) (upd l j x) = skipn (pw k) l.
Proof. intros. unfold upd. apply upd_nat_skipn_lt. pose proof (pw_spec k). lia. Qed.
Lemma upd_firstn_ge {A : Type} (k : nat) (l : list A) j x : 2 ^ Z.of_nat k <= j ->
  firstn (pw k) (upd l j x) = firstn (pw k) l.
Proof. intros. unfold upd. apply upd_nat_firstn_ge. pose proof (pw_spec k). lia. Qed.
Lemma upd_skipn_ge {A : Type} (k : nat) (l : list A) j x : 2 ^ Z.of_nat k <= j ->
  skipn (pw k) (upd l j x) = upd (skipn (pw k) l) (j - 2 ^ Z.of_nat k) x.
Proof.
  intros. unfold upd. rewrite upd_nat_skipn_ge by (pose proof (pw_spec k); lia).
  f_equal. pose proof (pw_spec k). lia.
Qed.

Section Fold.
Variable D : Type.
Variable H : D -> D -> D.
Variable dflt : D.

Notation root := (root D H dflt).
Notation tree_path := (tree_path D H dflt).
Notation fold_up := (fold_up D H).

Lemma fold_up_app : forall p q j x,
  fold_up j x (p ++ q) = fold_up (j / 2 ^ zlength p) (fold_up j x p) q.
Proof.
  induction p as [|s p IH]; intros q j x.
  - cbn [app fold_up]. change (zlength (@nil D)) with 0. rewrite Z.pow_0_r, Z.div_1_r. reflexivity.
  - cbn [app fold_up]. rewrite IH. f_equal.
    replace (zlength (s :: p)) with (zlength p + 1) by (unfold zlength; cbn [length]; lia).
    pose proof (zlength_nonneg p). rewrite p2_succ by lia.
    rewrite Z.div_div by (pose proof (p2_pos (zlength p)); lia). reflexivity.
Qed.

Lemma fold_up_low : forall p j a x, fold_up (j + 2 ^ zlength p * a) x p = fold_up j x p.
Proof.
  induction p as [|s p IH]; intros j a x; [reflexivity|].
  cbn [fold_up].
  replace (zlength (s :: p)) with (zlength p + 1) by (unfold zlength; cbn [length]; lia).
  pose proof (zlength_nonneg p). rewrite p2_succ by lia.
  replace (j + 2 * 2 ^ zlength p * a) with (j + 2 * (2 ^ zlength p * a)) by lia.
  rewrite Z.even_add_mul_2.
  replace ((j + 2 * (2 ^ zlength p * a)) / 2) with (j / 2 + 2 ^ zlength p * a) by lia.
  apply IH.
Qed.

Lemma tree_path_length (h : nat) : forall c j, zlength (tree_path h c j) = Z.of_nat h.
Proof.
  induction h as [|h IH]; intros c j; [reflexivity|].
  cbn [tree_path]. destruct (j <? 2 ^ Z.of_nat h); rewrite zlength_app, IH; unfold zlength; cbn [length]; lia.
Qed.

Lemma root_upd_0 c x : zlength c = 1 -> root 0 (upd c 0 x) = x.
Proof. intros Hc. destruct c as [|y c]; [discriminate|]. reflexivity. Qed.

Lemma fold_tree (h : nat) : forall c j x, zlength c = 2 ^ Z.of_nat h -> 0 <= j < 2 ^ Z.of_nat h ->
  fold_up j x (tree_path h c j) = root h (upd c j x).
Proof.
  induction h as [|h IH]; intros c j x Hc Hj.
  - change (2 ^ Z.of_nat 0) with 1 in *. assert (j = 0) by lia. subst. cbn [tree_path fold_up].
    symmetry. apply root_upd_0. exact Hc.
  - rewrite p2_S in *. pose proof (p2_nat_pos h) as Hp.
    cbn [tree_path root].
    destruct (Z.ltb_spec j (2 ^ Z.of_nat h)).
    + rewrite fold_up_app. rewrite tree_path_length.
      rewrite Z.div_small by lia. cbn [fold_up]. change (Z.even 0) with true. cbv iota.
      rewrite IH by (try rewrite zlength_firstn; lia).
      rewrite upd_firstn_lt, upd_skipn_lt by lia. reflexivity.
    + rewrite fold_up_app. rewrite tree_path_length.
      replace (j / 2 ^ Z.of_nat h) with 1 by nia.
      cbn [fold_up]. change (Z.even 1) with false. cbv iota.
      replace j with ((j - 2 ^ Z.of_nat h) + 2 ^ zlength (tree_path h (skipn (pw h) c) (j - 2 ^ Z.of_nat h)) * 1) at 1
        by (rewrite tree_path_length; lia).
      rewrite fold_up_low.
      rewrite IH by (try rewrite zlength_skipn; lia).
      rewrite upd_firstn_ge, upd_skipn_ge by lia. reflexivity.
Qed.

Lemma fold_mt_spec : forall p j x, 0 <= j < 2 ^ zlength p ->
  fold_mt D H (2 ^ zlength p + j) x p = Some (fold_up j x p).
Proof.
  induction p as [|s p IH]; intros j x Hj.
  - change (zlength (@nil D)) with 0 in *. change (2 ^ 0) with 1 in *. assert (j = 0) by lia. subst. reflexivity.
  - replace (zlength (s :: p)) with (zlength p + 1) in * by (unfold zlength; cbn [length]; lia).
    pose proof (zlength_nonneg p). rewrite p2_succ in * by lia. pose proof (p2_pos (zlength p) ltac:(lia)).
    cbn [fold_mt fold_up].
    destruct (Z.eqb_spec (2 * 2 ^ zlength p + j) 1); [lia|].
    replace ((2 * 2 ^ zlength p + j) / 2) with (2 ^ zlength p + j / 2) by lia.
    replace ((2 * 2 ^ zlength p + j) mod 2) with (j mod 2) by lia.
    rewrite Zmod_even.
    rewrite IH by lia.
    destruct (Z.even j); reflexivity.
Qed.

End Fold.

(* ------------------------------------------------------------------------------------------ mutation / verification *)
Lemma zlen_zlength {A : Type} (l : list A) : zlen l = zlength l.
Proof. reflexivity. Qed.

Lemma set_nth_S {A : Type} (y : A) l n x :
  set_nth (y :: l) (S n) x = match set_nth l n x with Some r => Some (y :: r) | None => None end.
Proof. reflexivity. Qed.

Section Mutate.
Variable D : Type.
Variable H : D -> D -> D.
Variable deq : D -> D -> bool.
Variable dflt : D.

Notation root := (root D H dflt).
Notation tree_path := (tree_path D H dflt).
Notation peaks_at := (peaks_at D H dflt).
Notation path_at := (path_at D H dflt).
Notation fold_up := (fold_up D H).

Lemma peaks_at_length (k : nat) : forall ls, zlength ls < 2 ^ Z.of_nat k ->
  zlength (peaks_at k ls) = popcount_at k (zlength ls).
Proof.
  induction k as [|k IH]; intros ls Hl; [reflexivity|].
  rewrite p2_S in Hl. cbn [peaks_at popcount_at]. cbv zeta.
  destruct (Z.leb_spec (2 ^ Z.of_nat k) (zlength ls)).
  - replace (zlength (root k (firstn (pw k) ls) :: peaks_at k (skipn (pw k) ls)))
      with (1 + zlength (peaks_at k (skipn (pw k) ls))) by (unfold zlength; cbn [length]; lia).
    rewrite IH by (rewrite zlength_skipn; lia). rewrite zlength_skipn by lia. reflexivity.
  - apply IH. lia.
Qed.

(* the path of leaf i has the height of its tree as length; hashing any leaf value d up that path and
   putting the result at the tree's peak position gives the peaks of the list with leaf i replaced by d *)
Lemma mutate_at (k : nat) : forall ls i d, 0 <= i < zlength ls -> zlength ls < 2 ^ Z.of_nat k ->
  let '(pk, h, j) := locate_at k (zlength ls) i in
  zlength (path_at k ls i) = h /\
  set_nth (peaks_at k ls) (Z.to_nat pk) (fold_up j d (path_at k ls i)) = Some (peaks_at k (upd ls i d)).
Proof.
  induction k as [|k IH]; intros ls i d Hi Hl.
  - change (2 ^ Z.of_nat 0) with 1 in Hl. lia.
  - rewrite p2_S in Hl. pose proof (p2_nat_pos k) as Hp.
    cbn [locate_at peaks_at path_at]. cbv zeta. rewrite zlength_upd.
    destruct (Z.leb_spec (2 ^ Z.of_nat k) (zlength ls)).
    + destruct (Z.ltb_spec i (2 ^ Z.of_nat k)).
      * split; [apply tree_path_length|].
        cbn [Z.to_nat set_nth].
        rewrite fold_tree by (try rewrite zlength_firstn; lia).
        rewrite upd_firstn_lt, upd_skipn_lt by lia. reflexivity.
      * specialize (IH (skipn (pw k) ls) (i - 2 ^ Z.of_nat k) d).
        rewrite zlength_skipn in IH by lia.
        specialize (IH ltac:(lia) ltac:(lia)).
        pose proof (locate_at_bounds k (zlength ls - 2 ^ Z.of_nat k) (i - 2 ^ Z.of_nat k) ltac:(lia) ltac:(lia)) as Hb.
        destruct (locate_at k (zlength ls - 2 ^ Z.of_nat k) (i - 2 ^ Z.of_nat k)) as [[pk h] j].
        destruct IH as [IH1 IH2]. split; [exact IH1|].
        replace (Z.to_nat (pk + 1)) with (S (Z.to_nat pk)) by lia.
        rewrite set_nth_S. rewrite IH2.
        rewrite upd_firstn_ge, upd_skipn_ge by lia. reflexivity.
    + specialize (IH ls i d Hi ltac:(lia)).
      destruct (locate_at k (zlength ls) i) as [[pk h] j]. exact IH.
Qed.

Lemma set_nth_same {A : Type} : forall (l : list A) n x r, set_nth l n x = Some r -> forall d, nth n r d = x.
Proof.
  induction l as [|y l IH]; intros n x r Hs d; [destruct n; discriminate|].
  destruct n as [|n]; cbn [set_nth] in Hs.
  - inversion Hs; subst. reflexivity.
  - destruct (set_nth l n x) eqn:E; [|discriminate]. inversion Hs; subst. cbn [nth]. eapply IH. exact E.
Qed.

Lemma upd_nat_same {A : Type} : forall (l : list A) n d, upd_nat l n (nth n l d) = l.
Proof.
  induction l as [|y l IH]; intros [|n] d; cbn [upd_nat nth]; try reflexivity. rewrite IH. reflexivity.
Qed.

End Mutate.

Section MutateTop.
Variable D : Type.
Variable H : D -> D -> D.
Variable deq : D -> D -> bool.
Variable dflt : D.

Lemma popcount_at_le (k : nat) : forall n, popcount_at k n <= Z.of_nat k.
Proof.
  induction k as [|k IH]; intros n; cbn [popcount_at]; [lia|]. cbv zeta.
  destruct (_ <=? _); [specialize (IH (n - 2 ^ Z.of_nat k))|specialize (IH n)]; lia.
Qed.
Lemma num_peaks_le n : num_peaks n <= 64.
Proof. rewrite num_peaks_at. exact (popcount_at_le 64 n). Qed.

Lemma peaks_spec_length ls : zlength ls < 2 ^ 64 -> zlength (peaks_spec D H dflt ls) = num_peaks (zlength ls).
Proof. intros Hl. rewrite num_peaks_at. unfold peaks_spec. apply (peaks_at_length D H deq dflt). exact Hl. Qed.

Lemma mutate_top ls i d : 0 <= i < zlength ls -> zlength ls < 2 ^ 64 ->
  let '(pk, h, j) := locate (zlength ls) i in
  zlength (path D H dflt ls i) = h /\
  set_nth (peaks_spec D H dflt ls) (Z.to_nat pk) (fold_up D H j d (path D H dflt ls i)) =
  Some (peaks_spec D H dflt (upd ls i d)).
Proof. intros Hi Hl. rewrite locate_at64. unfold path, peaks_spec. apply (mutate_at D H deq dflt); assumption. Qed.

Theorem mutate_spec ls i d : 0 <= i < zlength ls -> zlength ls < 2 ^ 64 ->
  calculate_new_peaks_from_leaf_mutation D H (peaks_spec D H dflt ls) (zlength ls) d i (path D H dflt ls i) =
  Some (peaks_spec D H dflt (upd ls i d)).
Proof.
  intros Hi Hl. unfold calculate_new_peaks_from_leaf_mutation.
  rewrite li_mt_pk_spec by lia.
  pose proof (mutate_top ls i d Hi Hl) as Hm.
  pose proof (locate_bounds (zlength ls) i Hi Hl) as Hb.
  destruct (locate (zlength ls) i) as [[pk h] j]. cbn [obind].
  destruct Hm as [Hlen Hset]. destruct Hb as (Hpk & Hh & Hj).
  rewrite <- Hlen. rewrite fold_mt_spec by (rewrite Hlen; exact Hj). cbn [obind].
  exact Hset.
Qed.

(* membership verification decides exactly its specification; it never panics *)
Theorem mp_verify_iff ap i leaf peaks n : 0 <= i -> 0 <= n < 2 ^ 64 -> zlen peaks < 2 ^ 32 ->
  mp_verify D H deq ap i leaf peaks n = Some (mp_verify_spec D H deq dflt ap i leaf peaks n).
Proof.
  intros Hi Hn Hlp. unfold mp_verify, mp_verify_spec.
  destruct (Z.leb_spec 0 i); [|lia]. cbn [andb].
  destruct (Z.leb_spec n i) as [Hge|Hlt].
  - destruct (Z.ltb_spec i n); [lia|]. reflexivity.
  - destruct (Z.ltb_spec i n); [|lia]. cbn [andb].
    rewrite li_mt_pk_spec by lia.
    pose proof (locate_bounds n i ltac:(lia) ltac:(lia)) as Hb.
    destruct (locate n i) as [[pk h] j]. cbn [obind]. destruct Hb as (Hpk & Hh & Hj).
    rewrite (len_u32_some peaks Hlp). cbn [obind].
    rewrite (num_peaks_spec n Hn). change (zlength peaks) with (zlen peaks).
    rewrite (Z.eqb_sym (zlen peaks)).
    destruct (Z.eqb_spec (num_peaks n) (zlen peaks)) as [Ep|]; [|reflexivity]. cbn [negb andb].
    replace (Z.log2 (2 ^ h + j)) with h.
    2:{ symmetry. apply Z.log2_unique; [lia|]. rewrite Z.pow_succ_r by lia. lia. }
    change (zlength ap) with (zlen ap). rewrite (Z.eqb_sym (zlen ap)).
    destruct (Z.eqb_spec h (zlen ap)) as [Eh|]; [|reflexivity]. cbn [negb andb].
    subst h. change (zlen ap) with (zlength ap) in *.
    rewrite fold_mt_spec by exact Hj. cbn [obind].
    rewrite (nth_error_nth' peaks dflt) by (unfold zlen in Ep; lia). cbn [obind]. reflexivity.
Qed.

Theorem mp_verify_total ap i leaf peaks n : 0 <= i -> 0 <= n < 2 ^ 64 -> zlen peaks < 2 ^ 32 ->
  mp_verify D H deq ap i leaf peaks n <> None.
Proof. intros. rewrite mp_verify_iff by assumption. discriminate. Qed.

Hypothesis deq_refl : forall x, deq x x = true.

(* the authentication path of the specification verifies *)
Theorem path_verifies ls i : 0 <= i < zlength ls -> zlength ls < 2 ^ 64 ->
  mp_verify D H deq (path D H dflt ls i) i (nth (Z.to_nat i) ls dflt) (peaks_spec D H dflt ls) (zlength ls) = Some true.
Proof.
  intros Hi Hl64.
  pose proof (peaks_spec_length ls Hl64) as Hpl.
  pose proof (locate_bounds (zlength ls) i Hi Hl64) as Hb.
  rewrite mp_verify_iff; try lia.
  2:{ rewrite zlen_zlength. rewrite Hpl.
      pose proof (num_peaks_le (zlength ls)). change (2 ^ 32) with 4294967296. lia. }
  f_equal. unfold mp_verify_spec.
  pose proof (mutate_top ls i (nth (Z.to_nat i) ls dflt) Hi Hl64) as Hm.
  destruct (locate (zlength ls) i) as [[pk h] j]. destruct Hm as [Hlen Hset]. destruct Hb as (Hpk & Hh & Hj).
  destruct (Z.leb_spec 0 i); [|lia]. destruct (Z.ltb_spec i (zlength ls)); [|lia].
  rewrite Hpl, Z.eqb_refl, Hlen, Z.eqb_refl. cbn [andb].
  unfold upd in Hset. rewrite upd_nat_same in Hset.
  rewrite (set_nth_same _ _ _ _ Hset dflt). apply deq_refl.
Qed.

End MutateTop.

(* ------------------------------------------------------------------------------------------ histories (accumulator) *)
Lemma peaks_spec_eq (D : Type) (H : D -> D -> D) (dflt : D) ls : peaks_spec D H dflt ls = peaks_at D H dflt 64 ls.
Proof. reflexivity. Qed.
Lemma path_eq (D : Type) (H : D -> D -> D) (dflt : D) ls i : path D H dflt ls i = path_at D H dflt 64 ls i.
Proof. reflexivity. Qed.
(* peaks_at 64 / path_at 64 unfold into 2^64-leaf if-trees: never let cbn / simpl / conversion open them *)
Opaque peaks_spec path.

Section History.
Variable D : Type.
Variable H : D -> D -> D.
Variable deq : D -> D -> bool.
Variable dflt : D.

(* an operation as carried out on the accumulator, with the proofs the caller supplies *)
Inductive mop : Type :=
| MAppend (d : D)
| MMutate (i : Z) (d : D) (mp : list D)
| MBatch (lms : list (leaf_mutation D)).

Definition erase (o : mop) : op D :=
  match o with
  | MAppend d => OpAppend D d
  | MMutate i d _ => OpMutate D i d
  | MBatch lms => OpBatch D (map (fun lm => fst lm) lms)
  end.

(* valid = in range (distinct for a batch) and every supplied proof is the authentication path of its
   leaf in the list as it is before the operation *)
Definition mop_valid (ls : list D) (o : mop) : Prop :=
  op_valid D ls (erase o) = true /\
  match o with
  | MAppend _ => True
  | MMutate i _ mp => mp = path D H dflt ls i
  | MBatch lms => Forall (fun lm => snd lm = path D H dflt ls (fst (fst lm))) lms
  end.

Fixpoint mops_valid (ls : list D) (ops : list mop) : Prop :=
  match ops with
  | [] => True
  | o :: r => mop_valid ls o /\ mops_valid (apply D ls (erase o)) r
  end.

Definition is_batch (o : mop) : bool := match o with MBatch _ => true | _ => false end.

Definition acc_step (a : accumulator D) (o : mop) : option (accumulator D) :=
  match o with
  | MAppend d => match acc_append D H a d with Some (a', _) => Some a' | None => None end
  | MMutate i d mp => acc_mutate_leaf D H a (i, d, mp)
  | MBatch lms =>
    match batch_mutate_leaf_and_update_mps D H deq a [] [] lms with
    | Some (a', _, _) => Some a'
    | None => None
    end
  end.

Fixpoint acc_run (a : accumulator D) (ops : list mop) : option (accumulator D) :=
  match ops with
  | [] => Some a
  | o :: r => match acc_step a o with Some a' => acc_run a' r | None => None end
  end.

Definition commits (a : accumulator D) (ls : list D) : Prop :=
  a = (zlength ls, peaks_spec D H dflt ls).

Lemma commits_empty : commits (0, []) [].
Proof. unfold commits. rewrite peaks_spec_eq. rewrite peaks_at_nil. reflexivity. Qed.

Lemma step_append a ls d : commits a ls -> zlength ls + 1 < 2 ^ 63 ->
  acc_step a (MAppend d) = Some (zlength (ls ++ [d]), peaks_spec D H dflt (ls ++ [d])).
Proof.
  intros -> Hl. cbn [acc_step]. unfold acc_append. cbn [fst snd].
  assert (Hl64 : zlength ls + 1 < 2 ^ 64) by (change (2 ^ 63) with 9223372036854775808 in Hl; change (2 ^ 64) with 18446744073709551616; lia).
  rewrite append_spec by exact Hl64. cbn [obind].
  unfold add64, two64. change (2 ^ 64) with 18446744073709551616 in Hl64.
  destruct (Z.ltb_spec (zlength ls + 1) 18446744073709551616); [|lia]. cbn [obind].
  rewrite zlength_app. reflexivity.
Qed.

Lemma step_mutate a ls i d : commits a ls -> 0 <= i < zlength ls -> zlength ls < 2 ^ 63 ->
  acc_step a (MMutate i d (path D H dflt ls i)) = Some (zlength (upd ls i d), peaks_spec D H dflt (upd ls i d)).
Proof.
  intros -> Hi Hl. cbn [acc_step]. unfold acc_mutate_leaf. cbn [fst snd].
  assert (Hl64 : zlength ls < 2 ^ 64) by (change (2 ^ 63) with 9223372036854775808 in Hl; change (2 ^ 64) with 18446744073709551616; lia).
  rewrite (mutate_spec D H deq dflt) by assumption. cbn [obind]. rewrite zlength_upd. reflexivity.
Qed.

Lemma in_range_spec ls i : in_range D ls i = true <-> 0 <= i < zlength ls.
Proof. unfold in_range. rewrite andb_true_iff, Z.leb_le, Z.ltb_lt. reflexivity. Qed.

(* C11 history_commits for histories of appends and single-leaf mutations (any interleaving) *)
Theorem history_commits_nobatch : forall ops ls a,
  commits a ls -> zlength ls < 2 ^ 63 ->
  forallb (fun o => negb (is_batch o)) ops = true ->
  mops_valid ls ops ->
  exists ls', ls' = run D ls (map erase ops) /\ acc_run a ops = Some (zlength ls', peaks_spec D H dflt ls') /\
              zlength ls' < 2 ^ 63.
Proof.
  induction ops as [|o ops IH]; intros ls a Hc Hl Hnb Hv.
  - exists ls. cbn [map run acc_run]. rewrite Hc. auto.
  - cbn [forallb] in Hnb. apply andb_true_iff in Hnb. destruct Hnb as [Ho Hnb].
    cbn [mops_valid] in Hv. destruct Hv as [[Hov Hpr] Hv].
    cbn [map run acc_run].
    destruct o as [d|i d mp|lms]; [| |discriminate Ho].
    + cbn [erase op_valid] in Hov. apply Z.ltb_lt in Hov.
      rewrite (step_append a ls d Hc Hov).
      apply IH; auto.
      * reflexivity.
      * cbn [erase apply]. rewrite zlength_app. change (zlength [d]) with 1. exact Hov.
    + cbn [erase op_valid] in Hov. apply in_range_spec in Hov. subst mp.
      rewrite (step_mutate a ls i d Hc Hov Hl).
      apply IH; auto.
      * reflexivity.
      * cbn [erase apply]. rewrite zlength_upd. exact Hl.
Qed.

End History.

(* ------------------------------------------------------------------------------------------ verify_batch_update: rejections *)
Lemma zmax_ge_init : forall l m, m <= zmax l m.
Proof. induction l as [|x l IH]; intros m; cbn [zmax]; [lia|]. specialize (IH (Z.max x m)). lia. Qed.
Lemma zmax_ge : forall l m x, In x l -> x <= zmax l m.
Proof.
  induction l as [|y l IH]; intros m x Hin; [contradiction|]. cbn [zmax]. destruct Hin as [->|Hin].
  - pose proof (zmax_ge_init l (Z.max x m)). lia.
  - apply IH. exact Hin.
Qed.

Lemma zmem_existsb x l : zmem x l = existsb (Z.eqb x) l.
Proof. induction l as [|y l IH]; [reflexivity|]. cbn [zmem existsb]. rewrite IH. reflexivity. Qed.
Lemma znodup_distinctb l : znodup l = distinctb l.
Proof. induction l as [|y l IH]; [reflexivity|]. cbn [znodup distinctb]. rewrite IH, zmem_existsb. reflexivity. Qed.

Section Vbu.
Variable D : Type.
Variable H : D -> D -> D.
Variable deq : D -> D -> bool.

(* lists with a repeated index, or with an index that is not below the leaf count, are rejected
   (whatever the proofs, the new peaks and the appended leafs are) *)
Theorem vbu_rejects_dup_oob (a : accumulator D) new_peaks appended (lms : list (leaf_mutation D)) :
  distinctb (map (fun lm => fst (fst lm)) lms) = false \/
  (exists lm, In lm lms /\ fst a <= fst (fst lm)) ->
  verify_batch_update D H deq a new_peaks appended lms = Some false.
Proof.
  intros Hbad. unfold verify_batch_update. cbv zeta.
  rewrite znodup_distinctb.
  destruct (distinctb (map (fun x => fst (fst x)) lms)) eqn:Ed; cbn [negb]; [|reflexivity].
  destruct Hbad as [Hd|(lm & Hin & Hge)]; [congruence|].
  assert (Hin' : In (fst (fst lm)) (map (fun x => fst (fst x)) lms)) by (apply in_map_iff; exists lm; auto).
  pose proof (zmax_ge _ 0 _ Hin') as Hm.
  destruct (map (fun x => fst (fst x)) lms) as [|i0 rest] eqn:Em; [contradiction|].
  cbn [length Nat.eqb negb andb orb].
  destruct (Z.leb_spec (fst a) (zmax (i0 :: rest) 0)); [|lia].
  rewrite orb_true_r. reflexivity.
Qed.

End Vbu.

(* ------------------------------------------------------------------------------------------ C05: append returns the path *)
Theorem acc_append_spec (D : Type) (H : D -> D -> D) (dflt : D) (ls : list D) (d : D) :
  zlength ls + 1 < 2 ^ 63 ->
  acc_append D H (zlength ls, peaks_spec D H dflt ls) d =
  Some ((zlength (ls ++ [d]), peaks_spec D H dflt (ls ++ [d])), path D H dflt (ls ++ [d]) (zlength ls)).
Proof.
  intros Hl. unfold acc_append. cbn [fst snd].
  assert (Hl64 : zlength ls + 1 < 2 ^ 64) by (change (2 ^ 63) with 9223372036854775808 in Hl; change (2 ^ 64) with 18446744073709551616; lia).
  rewrite append_spec by exact Hl64. cbn [obind].
  unfold add64, two64. change (2 ^ 64) with 18446744073709551616 in Hl64.
  destruct (Z.ltb_spec (zlength ls + 1) 18446744073709551616); [|lia]. cbn [obind].
  rewrite zlength_app. reflexivity.
Qed.
