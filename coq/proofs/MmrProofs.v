(* MmrProofs.v - lemmas about the MMR model (Mmr.v, MmrIdxLocal.v) against the specification (MmrSpec.v). *)
From Coq Require Import ZArith List Bool Lia.
From TF Require Import Word MmrIdxLocal Mmr MmrSpec MmrTerm.
Import ListNotations.
Open Scope Z_scope.
Ltac Zify.zify_post_hook ::= Z.div_mod_to_equations.

(* ------------------------------------------------------------------------------------------ bagging *)
Section Bag.
Variable D : Type.
Variable H : D -> D -> D.
Variable hash0 : D.

Lemma bag_spec_cons : forall p q r, bag_spec D H hash0 (p :: q :: r) = H p (bag_spec D H hash0 (q :: r)).
Proof. reflexivity. Qed.

Lemma bag_fold : forall rest tl, tl <> [] ->
  fold_left (fun acc peak => H peak acc) rest (bag_spec D H hash0 tl) = bag_spec D H hash0 (rev rest ++ tl).
Proof.
  induction rest as [|x rest IH]; intros tl Htl; [reflexivity|].
  cbn [fold_left rev]. rewrite <- app_assoc. cbn [app].
  rewrite <- (IH (x :: tl)) by discriminate.
  destruct tl as [|y tl']; [contradiction|]. reflexivity.
Qed.

Lemma bag_peaks_spec : forall peaks, bag_peaks D H hash0 peaks = bag_spec D H hash0 peaks.
Proof.
  intros peaks. unfold bag_peaks.
  destruct (rev peaks) as [|lp [|sl rest]] eqn:E.
  - apply (f_equal (@rev D)) in E. rewrite rev_involutive in E. subst. reflexivity.
  - apply (f_equal (@rev D)) in E. rewrite rev_involutive in E. subst. reflexivity.
  - apply (f_equal (@rev D)) in E. rewrite rev_involutive in E. subst peaks.
    cbn [rev]. rewrite <- app_assoc. cbn [app].
    change (H sl lp) with (bag_spec D H hash0 [sl; lp]).
    apply bag_fold. discriminate.
Qed.

Lemma bag_peaks_cases :
  bag_peaks D H hash0 [] = hash0 /\
  (forall p, bag_peaks D H hash0 [p] = p) /\
  (forall p q r, bag_peaks D H hash0 (p :: q :: r) = H p (bag_peaks D H hash0 (q :: r))).
Proof.
  split; [reflexivity|]. split; [reflexivity|].
  intros. rewrite !bag_peaks_spec. reflexivity.
Qed.
End Bag.

(* ------------------------------------------------------------------------------------------ C12: the unrepaired verify *)
(* The code as it is (sp_verify_v0) on an old accumulator whose peak list disagrees with its leaf count. *)
Lemma sp_verify_v0_panics :
  sp_verify_v0 term Node term_eqb Dflt [] (1, [Atom 0; Atom 5]) (1, [Atom 0]) = None.
Proof. vm_compute. reflexivity. Qed.

Lemma sp_verify_v0_accepts :
  sp_verify_v0 term Node term_eqb Dflt [] (1, []) (1, [Atom 0]) = Some true.
Proof. vm_compute. reflexivity. Qed.

Lemma sp_verify_v1_rejects_both :
  sp_verify_v1 term Node term_eqb Dflt [] (1, [Atom 0; Atom 5]) (1, [Atom 0]) = Some false /\
  sp_verify_v1 term Node term_eqb Dflt [] (1, []) (1, [Atom 0]) = Some false.
Proof. vm_compute. split; reflexivity. Qed.
