(* MmrSmall.v - bounded-exhaustive theorems (by vm_compute) about the MMR model on the free term algebra
   with pairwise distinct leaf atoms.  They are the PARTIAL stand-ins for the general theorems that are
   still open (update routines, batch mutation, completeness of successor proofs): every statement is the
   general one restricted to leaf counts up to a stated bound and to the free hash. *)
From Coq Require Import ZArith List Bool Lia.
From TF Require Import Word MmrIdxLocal Mmr MmrSpec MmrTerm.
Import ListNotations.
Open Scope Z_scope.

Definition atoms_from (s n : nat) : list term := map (fun i => Atom (Z.of_nat i)) (seq s n).
Definition tl_eqb (a b : list term) : bool := list_deq term term_eqb a b.
Fixpoint tll_eqb (a b : list (list term)) : bool :=
  match a, b with
  | [], [] => true
  | x :: a', y :: b' => tl_eqb x y && tll_eqb a' b'
  | _, _ => false
  end.
Definition zl_eqb (a b : list Z) : bool := zlist_eqb a b.
Definition Zseq (n : nat) : list Z := map Z.of_nat (seq 0 n).
Definition pspec (ls : list term) := peaks_spec term Node Dflt ls.
Definition pth (ls : list term) (i : Z) := path term Node Dflt ls i.
(* positions (ascending) whose element differs *)
Fixpoint changed_from (p : Z) (a b : list (list term)) : list Z :=
  match a, b with
  | x :: a', y :: b' => if tl_eqb x y then changed_from (p + 1) a' b' else p :: changed_from (p + 1) a' b'
  | _, _ => []
  end.
Definition upto (N : nat) (f : nat -> bool) : bool := forallb f (seq 0 (N + 1)).

Lemma upto_spec N f : upto N f = true -> forall n, (n <= N)%nat -> f n = true.
Proof.
  intros Hu n Hn. unfold upto in Hu. rewrite forallb_forall in Hu. apply Hu. apply in_seq. lia.
Qed.

(* ---------------------------------------------------------------- C12 complete *)
Definition complete_case (o a : nat) : bool :=
  match new_from_leafs term Node (atoms_from 0 o) with
  | Some old =>
    match sp_new_from_batch_append term Node Dflt old (atoms_from o a),
          acc_append_all term Node old (atoms_from o a) with
    | Some sp, Some new =>
      match sp_verify_v1 term Node term_eqb Dflt sp old new with Some true => true | _ => false end
    | _, _ => false
    end
  | None => false
  end.

Lemma complete_64 : upto 64 (fun o => upto (64 - o) (fun a => complete_case o a)) = true.
Proof. vm_cast_no_check (eq_refl true). Qed.

Theorem sp_complete_small (o a : nat) : (o + a <= 64)%nat -> complete_case o a = true.
Proof.
  intros Hoa. pose proof (upto_spec _ _ complete_64 o ltac:(lia)) as H1. cbv beta in H1.
  exact (upto_spec _ _ H1 a ltac:(lia)).
Qed.

(* ---------------------------------------------------------------- C05 update routines *)
(* append: every leaf's proof, one by one and as a batch (all leaves tracked, in ascending order) *)
Definition append_case (n : nat) : bool :=
  let ls := atoms_from 0 n in
  let d := Atom (Z.of_nat n) in
  let ls' := ls ++ [d] in
  let idxs := Zseq n in
  let old := map (pth ls) idxs in
  let new := map (pth ls') idxs in
  forallb (fun i =>
             match update_from_append term Node (pth ls i) i (Z.of_nat n) d (pspec ls) with
             | Some (ap, b) => tl_eqb ap (pth ls' i) && Bool.eqb b (negb (tl_eqb (pth ls i) (pth ls' i)))
             | None => false
             end) idxs &&
  match batch_update_from_append term Node old idxs (Z.of_nat n) d (pspec ls) with
  | Some (aps, md) => tll_eqb aps new && zl_eqb md (changed_from 0 old new)
  | None => false
  end.

Lemma append_48 : upto 48 append_case = true.
Proof. vm_cast_no_check (eq_refl true). Qed.

(* single leaf mutation: every (mutated leaf j, new value fresh or unchanged) x every tracked leaf *)
Definition mutation_case (n : nat) : bool :=
  let ls := atoms_from 0 n in
  let idxs := Zseq n in
  let old := map (pth ls) idxs in
  forallb (fun j =>
    forallb (fun d =>
      let ls' := upd ls j d in
      let new := map (pth ls') idxs in
      let lm := (j, d, pth ls j) in
      forallb (fun i =>
                 match update_from_leaf_mutation term Node (pth ls i) i lm with
                 | Some (ap, b) => tl_eqb ap (pth ls' i) && (b || tl_eqb (pth ls i) (pth ls' i))
                 | None => false
                 end) idxs &&
      match batch_update_from_leaf_mutation term Node term_eqb old idxs lm with
      | Some (aps, md) => tll_eqb aps new && zl_eqb md (changed_from 0 old new)
      | None => false
      end &&
      match batch_update_from_batch_leaf_mutation term Node term_eqb old idxs [lm] with
      | Some (aps, md) => tll_eqb aps new && zl_eqb md (changed_from 0 old new)
      | None => false
      end &&
      match acc_mutate_leaf term Node (Z.of_nat n, pspec ls) lm with
      | Some (c, pk) => (c =? Z.of_nat n) && tl_eqb pk (pspec ls')
      | None => false
      end)
    [Atom 1000; nth (Z.to_nat j) ls Dflt]) idxs.

Lemma mutation_20 : upto 20 mutation_case = true.
Proof. vm_cast_no_check (eq_refl true). Qed.

(* batch mutation: every ordered list of 1..3 distinct mutated leaves (new values fresh, the second one
   keeping its old value), all leaves tracked *)
Definition ordered_lists (idxs : list Z) : list (list Z) :=
  map (fun i => [i]) idxs ++
  flat_map (fun i => flat_map (fun j => if i =? j then [] else [[i; j]]) idxs) idxs ++
  flat_map (fun i => flat_map (fun j => flat_map (fun k =>
     if (i =? j) || (i =? k) || (j =? k) then [] else [[i; j; k]]) idxs) idxs) idxs.

Definition batch_case (n : nat) : bool :=
  let ls := atoms_from 0 n in
  let idxs := Zseq n in
  let old := map (pth ls) idxs in
  forallb (fun js =>
    let ms := combine js [Atom 1000; nth (Z.to_nat (nth 1 js 0)) ls Dflt; Atom 1002] in
    let ls' := apply_muts term ls ms in
    let new := map (pth ls') idxs in
    let lms := map (fun m => (fst m, snd m, pth ls (fst m))) ms in
    match batch_mutate_leaf_and_update_mps term Node term_eqb (Z.of_nat n, pspec ls) old idxs lms with
    | Some ((c, pk), aps, md) =>
      (c =? Z.of_nat n) && tl_eqb pk (pspec ls') && tll_eqb aps new && zl_eqb md (changed_from 0 old new)
    | None => false
    end &&
    match batch_update_from_batch_leaf_mutation term Node term_eqb old idxs lms with
    | Some (aps, md) => tll_eqb aps new && zl_eqb md (changed_from 0 old new)
    | None => false
    end &&
    match verify_batch_update term Node term_eqb (Z.of_nat n, pspec ls) (pspec (ls' ++ [Atom 2000])) [Atom 2000] lms,
          verify_batch_update term Node term_eqb (Z.of_nat n, pspec ls) (pspec (ls' ++ [Atom 2001])) [Atom 2000] lms with
    | Some true, Some false => true
    | _, _ => false
    end)
  (ordered_lists idxs).

Lemma batch_10 : upto 10 batch_case = true.
Proof. vm_cast_no_check (eq_refl true). Qed.

Theorem append_case_small (n : nat) : (n <= 48)%nat -> append_case n = true.
Proof. exact (upto_spec _ _ append_48 n). Qed.
Theorem mutation_case_small (n : nat) : (n <= 20)%nat -> mutation_case n = true.
Proof. exact (upto_spec _ _ mutation_20 n). Qed.
Theorem batch_case_small (n : nat) : (n <= 10)%nat -> batch_case n = true.
Proof. exact (upto_spec _ _ batch_10 n). Qed.
