(* MmrSuccRej.v - C12 rejection lemmas, as corollaries of the exact characterisation of verify
   (sp_verify_v1 = succ_verify_spec): the number of digests is determined by the two leaf counts (missing or
   surplus digests are rejected), and an accepted (old peaks, proof) pair is determined by the new
   accumulator up to an exhibited collision of H (altered digests / altered old peaks are rejected). *)
From Coq Require Import ZArith List Bool Lia.
From TF Require Import Word MmrIdxLocal Mmr MmrSpec MmrBits MmrProofs.
Import ListNotations.
Open Scope Z_scope.

Section Rej.
Variable D : Type.
Variable H : D -> D -> D.
Variable deq : D -> D -> bool.
Variable dflt : D.
Hypothesis deq_spec : forall x y, deq x y = true <-> x = y.

Definition collision : Prop := exists a b c d : D, (a, b) <> (c, d) /\ H a b = H c d.

(* number of digests a proof must have *)
Fixpoint succ_len (k : nat) (old_rem offset new_count : Z) : Z :=
  match k with
  | O => 0
  | S k' =>
    let p := 2 ^ Z.of_nat k' in
    if p <=? old_rem then
      (let '(_, hh, _) := locate new_count offset in hh - Z.of_nat k') +
      succ_len k' (old_rem - p) (offset + p) new_count
    else succ_len k' old_rem offset new_count
  end.

Lemma succ_loop_len (k : nat) : forall op rem off paths nc np,
  succ_loop D H deq dflt k op rem off paths nc np = true -> zlength paths = succ_len k rem off nc.
Proof.
  induction k as [|k IH]; intros op rem off paths nc np Hs.
  - cbn [succ_loop succ_len] in *. destruct op; [|discriminate]. destruct paths; [reflexivity|discriminate].
  - cbn [succ_loop succ_len] in *. cbv zeta in *.
    destruct (2 ^ Z.of_nat k <=? rem).
    + destruct op as [|pk r]; [discriminate|].
      destruct (locate nc off) as [[npk hh] j].
      apply andb_true_iff in Hs. destruct Hs as [Hs Hrest].
      apply andb_true_iff in Hs. destruct Hs as [Hs _].
      apply andb_true_iff in Hs. destruct Hs as [H0 Hle]. apply Z.leb_le in H0, Hle.
      apply IH in Hrest. rewrite <- Hrest.
      unfold zlength in *. rewrite skipn_length. lia.
    + eapply IH. exact Hs.
Qed.

Lemma pair_dec (a b c d : D) : (a, b) = (c, d) \/ (a, b) <> (c, d).
Proof.
  destruct (deq a c) eqn:E1; destruct (deq b d) eqn:E2.
  - left. apply deq_spec in E1, E2. subst. reflexivity.
  - right. intros E. inversion E; subst. assert (deq d d = true) by (apply deq_spec; reflexivity). congruence.
  - right. intros E. inversion E; subst. assert (deq c c = true) by (apply deq_spec; reflexivity). congruence.
  - right. intros E. inversion E; subst. assert (deq c c = true) by (apply deq_spec; reflexivity). congruence.
Qed.

Lemma fold_up_inj : forall (p p' : list D) idx x x', length p = length p' ->
  fold_up D H idx x p = fold_up D H idx x' p' -> (x = x' /\ p = p') \/ collision.
Proof.
  induction p as [|s p IH]; intros p' idx x x' Hlen Heq; destruct p' as [|s' p']; try discriminate Hlen.
  - left. cbn in Heq. auto.
  - cbn [fold_up] in Heq. cbn [length] in Hlen.
    destruct (IH p' (idx / 2) _ _ ltac:(lia) Heq) as [[Hx Hp]|Hc]; [|right; exact Hc].
    destruct (Z.even idx).
    + destruct (pair_dec x s x' s') as [E|Hne].
      * inversion E; subst. left. auto.
      * right. exists x, s, x', s'. auto.
    + destruct (pair_dec s x s' x') as [E|Hne].
      * inversion E; subst. left. auto.
      * right. exists s, x, s', x'. auto.
Qed.

(* the new accumulator binds the old peaks and the proof digests *)
Lemma succ_loop_bind (k : nat) : forall op op' rem off paths paths' nc np,
  succ_loop D H deq dflt k op rem off paths nc np = true ->
  succ_loop D H deq dflt k op' rem off paths' nc np = true ->
  (op = op' /\ paths = paths') \/ collision.
Proof.
  induction k as [|k IH]; intros op op' rem off paths paths' nc np Hs Hs'.
  - cbn [succ_loop] in *. destruct op, op', paths, paths'; try discriminate. left. auto.
  - cbn [succ_loop] in *. cbv zeta in *.
    destruct (2 ^ Z.of_nat k <=? rem).
    + destruct op as [|pk r]; [discriminate|]. destruct op' as [|pk' r']; [discriminate|].
      destruct (locate nc off) as [[npk hh] j].
      apply andb_true_iff in Hs. destruct Hs as [Hs Hrest].
      apply andb_true_iff in Hs. destruct Hs as [Hs Hd].
      apply andb_true_iff in Hs. destruct Hs as [H0 Hle]. apply Z.leb_le in H0, Hle.
      apply andb_true_iff in Hs'. destruct Hs' as [Hs' Hrest'].
      apply andb_true_iff in Hs'. destruct Hs' as [Hs' Hd'].
      apply andb_true_iff in Hs'. destruct Hs' as [_ Hle']. apply Z.leb_le in Hle'.
      apply deq_spec in Hd, Hd'. rewrite Hd in Hd'.
      apply fold_up_inj in Hd'.
      2:{ rewrite !firstn_length. unfold zlength in *. lia. }
      destruct Hd' as [[Epk Ef]|Hc]; [|right; exact Hc].
      destruct (IH _ _ _ _ _ _ _ _ Hrest Hrest') as [[Er Esk]|Hc]; [|right; exact Hc].
      left. subst. split; [reflexivity|].
      rewrite <- (firstn_skipn (Z.to_nat (hh - Z.of_nat k)) paths).
      rewrite <- (firstn_skipn (Z.to_nat (hh - Z.of_nat k)) paths'). rewrite Ef, Esk. reflexivity.
    + eapply IH; eassumption.
Qed.

(* ---------------------------------------------------------------- corollaries for the model *)
Theorem sp_rejects_wrong_length sp sp' (old new : Z * list D) :
  0 <= fst old < 2 ^ 64 -> 0 <= fst new < 2 ^ 64 -> zlen (snd old) < 2 ^ 32 -> zlen (snd new) < 2 ^ 32 ->
  sp_verify_v1 D H deq dflt sp old new = Some true -> zlength sp' <> zlength sp ->
  sp_verify_v1 D H deq dflt sp' old new = Some false.
Proof.
  intros Ho Hn Hlo Hln Hv Hlen.
  rewrite sp_verify_v1_spec in * by assumption. inversion Hv as [Hv']. f_equal.
  unfold succ_verify_spec in *.
  destruct (succ_loop D H deq dflt 64 (snd old) (fst old) 0 sp' (fst new) (snd new)) eqn:E'; [|rewrite andb_false_r; reflexivity].
  exfalso. apply andb_true_iff in Hv'. destruct Hv' as [_ Hl].
  apply succ_loop_len in Hl. apply succ_loop_len in E'. lia.
Qed.

Theorem sp_binding sp sp' (oc : Z) (op op' : list D) (new : Z * list D) :
  0 <= oc < 2 ^ 64 -> 0 <= fst new < 2 ^ 64 -> zlen op < 2 ^ 32 -> zlen op' < 2 ^ 32 -> zlen (snd new) < 2 ^ 32 ->
  sp_verify_v1 D H deq dflt sp (oc, op) new = Some true ->
  sp_verify_v1 D H deq dflt sp' (oc, op') new = Some true ->
  (sp = sp' /\ op = op') \/ collision.
Proof.
  intros Ho Hn Hlo Hlo' Hln Hv Hv'.
  rewrite sp_verify_v1_spec in Hv, Hv' by assumption. inversion Hv as [Hs]. inversion Hv' as [Hs'].
  unfold succ_verify_spec in Hs, Hs'. cbn [fst snd] in *.
  apply andb_true_iff in Hs. destruct Hs as [_ Hs]. apply andb_true_iff in Hs'. destruct Hs' as [_ Hs'].
  destruct (succ_loop_bind 64 _ _ _ _ _ _ _ _ Hs Hs') as [[E1 E2]|Hc]; [left; auto|right; exact Hc].
Qed.

End Rej.
