(* MmrUpdates.v - the node-index keyed update routines of MmrMembershipProof, single leaf mutation. *)
From Coq Require Import ZArith List Bool Lia.
From TF Require Import Word MmrIdxLocal Mmr MmrSpec MmrBits MmrNodes MmrProofs MmrPaths.
Import ListNotations.
Open Scope Z_scope.
Ltac Zify.zify_post_hook ::= Z.div_mod_to_equations.

Lemma divS j (s : nat) : 0 <= j -> j / 2 ^ Z.of_nat (S s) = j / 2 ^ Z.of_nat s / 2.
Proof. intros. rewrite p2_S. rewrite (Z.mul_comm 2). rewrite Z.div_div by (pose proof (p2_nat_pos s); lia). reflexivity. Qed.

(* node indices of the authentication path / of the direct path of leaf x, heights s .. s+n-1 *)
Fixpoint ap_nodes_from (x : Z) (s n : nat) : list Z :=
  match n with O => [] | S n' => bidx (sib (x / 2 ^ Z.of_nat s)) (Z.of_nat s) :: ap_nodes_from x (S s) n' end.
Fixpoint dp_nodes_from (x : Z) (s n : nat) : list Z :=
  match n with O => [] | S n' => bidx (x / 2 ^ Z.of_nat (S s)) (Z.of_nat (S s)) :: dp_nodes_from x (S s) n' end.

(* block (a, t) lies among the first 2^63 leaves *)
Definition okb (a : Z) (t : nat) : Prop := 0 <= a /\ (a + 1) * 2 ^ Z.of_nat t <= 2 ^ 63.

Lemma okb_lt a t : okb a t -> bidx a (Z.of_nat t) < 2 ^ 64.
Proof.
  intros [Ha Hb]. pose proof (bidx_upper t a Ha). change (2 ^ 63) with 9223372036854775808 in Hb.
  change (2 ^ 64) with 18446744073709551616. lia.
Qed.

Lemma okb_inj a t a' t' : okb a t -> okb a' t' -> bidx a (Z.of_nat t) = bidx a' (Z.of_nat t') -> t = t' /\ a = a'.
Proof. intros [Ha Hb] [Ha' Hb'] E. apply bidx_inj; try assumption. apply okb_lt. split; assumption. Qed.

Lemma div_mono_blocks x (u v : nat) : 0 <= x -> (u <= v)%nat ->
  (x / 2 ^ Z.of_nat u + 1) * 2 ^ Z.of_nat u <= (x / 2 ^ Z.of_nat v + 1) * 2 ^ Z.of_nat v.
Proof.
  intros Hx Huv. pose proof (p2_nat_pos u) as Hu. pose proof (p2_nat_pos v) as Hv.
  assert (E : 2 ^ Z.of_nat v = 2 ^ Z.of_nat (v - u) * 2 ^ Z.of_nat u).
  { rewrite <- Z.pow_add_r by lia. f_equal. lia. }
  pose proof (p2_nat_pos (v - u)) as Hd.
  set (q := x / 2 ^ Z.of_nat v).
  assert (Hq : x < (q + 1) * 2 ^ Z.of_nat v) by (unfold q; nia).
  assert (x / 2 ^ Z.of_nat u < (q + 1) * 2 ^ Z.of_nat (v - u)).
  { apply Z.div_lt_upper_bound; [lia|]. nia. }
  nia.
Qed.

Lemma okb_anc x (s top : nat) : okb (x / 2 ^ Z.of_nat top) top -> 0 <= x -> (s <= top)%nat -> okb (x / 2 ^ Z.of_nat s) s.
Proof.
  intros [_ Hb] Hx Hs. split; [apply Z.div_pos; [lia|apply p2_nat_pos]|].
  pose proof (div_mono_blocks x s top Hx Hs). lia.
Qed.

Lemma okb_sib x (s top : nat) : okb (x / 2 ^ Z.of_nat top) top -> 0 <= x -> (s < top)%nat -> okb (sib (x / 2 ^ Z.of_nat s)) s.
Proof.
  intros Hok Hx Hs. pose proof (okb_anc x (S s) top Hok Hx ltac:(lia)) as [_ Hb].
  pose proof (p2_nat_pos s) as Hp.
  assert (Hq : 0 <= x / 2 ^ Z.of_nat s) by (apply Z.div_pos; lia).
  split; [apply sib_nonneg; exact Hq|].
  rewrite divS in Hb by exact Hx. rewrite p2_S in Hb.
  unfold sib. pose proof (Zmod_even (x / 2 ^ Z.of_nat s)) as Hm. destruct (Z.even (x / 2 ^ Z.of_nat s)); nia.
Qed.

Lemma inb_anc x (s top : nat) : okb (x / 2 ^ Z.of_nat top) top -> 0 <= x -> (s < top)%nat -> inb (x / 2 ^ Z.of_nat s) s.
Proof.
  intros Hok Hx Hs. pose proof (okb_anc x (S s) top Hok Hx ltac:(lia)) as [_ Hb].
  split; [apply Z.div_pos; [lia|apply p2_nat_pos]|].
  rewrite divS in Hb by exact Hx. rewrite p2_S in Hb. lia.
Qed.

Lemma node_indices_loop_spec x (top : nat) : okb (x / 2 ^ Z.of_nat top) top -> 0 <= x ->
  forall n s, (s + n <= top)%nat ->
  node_indices_loop n (bidx (x / 2 ^ Z.of_nat s) (Z.of_nat s)) = Some (ap_nodes_from x s n).
Proof.
  intros Hok Hx. induction n as [|n IH]; intros s Hs; [reflexivity|].
  cbn [node_indices_loop ap_nodes_from].
  rewrite up_info_bidx by (apply (inb_anc x s top); try assumption; lia). cbn [obind].
  rewrite <- divS by exact Hx. rewrite IH by lia. reflexivity.
Qed.

Lemma direct_path_loop_spec x (top : nat) : okb (x / 2 ^ Z.of_nat top) top -> 0 <= x ->
  forall n s, (s + n <= top)%nat ->
  direct_path_loop n (bidx (x / 2 ^ Z.of_nat s) (Z.of_nat s)) = Some (dp_nodes_from x s n).
Proof.
  intros Hok Hx. induction n as [|n IH]; intros s Hs; [reflexivity|].
  cbn [direct_path_loop dp_nodes_from].
  rewrite parent_bidx by (apply (inb_anc x s top); try assumption; lia). cbn [obind].
  rewrite <- divS by exact Hx. rewrite IH by lia. reflexivity.
Qed.

Lemma ap_nodes_from_length x : forall n s, length (ap_nodes_from x s n) = n.
Proof. induction n; intros; cbn [ap_nodes_from length]; [reflexivity|]. rewrite IHn. reflexivity. Qed.

Lemma bpath_from_length (D : Type) (H : D -> D -> D) (dflt : D) ls x : forall n s, length (bpath_from D H dflt ls x s n) = n.
Proof. induction n; intros; cbn [bpath_from length]; [reflexivity|]. rewrite IHn. reflexivity. Qed.

Lemma in_ap_nodes x : forall n s v, In v (ap_nodes_from x s n) ->
  exists t, (s <= t < s + n)%nat /\ v = bidx (sib (x / 2 ^ Z.of_nat t)) (Z.of_nat t).
Proof.
  induction n as [|n IH]; intros s v Hin; [contradiction|]. cbn [ap_nodes_from] in Hin.
  destruct Hin as [<-|Hin]; [exists s; split; [lia|reflexivity]|].
  destruct (IH _ _ Hin) as (t & Ht & ->). exists t. split; [lia|reflexivity].
Qed.

Lemma in_dp_nodes x : forall n s v, In v (dp_nodes_from x s n) ->
  exists t, (s < t <= s + n)%nat /\ v = bidx (x / 2 ^ Z.of_nat t) (Z.of_nat t).
Proof.
  induction n as [|n IH]; intros s v Hin; [contradiction|]. cbn [dp_nodes_from] in Hin.
  destruct Hin as [<-|Hin]; [exists (S s); split; [lia|reflexivity]|].
  destruct (IH _ _ Hin) as (t & Ht & ->). exists t. split; [lia|reflexivity].
Qed.

(* ---------------------------------------------------------------- where two leaves' paths meet *)
Definition meet (i j : Z) (t : nat) : Prop := sib (i / 2 ^ Z.of_nat t) = j / 2 ^ Z.of_nat t.

Lemma div_div_p2 x (u v : nat) : 0 <= x -> x / 2 ^ Z.of_nat u / 2 ^ Z.of_nat v = x / 2 ^ Z.of_nat (u + v).
Proof.
  intros Hx. rewrite Z.div_div by (try apply p2_nat_pos; pose proof (p2_nat_pos u); lia).
  rewrite Nat2Z.inj_add, Z.pow_add_r by lia. reflexivity.
Qed.

Lemma meet_above i j t t' : 0 <= i -> 0 <= j -> meet i j t -> (t < t')%nat -> i / 2 ^ Z.of_nat t' = j / 2 ^ Z.of_nat t'.
Proof.
  intros Hi Hj Hm Ht. unfold meet in Hm.
  assert (Hq : 0 <= i / 2 ^ Z.of_nat t) by (apply Z.div_pos; [lia|apply p2_nat_pos]).
  assert (E : i / 2 ^ Z.of_nat (S t) = j / 2 ^ Z.of_nat (S t)).
  { rewrite !divS by assumption. rewrite <- Hm. rewrite sib_div2 by exact Hq. reflexivity. }
  replace t' with (S t + (t' - S t))%nat by lia.
  rewrite <- !div_div_p2 by assumption. rewrite E. reflexivity.
Qed.

Lemma sib_neq a : sib a <> a.
Proof. unfold sib. destruct (Z.even a); lia. Qed.

Lemma meet_unique i j t t' : 0 <= i -> 0 <= j -> meet i j t -> meet i j t' -> t = t'.
Proof.
  intros Hi Hj H1 H2.
  destruct (Nat.lt_trichotomy t t') as [Hlt|[He|Hgt]]; [|exact He|].
  - pose proof (meet_above i j t t' Hi Hj H1 Hlt) as E. unfold meet in H2. rewrite <- E in H2.
    exfalso. exact (sib_neq _ H2).
  - pose proof (meet_above i j t' t Hi Hj H2 Hgt) as E. unfold meet in H1. rewrite <- E in H1.
    exfalso. exact (sib_neq _ H1).
Qed.

Definition meetb (i j : Z) (t : nat) : bool := sib (i / 2 ^ Z.of_nat t) =? j / 2 ^ Z.of_nat t.
Lemma meetb_spec i j t : meetb i j t = true <-> meet i j t.
Proof. unfold meetb, meet. apply Z.eqb_eq. Qed.

(* ---------------------------------------------------------------- the map of deducible hashes *)
Section MapOk.
Variable D : Type.
Variable H : D -> D -> D.
Variable dflt : D.
Variable ls : list D.
Variable j : Z.
Variable d : D.
Hypothesis Hj : 0 <= j < zlength ls.
Variable top : nat.                     (* height of j's tree *)
Hypothesis Htop : okb (j / 2 ^ Z.of_nat top) top.

Notation nv := (nv D H dflt ls j d).

(* m binds exactly the ancestors of j of heights 0 .. tmax, each to its value after the mutation *)
Definition map_ok (m : dmap D) (tmax : nat) : Prop :=
  forall a t, okb a t ->
    dget D m (bidx a (Z.of_nat t)) =
    if (t <=? tmax)%nat && (a =? j / 2 ^ Z.of_nat t) then Some (nv t) else None.

Lemma map_ok_init : map_ok (dins D [] (bidx j 0) d) 0.
Proof.
  intros a t Hok. unfold dins. cbn [dget].
  assert (Hj0 : okb (j / 2 ^ Z.of_nat 0) 0) by (apply (okb_anc j 0 top Htop); lia).
  change (2 ^ Z.of_nat 0) with 1 in *. rewrite Z.div_1_r in *.
  destruct (Z.eqb_spec (bidx a (Z.of_nat t)) (bidx j 0)) as [E|Hne].
  - change 0 with (Z.of_nat 0) in E. apply okb_inj in E; try assumption. destruct E as [-> ->].
    cbn [Nat.leb andb]. change (2 ^ Z.of_nat 0) with 1. rewrite Z.div_1_r, Z.eqb_refl.
    rewrite nv_0 by exact Hj. reflexivity.
  - destruct t as [|t]; [|reflexivity]. cbn [Nat.leb andb]. change (2 ^ Z.of_nat 0) with 1. rewrite Z.div_1_r.
    destruct (Z.eqb_spec a j); [subst; contradiction|reflexivity].
Qed.

Lemma map_ok_step m s : (S s <= top)%nat -> map_ok m s ->
  map_ok (dins D m (bidx (j / 2 ^ Z.of_nat (S s)) (Z.of_nat (S s))) (nv (S s))) (S s).
Proof.
  intros Hs Hm a t Hok. unfold dins. cbn [dget].
  assert (HjS : okb (j / 2 ^ Z.of_nat (S s)) (S s)) by (apply (okb_anc j (S s) top Htop); lia).
  destruct (Z.eqb_spec (bidx a (Z.of_nat t)) (bidx (j / 2 ^ Z.of_nat (S s)) (Z.of_nat (S s)))) as [E|Hne].
  - apply okb_inj in E; try assumption. destruct E as [-> ->].
    rewrite Nat.leb_refl, Z.eqb_refl. reflexivity.
  - rewrite (Hm a t Hok).
    destruct (Nat.leb_spec t s) as [Hle|Hgt].
    + destruct (Nat.leb_spec t (S s)); [|lia]. reflexivity.
    + cbn [andb]. destruct (Nat.leb_spec t (S s)) as [Hle2|]; [|reflexivity]. cbn [andb].
      assert (t = S s) by lia. subst t.
      destruct (Z.eqb_spec a (j / 2 ^ Z.of_nat (S s))); [subst; contradiction|reflexivity].
Qed.

Lemma map_ok_mono_lookup m tmax a t : map_ok m tmax -> okb a t ->
  forall v, dget D m (bidx a (Z.of_nat t)) = Some v -> (t <= tmax)%nat /\ a = j / 2 ^ Z.of_nat t /\ v = nv t.
Proof.
  intros Hm Hok v Hg. rewrite (Hm a t Hok) in Hg.
  destruct (Nat.leb_spec t tmax); cbn [andb] in Hg; [|discriminate].
  destruct (Z.eqb_spec a (j / 2 ^ Z.of_nat t)); [|discriminate]. inversion Hg. auto.
Qed.

(* update_from_leaf_mutation's loop: from height s up to the intersecting node at height t0 *)
Lemma uflm_loop_spec (t0 : nat) : (t0 <= top)%nat ->
  forall (k s : nat) m, (s + k = t0)%nat -> map_ok m s ->
  forall rest, exists m',
    uflm_loop D H m (bidx (j / 2 ^ Z.of_nat s) (Z.of_nat s)) (nv s)
              (bpath_from D H dflt ls j s k ++ rest) (bidx (j / 2 ^ Z.of_nat t0) (Z.of_nat t0)) = Some m' /\
    map_ok m' t0.
Proof.
  intros Ht0. induction k as [|k IH]; intros s m Hs Hm rest.
  - assert (s = t0) by lia. subst s. cbn [bpath_from app].
    destruct rest as [|x rest]; cbn [uflm_loop]; [exists m; auto|].
    rewrite Z.eqb_refl. exists m. auto.
  - cbn [bpath_from app uflm_loop].
    assert (Hjs : okb (j / 2 ^ Z.of_nat s) s) by (apply (okb_anc j s top Htop); lia).
    assert (Hjt : okb (j / 2 ^ Z.of_nat t0) t0) by (apply (okb_anc j t0 top Htop); lia).
    destruct (Z.eqb_spec (bidx (j / 2 ^ Z.of_nat t0) (Z.of_nat t0)) (bidx (j / 2 ^ Z.of_nat s) (Z.of_nat s))) as [E|_].
    { apply okb_inj in E; try assumption. lia. }
    rewrite step_up_bidx by (apply (inb_anc j s top Htop); lia). cbn [obind].
    rewrite <- divS by lia.
    assert (Eacc : (if negb (Z.even (j / 2 ^ Z.of_nat s))
                    then H (broot D H dflt ls (sib (j / 2 ^ Z.of_nat s)) s) (nv s)
                    else H (nv s) (broot D H dflt ls (sib (j / 2 ^ Z.of_nat s)) s)) = nv (S s)).
    { rewrite nv_S by lia. destruct (Z.even (j / 2 ^ Z.of_nat s)); reflexivity. }
    rewrite Eacc.
    apply IH; [lia|]. apply map_ok_step; [lia|exact Hm].
Qed.

(* batch_update_from_leaf_mutation's loop: all heights below the peak *)
Lemma buflm_loop_spec :
  forall (k s : nat) m, (s + k = top)%nat -> map_ok m s ->
  exists m',
    buflm_loop D H m (bidx (j / 2 ^ Z.of_nat s) (Z.of_nat s)) (nv s) (bpath_from D H dflt ls j s k) = Some m' /\
    map_ok m' (s + (k - 1)).
Proof.
  induction k as [|k IH]; intros s m Hs Hm.
  - cbn [bpath_from buflm_loop]. exists m. rewrite Nat.add_0_r. auto.
  - destruct k as [|k].
    + cbn [bpath_from buflm_loop]. exists m. rewrite Nat.add_0_r. auto.
    + cbn [bpath_from]. cbn [buflm_loop].
      rewrite step_up_bidx by (apply (inb_anc j s top Htop); lia). cbn [obind].
      rewrite <- divS by lia.
      assert (Eacc : (if negb (Z.even (j / 2 ^ Z.of_nat s))
                      then H (broot D H dflt ls (sib (j / 2 ^ Z.of_nat s)) s) (nv s)
                      else H (nv s) (broot D H dflt ls (sib (j / 2 ^ Z.of_nat s)) s)) = nv (S s)).
      { rewrite nv_S by lia. destruct (Z.even (j / 2 ^ Z.of_nat s)); reflexivity. }
      rewrite Eacc.
      destruct (IH (S s) (dins D m (bidx (j / 2 ^ Z.of_nat (S s)) (Z.of_nat (S s))) (nv (S s))) ltac:(lia)
                   (map_ok_step m s ltac:(lia) Hm)) as (m' & Hm1 & Hm2).
      exists m'. split; [exact Hm1|].
      replace (s + (S (S k) - 1))%nat with (S s + (S k - 1))%nat by lia. exact Hm2.
Qed.

End MapOk.

(* ---------------------------------------------------------------- trees of leaves *)
Definition hgt (n i : Z) : nat := Z.to_nat (snd (fst (locate n i))).

Lemma locate_same (k : nat) : forall n i j, 0 <= i < n -> 0 <= j < n -> n < 2 ^ Z.of_nat k ->
  (let '(pk, h, _) := locate_at k n i in i / 2 ^ h = j / 2 ^ h ->
   fst (locate_at k n j) = (pk, h)).
Proof.
  induction k as [|k IH]; intros n i j Hi Hj Hn.
  - change (2 ^ Z.of_nat 0) with 1 in Hn. lia.
  - cbn [locate_at]. cbv zeta. rewrite p2_S in Hn. pose proof (p2_nat_pos k) as Hp.
    destruct (Z.leb_spec (2 ^ Z.of_nat k) n).
    + destruct (Z.ltb_spec i (2 ^ Z.of_nat k)).
      * intros E. rewrite Z.div_small in E by lia.
        destruct (Z.ltb_spec j (2 ^ Z.of_nat k)); [reflexivity|].
        exfalso. assert (1 <= j / 2 ^ Z.of_nat k) by (apply Z.div_le_lower_bound; lia). lia.
      * specialize (IH (n - 2 ^ Z.of_nat k) (i - 2 ^ Z.of_nat k)).
        pose proof (locate_at_bounds k (n - 2 ^ Z.of_nat k) (i - 2 ^ Z.of_nat k) ltac:(lia) ltac:(lia)) as Hb.
        destruct (locate_at k (n - 2 ^ Z.of_nat k) (i - 2 ^ Z.of_nat k)) as [[pk h] j0] eqn:El.
        destruct Hb as (_ & Hh & _).
        intros E.
        assert (E2 : 2 ^ Z.of_nat k = 2 ^ (Z.of_nat k - h) * 2 ^ h).
        { rewrite <- Z.pow_add_r by lia. f_equal. lia. }
        pose proof (p2_pos h ltac:(lia)) as Hph. pose proof (p2_pos (Z.of_nat k - h) ltac:(lia)) as Hpd.
        assert (Hjge : 2 ^ Z.of_nat k <= j).
        { destruct (Z.le_gt_cases (2 ^ Z.of_nat k) j); [assumption|exfalso].
          assert (j / 2 ^ h < 2 ^ (Z.of_nat k - h)) by (apply Z.div_lt_upper_bound; lia).
          assert (2 ^ (Z.of_nat k - h) <= i / 2 ^ h) by (apply Z.div_le_lower_bound; lia). lia. }
        destruct (Z.ltb_spec j (2 ^ Z.of_nat k)); [lia|].
        specialize (IH (j - 2 ^ Z.of_nat k) ltac:(lia) ltac:(lia) ltac:(lia)).
        assert (Ed : forall x, (x - 2 ^ Z.of_nat k) / 2 ^ h = x / 2 ^ h - 2 ^ (Z.of_nat k - h)).
        { intros x. rewrite E2. replace (x - 2 ^ (Z.of_nat k - h) * 2 ^ h) with (x + (- 2 ^ (Z.of_nat k - h)) * 2 ^ h) by lia.
          rewrite Z.div_add by lia. lia. }
        rewrite !Ed in IH. specialize (IH ltac:(lia)).
        destruct (locate_at k (n - 2 ^ Z.of_nat k) (j - 2 ^ Z.of_nat k)) as [[pk' h'] j'].
        cbn [fst] in *. inversion IH. reflexivity.
    + apply IH; lia.
Qed.

Transparent locate.
Lemma locate_same64 n i j : 0 <= i < n -> 0 <= j < n -> n < 2 ^ 64 ->
  (let '(pk, h, _) := locate n i in i / 2 ^ h = j / 2 ^ h -> fst (locate n j) = (pk, h)).
Proof. intros Hi Hj Hn. exact (locate_same 64 n i j Hi Hj Hn). Qed.
Opaque locate.

Lemma hgt_same n i j : 0 <= i < n -> 0 <= j < n -> n < 2 ^ 64 ->
  i / 2 ^ Z.of_nat (hgt n i) = j / 2 ^ Z.of_nat (hgt n i) -> hgt n j = hgt n i.
Proof.
  intros Hi Hj Hn E. unfold hgt in *.
  pose proof (locate_same64 n i j Hi Hj Hn) as Hs.
  pose proof (locate_bounds n i Hi Hn) as Hb.
  destruct (locate n i) as [[pk h] j0]. cbn [fst snd] in *. destruct Hb as (_ & Hh & _).
  rewrite Z2Nat.id in E by lia. rewrite (Hs E). reflexivity.
Qed.

Section Upd.
Variable D : Type.
Variable H : D -> D -> D.
Variable dflt : D.

Lemma path_hgt ls i : 0 <= i < zlength ls -> zlength ls < 2 ^ 63 ->
  path D H dflt ls i = bpath D H dflt ls i (hgt (zlength ls) i) /\
  okb (i / 2 ^ Z.of_nat (hgt (zlength ls) i)) (hgt (zlength ls) i).
Proof.
  intros Hi Hl.
  assert (Hl64 : zlength ls < 2 ^ 64) by (change (2 ^ 63) with 9223372036854775808 in Hl; change (2 ^ 64) with 18446744073709551616; lia).
  pose proof (path_blocks D H dflt ls i Hi Hl64) as Hp. unfold hgt.
  destruct (locate (zlength ls) i) as [[pk h] j]. cbn [fst snd]. destruct Hp as (Hp & Hh & Hb).
  split; [exact Hp|]. unfold okb. rewrite !Z2Nat.id by lia. split; [apply Z.div_pos; [lia|apply p2_pos; lia]|lia].
Qed.

Lemma get_node_indices_spec ls i : 0 <= i < zlength ls -> zlength ls < 2 ^ 63 ->
  get_node_indices D (path D H dflt ls i) i = Some (ap_nodes_from i 0 (hgt (zlength ls) i)).
Proof.
  intros Hi Hl. destruct (path_hgt ls i Hi Hl) as [Hp Hok]. rewrite Hp.
  unfold get_node_indices. rewrite l2n_bidx by lia. cbn [obind].
  unfold bpath. rewrite bpath_from_length.
  pose proof (node_indices_loop_spec i _ Hok ltac:(lia) (hgt (zlength ls) i) 0%nat ltac:(lia)) as Hn.
  change (2 ^ Z.of_nat 0) with 1 in Hn. rewrite Z.div_1_r in Hn. exact Hn.
Qed.

Lemma get_direct_path_indices_spec ls j : 0 <= j < zlength ls -> zlength ls < 2 ^ 63 ->
  get_direct_path_indices D (path D H dflt ls j) j = Some (bidx j 0 :: dp_nodes_from j 0 (hgt (zlength ls) j)).
Proof.
  intros Hj Hl. destruct (path_hgt ls j Hj Hl) as [Hp Hok]. rewrite Hp.
  unfold get_direct_path_indices. rewrite l2n_bidx by lia. cbn [obind].
  unfold bpath. rewrite bpath_from_length.
  pose proof (direct_path_loop_spec j _ Hok ltac:(lia) (hgt (zlength ls) j) 0%nat ltac:(lia)) as Hn.
  change (2 ^ Z.of_nat 0) with 1 in Hn. rewrite Z.div_1_r in Hn. change (Z.of_nat 0) with 0 in Hn. rewrite Hn. reflexivity.
Qed.

(* replacing the bound path elements yields the path in the mutated list *)
Lemma replace_known_spec ls i j d (topi topj : nat) m tmax :
  0 <= i -> 0 <= j < zlength ls ->
  okb (i / 2 ^ Z.of_nat topi) topi -> okb (j / 2 ^ Z.of_nat topj) topj ->
  map_ok D H dflt ls j d m tmax ->
  (forall t, (t < topi)%nat -> meet i j t -> (t <= tmax)%nat) ->
  forall n s, (s + n <= topi)%nat ->
  replace_known D m (bpath_from D H dflt ls i s n) (ap_nodes_from i s n) =
  bpath_from D H dflt (upd ls j d) i s n.
Proof.
  intros Hi Hj Hoki Hokj Hm Hcov. induction n as [|n IH]; intros s Hs; [reflexivity|].
  cbn [bpath_from ap_nodes_from replace_known]. rewrite IH by lia. f_equal.
  assert (Hsib : okb (sib (i / 2 ^ Z.of_nat s)) s) by (apply (okb_sib i s topi Hoki); lia).
  rewrite (Hm _ _ Hsib).
  destruct (Nat.leb_spec s tmax) as [Hle|Hgt]; cbn [andb].
  - destruct (Z.eqb_spec (sib (i / 2 ^ Z.of_nat s)) (j / 2 ^ Z.of_nat s)) as [E|Hne].
    + unfold nv. rewrite E. reflexivity.
    + symmetry. apply broot_upd_out; [destruct Hsib; assumption | lia |].
      intros E. apply Hne. symmetry. exact E.
  - symmetry. apply broot_upd_out; [destruct Hsib; assumption | lia |].
    intros E. assert (Hmeet : meet i j s) by (unfold meet; symmetry; exact E).
    pose proof (Hcov s ltac:(lia) Hmeet). lia.
Qed.

End Upd.

(* ---------------------------------------------------------------- update_from_leaf_mutation *)
Lemma zmem_In x l : zmem x l = true <-> In x l.
Proof.
  induction l as [|y l IH]; cbn [zmem In]; [split; [discriminate|contradiction]|].
  rewrite orb_true_iff, IH, Z.eqb_eq. split; intros [E|E]; auto.
Qed.
Lemma zmem_false x l : zmem x l = false <-> ~ In x l.
Proof. rewrite <- zmem_In. destruct (zmem x l); split; intros; try discriminate; try reflexivity; exfalso; auto. Qed.

Lemma zuniq_ap_nodes i (top : nat) : okb (i / 2 ^ Z.of_nat top) top -> 0 <= i ->
  forall n s, (s + n <= top)%nat -> zuniq (ap_nodes_from i s n) = ap_nodes_from i s n.
Proof.
  intros Hok Hi. induction n as [|n IH]; intros s Hs; [reflexivity|].
  cbn [ap_nodes_from zuniq]. rewrite IH by lia.
  replace (zmem _ _) with false; [reflexivity|]. symmetry. apply zmem_false. intros Hin.
  apply in_ap_nodes in Hin. destruct Hin as (t & Ht & E).
  apply okb_inj in E; try (apply (okb_sib i _ top Hok); lia). lia.
Qed.

Lemma mem_affected i j (hi hj : nat) t :
  okb (i / 2 ^ Z.of_nat hi) hi -> okb (j / 2 ^ Z.of_nat hj) hj -> 0 <= i -> 0 <= j -> (t < hi)%nat ->
  (zmem (bidx (sib (i / 2 ^ Z.of_nat t)) (Z.of_nat t)) (bidx j 0 :: dp_nodes_from j 0 hj) = true <->
   meet i j t /\ (t <= hj)%nat).
Proof.
  intros Hoki Hokj Hi Hj Ht. rewrite zmem_In. cbn [In].
  assert (Hs : okb (sib (i / 2 ^ Z.of_nat t)) t) by (apply (okb_sib i t hi Hoki); lia).
  split.
  - intros [E|Hin].
    + change 0 with (Z.of_nat 0) in E. symmetry in E. apply okb_inj in E; try assumption.
      * destruct E as [E0 E]. subst t. split; [|lia]. unfold meet. change (2 ^ Z.of_nat 0) with 1 in *. rewrite !Z.div_1_r in *. exact E.
      * pose proof (okb_anc j 0 hj Hokj Hj ltac:(lia)) as Ho. change (2 ^ Z.of_nat 0) with 1 in Ho. rewrite Z.div_1_r in Ho. exact Ho.
    + apply in_dp_nodes in Hin. destruct Hin as (t' & Ht' & E).
      apply okb_inj in E; try assumption; [|apply (okb_anc j t' hj Hokj Hj); lia].
      destruct E as [<- E]. split; [exact E|lia].
  - intros [Hm Hle]. unfold meet in Hm. rewrite Hm.
    destruct t as [|t].
    + left. change (2 ^ Z.of_nat 0) with 1. rewrite Z.div_1_r. reflexivity.
    + right.
      assert (G : forall n s, (s < S t <= s + n)%nat -> In (bidx (j / 2 ^ Z.of_nat (S t)) (Z.of_nat (S t))) (dp_nodes_from j s n)).
      { induction n as [|n IH]; intros s Hsn; [lia|]. cbn [dp_nodes_from In].
        destruct (Nat.eq_dec (S s) (S t)) as [E|Hne]; [left; rewrite E; reflexivity|right; apply IH; lia]. }
      apply G. lia.
Qed.

Fixpoint meet_at (i j : Z) (s n : nat) : option nat :=
  match n with
  | O => None
  | S n' => if meetb i j s then Some s else meet_at i j (S s) n'
  end.

Lemma meet_at_none i j : forall n s, meet_at i j s n = None -> forall t, (s <= t < s + n)%nat -> ~ meet i j t.
Proof.
  induction n as [|n IH]; intros s Hn t Ht; [lia|]. cbn [meet_at] in Hn.
  destruct (meetb i j s) eqn:Em; [discriminate|].
  destruct (Nat.eq_dec t s) as [->|Hne].
  - intros Hm. apply meetb_spec in Hm. congruence.
  - apply (IH (S s) Hn). lia.
Qed.

Lemma meet_at_some i j : forall n s t0, meet_at i j s n = Some t0 -> (s <= t0 < s + n)%nat /\ meet i j t0.
Proof.
  induction n as [|n IH]; intros s t0 Hn; [discriminate|]. cbn [meet_at] in Hn.
  destruct (meetb i j s) eqn:Em.
  - inversion Hn; subst. split; [lia|]. apply meetb_spec. exact Em.
  - destruct (IH _ _ Hn) as [Hr Hm]. split; [lia|exact Hm].
Qed.

Opaque hgt.

Section Uflm.
Variable D : Type.
Variable H : D -> D -> D.
Variable dflt : D.

Lemma filter_no_meet i j (hi hj : nat) :
  okb (i / 2 ^ Z.of_nat hi) hi -> okb (j / 2 ^ Z.of_nat hj) hj -> 0 <= i -> 0 <= j ->
  forall n s, (s + n <= hi)%nat -> (forall t, (s <= t < s + n)%nat -> ~ meet i j t) ->
  zfilter_mem (ap_nodes_from i s n) (bidx j 0 :: dp_nodes_from j 0 hj) = [].
Proof.
  intros Hoki Hokj Hi Hj. induction n as [|n IH]; intros s Hs Hno; [reflexivity|].
  cbn [ap_nodes_from zfilter_mem].
  destruct (zmem _ _) eqn:Ez.
  - apply (mem_affected i j hi hj s Hoki Hokj Hi Hj ltac:(lia)) in Ez. destruct Ez as [Hm _].
    exfalso. apply (Hno s ltac:(lia) Hm).
  - apply IH; [lia|]. intros t Ht. apply Hno. lia.
Qed.

Lemma filter_meet i j (hi hj : nat) :
  okb (i / 2 ^ Z.of_nat hi) hi -> okb (j / 2 ^ Z.of_nat hj) hj -> 0 <= i -> 0 <= j ->
  (forall t, (t < hi)%nat -> meet i j t -> (t <= hj)%nat) ->
  forall n s, (s + n <= hi)%nat ->
  zfilter_mem (ap_nodes_from i s n) (bidx j 0 :: dp_nodes_from j 0 hj) =
  match meet_at i j s n with
  | Some t0 => [bidx (sib (i / 2 ^ Z.of_nat t0)) (Z.of_nat t0)]
  | None => []
  end.
Proof.
  intros Hoki Hokj Hi Hj Hcov. induction n as [|n IH]; intros s Hs; [reflexivity|].
  cbn [ap_nodes_from zfilter_mem meet_at].
  destruct (meetb i j s) eqn:Em.
  - apply meetb_spec in Em.
    replace (zmem _ _) with true.
    2:{ symmetry. apply (mem_affected i j hi hj s Hoki Hokj Hi Hj ltac:(lia)). split; [exact Em|]. apply Hcov; [lia|exact Em]. }
    f_equal. apply (filter_no_meet i j hi hj Hoki Hokj Hi Hj); [lia|].
    intros t Ht Hm. pose proof (meet_unique i j s t Hi Hj Em Hm). lia.
  - replace (zmem _ _) with false; [apply IH; lia|].
    symmetry. destruct (zmem _ _) eqn:Ez; [|reflexivity].
    apply (mem_affected i j hi hj s Hoki Hokj Hi Hj ltac:(lia)) in Ez. destruct Ez as [Hm _].
    apply meetb_spec in Hm. congruence.
Qed.

Lemma bpath_from_upd_out ls i j d : 0 <= i -> 0 <= j ->
  forall n s, (forall t, (s <= t < s + n)%nat -> ~ meet i j t) ->
  bpath_from D H dflt (upd ls j d) i s n = bpath_from D H dflt ls i s n.
Proof.
  intros Hi Hj. induction n as [|n IH]; intros s Hno; [reflexivity|].
  cbn [bpath_from]. rewrite IH by (intros t Ht; apply Hno; lia). f_equal.
  apply broot_upd_out; [apply sib_nonneg; apply Z.div_pos; [lia|apply p2_nat_pos] | lia |].
  intros E. apply (Hno s ltac:(lia)). unfold meet. symmetry. exact E.
Qed.

(* C05: update_from_leaf_mutation turns the path in ls into the path in (upd ls j d) *)
Theorem update_from_leaf_mutation_spec ls i j d :
  0 <= i < zlength ls -> 0 <= j < zlength ls -> zlength ls < 2 ^ 63 ->
  exists b, update_from_leaf_mutation D H (path D H dflt ls i) i (j, d, path D H dflt ls j) =
            Some (path D H dflt (upd ls j d) i, b).
Proof.
  intros Hi Hj Hl.
  assert (Hl64 : zlength ls < 2 ^ 64) by (change (2 ^ 63) with 9223372036854775808 in Hl; change (2 ^ 64) with 18446744073709551616; lia).
  destruct (path_hgt D H dflt ls i Hi Hl) as [Hpi Hoki].
  destruct (path_hgt D H dflt ls j Hj Hl) as [Hpj Hokj].
  pose proof (path_hgt D H dflt (upd ls j d) i) as Hpu. rewrite zlength_upd in Hpu. destruct (Hpu Hi Hl) as [Hpu' _]. clear Hpu.
  assert (Hcov : forall t, (t < hgt (zlength ls) i)%nat -> meet i j t -> hgt (zlength ls) j = hgt (zlength ls) i).
  { intros t Ht Hm. apply (hgt_same (zlength ls) i j Hi Hj Hl64).
    exact (meet_above i j t (hgt (zlength ls) i) (proj1 Hi) (proj1 Hj) Hm Ht). }
  unfold update_from_leaf_mutation.
  rewrite (get_direct_path_indices_spec D H dflt ls j Hj Hl). cbn [obind].
  rewrite (get_node_indices_spec D H dflt ls i Hi Hl). cbn [obind].
  remember (hgt (zlength ls) i) as hi eqn:Ehi. remember (hgt (zlength ls) j) as hj eqn:Ehj'.
  clear Ehi Ehj'.
  rewrite (zuniq_ap_nodes i hi Hoki ltac:(lia) hi 0%nat ltac:(lia)).
  rewrite (filter_meet i j hi hj Hoki Hokj ltac:(lia) ltac:(lia)) by (try lia; intros t Ht Hm; rewrite (Hcov t Ht Hm); lia).
  destruct (meet_at i j 0 hi) as [t0|] eqn:Ema.
  - apply meet_at_some in Ema. destruct Ema as [Ht0 Hm0].
    pose proof (Hcov t0 ltac:(lia) Hm0) as Ehj.
    rewrite l2n_bidx by lia. cbn [obind].
    rewrite Hpj. unfold bpath.
    assert (Esplit : bpath_from D H dflt ls j 0 hj = bpath_from D H dflt ls j 0 t0 ++ bpath_from D H dflt ls j (0 + t0) (hj - t0)).
    { rewrite <- bpath_from_app. f_equal. clear - Ht0 Ehj. lia. }
    rewrite Esplit.
    assert (Hj0 : bidx j 0 = bidx (j / 2 ^ Z.of_nat 0) (Z.of_nat 0)) by (change (2 ^ Z.of_nat 0) with 1; rewrite Z.div_1_r; reflexivity).
    unfold meet in Hm0. rewrite Hm0.
    assert (Ht0le : (t0 <= hj)%nat) by (clear - Ht0 Ehj; lia).
    pose proof (uflm_loop_spec D H dflt ls j d Hj hj Hokj t0 Ht0le t0 0%nat (dins D [] (bidx j 0) d) eq_refl
                               (map_ok_init D H dflt ls j d Hj hj Hokj) (bpath_from D H dflt ls j (0 + t0) (hj - t0))) as (m' & Hu & Hm').
    rewrite <- Hj0 in Hu. rewrite (nv_0 D H dflt ls j d Hj) in Hu. rewrite Hu. cbn [obind].
    eexists. f_equal. f_equal.
    rewrite Hpi, Hpu'. unfold bpath.
    apply (replace_known_spec D H dflt ls i j d hi hj m' t0 (proj1 Hi) Hj Hoki Hokj Hm').
    + intros t Ht Hm. pose proof (meet_unique i j t t0 (proj1 Hi) (proj1 Hj) Hm Hm0) as Et. clear - Et. lia.
    + clear. lia.
  - exists false. f_equal. f_equal.
    rewrite Hpi, Hpu'. unfold bpath. symmetry.
    apply bpath_from_upd_out; try lia. intros t Ht. apply (meet_at_none i j hi 0 Ema). lia.
Qed.

End Uflm.

(* ---------------------------------------------------------------- batch_update_from_leaf_mutation *)
Section Buflm.
Variable D : Type.
Variable H : D -> D -> D.
Variable deq : D -> D -> bool.
Variable dflt : D.
Hypothesis deq_spec : forall x y, deq x y = true <-> x = y.

Lemma rfc_spec ls i j d (topi topj : nat) m tmax :
  0 <= i -> 0 <= j < zlength ls ->
  okb (i / 2 ^ Z.of_nat topi) topi -> okb (j / 2 ^ Z.of_nat topj) topj ->
  map_ok D H dflt ls j d m tmax ->
  (forall t, (t < topi)%nat -> meet i j t -> (t <= tmax)%nat) ->
  forall n s, (s + n <= topi)%nat ->
  exists b,
    replace_first_changed D deq m (bpath_from D H dflt ls i s n) (ap_nodes_from i s n) =
    (bpath_from D H dflt (upd ls j d) i s n, b) /\
    (b = false -> bpath_from D H dflt (upd ls j d) i s n = bpath_from D H dflt ls i s n) /\
    (b = true -> bpath_from D H dflt (upd ls j d) i s n <> bpath_from D H dflt ls i s n).
Proof.
  intros Hi Hj Hoki Hokj Hm Hcov. induction n as [|n IH]; intros s Hs.
  - exists false. cbn [bpath_from ap_nodes_from replace_first_changed]. split; [reflexivity|]. split; [reflexivity|discriminate].
  - cbn [bpath_from ap_nodes_from replace_first_changed].
    assert (Hsib : okb (sib (i / 2 ^ Z.of_nat s)) s) by (apply (okb_sib i s topi Hoki); [exact Hi|clear - Hs; lia]).
    rewrite (Hm _ _ Hsib).
    destruct (IH (S s) ltac:(clear - Hs; lia)) as (b & Hb1 & Hb2 & Hb3).
    assert (Hhead_out : sib (i / 2 ^ Z.of_nat s) <> j / 2 ^ Z.of_nat s ->
            broot D H dflt (upd ls j d) (sib (i / 2 ^ Z.of_nat s)) s = broot D H dflt ls (sib (i / 2 ^ Z.of_nat s)) s).
    { intros Hne. apply broot_upd_out; [destruct Hsib; assumption | destruct Hj; assumption |].
      intros E. apply Hne. symmetry. exact E. }
    destruct ((s <=? tmax)%nat && (sib (i / 2 ^ Z.of_nat s) =? j / 2 ^ Z.of_nat s)) eqn:Ec.
    + apply andb_true_iff in Ec. destruct Ec as [_ Ec]. apply Z.eqb_eq in Ec.
      assert (Enew : broot D H dflt (upd ls j d) (sib (i / 2 ^ Z.of_nat s)) s = nv D H dflt ls j d s)
        by (unfold nv; rewrite Ec; reflexivity).
      assert (Hrest : bpath_from D H dflt (upd ls j d) i (S s) n = bpath_from D H dflt ls i (S s) n).
      { apply bpath_from_upd_out; [exact Hi | destruct Hj; assumption |].
        intros t Ht Hmt. assert (Hms : meet i j s) by exact Ec.
        pose proof (meet_unique i j s t Hi (proj1 Hj) Hms Hmt) as Et. clear - Et Ht. lia. }
      destruct (deq (broot D H dflt ls (sib (i / 2 ^ Z.of_nat s)) s) (nv D H dflt ls j d s)) eqn:Ed.
      * apply deq_spec in Ed. cbn [negb]. rewrite Hb1. exists b. rewrite Enew, <- Ed.
        split; [reflexivity|]. split.
        -- intros Hbf. rewrite (Hb2 Hbf). reflexivity.
        -- intros Hbt Heq. apply (Hb3 Hbt). inversion Heq. reflexivity.
      * cbn [negb]. exists true. rewrite Enew, Hrest. split; [reflexivity|]. split; [discriminate|].
        intros _ Heq. inversion Heq as [Hh]. rewrite Hh in Ed.
        assert (deq (nv D H dflt ls j d s) (nv D H dflt ls j d s) = true) by (apply deq_spec; reflexivity). congruence.
    + assert (Hne : sib (i / 2 ^ Z.of_nat s) <> j / 2 ^ Z.of_nat s).
      { intros E. apply andb_false_iff in Ec. destruct Ec as [Ec|Ec].
        - apply Nat.leb_gt in Ec. pose proof (Hcov s ltac:(clear - Hs; lia) E). clear - Ec H0. lia.
        - apply Z.eqb_neq in Ec. contradiction. }
      rewrite Hb1. exists b. rewrite (Hhead_out Hne). split; [reflexivity|]. split.
      * intros Hbf. rewrite (Hb2 Hbf). reflexivity.
      * intros Hbt Heq. apply (Hb3 Hbt). inversion Heq. reflexivity.
Qed.

(* which positions of a list of tracked leaves have a changed path *)
Fixpoint md_spec (old new : list D) (p : Z) (idxs : list Z) (md : list Z) : Prop :=
  match idxs with
  | [] => md = []
  | i :: r =>
    (path D H dflt new i = path D H dflt old i /\ md_spec old new (p + 1) r md) \/
    (path D H dflt new i <> path D H dflt old i /\ exists md', md = p :: md' /\ md_spec old new (p + 1) r md')
  end.

Lemma buflm_proofs_spec ls j d m (hj : nat) :
  0 <= j < zlength ls -> zlength ls < 2 ^ 63 -> hj = hgt (zlength ls) j ->
  map_ok D H dflt ls j d m (hj - 1) ->
  forall idxs p, Forall (fun i => 0 <= i < zlength ls) idxs ->
  exists md, buflm_proofs D deq p m (map (path D H dflt ls) idxs) idxs =
             Some (map (path D H dflt (upd ls j d)) idxs, md) /\ md_spec ls (upd ls j d) p idxs md.
Proof.
  intros Hj Hl Ehj Hm. induction idxs as [|i idxs IH]; intros p Hall.
  - exists []. split; reflexivity.
  - pose proof (Forall_inv Hall) as Hi. pose proof (Forall_inv_tail Hall) as Hall'. cbv beta in Hi.
    cbn [map buflm_proofs].
    assert (Hl64 : zlength ls < 2 ^ 64) by (change (2 ^ 63) with 9223372036854775808 in Hl; change (2 ^ 64) with 18446744073709551616; clear - Hl; lia).
    rewrite (get_node_indices_spec D H dflt ls i Hi Hl). cbn [obind].
    destruct (path_hgt D H dflt ls i Hi Hl) as [Hpi Hoki].
    destruct (path_hgt D H dflt ls j Hj Hl) as [Hpj Hokj].
    pose proof (path_hgt D H dflt (upd ls j d) i) as Hpu. rewrite zlength_upd in Hpu. destruct (Hpu Hi Hl) as [Hpu' _]. clear Hpu.
    assert (Hcov : forall t, (t < hgt (zlength ls) i)%nat -> meet i j t -> (t <= hgt (zlength ls) j - 1)%nat).
    { intros t Ht Hmt.
      assert (E : hgt (zlength ls) j = hgt (zlength ls) i).
      { apply (hgt_same (zlength ls) i j Hi Hj Hl64).
        exact (meet_above i j t (hgt (zlength ls) i) (proj1 Hi) (proj1 Hj) Hmt Ht). }
      clear - E Ht. lia. }
    rewrite <- Ehj in *.
    destruct (rfc_spec ls i j d (hgt (zlength ls) i) hj m (hj - 1) (proj1 Hi) Hj Hoki Hokj Hm Hcov
                       (hgt (zlength ls) i) 0%nat (Nat.le_refl _)) as (b & Hb1 & Hb2 & Hb3).
    rewrite Hpi. unfold bpath at 1. rewrite Hb1.
    destruct (IH (p + 1) Hall') as (md & Hmd1 & Hmd2). rewrite Hmd1. cbn [obind].
    fold (bpath D H dflt (upd ls j d) i (hgt (zlength ls) i)). rewrite <- Hpu'.
    destruct b.
    + exists (p :: md). split; [reflexivity|]. cbn [md_spec]. right. split.
      * rewrite Hpi, Hpu'. apply Hb3. reflexivity.
      * exists md. auto.
    + exists md. split; [reflexivity|]. cbn [md_spec]. left. split; [|exact Hmd2].
      rewrite Hpi, Hpu'. apply Hb2. reflexivity.
Qed.

Theorem batch_update_from_leaf_mutation_spec ls j d idxs :
  0 <= j < zlength ls -> zlength ls < 2 ^ 63 -> Forall (fun i => 0 <= i < zlength ls) idxs ->
  exists md,
    batch_update_from_leaf_mutation D H deq (map (path D H dflt ls) idxs) idxs (j, d, path D H dflt ls j) =
    Some (map (path D H dflt (upd ls j d)) idxs, md) /\ md_spec ls (upd ls j d) 0 idxs md.
Proof.
  intros Hj Hl Hall. unfold batch_update_from_leaf_mutation.
  rewrite map_length. rewrite Nat.eqb_refl. cbn [negb].
  rewrite l2n_bidx by (clear - Hj Hl; lia). cbn [obind].
  destruct (path_hgt D H dflt ls j Hj Hl) as [Hpj Hokj]. rewrite Hpj. unfold bpath.
  remember (hgt (zlength ls) j) as hj eqn:Ehj.
  assert (Hj0 : bidx j 0 = bidx (j / 2 ^ Z.of_nat 0) (Z.of_nat 0)) by (change (2 ^ Z.of_nat 0) with 1; rewrite Z.div_1_r; reflexivity).
  pose proof (buflm_loop_spec D H dflt ls j d Hj hj Hokj hj 0%nat (dins D [] (bidx j 0) d) eq_refl
                              (map_ok_init D H dflt ls j d Hj hj Hokj)) as (m' & Hu & Hm').
  rewrite <- Hj0 in Hu. rewrite (nv_0 D H dflt ls j d Hj) in Hu. rewrite Hu. cbn [obind].
  cbn [Nat.add] in Hm'.
  exact (buflm_proofs_spec ls j d m' hj Hj Hl Ehj Hm' idxs 0 Hall).
Qed.

End Buflm.

(* ---------------------------------------------------------------- verify_batch_update *)
Lemma zmax_lt : forall l m n, m < n -> Forall (fun x => x < n) l -> zmax l m < n.
Proof.
  induction l as [|x l IH]; intros m n Hm Hall; cbn [zmax]; [exact Hm|].
  apply IH; [|exact (Forall_inv_tail Hall)]. pose proof (Forall_inv Hall) as Hx. cbv beta in Hx. lia.
Qed.

Section VbuIff.
Variable D : Type.
Variable H : D -> D -> D.
Variable deq : D -> D -> bool.
Variable dflt : D.
Hypothesis deq_spec : forall x y, deq x y = true <-> x = y.

Lemma vbu_muts_spec : forall (ivs : list (Z * D)) cur,
  zlength cur < 2 ^ 63 -> Forall (fun m => 0 <= fst m < zlength cur) ivs ->
  vbu_muts D H deq (peaks_spec D H dflt cur) (zlength cur) ivs (map (fun m => path D H dflt cur (fst m)) ivs) =
  Some (peaks_spec D H dflt (apply_muts D cur ivs)).
Proof.
  induction ivs as [|[i d] ivs IH]; intros cur Hl Hall; [reflexivity|].
  pose proof (Forall_inv Hall) as Hi. pose proof (Forall_inv_tail Hall) as Hall'. cbn [fst] in Hi.
  assert (Hl64 : zlength cur < 2 ^ 64) by (change (2 ^ 63) with 9223372036854775808 in Hl; change (2 ^ 64) with 18446744073709551616; clear - Hl; lia).
  cbn [map vbu_muts fst].
  rewrite (mutate_spec D H deq dflt cur i d Hi Hl64). cbn [obind].
  assert (Hall2 : Forall (fun x => 0 <= x < zlength cur) (map fst ivs)).
  { clear - Hall'. induction ivs as [|m ivs IHi]; [constructor|]. cbn [map]. constructor.
    - exact (Forall_inv Hall').
    - apply IHi. exact (Forall_inv_tail Hall'). }
  destruct (batch_update_from_leaf_mutation_spec D H deq dflt deq_spec cur i d (map fst ivs) Hi Hl Hall2) as (md & Hb & _).
  replace (map (fun m : Z * D => path D H dflt cur (fst m)) ivs) with (map (path D H dflt cur) (map fst ivs)) by (rewrite map_map; reflexivity).
  match goal with |- context [batch_update_from_leaf_mutation ?a ?b ?c ?e ?f ?g] =>
    replace (batch_update_from_leaf_mutation a b c e f g) with (Some (map (path D H dflt (upd cur i d)) (map fst ivs), md)) by (symmetry; exact Hb) end.
  cbn [obind].
  rewrite map_map. unfold apply_muts. cbn [fold_left fst snd].
  rewrite <- (zlength_upd cur i d).
  apply IH.
  - rewrite zlength_upd. exact Hl.
  - rewrite zlength_upd. exact Hall'.
Qed.

Lemma vbu_appends_spec : forall (ds : list D) cur, zlength cur + zlength ds < 2 ^ 63 ->
  vbu_appends D H (peaks_spec D H dflt cur) (zlength cur) ds = Some (peaks_spec D H dflt (cur ++ ds)).
Proof.
  induction ds as [|d ds IH]; intros cur Hl.
  - cbn [vbu_appends]. rewrite app_nil_r. reflexivity.
  - cbn [vbu_appends].
    assert (Hd : zlength (d :: ds) = 1 + zlength ds) by (unfold zlength; cbn [length]; lia).
    pose proof (zlength_nonneg ds) as Hds. pose proof (zlength_nonneg cur) as Hc.
    assert (Hl64 : zlength cur + 1 < 2 ^ 64) by (change (2 ^ 63) with 9223372036854775808 in Hl; change (2 ^ 64) with 18446744073709551616; lia).
    rewrite (append_spec D H dflt cur d Hl64). cbn [obind].
    unfold add64, two64. change (2 ^ 64) with 18446744073709551616 in Hl64.
    destruct (Z.ltb_spec (zlength cur + 1) 18446744073709551616) as [_|Hbad]; [|exfalso; lia]. cbn [obind].
    replace (zlength cur + 1) with (zlength (cur ++ [d])) by (rewrite zlength_app; reflexivity).
    rewrite IH by (rewrite zlength_app; change (zlength [d]) with 1; lia).
    rewrite <- app_assoc. reflexivity.
Qed.

(* C11: for distinct in-range indices with valid proofs, batch-update verification returns true exactly
   when applying the mutations and then the appends yields the stated peaks *)
Theorem verify_batch_update_iff (ls new_peaks appended : list D) (ivs : list (Z * D)) :
  zlength ls + zlength appended < 2 ^ 63 ->
  distinctb (map fst ivs) = true ->
  Forall (fun m => 0 <= fst m < zlength ls) ivs ->
  verify_batch_update D H deq (zlength ls, peaks_spec D H dflt ls) new_peaks appended
                      (map (fun m => (fst m, snd m, path D H dflt ls (fst m))) ivs) =
  Some (list_deq D deq (peaks_spec D H dflt (apply_muts D ls ivs ++ appended)) new_peaks).
Proof.
  intros Hl Hd Hall. unfold verify_batch_update. cbv zeta. cbn [fst snd].
  pose proof (zlength_nonneg appended) as Hna. pose proof (zlength_nonneg ls) as Hnl.
  assert (Eidx : map (fun x : leaf_mutation D => fst (fst x)) (map (fun m => (fst m, snd m, path D H dflt ls (fst m))) ivs) = map fst ivs).
  { rewrite map_map. apply map_ext. intros [i d]. reflexivity. }
  match goal with |- context [znodup ?l] => replace l with (map fst ivs) by (symmetry; exact Eidx) end.
  rewrite znodup_distinctb, Hd. cbn [negb].
  assert (Hall2 : Forall (fun x => x < zlength ls) (map fst ivs)).
  { clear - Hall. induction ivs as [|m ivs IHi]; [constructor|]. cbn [map]. constructor.
    - pose proof (Forall_inv Hall) as Hm. cbv beta in Hm. lia.
    - apply IHi. exact (Forall_inv_tail Hall). }
  replace ((acc_is_empty D (zlength ls, peaks_spec D H dflt ls) && negb (length (map fst ivs) =? 0)%nat)
           || (negb (length (map fst ivs) =? 0)%nat && (zlength ls <=? zmax (map fst ivs) 0))) with false.
  2:{ symmetry. destruct ivs as [|m ivs]; [cbn [map length Nat.eqb negb andb]; rewrite andb_false_r; reflexivity|].
      cbn [map length Nat.eqb negb andb]. rewrite andb_true_r.
      pose proof (Forall_inv Hall) as Hm. cbv beta in Hm.
      unfold acc_is_empty. cbn [fst].
      destruct (Z.eqb_spec (zlength ls) 0) as [E0|_]; [exfalso; lia|]. cbn [orb].
      pose proof (zmax_lt (map fst (m :: ivs)) 0 (zlength ls) ltac:(lia) Hall2) as Hz.
      cbn [map] in Hz. apply Z.leb_gt. exact Hz. }
  assert (Emaps1 : map fst (map (fun m => (fst m, snd m, path D H dflt ls (fst m))) ivs) = ivs).
  { rewrite map_map. cbn [fst]. rewrite <- (map_id ivs) at 2. apply map_ext. intros [i d]. reflexivity. }
  assert (Emaps2 : map snd (map (fun m => (fst m, snd m, path D H dflt ls (fst m))) ivs) = map (fun m => path D H dflt ls (fst m)) ivs).
  { rewrite map_map. apply map_ext. intros [i d]. reflexivity. }
  match goal with |- context [vbu_muts _ _ _ _ _ ?l1 ?l2] =>
    replace l1 with ivs by (symmetry; exact Emaps1);
    replace l2 with (map (fun m => path D H dflt ls (fst m)) ivs) by (symmetry; exact Emaps2) end.
  rewrite (vbu_muts_spec ivs ls ltac:(lia) Hall). cbn [obind].
  assert (Elen : zlength (apply_muts D ls ivs) = zlength ls).
  { clear. revert ls. induction ivs as [|m ivs IH]; intros ls; [reflexivity|].
    unfold apply_muts. cbn [fold_left]. fold (apply_muts D (upd ls (fst m) (snd m)) ivs). rewrite IH. apply zlength_upd. }
  rewrite <- Elen.
  rewrite vbu_appends_spec by (rewrite Elen; exact Hl). cbn [obind]. reflexivity.
Qed.

End VbuIff.
