(* proofs/NttBitrev.v - C06: the bit-reversal swap loop of model/Ntt.v (run literally on a functional
   array) is, for a list of length 2^l, the reordering by bitrev_nat l - structurally `brev l`. *)
From Coq Require Import ZArith Lia List Bool Arith PeanoNat ZifyNat FMapPositive.
From TF Require Import Dft Ntt NttLists.
Import ListNotations.
Local Open Scope Z_scope.

(* ------------------------------------------------------------------ bitreverse on Z = bitrev_nat *)
Lemma lor_shiftl_bit r b : 0 <= r -> (b = 0 \/ b = 1) -> Z.lor (Z.shiftl r 1) b = 2 * r + b.
Proof.
  intros Hr [-> | ->].
  - rewrite Z.lor_0_r, Z.shiftl_mul_pow2 by lia. lia.
  - destruct r as [|p|p]; [reflexivity| |lia]. reflexivity.
Qed.
Lemma land_1 n : Z.land n 1 = n mod 2.
Proof. change 1 with (Z.ones 1) at 1. rewrite Z.land_ones by lia. reflexivity. Qed.

Lemma bitrev_go_spec l : forall N r, 0 <= r ->
  bitrev_go l (Z.of_nat N) r = r * 2 ^ Z.of_nat l + Z.of_nat (bitrev_nat l N).
Proof.
  induction l; intros N r Hr.
  - cbn [bitrev_go bitrev_nat]. change (2 ^ Z.of_nat 0) with 1. lia.
  - cbn [bitrev_go]. rewrite bitrev_nat_S.
    rewrite Z.shiftr_div_pow2 by lia. change (2 ^ 1) with 2.
    rewrite land_1. rewrite lor_shiftl_bit by (try lia; pose proof (Z.mod_pos_bound (Z.of_nat N) 2); lia).
    change 2 with (Z.of_nat 2) at 1 3. rewrite <- Nat2Z.inj_div, <- Nat2Z.inj_mod.
    rewrite IHl by lia.
    rewrite Nat2Z.inj_succ, Z.pow_succ_r by lia.
    rewrite Nat2Z.inj_add, Nat2Z.inj_mul, Nat2Z.inj_pow. change (Z.of_nat 2) with 2. ring.
Qed.
Lemma bitreverse_nat N l : bitreverse (Z.of_nat N) l = Z.of_nat (bitrev_nat l N).
Proof. unfold bitreverse. rewrite bitrev_go_spec by lia. lia. Qed.

(* ------------------------------------------------------------------ arrays *)
Lemma akey_inj i j : 0 <= i -> 0 <= j -> akey i = akey j -> i = j.
Proof. unfold akey. intros Hi Hj H. apply Z2Pos.inj in H; lia. Qed.
Lemma aget_aset_same {A} (a : arr A) i v : aget (aset a i v) i = Some v.
Proof. apply PositiveMap.gss. Qed.
Lemma aget_aset_other {A} (a : arr A) i j v : 0 <= i -> 0 <= j -> i <> j -> aget (aset a j v) i = aget a i.
Proof.
  intros Hi Hj Hne. apply PositiveMap.gso. intros E. apply Hne. apply akey_inj; assumption.
Qed.

Lemma aget_of_list_go {A} (x : list A) : forall i a j, 0 <= i -> 0 <= j ->
  aget (of_list_go x i a) j =
  if (j <? i) || (i + Z.of_nat (length x) <=? j) then aget a j else nth_error x (Z.to_nat (j - i)).
Proof.
  induction x as [|v r IH]; intros i a j Hi Hj; cbn [of_list_go length].
  - destruct (j <? i) eqn:E1; [reflexivity|]. apply Z.ltb_ge in E1.
    destruct (i + Z.of_nat 0 <=? j) eqn:E2; [reflexivity|]. apply Z.leb_gt in E2. lia.
  - rewrite IH by lia. rewrite Nat2Z.inj_succ.
    destruct (j <? i) eqn:E1.
    + apply Z.ltb_lt in E1. replace (j <? i + 1) with true by (symmetry; apply Z.ltb_lt; lia).
      cbn [orb]. apply aget_aset_other; lia.
    + apply Z.ltb_ge in E1. cbn [orb].
      replace (i + 1 + Z.of_nat (length r) <=? j) with (i + Z.succ (Z.of_nat (length r)) <=? j) by (f_equal; lia).
      destruct (i + Z.succ (Z.of_nat (length r)) <=? j) eqn:E2.
      * rewrite orb_true_r. apply Z.leb_le in E2. apply aget_aset_other; lia.
      * rewrite orb_false_r. apply Z.leb_gt in E2.
        destruct (j <? i + 1) eqn:E3.
        -- apply Z.ltb_lt in E3. assert (j = i) by lia. subst j. rewrite aget_aset_same.
           rewrite Z.sub_diag. reflexivity.
        -- apply Z.ltb_ge in E3. replace (Z.to_nat (j - i)) with (S (Z.to_nat (j - (i + 1)))) by lia.
           reflexivity.
Qed.
Lemma aget_of_list {A} (x : list A) d j : (j < length x)%nat ->
  aget (of_list x) (Z.of_nat j) = Some (nth j x d).
Proof.
  intros Hj. unfold of_list. rewrite aget_of_list_go by lia.
  replace (Z.of_nat j <? 0) with false by (symmetry; apply Z.ltb_ge; lia).
  replace (0 + Z.of_nat (length x) <=? Z.of_nat j) with false by (symmetry; apply Z.leb_gt; lia).
  cbn [orb]. rewrite Z.sub_0_r, Nat2Z.id. apply nth_error_nth'. exact Hj.
Qed.

Lemma to_list_go_spec {A} (a : arr A) : forall fuel i (g : nat -> A),
  (forall k, (k < fuel)%nat -> aget a (i + Z.of_nat k) = Some (g k)) ->
  to_list_go fuel i a = Some (map g (seq 0 fuel)).
Proof.
  induction fuel; intros i g H; [reflexivity|]. cbn [to_list_go].
  pose proof (H 0%nat ltac:(lia)) as H0. rewrite Z.add_0_r in H0. rewrite H0.
  rewrite (IHfuel (i + 1) (fun k => g (S k))).
  - cbn [seq map]. rewrite <- seq_shift, map_map. reflexivity.
  - intros k Hk. rewrite <- (H (S k)) by lia. f_equal. lia.
Qed.

(* ------------------------------------------------------------------ the swap loop *)
Section SwapLoop.
  Context {A : Type} (d : A) (l : nat) (x : list A).
  Hypothesis Hx : length x = (2 ^ l)%nat.
  Let n := (2 ^ l)%nat.
  Let r := bitrev_nat l.
  (* after the rounds k < K: positions whose pair {i, r i} has been visited hold x[r i] *)
  Definition sel (K i : nat) : nat := if (Nat.min i (r i) <? K)%nat then r i else i.
  Definition swap_inv (a : arr A) (K : nat) : Prop :=
    forall i, (i < n)%nat -> aget a (Z.of_nat i) = Some (nth (sel K i) x d).

  Lemma r_lt i : (r i < n)%nat. Proof. apply bitrev_nat_lt. Qed.
  Lemma r_invol i : (i < n)%nat -> r (r i) = i. Proof. apply bitrev_nat_invol. Qed.

  Lemma swap_loop_inv : forall fuel K a, (K + fuel = n)%nat -> swap_inv a K ->
    exists a', swap_loop fuel (Z.of_nat K) l a = Some a' /\ swap_inv a' n.
  Proof.
    induction fuel; intros K a HK Hinv.
    - exists a. split; [reflexivity|]. replace n with K by lia. exact Hinv.
    - cbn [swap_loop]. rewrite bitreverse_nat. fold r.
      assert (HKn : (K < n)%nat) by lia. pose proof (r_lt K) as HrK. pose proof (r_invol K HKn) as Hinvol.
      destruct (Z.of_nat K <? Z.of_nat (r K)) eqn:E.
      + apply Z.ltb_lt in E. unfold aswap.
        rewrite (Hinv (r K) HrK), (Hinv K HKn).
        replace (Z.of_nat K + 1) with (Z.of_nat (S K)) by lia.
        apply IHfuel; [lia|]. intros i Hi.
        destruct (Nat.eq_dec i K) as [->|HiK].
        * rewrite aget_aset_same. f_equal. unfold sel. rewrite Hinvol.
          replace (Nat.min (r K) K <? K)%nat with false by (symmetry; apply Nat.ltb_ge; lia).
          replace (Nat.min K (r K) <? S K)%nat with true by (symmetry; apply Nat.ltb_lt; lia). reflexivity.
        * rewrite aget_aset_other by lia.
          destruct (Nat.eq_dec i (r K)) as [->|HirK].
          -- rewrite aget_aset_same. f_equal. unfold sel. rewrite Hinvol.
             replace (Nat.min K (r K) <? K)%nat with false by (symmetry; apply Nat.ltb_ge; lia).
             replace (Nat.min (r K) K <? S K)%nat with true by (symmetry; apply Nat.ltb_lt; lia). reflexivity.
          -- rewrite aget_aset_other by lia. rewrite (Hinv i Hi). f_equal. unfold sel.
             assert (r i <> K) by (intros E'; apply HirK; rewrite <- E'; symmetry; apply r_invol; exact Hi).
             destruct (Nat.min i (r i) <? K)%nat eqn:E1; destruct (Nat.min i (r i) <? S K)%nat eqn:E2; try reflexivity.
             ++ apply Nat.ltb_lt in E1. apply Nat.ltb_ge in E2. lia.
             ++ apply Nat.ltb_ge in E1. apply Nat.ltb_lt in E2. lia.
      + apply Z.ltb_ge in E.
        replace (Z.of_nat K + 1) with (Z.of_nat (S K)) by lia.
        apply IHfuel; [lia|]. intros i Hi. rewrite (Hinv i Hi). f_equal. unfold sel.
        destruct (Nat.min i (r i) <? K)%nat eqn:E1; destruct (Nat.min i (r i) <? S K)%nat eqn:E2; try reflexivity.
        * apply Nat.ltb_lt in E1. apply Nat.ltb_ge in E2. lia.
        * apply Nat.ltb_ge in E1. apply Nat.ltb_lt in E2.
          (* min i (r i) = K: then i = K = r K *)
          assert (Hm : Nat.min i (r i) = K) by lia.
          destruct (Nat.le_ge_cases i (r i)).
          -- assert (i = K) by lia. subst i. replace (r K) with K by lia. reflexivity.
          -- assert (r i = K) by lia. assert (i = r K) by (rewrite <- H0; symmetry; apply r_invol; exact Hi).
             replace (r i) with i by lia. reflexivity.
  Qed.

  Theorem bitrev_permute_brev : bitrev_permute l x = Some (brev l x).
  Proof.
    unfold bitrev_permute. rewrite Hx. fold n.
    destruct (swap_loop_inv n 0 (of_list x) ltac:(lia)) as [a' [E Hinv]].
    - intros i Hi. unfold sel. replace (Nat.min i (r i) <? 0)%nat with false by (symmetry; apply Nat.ltb_ge; lia).
      apply aget_of_list. rewrite Hx. exact Hi.
    - change (Z.of_nat 0) with 0 in E. rewrite E. unfold to_list.
      rewrite (to_list_go_spec a' n 0 (fun i => nth (r i) x d)).
      + f_equal. symmetry. rewrite (brev_bitrev_list d) by exact Hx. reflexivity.
      + intros k Hk. rewrite Z.add_0_l, (Hinv k Hk). f_equal. unfold sel.
        pose proof (r_lt k). replace (Nat.min k (r k) <? n)%nat with true by (symmetry; apply Nat.ltb_lt; lia).
        reflexivity.
  Qed.
End SwapLoop.

(* empty and one-element lists *)
Lemma bitrev_permute_nil {A} l : bitrev_permute l (@nil A) = Some [].
Proof. reflexivity. Qed.

(* ------------------------------------------------------------------ logn of a power of two *)
Lemma logn_go_pow2 l : forall fuel j, (j <= l)%nat -> (l - j <= fuel)%nat -> logn_go fuel j (2 ^ Z.of_nat l) = l.
Proof.
  induction fuel; intros j Hj Hf; cbn [logn_go]; [lia|].
  destruct (2 ^ Z.of_nat j <? 2 ^ Z.of_nat l) eqn:E.
  - apply Z.ltb_lt in E. apply Z.pow_lt_mono_r_iff in E; try lia. apply IHfuel; lia.
  - apply Z.ltb_ge in E. apply Z.pow_le_mono_r_iff in E; lia.
Qed.
Lemma logn_of_pow2 l : (l <= 64)%nat -> logn_of (Z.of_nat (2 ^ l)) = l.
Proof.
  intros H. unfold logn_of. rewrite Nat2Z.inj_pow. change (Z.of_nat 2) with 2. apply logn_go_pow2; lia.
Qed.

Theorem bitreverse_order_pow2 {A} l (x : list A) : (l <= 64)%nat -> length x = (2 ^ l)%nat ->
  bitreverse_order x = Some (brev l x).
Proof.
  intros Hl Hx. unfold bitreverse_order. rewrite Hx, logn_of_pow2 by exact Hl.
  destruct x as [|d x']; [cbn in Hx; pose proof (Nat.pow_nonzero 2 l); lia|].
  apply (bitrev_permute_brev d). exact Hx.
Qed.
