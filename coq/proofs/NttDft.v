(* proofs/NttDft.v - C06, the algebra: over an abstract field, the butterfly network of model/Ntt.v applied
   to the bit-reversed input is the discrete Fourier transform (decimation in time), and the transform
   with the inverse root, scaled by 1/n, is its inverse. *)
From Coq Require Import ZArith Lia List Bool Arith PeanoNat ZifyNat Ring Field.
From TF Require Import FieldOps FieldTheory Dft Ntt NttLists NttStruct.
Import ListNotations.
Local Open Scope nat_scope.

Section KLevel.
  Context {K : Type} (fk : fieldK K).
  Declare Scope K_scope.
  Delimit Scope K_scope with K.
  Local Notation "0" := (k0 fk) : K_scope.
  Local Notation "1" := (k1 fk) : K_scope.
  Local Infix "+" := (kadd fk) : K_scope.
  Local Infix "*" := (kmul fk) : K_scope.
  Local Infix "-" := (ksub fk) : K_scope.
  Local Notation "- x" := (kopp fk x) : K_scope.
  Local Notation "/ x" := (kinv fk x) : K_scope.
  Local Notation "x ^ n" := (kpow fk x n) : K_scope.
  Local Open Scope K_scope.
  Add Field kfield_NttDft : (kFT fk).
  Let ko := kops fk.
  Let ka := kact fk.
  Local Notation bflyK := (bfly ko ko ka).
  Local Notation stagesK := (stagesP ko ko ka).

  (* -------------------------------------------------------------- the inner loop, closed form *)
  Lemma bflyK_nth : forall us vs w_m w j, length us = length vs -> (j < length us)%nat ->
    nth j (fst (bflyK w_m w us vs)) 0 = nth j us 0 + nth j vs 0 * (w * w_m ^ j) /\
    nth j (snd (bflyK w_m w us vs)) 0 = nth j us 0 - nth j vs 0 * (w * w_m ^ j).
  Proof.
    induction us as [|u us IH]; intros [|v vs] w_m w j Hl Hj; cbn [length] in *; try lia.
    cbn [bfly]. specialize (IH vs w_m (fmul ko w w_m)).
    destruct (bflyK w_m (fmul ko w w_m) us vs) as [a b]. cbn [fst snd] in *.
    destruct j as [|j].
    - cbn [nth kpow]. cbn [fadd fsub smul ko ka kops kact]. split; ring.
    - cbn [nth]. destruct (IH j ltac:(lia) ltac:(lia)) as [I1 I2]. rewrite I1, I2.
      cbn [kpow]. cbn [fmul ko kops]. split; ring.
  Qed.

  (* -------------------------------------------------------------- powers of a root *)
  Lemma kpow_2 x : x ^ 2 = x * x. Proof. cbn [kpow]. ring. Qed.
  Lemma kpow_double x n : x ^ (2 * n) = (x * x) ^ n.
  Proof. rewrite kpow_mul, kpow_2. reflexivity. Qed.
  Lemma kpow_opp1_even n : (- (1)) ^ (2 * n) = 1.
  Proof. rewrite kpow_double. replace (- (1) * - (1)) with 1 by ring. apply kpow_1_l. Qed.

  (* -------------------------------------------------------------- decimation in time *)
  (* the radix-2 combine step: [E_i + w^i O_i]_i ++ [E_i - w^i O_i]_i *)
  Definition combine_dit (w : K) (e o : list K) : list K :=
    let '(a, b) := bflyK w 1 e o in a ++ b.

  Lemma dft_length w v : length (dft fk w v) = length v.
  Proof. unfold dft. rewrite map_length, seq_length. reflexivity. Qed.
  Lemma dft_nth w v i : (i < length v)%nat -> nth i (dft fk w v) 0 = dft_at fk w v i.
  Proof.
    intros Hi. unfold dft.
    rewrite (nth_indep _ 0 (dft_at fk w v 0%nat)) by (rewrite map_length, seq_length; exact Hi).
    rewrite map_nth, seq_nth by exact Hi. reflexivity.
  Qed.

  Lemma dft_dit w x h : length x = (2 * h)%nat -> w ^ h = - (1) ->
    combine_dit w (dft fk (w * w) (evens x)) (dft fk (w * w) (odds x)) = dft fk w x.
  Proof.
    intros Hx Hw. destruct (evens_odds_length x h Hx) as [Le Lo].
    unfold combine_dit.
    assert (Hl : length (dft fk (w * w) (evens x)) = length (dft fk (w * w) (odds x))) by (rewrite !dft_length; lia).
    pose proof (bfly_length ko ko ka _ _ w 1 Hl) as [La Lb].
    pose proof (fun j => bflyK_nth _ _ w 1 j Hl) as Hn.
    destruct (bflyK w 1 (dft fk (w * w) (evens x)) (dft fk (w * w) (odds x))) as [a b]. cbn [fst snd] in *.
    rewrite dft_length, Le in La, Lb, Hn.
    apply (nth_ext _ _ 0 0); [rewrite app_length, dft_length; lia|].
    intros i Hi. rewrite app_length, La, Lb in Hi.
    (* the two half-size transforms at index k, termwise *)
    assert (Ev : forall k, (k < h)%nat ->
              dft_at fk (w * w) (evens x) k = ksum fk (fun j => nth (2 * j) x 0 * w ^ (k * (2 * j))) h).
    { intros k Hk. unfold dft_at. rewrite Le. apply ksum_ext. intros j Hj.
      rewrite evens_nth. replace (k * (2 * j))%nat with (2 * (k * j))%nat by lia. rewrite kpow_double. reflexivity. }
    assert (Od : forall k, (k < h)%nat ->
              dft_at fk (w * w) (odds x) k * w ^ k = ksum fk (fun j => nth (2 * j + 1) x 0 * w ^ (k * (2 * j + 1))) h).
    { intros k Hk. unfold dft_at. rewrite Lo, <- ksum_mul_r. apply ksum_ext. intros j Hj.
      rewrite odds_nth. replace (k * (2 * j + 1))%nat with (2 * (k * j) + k)%nat by lia.
      rewrite kpow_add, kpow_double. ring. }
    rewrite dft_nth by lia. unfold dft_at at 1. rewrite Hx, ksum_even_odd.
    destruct (Nat.lt_ge_cases i h) as [Hlt|Hge].
    - rewrite app_nth1 by lia. destruct (Hn i Hlt) as [-> _].
      rewrite !dft_nth by lia. rewrite Ev by exact Hlt.
      transitivity (ksum fk (fun j => nth (2 * j) x 0 * w ^ (i * (2 * j))) h + dft_at fk (w * w) (odds x) i * w ^ i); [ring|].
      rewrite Od by exact Hlt. reflexivity.
    - rewrite app_nth2 by lia. rewrite La. set (k := (i - h)%nat). assert (Hk : (k < h)%nat) by lia.
      destruct (Hn k Hk) as [_ ->]. rewrite !dft_nth by lia. rewrite Ev by exact Hk.
      transitivity (ksum fk (fun j => nth (2 * j) x 0 * w ^ (k * (2 * j))) h - dft_at fk (w * w) (odds x) k * w ^ k); [ring|].
      rewrite Od by exact Hk.
      assert (Hih : i = (h + k)%nat) by lia. rewrite Hih.
      transitivity (ksum fk (fun j => nth (2 * j) x 0 * w ^ (k * (2 * j))) h +
                    ksum fk (fun j => - (nth (2 * j + 1) x 0 * w ^ (k * (2 * j + 1)))) h).
      { replace (ksum fk (fun j => - (nth (2 * j + 1) x 0 * w ^ (k * (2 * j + 1)))) h)
          with (- (1) * ksum fk (fun j => nth (2 * j + 1) x 0 * w ^ (k * (2 * j + 1))) h); [ring|].
        rewrite <- ksum_mul_l. apply ksum_ext. intros; ring. }
      f_equal; apply ksum_ext; intros j Hj.
      + replace ((h + k) * (2 * j))%nat with (h * (2 * j) + k * (2 * j))%nat by lia.
        rewrite kpow_add, (kpow_mul fk w h), Hw, kpow_opp1_even. ring.
      + replace ((h + k) * (2 * j + 1))%nat with (h * (2 * j) + h + k * (2 * j + 1))%nat by lia.
        rewrite !kpow_add, (kpow_mul fk w h), Hw, kpow_opp1_even. ring.
  Qed.

  (* -------------------------------------------------------------- twiddles of the sub-transforms *)
  Lemma kpowZ_double x e : (0 <= e)%Z -> kpowZ fk x (2 * e) = kpowZ fk (x * x) e.
  Proof.
    intros He. unfold kpowZ. rewrite Z2Nat.inj_mul by lia. change (Z.to_nat 2) with 2%nat. apply kpow_double.
  Qed.

  Lemma stagesK_twiddle l : forall m c (w : K) x, (0 < m)%nat ->
    stagesK l m c (2 * (2 ^ Z.of_nat l * Z.of_nat m))%Z w x = stagesK l m c (2 ^ Z.of_nat l * Z.of_nat m)%Z (w * w) x.
  Proof.
    induction l; intros m c w x Hm; [reflexivity|]. cbn [stagesP].
    assert (E2 : (2 ^ Z.of_nat (S l) * Z.of_nat m = 2 ^ Z.of_nat l * Z.of_nat (2 * m))%Z).
    { rewrite Nat2Z.inj_succ, Z.pow_succ_r by lia. lia. }
    rewrite E2. rewrite IHl by lia. f_equal. f_equal.
    cbn [fpow ko kops].
    replace (2 * (2 ^ Z.of_nat l * Z.of_nat (2 * m)) / (2 * Z.of_nat m))%Z with (2 * 2 ^ Z.of_nat l)%Z.
    2:{ apply Z.div_unique_exact; [lia|]. lia. }
    replace (2 ^ Z.of_nat l * Z.of_nat (2 * m) / (2 * Z.of_nat m))%Z with (2 ^ Z.of_nat l)%Z.
    2:{ apply Z.div_unique_exact; [lia|]. lia. }
    apply kpowZ_double. apply Z.pow_nonneg. lia.
  Qed.

  (* -------------------------------------------------------------- the network is the DFT *)
  (* hypothesis on the root for a transform of length 2^l: w^(2^(l-1)) = -1 (nothing for l = 0) *)
  Definition half_root (w : K) (l : nat) : Prop :=
    match l with O => True | S l' => w ^ (2 ^ l') = - (1) end.
  Lemma half_root_sq w l : half_root w (S l) -> half_root (w * w) l.
  Proof.
    destruct l as [|l]; [exact (fun _ => I)|]. cbn [half_root]. intros H.
    rewrite <- kpow_double. rewrite <- Nat.pow_succ_r'. exact H.
  Qed.

  Theorem stages_brev_dft l : forall (w : K) x, length x = (2 ^ l)%nat -> half_root w l ->
    stagesK l 1 1 (2 ^ Z.of_nat l)%Z w (brev l x) = dft fk w x.
  Proof.
    induction l; intros w x Hx Hw.
    - cbn [stagesP brev]. destruct x as [|x0 [|x1 r]]; try (cbn in Hx; discriminate Hx).
      cbn. f_equal. ring.
    - rewrite Nat.pow_succ_r' in Hx. destruct (evens_odds_length x _ Hx) as [Le Lo].
      rewrite stagesP_last. cbn [brev].
      change (2 * 1)%nat with (1 + 1)%nat.
      rewrite (stagesP_app ko ko ka l 1 1 1); [| rewrite brev_length by lia; lia | rewrite brev_length by lia; lia].
      replace (2 ^ Z.of_nat (S l))%Z with (2 * (2 ^ Z.of_nat l * Z.of_nat 1))%Z
        by (rewrite (Nat2Z.inj_succ l), Z.pow_succ_r by lia; lia).
      rewrite !stagesK_twiddle by lia.
      replace (2 ^ Z.of_nat l * Z.of_nat 1)%Z with (2 ^ Z.of_nat l)%Z by lia.
      rewrite (IHl (w * w) (evens x) Le (half_root_sq w l Hw)).
      rewrite (IHl (w * w) (odds x) Lo (half_root_sq w l Hw)).
      rewrite Nat.mul_1_r.
      rewrite stagesP_1_one by (rewrite app_length, !dft_length; lia).
      (* the last stage is the combine step with twiddle w^1 *)
      assert (Ew : fpow ko w (2 * 2 ^ Z.of_nat l / (2 * Z.of_nat (2 ^ l))) = w).
      { cbn [fpow ko kops].
        replace (Z.of_nat (2 ^ l)) with (2 ^ Z.of_nat l)%Z by (rewrite Nat2Z.inj_pow; reflexivity).
        rewrite Z.div_same by (pose proof (Z.pow_pos_nonneg 2 (Z.of_nat l)); lia).
        unfold kpowZ. change (Z.to_nat 1) with 1%nat. apply kpow_1. }
      rewrite Ew. unfold block1.
      rewrite firstn_app, skipn_app, dft_length, Le, Nat.sub_diag. cbn [firstn skipn]. rewrite app_nil_r.
      rewrite firstn_all2 by (rewrite dft_length; lia).
      rewrite skipn_all2 by (rewrite dft_length; lia). cbn [app].
      rewrite firstn_all2 by (rewrite dft_length; lia).
      apply (dft_dit w x (2 ^ l) Hx). exact Hw.
  Qed.

  (* -------------------------------------------------------------- exact order and the inverse transform *)
  (* char K <> 2 *)
  Definition two_neq_0 : Prop := 1 + 1 <> 0.

  Lemma opp1_neq_1 : two_neq_0 -> - (1) <> 1.
  Proof. intros H E. apply H. rewrite <- E at 1. ring. Qed.

  (* w^(2^k) = -1 implies that w has order exactly 2^(k+1) *)
  Lemma half_root_order : two_neq_0 -> forall k (w : K), w ^ (2 ^ k) = - (1) ->
    forall d, (0 < d < 2 ^ S k)%nat -> w ^ d <> 1.
  Proof.
    intros H2. induction k; intros w Hw d Hd.
    - cbn in Hd. assert (d = 1%nat) by lia. subst. cbn [Nat.pow] in Hw. rewrite Hw. apply opp1_neq_1, H2.
    - destruct (Nat.Even_or_Odd d) as [[d' ->]|[d' ->]].
      + rewrite kpow_double. apply IHk.
        * rewrite <- kpow_double, <- Nat.pow_succ_r'. exact Hw.
        * rewrite (Nat.pow_succ_r' 2 (S k)) in Hd. lia.
      + intros E. apply (opp1_neq_1 H2).
        transitivity ((w ^ (2 * d' + 1)) ^ (2 ^ S k)); [|rewrite E; apply kpow_1_l].
        rewrite <- kpow_mul, Nat.mul_comm, kpow_mul, Hw, kpow_add, kpow_opp1_even, kpow_1. ring.
  Qed.

  Lemma half_root_full w l : half_root w (S l) -> w ^ (2 ^ S l) = 1.
  Proof.
    cbn [half_root]. intros H. rewrite Nat.pow_succ_r', Nat.mul_comm, kpow_mul, H, kpow_2. ring.
  Qed.
  Lemma half_root_neq_0 w l : half_root w (S l) -> w <> 0.
  Proof.
    intros H E. pose proof (half_root_full w l H) as H1. rewrite E in H1.
    rewrite Nat.pow_succ_r' in H1. destruct (2 * 2 ^ l)%nat eqn:E2.
    - pose proof (Nat.pow_nonzero 2 l). lia.
    - rewrite kpow_0_l in H1. apply (k1_neq_0 fk). symmetry. exact H1.
  Qed.

  (* sum_{j<n} (w^d)^j = 0 for 0 < d < n = 2^(l+1) *)
  Lemma root_sum_zero : two_neq_0 -> forall l w d, half_root w (S l) -> (0 < d < 2 ^ S l)%nat ->
    ksum fk (fun j => w ^ (d * j)) (2 ^ S l) = 0.
  Proof.
    intros H2 l w d Hw Hd.
    assert (Hne : w ^ d - 1 <> 0).
    { intros E. apply (half_root_order H2 l w Hw d Hd). transitivity (w ^ d - 1 + 1); [ring|]. rewrite E. ring. }
    destruct (k_integral fk (w ^ d - 1) (ksum fk (fun j => w ^ (d * j)) (2 ^ S l))) as [E|E]; [|contradiction|exact E].
    rewrite (ksum_ext fk _ (fun j => (w ^ d) ^ j)) by (intros; apply kpow_mul).
    rewrite ksum_geometric. rewrite <- kpow_mul, Nat.mul_comm, kpow_mul, (half_root_full w l Hw), kpow_1_l. ring.
  Qed.

  Lemma kofZ_pow2_neq_0 : two_neq_0 -> forall l, kofZ fk (Z.of_nat (2 ^ l)) <> 0.
  Proof.
    intros H2. induction l.
    - change (Z.of_nat (2 ^ 0)) with 1%Z. rewrite kofZ_1. apply k1_neq_0.
    - rewrite Nat.pow_succ_r', Nat2Z.inj_mul, kofZ_mul. change (Z.of_nat 2) with (1 + 1)%Z.
      rewrite kofZ_add, kofZ_1. intros E. destruct (k_integral fk _ _ E); contradiction.
  Qed.

  (* dft with the inverse root undoes dft, up to the factor n *)
  Lemma dft_inv_dft_nth : two_neq_0 -> forall l w x i, length x = (2 ^ l)%nat -> half_root w l -> w <> 0 -> (i < 2 ^ l)%nat ->
    dft_at fk (/ w) (dft fk w x) i = kofZ fk (Z.of_nat (2 ^ l)) * nth i x 0.
  Proof.
    intros H2 l w x i Hx Hw Hw0 Hi. unfold dft_at at 1. rewrite dft_length, Hx.
    rewrite (ksum_ext fk _ (fun k => ksum fk (fun j => nth j x 0 * (w ^ (k * j) * (/ w) ^ (i * k))) (2 ^ l))).
    2:{ intros k Hk. rewrite dft_nth by lia. unfold dft_at. rewrite Hx, <- ksum_mul_r. apply ksum_ext. intros; ring. }
    rewrite ksum_swap.
    rewrite (ksum_single fk _ (2 ^ l) i Hi).
    - rewrite (ksum_ext fk _ (fun _ => nth i x 0)).
      + rewrite ksum_const. reflexivity.
      + intros k Hk. rewrite kpow_inv by exact Hw0. rewrite (Nat.mul_comm k i). field. apply kpow_neq_0. exact Hw0.
    - intros j Hj Hne.
      rewrite ksum_mul_l.
      destruct l as [|l]; [cbn in Hi, Hj; lia|].
      assert (Z0 : ksum fk (fun k => w ^ (k * j) * (/ w) ^ (i * k)) (2 ^ S l) = 0); [|rewrite Z0; ring].
      destruct (Nat.lt_ge_cases i j) as [Hlt|Hge].
      + (* w^(kj) w^(-ik) = (w^(j-i))^k *)
        rewrite (ksum_ext fk _ (fun k => w ^ ((j - i) * k))).
        * apply (root_sum_zero H2 l w (j - i) Hw). lia.
        * intros k Hk. replace (k * j)%nat with ((j - i) * k + i * k)%nat by nia.
          rewrite kpow_add, kpow_inv by exact Hw0. field. apply kpow_neq_0. exact Hw0.
      + (* = ((w^-1)^(i-j))^k, and w^-1 is again a root with the same property *)
        assert (Hwi : half_root (/ w) (S l)).
        { cbn [half_root] in *. rewrite kpow_inv, Hw by exact Hw0.
          symmetry. apply kinv_unique. ring. }
        rewrite (ksum_ext fk _ (fun k => (/ w) ^ ((i - j) * k))).
        * apply (root_sum_zero H2 l (/ w) (i - j) Hwi). lia.
        * intros k Hk. replace (i * k)%nat with ((i - j) * k + k * j)%nat by nia.
          rewrite (kpow_add fk (/ w)), !kpow_inv by exact Hw0. field. split; apply kpow_neq_0; exact Hw0.
  Qed.

  Theorem idft_dft : two_neq_0 -> forall l w x, length x = (2 ^ l)%nat -> half_root w l -> w <> 0 ->
    idft fk w (dft fk w x) = x.
  Proof.
    intros H2 l w x Hx Hw Hw0. unfold idft.
    apply (nth_ext _ _ 0 0); [rewrite map_length, !dft_length; reflexivity|].
    intros i Hi. rewrite map_length, !dft_length in Hi.
    rewrite (nth_map_lt _ _ 0) by (rewrite !dft_length; exact Hi).
    rewrite dft_nth by (rewrite dft_length; exact Hi).
    rewrite (dft_inv_dft_nth H2 l w x i Hx Hw Hw0) by lia. rewrite dft_length, Hx.
    field. apply kofZ_pow2_neq_0. exact H2.
  Qed.

  (* the other composition: idft w = (1/n) dft (1/w), and 1/w is a root of the same kind *)
  Lemma half_root_inv w l : w <> 0 -> half_root w l -> half_root (/ w) l.
  Proof.
    intros Hw0. destruct l; [exact (fun _ => I)|]. cbn [half_root]. intros Hw.
    rewrite kpow_inv, Hw by exact Hw0. symmetry. apply kinv_unique. ring.
  Qed.
  Lemma dft_scale w c x : dft fk w (map (fun y => y * c) x) = map (fun y => y * c) (dft fk w x).
  Proof.
    unfold dft. rewrite map_length, map_map. apply map_ext_in. intros i Hi. apply in_seq in Hi.
    unfold dft_at. rewrite map_length, <- ksum_mul_r. apply ksum_ext. intros j Hj.
    rewrite (nth_map_lt _ _ 0) by exact Hj. ring.
  Qed.
  Theorem dft_idft : two_neq_0 -> forall l w x, length x = (2 ^ l)%nat -> half_root w l -> w <> 0 ->
    dft fk w (idft fk w x) = x.
  Proof.
    intros H2 l w x Hx Hw Hw0. unfold idft. rewrite dft_scale.
    pose proof (idft_dft H2 l (/ w) x Hx (half_root_inv w l Hw0 Hw) (kinv_neq_0 fk w Hw0)) as E.
    unfold idft in E. rewrite kinv_involutive in E by exact Hw0. rewrite dft_length in E. exact E.
  Qed.
End KLevel.
