(* proofs/NttLists.v - list and index lemmas behind C06: even/odd subsequences, the structural
   bit-reversal permutation `brev`, and the arithmetic of `bitrev_nat` (spec/Dft.v). *)
From Coq Require Import ZArith Lia List Bool Arith PeanoNat ZifyNat.
From TF Require Import Dft.
Import ListNotations.
Ltac Zify.zify_post_hook ::= Z.div_mod_to_equations.

Fixpoint evens {A} (l : list A) : list A :=
  match l with [] => [] | a :: t => a :: match t with [] => [] | _ :: r => evens r end end.
Definition odds {A} (l : list A) : list A := match l with [] => [] | _ :: t => evens t end.
Fixpoint brev {A} (l : nat) (x : list A) : list A :=
  match l with O => x | S l' => brev l' (evens x) ++ brev l' (odds x) end.

Lemma nth_map_lt {A B} (f : A -> B) l d d' i : i < length l -> nth i (map f l) d' = f (nth i l d).
Proof.
  intros H. rewrite (nth_indep _ d' (f d)) by (rewrite map_length; exact H). apply map_nth.
Qed.

Lemma evens_cons2 {A} (a b : A) r : evens (a :: b :: r) = a :: evens r. Proof. reflexivity. Qed.
Lemma odds_cons2 {A} (a b : A) r : odds (a :: b :: r) = b :: odds r.
Proof. destruct r; reflexivity. Qed.

Lemma list_ind2 {A} (P : list A -> Prop) :
  P [] -> (forall a, P [a]) -> (forall a b r, P r -> P (a :: b :: r)) -> forall l, P l.
Proof.
  intros H0 H1 H2. fix IH 1. intros [|a [|b r]]; [exact H0|apply H1|apply H2, IH].
Qed.

Lemma evens_odds_length {A} (x : list A) h : length x = 2 * h -> length (evens x) = h /\ length (odds x) = h.
Proof.
  revert h. induction x as [| a | a b r IH] using list_ind2; intros h H.
  - cbn in *. split; lia.
  - cbn in H. lia.
  - rewrite evens_cons2, odds_cons2. cbn [length] in *. destruct h as [|h]; [lia|].
    destruct (IH h ltac:(lia)) as [E O]. split; lia.
Qed.
Lemma evens_nth {A} (x : list A) d j : nth j (evens x) d = nth (2 * j) x d.
Proof.
  revert j. induction x as [| a | a b r IH] using list_ind2; intros j.
  - destruct j; reflexivity.
  - destruct j as [|j]; [reflexivity|]. cbn [evens]. replace (2 * S j) with (S (S (2 * j))) by lia.
    cbn [nth]. destruct j; reflexivity.
  - rewrite evens_cons2. destruct j as [|j]; [reflexivity|].
    replace (2 * S j) with (S (S (2 * j))) by lia. cbn [nth]. apply IH.
Qed.
Lemma odds_nth {A} (x : list A) d j : nth j (odds x) d = nth (2 * j + 1) x d.
Proof.
  destruct x as [|a t]; [destruct j; reflexivity|].
  cbn [odds]. rewrite evens_nth. replace (2 * j + 1) with (S (2 * j)) by lia. reflexivity.
Qed.
Lemma evens_map {A B} (f : A -> B) x : evens (map f x) = map f (evens x).
Proof.
  induction x as [| a | a b r IH] using list_ind2; [reflexivity|reflexivity|].
  cbn [map]. rewrite !evens_cons2. cbn [map]. rewrite IH. reflexivity.
Qed.
Lemma odds_map {A B} (f : A -> B) x : odds (map f x) = map f (odds x).
Proof. destruct x; [reflexivity|]. cbn [map odds]. apply evens_map. Qed.

Lemma brev_length {A} l : forall (x : list A), length x = 2 ^ l -> length (brev l x) = 2 ^ l.
Proof.
  induction l; intros x H; [exact H|].
  cbn [brev]. rewrite app_length. rewrite Nat.pow_succ_r' in *.
  destruct (evens_odds_length x _ H) as [E O]. rewrite (IHl _ E), (IHl _ O). lia.
Qed.
Lemma brev_map {A B} (f : A -> B) l : forall x, brev l (map f x) = map f (brev l x).
Proof.
  induction l; intros x; [reflexivity|]. cbn [brev]. rewrite evens_map, odds_map, !IHl, map_app. reflexivity.
Qed.

(* ------------------------------------------------------------------ bitrev_nat *)
Lemma bitrev_nat_S l i : bitrev_nat (S l) i = (i mod 2) * 2 ^ l + bitrev_nat l (i / 2).
Proof. reflexivity. Qed.

Lemma bitrev_nat_lt l : forall i, bitrev_nat l i < 2 ^ l.
Proof.
  induction l; intros i; [cbn; lia|]. rewrite bitrev_nat_S, Nat.pow_succ_r'.
  specialize (IHl (i / 2)). pose proof (Nat.mod_upper_bound i 2 ltac:(lia)). nia.
Qed.

(* the other recursion: the top bit of i becomes the low bit of the result *)
Lemma bitrev_nat_top l : forall i, i < 2 ^ l ->
  bitrev_nat (S l) i = 2 * bitrev_nat l i /\ bitrev_nat (S l) (2 ^ l + i) = 2 * bitrev_nat l i + 1.
Proof.
  induction l; intros i Hi.
  - cbn in Hi. assert (i = 0) by lia. subst. cbn. lia.
  - rewrite Nat.pow_succ_r' in Hi.
    assert (Hd : i / 2 < 2 ^ l) by (apply Nat.div_lt_upper_bound; lia).
    destruct (IHl (i / 2) Hd) as [I1 I2]. split.
    + rewrite (bitrev_nat_S (S l)), I1, (bitrev_nat_S l), (Nat.pow_succ_r' 2 l). lia.
    + rewrite (bitrev_nat_S (S l)).
      replace ((2 ^ S l + i) mod 2) with (i mod 2).
      2:{ rewrite Nat.pow_succ_r'. lia. }
      replace ((2 ^ S l + i) / 2) with (2 ^ l + i / 2).
      2:{ rewrite Nat.pow_succ_r'. lia. }
      rewrite I2, (bitrev_nat_S l), (Nat.pow_succ_r' 2 l). lia.
Qed.

Lemma bitrev_nat_invol l : forall i, i < 2 ^ l -> bitrev_nat l (bitrev_nat l i) = i.
Proof.
  induction l; intros i Hi; [cbn in *; lia|].
  rewrite Nat.pow_succ_r' in Hi.
  destruct (Nat.lt_ge_cases i (2 ^ l)) as [Hlt|Hge].
  - destruct (bitrev_nat_top l i Hlt) as [E _]. rewrite E, bitrev_nat_S.
    replace ((2 * bitrev_nat l i) mod 2) with 0 by lia.
    replace ((2 * bitrev_nat l i) / 2) with (bitrev_nat l i) by lia. rewrite IHl by exact Hlt. lia.
  - assert (Hi' : i - 2 ^ l < 2 ^ l) by lia.
    destruct (bitrev_nat_top l (i - 2 ^ l) Hi') as [_ E].
    replace (2 ^ l + (i - 2 ^ l)) with i in E by lia. rewrite E, bitrev_nat_S.
    replace ((2 * bitrev_nat l (i - 2 ^ l) + 1) mod 2) with 1.
    2:{ lia. }
    replace ((2 * bitrev_nat l (i - 2 ^ l) + 1) / 2) with (bitrev_nat l (i - 2 ^ l)).
    2:{ lia. }
    rewrite IHl by exact Hi'. lia.
Qed.

(* brev is the reordering by bitrev_nat *)
Lemma brev_nth {A} (d : A) l : forall x i, length x = 2 ^ l -> i < 2 ^ l ->
  nth i (brev l x) d = nth (bitrev_nat l i) x d.
Proof.
  induction l; intros x i Hx Hi.
  - cbn in Hi. assert (i = 0) by lia. subst. reflexivity.
  - cbn [brev]. rewrite Nat.pow_succ_r' in Hx, Hi.
    destruct (evens_odds_length x _ Hx) as [E O].
    destruct (Nat.lt_ge_cases i (2 ^ l)) as [Hlt|Hge].
    + rewrite app_nth1 by (rewrite brev_length; assumption).
      rewrite IHl, evens_nth by assumption. destruct (bitrev_nat_top l i Hlt) as [-> _]. reflexivity.
    + rewrite app_nth2 by (rewrite brev_length; assumption). rewrite brev_length by assumption.
      rewrite IHl, odds_nth by (try assumption; lia).
      destruct (bitrev_nat_top l (i - 2 ^ l) ltac:(lia)) as [_ E'].
      replace (2 ^ l + (i - 2 ^ l)) with i in E' by lia. rewrite E'. reflexivity.
Qed.
Lemma brev_bitrev_list {A} (d : A) l x : length x = 2 ^ l -> brev l x = bitrev_list l d x.
Proof.
  intros Hx. apply (nth_ext _ _ d ((fun i => nth (bitrev_nat l i) x d) 0)).
  - unfold bitrev_list. rewrite map_length, seq_length. apply brev_length. exact Hx.
  - intros i Hi. rewrite brev_length in Hi by exact Hx. rewrite brev_nth by assumption.
    unfold bitrev_list.
    rewrite (map_nth (fun i => nth (bitrev_nat l i) x d) (seq 0 (2 ^ l)) 0 i), seq_nth by exact Hi. reflexivity.
Qed.
Lemma brev_invol {A} l (x : list A) : length x = 2 ^ l -> brev l (brev l x) = x.
Proof.
  intros Hx. destruct x as [|d x'] eqn:Ex.
  - cbn in Hx. pose proof (Nat.pow_nonzero 2 l ltac:(lia)). lia.
  - rewrite <- Ex in *. clear Ex x'. apply (nth_ext _ _ d d).
    + rewrite !brev_length; auto. rewrite brev_length; auto.
    + intros i Hi. rewrite !brev_length in Hi by (try rewrite brev_length; auto).
      rewrite brev_nth by (try rewrite brev_length; auto).
      rewrite brev_nth by (auto; apply bitrev_nat_lt). rewrite bitrev_nat_invol by exact Hi. reflexivity.
Qed.

Lemma Forall_brev {A} (P : A -> Prop) l (x : list A) : length x = 2 ^ l -> Forall P x -> Forall P (brev l x).
Proof.
  intros Hx H. destruct x as [|d x'] eqn:Ex; [cbn in Hx; pose proof (Nat.pow_nonzero 2 l); lia|].
  rewrite <- Ex in *. clear Ex x'.
  rewrite (brev_bitrev_list d) by exact Hx. unfold bitrev_list. apply Forall_forall. intros v Hv.
  apply in_map_iff in Hv. destruct Hv as [i [<- Hi]]. rewrite Forall_forall in H. apply H, nth_In.
  rewrite Hx. apply bitrev_nat_lt.
Qed.

Lemma bitrev_nat_0 l : bitrev_nat l 0 = 0.
Proof. induction l; [reflexivity|]. rewrite bitrev_nat_S. cbn [Nat.modulo Nat.div Nat.divmod fst snd]. rewrite IHl. lia. Qed.

(* reversing a + b bits: the two parts swap places and are reversed separately *)
Lemma bitrev_nat_split a b : forall hi lo, hi < 2 ^ a -> lo < 2 ^ b ->
  bitrev_nat (a + b) (hi * 2 ^ b + lo) = bitrev_nat b lo * 2 ^ a + bitrev_nat a hi.
Proof.
  induction b; intros hi lo Hhi Hlo.
  - cbn in Hlo. assert (lo = 0) by lia. subst. rewrite Nat.add_0_r, Nat.pow_0_r, Nat.mul_1_r, Nat.add_0_r. reflexivity.
  - rewrite Nat.add_succ_r, bitrev_nat_S. rewrite Nat.pow_succ_r' in Hlo.
    replace ((hi * 2 ^ S b + lo) mod 2) with (lo mod 2) by (rewrite Nat.pow_succ_r'; lia).
    replace ((hi * 2 ^ S b + lo) / 2) with (hi * 2 ^ b + lo / 2) by (rewrite Nat.pow_succ_r'; lia).
    rewrite IHb by (try assumption; lia). rewrite (bitrev_nat_S b lo), Nat.pow_add_r. ring.
Qed.
