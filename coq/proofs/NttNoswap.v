(* proofs/NttNoswap.v - C06, the bit-reversed variants: bitreverse_order, intt_noswap, unscale
   (first part) and ntt_noswap (second part). *)
From Coq Require Import ZArith Lia List Bool Arith PeanoNat ZifyNat.
From TF Require Import Word BFieldGen BField XField FieldOps Lucas FieldTheory BFieldProofs BFieldLoops BFieldOk
  NttRoots Ntt Dft NttLists NttStruct NttDft NttBitrev NttProofs NttXfe NttNsStruct NttNsDft.
Import ListNotations.
Local Open Scope Z_scope.

(* ------------------------------------------------------------------ bitreverse_order *)
Theorem bitreverse_order_invol {A} l (x : list A) : (l <= 64)%nat -> length x = (2 ^ l)%nat ->
  exists y, bitreverse_order x = Some y /\ bitreverse_order y = Some x.
Proof.
  intros Hl Hx. exists (brev l x). split; [apply bitreverse_order_pow2; assumption|].
  rewrite (bitreverse_order_pow2 l) by (try apply brev_length; assumption).
  rewrite brev_invol by exact Hx. reflexivity.
Qed.
Lemma bitreverse_order_nil {A} : bitreverse_order (@nil A) = Some [].
Proof. reflexivity. Qed.

Section GenericNoswap.
  Context {B F K : Type}.
  Variables (sops : fops B) (ops : fops F) (act : fact B F) (fk : fieldK K).
  Variables (okS : B -> Prop) (okF : F -> Prop) (hS : B -> K) (hF : F -> K).
  Hypothesis H : ntt_hom sops ops act fk okS okF hS hF.
  Hypothesis H2 : two_neq_0 fk.

  (* intt_noswap on an array presented in bit-reversed order: the transform with the inverse root, unscaled *)
  Theorem intt_noswap_spec dbg l y omega : (l <= 32)%nat -> length y = (2 ^ l)%nat -> Forall okF y ->
    froot sops (2 ^ Z.of_nat l) = Some omega -> okS omega -> half_root fk (hS omega) l -> hS omega <> k0 fk ->
    exists z, intt_noswap sops ops act dbg (brev l y) = Some z /\ Forall okF z /\ length z = length y /\
              map hF z = dft fk (kinv fk (hS omega)) (map hF y).
  Proof.
    intros Hl Hy Hok Hr Hom Hw Hw0. unfold intt_noswap.
    assert (Hb : length (brev l y) = (2 ^ l)%nat) by (apply brev_length; exact Hy).
    rewrite Hb, Z_of_nat_pow2, is_pow2_pow2, andb_false_r, Hr.
    destruct (nh_inv _ _ _ _ _ _ _ _ H omega Hom Hw0) as [oi [E1 [E2 E3]]]. rewrite E1.
    rewrite <- Z_of_nat_pow2, logn_of_pow2 by lia.
    assert (Hb' : length (brev l y) = (1 * 2 ^ l * 1)%nat) by lia.
    rewrite (stages_P sops ops act l 1 1 _ oi _ ltac:(lia) Hb').
    assert (Hlen : 0 <= Z.of_nat (2 ^ l) <= 2 ^ 32).
    { rewrite Z_of_nat_pow2. split; [apply Z.pow_nonneg; lia|apply Z.pow_le_mono_r; lia]. }
    destruct (stagesP_hom sops ops act fk okS okF hS hF H l 1 1 _ oi _ E2 (Forall_brev _ l y Hy Hok) ltac:(lia) Hlen)
      as [O1 O2].
    eexists. split; [reflexivity|]. split; [exact O1|]. split.
    - rewrite stagesP_length by exact Hb'. lia.
    - rewrite O2, <- brev_map, Z_of_nat_pow2, E3.
      apply stages_brev_dft; [rewrite map_length; exact Hy|apply half_root_inv; assumption].
  Qed.

  (* unscale: multiplication by the inverse of the length *)
  Theorem unscale_spec l (x : list B) : (l <= 63)%nat -> length x = (2 ^ l)%nat -> Forall okS x ->
    exists z, unscale sops x = Some z /\ Forall okS z /\
              map hS z = map (fun a => kmul fk a (kinv fk (kofZ fk (Z.of_nat (length x))))) (map hS x).
  Proof.
    intros Hl Hx Hok. unfold unscale.
    assert (Hn : 0 <= Z.of_nat (length x) < 2 ^ 64).
    { rewrite Hx, Z_of_nat_pow2. split; [apply Z.pow_nonneg; lia|apply Z.pow_lt_mono_r; lia]. }
    destruct (nh_from _ _ _ _ _ _ _ _ H _ Hn) as [On En].
    assert (Hnz : hS (ffrom_u64 sops (Z.of_nat (length x))) <> k0 fk).
    { rewrite En, Hx. apply kofZ_pow2_neq_0. exact H2. }
    destruct (nh_inv _ _ _ _ _ _ _ _ H _ On Hnz) as [ni [E1 [E2 E3]]]. rewrite E1.
    eexists. split; [reflexivity|]. split.
    - apply Forall_forall. intros v Hv. apply in_map_iff in Hv. destruct Hv as [a [<- Ha]].
      rewrite Forall_forall in Hok. apply (nh_mul _ _ _ _ _ _ _ _ H); [apply Hok; exact Ha|exact E2].
    - rewrite !map_map. apply map_ext_in. intros a Ha. rewrite Forall_forall in Hok.
      destruct (nh_mul _ _ _ _ _ _ _ _ H a ni (Hok a Ha) E2) as [_ ->]. rewrite E3, En. reflexivity.
  Qed.
End GenericNoswap.

(* base field: intt_noswap on the bit-reversed array followed by unscale is intt *)
Theorem intt_noswap_unscale_b dbg l y : (l <= 31)%nat -> length y = (2 ^ l)%nat -> Forall canon y ->
  exists r z z', bitreverse_order y = Some r /\ intt_noswap_b dbg r = Some z /\ unscale_b z = Some z' /\
                 intt_b y = Some z'.
Proof.
  intros Hl Hy Hok. destruct (root_exists l ltac:(lia)) as [omega Hr].
  destruct (roots_exact_order l omega ltac:(lia) Hr) as [C [_ [Hh [H0 _]]]].
  destruct (intt_noswap_spec bfe_ops bfe_ops bb_act fp_field canon canon bden bden bb_hom dbg l y omega
              ltac:(lia) Hy Hok Hr C Hh H0) as [z [Ez [Oz [Lz Mz]]]].
  destruct (unscale_spec bfe_ops bfe_ops bb_act fp_field canon canon bden bden bb_hom fp_two_neq_0 l z
              ltac:(lia) ltac:(lia) Oz) as [z' [Ez' [Oz' Mz']]].
  destruct (intt_b_is_idft l y Hl Hy Hok) as [w [omega' [Hr' [Ew [Ow [Lw Mw]]]]]].
  rewrite Hr in Hr'. injection Hr' as <-.
  exists (brev l y), z, z'. split; [apply bitreverse_order_pow2; [lia|exact Hy]|].
  split; [exact Ez|]. split; [exact Ez'|]. rewrite Ew. f_equal. apply map_bden_inj; try assumption.
  rewrite Mw, Mz', Mz. unfold idft. rewrite Lz, map_length. reflexivity.
Qed.
Lemma unscale_b_nil : unscale_b [] = None.
Proof. reflexivity. Qed.

(* ------------------------------------------------------------------ ntt_noswap *)
Section GenericNttNoswap.
  Context {B F K : Type}.
  Variables (sops : fops B) (ops : fops F) (act : fact B F) (fk : fieldK K).
  Variables (okS : B -> Prop) (okF : F -> Prop) (hS : B -> K) (hF : F -> K).
  Hypothesis H : ntt_hom sops ops act fk okS okF hS hF.

  Lemma powers_ok l1 omega : okS omega ->
    Forall okS (map (pw_entry sops l1 omega (2 ^ l1)) (seq 0 (2 * 2 ^ l1))).
  Proof.
    intros Hom. apply Forall_forall. intros v Hv. apply in_map_iff in Hv. destruct Hv as [j [<- _]].
    unfold pw_entry. destruct ((j <? 2 ^ l1)%nat && (bitrev_nat l1 j <? 2 ^ l1)%nat).
    - apply (pw_hom sops ops act fk okS okF hS hF H). exact Hom.
    - exact (proj1 (nh_zero _ _ _ _ _ _ _ _ H)).
  Qed.

  (* ntt_noswap = the transform, left in bit-reversed order *)
  Theorem ntt_noswap_spec dbg l x omega : (l <= 32)%nat -> length x = (2 ^ l)%nat -> Forall okF x ->
    froot sops (2 ^ Z.of_nat l) = Some omega -> okS omega -> half_root fk (hS omega) l ->
    exists y, ntt_noswap sops ops act dbg x = Some y /\ Forall okF y /\ length y = length x /\
              map hF y = brev l (dft fk (hS omega) (map hF x)).
  Proof.
    intros Hl Hx Hok Hr Hom Hw. unfold ntt_noswap.
    rewrite Hx, Z_of_nat_pow2, is_pow2_pow2, andb_false_r, Hr.
    rewrite <- Z_of_nat_pow2, logn_of_pow2 by lia.
    destruct l as [|l1].
    - (* a single element: no butterflies *)
      assert (Ep : powers_bitreversed sops (2 ^ 0) 0 omega = Some [fzero sops]) by reflexivity.
      rewrite Ep. cbn [Nat.pow ns_loop Nat.ltb Nat.leb].
      eexists. split; [reflexivity|]. split; [exact Hok|]. split; [exact Hx|].
      cbn [brev].
      exact (stages_brev_dft fk 0 (hS omega) (map hF x) ltac:(rewrite map_length; exact Hx) I).
    - change (2 ^ S l1)%nat with (2 * 2 ^ l1)%nat at 1 2.
      rewrite (powers_bitreversed_spec sops (fun _ => omega) l1 omega).
      set (powers := map (pw_entry sops l1 omega (2 ^ l1)) (seq 0 (2 * 2 ^ l1))).
      assert (Lp : length powers = (2 ^ S l1)%nat) by (unfold powers; rewrite map_length, seq_length; reflexivity).
      destruct (ns_loop_P ops act (S l1) 0 (S (2 ^ S l1)) powers x) as [E1 E2];
        [pose proof (Nat.pow_gt_lin_r 2 (S l1)); lia|exact Hx|rewrite Lp; cbn [Nat.add]; lia|].
      cbn [Nat.add] in E1, E2. change (2 ^ 0)%nat with 1%nat in E1, E2.
      change (2 * 2 ^ l1)%nat with (2 ^ S l1)%nat. rewrite E1.
      destruct (nsP_hom sops ops act fk okS okF hS hF H (S l1) 1 (2 ^ S l1) powers x (powers_ok l1 omega Hom) Hok)
        as [O1 O2].
      eexists. split; [reflexivity|]. split; [exact O1|]. split; [rewrite E2; exact Hx|].
      rewrite O2. apply (nsP_brev_dft fk l1 (hS omega) Hw); [rewrite map_length; exact Hx|].
      intros m Hm. rewrite firstn_map. unfold powers. rewrite (powers_firstn sops (fun _ => omega) l1 omega m Hm), map_map.
      apply map_ext. intros j. unfold zfK.
      apply (pw_hom sops ops act fk okS okF hS hF H). exact Hom.
  Qed.
End GenericNttNoswap.

(* base field: ntt_noswap x = bitreverse_order (ntt x), on the words *)
Theorem ntt_noswap_b_spec dbg l x : (l <= 31)%nat -> length x = (2 ^ l)%nat -> Forall canon x ->
  exists y r, ntt_b x = Some y /\ bitreverse_order y = Some r /\ ntt_noswap_b dbg x = Some r.
Proof.
  intros Hl Hx Hok. destruct (root_exists l ltac:(lia)) as [omega Hr].
  destruct (roots_exact_order l omega ltac:(lia) Hr) as [C [_ [Hh [H0 _]]]].
  destruct (ntt_noswap_spec bfe_ops bfe_ops bb_act fp_field canon canon bden bden bb_hom dbg l x omega
              ltac:(lia) Hx Hok Hr C Hh) as [r [Er [Or [Lr Mr]]]].
  destruct (ntt_b_is_dft l x Hl Hx Hok) as [y [omega' [Hr' [Ey [Oy [Ly My]]]]]].
  rewrite Hr in Hr'. injection Hr' as <-.
  exists y, (brev l y). split; [exact Ey|]. split; [apply bitreverse_order_pow2; lia|].
  unfold ntt_noswap_b. rewrite Er. f_equal. apply map_bden_inj; try assumption.
  - apply Forall_brev; [lia|exact Oy].
  - rewrite Mr, <- My, brev_map. reflexivity.
Qed.

(* the full round trip of the fast-multiplication idiom: ntt_noswap, intt_noswap, unscale *)
Theorem noswap_round_trip_b dbg l x : (l <= 31)%nat -> length x = (2 ^ l)%nat -> Forall canon x ->
  exists r z, ntt_noswap_b dbg x = Some r /\ intt_noswap_b dbg r = Some z /\ unscale_b z = Some x.
Proof.
  intros Hl Hx Hok.
  destruct (ntt_noswap_b_spec dbg l x Hl Hx Hok) as [y [r [Ey [Er Ens]]]].
  destruct (intt_ntt_b l x Hl Hx Hok) as [y' [Ey' Ei]]. rewrite Ey in Ey'. injection Ey' as <-.
  destruct (ntt_b_is_dft l x Hl Hx Hok) as [y'' [omega [_ [Ey'' [Oy [Ly _]]]]]]. rewrite Ey in Ey''. injection Ey'' as <-.
  destruct (intt_noswap_unscale_b dbg l y Hl ltac:(lia) Oy) as [r' [z [z' [Er' [Ez [Ez' Ei']]]]]].
  rewrite Er in Er'. injection Er' as <-. rewrite Ei in Ei'. injection Ei' as <-.
  exists r, z. split; [exact Ens|]. split; [exact Ez|exact Ez'].
Qed.

(* extension field: the same, coordinate-wise *)
Theorem ntt_noswap_x_spec dbg l x : (l <= 31)%nat -> length x = (2 ^ l)%nat -> Forall okX x ->
  exists y r, ntt_x x = Some y /\ bitreverse_order y = Some r /\ ntt_noswap_x dbg x = Some r.
Proof.
  intros Hl Hx Hok. destruct (root_exists l ltac:(lia)) as [omega Hr].
  destruct (roots_exact_order l omega ltac:(lia) Hr) as [C [_ [Hh [H0 _]]]].
  destruct (ntt_noswap_spec bfe_ops xfe_ops xb_act fp_field canon okX bden _ xb_hom0 dbg l x omega
              ltac:(lia) Hx Hok Hr C Hh) as [r [Er [Or [Lr M0]]]].
  destruct (ntt_noswap_spec bfe_ops xfe_ops xb_act fp_field canon okX bden _ xb_hom1 dbg l x omega
              ltac:(lia) Hx Hok Hr C Hh) as [r1 [Er1 [_ [_ M1]]]].
  destruct (ntt_noswap_spec bfe_ops xfe_ops xb_act fp_field canon okX bden _ xb_hom2 dbg l x omega
              ltac:(lia) Hx Hok Hr C Hh) as [r2 [Er2 [_ [_ M2]]]].
  rewrite Er in Er1, Er2. injection Er1 as <-. injection Er2 as <-.
  destruct (ntt_x_is_dft l x Hl Hx Hok) as [y [omega' [Hr' [Ey [Oy [Ly My]]]]]].
  rewrite Hr in Hr'. injection Hr' as <-.
  exists y, (brev l y). split; [exact Ey|]. split; [apply bitreverse_order_pow2; lia|].
  unfold ntt_noswap_x. rewrite Er. f_equal. apply map_xden_inj; try assumption.
  - apply Forall_brev; [lia|exact Oy].
  - rewrite <- brev_map, My.
    destruct (map_p_xden r) as [R0 [R1 R2]]. destruct (map_p_xden x) as [X0 [X1 X2]].
    destruct (dft3_coords fp_field (bden omega) (map xden x)) as [D0 [D1 D2]].
    apply k3_list_eq; rewrite <- brev_map.
    + rewrite R0, D0, X0. exact M0.
    + rewrite R1, D1, X1. exact M1.
    + rewrite R2, D2, X2. exact M2.
Qed.

(* ------------------------------------------------------------------ documented panics / degenerate lengths *)
Lemma root_none_not_pow2 n : (n <> 0)%nat -> (forall l, n <> (2 ^ l)%nat) -> primitive_root_of_unity (Z.of_nat n) = None.
Proof.
  intros H0 Hp. destruct (primitive_root_of_unity (Z.of_nat n)) eqn:E; [|reflexivity]. exfalso.
  assert (Hne : primitive_root_of_unity (Z.of_nat n) <> None) by (rewrite E; discriminate).
  apply root_defined_iff in Hne. destruct Hne as [Hz|[k [_ Hk]]]; [lia|].
  apply (Hp k). rewrite <- Z_of_nat_pow2 in Hk. lia.
Qed.
Theorem noswap_panics_not_pow2 {F} (ops : fops F) (act : fact Z F) dbg x :
  length x <> 0%nat -> (forall l, length x <> (2 ^ l)%nat) ->
  ntt_noswap bfe_ops ops act dbg x = None /\ intt_noswap bfe_ops ops act dbg x = None.
Proof.
  intros H0 Hp. unfold ntt_noswap, intt_noswap.
  destruct (dbg && negb (is_pow2 (Z.of_nat (length x)))); [split; reflexivity|].
  cbn [froot bfe_ops]. rewrite (root_none_not_pow2 _ H0 Hp). split; reflexivity.
Qed.
Lemma noswap_nil :
  ntt_noswap_b false [] = Some [] /\ intt_noswap_b false [] = Some [] /\
  ntt_noswap_b true [] = None /\ intt_noswap_b true [] = None /\
  ntt_noswap_x false [] = Some [] /\ intt_noswap_x false [] = Some [] /\
  ntt_noswap_x true [] = None /\ intt_noswap_x true [] = None.
Proof. repeat split; reflexivity. Qed.

(* ------------------------------------------------------------------ any root *)
(* the butterfly network with ANY element omega whose 2^(l-1)-th power is -1 (i.e. any primitive 2^l-th root of
   unity) computes the DFT with respect to that omega: nothing depends on which primitive root the table holds *)
Theorem ntt_unchecked_b_any_root l x omega : (l <= 32)%nat -> length x = (2 ^ l)%nat -> Forall canon x -> canon omega ->
  half_root fp_field (bden omega) l ->
  exists y, ntt_unchecked bfe_ops bfe_ops bb_act x omega l = Some y /\ Forall canon y /\ length y = length x /\
            map bden y = dft fp_field (bden omega) (map bden x).
Proof. exact (ntt_unchecked_dft bfe_ops bfe_ops bb_act fp_field canon canon bden bden bb_hom l x omega). Qed.
