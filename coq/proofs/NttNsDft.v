(* proofs/NttNsDft.v - C06, the algebra of ntt_noswap over an abstract field: the block tree NSrec
   evaluates the input polynomial at the powers of w in bit-reversed order, i.e. the loop nest computes
   bitrev (dft w x). *)
From Coq Require Import ZArith Lia List Bool Arith PeanoNat ZifyNat Ring Field.
From TF Require Import FieldOps FieldTheory Dft Ntt NttLists NttStruct NttDft NttBitrev NttNsStruct.
Import ListNotations.
Local Open Scope nat_scope.

Lemma seq_plus a n : seq a n = map (fun k => a + k) (seq 0 n).
Proof.
  revert a. induction n; intros a; [reflexivity|]. cbn [seq map]. rewrite Nat.add_0_r. f_equal.
  rewrite (IHn (S a)), (IHn 1), map_map. apply map_ext. intros k. lia.
Qed.

Section NsK.
  Context {K : Type} (fk : fieldK K).
  Declare Scope K_scope.
  Delimit Scope K_scope with K.
  Local Notation "0" := (k0 fk) : K_scope.
  Local Notation "1" := (k1 fk) : K_scope.
  Local Infix "+" := (kadd fk) : K_scope.
  Local Infix "*" := (kmul fk) : K_scope.
  Local Infix "-" := (ksub fk) : K_scope.
  Local Notation "- x" := (kopp fk x) : K_scope.
  Local Notation "x ^ n" := (kpow fk x n) : K_scope.
  Local Open Scope K_scope.
  Add Field kfield_NttNsDft : (kFT fk).
  Let ko := kops fk.
  Let ka := kact fk.

  (* value of the polynomial with coefficient list x at pt *)
  Definition evalp (x : list K) (pt : K) : K := ksum fk (fun j => nth j x 0 * pt ^ j) (length x).

  Lemma dft_at_eval w x i : dft_at fk w x i = evalp x (w ^ i).
  Proof. unfold dft_at, evalp. apply ksum_ext. intros j _. rewrite kpow_mul. reflexivity. Qed.

  Lemma ksum_split f a b : ksum fk f (a + b)%nat = ksum fk f a + ksum fk (fun j => f (a + j)%nat) b.
  Proof.
    induction b; [rewrite Nat.add_0_r; cbn [ksum]; ring|].
    rewrite Nat.add_succ_r. cbn [ksum]. rewrite IHb. ring.
  Qed.
  Lemma evalp_app u v pt : evalp (u ++ v) pt = evalp u pt + pt ^ (length u) * evalp v pt.
  Proof.
    unfold evalp. rewrite app_length, ksum_split. f_equal.
    - apply ksum_ext. intros j Hj. rewrite app_nth1 by exact Hj. reflexivity.
    - rewrite <- ksum_mul_l. apply ksum_ext. intros j Hj.
      rewrite app_nth2_plus, kpow_add. ring.
  Qed.

  Lemma ns_bflyK_nth : forall us vs z j, length us = length vs -> (j < length us)%nat ->
    nth j (fst (ns_bfly ko ka z us vs)) 0 = nth j us 0 + nth j vs 0 * z /\
    nth j (snd (ns_bfly ko ka z us vs)) 0 = nth j us 0 - nth j vs 0 * z.
  Proof.
    induction us as [|u us IH]; intros [|v vs] z j Hl Hj; cbn [length] in *; try lia.
    cbn [ns_bfly]. specialize (IH vs z).
    destruct (ns_bfly ko ka z us vs) as [a b]. cbn [fst snd] in *.
    destruct j as [|j]; [cbn [nth]; cbn [fadd fsub smul ko ka kops kact]; split; reflexivity|].
    cbn [nth]. apply IH; lia.
  Qed.
  Lemma evalp_bfly us vs z pt : length us = length vs ->
    evalp (fst (ns_bfly ko ka z us vs)) pt = evalp us pt + z * evalp vs pt /\
    evalp (snd (ns_bfly ko ka z us vs)) pt = evalp us pt - z * evalp vs pt.
  Proof.
    intros Hl. pose proof (ns_bfly_length ko ka us vs z Hl) as [L1 L2].
    pose proof (fun j => ns_bflyK_nth us vs z j Hl) as Hn.
    unfold evalp. rewrite L1, L2, <- Hl. split.
    - rewrite <- ksum_mul_l, <- ksum_add. apply ksum_ext. intros j Hj. destruct (Hn j Hj) as [-> _]. ring.
    - transitivity (ksum fk (fun j => nth j us 0 * pt ^ j) (length us)
                    + ksum fk (fun j => - z * (nth j vs 0 * pt ^ j)) (length us)).
      + rewrite <- ksum_add. apply ksum_ext. intros j Hj. destruct (Hn j Hj) as [_ ->]. ring.
      + rewrite ksum_mul_l. ring.
  Qed.

  (* -------------------------------------------------------------- the tree *)
  Variables (l1 : nat) (w : K).
  Let l := S l1.
  Hypothesis Hw : w ^ (2 ^ l1) = - (1).
  Definition zfK (i : nat) : K := w ^ (bitrev_nat l1 i).

  Lemma kpow_opp1_odd n : (- (1)) ^ (2 * n + 1) = - (1).
  Proof. rewrite kpow_add, kpow_opp1_even, kpow_1. ring. Qed.

  (* (w^e)^(2^d) for e = rev_l(i 2^(d+1) + k'): +- the block twiddle *)
  Lemma twiddle_pow s d i k' : (s + S d = l)%nat -> (i < 2 ^ s)%nat -> (k' < 2 ^ S d)%nat ->
    (w ^ (bitrev_nat l (i * 2 ^ S d + k'))) ^ (2 ^ d) = (- (1)) ^ (bitrev_nat (S d) k') * zfK i.
  Proof.
    intros Hl Hi Hk. unfold zfK.
    replace l with (s + S d)%nat by exact Hl.
    rewrite bitrev_nat_split by assumption.
    rewrite <- kpow_mul.
    replace ((bitrev_nat (S d) k' * 2 ^ s + bitrev_nat s i) * 2 ^ d)%nat
      with (2 ^ l1 * bitrev_nat (S d) k' + bitrev_nat s i * 2 ^ d)%nat.
    2:{ replace l1 with (s + d)%nat by (unfold l in Hl; lia). rewrite Nat.pow_add_r. ring. }
    rewrite kpow_add, kpow_mul, Hw. f_equal.
    replace l1 with (d + s)%nat by (unfold l in Hl; lia).
    replace i with (0 * 2 ^ s + i)%nat at 2 by lia.
    rewrite bitrev_nat_split by (try exact Hi; apply Nat.pow_nonzero || (pose proof (Nat.pow_nonzero 2 d); lia)).
    rewrite bitrev_nat_0, Nat.add_0_r. reflexivity.
  Qed.

  Lemma NSrec_spec d : forall s i x, (s + d = l)%nat -> (i < 2 ^ s)%nat -> length x = (2 ^ d)%nat ->
    NSrec ko ka zfK d i x = map (fun k => evalp x (w ^ (bitrev_nat l (i * 2 ^ d + k)))) (seq 0 (2 ^ d)).
  Proof.
    induction d; intros s i x Hl Hi Hx.
    - destruct x as [|x0 [|x1 r]]; try (cbn in Hx; discriminate Hx). cbn [NSrec Nat.pow seq map].
      f_equal. unfold evalp. cbn [length ksum nth kpow]. ring.
    - cbn [NSrec]. rewrite Nat.pow_succ_r' in Hx.
      remember (firstn (2 ^ d) x) as u eqn:Eu. remember (skipn (2 ^ d) x) as v eqn:Ev.
      assert (Lu : length u = (2 ^ d)%nat) by (subst u; rewrite firstn_length; lia).
      assert (Lv : length v = (2 ^ d)%nat) by (subst v; rewrite skipn_length; lia).
      assert (Ex : x = u ++ v) by (subst u v; symmetry; apply firstn_skipn).
      clear Eu Ev.
      pose proof (ns_bfly_length ko ka u v (zfK i) ltac:(lia)) as [La Lb].
      pose proof (fun pt => evalp_bfly u v (zfK i) pt ltac:(lia)) as Hev.
      destruct (ns_bfly ko ka (zfK i) u v) as [a b]. cbn [fst snd] in *.
      rewrite (IHd (S s) (2 * i)%nat a) by (try lia; rewrite Nat.pow_succ_r'; lia).
      rewrite (IHd (S s) (2 * i + 1)%nat b) by (try lia; rewrite Nat.pow_succ_r'; lia).
      rewrite (Nat.pow_succ_r' 2 d). replace (2 * 2 ^ d)%nat with (2 ^ d + 2 ^ d)%nat by lia.
      rewrite seq_app, map_app. cbn [Nat.add]. rewrite (seq_plus (2 ^ d)), map_map.
      f_equal; apply map_ext_in; intros k Hk; apply in_seq in Hk.
      + replace (2 * i * 2 ^ d + k)%nat with (i * 2 ^ S d + k)%nat by (rewrite Nat.pow_succ_r'; lia).
        replace (i * (2 ^ d + 2 ^ d) + k)%nat with (i * 2 ^ S d + k)%nat by (rewrite Nat.pow_succ_r'; lia).
        destruct (Hev (w ^ bitrev_nat l (i * 2 ^ S d + k))) as [-> _].
        rewrite Ex, evalp_app, Lu. rewrite (twiddle_pow s d i k) by (try assumption; rewrite Nat.pow_succ_r'; lia).
        destruct (bitrev_nat_top d k ltac:(lia)) as [-> _]. rewrite kpow_opp1_even. ring.
      + replace ((2 * i + 1) * 2 ^ d + k)%nat with (i * 2 ^ S d + (2 ^ d + k))%nat by (rewrite Nat.pow_succ_r'; lia).
        replace (i * (2 ^ d + 2 ^ d) + (2 ^ d + k))%nat with (i * 2 ^ S d + (2 ^ d + k))%nat
          by (rewrite Nat.pow_succ_r'; lia).
        destruct (Hev (w ^ bitrev_nat l (i * 2 ^ S d + (2 ^ d + k)))) as [_ ->].
        rewrite Ex, evalp_app, Lu. rewrite (twiddle_pow s d i (2 ^ d + k)) by (try assumption; rewrite Nat.pow_succ_r'; lia).
        destruct (bitrev_nat_top d k ltac:(lia)) as [_ ->]. rewrite kpow_opp1_odd. ring.
  Qed.

  (* the loop nest of ntt_noswap computes the DFT in bit-reversed order *)
  Theorem nsP_brev_dft powers x : length x = (2 ^ l)%nat ->
    (forall m, (m <= 2 ^ l1)%nat -> firstn m powers = map zfK (seq 0 m)) ->
    nsP ko ka l 1 (2 ^ l) powers x = brev l (dft fk w x).
  Proof.
    intros Hx Hp.
    pose proof (nsP_nsrec ko ka zfK l 0 powers x) as E. cbn [Nat.add] in E.
    change (2 ^ 0)%nat with 1%nat in E. rewrite E; clear E.
    2:{ exact Hx. }
    2:{ intros m Hm. apply Hp. unfold l in Hm. cbn [Nat.sub] in Hm. rewrite Nat.sub_0_r in Hm. exact Hm. }
    rewrite nsrec_all_one by exact Hx.
    rewrite (NSrec_spec l 0 0 x) by (try lia; try exact Hx; cbn; lia).
    rewrite (brev_bitrev_list 0) by (rewrite dft_length; exact Hx). unfold bitrev_list.
    apply map_ext_in. intros k Hk. apply in_seq in Hk. cbn [Nat.mul Nat.add].
    rewrite dft_nth by (rewrite Hx; apply bitrev_nat_lt). apply eq_sym, dft_at_eval.
  Qed.
End NsK.
