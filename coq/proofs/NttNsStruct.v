(* proofs/NttNsStruct.v - structure of ntt_noswap (model/Ntt.v) for ANY operations records:
   - the table powers_of_omega_bitreversed computed by the array loop,
   - fuel-free forms of ns_blocks / ns_loop,
   - level order = depth first: the loop nest equals the recursion NSrec over the block tree,
   - naturality with respect to an ntt_hom. *)
From Coq Require Import ZArith Lia List Bool Arith PeanoNat ZifyNat FMapPositive Ring_theory Field_theory.
From TF Require Import FieldOps FieldTheory Dft Ntt NttLists NttStruct NttBitrev.
Import ListNotations.
Local Open Scope nat_scope.

Lemma firstn_exact {A} (a b : list A) n : length a = n -> firstn n (a ++ b) = a.
Proof. intros <-. rewrite firstn_app, Nat.sub_diag, firstn_all. cbn. apply app_nil_r. Qed.
Lemma skipn_exact {A} (a b : list A) n : length a = n -> skipn n (a ++ b) = b.
Proof. intros <-. rewrite skipn_app, Nat.sub_diag, skipn_all. reflexivity. Qed.
Lemma firstn_seq_le n m : m <= n -> firstn m (seq 0 n) = seq 0 m.
Proof.
  intros H. replace n with (m + (n - m)) by lia. rewrite seq_app. apply firstn_exact. apply seq_length.
Qed.

Section NsStruct.
  Context {B F : Type}.
  Variables (sops : fops B) (ops : fops F) (act : fact B F).
  Notation ns_bfly := (ns_bfly ops act).
  Notation ns_blocks := (ns_blocks ops act).
  Notation ns_loop := (ns_loop ops act).

  Lemma ns_bfly_length : forall us vs zeta, length us = length vs ->
    length (fst (ns_bfly zeta us vs)) = length us /\ length (snd (ns_bfly zeta us vs)) = length us.
  Proof.
    induction us as [|u us IH]; intros [|v vs] zeta Hl; cbn [Ntt.ns_bfly]; try (cbn in Hl; discriminate Hl); [split; reflexivity|].
    specialize (IH vs zeta ltac:(cbn in Hl; lia)).
    destruct (ns_bfly zeta us vs) as [a b]. cbn [fst snd length] in *. lia.
  Qed.

  (* ---------------------------------------------------------------- one level *)
  Definition ns_block1 (zeta : B) (t : nat) (x : list F) : list F :=
    let '(a, b) := ns_bfly zeta (firstn t x) (firstn t (skipn t x)) in a ++ b.
  Fixpoint ns_blocksP (zetas : list B) (t : nat) (x : list F) : list F :=
    match zetas with
    | [] => x
    | z :: zs => ns_block1 z t x ++ ns_blocksP zs t (skipn t (skipn t x))
    end.

  Lemma ns_block1_length zeta t x : 2 * t <= length x -> length (ns_block1 zeta t x) = 2 * t.
  Proof.
    intros Hx. unfold ns_block1.
    assert (E : length (firstn t x) = length (firstn t (skipn t x))) by (rewrite !firstn_length, skipn_length; lia).
    pose proof (ns_bfly_length _ _ zeta E) as [L1 L2].
    destruct (ns_bfly zeta (firstn t x) (firstn t (skipn t x))) as [a b]. cbn [fst snd] in *.
    rewrite app_length, L1, L2, firstn_length. lia.
  Qed.
  Lemma ns_blocksP_length zetas t : forall x, length x = length zetas * (2 * t) ->
    length (ns_blocksP zetas t x) = length x.
  Proof.
    induction zetas as [|z zs IH]; intros x Hx; [reflexivity|]. cbn [ns_blocksP length] in *.
    rewrite app_length, ns_block1_length by lia. rewrite IH by (rewrite !skipn_length; lia).
    rewrite !skipn_length. lia.
  Qed.
  Lemma ns_blocks_P zetas t : forall x, length x = length zetas * (2 * t) ->
    ns_blocks zetas t x = Some (ns_blocksP zetas t x).
  Proof.
    induction zetas as [|z zs IH]; intros x Hx; [reflexivity|]. cbn [Ntt.ns_blocks ns_blocksP length] in *.
    rewrite !firstn_length, skipn_length.
    replace (Nat.min t (length x) =? t) with true by (symmetry; apply Nat.eqb_eq; lia).
    replace (Nat.min t (length x - t) =? t) with true by (symmetry; apply Nat.eqb_eq; lia).
    cbn [andb]. unfold ns_block1.
    destruct (ns_bfly z (firstn t x) (firstn t (skipn t x))) as [a b].
    rewrite IH by (rewrite !skipn_length; lia). rewrite app_assoc. reflexivity.
  Qed.

  (* ---------------------------------------------------------------- all levels *)
  Fixpoint nsP (k m t : nat) (powers : list B) (x : list F) : list F :=
    match k with
    | O => x
    | S k' => nsP k' (2 * m) (Nat.div2 t) powers (ns_blocksP (firstn m powers) (Nat.div2 t) x)
    end.

  Lemma div2_pow2 k : Nat.div2 (2 ^ S k) = 2 ^ k.
  Proof. rewrite Nat.pow_succ_r'. apply Nat.div2_double. Qed.

  Lemma ns_loop_P k : forall s fuel powers x, k < fuel -> length x = 2 ^ (s + k) -> 2 ^ (s + k) <= length powers ->
    ns_loop fuel (2 ^ s) (2 ^ k) (2 ^ (s + k)) powers x = Some (nsP k (2 ^ s) (2 ^ k) powers x) /\
    length (nsP k (2 ^ s) (2 ^ k) powers x) = length x.
  Proof.
    induction k; intros s fuel powers x Hf Hx Hp; (destruct fuel as [|f]; [lia|]); cbn [Ntt.ns_loop nsP].
    - rewrite Nat.add_0_r, Nat.ltb_irrefl. split; reflexivity.
    - replace (2 ^ s <? 2 ^ (s + S k)) with true
        by (symmetry; apply Nat.ltb_lt; apply Nat.pow_lt_mono_r; lia).
      rewrite div2_pow2.
      assert (Hz : length (firstn (2 ^ s) powers) = 2 ^ s).
      { rewrite firstn_length. pose proof (Nat.pow_le_mono_r 2 s (s + S k)). lia. }
      assert (Hb : length x = length (firstn (2 ^ s) powers) * (2 * 2 ^ k)).
      { rewrite Hz, Hx, Nat.add_succ_r, Nat.pow_succ_r', Nat.pow_add_r. lia. }
      rewrite (ns_blocks_P _ _ x Hb).
      replace (2 * 2 ^ s) with (2 ^ S s) by (rewrite Nat.pow_succ_r'; reflexivity).
      replace (s + S k) with (S s + k) in * by lia.
      destruct (IHk (S s) f powers (ns_blocksP (firstn (2 ^ s) powers) (2 ^ k) x)) as [I1 I2];
        [lia|rewrite ns_blocksP_length by exact Hb; exact Hx|exact Hp|].
      split; [exact I1|]. rewrite I2. apply ns_blocksP_length. exact Hb.
  Qed.

  (* ---------------------------------------------------------------- the block tree *)
  Variable zf : nat -> B.    (* the twiddle of block i (the same table serves every level) *)
  Fixpoint NSrec (d i : nat) (x : list F) : list F :=
    match d with
    | O => x
    | S d' =>
        let '(a, b) := ns_bfly (zf i) (firstn (2 ^ d') x) (skipn (2 ^ d') x) in
        NSrec d' (2 * i) a ++ NSrec d' (2 * i + 1) b
    end.
  (* c consecutive blocks of size 2^d, numbered from i0 *)
  Fixpoint nsrec_all (d i0 c : nat) (x : list F) : list F :=
    match c with
    | O => []
    | S c' => NSrec d i0 (firstn (2 ^ d) x) ++ nsrec_all d (S i0) c' (skipn (2 ^ d) x)
    end.

  Lemma NSrec_length d : forall i x, length x = 2 ^ d -> length (NSrec d i x) = 2 ^ d.
  Proof.
    induction d; intros i x Hx; [exact Hx|]. cbn [NSrec]. rewrite Nat.pow_succ_r' in Hx.
    assert (E : length (firstn (2 ^ d) x) = length (skipn (2 ^ d) x)) by (rewrite firstn_length, skipn_length; lia).
    pose proof (ns_bfly_length _ _ (zf i) E) as [L1 L2].
    destruct (ns_bfly (zf i) (firstn (2 ^ d) x) (skipn (2 ^ d) x)) as [a b]. cbn [fst snd] in *.
    rewrite firstn_length in L1, L2.
    rewrite app_length, !IHd by lia. rewrite Nat.pow_succ_r'. lia.
  Qed.

  (* one level on c blocks, then the subtrees = the trees of the c blocks *)
  Lemma nsrec_all_step d : forall c i0 x, length x = c * 2 ^ S d ->
    nsrec_all d (2 * i0) (2 * c) (ns_blocksP (map zf (seq i0 c)) (2 ^ d) x) = nsrec_all (S d) i0 c x.
  Proof.
    induction c; intros i0 x Hx; [reflexivity|].
    assert (Lb : length (firstn (2 ^ S d) x) = 2 ^ S d) by (rewrite firstn_length; lia).
    assert (Lr : length (skipn (2 ^ S d) x) = c * 2 ^ S d) by (rewrite skipn_length; lia).
    remember (firstn (2 ^ S d) x) as blk eqn:Eb. remember (skipn (2 ^ S d) x) as r eqn:Er.
    assert (Ex : x = blk ++ r) by (subst blk r; symmetry; apply firstn_skipn).
    clear Eb Er Hx. subst x.
    cbn [seq map ns_blocksP]. replace (2 * S c) with (S (S (2 * c))) by lia. cbn [nsrec_all].
    rewrite (firstn_exact blk r (2 ^ S d) Lb), (skipn_exact blk r (2 ^ S d) Lb).
    rewrite Nat.pow_succ_r' in Lb.
    (* the block itself *)
    unfold ns_block1. cbn [NSrec].
    assert (F1 : firstn (2 ^ d) (blk ++ r) = firstn (2 ^ d) blk).
    { rewrite firstn_app. replace (2 ^ d - length blk) with 0 by lia. cbn [firstn]. apply app_nil_r. }
    assert (F2 : firstn (2 ^ d) (skipn (2 ^ d) (blk ++ r)) = skipn (2 ^ d) blk).
    { rewrite skipn_app. replace (2 ^ d - length blk) with 0 by lia. cbn [skipn].
      apply firstn_exact. rewrite skipn_length. lia. }
    assert (F3 : skipn (2 ^ d) (skipn (2 ^ d) (blk ++ r)) = r).
    { rewrite skipn_app. replace (2 ^ d - length blk) with 0 by lia. cbn [skipn].
      apply skipn_exact. rewrite skipn_length. lia. }
    rewrite F1, F2, F3.
    assert (E : length (firstn (2 ^ d) blk) = length (skipn (2 ^ d) blk)) by (rewrite firstn_length, skipn_length; lia).
    pose proof (ns_bfly_length _ _ (zf i0) E) as [L1 L2].
    destruct (ns_bfly (zf i0) (firstn (2 ^ d) blk) (skipn (2 ^ d) blk)) as [a b]. cbn [fst snd] in *.
    rewrite firstn_length in L1, L2.
    rewrite <- app_assoc.
    rewrite (firstn_exact a) by lia. rewrite (skipn_exact a) by lia.
    rewrite (firstn_exact b) by lia. rewrite (skipn_exact b) by lia.
    replace (S (2 * i0)) with (2 * i0 + 1) by lia.
    rewrite <- app_assoc. f_equal. f_equal.
    replace (S (2 * i0 + 1)) with (2 * S i0) by lia.
    apply IHc. exact Lr.
  Qed.

  Lemma nsrec_all_0 : forall c i0 x, length x = c -> nsrec_all 0 i0 c x = x.
  Proof.
    induction c; intros i0 x Hx; [destruct x; [reflexivity|discriminate Hx]|].
    cbn [nsrec_all NSrec Nat.pow]. destruct x as [|x0 x']; [discriminate Hx|]. cbn [firstn skipn app].
    f_equal. apply IHc. cbn in Hx. lia.
  Qed.

  (* the loop nest = the tree recursion, provided the table lists zf *)
  Lemma nsP_nsrec k : forall s powers x, length x = 2 ^ (s + k) ->
    (forall m, m <= 2 ^ (s + k - 1) -> firstn m powers = map zf (seq 0 m)) ->
    nsP k (2 ^ s) (2 ^ k) powers x = nsrec_all k 0 (2 ^ s) x.
  Proof.
    induction k; intros s powers x Hx Hp.
    - cbn [nsP]. rewrite Nat.add_0_r in Hx. symmetry. apply nsrec_all_0. exact Hx.
    - cbn [nsP]. rewrite div2_pow2.
      rewrite Hp by (apply Nat.pow_le_mono_r; lia).
      replace (2 * 2 ^ s) with (2 ^ S s) by (rewrite Nat.pow_succ_r'; reflexivity).
      replace (s + S k) with (S s + k) in * by lia.
      assert (Hx' : length x = 2 ^ s * 2 ^ S k) by (rewrite Hx, <- Nat.pow_add_r; f_equal; lia).
      rewrite IHk.
      + rewrite Nat.pow_succ_r'. apply (nsrec_all_step k (2 ^ s) 0 x Hx').
      + rewrite ns_blocksP_length; [exact Hx|]. rewrite map_length, seq_length, Hx'. rewrite Nat.pow_succ_r'. lia.
      + exact Hp.
  Qed.
  Lemma nsrec_all_one d x : length x = 2 ^ d -> nsrec_all d 0 1 x = NSrec d 0 x.
  Proof.
    intros Hx. cbn [nsrec_all]. rewrite firstn_all2 by lia. apply app_nil_r.
  Qed.

  (* ---------------------------------------------------------------- the twiddle table *)
  Fixpoint pw (omega : B) (i : nat) : B :=
    match i with O => fone sops | S i' => fmul sops (pw omega i') omega end.

  Section Powers.
    Variables (l1 : nat) (omega : B).
    Let half := 2 ^ l1.
    Let n := 2 * half.
    Let rv := bitrev_nat l1.
    Definition pw_entry (I j : nat) : B :=
      if (j <? half) && (rv j <? I) then pw omega (rv j) else fzero sops.
    Definition pw_inv (a : arr B) (I : nat) : Prop :=
      forall j, j < n -> aget a (Z.of_nat j) = Some (pw_entry I j).

    Lemma powers_loop_inv : forall fuel I a, I + fuel = half -> pw_inv a I ->
      exists a', powers_loop sops fuel (Z.of_nat I) l1 omega (pw omega I) a = Some a' /\ pw_inv a' half.
    Proof.
      induction fuel; intros I a HI Hinv.
      - exists a. split; [reflexivity|]. replace half with I by lia. exact Hinv.
      - cbn [powers_loop]. rewrite bitreverse_nat. fold rv.
        assert (HrI : rv I < half) by apply bitrev_nat_lt.
        rewrite (Hinv (rv I) ltac:(lia)).
        replace (Z.of_nat I + 1)%Z with (Z.of_nat (S I)) by lia.
        change (fmul sops (pw omega I) omega) with (pw omega (S I)).
        apply IHfuel; [lia|]. intros j Hj.
        destruct (Nat.eq_dec j (rv I)) as [->|Hne].
        + rewrite aget_aset_same. f_equal. unfold pw_entry.
          replace (rv I <? half) with true by (symmetry; apply Nat.ltb_lt; exact HrI).
          assert (Hrr : rv (rv I) = I) by (unfold rv; apply bitrev_nat_invol; fold half; lia).
          rewrite Hrr.
          replace (I <? S I) with true by (symmetry; apply Nat.ltb_lt; lia). reflexivity.
        + rewrite aget_aset_other by lia. rewrite (Hinv j Hj). f_equal. unfold pw_entry.
          destruct (j <? half) eqn:E1; [|reflexivity]. cbn [andb]. apply Nat.ltb_lt in E1.
          assert (rv j <> I).
          { intros E. apply Hne. rewrite <- E. unfold rv. rewrite bitrev_nat_invol by exact E1. reflexivity. }
          destruct (rv j <? I) eqn:E2; destruct (rv j <? S I) eqn:E3; try reflexivity.
          * apply Nat.ltb_lt in E2. apply Nat.ltb_ge in E3. lia.
          * apply Nat.ltb_ge in E2. apply Nat.ltb_lt in E3. lia.
    Qed.

    Lemma powers_bitreversed_spec :
      powers_bitreversed sops n (S l1) omega = Some (map (pw_entry half) (seq 0 n)).
    Proof.
      unfold powers_bitreversed. cbn [Nat.pred].
      replace (Nat.div2 n) with half by (unfold n; symmetry; apply Nat.div2_double).
      destruct (powers_loop_inv half 0 (of_list (repeat (fzero sops) n)) ltac:(lia)) as [a' [E Hinv]].
      - intros j Hj. rewrite (aget_of_list _ (fzero sops)) by (rewrite repeat_length; exact Hj).
        f_equal. unfold pw_entry. replace (rv j <? 0) with false by (symmetry; apply Nat.ltb_ge; lia).
        rewrite andb_false_r. apply nth_repeat.
      - change (Z.of_nat 0) with 0%Z in E. change (pw omega 0) with (fone sops) in E. rewrite E.
        unfold to_list. apply to_list_go_spec. intros k Hk. rewrite Z.add_0_l. apply Hinv. exact Hk.
    Qed.

    Lemma powers_firstn m : m <= half ->
      firstn m (map (pw_entry half) (seq 0 n)) = map (fun j => pw omega (rv j)) (seq 0 m).
    Proof.
      intros Hm. rewrite firstn_map, firstn_seq_le by (unfold n; lia).
      apply map_ext_in. intros j Hj. apply in_seq in Hj. unfold pw_entry.
      replace (j <? half) with true by (symmetry; apply Nat.ltb_lt; lia).
      replace (rv j <? half) with true by (symmetry; apply Nat.ltb_lt; apply bitrev_nat_lt). reflexivity.
    Qed.
  End Powers.
End NsStruct.

(* ------------------------------------------------------------------ homomorphisms *)
Section NsHom.
  Context {B F K : Type}.
  Variables (sops : fops B) (ops : fops F) (act : fact B F) (fk : fieldK K).
  Variables (okS : B -> Prop) (okF : F -> Prop) (hS : B -> K) (hF : F -> K).
  Hypothesis H : ntt_hom sops ops act fk okS okF hS hF.
  Let ko := kops fk.
  Let ka := kact fk.

  Lemma ns_bfly_hom : forall us vs zeta, okS zeta -> Forall okF us -> Forall okF vs ->
    Forall okF (fst (ns_bfly ops act zeta us vs)) /\ Forall okF (snd (ns_bfly ops act zeta us vs)) /\
    map hF (fst (ns_bfly ops act zeta us vs)) = fst (ns_bfly ko ka (hS zeta) (map hF us) (map hF vs)) /\
    map hF (snd (ns_bfly ops act zeta us vs)) = snd (ns_bfly ko ka (hS zeta) (map hF us) (map hF vs)).
  Proof.
    induction us as [|u us IH]; intros [|v vs] zeta Hz Hus Hvs; cbn [ns_bfly map fst snd];
      try (repeat split; constructor).
    inversion Hus; subst. inversion Hvs; subst.
    specialize (IH vs zeta Hz H3 H5).
    destruct (ns_bfly ops act zeta us vs) as [a b].
    destruct (ns_bfly ko ka (hS zeta) (map hF us) (map hF vs)) as [a' b'].
    cbn [fst snd map] in *. destruct IH as [I1 [I2 [I3 I4]]].
    destruct (nh_smul _ _ _ _ _ _ _ _ H v zeta H4 Hz) as [Ov Ev].
    destruct (nh_add _ _ _ _ _ _ _ _ H u _ H2 Ov) as [Oa Ea].
    destruct (nh_sub _ _ _ _ _ _ _ _ H u _ H2 Ov) as [Os Es].
    repeat split; try (constructor; assumption).
    - rewrite Ea, Ev, I3. reflexivity.
    - rewrite Es, Ev, I4. reflexivity.
  Qed.

  Lemma ns_blocksP_hom zetas t : Forall okS zetas -> forall x, Forall okF x ->
    Forall okF (ns_blocksP ops act zetas t x) /\
    map hF (ns_blocksP ops act zetas t x) = ns_blocksP ko ka (map hS zetas) t (map hF x).
  Proof.
    induction zetas as [|z zs IH]; intros Hz x Hx; cbn [ns_blocksP map]; [split; [exact Hx|reflexivity]|].
    inversion Hz; subst.
    destruct (IH H3 (skipn t (skipn t x)) (Forall_skipn _ _ _ (Forall_skipn _ _ _ Hx))) as [I1 I2].
    unfold ns_block1.
    pose proof (ns_bfly_hom (firstn t x) (firstn t (skipn t x)) z H2 (Forall_firstn _ _ _ Hx)
                  (Forall_firstn _ _ _ (Forall_skipn _ t _ Hx))) as [J1 [J2 [J3 J4]]].
    rewrite <- !firstn_map, <- !skipn_map in *.
    destruct (ns_bfly ops act z (firstn t x) (firstn t (skipn t x))) as [a b].
    destruct (ns_bfly ko ka (hS z) (firstn t (map hF x)) (firstn t (skipn t (map hF x)))) as [a' b'].
    cbn [fst snd] in *. split.
    - apply Forall_app; split; [apply Forall_app; split; assumption|exact I1].
    - rewrite !map_app, J3, J4, I2. reflexivity.
  Qed.

  Lemma nsP_hom k : forall m t powers x, Forall okS powers -> Forall okF x ->
    Forall okF (nsP ops act k m t powers x) /\
    map hF (nsP ops act k m t powers x) = nsP ko ka k m t (map hS powers) (map hF x).
  Proof.
    induction k; intros m t powers x Hp Hx; cbn [nsP]; [split; [exact Hx|reflexivity]|].
    destruct (ns_blocksP_hom (firstn m powers) (Nat.div2 t) (Forall_firstn _ _ _ Hp) x Hx) as [B1 B2].
    destruct (IHk (2 * m) (Nat.div2 t) powers _ Hp B1) as [I1 I2].
    split; [exact I1|]. rewrite I2, B2, firstn_map. reflexivity.
  Qed.

  Lemma pw_hom omega i : okS omega -> okS (pw sops omega i) /\ hS (pw sops omega i) = kpow fk (hS omega) i.
  Proof.
    intros Hom. induction i; cbn [pw kpow]; [exact (nh_one _ _ _ _ _ _ _ _ H)|].
    destruct IHi as [O E]. destruct (nh_mul _ _ _ _ _ _ _ _ H _ _ O Hom) as [O' E'].
    split; [exact O'|]. rewrite E', E. apply (Rmul_comm (F_R (kFT fk))).
  Qed.
End NsHom.
