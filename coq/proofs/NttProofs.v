(* proofs/NttProofs.v - C06: final theorems about model/Ntt.v (work in progress). *)
From Coq Require Import ZArith Lia List Bool.
From TF Require Import Word BFieldGen BField XField FieldOps Lucas FieldTheory BFieldProofs BFieldLoops BFieldOk NttRoots Ntt Dft.
Import ListNotations.
Open Scope Z_scope.
