(* proofs/NttProofs.v - C06: the theorems about model/Ntt.v.

   Generic part (Section Generic): for any operations records related to an abstract field K by an
   `ntt_hom` (proofs/NttStruct.v), ntt computes dft, intt computes idft, with the documented panics.
   Instances: the base field (bfe_ops on Montgomery words, K = Fp; unconditional) and the extension
   field coordinate-wise (xfe_ops enters only through xadd / xsub / xscale, which act on each of the
   three base-field coefficients separately; K = Fp; unconditional - no field structure of the extension
   is needed for C06). *)
From Coq Require Import ZArith Lia List Bool Arith PeanoNat ZifyNat.
From TF Require Import Word BFieldGen BField XField FieldOps Lucas FieldTheory BFieldProofs BFieldLoops BFieldOk
  NttRoots Ntt Dft NttLists NttStruct NttDft NttBitrev.
Import ListNotations.
Local Open Scope Z_scope.

Lemma Z_of_nat_pow2 l : Z.of_nat (2 ^ l) = 2 ^ Z.of_nat l.
Proof. rewrite Nat2Z.inj_pow. reflexivity. Qed.
Lemma is_pow2_pow2 l : is_pow2 (2 ^ Z.of_nat l) = true.
Proof.
  unfold is_pow2. rewrite Z.log2_pow2 by lia. rewrite Z.eqb_refl, andb_true_r. apply Z.ltb_lt.
  apply Z.pow_pos_nonneg; lia.
Qed.
Lemma is_pow2_inv n : is_pow2 n = true -> exists l, n = 2 ^ Z.of_nat l.
Proof.
  unfold is_pow2. rewrite andb_true_iff, Z.ltb_lt, Z.eqb_eq. intros [Hp E].
  exists (Z.to_nat (Z.log2 n)). rewrite Z2Nat.id by apply Z.log2_nonneg. exact E.
Qed.
Lemma pow2_le_mono l : (l <= 31)%nat -> 2 ^ Z.of_nat l <= 2147483648.
Proof. intros H. change 2147483648 with (2 ^ 31). apply Z.pow_le_mono_r; lia. Qed.

Section Generic.
  Context {B F K : Type}.
  Variables (sops : fops B) (ops : fops F) (act : fact B F) (fk : fieldK K).
  Variables (okS : B -> Prop) (okF : F -> Prop) (hS : B -> K) (hF : F -> K).
  Hypothesis H : ntt_hom sops ops act fk okS okF hS hF.
  Hypothesis H2 : two_neq_0 fk.
  Notation ntt := (ntt sops ops act).
  Notation intt := (intt sops ops act).
  Notation ntt_unchecked := (ntt_unchecked sops ops act).

  Lemma ntt_unchecked_dft l x omega : (l <= 32)%nat -> length x = (2 ^ l)%nat -> Forall okF x -> okS omega ->
    half_root fk (hS omega) l ->
    exists y, ntt_unchecked x omega l = Some y /\ Forall okF y /\ length y = length x /\
              map hF y = dft fk (hS omega) (map hF x).
  Proof.
    intros Hl Hx Hok Hom Hw. unfold Ntt.ntt_unchecked.
    destruct x as [|d x'] eqn:Ex; [cbn in Hx; pose proof (Nat.pow_nonzero 2 l); lia|]. rewrite <- Ex in *. clear Ex x'.
    rewrite (bitrev_permute_brev d l x Hx).
    assert (Hb : length (brev l x) = (1 * 2 ^ l * 1)%nat) by (rewrite brev_length by exact Hx; lia).
    rewrite (stages_P sops ops act l 1 1 _ omega _ ltac:(lia) Hb).
    assert (Hokb : Forall okF (brev l x)).
    { rewrite (brev_bitrev_list d) by exact Hx. unfold bitrev_list. apply Forall_forall. intros v Hv.
      apply in_map_iff in Hv. destruct Hv as [i [<- Hi]]. rewrite Forall_forall in Hok. apply Hok, nth_In.
      rewrite Hx. apply bitrev_nat_lt. }
    assert (Hlen : 0 <= Z.of_nat (length x) <= 2 ^ 32).
    { rewrite Hx, Z_of_nat_pow2. split; [apply Z.pow_nonneg; lia|apply Z.pow_le_mono_r; lia]. }
    destruct (stagesP_hom sops ops act fk okS okF hS hF H l 1 1 _ omega _ Hom Hokb ltac:(lia) Hlen) as [O1 O2].
    eexists. split; [reflexivity|]. split; [exact O1|]. split.
    - rewrite stagesP_length by exact Hb. lia.
    - rewrite O2, <- brev_map, Hx, Z_of_nat_pow2.
      apply stages_brev_dft; [rewrite map_length; exact Hx|exact Hw].
  Qed.

  Lemma prologue_pow2 l omega : (l <= 31)%nat -> froot sops (2 ^ Z.of_nat l) = Some omega ->
    prologue sops (2 ^ Z.of_nat l) = Some (omega, l).
  Proof.
    intros Hl Hr. unfold prologue. pose proof (pow2_le_mono l Hl).
    rewrite Z.gtb_ltb. replace (4294967295 <? 2 ^ Z.of_nat l) with false by (symmetry; apply Z.ltb_ge; lia).
    rewrite is_pow2_pow2, orb_true_r. cbn [negb]. rewrite Hr, Z.log2_pow2, Nat2Z.id by lia. reflexivity.
  Qed.

  (* NTT is the DFT *)
  Theorem ntt_is_dft l x omega : (l <= 31)%nat -> length x = (2 ^ l)%nat -> Forall okF x ->
    froot sops (2 ^ Z.of_nat l) = Some omega -> okS omega -> half_root fk (hS omega) l ->
    exists y, ntt x = Some y /\ Forall okF y /\ length y = length x /\ map hF y = dft fk (hS omega) (map hF x).
  Proof.
    intros Hl Hx Hok Hr Hom Hw. unfold Ntt.ntt.
    assert (En : Z.of_nat (length x) = 2 ^ Z.of_nat l) by (rewrite Hx; apply Z_of_nat_pow2).
    rewrite En, (prologue_pow2 l omega Hl Hr).
    apply ntt_unchecked_dft; try assumption. lia.
  Qed.

  Lemma finv_or_zero_hom s : okS s -> hS s <> k0 fk ->
    okS (finv_or_zero sops s) /\ hS (finv_or_zero sops s) = kinv fk (hS s).
  Proof.
    intros Hs Hn. unfold finv_or_zero. destruct (fis_zero sops s) eqn:E.
    - apply (nh_is_zero _ _ _ _ _ _ _ _ H s Hs) in E. contradiction.
    - destruct (nh_inv _ _ _ _ _ _ _ _ H s Hs Hn) as [y [E1 [E2 E3]]]. rewrite E1. split; assumption.
  Qed.

  (* INTT is the inverse DFT *)
  Theorem intt_is_idft l x omega : (l <= 31)%nat -> length x = (2 ^ l)%nat -> Forall okF x ->
    froot sops (2 ^ Z.of_nat l) = Some omega -> okS omega -> half_root fk (hS omega) l -> hS omega <> k0 fk ->
    exists y, intt x = Some y /\ Forall okF y /\ length y = length x /\ map hF y = idft fk (hS omega) (map hF x).
  Proof.
    intros Hl Hx Hok Hr Hom Hw Hw0. unfold Ntt.intt.
    assert (En' : Z.of_nat (length x) = 2 ^ Z.of_nat l) by (rewrite Hx; apply Z_of_nat_pow2).
    rewrite En', (prologue_pow2 l omega Hl Hr).
    destruct (nh_inv _ _ _ _ _ _ _ _ H omega Hom Hw0) as [oi [E1 [E2 E3]]]. rewrite E1.
    destruct (ntt_unchecked_dft l x oi ltac:(lia) Hx Hok E2) as [y [Ey [Oy [Ly My]]]].
    { rewrite E3. apply half_root_inv; assumption. }
    rewrite Ey.
    assert (Hn : 0 <= 2 ^ Z.of_nat l < 2 ^ 64).
    { split; [apply Z.pow_nonneg; lia|apply Z.pow_lt_mono_r; lia]. }
    destruct (nh_from _ _ _ _ _ _ _ _ H _ Hn) as [On En].
    assert (Hnz : hS (ffrom_u64 sops (2 ^ Z.of_nat l)) <> k0 fk).
    { rewrite En, <- Z_of_nat_pow2. apply kofZ_pow2_neq_0. exact H2. }
    destruct (finv_or_zero_hom _ On Hnz) as [Oi Ei].
    eexists. split; [reflexivity|]. split; [|split].
    - apply Forall_forall. intros v Hv. apply in_map_iff in Hv. destruct Hv as [e [<- He]].
      rewrite Forall_forall in Oy. apply (nh_smul _ _ _ _ _ _ _ _ H); [apply Oy; exact He|exact Oi].
    - rewrite map_length. exact Ly.
    - unfold idft. rewrite map_map, map_length, Hx, Z_of_nat_pow2, <- E3, <- My, map_map.
      apply map_ext_in. intros e He. rewrite Forall_forall in Oy.
      destruct (nh_smul _ _ _ _ _ _ _ _ H e _ (Oy e He) Oi) as [_ ->]. rewrite Ei, En. reflexivity.
  Qed.

  (* round trips, at the level of the denoted field elements *)
  Theorem intt_ntt l x omega : (l <= 31)%nat -> length x = (2 ^ l)%nat -> Forall okF x ->
    froot sops (2 ^ Z.of_nat l) = Some omega -> okS omega -> half_root fk (hS omega) l -> hS omega <> k0 fk ->
    exists y z, ntt x = Some y /\ intt y = Some z /\ Forall okF z /\ map hF z = map hF x.
  Proof.
    intros Hl Hx Hok Hr Hom Hw Hw0.
    destruct (ntt_is_dft l x omega Hl Hx Hok Hr Hom Hw) as [y [Ey [Oy [Ly My]]]].
    destruct (intt_is_idft l y omega Hl ltac:(lia) Oy Hr Hom Hw Hw0) as [z [Ez [Oz [Lz Mz]]]].
    exists y, z. repeat split; try assumption.
    rewrite Mz, My. apply (idft_dft fk H2 l); [rewrite map_length; exact Hx|exact Hw|exact Hw0].
  Qed.
  Theorem ntt_intt l x omega : (l <= 31)%nat -> length x = (2 ^ l)%nat -> Forall okF x ->
    froot sops (2 ^ Z.of_nat l) = Some omega -> okS omega -> half_root fk (hS omega) l -> hS omega <> k0 fk ->
    exists y z, intt x = Some y /\ ntt y = Some z /\ Forall okF z /\ map hF z = map hF x.
  Proof.
    intros Hl Hx Hok Hr Hom Hw Hw0.
    destruct (intt_is_idft l x omega Hl Hx Hok Hr Hom Hw Hw0) as [y [Ey [Oy [Ly My]]]].
    destruct (ntt_is_dft l y omega Hl ltac:(lia) Oy Hr Hom Hw) as [z [Ez [Oz [Lz Mz]]]].
    exists y, z. repeat split; try assumption.
    rewrite Mz, My. apply (dft_idft fk H2 l); [rewrite map_length; exact Hx|exact Hw|exact Hw0].
  Qed.

  (* documented panics: a length that is neither 0 nor a power of two, or that does not fit a u32 *)
  Theorem ntt_panics_not_pow2 x : length x <> 0%nat -> (forall l, length x <> (2 ^ l)%nat) ->
    ntt x = None /\ intt x = None.
  Proof.
    intros H0 Hp. unfold Ntt.ntt, Ntt.intt, prologue.
    destruct (Z.of_nat (length x) >? 4294967295); [split; reflexivity|].
    replace (Z.of_nat (length x) =? 0) with false by (symmetry; apply Z.eqb_neq; lia).
    destruct (is_pow2 (Z.of_nat (length x))) eqn:E; [|split; reflexivity].
    apply is_pow2_inv in E. destruct E as [l E]. exfalso. apply (Hp l).
    rewrite <- Z_of_nat_pow2 in E. lia.
  Qed.
  Theorem ntt_panics_too_long x : Z.of_nat (length x) > 4294967295 -> ntt x = None /\ intt x = None.
  Proof.
    intros Hl. unfold Ntt.ntt, Ntt.intt, prologue.
    rewrite Z.gtb_ltb. replace (4294967295 <? Z.of_nat (length x)) with true by (symmetry; apply Z.ltb_lt; lia).
    split; reflexivity.
  Qed.
End Generic.

(* ------------------------------------------------------------------ a field acting on itself *)
Lemma ntt_hom_self {F K : Type} (o : fops F) (fk : fieldK K) ok den :
  field_ok o fk ok den -> ntt_hom o o (mk_fact F F (fmul o) (fun x => x)) fk ok ok den den.
Proof.
  intros H. constructor.
  - exact (fo_one _ _ _ _ H).
  - exact (fo_mul _ _ _ _ H).
  - intros a e Ha He. apply (fo_pow _ _ _ _ H); [exact Ha|]. change (2 ^ 32) with 4294967296 in He.
    change (2 ^ 64) with 18446744073709551616. lia.
  - exact (fo_inv _ _ _ _ H).
  - exact (fo_from _ _ _ _ H).
  - exact (fo_is_zero o fk ok den H).
  - exact (fo_zero _ _ _ _ H).
  - exact (fo_add _ _ _ _ H).
  - exact (fo_sub _ _ _ _ H).
  - intros a s Ha Hs. cbn [smul]. exact (fo_mul _ _ _ _ H a s Ha Hs).
Qed.

(* ------------------------------------------------------------------ the base field *)
Lemma fp_two_neq_0 : two_neq_0 fp_field.
Proof. unfold two_neq_0. intros E. apply (f_equal fval) in E. discriminate E. Qed.

Lemma bb_hom : ntt_hom bfe_ops bfe_ops bb_act fp_field canon canon bden bden.
Proof. exact (ntt_hom_self bfe_ops fp_field canon bden bfe_field_ok). Qed.

Lemma fp_opp1 : fval (kopp fp_field (k1 fp_field)) = Lucas.P - 1.
Proof. reflexivity. Qed.

(* the tabulated roots, as field elements: exact order *)
Theorem roots_exact_order l omega : (l <= 32)%nat -> primitive_root_of_unity (2 ^ Z.of_nat l) = Some omega ->
  canon omega /\ kpow fp_field (bden omega) (2 ^ l) = k1 fp_field /\ half_root fp_field (bden omega) l /\
  bden omega <> k0 fp_field /\
  (forall d, (0 < d < 2 ^ l)%nat -> kpow fp_field (bden omega) d <> k1 fp_field).
Proof.
  intros Hl Hr. unfold primitive_root_of_unity in Hr.
  destruct (assoc (2 ^ Z.of_nat l) PRIMITIVE_ROOTS) as [r|] eqn:Ea; [|discriminate Hr].
  injection Hr as <-. apply assoc_In in Ea.
  destruct (roots_exact_order_Z _ _ Ea) as [Rr [R1 R2]].
  assert (Hr64 : 0 <= r < 2 ^ 64) by (unfold Lucas.P in Rr; change (2 ^ 64) with 18446744073709551616; lia).
  destruct (bden_new r Hr64) as [C E]. rewrite E.
  assert (Hfv : fval (fp_of r) = r) by (rewrite fval_of; apply Z.mod_small; exact Rr).
  assert (Hhalf : half_root fp_field (fp_of r) l).
  { destruct l as [|l']; [exact I|]. cbn [half_root]. apply Fp_eq. rewrite fp_kpow, Hfv, fp_opp1.
    rewrite Nat2Z.inj_succ, Z.pow_succ_r in R2 by lia.
    replace (2 * 2 ^ Z.of_nat l' / 2) with (2 ^ Z.of_nat l') in R2 by (rewrite Z.mul_comm, Z.div_mul; lia).
    rewrite Z_of_nat_pow2. apply R2. pose proof (Z.pow_pos_nonneg 2 (Z.of_nat l')). lia. }
  assert (Hfull : kpow fp_field (fp_of r) (2 ^ l) = k1 fp_field).
  { apply Fp_eq. rewrite fp_kpow, Hfv, Z_of_nat_pow2. exact R1. }
  split; [exact C|]. split; [exact Hfull|]. split; [exact Hhalf|]. split.
  - intros E0. rewrite E0 in Hfull. destruct (2 ^ l)%nat eqn:E2; [pose proof (Nat.pow_nonzero 2 l); lia|].
    rewrite kpow_0_l in Hfull. apply (k1_neq_0 fp_field). symmetry. exact Hfull.
  - destruct l as [|l']; [intros d Hd; cbn in Hd; lia|].
    apply (half_root_order fp_field fp_two_neq_0 l'). exact Hhalf.
Qed.

Lemma root_exists l : (l <= 32)%nat -> exists omega, primitive_root_of_unity (2 ^ Z.of_nat l) = Some omega.
Proof.
  intros Hl. destruct (primitive_root_of_unity (2 ^ Z.of_nat l)) eqn:E; [eexists; reflexivity|].
  exfalso. apply (proj2 (root_defined_iff (2 ^ Z.of_nat l))); [|exact E]. right. exists l. split; [exact Hl|reflexivity].
Qed.

Theorem ntt_b_is_dft l x : (l <= 31)%nat -> length x = (2 ^ l)%nat -> Forall canon x ->
  exists y omega, primitive_root_of_unity (2 ^ Z.of_nat l) = Some omega /\ ntt_b x = Some y /\
    Forall canon y /\ length y = length x /\ map bden y = dft fp_field (bden omega) (map bden x).
Proof.
  intros Hl Hx Hok. destruct (root_exists l ltac:(lia)) as [omega Hr].
  destruct (roots_exact_order l omega ltac:(lia) Hr) as [C [_ [Hh _]]].
  destruct (ntt_is_dft bfe_ops bfe_ops bb_act fp_field canon canon bden bden bb_hom l x omega Hl Hx Hok Hr C Hh)
    as [y Hy].
  exists y, omega. split; [exact Hr|exact Hy].
Qed.

Theorem intt_b_is_idft l x : (l <= 31)%nat -> length x = (2 ^ l)%nat -> Forall canon x ->
  exists y omega, primitive_root_of_unity (2 ^ Z.of_nat l) = Some omega /\ intt_b x = Some y /\
    Forall canon y /\ length y = length x /\ map bden y = idft fp_field (bden omega) (map bden x).
Proof.
  intros Hl Hx Hok. destruct (root_exists l ltac:(lia)) as [omega Hr].
  destruct (roots_exact_order l omega ltac:(lia) Hr) as [C [_ [Hh [H0 _]]]].
  destruct (intt_is_idft bfe_ops bfe_ops bb_act fp_field canon canon bden bden bb_hom fp_two_neq_0 l x omega
              Hl Hx Hok Hr C Hh H0) as [y Hy].
  exists y, omega. split; [exact Hr|exact Hy].
Qed.

(* canonical words with equal denotations are equal, list-wise *)
Lemma map_bden_inj x y : Forall canon x -> Forall canon y -> map bden x = map bden y -> x = y.
Proof.
  revert y. induction x as [|a x IH]; intros [|b y] Hx Hy E; try discriminate E; [reflexivity|].
  inversion Hx; subst. inversion Hy; subst. cbn [map] in E. injection E as E1 E2.
  f_equal; [|apply IH; assumption].
  apply repr_unique; assumption.
Qed.

Theorem intt_ntt_b l x : (l <= 31)%nat -> length x = (2 ^ l)%nat -> Forall canon x ->
  exists y, ntt_b x = Some y /\ intt_b y = Some x.
Proof.
  intros Hl Hx Hok. destruct (root_exists l ltac:(lia)) as [omega Hr].
  destruct (roots_exact_order l omega ltac:(lia) Hr) as [C [_ [Hh [H0 _]]]].
  destruct (intt_ntt bfe_ops bfe_ops bb_act fp_field canon canon bden bden bb_hom fp_two_neq_0 l x omega
              Hl Hx Hok Hr C Hh H0) as [y [z [Ey [Ez [Oz Mz]]]]].
  exists y. split; [exact Ey|]. unfold intt_b. rewrite Ez. f_equal. apply map_bden_inj; assumption.
Qed.
Theorem ntt_intt_b l x : (l <= 31)%nat -> length x = (2 ^ l)%nat -> Forall canon x ->
  exists y, intt_b x = Some y /\ ntt_b y = Some x.
Proof.
  intros Hl Hx Hok. destruct (root_exists l ltac:(lia)) as [omega Hr].
  destruct (roots_exact_order l omega ltac:(lia) Hr) as [C [_ [Hh [H0 _]]]].
  destruct (ntt_intt bfe_ops bfe_ops bb_act fp_field canon canon bden bden bb_hom fp_two_neq_0 l x omega
              Hl Hx Hok Hr C Hh H0) as [y [z [Ey [Ez [Oz Mz]]]]].
  exists y. split; [exact Ey|]. unfold ntt_b. rewrite Ez. f_equal. apply map_bden_inj; assumption.
Qed.

(* length 0: the identity; the table has an entry for 0 *)
Lemma ntt_b_nil : ntt_b [] = Some [] /\ intt_b [] = Some [].
Proof. split; reflexivity. Qed.
