(* proofs/NttRoots.v - C06, the table part: every entry (n, r) of the REGENERATED table PRIMITIVE_ROOTS
   (gen/BFieldGen.v) satisfies r^n = 1 and, for n >= 2, r^(n/2) = -1 (mod P); the keys are exactly 0 and
   2^0 .. 2^32.  Checked by vm_compute with the verified square-and-multiply Lucas.powmod. *)
From Coq Require Import ZArith Lia List Bool.
From TF Require Import Word BFieldGen BField Lucas.
Import ListNotations.
Open Scope Z_scope.

Definition root_entry_ok (e : Z * Z) : bool :=
  let '(n, r) := e in
  (0 <=? r) && (r <? Lucas.P) && (0 <=? n) && (powmod r n Lucas.P =? 1) &&
  (if 2 <=? n then powmod r (n / 2) Lucas.P =? Lucas.P - 1 else true).

Lemma roots_table_ok : forallb root_entry_ok PRIMITIVE_ROOTS = true.
Proof. vm_compute. reflexivity. Qed.

(* the keys of the table: 0, then the powers of two up to 2^32 - 34 entries *)
Lemma roots_table_keys : map fst PRIMITIVE_ROOTS = 0 :: map (fun k => 2 ^ Z.of_nat k) (seq 0 33).
Proof. vm_compute. reflexivity. Qed.

Theorem roots_exact_order_Z : forall n r, In (n, r) PRIMITIVE_ROOTS ->
  0 <= r < Lucas.P /\ r ^ n mod Lucas.P = 1 /\ (2 <= n -> r ^ (n / 2) mod Lucas.P = Lucas.P - 1).
Proof.
  intros n r Hin. pose proof roots_table_ok as H. rewrite forallb_forall in H. specialize (H _ Hin).
  unfold root_entry_ok in H. rewrite !andb_true_iff in H. destruct H as [[[[H1 H2] H3] H4] H5].
  apply Z.leb_le in H1, H3. apply Z.ltb_lt in H2. apply Z.eqb_eq in H4.
  rewrite powmod_spec in H4 by (try exact P_pos; lia).
  split; [lia|]. split; [exact H4|]. intros Hn.
  destruct (2 <=? n) eqn:E; [|apply Z.leb_gt in E; lia].
  apply Z.eqb_eq in H5. rewrite powmod_spec in H5; [exact H5|exact P_pos|].
  apply Z.div_pos; lia.
Qed.

Lemma assoc_In k l r : assoc k l = Some r -> In (k, r) l.
Proof.
  induction l as [|[a b] l IH]; cbn [assoc]; [discriminate|].
  destruct (a =? k) eqn:E.
  - intros H. injection H as ->. apply Z.eqb_eq in E. subst. left. reflexivity.
  - intros H. right. apply IH. exact H.
Qed.
Lemma assoc_None_iff k (l : list (Z * Z)) : assoc k l = None <-> ~ In k (map fst l).
Proof.
  induction l as [|[a b] l IH]; cbn [assoc map fst In]; [tauto|].
  destruct (a =? k) eqn:E.
  - apply Z.eqb_eq in E. split; [discriminate|]. intros H. exfalso. apply H. left. exact E.
  - apply Z.eqb_neq in E. rewrite IH. tauto.
Qed.

(* which arguments have a root: exactly 0 and the powers of two up to 2^32 *)
Lemma root_defined_iff n :
  primitive_root_of_unity n <> None <-> (n = 0 \/ exists k, (k <= 32)%nat /\ n = 2 ^ Z.of_nat k).
Proof.
  unfold primitive_root_of_unity.
  assert (A : assoc n PRIMITIVE_ROOTS <> None <-> In n (map fst PRIMITIVE_ROOTS)).
  { rewrite assoc_None_iff. destruct (in_dec Z.eq_dec n (map fst PRIMITIVE_ROOTS)); tauto. }
  assert (B : (match assoc n PRIMITIVE_ROOTS with Some r => Some (bfe_new r) | None => None end) <> None
              <-> assoc n PRIMITIVE_ROOTS <> None).
  { destruct (assoc n PRIMITIVE_ROOTS); split; intros H; congruence. }
  rewrite B, A, roots_table_keys. cbn [In]. rewrite in_map_iff.
  split.
  - intros [H|[k [H1 H2]]]; [left; symmetry; exact H|right]. exists k. apply in_seq in H2. split; [lia|symmetry; exact H1].
  - intros [H|[k [H1 H2]]]; [left; symmetry; exact H|right]. exists k. split; [symmetry; exact H2|apply in_seq; lia].
Qed.
