(* proofs/NttStruct.v - structural facts about the butterfly loops of model/Ntt.v, for ANY operations
   records: fuel-free forms (blocksP, stagesP) of `blocks` and `stages`, how a stage acts on a
   concatenation, peeling off the last stage, and naturality with respect to homomorphisms of the
   operations (the refinement step from Montgomery words to the abstract field). *)
From Coq Require Import ZArith Lia List Bool Arith PeanoNat ZifyNat.
From TF Require Import FieldOps FieldTheory Ntt.
Import ListNotations.
Local Open Scope nat_scope.

Lemma Forall_firstn {A} (P : A -> Prop) n l : Forall P l -> Forall P (firstn n l).
Proof.
  revert l. induction n; intros l H; [constructor|]. destruct l; [constructor|].
  inversion H; subst. cbn [firstn]. constructor; auto.
Qed.
Lemma Forall_skipn {A} (P : A -> Prop) n l : Forall P l -> Forall P (skipn n l).
Proof.
  revert l. induction n; intros l H; [exact H|]. destruct l; [constructor|].
  inversion H; subst. cbn [skipn]. auto.
Qed.

Section Struct.
  Context {B F : Type}.
  Variables (sops : fops B) (ops : fops F) (act : fact B F).
  Notation bfly := (bfly sops ops act).
  Notation blocks := (blocks sops ops act).
  Notation stages := (stages sops ops act).

  Lemma bfly_length : forall us vs w_m w, length us = length vs ->
    length (fst (bfly w_m w us vs)) = length us /\ length (snd (bfly w_m w us vs)) = length us.
  Proof.
    induction us as [|u us IH]; intros [|v vs] w_m w H; cbn [Ntt.bfly]; try (cbn in H; discriminate H); [split; reflexivity|].
    specialize (IH vs w_m (fmul sops w w_m) ltac:(cbn in H; lia)).
    destruct (bfly w_m (fmul sops w w_m) us vs) as [a b]. cbn [fst snd length] in *. lia.
  Qed.

  (* one block: the contents of x[0..2m) after the inner loop *)
  Definition block1 (m : nat) (w_m : B) (x : list F) : list F :=
    let '(a, b) := bfly w_m (fone sops) (firstn m x) (firstn m (skipn m x)) in a ++ b.
  (* q consecutive blocks *)
  Fixpoint blocksP (q m : nat) (w_m : B) (x : list F) : list F :=
    match q with
    | O => []
    | S q' => block1 m w_m x ++ blocksP q' m w_m (skipn m (skipn m x))
    end.

  Lemma block1_length m w_m x : 2 * m <= length x -> length (block1 m w_m x) = 2 * m.
  Proof.
    intros H. unfold block1.
    assert (E : length (firstn m x) = length (firstn m (skipn m x))).
    { rewrite !firstn_length, skipn_length. lia. }
    pose proof (bfly_length _ _ w_m (fone sops) E) as [L1 L2].
    destruct (bfly w_m (fone sops) (firstn m x) (firstn m (skipn m x))) as [a b]. cbn [fst snd] in *.
    rewrite app_length, L1, L2, firstn_length. lia.
  Qed.
  Lemma blocksP_length q m w_m : forall x, length x = q * (2 * m) -> length (blocksP q m w_m x) = q * (2 * m).
  Proof.
    induction q; intros x H; [reflexivity|]. cbn [blocksP]. rewrite app_length, block1_length by lia.
    rewrite IHq by (rewrite !skipn_length; lia). lia.
  Qed.

  Lemma blocks_P q m w_m : (0 < m)%nat -> forall x fuel, length x = q * (2 * m) -> (q <= fuel)%nat ->
    blocks fuel m w_m x = Some (blocksP q m w_m x).
  Proof.
    intros Hm. induction q; intros x fuel Hx Hf.
    - destruct x; [|cbn in Hx; discriminate Hx]. destruct fuel; reflexivity.
    - destruct fuel as [|f]; [lia|]. cbn [Ntt.blocks blocksP].
      destruct x as [|x0 x']; [cbn in Hx; lia|]. set (x := x0 :: x') in *.
      assert (Hv : length (firstn m (skipn m x)) = m) by (rewrite firstn_length, skipn_length; lia).
      rewrite Hv, Nat.eqb_refl. unfold block1.
      destruct (bfly w_m (fone sops) (firstn m x) (firstn m (skipn m x))) as [a b].
      rewrite (IHq (skipn m (skipn m x)) f) by (try rewrite !skipn_length; lia).
      rewrite app_assoc. reflexivity.
  Qed.

  Lemma block1_app m w_m a b : 2 * m <= length a -> block1 m w_m (a ++ b) = block1 m w_m a.
  Proof.
    intros H. unfold block1.
    rewrite firstn_app, skipn_app. replace (m - length a) with 0 by lia. cbn [firstn skipn]. rewrite app_nil_r.
    rewrite firstn_app, skipn_length. replace (m - (length a - m)) with 0 by lia. cbn [firstn]. rewrite app_nil_r.
    reflexivity.
  Qed.
  Lemma blocksP_app qa qb m w_m : forall a b, length a = qa * (2 * m) ->
    blocksP (qa + qb) m w_m (a ++ b) = blocksP qa m w_m a ++ blocksP qb m w_m b.
  Proof.
    induction qa; intros a b Ha.
    - destruct a; [reflexivity|cbn in Ha; discriminate Ha].
    - cbn [Nat.add blocksP]. rewrite block1_app by lia. rewrite <- app_assoc. f_equal.
      rewrite skipn_app. replace (m - length a) with 0 by lia. cbn [skipn].
      rewrite skipn_app, skipn_length. replace (m - (length a - m)) with 0 by lia. cbn [skipn].
      apply IHqa. rewrite !skipn_length. lia.
  Qed.

  (* l stages starting with half-block size m, on a list of length c * 2^l * m *)
  Fixpoint stagesP (l m c : nat) (len : Z) (omega : B) (x : list F) : list F :=
    match l with
    | O => x
    | S l' => stagesP l' (2 * m) c len omega
                (blocksP (c * 2 ^ l') m (fpow sops omega (len / (2 * Z.of_nat m))) x)
    end.

  Lemma stagesP_length l : forall m c len omega x, length x = c * 2 ^ l * m ->
    length (stagesP l m c len omega x) = c * 2 ^ l * m.
  Proof.
    induction l; intros m c len omega x H; [exact H|]. cbn [stagesP].
    rewrite IHl; rewrite ?blocksP_length; rewrite ?Nat.pow_succ_r' in *; lia.
  Qed.

  Lemma stages_P l : forall m c len omega x, (0 < m)%nat -> length x = c * 2 ^ l * m ->
    stages l m len omega x = Some (stagesP l m c len omega x).
  Proof.
    induction l; intros m c len omega x Hm Hx; [reflexivity|]. cbn [Ntt.stages stagesP].
    rewrite (blocks_P (c * 2 ^ l) m) by (try exact Hm; rewrite ?Nat.pow_succ_r' in Hx; nia).
    apply IHl; [lia|]. rewrite blocksP_length; rewrite ?Nat.pow_succ_r' in Hx; lia.
  Qed.

  Lemma stagesP_app l : forall m ca cb len omega a b, length a = ca * 2 ^ l * m -> length b = cb * 2 ^ l * m ->
    stagesP l m (ca + cb) len omega (a ++ b) = stagesP l m ca len omega a ++ stagesP l m cb len omega b.
  Proof.
    induction l; intros m ca cb len omega a b Ha Hb; [reflexivity|]. cbn [stagesP].
    rewrite Nat.mul_add_distr_r, blocksP_app by (rewrite Nat.pow_succ_r' in Ha; lia).
    apply IHl; rewrite blocksP_length; rewrite ?Nat.pow_succ_r' in *; lia.
  Qed.

  (* peel off the last stage *)
  Lemma stagesP_last l : forall m c len omega x,
    stagesP (S l) m c len omega x = stagesP 1 (2 ^ l * m) c len omega (stagesP l m (2 * c) len omega x).
  Proof.
    induction l; intros m c len omega x.
    - cbn [stagesP Nat.pow]. rewrite Nat.mul_1_l. reflexivity.
    - change (stagesP (S (S l)) m c len omega x)
        with (stagesP (S l) (2 * m) c len omega (blocksP (c * 2 ^ S l) m (fpow sops omega (len / (2 * Z.of_nat m))) x)).
      rewrite IHl.
      replace (2 ^ l * (2 * m)) with (2 ^ S l * m) by (rewrite Nat.pow_succ_r'; lia).
      f_equal. cbn [stagesP]. replace (2 * c * 2 ^ l) with (c * 2 ^ S l) by (rewrite Nat.pow_succ_r'; lia).
      reflexivity.
  Qed.

  (* a single stage on exactly one block *)
  Lemma stagesP_1_one m len omega x : length x = 2 * m ->
    stagesP 1 m 1 len omega x = block1 m (fpow sops omega (len / (2 * Z.of_nat m))) x.
  Proof.
    intros H. cbn [stagesP Nat.pow Nat.mul blocksP]. cbn [Nat.add]. apply app_nil_r.
  Qed.
End Struct.

(* ------------------------------------------------------------------ homomorphisms *)
(* What the butterfly network uses of the two fields, transported along hS : B -> K, hF : F -> K.
   (K is one abstract field; hF may be a coordinate of a vector space over it.) *)
Record ntt_hom {B F K : Type} (sops : fops B) (ops : fops F) (act : fact B F) (fk : fieldK K)
       (okS : B -> Prop) (okF : F -> Prop) (hS : B -> K) (hF : F -> K) : Prop := mk_ntt_hom {
  nh_one : okS (fone sops) /\ hS (fone sops) = k1 fk;
  nh_mul : forall a b, okS a -> okS b -> okS (fmul sops a b) /\ hS (fmul sops a b) = kmul fk (hS a) (hS b);
  nh_pow : forall a e, okS a -> (0 <= e < 2 ^ 32)%Z -> okS (fpow sops a e) /\ hS (fpow sops a e) = kpowZ fk (hS a) e;
  nh_inv : forall a, okS a -> hS a <> k0 fk -> exists y, finv sops a = Some y /\ okS y /\ hS y = kinv fk (hS a);
  nh_from : forall v, (0 <= v < 2 ^ 64)%Z -> okS (ffrom_u64 sops v) /\ hS (ffrom_u64 sops v) = kofZ fk v;
  nh_is_zero : forall a, okS a -> (fis_zero sops a = true <-> hS a = k0 fk);
  nh_zero : okS (fzero sops) /\ hS (fzero sops) = k0 fk;
  nh_add : forall a b, okF a -> okF b -> okF (fadd ops a b) /\ hF (fadd ops a b) = kadd fk (hF a) (hF b);
  nh_sub : forall a b, okF a -> okF b -> okF (fsub ops a b) /\ hF (fsub ops a b) = ksub fk (hF a) (hF b);
  nh_smul : forall a s, okF a -> okS s -> okF (smul act a s) /\ hF (smul act a s) = kmul fk (hF a) (hS s)
}.

Section Hom.
  Context {B F K : Type}.
  Variables (sops : fops B) (ops : fops F) (act : fact B F) (fk : fieldK K).
  Variables (okS : B -> Prop) (okF : F -> Prop) (hS : B -> K) (hF : F -> K).
  Hypothesis H : ntt_hom sops ops act fk okS okF hS hF.
  Let ko := kops fk.
  Let ka := kact fk.

  Lemma bfly_hom : forall us vs w_m w, okS w_m -> okS w -> Forall okF us -> Forall okF vs ->
    Forall okF (fst (bfly sops ops act w_m w us vs)) /\ Forall okF (snd (bfly sops ops act w_m w us vs)) /\
    map hF (fst (bfly sops ops act w_m w us vs)) = fst (bfly ko ko ka (hS w_m) (hS w) (map hF us) (map hF vs)) /\
    map hF (snd (bfly sops ops act w_m w us vs)) = snd (bfly ko ko ka (hS w_m) (hS w) (map hF us) (map hF vs)).
  Proof.
    induction us as [|u us IH]; intros [|v vs] w_m w Hwm Hw Hus Hvs; cbn [bfly map fst snd];
      try (repeat split; constructor).
    inversion Hus; subst. inversion Hvs; subst.
    destruct (nh_mul _ _ _ _ _ _ _ _ H w w_m Hw Hwm) as [Ow Ew].
    specialize (IH vs w_m (fmul sops w w_m) Hwm Ow H3 H5). rewrite Ew in IH.
    destruct (bfly sops ops act w_m (fmul sops w w_m) us vs) as [a b].
    change (fmul ko (hS w) (hS w_m)) with (kmul fk (hS w) (hS w_m)).
    destruct (bfly ko ko ka (hS w_m) (kmul fk (hS w) (hS w_m)) (map hF us) (map hF vs)) as [a' b'].
    cbn [fst snd map] in *. destruct IH as [I1 [I2 [I3 I4]]].
    destruct (nh_smul _ _ _ _ _ _ _ _ H v w H4 Hw) as [Ov Ev].
    destruct (nh_add _ _ _ _ _ _ _ _ H u _ H2 Ov) as [Oa Ea].
    destruct (nh_sub _ _ _ _ _ _ _ _ H u _ H2 Ov) as [Os Es].
    repeat split; try (constructor; assumption).
    - rewrite Ea, Ev, I3. reflexivity.
    - rewrite Es, Ev, I4. reflexivity.
  Qed.

  Lemma block1_hom m w_m x : okS w_m -> Forall okF x ->
    Forall okF (block1 sops ops act m w_m x) /\
    map hF (block1 sops ops act m w_m x) = block1 ko ko ka m (hS w_m) (map hF x).
  Proof.
    intros Hw Hx. unfold block1.
    pose proof (bfly_hom (firstn m x) (firstn m (skipn m x)) w_m (fone sops) Hw (proj1 (nh_one _ _ _ _ _ _ _ _ H))
                  (Forall_firstn _ _ _ Hx) (Forall_firstn _ _ _ (Forall_skipn _ m _ Hx))) as [I1 [I2 [I3 I4]]].
    rewrite (proj2 (nh_one _ _ _ _ _ _ _ _ H)) in I3, I4.
    rewrite <- !firstn_map, <- !skipn_map in *.
    change (fone ko) with (k1 fk).
    destruct (bfly sops ops act w_m (fone sops) (firstn m x) (firstn m (skipn m x))) as [a b].
    destruct (bfly ko ko ka (hS w_m) (k1 fk) (firstn m (map hF x)) (firstn m (skipn m (map hF x)))) as [a' b'].
    cbn [fst snd] in *. split; [apply Forall_app; split; assumption|].
    rewrite map_app, I3, I4. reflexivity.
  Qed.

  Lemma blocksP_hom q m w_m : okS w_m -> forall x, Forall okF x ->
    Forall okF (blocksP sops ops act q m w_m x) /\
    map hF (blocksP sops ops act q m w_m x) = blocksP ko ko ka q m (hS w_m) (map hF x).
  Proof.
    intros Hw. induction q; intros x Hx; cbn [blocksP]; [split; [constructor|reflexivity]|].
    destruct (block1_hom m w_m x Hw Hx) as [B1 B2].
    destruct (IHq (skipn m (skipn m x)) (Forall_skipn _ _ _ (Forall_skipn _ _ _ Hx))) as [I1 I2].
    split; [apply Forall_app; split; assumption|].
    rewrite map_app, B2, I2, <- !skipn_map. reflexivity.
  Qed.

  Lemma stagesP_hom l : forall m c len omega x, okS omega -> Forall okF x ->
    (0 < m)%nat -> (0 <= len <= 2 ^ 32)%Z ->
    Forall okF (stagesP sops ops act l m c len omega x) /\
    map hF (stagesP sops ops act l m c len omega x) = stagesP ko ko ka l m c len (hS omega) (map hF x).
  Proof.
    induction l; intros m c len omega x Hom Hx Hm Hlen; cbn [stagesP]; [split; [exact Hx|reflexivity]|].
    assert (He : (0 <= len / (2 * Z.of_nat m) < 2 ^ 32)%Z).
    { split; [apply Z.div_pos; lia|]. apply Z.div_lt_upper_bound; [lia|]. nia. }
    destruct (nh_pow _ _ _ _ _ _ _ _ H omega _ Hom He) as [Ow Ew].
    destruct (blocksP_hom (c * 2 ^ l) m _ Ow x Hx) as [B1 B2].
    destruct (IHl (2 * m) c len omega _ Hom B1 ltac:(lia) Hlen) as [I1 I2].
    split; [exact I1|]. rewrite I2, B2, Ew. reflexivity.
  Qed.
End Hom.
