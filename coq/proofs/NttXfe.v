(* proofs/NttXfe.v - C06 for vectors over the extension field.  ntt.rs touches XFieldElement only through
   `+`, `-` and `*= BFieldElement`; the model's xadd / xsub / xscale act on each of the three base-field
   coefficients separately, so the transform of an XFieldElement vector is the transform of its three
   coefficient vectors, i.e. the DFT over the 3-dimensional space K^3 with base-field twiddles (dft3).
   No field structure of the extension is used: the result is unconditional. *)
From Coq Require Import ZArith Lia List Bool Arith PeanoNat ZifyNat Ring_theory Field_theory.
From TF Require Import Word BFieldGen BField XField FieldOps Lucas FieldTheory BFieldProofs BFieldLoops BFieldOk
  NttRoots Ntt Dft NttLists NttStruct NttDft NttBitrev NttProofs.
Import ListNotations.
Local Open Scope Z_scope.

Definition xc0 (x : xfe) : Z := let '(a, _, _) := x in a.
Definition xc1 (x : xfe) : Z := let '(_, b, _) := x in b.
Definition xc2 (x : xfe) : Z := let '(_, _, c) := x in c.
Definition okX (x : xfe) : Prop := canon (xc0 x) /\ canon (xc1 x) /\ canon (xc2 x).
Definition xden (x : xfe) : K3 (K := Fp) := (bden (xc0 x), bden (xc1 x), bden (xc2 x)).

Lemma okX_add a b : okX a -> okX b -> okX (xadd a b).
Proof.
  destruct a as [[a0 a1] a2], b as [[b0 b1] b2]. intros [A0 [A1 A2]] [B0 [B1 B2]].
  repeat split; cbn [xadd xc0 xc1 xc2]; apply add_spec; assumption.
Qed.
Lemma okX_neg a : okX a -> okX (xneg a).
Proof.
  destruct a as [[a0 a1] a2]. intros [A0 [A1 A2]]. repeat split; cbn [xneg xc0 xc1 xc2]; apply neg_spec; assumption.
Qed.
Lemma okX_scale a s : okX a -> canon s -> okX (xscale a s).
Proof.
  destruct a as [[a0 a1] a2]. intros [A0 [A1 A2]] Hs. repeat split; cbn [xscale xc0 xc1 xc2]; apply mul_spec; assumption.
Qed.

Lemma fp_sub_def (a b : Fp) : kadd fp_field a (kopp fp_field b) = ksub fp_field a b.
Proof. symmetry. apply (Rsub_def (F_R (kFT fp_field))). Qed.

Section Coord.
  Variable c : xfe -> Z.
  Hypothesis c_ok : forall x, okX x -> canon (c x).
  Hypothesis c_add : forall a b, c (xadd a b) = bfe_add (c a) (c b).
  Hypothesis c_neg : forall a, c (xneg a) = bfe_neg (c a).
  Hypothesis c_scale : forall a s, c (xscale a s) = bfe_mul (c a) s.

  Lemma xb_hom_coord : ntt_hom bfe_ops xfe_ops xb_act fp_field canon okX bden (fun x => bden (c x)).
  Proof.
    constructor.
    - exact (nh_one _ _ _ _ _ _ _ _ bb_hom).
    - exact (nh_mul _ _ _ _ _ _ _ _ bb_hom).
    - exact (nh_pow _ _ _ _ _ _ _ _ bb_hom).
    - exact (nh_inv _ _ _ _ _ _ _ _ bb_hom).
    - exact (nh_from _ _ _ _ _ _ _ _ bb_hom).
    - exact (nh_is_zero _ _ _ _ _ _ _ _ bb_hom).
    - exact (nh_zero _ _ _ _ _ _ _ _ bb_hom).
    - intros a b Ha Hb. cbn [fadd xfe_ops]. split; [apply okX_add; assumption|].
      rewrite c_add. apply (fo_add _ _ _ _ bfe_field_ok); apply c_ok; assumption.
    - intros a b Ha Hb. cbn [fsub xfe_ops]. unfold xsub. split; [apply okX_add; [|apply okX_neg]; assumption|].
      rewrite c_add, c_neg.
      destruct (fo_neg _ _ _ _ bfe_field_ok (c b) (c_ok b Hb)) as [On En].
      destruct (fo_add _ _ _ _ bfe_field_ok (c a) _ (c_ok a Ha) On) as [_ Ea].
      cbn [fadd fneg bfe_ops] in *. rewrite Ea, En. apply fp_sub_def.
    - intros a s Ha Hs. cbn [smul xb_act]. split; [apply okX_scale; assumption|].
      rewrite c_scale. apply (fo_mul _ _ _ _ bfe_field_ok); [apply c_ok; assumption|assumption].
  Qed.
End Coord.

Lemma xb_hom0 : ntt_hom bfe_ops xfe_ops xb_act fp_field canon okX bden (fun x => bden (xc0 x)).
Proof.
  apply xb_hom_coord.
  - intros x H. apply H.
  - intros [[a0 a1] a2] [[b0 b1] b2]. reflexivity.
  - intros [[a0 a1] a2]. reflexivity.
  - intros [[a0 a1] a2] s. reflexivity.
Qed.
Lemma xb_hom1 : ntt_hom bfe_ops xfe_ops xb_act fp_field canon okX bden (fun x => bden (xc1 x)).
Proof.
  apply xb_hom_coord.
  - intros x H. apply H.
  - intros [[a0 a1] a2] [[b0 b1] b2]. reflexivity.
  - intros [[a0 a1] a2]. reflexivity.
  - intros [[a0 a1] a2] s. reflexivity.
Qed.
Lemma xb_hom2 : ntt_hom bfe_ops xfe_ops xb_act fp_field canon okX bden (fun x => bden (xc2 x)).
Proof.
  apply xb_hom_coord.
  - intros x H. apply H.
  - intros [[a0 a1] a2] [[b0 b1] b2]. reflexivity.
  - intros [[a0 a1] a2]. reflexivity.
  - intros [[a0 a1] a2] s. reflexivity.
Qed.

(* ------------------------------------------------------------------ dft3 is the coordinate-wise dft *)
Section Dft3.
  Context {K : Type} (fk : fieldK K).
  Definition p0 (a : K3 (K := K)) : K := let '(x, _, _) := a in x.
  Definition p1 (a : K3 (K := K)) : K := let '(_, y, _) := a in y.
  Definition p2 (a : K3 (K := K)) : K := let '(_, _, z) := a in z.

  Lemma k3_eq (a b : K3 (K := K)) : p0 a = p0 b -> p1 a = p1 b -> p2 a = p2 b -> a = b.
  Proof. destruct a as [[? ?] ?], b as [[? ?] ?]. cbn. intros -> -> ->. reflexivity. Qed.
  Lemma k3_list_eq (a b : list (K3 (K := K))) :
    map p0 a = map p0 b -> map p1 a = map p1 b -> map p2 a = map p2 b -> a = b.
  Proof.
    revert b. induction a as [|x a IH]; intros [|y b] E0 E1 E2; try discriminate E0; [reflexivity|].
    cbn [map] in *. injection E0 as E00 E0. injection E1 as E10 E1. injection E2 as E20 E2.
    f_equal; [apply k3_eq; assumption|apply IH; assumption].
  Qed.

  Section Proj.
    Variable p : K3 (K := K) -> K.
    Hypothesis p_zero : p (k3zero fk) = k0 fk.
    Hypothesis p_add : forall a b, p (k3add fk a b) = kadd fk (p a) (p b).
    Hypothesis p_scale : forall a c, p (k3scale fk a c) = kmul fk (p a) c.
    Lemma p_k3sum f n : p (k3sum fk f n) = ksum fk (fun j => p (f j)) n.
    Proof. induction n; cbn [k3sum ksum]; [exact p_zero|]. rewrite p_add, IHn. reflexivity. Qed.
    Lemma p_dft3 w v : map p (dft3 fk w v) = dft fk w (map p v).
    Proof.
      unfold dft3, dft. rewrite map_map, map_length. apply map_ext. intros i.
      unfold dft3_at, dft_at. rewrite p_k3sum, map_length. apply ksum_ext. intros j Hj.
      rewrite p_scale. rewrite <- p_zero. rewrite map_nth. reflexivity.
    Qed.
    Lemma p_idft3 w v : map p (idft3 fk w v) = idft fk w (map p v).
    Proof.
      unfold idft3, idft. rewrite map_map, <- p_dft3, map_map, map_length. apply map_ext. intros a. apply p_scale.
    Qed.
  End Proj.

  Lemma dft3_coords w v :
    map p0 (dft3 fk w v) = dft fk w (map p0 v) /\ map p1 (dft3 fk w v) = dft fk w (map p1 v) /\
    map p2 (dft3 fk w v) = dft fk w (map p2 v).
  Proof.
    repeat split; apply p_dft3; try reflexivity;
      try (intros [[? ?] ?] [[? ?] ?]; reflexivity); intros [[? ?] ?] c; reflexivity.
  Qed.
  Lemma idft3_coords w v :
    map p0 (idft3 fk w v) = idft fk w (map p0 v) /\ map p1 (idft3 fk w v) = idft fk w (map p1 v) /\
    map p2 (idft3 fk w v) = idft fk w (map p2 v).
  Proof.
    repeat split; apply p_idft3; try reflexivity;
      try (intros [[? ?] ?] [[? ?] ?]; reflexivity); intros [[? ?] ?] c; reflexivity.
  Qed.
End Dft3.

Lemma map_p_xden (x : list xfe) :
  map p0 (map xden x) = map (fun e => bden (xc0 e)) x /\ map p1 (map xden x) = map (fun e => bden (xc1 e)) x /\
  map p2 (map xden x) = map (fun e => bden (xc2 e)) x.
Proof. repeat split; rewrite map_map; apply map_ext; intros [[? ?] ?]; reflexivity. Qed.

(* ------------------------------------------------------------------ the theorems *)
Theorem ntt_x_is_dft l x : (l <= 31)%nat -> length x = (2 ^ l)%nat -> Forall okX x ->
  exists y omega, primitive_root_of_unity (2 ^ Z.of_nat l) = Some omega /\ ntt_x x = Some y /\
    Forall okX y /\ length y = length x /\ map xden y = dft3 fp_field (bden omega) (map xden x).
Proof.
  intros Hl Hx Hok. destruct (root_exists l ltac:(lia)) as [omega Hr].
  destruct (roots_exact_order l omega ltac:(lia) Hr) as [C [_ [Hh _]]].
  destruct (ntt_is_dft bfe_ops xfe_ops xb_act fp_field canon okX bden _ xb_hom0 l x omega Hl Hx Hok Hr C Hh)
    as [y [Ey [Oy [Ly M0]]]].
  destruct (ntt_is_dft bfe_ops xfe_ops xb_act fp_field canon okX bden _ xb_hom1 l x omega Hl Hx Hok Hr C Hh)
    as [y1 [Ey1 [_ [_ M1]]]].
  destruct (ntt_is_dft bfe_ops xfe_ops xb_act fp_field canon okX bden _ xb_hom2 l x omega Hl Hx Hok Hr C Hh)
    as [y2 [Ey2 [_ [_ M2]]]].
  rewrite Ey in Ey1, Ey2. injection Ey1 as <-. injection Ey2 as <-.
  exists y, omega. split; [exact Hr|]. split; [exact Ey|]. split; [exact Oy|]. split; [exact Ly|].
  destruct (map_p_xden y) as [Y0 [Y1 Y2]]. destruct (map_p_xden x) as [X0 [X1 X2]].
  destruct (dft3_coords fp_field (bden omega) (map xden x)) as [D0 [D1 D2]].
  apply k3_list_eq.
  - rewrite Y0, D0, X0. exact M0.
  - rewrite Y1, D1, X1. exact M1.
  - rewrite Y2, D2, X2. exact M2.
Qed.

Theorem intt_x_is_idft l x : (l <= 31)%nat -> length x = (2 ^ l)%nat -> Forall okX x ->
  exists y omega, primitive_root_of_unity (2 ^ Z.of_nat l) = Some omega /\ intt_x x = Some y /\
    Forall okX y /\ length y = length x /\ map xden y = idft3 fp_field (bden omega) (map xden x).
Proof.
  intros Hl Hx Hok. destruct (root_exists l ltac:(lia)) as [omega Hr].
  destruct (roots_exact_order l omega ltac:(lia) Hr) as [C [_ [Hh [H0 _]]]].
  destruct (intt_is_idft bfe_ops xfe_ops xb_act fp_field canon okX bden _ xb_hom0 fp_two_neq_0 l x omega Hl Hx Hok Hr C Hh H0)
    as [y [Ey [Oy [Ly M0]]]].
  destruct (intt_is_idft bfe_ops xfe_ops xb_act fp_field canon okX bden _ xb_hom1 fp_two_neq_0 l x omega Hl Hx Hok Hr C Hh H0)
    as [y1 [Ey1 [_ [_ M1]]]].
  destruct (intt_is_idft bfe_ops xfe_ops xb_act fp_field canon okX bden _ xb_hom2 fp_two_neq_0 l x omega Hl Hx Hok Hr C Hh H0)
    as [y2 [Ey2 [_ [_ M2]]]].
  rewrite Ey in Ey1, Ey2. injection Ey1 as <-. injection Ey2 as <-.
  exists y, omega. split; [exact Hr|]. split; [exact Ey|]. split; [exact Oy|]. split; [exact Ly|].
  destruct (map_p_xden y) as [Y0 [Y1 Y2]]. destruct (map_p_xden x) as [X0 [X1 X2]].
  destruct (idft3_coords fp_field (bden omega) (map xden x)) as [D0 [D1 D2]].
  apply k3_list_eq.
  - rewrite Y0, D0, X0. exact M0.
  - rewrite Y1, D1, X1. exact M1.
  - rewrite Y2, D2, X2. exact M2.
Qed.

(* triples of canonical words with equal denotations are equal *)
Lemma xden_inj a b : okX a -> okX b -> xden a = xden b -> a = b.
Proof.
  destruct a as [[a0 a1] a2], b as [[b0 b1] b2]. intros [A0 [A1 A2]] [B0 [B1 B2]] E.
  unfold xden in E. cbn [xc0 xc1 xc2] in *. injection E as E0 E1 E2.
  f_equal; [f_equal|]; apply repr_unique; assumption.
Qed.
Lemma map_xden_inj x y : Forall okX x -> Forall okX y -> map xden x = map xden y -> x = y.
Proof.
  revert y. induction x as [|a x IH]; intros [|b y] Hx Hy E; try discriminate E; [reflexivity|].
  inversion Hx; subst. inversion Hy; subst. cbn [map] in E.
  assert (E1 : xden a = xden b)
    by (change (hd (xden a) (xden a :: map xden x) = hd (xden a) (xden b :: map xden y)); rewrite E; reflexivity).
  assert (E2 : map xden x = map xden y)
    by (change (tl (xden a :: map xden x) = tl (xden b :: map xden y)); rewrite E; reflexivity).
  f_equal; [apply xden_inj; assumption|apply IH; assumption].
Qed.

(* round trips on the words, via the coordinate-wise inverse theorems *)
Theorem intt_ntt_x l x : (l <= 31)%nat -> length x = (2 ^ l)%nat -> Forall okX x ->
  exists y, ntt_x x = Some y /\ intt_x y = Some x.
Proof.
  intros Hl Hx Hok.
  destruct (ntt_x_is_dft l x Hl Hx Hok) as [y [omega [Hr [Ey [Oy [Ly My]]]]]].
  destruct (intt_x_is_idft l y Hl ltac:(lia) Oy) as [z [omega' [Hr' [Ez [Oz [Lz Mz]]]]]].
  rewrite Hr in Hr'. injection Hr' as <-.
  destruct (roots_exact_order l omega ltac:(lia) Hr) as [C [_ [Hh [H0 _]]]].
  exists y. split; [exact Ey|]. rewrite Ez. f_equal. apply map_xden_inj; try assumption.
  rewrite Mz, My.
  destruct (idft3_coords fp_field (bden omega) (dft3 fp_field (bden omega) (map xden x))) as [I0 [I1 I2]].
  destruct (dft3_coords fp_field (bden omega) (map xden x)) as [D0 [D1 D2]].
  apply k3_list_eq.
  - rewrite I0, D0. apply (idft_dft fp_field fp_two_neq_0 l); [rewrite !map_length; exact Hx|exact Hh|exact H0].
  - rewrite I1, D1. apply (idft_dft fp_field fp_two_neq_0 l); [rewrite !map_length; exact Hx|exact Hh|exact H0].
  - rewrite I2, D2. apply (idft_dft fp_field fp_two_neq_0 l); [rewrite !map_length; exact Hx|exact Hh|exact H0].
Qed.
Theorem ntt_intt_x l x : (l <= 31)%nat -> length x = (2 ^ l)%nat -> Forall okX x ->
  exists y, intt_x x = Some y /\ ntt_x y = Some x.
Proof.
  intros Hl Hx Hok.
  destruct (intt_x_is_idft l x Hl Hx Hok) as [y [omega [Hr [Ey [Oy [Ly My]]]]]].
  destruct (ntt_x_is_dft l y Hl ltac:(lia) Oy) as [z [omega' [Hr' [Ez [Oz [Lz Mz]]]]]].
  rewrite Hr in Hr'. injection Hr' as <-.
  destruct (roots_exact_order l omega ltac:(lia) Hr) as [C [_ [Hh [H0 _]]]].
  exists y. split; [exact Ey|]. rewrite Ez. f_equal. apply map_xden_inj; try assumption.
  rewrite Mz, My.
  destruct (dft3_coords fp_field (bden omega) (idft3 fp_field (bden omega) (map xden x))) as [D0 [D1 D2]].
  destruct (idft3_coords fp_field (bden omega) (map xden x)) as [I0 [I1 I2]].
  apply k3_list_eq.
  - rewrite D0, I0. apply (dft_idft fp_field fp_two_neq_0 l); [rewrite !map_length; exact Hx|exact Hh|exact H0].
  - rewrite D1, I1. apply (dft_idft fp_field fp_two_neq_0 l); [rewrite !map_length; exact Hx|exact Hh|exact H0].
  - rewrite D2, I2. apply (dft_idft fp_field fp_two_neq_0 l); [rewrite !map_length; exact Hx|exact Hh|exact H0].
Qed.
Lemma ntt_x_nil : ntt_x [] = Some [] /\ intt_x [] = Some [].
Proof. split; reflexivity. Qed.
