(* proofs/PolyC07Wrap.v - the C06 hypotheses of the NTT-based C07 theorems as three named bundles, and the
   Section-hypothesis theorems of PolyCoreProofs.v restated against them (so that props/C07.v can state each property
   in one readable formula and close it by `exact`).

     ntt_ok  fk ok den ntt  lmax wr : for every l <= lmax, on well-formed vectors of length 2^l, `ntt` does not panic and is
                                      the DFT at wr l                          (NttProofs.ntt_is_dft / ntt_b_is_dft)
     intt_ok fk ok den intt lmax wr : ... `intt` is the inverse DFT at wr l   (NttProofs.intt_is_idft / intt_b_is_idft)
     roots_ok fk lmax wr            : wr l is a primitive 2^l-th root: (wr l)^(2^(l-1)) = -1, wr l <> 0; 2 <> 0 in K
                                      (NttProofs.roots_exact_order, fp_two_neq_0) *)
From Coq Require Import ZArith Lia List Bool.
From TF Require Import Word FieldOps FieldTheory PolyGen PolyCore PolySpec PolyCoreProofs Dft NttDft.
Import ListNotations.
Open Scope Z_scope.

Definition ntt_ok {F K} (fk : fieldK K) (ok : F -> Prop) (den : F -> K) (ntt : list F -> option (list F))
           (lmax : nat) (wr : nat -> K) : Prop :=
  forall l x, (l <= lmax)%nat -> length x = (2 ^ l)%nat -> Forall ok x ->
  exists y, ntt x = Some y /\ Forall ok y /\ length y = length x /\ map den y = dft fk (wr l) (map den x).
Definition intt_ok {F K} (fk : fieldK K) (ok : F -> Prop) (den : F -> K) (intt : list F -> option (list F))
           (lmax : nat) (wr : nat -> K) : Prop :=
  forall l x, (l <= lmax)%nat -> length x = (2 ^ l)%nat -> Forall ok x ->
  exists y, intt x = Some y /\ Forall ok y /\ length y = length x /\ map den y = idft fk (wr l) (map den x).
Definition roots_ok {K} (fk : fieldK K) (lmax : nat) (wr : nat -> K) : Prop :=
  (forall l, (l <= lmax)%nat -> half_root fk (wr l) l) /\ (forall l, (l <= lmax)%nat -> wr l <> k0 fk) /\ two_neq_0 fk.
(* the mixed product multiplies the denotations (BFE * XFE etc.) *)
Definition mul12_ok {F1 F2 F3 K} (fk : fieldK K) (ok1 : F1 -> Prop) (ok2 : F2 -> Prop) (ok3 : F3 -> Prop)
           (den1 : F1 -> K) (den2 : F2 -> K) (den3 : F3 -> K) (mul12 : F1 -> F2 -> F3) : Prop :=
  forall x y, ok1 x -> ok2 y -> ok3 (mul12 x y) /\ den3 (mul12 x y) = kmul fk (den1 x) (den2 y).

Section Wrap3.
  Context {F1 F2 F3 K : Type} (o1 : fops F1) (o2 : fops F2) (o3 : fops F3) (fk : fieldK K).
  Context (ok1 : F1 -> Prop) (ok2 : F2 -> Prop) (ok3 : F3 -> Prop) (den1 : F1 -> K) (den2 : F2 -> K) (den3 : F3 -> K).
  Lemma w_naive_multiply_gen :
    field_ok o1 fk ok1 den1 -> field_ok o2 fk ok2 den2 -> field_ok o3 fk ok3 den3 ->
    forall mul12, mul12_ok fk ok1 ok2 ok3 den1 den2 den3 mul12 ->
    forall a b, Forall ok1 a -> Forall ok2 b ->
    Forall ok3 (poly_naive_multiply_gen o1 o2 o3 mul12 a b) /\
    peq fk (map den3 (poly_naive_multiply_gen o1 o2 o3 mul12 a b)) (pmul fk (map den1 a) (map den2 b)).
  Proof. intros H1 H2 H3 mul12 Hm. exact (naive_multiply_gen_spec o1 o2 o3 fk ok1 ok2 ok3 den1 den2 den3 H1 H2 H3 mul12 Hm). Qed.
  Lemma w_fast_multiply_gen :
    field_ok o1 fk ok1 den1 -> field_ok o2 fk ok2 den2 -> field_ok o3 fk ok3 den3 ->
    forall mul12, mul12_ok fk ok1 ok2 ok3 den1 den2 den3 mul12 ->
    forall ntt1 ntt2 intt3 lmax wr, ntt_ok fk ok1 den1 ntt1 lmax wr -> ntt_ok fk ok2 den2 ntt2 lmax wr ->
    intt_ok fk ok3 den3 intt3 lmax wr -> roots_ok fk lmax wr ->
    forall a b, Forall ok1 a -> Forall ok2 b -> poly_degree o1 a + poly_degree o2 b + 1 <= 2 ^ Z.of_nat lmax ->
    exists r, poly_fast_multiply_gen o1 o2 mul12 ntt1 ntt2 intt3 a b = Some r /\ Forall ok3 r /\
              zlen r <= Z.max 0 (poly_degree o1 a + poly_degree o2 b + 1) /\
              peq fk (map den3 r) (pmul fk (map den1 a) (map den2 b)).
  Proof.
    intros H1 H2 H3 mul12 Hm ntt1 ntt2 intt3 lmax wr N1 N2 N3 [R1 [R2 R3]]. unfold ntt_ok, intt_ok, mul12_ok in *.
    apply fast_multiply_gen_spec with (lmax := lmax) (wr := wr) (ok1 := ok1) (ok2 := ok2) (den1 := den1) (den2 := den2); assumption.
  Qed.
  Lemma w_multiply_gen :
    field_ok o1 fk ok1 den1 -> field_ok o2 fk ok2 den2 -> field_ok o3 fk ok3 den3 ->
    forall mul12, mul12_ok fk ok1 ok2 ok3 den1 den2 den3 mul12 ->
    forall ntt1 ntt2 intt3 lmax wr, ntt_ok fk ok1 den1 ntt1 lmax wr -> ntt_ok fk ok2 den2 ntt2 lmax wr ->
    intt_ok fk ok3 den3 intt3 lmax wr -> roots_ok fk lmax wr ->
    forall a b, Forall ok1 a -> Forall ok2 b -> poly_degree o1 a + poly_degree o2 b + 1 <= 2 ^ Z.of_nat lmax ->
    exists r, poly_multiply_gen o1 o2 o3 mul12 ntt1 ntt2 intt3 a b = Some r /\ Forall ok3 r /\
              zlen r <= Z.max 0 (poly_degree o1 a + poly_degree o2 b + 1) /\
              peq fk (map den3 r) (pmul fk (map den1 a) (map den2 b)).
  Proof.
    intros H1 H2 H3 mul12 Hm ntt1 ntt2 intt3 lmax wr N1 N2 N3 [R1 [R2 R3]]. unfold ntt_ok, intt_ok, mul12_ok in *.
    apply multiply_gen_spec with (lmax := lmax) (wr := wr) (ok1 := ok1) (ok2 := ok2) (den1 := den1) (den2 := den2); assumption.
  Qed.
End Wrap3.

Section Wrap1.
  Context {F K : Type} (o : fops F) (fk : fieldK K) (ok : F -> Prop) (den : F -> K).
  Local Notation D := (map den).
  Local Notation okl := (Forall ok).
  Lemma w_square : field_ok o fk ok den ->
    forall ntt intt lmax wr, ntt_ok fk ok den ntt lmax wr -> intt_ok fk ok den intt lmax wr -> roots_ok fk lmax wr ->
    forall l, okl l -> 2 * poly_degree o l + 1 <= 2 ^ Z.of_nat lmax ->
    exists r, poly_square o ntt intt l = Some r /\ okl r /\ peq fk (D r) (pmul fk (D l) (D l)).
  Proof. intros H ntt intt lmax wr N1 N2 [R1 [R2 R3]]. exact (square_v1_spec o fk ok den H ntt intt lmax wr N1 N2 R1 R2 R3). Qed.
  Lemma w_fast_square : field_ok o fk ok den ->
    forall ntt intt lmax wr, ntt_ok fk ok den ntt lmax wr -> intt_ok fk ok den intt lmax wr -> roots_ok fk lmax wr ->
    forall l, okl l -> 2 * poly_degree o l + 1 <= 2 ^ Z.of_nat lmax ->
    exists r, poly_fast_square o ntt intt l = Some r /\ okl r /\ peq fk (D r) (pmul fk (D l) (D l)).
  Proof. intros H ntt intt lmax wr N1 N2 [R1 [R2 R3]]. exact (fast_square_spec o fk ok den H ntt intt lmax wr N1 N2 R1 R2 R3). Qed.
  Lemma w_slow_square : field_ok o fk ok den ->
    forall l, okl l -> exists r, poly_slow_square o l = Some r /\ okl r /\ peq fk (D r) (pmul fk (D l) (D l)).
  Proof.
    intros H l Hl. destruct (slow_square_v1_spec o fk ok den H l Hl) as [r [R1 [R2 [_ R3]]]]. exists r. split; [exact R1|]. split; [exact R2|exact R3].
  Qed.
  Lemma w_fast_pow : field_ok o fk ok den ->
    forall ntt intt lmax wr, ntt_ok fk ok den ntt lmax wr -> intt_ok fk ok den intt lmax wr -> roots_ok fk lmax wr ->
    forall l e, okl l -> 0 <= e -> Z.max 0 (poly_degree o l) * e * 2 + 1 <= 2 ^ Z.of_nat lmax ->
    exists r, poly_fast_pow o ntt intt l e = Some r /\ okl r /\ peq fk (D r) (ppow fk (D l) (Z.to_nat e)).
  Proof. intros H ntt intt lmax wr N1 N2 [R1 [R2 R3]]. exact (fast_pow_spec o fk ok den H ntt intt lmax wr N1 N2 R1 R2 R3). Qed.
  Lemma w_batch_multiply : field_ok o fk ok den ->
    forall ntt intt lmax wr, ntt_ok fk ok den ntt lmax wr -> intt_ok fk ok den intt lmax wr -> roots_ok fk lmax wr ->
    forall ps, Forall okl ps -> total_len ps <= 2 ^ Z.of_nat lmax ->
    exists r, poly_batch_multiply o ntt intt ps = Some r /\ okl r /\ peq fk (D r) (pprod fk (map D ps)).
  Proof. intros H ntt intt lmax wr N1 N2 [R1 [R2 R3]]. exact (batch_multiply_spec o fk ok den H ntt intt lmax wr N1 N2 R1 R2 R3). Qed.
  Lemma w_par_batch_multiply : field_ok o fk ok den ->
    forall ntt intt lmax wr, ntt_ok fk ok den ntt lmax wr -> intt_ok fk ok den intt lmax wr -> roots_ok fk lmax wr ->
    forall nt ps, 1 <= nt -> Forall okl ps -> total_len ps <= 2 ^ Z.of_nat lmax ->
    exists r, poly_par_batch_multiply o ntt intt nt ps = Some r /\ okl r /\ peq fk (D r) (pprod fk (map D ps)).
  Proof. intros H ntt intt lmax wr N1 N2 [R1 [R2 R3]]. exact (par_batch_multiply_spec o fk ok den H ntt intt lmax wr N1 N2 R1 R2 R3). Qed.
  (* scalar multiplication, x -> a x, multiplication by X^n *)
  Lemma w_scalar_mul : field_ok o fk ok den -> forall l s, okl l -> ok s ->
    okl (poly_scalar_mul o l s) /\ peq fk (D (poly_scalar_mul o l s)) (pmul fk (pconst (den s)) (D l)).
  Proof.
    intros H l s Hl Hs. split; [apply (scalar_mul_ok o fk ok den H); assumption|].
    rewrite (scalar_mul_D o fk ok den H l s Hl Hs). symmetry. apply pscale_pmul_const.
  Qed.
  Lemma w_scale : field_ok o fk ok den -> forall l a, okl l -> ok a ->
    okl (poly_scale o l a) /\ D (poly_scale o l a) = pcompscale fk (D l) (den a) /\
    forall x, peval fk (D (poly_scale o l a)) x = peval fk (D l) (kmul fk (den a) x).
  Proof.
    intros H l a Hl Ha. split; [apply (scale_ok o fk ok den H); assumption|]. split; [apply (scale_D o fk ok den H); assumption|].
    intros x. rewrite (scale_D o fk ok den H l a Hl Ha). apply peval_pcompscale.
  Qed.
  Lemma w_shift : field_ok o fk ok den -> forall l n, okl l ->
    okl (poly_shift_coefficients o l n) /\ peq fk (D (poly_shift_coefficients o l n)) (pmul fk (pXn fk (Z.to_nat n)) (D l)).
  Proof.
    intros H l n Hl. split; [apply (shift_ok o fk ok den H); assumption|]. rewrite (shift_D o fk ok den H). apply pshift_pmul.
  Qed.
End Wrap1.
