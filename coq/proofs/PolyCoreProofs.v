(* proofs/PolyCoreProofs.v - lemmas about model/PolyCore.v against spec/PolySpec.v (properties C07 and C17).

   Setting: `o : fops F` refines an abstract field `fk : fieldK K` through `field_ok o fk ok den`
   (lib/FieldTheory.v; instance for the base field: proofs/BFieldOk.v).  A raw model list `l : list F` with
   `Forall ok l` denotes the polynomial `D l := map den l`; equality of polynomials is `peq`. *)
From Coq Require Import ZArith Lia List Bool Ring Field Setoid Morphisms.
From TF Require Import Word BFieldGen BField XField FieldOps FieldTheory PolyGen PolyCore PolySpec.
Import ListNotations.
Open Scope Z_scope.
Ltac Zify.zify_post_hook ::= Z.div_mod_to_equations.

(* ------------------------------------------------------------------ list helpers *)
Lemma zlen_nonneg {A} (l : list A) : 0 <= zlen l. Proof. unfold zlen. lia. Qed.
Lemma zlen_app {A} (a b : list A) : zlen (a ++ b) = zlen a + zlen b.
Proof. unfold zlen. rewrite app_length. lia. Qed.
Lemma zlen_map {A B} (f : A -> B) l : zlen (map f l) = zlen l.
Proof. unfold zlen. rewrite map_length. reflexivity. Qed.
Lemma zlen_zrepeat {A} (x : A) k : zlen (zrepeat x k) = Z.max 0 k.
Proof. unfold zlen, zrepeat. rewrite repeat_length. lia. Qed.
Lemma zlen_take {A} k (l : list A) : zlen (take k l) = Z.max 0 (Z.min k (zlen l)).
Proof. unfold zlen, take. rewrite firstn_length. lia. Qed.
Lemma take_all {A} k (l : list A) : zlen l <= k -> take k l = l.
Proof. intros H. unfold take. apply firstn_all2. unfold zlen in H. lia. Qed.
Lemma Forall_firstn {A} (P : A -> Prop) n l : Forall P l -> Forall P (firstn n l).
Proof.
  revert n. induction l as [|a l IH]; intros n Hl; [rewrite firstn_nil; constructor|].
  destruct n; [constructor|]. inversion Hl; subst. cbn [firstn]. constructor; [assumption|apply IH; assumption].
Qed.
Lemma Forall_skipn {A} (P : A -> Prop) n l : Forall P l -> Forall P (skipn n l).
Proof.
  revert n. induction l as [|a l IH]; intros n Hl; [rewrite skipn_nil; constructor|].
  destruct n; [exact Hl|]. inversion Hl; subst. cbn [skipn]. apply IH. assumption.
Qed.
Lemma Forall_take {A} (P : A -> Prop) k l : Forall P l -> Forall P (take k l).
Proof. apply Forall_firstn. Qed.
Lemma Forall_zrepeat {A} (P : A -> Prop) x k : P x -> Forall P (zrepeat x k).
Proof. intros H. unfold zrepeat. apply Forall_forall. intros y Hy. apply repeat_spec in Hy. subst. exact H. Qed.
Lemma map_take {A B} (f : A -> B) k l : map f (take k l) = take k (map f l).
Proof. unfold take. symmetry. apply firstn_map. Qed.
Lemma map_repeat' {A B} (f : A -> B) x n : map f (repeat x n) = repeat (f x) n.
Proof. induction n; [reflexivity|]. cbn [repeat map]. rewrite IHn. reflexivity. Qed.
Lemma map_zrepeat {A B} (f : A -> B) x k : map f (zrepeat x k) = zrepeat (f x) k.
Proof. unfold zrepeat. apply map_repeat'. Qed.

Lemma last_map' {A B} (f : A -> B) l d : last (map f l) (f d) = f (last l d).
Proof. induction l as [|a l IH]; [reflexivity|]. destruct l; [reflexivity|]. exact IH. Qed.

Section Basic.
  Context {F K : Type} (o : fops F) (fk : fieldK K) (ok : F -> Prop) (den : F -> K).
  Hypothesis H : field_ok o fk ok den.
  Local Notation "0" := (k0 fk).
  Local Notation "1" := (k1 fk).
  Local Infix "+" := (kadd fk).
  Local Infix "*" := (kmul fk).
  Local Infix "-" := (ksub fk).
  Local Notation "- x" := (kopp fk x).
  Local Notation D := (map den).
  Local Notation okl := (Forall ok).
  Local Notation peq := (peq fk).
  Add Field kfield_PolyCoreProofs_Basic : (kFT fk).

  Lemma ok0 : ok (fzero o). Proof. exact (proj1 (fo_zero _ _ _ _ H)). Qed.
  Lemma den0 : den (fzero o) = 0. Proof. exact (proj2 (fo_zero _ _ _ _ H)). Qed.
  Lemma ok1 : ok (fone o). Proof. exact (proj1 (fo_one _ _ _ _ H)). Qed.
  Lemma den1 : den (fone o) = 1. Proof. exact (proj2 (fo_one _ _ _ _ H)). Qed.
  Lemma is0_iff a : ok a -> (fis_zero o a = true <-> den a = 0).
  Proof. exact (fo_is_zero o fk ok den H a). Qed.
  Lemma is0_false_iff a : ok a -> (fis_zero o a = false <-> den a <> 0).
  Proof.
    intros Ha. pose proof (is0_iff a Ha) as E. destruct (fis_zero o a); split; intros X; try congruence.
    - exfalso. apply X. apply E. reflexivity.
    - intros Y. apply E in Y. discriminate.
  Qed.
  Lemma is0_zero : fis_zero o (fzero o) = true.
  Proof. apply is0_iff; [exact ok0|exact den0]. Qed.

  (* ---------------------------------------------------------------- normalize = pnorm, degree = pdeg *)
  Lemma drop_zeros_app r a :
    drop_zeros o (r ++ [a]) =
    match drop_zeros o r with [] => if fis_zero o a then [] else [a] | r' => r' ++ [a] end.
  Proof.
    induction r as [|x r IH]; cbn [drop_zeros app]; [reflexivity|].
    destruct (fis_zero o x); [exact IH|reflexivity].
  Qed.
  Lemma normalize_cons a l :
    poly_normalize o (a :: l) =
    match poly_normalize o l with [] => if fis_zero o a then [] else [a] | r => a :: r end.
  Proof.
    unfold poly_normalize. cbn [rev]. rewrite drop_zeros_app.
    destruct (drop_zeros o (rev l)) as [|y r'] eqn:E.
    - cbn [rev]. destruct (fis_zero o a); reflexivity.
    - rewrite rev_app_distr. cbn [rev app]. destruct (rev r' ++ [y]) eqn:E2; [|reflexivity].
      destruct (rev r'); discriminate.
  Qed.
  Lemma normalize_nil : poly_normalize o [] = []. Proof. reflexivity. Qed.
  Lemma normalize_pnorm l : okl l -> D (poly_normalize o l) = pnorm fk (D l).
  Proof.
    induction l as [|a l IH]; intros Hl; [reflexivity|]. inversion Hl as [|? ? Ha Hl']; subst.
    rewrite normalize_cons. cbn [map pnorm]. rewrite <- (IH Hl').
    destruct (poly_normalize o l) as [|b r]; cbn [map].
    - destruct (keq_dec fk (den a) 0) as [E|E].
      + apply (is0_iff a Ha) in E. rewrite E. reflexivity.
      + apply (is0_false_iff a Ha) in E. rewrite E. reflexivity.
    - reflexivity.
  Qed.
  Lemma normalize_ok l : okl l -> okl (poly_normalize o l).
  Proof.
    induction l as [|a l IH]; intros Hl; [constructor|]. inversion Hl as [|? ? Ha Hl']; subst.
    rewrite normalize_cons. pose proof (IH Hl') as Hn. destruct (poly_normalize o l) as [|b r].
    - destruct (fis_zero o a); constructor; [exact Ha|constructor].
    - constructor; assumption.
  Qed.
  Lemma normalize_length_le l : (length (poly_normalize o l) <= length l)%nat.
  Proof.
    induction l as [|a l IH]; [cbn; lia|]. rewrite normalize_cons. destruct (poly_normalize o l).
    - destruct (fis_zero o a); cbn; lia.
    - cbn [length] in *. lia.
  Qed.
  (* the normalised list is a prefix of the raw list *)
  Lemma normalize_prefix l : poly_normalize o l = firstn (length (poly_normalize o l)) l.
  Proof.
    induction l as [|a l IH]; [reflexivity|]. rewrite normalize_cons.
    destruct (poly_normalize o l) as [|b r] eqn:E.
    - destruct (fis_zero o a); [reflexivity|]. cbn. reflexivity.
    - cbn [length firstn]. f_equal. exact IH.
  Qed.
  Lemma degree_pdeg l : okl l -> poly_degree o l = pdeg fk (D l).
  Proof.
    intros Hl. unfold poly_degree, pdeg, zlen. rewrite <- (normalize_pnorm l Hl), map_length. reflexivity.
  Qed.
  Lemma normalize_peq l : okl l -> peq (D (poly_normalize o l)) (D l).
  Proof. intros Hl. rewrite (normalize_pnorm l Hl). apply pnorm_peq. Qed.
  Lemma normalize_take l : poly_normalize o l = take (poly_degree o l + 1) l.
  Proof.
    unfold take, poly_degree, zlen.
    replace (Z.to_nat (Z.of_nat (length (poly_normalize o l)) - 1 + 1)) with (length (poly_normalize o l)) by lia.
    apply normalize_prefix.
  Qed.
  (* stored leading zeros do not change the normal form (model level) *)
  Lemma normalize_app_zeros l k : poly_normalize o (l ++ repeat (fzero o) k) = poly_normalize o l.
  Proof.
    induction l as [|a l IH]; cbn [app].
    - induction k; [reflexivity|]. cbn [repeat]. rewrite normalize_cons, IHk. cbn. rewrite is0_zero. reflexivity.
    - rewrite !normalize_cons, IH. reflexivity.
  Qed.
  Lemma degree_app_zeros l k : poly_degree o (l ++ repeat (fzero o) k) = poly_degree o l.
  Proof. unfold poly_degree. rewrite normalize_app_zeros. reflexivity. Qed.
  Lemma okl_app_zeros l k : okl l -> okl (l ++ repeat (fzero o) k).
  Proof.
    intros Hl. apply Forall_app. split; [exact Hl|]. apply Forall_forall. intros x Hx.
    apply repeat_spec in Hx. subst. exact ok0.
  Qed.
  Lemma D_app_zeros l k : D (l ++ repeat (fzero o) k) = D l ++ repeat 0 k.
  Proof. rewrite map_app, map_repeat', den0. reflexivity. Qed.
  Lemma peq_D_app_zeros l k : peq (D (l ++ repeat (fzero o) k)) (D l).
  Proof. rewrite D_app_zeros. apply peq_app_zeros. Qed.
  Lemma degree_ge l : -1 <= poly_degree o l. Proof. unfold poly_degree, zlen. lia. Qed.
  Lemma degree_lt_len l : poly_degree o l < zlen l.
  Proof. unfold poly_degree, zlen. pose proof (normalize_length_le l). lia. Qed.
  Lemma degree_neg_pzero l : okl l -> (poly_degree o l < 0 <-> pzero fk (D l)).
  Proof.
    intros Hl. rewrite (degree_pdeg l Hl), <- pdeg_neg_iff. pose proof (pdeg_ge fk (D l)). lia.
  Qed.
  Lemma coeff_D l i : coeff fk (D l) i = match nth_error l i with Some c => den c | None => 0 end.
  Proof.
    revert i. induction l as [|a l IH]; intros [|i]; cbn [map nth_error]; try reflexivity. apply IH.
  Qed.
  Lemma D_take_peq l : okl l -> peq (D (take (poly_degree o l + 1) l)) (D l).
  Proof. intros Hl. rewrite <- normalize_take. apply normalize_peq. exact Hl. Qed.

  (* ---------------------------------------------------------------- PartialEq decides equality of denotations *)
  Lemma all_eq_spec a b : okl a -> okl b ->
    (all_eq o a b = true <-> forall i, (i < length a)%nat -> (i < length b)%nat -> coeff fk (D a) i = coeff fk (D b) i).
  Proof.
    revert b. induction a as [|x a IH]; intros b Ha Hb.
    - cbn [all_eq]. split; [intros _ i Hi; cbn in Hi; lia|reflexivity].
    - destruct b as [|y b]; [cbn [all_eq]; split; [intros _ i _ Hi; cbn in Hi; lia|reflexivity]|].
      inversion Ha as [|? ? Hx Ha']; inversion Hb as [|? ? Hy Hb']; subst.
      cbn [all_eq]. rewrite andb_true_iff, (fo_eqb _ _ _ _ H x y Hx Hy), (IH b Ha' Hb'). split.
      + intros [E1 E2] [|i] Hi1 Hi2; [exact E1|]. cbn [map]. rewrite !coeff_cons_S. apply E2; cbn in *; lia.
      + intros E. split; [exact (E O ltac:(cbn; lia) ltac:(cbn; lia))|].
        intros i Hi1 Hi2. exact (E (S i) ltac:(cbn; lia) ltac:(cbn; lia)).
  Qed.
  Theorem eq_iff_denote a b : okl a -> okl b -> (poly_eqb o a b = true <-> peq (D a) (D b)).
  Proof.
    intros Ha Hb. unfold poly_eqb. rewrite (degree_pdeg a Ha), (degree_pdeg b Hb). split.
    - destruct (pdeg fk (D a) =? pdeg fk (D b)) eqn:E; [|discriminate]. apply Z.eqb_eq in E.
      intros A0. pose proof (proj1 (all_eq_spec a b Ha Hb) A0) as A. apply peq_intro. intros i.
      destruct (Nat.lt_ge_cases i (length a)) as [L1|G1]; destruct (Nat.lt_ge_cases i (length b)) as [L2|G2].
      + apply A; assumption.
      + (* beyond b: both zero since deg a = deg b < length b <= i *)
        pose proof (pdeg_le_length fk (D b)) as B. rewrite map_length in B.
        rewrite (coeff_above_pdeg fk (D a) i) by lia. rewrite (coeff_above_pdeg fk (D b) i) by lia. reflexivity.
      + pose proof (pdeg_le_length fk (D a)) as B. rewrite map_length in B.
        rewrite (coeff_above_pdeg fk (D a) i) by lia. rewrite (coeff_above_pdeg fk (D b) i) by lia. reflexivity.
      + rewrite !coeff_overflow by (rewrite map_length; lia). reflexivity.
    - intros E. rewrite (pdeg_peq fk _ _ E), Z.eqb_refl. apply (proj2 (all_eq_spec a b Ha Hb)).
      intros i _ _. apply (peq_elim fk _ _ E).
  Qed.
  Lemma is_zero_iff l : okl l -> (poly_is_zero o l = true <-> pzero fk (D l)).
  Proof.
    intros Hl. unfold poly_is_zero, poly_zero. rewrite (eq_iff_denote l [] Hl (Forall_nil _)). apply peq_nil_pzero.
  Qed.

  (* ---------------------------------------------------------------- representations are unique *)
  Lemma D_inj a b : okl a -> okl b -> D a = D b -> a = b.
  Proof.
    revert b. induction a as [|x a IH]; intros [|y b] Ha Hb E; try discriminate; [reflexivity|].
    inversion Ha; inversion Hb; subst. cbn [map] in E. injection E as E1 E2.
    f_equal; [apply (fo_inj _ _ _ _ H); assumption|apply IH; assumption].
  Qed.
  Theorem coefficients_canonical a b : okl a -> okl b -> peq (D a) (D b) -> poly_coefficients o a = poly_coefficients o b.
  Proof.
    intros Ha Hb E. unfold poly_coefficients. apply D_inj; try (apply normalize_ok; assumption).
    rewrite !normalize_pnorm by assumption. apply pnorm_unique. exact E.
  Qed.
  (* the accessor never returns a stored leading zero *)
  Theorem coefficients_last_nonzero l : okl l -> forall c, last (poly_coefficients o l) c = c \/ den (last (poly_coefficients o l) c) <> 0.
  Proof.
    intros Hl c. unfold poly_coefficients. destruct (poly_normalize o l) as [|b r] eqn:E; [left; reflexivity|right].
    pose proof (normalize_pnorm l Hl) as N. rewrite E in N.
    assert (NE : pnorm fk (D l) <> []) by (rewrite <- N; discriminate).
    pose proof (pnorm_last_nonzero fk (D l) NE) as L. rewrite <- N in L.
    rewrite <- den0, last_map' in L.
    replace (last (b :: r) c) with (last (b :: r) (fzero o)); [rewrite den0 in L; exact L|].
    clear. revert b. induction r as [|y r IH]; intros b; [reflexivity|]. exact (IH y).
  Qed.
  (* Hash after the repair: equal polynomials feed the same list to the hasher *)
  Theorem hash_respects_eq a b : okl a -> okl b -> poly_eqb o a b = true -> poly_hash_feed_v1 o a = poly_hash_feed_v1 o b.
  Proof.
    intros Ha Hb E. apply (eq_iff_denote a b Ha Hb) in E. exact (coefficients_canonical a b Ha Hb E).
  Qed.
  (* the encoding is a function of the denoted polynomial *)
  Theorem encode_normalised enc a b : okl a -> okl b -> peq (D a) (D b) -> poly_encode o enc a = poly_encode o enc b.
  Proof. intros Ha Hb E. unfold poly_encode. rewrite (coefficients_canonical a b Ha Hb E). reflexivity. Qed.
  Theorem encode_app_zeros enc l k : poly_encode o enc (l ++ repeat (fzero o) k) = poly_encode o enc l.
  Proof. unfold poly_encode, poly_coefficients. rewrite normalize_app_zeros. reflexivity. Qed.

  (* ---------------------------------------------------------------- indexing, leading coefficient, is_one, is_x *)
  Lemma idx_lookup (l : list F) i : 0 <= i < zlen l -> exists c, idx l i = Some c /\ nth_error l (Z.to_nat i) = Some c.
  Proof.
    intros Hi. unfold idx. destruct (i <? 0) eqn:E; [apply Z.ltb_lt in E; lia|].
    destruct (nth_error l (Z.to_nat i)) as [c|] eqn:N; [exists c; split; reflexivity|].
    apply nth_error_None in N. unfold zlen in Hi. lia.
  Qed.
  Lemma nth_error_ok (l : list F) i c : okl l -> nth_error l i = Some c -> ok c.
  Proof. intros Hl N. apply nth_error_In in N. exact (proj1 (Forall_forall ok l) Hl c N). Qed.
  Theorem leading_coeff_nonzero l : okl l ->
    (pzero fk (D l) -> poly_leading_coefficient o l = Some None) /\
    (~ pzero fk (D l) ->
     exists c, poly_leading_coefficient o l = Some (Some c) /\ ok c /\ den c = plead fk (D l) /\ den c <> 0).
  Proof.
    intros Hl. unfold poly_leading_coefficient. rewrite (degree_pdeg l Hl). split.
    - intros Z. apply pdeg_neg_iff in Z. rewrite Z. reflexivity.
    - intros NZ. assert (Hd : 0 <= pdeg fk (D l)).
      { pose proof (pdeg_ge fk (D l)). destruct (Z.eq_dec (pdeg fk (D l)) (-1)) as [E|E]; [|lia].
        exfalso. apply NZ. apply pdeg_neg_iff. exact E. }
      destruct (pdeg fk (D l) =? -1) eqn:E; [apply Z.eqb_eq in E; lia|].
      pose proof (pdeg_le_length fk (D l)) as B. rewrite map_length in B.
      destruct (idx_lookup l (pdeg fk (D l))) as [c [E1 E2]]; [unfold zlen; lia|].
      rewrite E1. exists c. split; [reflexivity|]. split; [exact (nth_error_ok l _ c Hl E2)|].
      destruct (coeff_at_pdeg fk (D l) Hd) as [C1 C2]. rewrite coeff_D, E2 in C1. rewrite C1. split; [reflexivity|exact C2].
  Qed.
  Lemma leading_coefficient_total l : okl l -> exists r, poly_leading_coefficient o l = Some r.
  Proof.
    intros Hl. destruct (leading_coeff_nonzero l Hl) as [A B].
    destruct (Z.eq_dec (pdeg fk (D l)) (-1)) as [E|E].
    - exists None. apply A. apply pdeg_neg_iff. exact E.
    - destruct B as [c [B _]]; [intros Z; apply pdeg_neg_iff in Z; contradiction|]. exists (Some c). exact B.
  Qed.
  Theorem is_one_spec l : okl l -> exists b, poly_is_one o l = Some b /\ (b = true <-> peq (D l) (pone fk)).
  Proof.
    intros Hl. unfold poly_is_one. rewrite (degree_pdeg l Hl).
    destruct (pdeg fk (D l) =? 0) eqn:E.
    - apply Z.eqb_eq in E. pose proof (pdeg_le_length fk (D l)) as B. rewrite map_length in B.
      destruct (idx_lookup l 0) as [c [E1 E2]]; [unfold zlen; lia|]. rewrite E1.
      exists (feqb o c (fone o)). split; [reflexivity|].
      pose proof (nth_error_ok l _ c Hl E2) as Hc.
      rewrite (fo_eqb _ _ _ _ H c (fone o) Hc ok1), den1.
      assert (C0 : coeff fk (D l) 0 = den c) by (rewrite coeff_D; change (Z.to_nat 0) with O in E2; rewrite E2; reflexivity).
      split.
      + intros Ec. apply peq_intro. intros [|i].
        * rewrite C0, Ec. reflexivity.
        * rewrite (coeff_above_pdeg fk (D l)) by lia. unfold pone. rewrite coeff_cons_S, coeff_nil. reflexivity.
      + intros Ep. rewrite <- C0, (peq_elim fk _ _ Ep). reflexivity.
    - exists false. split; [reflexivity|]. split; [discriminate|]. intros Ep. apply Z.eqb_neq in E. exfalso. apply E.
      rewrite (pdeg_peq fk _ _ Ep). unfold pdeg, pone. cbn [pnorm].
      destruct (keq_dec fk 1 0) as [X|X]; [exfalso; exact (k1_neq_0 fk X)|reflexivity].
  Qed.

  (* ---------------------------------------------------------------- arithmetic: exact denotations *)
  Lemma padd_nil_r (p : list K) : padd fk p [] = p. Proof. destruct p; reflexivity. Qed.
  Lemma add_ok a b : okl a -> okl b -> okl (poly_add o a b).
  Proof.
    revert b. induction a as [|x a IH]; intros b Ha Hb; [exact Hb|]. destruct b as [|y b]; [exact Ha|].
    inversion Ha; inversion Hb; subst. cbn [poly_add]. constructor; [apply (fo_add _ _ _ _ H); assumption|apply IH; assumption].
  Qed.
  Lemma add_D a b : okl a -> okl b -> D (poly_add o a b) = padd fk (D a) (D b).
  Proof.
    revert b. induction a as [|x a IH]; intros b Ha Hb; [reflexivity|]. destruct b as [|y b]; [reflexivity|].
    inversion Ha; inversion Hb; subst. cbn [poly_add map padd]. f_equal; [apply (fo_add _ _ _ _ H); assumption|apply IH; assumption].
  Qed.
  Lemma sub_ok a b : okl a -> okl b -> okl (poly_sub o a b).
  Proof.
    revert b. induction a as [|x a IH]; intros b Ha Hb.
    - cbn [poly_sub]. apply Forall_forall. intros z Hz. apply in_map_iff in Hz. destruct Hz as [r [<- Hr]].
      apply (fo_sub _ _ _ _ H); [exact ok0|exact (proj1 (Forall_forall ok b) Hb r Hr)].
    - destruct b as [|y b]; [exact Ha|]. inversion Ha; inversion Hb; subst. cbn [poly_sub].
      constructor; [apply (fo_sub _ _ _ _ H); assumption|apply IH; assumption].
  Qed.
  Lemma sub_D a b : okl a -> okl b -> D (poly_sub o a b) = psub fk (D a) (D b).
  Proof.
    unfold psub. revert b. induction a as [|x a IH]; intros b Ha Hb.
    - cbn [poly_sub map padd]. unfold popp. rewrite !map_map. apply map_ext_in. intros r Hr.
      rewrite (proj2 (fo_sub _ _ _ _ H _ r ok0 (proj1 (Forall_forall ok b) Hb r Hr))), den0. ring.
    - destruct b as [|y b]; [cbn [poly_sub map popp]; rewrite padd_nil_r; reflexivity|].
      inversion Ha; inversion Hb; subst. cbn [poly_sub map popp padd]. f_equal.
      + rewrite (proj2 (fo_sub _ _ _ _ H x y ltac:(assumption) ltac:(assumption))). ring.
      + apply IH; assumption.
  Qed.
  Lemma scalar_mul_ok l s : okl l -> ok s -> okl (poly_scalar_mul o l s).
  Proof.
    intros Hl Hs. apply Forall_forall. intros z Hz. apply in_map_iff in Hz. destruct Hz as [c [<- Hc]].
    apply (fo_mul _ _ _ _ H); [exact (proj1 (Forall_forall ok l) Hl c Hc)|exact Hs].
  Qed.
  Lemma scalar_mul_D l s : okl l -> ok s -> D (poly_scalar_mul o l s) = pscale fk (den s) (D l).
  Proof.
    intros Hl Hs. unfold poly_scalar_mul, poly_scalar_mul_gen, pscale. rewrite !map_map. apply map_ext_in. intros c Hc.
    rewrite (proj2 (fo_mul _ _ _ _ H c s (proj1 (Forall_forall ok l) Hl c Hc) Hs)). ring.
  Qed.
  Lemma neg_ok l : okl l -> okl (poly_neg o l).
  Proof. intros Hl. apply scalar_mul_ok; [exact Hl|]. apply (fo_neg _ _ _ _ H). exact ok1. Qed.
  Lemma neg_D l : okl l -> D (poly_neg o l) = popp fk (D l).
  Proof.
    intros Hl. unfold poly_neg, poly_scalar_mul_mut.
    rewrite scalar_mul_D; [|exact Hl|apply (fo_neg _ _ _ _ H); exact ok1].
    rewrite (proj2 (fo_neg _ _ _ _ H _ ok1)), den1. unfold pscale, popp. apply map_ext. intros c. ring.
  Qed.
  Lemma scale_go_spec l alpha pw : okl l -> ok alpha -> ok pw ->
    okl (scale_go (fmul o) (fmul o) alpha pw l) /\
    D (scale_go (fmul o) (fmul o) alpha pw l) = pcompscale_go fk (D l) (den alpha) (den pw).
  Proof.
    revert pw. induction l as [|c l IH]; intros pw Hl Ha Hp; [split; [constructor|reflexivity]|].
    inversion Hl; subst. cbn [scale_go map pcompscale_go].
    destruct (IH (fmul o pw alpha) ltac:(assumption) Ha (proj1 (fo_mul _ _ _ _ H pw alpha Hp Ha))) as [I1 I2].
    split.
    - constructor; [apply (fo_mul _ _ _ _ H); assumption|exact I1].
    - rewrite I2. f_equal; [apply (fo_mul _ _ _ _ H); assumption|].
      rewrite (proj2 (fo_mul _ _ _ _ H pw alpha Hp Ha)). reflexivity.
  Qed.
  Lemma scale_ok l alpha : okl l -> ok alpha -> okl (poly_scale o l alpha).
  Proof. intros Hl Ha. exact (proj1 (scale_go_spec l alpha (fone o) Hl Ha ok1)). Qed.
  Lemma scale_D l alpha : okl l -> ok alpha -> D (poly_scale o l alpha) = pcompscale fk (D l) (den alpha).
  Proof.
    intros Hl Ha. unfold poly_scale, poly_scale_gen, pcompscale.
    rewrite (proj2 (scale_go_spec l alpha (fone o) Hl Ha ok1)), den1. reflexivity.
  Qed.
  Lemma shift_ok l n : okl l -> okl (poly_shift_coefficients o l n).
  Proof. intros Hl. apply Forall_app. split; [apply Forall_zrepeat; exact ok0|exact Hl]. Qed.
  Lemma shift_D l n : D (poly_shift_coefficients o l n) = pshift fk (Z.to_nat n) (D l).
  Proof. unfold poly_shift_coefficients, pshift. rewrite map_app, map_zrepeat, den0. reflexivity. Qed.
  Lemma evaluate_spec l x : okl l -> ok x -> ok (poly_evaluate o l x) /\ den (poly_evaluate o l x) = peval fk (D l) (den x).
  Proof.
    intros Hl Hx. unfold poly_evaluate, poly_evaluate_gen. rewrite <- (peval_fold_rev fk (D l) (den x)), <- map_rev.
    assert (G : forall r acc, okl r -> ok acc ->
      ok (fold_left (fun acc c => fadd o (fmul o acc x) c) r acc) /\
      den (fold_left (fun acc c => fadd o (fmul o acc x) c) r acc) =
      fold_left (fun a c => a * den x + c) (D r) (den acc)).
    { induction r as [|c r IH]; intros acc Hr Hacc; [split; [exact Hacc|reflexivity]|].
      inversion Hr; subst. cbn [fold_left map].
      pose proof (fo_mul _ _ _ _ H acc x Hacc Hx) as [M1 M2].
      pose proof (fo_add _ _ _ _ H _ c M1 ltac:(assumption)) as [A1 A2].
      destruct (IH _ ltac:(assumption) A1) as [I1 I2]. split; [exact I1|]. rewrite I2, A2, M2. reflexivity. }
    destruct (G (rev l) (fzero o) (Forall_rev Hl) ok0) as [G1 G2]. rewrite den0 in G2. split; assumption.
  Qed.
  Lemma deriv_go_spec l i : okl l -> 0 <= i -> i + zlen l <= 2 ^ 64 ->
    okl (deriv_go o i l) /\ D (deriv_go o i l) = pderiv_go fk (D l) (Z.to_nat i).
  Proof.
    revert i. induction l as [|c l IH]; intros i Hl Hi Hb; [split; [constructor|reflexivity]|].
    inversion Hl; subst. cbn [deriv_go map pderiv_go]. unfold zlen in Hb. cbn [length] in Hb.
    destruct (IH (i + 1)%Z ltac:(assumption) ltac:(lia) ltac:(unfold zlen; lia)) as [I1 I2].
    pose proof (fo_from _ _ _ _ H i ltac:(lia)) as [F1 F2].
    split.
    - constructor; [apply (fo_mul _ _ _ _ H); assumption|exact I1].
    - rewrite I2. replace (Z.to_nat (i + 1)%Z) with (S (Z.to_nat i)) by lia. f_equal.
      rewrite (proj2 (fo_mul _ _ _ _ H _ c F1 ltac:(assumption))), F2, Z2Nat.id by lia. reflexivity.
  Qed.
  Lemma map_tl {A B} (f : A -> B) l : map f (tl l) = tl (map f l).
  Proof. destruct l; reflexivity. Qed.
  Lemma formal_derivative_D l : okl l -> zlen l <= 2 ^ 64 -> D (poly_formal_derivative o l) = pderiv fk (D l).
  Proof.
    intros Hl Hb. unfold poly_formal_derivative, pderiv. rewrite map_tl.
    rewrite (proj2 (deriv_go_spec l 0 Hl ltac:(lia) ltac:(lia))). reflexivity.
  Qed.
  Lemma formal_derivative_ok l : okl l -> zlen l <= 2 ^ 64 -> okl (poly_formal_derivative o l).
  Proof.
    intros Hl Hb. unfold poly_formal_derivative.
    pose proof (proj1 (deriv_go_spec l 0 Hl ltac:(lia) ltac:(lia))) as X. destruct (deriv_go o 0 l); [constructor|].
    inversion X; assumption.
  Qed.
  (* derivative respects peq (spec level) *)
  Lemma pderiv_peq p q : peq p q -> peq (pderiv fk p) (pderiv fk q).
  Proof. intros E. apply peq_intro. intros i. rewrite !coeff_pderiv, (peq_elim fk _ _ E). reflexivity. Qed.
  Lemma pcompscale_peq p q a : peq p q -> peq (pcompscale fk p a) (pcompscale fk q a).
  Proof. intros E. apply peq_intro. intros i. rewrite !coeff_pcompscale, (peq_elim fk _ _ E). reflexivity. Qed.

  (* x_to_the, from_constant, one, zero *)
  Lemma x_to_the_D n : D (poly_x_to_the o n) = pXn fk (Z.to_nat n).
  Proof. unfold poly_x_to_the, pXn. rewrite map_app, map_zrepeat, den0. cbn [map]. rewrite den1. reflexivity. Qed.
  Lemma one_D : D (poly_one o) = pone fk. Proof. unfold poly_one, pone. cbn [map]. rewrite den1. reflexivity. Qed.
  Lemma one_ok : okl (poly_one o). Proof. constructor; [exact ok1|constructor]. Qed.

  (* mod_x_to_the_n and truncate (after the repair) *)
  Lemma mod_x_to_the_n_coeff l n i : 0 <= n ->
    coeff fk (D (poly_mod_x_to_the_n l n)) i = if (i <? Z.to_nat n)%nat then coeff fk (D l) i else 0.
  Proof.
    intros Hn. unfold poly_mod_x_to_the_n, take. rewrite <- firstn_map, coeff_firstn.
    destruct (i <? Z.to_nat (Z.min n (zlen l)))%nat eqn:E1; destruct (i <? Z.to_nat n)%nat eqn:E2; try reflexivity.
    - apply Nat.ltb_lt in E1. apply Nat.ltb_ge in E2. lia.
    - apply Nat.ltb_ge in E1. apply Nat.ltb_lt in E2. symmetry. apply coeff_overflow. rewrite map_length. unfold zlen in E1. lia.
  Qed.
  Theorem mod_x_to_the_n_peq a b n : 0 <= n -> peq (D a) (D b) ->
    peq (D (poly_mod_x_to_the_n a n)) (D (poly_mod_x_to_the_n b n)).
  Proof.
    intros Hn E. apply peq_intro. intros i. rewrite !mod_x_to_the_n_coeff by exact Hn.
    destruct (i <? Z.to_nat n)%nat; [apply (peq_elim fk _ _ E)|reflexivity].
  Qed.
  Theorem truncate_v1_canonical a b k : okl a -> okl b -> peq (D a) (D b) -> poly_truncate_v1 o a k = poly_truncate_v1 o b k.
  Proof.
    intros Ha Hb E. unfold poly_truncate_v1. pose proof (coefficients_canonical a b Ha Hb E) as C.
    unfold poly_coefficients in C. rewrite C. reflexivity.
  Qed.
  Lemma rev_firstn_rev {A} n (l : list A) : rev (firstn n (rev l)) = skipn (length l - n) l.
  Proof. rewrite firstn_rev, rev_involutive. reflexivity. Qed.
  (* truncate(k) keeps the k+1 highest coefficients of the denoted polynomial *)
  Theorem truncate_v1_spec l k : okl l -> 0 <= k -> k + 1 < 2 ^ 64 ->
    exists r, poly_truncate_v1 o l k = Some r /\ okl r /\
      forall i, coeff fk (D r) i = coeff fk (D l) (Z.to_nat (Z.max 0 (pdeg fk (D l) - k)) + i).
  Proof.
    intros Hl Hk Hb. unfold poly_truncate_v1, poly_truncate_raw. destruct (k + 1 <? 2 ^ 64) eqn:E; [|apply Z.ltb_ge in E; lia].
    eexists. split; [reflexivity|]. unfold take. rewrite rev_firstn_rev. split.
    - apply Forall_skipn. apply normalize_ok. exact Hl.
    - intros i. rewrite <- skipn_map, coeff_skipn, (normalize_pnorm l Hl).
      rewrite (peq_elim fk _ _ (pnorm_peq fk (D l))). f_equal. unfold pdeg.
      rewrite <- (normalize_pnorm l Hl), map_length. lia.
  Qed.
End Basic.
