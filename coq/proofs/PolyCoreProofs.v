(* proofs/PolyCoreProofs.v - lemmas about model/PolyCore.v against spec/PolySpec.v (properties C07 and C17).

   Setting: `o : fops F` refines an abstract field `fk : fieldK K` through `field_ok o fk ok den`
   (lib/FieldTheory.v; instance for the base field: proofs/BFieldOk.v).  A raw model list `l : list F` with
   `Forall ok l` denotes the polynomial `D l := map den l`; equality of polynomials is `peq`. *)
From Coq Require Import ZArith Lia List Bool Ring Field Setoid Morphisms.
From TF Require Import Word BFieldGen BField XField FieldOps FieldTheory PolyGen PolyCore PolySpec.
Import ListNotations.
Open Scope Z_scope.
Ltac Zify.zify_post_hook ::= Z.div_mod_to_equations.

(* ------------------------------------------------------------------ list helpers *)
Lemma zlen_nonneg {A} (l : list A) : 0 <= zlen l. Proof. unfold zlen. lia. Qed.
Lemma zlen_app {A} (a b : list A) : zlen (a ++ b) = zlen a + zlen b.
Proof. unfold zlen. rewrite app_length. lia. Qed.
Lemma zlen_map {A B} (f : A -> B) l : zlen (map f l) = zlen l.
Proof. unfold zlen. rewrite map_length. reflexivity. Qed.
Lemma zlen_zrepeat {A} (x : A) k : zlen (zrepeat x k) = Z.max 0 k.
Proof. unfold zlen, zrepeat. rewrite repeat_length. lia. Qed.
Lemma zlen_take {A} k (l : list A) : zlen (take k l) = Z.max 0 (Z.min k (zlen l)).
Proof. unfold zlen, take. rewrite firstn_length. lia. Qed.
Lemma take_all {A} k (l : list A) : zlen l <= k -> take k l = l.
Proof. intros H. unfold take. apply firstn_all2. unfold zlen in H. lia. Qed.
Lemma Forall_firstn {A} (P : A -> Prop) n l : Forall P l -> Forall P (firstn n l).
Proof.
  revert n. induction l as [|a l IH]; intros n Hl; [rewrite firstn_nil; constructor|].
  destruct n; [constructor|]. inversion Hl; subst. cbn [firstn]. constructor; [assumption|apply IH; assumption].
Qed.
Lemma Forall_skipn {A} (P : A -> Prop) n l : Forall P l -> Forall P (skipn n l).
Proof.
  revert n. induction l as [|a l IH]; intros n Hl; [rewrite skipn_nil; constructor|].
  destruct n; [exact Hl|]. inversion Hl; subst. cbn [skipn]. apply IH. assumption.
Qed.
Lemma Forall_take {A} (P : A -> Prop) k l : Forall P l -> Forall P (take k l).
Proof. apply Forall_firstn. Qed.
Lemma Forall_zrepeat {A} (P : A -> Prop) x k : P x -> Forall P (zrepeat x k).
Proof. intros H. unfold zrepeat. apply Forall_forall. intros y Hy. apply repeat_spec in Hy. subst. exact H. Qed.
Lemma map_take {A B} (f : A -> B) k l : map f (take k l) = take k (map f l).
Proof. unfold take. symmetry. apply firstn_map. Qed.
Lemma map_repeat' {A B} (f : A -> B) x n : map f (repeat x n) = repeat (f x) n.
Proof. induction n; [reflexivity|]. cbn [repeat map]. rewrite IHn. reflexivity. Qed.
Lemma map_zrepeat {A B} (f : A -> B) x k : map f (zrepeat x k) = zrepeat (f x) k.
Proof. unfold zrepeat. apply map_repeat'. Qed.

Lemma last_map' {A B} (f : A -> B) l d : last (map f l) (f d) = f (last l d).
Proof. induction l as [|a l IH]; [reflexivity|]. destruct l; [reflexivity|]. exact IH. Qed.

Section Basic.
  Context {F K : Type} (o : fops F) (fk : fieldK K) (ok : F -> Prop) (den : F -> K).
  Hypothesis H : field_ok o fk ok den.
  Local Notation "0" := (k0 fk).
  Local Notation "1" := (k1 fk).
  Local Infix "+" := (kadd fk).
  Local Infix "*" := (kmul fk).
  Local Infix "-" := (ksub fk).
  Local Notation "- x" := (kopp fk x).
  Local Notation D := (map den).
  Local Notation okl := (Forall ok).
  Local Notation peq := (peq fk).
  Add Field kfield_PolyCoreProofs_Basic : (kFT fk).

  Lemma ok0 : ok (fzero o). Proof. exact (proj1 (fo_zero _ _ _ _ H)). Qed.
  Lemma den0 : den (fzero o) = 0. Proof. exact (proj2 (fo_zero _ _ _ _ H)). Qed.
  Lemma ok1 : ok (fone o). Proof. exact (proj1 (fo_one _ _ _ _ H)). Qed.
  Lemma den1 : den (fone o) = 1. Proof. exact (proj2 (fo_one _ _ _ _ H)). Qed.
  Lemma is0_iff a : ok a -> (fis_zero o a = true <-> den a = 0).
  Proof. exact (fo_is_zero o fk ok den H a). Qed.
  Lemma is0_false_iff a : ok a -> (fis_zero o a = false <-> den a <> 0).
  Proof.
    intros Ha. pose proof (is0_iff a Ha) as E. destruct (fis_zero o a); split; intros X; try congruence.
    - exfalso. apply X. apply E. reflexivity.
    - intros Y. apply E in Y. discriminate.
  Qed.
  Lemma is0_zero : fis_zero o (fzero o) = true.
  Proof. apply is0_iff; [exact ok0|exact den0]. Qed.

  (* ---------------------------------------------------------------- normalize = pnorm, degree = pdeg *)
  Lemma drop_zeros_app r a :
    drop_zeros o (r ++ [a]) =
    match drop_zeros o r with [] => if fis_zero o a then [] else [a] | r' => r' ++ [a] end.
  Proof.
    induction r as [|x r IH]; cbn [drop_zeros app]; [reflexivity|].
    destruct (fis_zero o x); [exact IH|reflexivity].
  Qed.
  Lemma normalize_cons a l :
    poly_normalize o (a :: l) =
    match poly_normalize o l with [] => if fis_zero o a then [] else [a] | r => a :: r end.
  Proof.
    unfold poly_normalize. cbn [rev]. rewrite drop_zeros_app.
    destruct (drop_zeros o (rev l)) as [|y r'] eqn:E.
    - cbn [rev]. destruct (fis_zero o a); reflexivity.
    - rewrite rev_app_distr. cbn [rev app]. destruct (rev r' ++ [y]) eqn:E2; [|reflexivity].
      destruct (rev r'); discriminate.
  Qed.
  Lemma normalize_nil : poly_normalize o [] = []. Proof. reflexivity. Qed.
  Lemma normalize_pnorm l : okl l -> D (poly_normalize o l) = pnorm fk (D l).
  Proof.
    induction l as [|a l IH]; intros Hl; [reflexivity|]. inversion Hl as [|? ? Ha Hl']; subst.
    rewrite normalize_cons. cbn [map pnorm]. rewrite <- (IH Hl').
    destruct (poly_normalize o l) as [|b r]; cbn [map].
    - destruct (keq_dec fk (den a) 0) as [E|E].
      + apply (is0_iff a Ha) in E. rewrite E. reflexivity.
      + apply (is0_false_iff a Ha) in E. rewrite E. reflexivity.
    - reflexivity.
  Qed.
  Lemma normalize_ok l : okl l -> okl (poly_normalize o l).
  Proof.
    induction l as [|a l IH]; intros Hl; [constructor|]. inversion Hl as [|? ? Ha Hl']; subst.
    rewrite normalize_cons. pose proof (IH Hl') as Hn. destruct (poly_normalize o l) as [|b r].
    - destruct (fis_zero o a); constructor; [exact Ha|constructor].
    - constructor; assumption.
  Qed.
  Lemma normalize_length_le l : (length (poly_normalize o l) <= length l)%nat.
  Proof.
    induction l as [|a l IH]; [cbn; lia|]. rewrite normalize_cons. destruct (poly_normalize o l).
    - destruct (fis_zero o a); cbn; lia.
    - cbn [length] in *. lia.
  Qed.
  (* the normalised list is a prefix of the raw list *)
  Lemma normalize_prefix l : poly_normalize o l = firstn (length (poly_normalize o l)) l.
  Proof.
    induction l as [|a l IH]; [reflexivity|]. rewrite normalize_cons.
    destruct (poly_normalize o l) as [|b r] eqn:E.
    - destruct (fis_zero o a); [reflexivity|]. cbn. reflexivity.
    - cbn [length firstn]. f_equal. exact IH.
  Qed.
  Lemma degree_pdeg l : okl l -> poly_degree o l = pdeg fk (D l).
  Proof.
    intros Hl. unfold poly_degree, pdeg, zlen. rewrite <- (normalize_pnorm l Hl), map_length. reflexivity.
  Qed.
  Lemma normalize_peq l : okl l -> peq (D (poly_normalize o l)) (D l).
  Proof. intros Hl. rewrite (normalize_pnorm l Hl). apply pnorm_peq. Qed.
  Lemma normalize_take l : poly_normalize o l = take (poly_degree o l + 1) l.
  Proof.
    unfold take, poly_degree, zlen.
    replace (Z.to_nat (Z.of_nat (length (poly_normalize o l)) - 1 + 1)) with (length (poly_normalize o l)) by lia.
    apply normalize_prefix.
  Qed.
  (* stored leading zeros do not change the normal form (model level) *)
  Lemma normalize_app_zeros l k : poly_normalize o (l ++ repeat (fzero o) k) = poly_normalize o l.
  Proof.
    induction l as [|a l IH]; cbn [app].
    - induction k; [reflexivity|]. cbn [repeat]. rewrite normalize_cons, IHk. cbn. rewrite is0_zero. reflexivity.
    - rewrite !normalize_cons, IH. reflexivity.
  Qed.
  Lemma degree_app_zeros l k : poly_degree o (l ++ repeat (fzero o) k) = poly_degree o l.
  Proof. unfold poly_degree. rewrite normalize_app_zeros. reflexivity. Qed.
  Lemma okl_app_zeros l k : okl l -> okl (l ++ repeat (fzero o) k).
  Proof.
    intros Hl. apply Forall_app. split; [exact Hl|]. apply Forall_forall. intros x Hx.
    apply repeat_spec in Hx. subst. exact ok0.
  Qed.
  Lemma D_app_zeros l k : D (l ++ repeat (fzero o) k) = D l ++ repeat 0 k.
  Proof. rewrite map_app, map_repeat', den0. reflexivity. Qed.
  Lemma peq_D_app_zeros l k : peq (D (l ++ repeat (fzero o) k)) (D l).
  Proof. rewrite D_app_zeros. apply peq_app_zeros. Qed.
  Lemma degree_ge l : -1 <= poly_degree o l. Proof. unfold poly_degree, zlen. lia. Qed.
  Lemma degree_lt_len l : poly_degree o l < zlen l.
  Proof. unfold poly_degree, zlen. pose proof (normalize_length_le l). lia. Qed.
  Lemma degree_neg_pzero l : okl l -> (poly_degree o l < 0 <-> pzero fk (D l)).
  Proof.
    intros Hl. rewrite (degree_pdeg l Hl), <- pdeg_neg_iff. pose proof (pdeg_ge fk (D l)). lia.
  Qed.
  Lemma coeff_D l i : coeff fk (D l) i = match nth_error l i with Some c => den c | None => 0 end.
  Proof.
    revert i. induction l as [|a l IH]; intros [|i]; cbn [map nth_error]; try reflexivity. apply IH.
  Qed.
  Lemma D_take_peq l : okl l -> peq (D (take (poly_degree o l + 1) l)) (D l).
  Proof. intros Hl. rewrite <- normalize_take. apply normalize_peq. exact Hl. Qed.

  (* ---------------------------------------------------------------- PartialEq decides equality of denotations *)
  Lemma all_eq_spec a b : okl a -> okl b ->
    (all_eq o a b = true <-> forall i, (i < length a)%nat -> (i < length b)%nat -> coeff fk (D a) i = coeff fk (D b) i).
  Proof.
    revert b. induction a as [|x a IH]; intros b Ha Hb.
    - cbn [all_eq]. split; [intros _ i Hi; cbn in Hi; lia|reflexivity].
    - destruct b as [|y b]; [cbn [all_eq]; split; [intros _ i _ Hi; cbn in Hi; lia|reflexivity]|].
      inversion Ha as [|? ? Hx Ha']; inversion Hb as [|? ? Hy Hb']; subst.
      cbn [all_eq]. rewrite andb_true_iff, (fo_eqb _ _ _ _ H x y Hx Hy), (IH b Ha' Hb'). split.
      + intros [E1 E2] [|i] Hi1 Hi2; [exact E1|]. cbn [map]. rewrite !coeff_cons_S. apply E2; cbn in *; lia.
      + intros E. split; [exact (E O ltac:(cbn; lia) ltac:(cbn; lia))|].
        intros i Hi1 Hi2. exact (E (S i) ltac:(cbn; lia) ltac:(cbn; lia)).
  Qed.
  Theorem eq_iff_denote a b : okl a -> okl b -> (poly_eqb o a b = true <-> peq (D a) (D b)).
  Proof.
    intros Ha Hb. unfold poly_eqb. rewrite (degree_pdeg a Ha), (degree_pdeg b Hb). split.
    - destruct (pdeg fk (D a) =? pdeg fk (D b)) eqn:E; [|discriminate]. apply Z.eqb_eq in E.
      intros A0. pose proof (proj1 (all_eq_spec a b Ha Hb) A0) as A. apply peq_intro. intros i.
      destruct (Nat.lt_ge_cases i (length a)) as [L1|G1]; destruct (Nat.lt_ge_cases i (length b)) as [L2|G2].
      + apply A; assumption.
      + (* beyond b: both zero since deg a = deg b < length b <= i *)
        pose proof (pdeg_le_length fk (D b)) as B. rewrite map_length in B.
        rewrite (coeff_above_pdeg fk (D a) i) by lia. rewrite (coeff_above_pdeg fk (D b) i) by lia. reflexivity.
      + pose proof (pdeg_le_length fk (D a)) as B. rewrite map_length in B.
        rewrite (coeff_above_pdeg fk (D a) i) by lia. rewrite (coeff_above_pdeg fk (D b) i) by lia. reflexivity.
      + rewrite !coeff_overflow by (rewrite map_length; lia). reflexivity.
    - intros E. rewrite (pdeg_peq fk _ _ E), Z.eqb_refl. apply (proj2 (all_eq_spec a b Ha Hb)).
      intros i _ _. apply (peq_elim fk _ _ E).
  Qed.
  Lemma is_zero_iff l : okl l -> (poly_is_zero o l = true <-> pzero fk (D l)).
  Proof.
    intros Hl. unfold poly_is_zero, poly_zero. rewrite (eq_iff_denote l [] Hl (Forall_nil _)). apply peq_nil_pzero.
  Qed.

  (* ---------------------------------------------------------------- representations are unique *)
  Lemma D_inj a b : okl a -> okl b -> D a = D b -> a = b.
  Proof.
    revert b. induction a as [|x a IH]; intros [|y b] Ha Hb E; try discriminate; [reflexivity|].
    inversion Ha; inversion Hb; subst. cbn [map] in E. injection E as E1 E2.
    f_equal; [apply (fo_inj _ _ _ _ H); assumption|apply IH; assumption].
  Qed.
  Theorem coefficients_canonical a b : okl a -> okl b -> peq (D a) (D b) -> poly_coefficients o a = poly_coefficients o b.
  Proof.
    intros Ha Hb E. unfold poly_coefficients. apply D_inj; try (apply normalize_ok; assumption).
    rewrite !normalize_pnorm by assumption. apply pnorm_unique. exact E.
  Qed.
  (* the accessor never returns a stored leading zero *)
  Theorem coefficients_last_nonzero l : okl l -> forall c, last (poly_coefficients o l) c = c \/ den (last (poly_coefficients o l) c) <> 0.
  Proof.
    intros Hl c. unfold poly_coefficients. destruct (poly_normalize o l) as [|b r] eqn:E; [left; reflexivity|right].
    pose proof (normalize_pnorm l Hl) as N. rewrite E in N.
    assert (NE : pnorm fk (D l) <> []) by (rewrite <- N; discriminate).
    pose proof (pnorm_last_nonzero fk (D l) NE) as L. rewrite <- N in L.
    rewrite <- den0, last_map' in L.
    replace (last (b :: r) c) with (last (b :: r) (fzero o)); [rewrite den0 in L; exact L|].
    clear. revert b. induction r as [|y r IH]; intros b; [reflexivity|]. exact (IH y).
  Qed.
  (* Hash after the repair: equal polynomials feed the same list to the hasher *)
  Theorem hash_respects_eq a b : okl a -> okl b -> poly_eqb o a b = true -> poly_hash_feed_v1 o a = poly_hash_feed_v1 o b.
  Proof.
    intros Ha Hb E. apply (eq_iff_denote a b Ha Hb) in E. exact (coefficients_canonical a b Ha Hb E).
  Qed.
  (* the encoding is a function of the denoted polynomial *)
  Theorem encode_normalised enc a b : okl a -> okl b -> peq (D a) (D b) -> poly_encode o enc a = poly_encode o enc b.
  Proof. intros Ha Hb E. unfold poly_encode. rewrite (coefficients_canonical a b Ha Hb E). reflexivity. Qed.
  Theorem encode_app_zeros enc l k : poly_encode o enc (l ++ repeat (fzero o) k) = poly_encode o enc l.
  Proof. unfold poly_encode, poly_coefficients. rewrite normalize_app_zeros. reflexivity. Qed.

  (* ---------------------------------------------------------------- indexing, leading coefficient, is_one, is_x *)
  Lemma idx_lookup (l : list F) i : 0 <= i < zlen l -> exists c, idx l i = Some c /\ nth_error l (Z.to_nat i) = Some c.
  Proof.
    intros Hi. unfold idx. destruct (i <? 0) eqn:E; [apply Z.ltb_lt in E; lia|].
    destruct (nth_error l (Z.to_nat i)) as [c|] eqn:N; [exists c; split; reflexivity|].
    apply nth_error_None in N. unfold zlen in Hi. lia.
  Qed.
  Lemma nth_error_ok (l : list F) i c : okl l -> nth_error l i = Some c -> ok c.
  Proof. intros Hl N. apply nth_error_In in N. exact (proj1 (Forall_forall ok l) Hl c N). Qed.
  Theorem leading_coeff_nonzero l : okl l ->
    (pzero fk (D l) -> poly_leading_coefficient o l = Some None) /\
    (~ pzero fk (D l) ->
     exists c, poly_leading_coefficient o l = Some (Some c) /\ ok c /\ den c = plead fk (D l) /\ den c <> 0).
  Proof.
    intros Hl. unfold poly_leading_coefficient. rewrite (degree_pdeg l Hl). split.
    - intros Z. apply pdeg_neg_iff in Z. rewrite Z. reflexivity.
    - intros NZ. assert (Hd : 0 <= pdeg fk (D l)).
      { pose proof (pdeg_ge fk (D l)). destruct (Z.eq_dec (pdeg fk (D l)) (-1)) as [E|E]; [|lia].
        exfalso. apply NZ. apply pdeg_neg_iff. exact E. }
      destruct (pdeg fk (D l) =? -1) eqn:E; [apply Z.eqb_eq in E; lia|].
      pose proof (pdeg_le_length fk (D l)) as B. rewrite map_length in B.
      destruct (idx_lookup l (pdeg fk (D l))) as [c [E1 E2]]; [unfold zlen; lia|].
      rewrite E1. exists c. split; [reflexivity|]. split; [exact (nth_error_ok l _ c Hl E2)|].
      destruct (coeff_at_pdeg fk (D l) Hd) as [C1 C2]. rewrite coeff_D, E2 in C1. rewrite C1. split; [reflexivity|exact C2].
  Qed.
  Lemma leading_coefficient_total l : okl l -> exists r, poly_leading_coefficient o l = Some r.
  Proof.
    intros Hl. destruct (leading_coeff_nonzero l Hl) as [A B].
    destruct (Z.eq_dec (pdeg fk (D l)) (-1)) as [E|E].
    - exists None. apply A. apply pdeg_neg_iff. exact E.
    - destruct B as [c [B _]]; [intros Z; apply pdeg_neg_iff in Z; contradiction|]. exists (Some c). exact B.
  Qed.
  Theorem is_one_spec l : okl l -> exists b, poly_is_one o l = Some b /\ (b = true <-> peq (D l) (pone fk)).
  Proof.
    intros Hl. unfold poly_is_one. rewrite (degree_pdeg l Hl).
    destruct (pdeg fk (D l) =? 0) eqn:E.
    - apply Z.eqb_eq in E. pose proof (pdeg_le_length fk (D l)) as B. rewrite map_length in B.
      destruct (idx_lookup l 0) as [c [E1 E2]]; [unfold zlen; lia|]. rewrite E1.
      exists (feqb o c (fone o)). split; [reflexivity|].
      pose proof (nth_error_ok l _ c Hl E2) as Hc.
      rewrite (fo_eqb _ _ _ _ H c (fone o) Hc ok1), den1.
      assert (C0 : coeff fk (D l) 0 = den c) by (rewrite coeff_D; change (Z.to_nat 0) with O in E2; rewrite E2; reflexivity).
      split.
      + intros Ec. apply peq_intro. intros [|i].
        * rewrite C0, Ec. reflexivity.
        * rewrite (coeff_above_pdeg fk (D l)) by lia. unfold pone. rewrite coeff_cons_S, coeff_nil. reflexivity.
      + intros Ep. rewrite <- C0, (peq_elim fk _ _ Ep). reflexivity.
    - exists false. split; [reflexivity|]. split; [discriminate|]. intros Ep. apply Z.eqb_neq in E. exfalso. apply E.
      rewrite (pdeg_peq fk _ _ Ep). unfold pdeg, pone. cbn [pnorm].
      destruct (keq_dec fk 1 0) as [X|X]; [exfalso; exact (k1_neq_0 fk X)|reflexivity].
  Qed.

  (* ---------------------------------------------------------------- arithmetic: exact denotations *)
  Lemma padd_nil_r (p : list K) : padd fk p [] = p. Proof. destruct p; reflexivity. Qed.
  Lemma add_ok a b : okl a -> okl b -> okl (poly_add o a b).
  Proof.
    revert b. induction a as [|x a IH]; intros b Ha Hb; [exact Hb|]. destruct b as [|y b]; [exact Ha|].
    inversion Ha; inversion Hb; subst. cbn [poly_add]. constructor; [apply (fo_add _ _ _ _ H); assumption|apply IH; assumption].
  Qed.
  Lemma add_D a b : okl a -> okl b -> D (poly_add o a b) = padd fk (D a) (D b).
  Proof.
    revert b. induction a as [|x a IH]; intros b Ha Hb; [reflexivity|]. destruct b as [|y b]; [reflexivity|].
    inversion Ha; inversion Hb; subst. cbn [poly_add map padd]. f_equal; [apply (fo_add _ _ _ _ H); assumption|apply IH; assumption].
  Qed.
  Lemma sub_ok a b : okl a -> okl b -> okl (poly_sub o a b).
  Proof.
    revert b. induction a as [|x a IH]; intros b Ha Hb.
    - cbn [poly_sub]. apply Forall_forall. intros z Hz. apply in_map_iff in Hz. destruct Hz as [r [<- Hr]].
      apply (fo_sub _ _ _ _ H); [exact ok0|exact (proj1 (Forall_forall ok b) Hb r Hr)].
    - destruct b as [|y b]; [exact Ha|]. inversion Ha; inversion Hb; subst. cbn [poly_sub].
      constructor; [apply (fo_sub _ _ _ _ H); assumption|apply IH; assumption].
  Qed.
  Lemma sub_D a b : okl a -> okl b -> D (poly_sub o a b) = psub fk (D a) (D b).
  Proof.
    unfold psub. revert b. induction a as [|x a IH]; intros b Ha Hb.
    - cbn [poly_sub map padd]. unfold popp. rewrite !map_map. apply map_ext_in. intros r Hr.
      rewrite (proj2 (fo_sub _ _ _ _ H _ r ok0 (proj1 (Forall_forall ok b) Hb r Hr))), den0. ring.
    - destruct b as [|y b]; [cbn [poly_sub map popp]; rewrite padd_nil_r; reflexivity|].
      inversion Ha; inversion Hb; subst. cbn [poly_sub map popp padd]. f_equal.
      + rewrite (proj2 (fo_sub _ _ _ _ H x y ltac:(assumption) ltac:(assumption))). ring.
      + apply IH; assumption.
  Qed.
  Lemma scalar_mul_ok l s : okl l -> ok s -> okl (poly_scalar_mul o l s).
  Proof.
    intros Hl Hs. apply Forall_forall. intros z Hz. apply in_map_iff in Hz. destruct Hz as [c [<- Hc]].
    apply (fo_mul _ _ _ _ H); [exact (proj1 (Forall_forall ok l) Hl c Hc)|exact Hs].
  Qed.
  Lemma scalar_mul_D l s : okl l -> ok s -> D (poly_scalar_mul o l s) = pscale fk (den s) (D l).
  Proof.
    intros Hl Hs. unfold poly_scalar_mul, poly_scalar_mul_gen, pscale. rewrite !map_map. apply map_ext_in. intros c Hc.
    rewrite (proj2 (fo_mul _ _ _ _ H c s (proj1 (Forall_forall ok l) Hl c Hc) Hs)). ring.
  Qed.
  Lemma neg_ok l : okl l -> okl (poly_neg o l).
  Proof. intros Hl. apply scalar_mul_ok; [exact Hl|]. apply (fo_neg _ _ _ _ H). exact ok1. Qed.
  Lemma neg_D l : okl l -> D (poly_neg o l) = popp fk (D l).
  Proof.
    intros Hl. unfold poly_neg, poly_scalar_mul_mut.
    rewrite scalar_mul_D; [|exact Hl|apply (fo_neg _ _ _ _ H); exact ok1].
    rewrite (proj2 (fo_neg _ _ _ _ H _ ok1)), den1. unfold pscale, popp. apply map_ext. intros c. ring.
  Qed.
  Lemma scale_go_spec l alpha pw : okl l -> ok alpha -> ok pw ->
    okl (scale_go (fmul o) (fmul o) alpha pw l) /\
    D (scale_go (fmul o) (fmul o) alpha pw l) = pcompscale_go fk (D l) (den alpha) (den pw).
  Proof.
    revert pw. induction l as [|c l IH]; intros pw Hl Ha Hp; [split; [constructor|reflexivity]|].
    inversion Hl; subst. cbn [scale_go map pcompscale_go].
    destruct (IH (fmul o pw alpha) ltac:(assumption) Ha (proj1 (fo_mul _ _ _ _ H pw alpha Hp Ha))) as [I1 I2].
    split.
    - constructor; [apply (fo_mul _ _ _ _ H); assumption|exact I1].
    - rewrite I2. f_equal; [apply (fo_mul _ _ _ _ H); assumption|].
      rewrite (proj2 (fo_mul _ _ _ _ H pw alpha Hp Ha)). reflexivity.
  Qed.
  Lemma scale_ok l alpha : okl l -> ok alpha -> okl (poly_scale o l alpha).
  Proof. intros Hl Ha. exact (proj1 (scale_go_spec l alpha (fone o) Hl Ha ok1)). Qed.
  Lemma scale_D l alpha : okl l -> ok alpha -> D (poly_scale o l alpha) = pcompscale fk (D l) (den alpha).
  Proof.
    intros Hl Ha. unfold poly_scale, poly_scale_gen, pcompscale.
    rewrite (proj2 (scale_go_spec l alpha (fone o) Hl Ha ok1)), den1. reflexivity.
  Qed.
  Lemma shift_ok l n : okl l -> okl (poly_shift_coefficients o l n).
  Proof. intros Hl. apply Forall_app. split; [apply Forall_zrepeat; exact ok0|exact Hl]. Qed.
  Lemma shift_D l n : D (poly_shift_coefficients o l n) = pshift fk (Z.to_nat n) (D l).
  Proof. unfold poly_shift_coefficients, pshift. rewrite map_app, map_zrepeat, den0. reflexivity. Qed.
  Lemma evaluate_spec l x : okl l -> ok x -> ok (poly_evaluate o l x) /\ den (poly_evaluate o l x) = peval fk (D l) (den x).
  Proof.
    intros Hl Hx. unfold poly_evaluate, poly_evaluate_gen. rewrite <- (peval_fold_rev fk (D l) (den x)), <- map_rev.
    assert (G : forall r acc, okl r -> ok acc ->
      ok (fold_left (fun acc c => fadd o (fmul o acc x) c) r acc) /\
      den (fold_left (fun acc c => fadd o (fmul o acc x) c) r acc) =
      fold_left (fun a c => a * den x + c) (D r) (den acc)).
    { induction r as [|c r IH]; intros acc Hr Hacc; [split; [exact Hacc|reflexivity]|].
      inversion Hr; subst. cbn [fold_left map].
      pose proof (fo_mul _ _ _ _ H acc x Hacc Hx) as [M1 M2].
      pose proof (fo_add _ _ _ _ H _ c M1 ltac:(assumption)) as [A1 A2].
      destruct (IH _ ltac:(assumption) A1) as [I1 I2]. split; [exact I1|]. rewrite I2, A2, M2. reflexivity. }
    destruct (G (rev l) (fzero o) (Forall_rev Hl) ok0) as [G1 G2]. rewrite den0 in G2. split; assumption.
  Qed.
  Lemma deriv_go_spec l i : okl l -> 0 <= i -> i + zlen l <= 2 ^ 64 ->
    okl (deriv_go o i l) /\ D (deriv_go o i l) = pderiv_go fk (D l) (Z.to_nat i).
  Proof.
    revert i. induction l as [|c l IH]; intros i Hl Hi Hb; [split; [constructor|reflexivity]|].
    inversion Hl; subst. cbn [deriv_go map pderiv_go]. unfold zlen in Hb. cbn [length] in Hb.
    destruct (IH (i + 1)%Z ltac:(assumption) ltac:(lia) ltac:(unfold zlen; lia)) as [I1 I2].
    pose proof (fo_from _ _ _ _ H i ltac:(lia)) as [F1 F2].
    split.
    - constructor; [apply (fo_mul _ _ _ _ H); assumption|exact I1].
    - rewrite I2. replace (Z.to_nat (i + 1)%Z) with (S (Z.to_nat i)) by lia. f_equal.
      rewrite (proj2 (fo_mul _ _ _ _ H _ c F1 ltac:(assumption))), F2, Z2Nat.id by lia. reflexivity.
  Qed.
  Lemma map_tl {A B} (f : A -> B) l : map f (tl l) = tl (map f l).
  Proof. destruct l; reflexivity. Qed.
  Lemma formal_derivative_D l : okl l -> zlen l <= 2 ^ 64 -> D (poly_formal_derivative o l) = pderiv fk (D l).
  Proof.
    intros Hl Hb. unfold poly_formal_derivative, pderiv. rewrite map_tl.
    rewrite (proj2 (deriv_go_spec l 0 Hl ltac:(lia) ltac:(lia))). reflexivity.
  Qed.
  Lemma formal_derivative_ok l : okl l -> zlen l <= 2 ^ 64 -> okl (poly_formal_derivative o l).
  Proof.
    intros Hl Hb. unfold poly_formal_derivative.
    pose proof (proj1 (deriv_go_spec l 0 Hl ltac:(lia) ltac:(lia))) as X. destruct (deriv_go o 0 l); [constructor|].
    inversion X; assumption.
  Qed.
  (* derivative respects peq (spec level) *)
  Lemma pderiv_peq p q : peq p q -> peq (pderiv fk p) (pderiv fk q).
  Proof. intros E. apply peq_intro. intros i. rewrite !coeff_pderiv, (peq_elim fk _ _ E). reflexivity. Qed.
  Lemma pcompscale_peq p q a : peq p q -> peq (pcompscale fk p a) (pcompscale fk q a).
  Proof. intros E. apply peq_intro. intros i. rewrite !coeff_pcompscale, (peq_elim fk _ _ E). reflexivity. Qed.

  (* x_to_the, from_constant, one, zero *)
  Lemma x_to_the_D n : D (poly_x_to_the o n) = pXn fk (Z.to_nat n).
  Proof. unfold poly_x_to_the, pXn. rewrite map_app, map_zrepeat, den0. cbn [map]. rewrite den1. reflexivity. Qed.
  Lemma one_D : D (poly_one o) = pone fk. Proof. unfold poly_one, pone. cbn [map]. rewrite den1. reflexivity. Qed.
  Lemma one_ok : okl (poly_one o). Proof. constructor; [exact ok1|constructor]. Qed.

  (* mod_x_to_the_n and truncate (after the repair) *)
  Lemma mod_x_to_the_n_coeff l n i : 0 <= n ->
    coeff fk (D (poly_mod_x_to_the_n l n)) i = if (i <? Z.to_nat n)%nat then coeff fk (D l) i else 0.
  Proof.
    intros Hn. unfold poly_mod_x_to_the_n, take. rewrite <- firstn_map, coeff_firstn.
    destruct (i <? Z.to_nat (Z.min n (zlen l)))%nat eqn:E1; destruct (i <? Z.to_nat n)%nat eqn:E2; try reflexivity.
    - apply Nat.ltb_lt in E1. apply Nat.ltb_ge in E2. lia.
    - apply Nat.ltb_ge in E1. apply Nat.ltb_lt in E2. symmetry. apply coeff_overflow. rewrite map_length. unfold zlen in E1. lia.
  Qed.
  Theorem mod_x_to_the_n_peq a b n : 0 <= n -> peq (D a) (D b) ->
    peq (D (poly_mod_x_to_the_n a n)) (D (poly_mod_x_to_the_n b n)).
  Proof.
    intros Hn E. apply peq_intro. intros i. rewrite !mod_x_to_the_n_coeff by exact Hn.
    destruct (i <? Z.to_nat n)%nat; [apply (peq_elim fk _ _ E)|reflexivity].
  Qed.
  Theorem truncate_v1_canonical a b k : okl a -> okl b -> peq (D a) (D b) -> poly_truncate_v1 o a k = poly_truncate_v1 o b k.
  Proof.
    intros Ha Hb E. unfold poly_truncate_v1. pose proof (coefficients_canonical a b Ha Hb E) as C.
    unfold poly_coefficients in C. rewrite C. reflexivity.
  Qed.
  Lemma rev_firstn_rev {A} n (l : list A) : rev (firstn n (rev l)) = skipn (length l - n) l.
  Proof. rewrite firstn_rev, rev_involutive. reflexivity. Qed.
  (* truncate(k) keeps the k+1 highest coefficients of the denoted polynomial *)
  Theorem truncate_v1_spec l k : okl l -> 0 <= k -> k + 1 < 2 ^ 64 ->
    exists r, poly_truncate_v1 o l k = Some r /\ okl r /\
      forall i, coeff fk (D r) i = coeff fk (D l) (Z.to_nat (Z.max 0 (pdeg fk (D l) - k)) + i).
  Proof.
    intros Hl Hk Hb. unfold poly_truncate_v1, poly_truncate_raw. destruct (k + 1 <? 2 ^ 64) eqn:E; [|apply Z.ltb_ge in E; lia].
    eexists. split; [reflexivity|]. unfold take. rewrite rev_firstn_rev. split.
    - apply Forall_skipn. apply normalize_ok. exact Hl.
    - intros i. rewrite <- skipn_map, coeff_skipn, (normalize_pnorm l Hl).
      rewrite (peq_elim fk _ _ (pnorm_peq fk (D l))). f_equal. unfold pdeg.
      rewrite <- (normalize_pnorm l Hl), map_length. lia.
  Qed.
End Basic.

(* ------------------------------------------------------------------ products, possibly over different fields.
   The three operation records refine the SAME abstract field K (base field elements embedded in the extension
   field): den1, den2, den3 : F_i -> K, and the mixed product multiplies the denotations. *)
Section Mul3.
  Context {F1 F2 F3 K : Type} (o1 : fops F1) (o2 : fops F2) (o3 : fops F3) (fk : fieldK K).
  Context (ok1 : F1 -> Prop) (ok2 : F2 -> Prop) (ok3 : F3 -> Prop) (den1 : F1 -> K) (den2 : F2 -> K) (den3 : F3 -> K).
  Hypothesis H1 : field_ok o1 fk ok1 den1.
  Hypothesis H2 : field_ok o2 fk ok2 den2.
  Hypothesis H3 : field_ok o3 fk ok3 den3.
  Variable mul12 : F1 -> F2 -> F3.
  Hypothesis Hmul : forall x y, ok1 x -> ok2 y -> ok3 (mul12 x y) /\ den3 (mul12 x y) = kmul fk (den1 x) (den2 y).
  Local Notation "0" := (k0 fk).
  Local Infix "+" := (kadd fk).
  Local Infix "*" := (kmul fk).
  Local Notation D1 := (map den1).
  Local Notation D2 := (map den2).
  Local Notation D3 := (map den3).
  Local Notation peq := (peq fk).
  Add Field kfield_PolyCoreProofs_Mul3 : (kFT fk).

  Lemma add_row_length x b prod : length (add_row o3 mul12 x b prod) = length prod.
  Proof.
    revert prod. induction b as [|y b IH]; intros prod; [destruct prod; reflexivity|].
    destruct prod as [|p prod]; [reflexivity|]. cbn [add_row length]. rewrite IH. reflexivity.
  Qed.
  Lemma add_row_spec x b prod : ok1 x -> Forall ok2 b -> Forall ok3 prod ->
    Forall ok3 (add_row o3 mul12 x b prod) /\
    peq (D3 (add_row o3 mul12 x b prod)) (padd fk (D3 prod) (pscale fk (den1 x) (firstn (length prod) (D2 b)))).
  Proof.
    intros Hx. revert prod. induction b as [|y b IH]; intros prod Hb Hp.
    - replace (add_row o3 mul12 x [] prod) with prod by (destruct prod; reflexivity). split; [exact Hp|].
      rewrite firstn_nil. cbn [map pscale]. rewrite padd_nil_r. reflexivity.
    - destruct prod as [|p prod].
      + cbn [add_row]. split; [constructor|]. cbn [length firstn map pscale padd]. reflexivity.
      + inversion Hb; inversion Hp; subst. cbn [add_row length firstn map pscale padd].
        destruct (IH prod ltac:(assumption) ltac:(assumption)) as [I1 I2].
        destruct (Hmul x y Hx ltac:(assumption)) as [M1 M2].
        destruct (fo_add _ _ _ _ H3 p (mul12 x y) ltac:(assumption) M1) as [A1 A2].
        split; [constructor; assumption|]. apply peq_cons; [rewrite A2, M2; reflexivity|exact I2].
  Qed.
  (* the rows of the schoolbook product: prod + a * b, provided prod is long enough *)
  Lemma mul_rows_spec a b prod : Forall ok1 a -> Forall ok2 b -> Forall ok3 prod ->
    (length a + length b <= length prod + 1)%nat ->
    Forall ok3 (mul_rows o3 mul12 a b prod) /\ length (mul_rows o3 mul12 a b prod) = length prod /\
    peq (D3 (mul_rows o3 mul12 a b prod)) (padd fk (D3 prod) (pmul fk (D1 a) (D2 b))).
  Proof.
    revert prod. induction a as [|x a IH]; intros prod Ha Hb Hp Hlen.
    - cbn [mul_rows map pmul]. rewrite padd_nil_r. split; [exact Hp|]. split; reflexivity.
    - inversion Ha as [|? ? Hx Ha']; subst. cbn [mul_rows].
      destruct (add_row_spec x b prod Hx Hb Hp) as [R1 R2]. pose proof (add_row_length x b prod) as RL.
      destruct (add_row o3 mul12 x b prod) as [|p0 rest] eqn:E.
      + (* prod = [] : then b = [] and a = [] *)
        destruct prod; [|discriminate]. cbn [length] in Hlen. destruct b; [|cbn [length] in Hlen; lia].
        split; [constructor|]. split; [reflexivity|]. cbn [map]. apply peq_sym. apply peq_nil_pzero.
        apply pmul_pzero_r. intros i. apply coeff_nil.
      + inversion R1 as [|? ? Hp0 Hrest]; subst. cbn [length] in RL.
        destruct (IH rest Ha' Hb Hrest ltac:(cbn [length] in Hlen; lia)) as [I1 [I2 I3]].
        split; [constructor; assumption|]. split; [cbn [length]; lia|].
        cbn [map]. cbn [map] in R2.
        (* p0 :: (rest + a*b)  =  (p0 :: rest) + X (a*b)  =  prod + x b + X (a*b) *)
        assert (Efn : peq (firstn (length prod) (D2 b)) (D2 b)).
        { rewrite firstn_all2; [reflexivity|]. rewrite map_length. cbn [length] in Hlen. lia. }
        rewrite Efn in R2.
        transitivity (padd fk (den3 p0 :: D3 rest) (0 :: pmul fk (D1 a) (D2 b))).
        * cbn [padd]. apply peq_cons; [ring|exact I3].
        * rewrite R2. cbn [pmul]. rewrite <- padd_assoc. reflexivity.
  Qed.

  (* naive_multiply (and hence `*` and the arm of `multiply` below the threshold): the ring product *)
  Theorem naive_multiply_gen_spec a b : Forall ok1 a -> Forall ok2 b ->
    Forall ok3 (poly_naive_multiply_gen o1 o2 o3 mul12 a b) /\
    peq (D3 (poly_naive_multiply_gen o1 o2 o3 mul12 a b)) (pmul fk (D1 a) (D2 b)).
  Proof.
    intros Ha Hb. unfold poly_naive_multiply_gen.
    destruct ((poly_degree o1 a <? 0) || (poly_degree o2 b <? 0)) eqn:E.
    - split; [constructor|]. cbn [map]. apply peq_sym. apply peq_nil_pzero. apply orb_true_iff in E. destruct E as [E|E]; apply Z.ltb_lt in E.
      + apply pmul_pzero_l. apply (degree_neg_pzero o1 fk ok1 den1 H1 a Ha). exact E.
      + apply pmul_pzero_r. apply (degree_neg_pzero o2 fk ok2 den2 H2 b Hb). exact E.
    - apply orb_false_iff in E. destruct E as [Ea Eb]. apply Z.ltb_ge in Ea, Eb.
      pose proof (degree_lt_len o1 a) as La. pose proof (degree_lt_len o2 b) as Lb.
      destruct (mul_rows_spec (take (poly_degree o1 a + 1)%Z a) (take (poly_degree o2 b + 1)%Z b)
                  (zrepeat (fzero o3) (poly_degree o1 a + poly_degree o2 b + 1)%Z)) as [M1 [M2 M3]].
      + apply Forall_take. exact Ha.
      + apply Forall_take. exact Hb.
      + apply Forall_zrepeat. exact (ok0 o3 fk ok3 den3 H3).
      + unfold take, zrepeat. rewrite !firstn_length, repeat_length. unfold zlen in La, Lb. lia.
      + split; [exact M1|]. rewrite M3.
        rewrite (D_take_peq o1 fk ok1 den1 H1 a Ha), (D_take_peq o2 fk ok2 den2 H2 b Hb).
        rewrite map_zrepeat, (den0 o3 fk ok3 den3 H3). unfold zrepeat.
        transitivity (padd fk [] (pmul fk (D1 a) (D2 b))); [|reflexivity].
        apply padd_peq; [|reflexivity]. apply peq_nil_pzero. intros i. apply coeff_repeat0.
  Qed.
  (* the result of naive_multiply stores no leading zero: its length is deg a + deg b + 1 (or 0) *)
  Lemma naive_multiply_gen_length a b :
    zlen (poly_naive_multiply_gen o1 o2 o3 mul12 a b) =
    if (poly_degree o1 a <? 0) || (poly_degree o2 b <? 0) then 0%Z else (poly_degree o1 a + poly_degree o2 b + 1)%Z.
  Proof.
    unfold poly_naive_multiply_gen. destruct ((poly_degree o1 a <? 0) || (poly_degree o2 b <? 0)) eqn:E; [reflexivity|].
    apply orb_false_iff in E. destruct E as [Ea Eb]. apply Z.ltb_ge in Ea, Eb.
    pose proof (degree_lt_len o1 a) as La. pose proof (degree_lt_len o2 b) as Lb.
    assert (G : forall a' b' prod, (length a' + length b' <= length prod + 1)%nat ->
                length (mul_rows o3 mul12 a' b' prod) = length prod).
    { induction a' as [|x a' IH]; intros b' prod Hlen; [reflexivity|]. cbn [mul_rows].
      pose proof (add_row_length x b' prod) as RL. destruct (add_row o3 mul12 x b' prod) as [|p0 rest].
      - destruct prod; [reflexivity|discriminate].
      - cbn [length] in *. rewrite IH by lia. exact RL. }
    unfold zlen. rewrite G.
    - unfold zrepeat. rewrite repeat_length. lia.
    - unfold take, zrepeat. rewrite !firstn_length, repeat_length. unfold zlen in La, Lb. lia.
  Qed.
End Mul3.

(* ------------------------------------------------------------------ same-field family: squares and powers *)
Section Same.
  Context {F K : Type} (o : fops F) (fk : fieldK K) (ok : F -> Prop) (den : F -> K).
  Hypothesis H : field_ok o fk ok den.
  Local Notation "0" := (k0 fk).
  Local Notation "1" := (k1 fk).
  Local Infix "+" := (kadd fk).
  Local Infix "*" := (kmul fk).
  Local Notation D := (map den).
  Local Notation okl := (Forall ok).
  Local Notation peq := (peq fk).
  Local Notation pmul := (pmul fk).
  Local Notation padd := (padd fk).
  Local Notation pscale := (pscale fk).
  Add Field kfield_PolyCoreProofs_Same : (kFT fk).

  Lemma Hmul_same : forall x y, ok x -> ok y -> ok (fmul o x y) /\ den (fmul o x y) = den x * den y.
  Proof. exact (fo_mul _ _ _ _ H). Qed.

  (* a list that stores no leading zero *)
  Definition nostored (l : list F) : Prop := zlen l = (poly_degree o l + 1)%Z.
  (* `good p acc`: acc is a well-formed representation of p without stored zeros *)
  Definition good (p : list K) (acc : list F) : Prop := okl acc /\ nostored acc /\ peq (D acc) p.
  Lemma good_peq p q acc : peq p q -> good p acc -> good q acc.
  Proof. intros E [G1 [G2 G3]]. split; [exact G1|]. split; [exact G2|]. rewrite G3. exact E. Qed.

  Lemma normalize_idem l : okl l -> poly_normalize o (poly_normalize o l) = poly_normalize o l.
  Proof.
    intros Hl. pose proof (normalize_ok o ok l Hl) as N1.
    pose proof (normalize_ok o ok _ N1) as N2.
    apply (D_inj o fk ok den H _ _ N2 N1).
    rewrite (normalize_pnorm o fk ok den H _ N1), (normalize_pnorm o fk ok den H l Hl). apply pnorm_idem.
  Qed.
  Lemma degree_normalize l : okl l -> poly_degree o (poly_normalize o l) = poly_degree o l.
  Proof. intros Hl. unfold poly_degree. rewrite (normalize_idem l Hl). reflexivity. Qed.
  Lemma nostored_normalize l : okl l -> nostored (poly_normalize o l).
  Proof. intros Hl. unfold nostored, poly_degree. rewrite (normalize_idem l Hl). lia. Qed.
  Lemma nostored_iff l : nostored l <-> poly_normalize o l = l.
  Proof.
    unfold nostored, poly_degree, zlen. split.
    - intros E. rewrite (normalize_prefix o l). replace (length (poly_normalize o l)) with (length l) by lia. apply firstn_all.
    - intros ->. lia.
  Qed.
  Lemma good_normalize l : okl l -> good (D l) (poly_normalize o l).
  Proof.
    intros Hl. split; [apply (normalize_ok o ok); exact Hl|]. split; [apply nostored_normalize; exact Hl|].
    apply (normalize_peq o fk ok den H). exact Hl.
  Qed.

  (* naive multiplication in one field *)
  Theorem naive_multiply_spec a b : okl a -> okl b ->
    okl (poly_naive_multiply o a b) /\ peq (D (poly_naive_multiply o a b)) (pmul (D a) (D b)).
  Proof. intros Ha Hb. exact (naive_multiply_gen_spec o o o fk ok ok ok den den den H H H (fmul o) Hmul_same a b Ha Hb). Qed.
  Lemma naive_multiply_nostored a b : okl a -> okl b -> nostored (poly_naive_multiply o a b).
  Proof.
    intros Ha Hb. unfold nostored. destruct (naive_multiply_spec a b Ha Hb) as [S1 S2].
    unfold poly_naive_multiply.
    rewrite naive_multiply_gen_length with (fk := fk) (ok1 := ok) (ok2 := ok) (ok3 := ok) (den1 := den) (den2 := den) (den3 := den);
      [|exact Hmul_same].
    fold (poly_naive_multiply o a b).
    rewrite (degree_pdeg o fk ok den H _ S1), (pdeg_peq fk _ _ S2).
    destruct ((poly_degree o a <? 0) || (poly_degree o b <? 0)) eqn:E.
    - assert (Z : pzero fk (pmul (D a) (D b))).
      { apply orb_true_iff in E. destruct E as [E|E]; apply Z.ltb_lt in E.
        - apply pmul_pzero_l. apply (degree_neg_pzero o fk ok den H a Ha). exact E.
        - apply pmul_pzero_r. apply (degree_neg_pzero o fk ok den H b Hb). exact E. }
      apply pdeg_neg_iff in Z. lia.
    - apply orb_false_iff in E. destruct E as [Ea Eb]. apply Z.ltb_ge in Ea, Eb.
      rewrite (degree_pdeg o fk ok den H a Ha) in *. rewrite (degree_pdeg o fk ok den H b Hb) in *.
      rewrite pdeg_pmul by assumption. reflexivity.
  Qed.
  Lemma naive_multiply_good a b p q : good p a -> okl b -> peq (D b) q -> good (pmul p q) (poly_naive_multiply o a b).
  Proof.
    intros [A1 [A2 A3]] Hb E. destruct (naive_multiply_spec a b A1 Hb) as [S1 S2].
    split; [exact S1|]. split; [apply naive_multiply_nostored; assumption|]. rewrite S2, A3, E. reflexivity.
  Qed.

  (* ---- the schoolbook squaring loops *)
  Lemma add_row_opt_spec x cs rest : ok x -> okl cs -> okl rest -> (length cs <= length rest)%nat ->
    exists t, add_row_opt o x cs rest = Some t /\ okl t /\ length t = length rest /\
              peq (D t) (padd (D rest) (pscale (den x) (D cs))).
  Proof.
    intros Hx. revert rest. induction cs as [|c cs IH]; intros rest Hc Hr Hlen.
    - exists rest. split; [reflexivity|]. split; [exact Hr|]. split; [reflexivity|].
      cbn [map]. unfold PolySpec.pscale. cbn [map]. rewrite padd_nil_r. reflexivity.
    - destruct rest as [|r rest]; [cbn [length] in Hlen; lia|]. inversion Hc; inversion Hr; subst.
      destruct (IH rest ltac:(assumption) ltac:(assumption) ltac:(cbn [length] in Hlen; lia)) as [t [T1 [T2 [T3 T4]]]].
      cbn [add_row_opt]. rewrite T1. eexists. split; [reflexivity|].
      destruct (fo_mul _ _ _ _ H x c Hx ltac:(assumption)) as [M1 M2].
      destruct (fo_add _ _ _ _ H r _ ltac:(assumption) M1) as [A1 A2].
      split; [constructor; assumption|]. split; [cbn [length]; lia|].
      cbn [map]. unfold PolySpec.pscale. cbn [map PolySpec.padd]. apply peq_cons; [rewrite A2, M2; reflexivity|exact T4].
  Qed.
  (* (a + X p)^2 = a^2 + X (2 a p + X p^2) *)
  Lemma pmul_square_cons a p :
    peq (pmul (a :: p) (a :: p)) ((a * a) :: padd (pscale ((1 + 1) * a) p) (0 :: pmul p p)).
  Proof.
    apply peq_intro. intros k. rewrite coeff_pmul_cons. destruct k as [|k].
    - rewrite !coeff_cons_0. ring.
    - rewrite !coeff_cons_S, pmul_cons_r, coeff_padd, coeff_pscale. destruct k as [|k].
      + rewrite !coeff_cons_0. ring.
      + rewrite !coeff_cons_S. ring.
  Qed.
  Lemma sq_rows_spec cs rest : okl cs -> okl rest -> (2 * length cs <= length rest + 1)%nat ->
    exists r, sq_rows o cs rest = Some r /\ okl r /\ length r = length rest /\
              peq (D r) (padd (D rest) (pmul (D cs) (D cs))).
  Proof.
    revert rest. induction cs as [|ci cs IH]; intros rest Hc Hr Hlen.
    - exists rest. split; [reflexivity|]. split; [exact Hr|]. split; [reflexivity|]. cbn [map PolySpec.pmul].
      rewrite padd_nil_r. reflexivity.
    - destruct rest as [|r0 rt]; [cbn [length] in Hlen; lia|]. inversion Hc as [|? ? Hci Hcs]; inversion Hr as [|? ? Hr0 Hrt]; subst.
      cbn [sq_rows].
      destruct (fo_add _ _ _ _ H _ _ (ok1 o fk ok den H) (ok1 o fk ok den H)) as [W1 W2].
      destruct (fo_mul _ _ _ _ H _ ci W1 Hci) as [X1 X2].
      destruct (add_row_opt_spec (fmul o (fadd o (fone o) (fone o)) ci) cs rt X1 Hcs Hrt ltac:(cbn [length] in Hlen; lia))
        as [rt' [T1 [T2 [T3 T4]]]].
      rewrite T1.
      destruct (fo_mul _ _ _ _ H ci ci Hci Hci) as [Q1 Q2].
      destruct (fo_add _ _ _ _ H r0 _ Hr0 Q1) as [P1 P2].
      rewrite X2, W2, (den1 o fk ok den H) in T4.
      destruct rt' as [|r1 rest'].
      + (* rt = [] hence cs = [] *)
        destruct rt; [|discriminate]. destruct cs; [|cbn [length] in Hlen; lia]. cbn [sq_rows].
        eexists. split; [reflexivity|]. split; [constructor; [exact P1|constructor]|]. split; [reflexivity|].
        cbn [map]. rewrite pmul_square_cons. apply peq_intro. intros [|[|k]];
          rewrite ?coeff_padd, ?coeff_cons_0, ?coeff_cons_S, ?coeff_padd, ?coeff_pscale, ?coeff_nil, ?coeff_cons_0, ?coeff_cons_S, ?coeff_nil, ?P2, ?Q2; try ring.
        rewrite coeff_pmul_nil. ring.
      + inversion T2 as [|? ? Hr1 Hrest']; subst. cbn [length] in T3.
        destruct (IH rest' Hcs Hrest' ltac:(cbn [length] in Hlen; lia)) as [t [S1 [S2 [S3 S4]]]].
        rewrite S1. eexists. split; [reflexivity|]. split; [constructor; [exact P1|constructor; assumption]|].
        split; [cbn [length]; lia|].
        cbn [map]. cbn [map] in T4. rewrite pmul_square_cons.
        apply peq_intro. intros [|k].
        * rewrite coeff_padd, !coeff_cons_0, P2, Q2. reflexivity.
        * rewrite coeff_padd, !coeff_cons_S, coeff_padd.
          pose proof (peq_elim fk _ _ T4 k) as T4k. rewrite coeff_padd in T4k.
          transitivity (coeff fk (den r1 :: D rest') k + coeff fk (0 :: pmul (D cs) (D cs)) k); [|rewrite T4k; ring].
          destruct k as [|k].
          -- rewrite !coeff_cons_0. ring.
          -- rewrite !coeff_cons_S, (peq_elim fk _ _ S4 k), coeff_padd. ring.
  Qed.

  Theorem slow_square_v0_spec l : okl l -> nostored l ->
    exists r, poly_slow_square_v0 o l = Some r /\ good (pmul (D l) (D l)) r.
  Proof.
    intros Hl Hn. unfold poly_slow_square_v0. destruct (poly_degree o l =? -1) eqn:E.
    - apply Z.eqb_eq in E. exists []. split; [reflexivity|]. unfold nostored in Hn. rewrite E in Hn.
      destruct l; [|unfold zlen in Hn; cbn [length] in Hn; lia].
      split; [constructor|]. split; [reflexivity|]. reflexivity.
    - apply Z.eqb_neq in E. pose proof (degree_ge o l) as G.
      destruct (sq_rows_spec l (zrepeat (fzero o) (poly_degree o l * 2 + 1)%Z) Hl
                  (Forall_zrepeat _ _ _ (ok0 o fk ok den H))) as [r [R1 [R2 [R3 R4]]]].
      { unfold zrepeat. rewrite repeat_length. unfold nostored, zlen in Hn. lia. }
      exists r. split; [exact R1|]. split; [exact R2|].
      assert (PE : peq (D r) (pmul (D l) (D l))).
      { rewrite R4, map_zrepeat, (den0 o fk ok den H). unfold zrepeat.
        transitivity (padd [] (pmul (D l) (D l))); [|reflexivity]. apply padd_peq; [|reflexivity].
        apply peq_nil_pzero. intros i. apply coeff_repeat0. }
      split; [|exact PE]. unfold nostored.
      rewrite (degree_pdeg o fk ok den H r R2), (pdeg_peq fk _ _ PE).
      rewrite (degree_pdeg o fk ok den H l Hl) in *. rewrite pdeg_pmul by lia.
      unfold zlen. rewrite R3. unfold zrepeat. rewrite repeat_length. lia.
  Qed.
  (* the code after the repair: no hypothesis on the storage *)
  Theorem slow_square_v1_spec l : okl l -> exists r, poly_slow_square_v1 o l = Some r /\ good (pmul (D l) (D l)) r.
  Proof.
    intros Hl. unfold poly_slow_square_v1. destruct (good_normalize l Hl) as [N1 [N2 N3]].
    destruct (slow_square_v0_spec _ N1 N2) as [r [R1 R2]]. exists r. split; [exact R1|].
    apply (good_peq (pmul (D (poly_normalize o l)) (D (poly_normalize o l)))); [rewrite N3; reflexivity|exact R2].
  Qed.
  (* the schoolbook arm of `square` after the repair *)
  Theorem square_v1_slow_arm ntt intt l : okl l -> (poly_degree o l * 2 + 1 <= SQUARE_FAST_CUTOFF_LEN)%Z ->
    exists r, poly_square_v1 o ntt intt l = Some r /\ good (pmul (D l) (D l)) r.
  Proof.
    intros Hl Hc. unfold poly_square_v1. destruct (slow_square_v1_spec l Hl) as [r [R1 R2]]. exists r. split; [|exact R2].
    unfold poly_slow_square_v1, poly_slow_square_v0 in R1. rewrite (degree_normalize l Hl) in R1.
    destruct (poly_degree o l =? -1); [exact R1|].
    destruct (poly_degree o l * 2 + 1 >? SQUARE_FAST_CUTOFF_LEN)%Z eqn:E; [apply Z.gtb_lt in E; lia|]. exact R1.
  Qed.

  (* ---- square-and-multiply *)
  Lemma good_one : good (pone fk) (poly_one o).
  Proof.
    split; [apply (one_ok o fk ok den H)|]. split; [|rewrite (one_D o fk ok den H); reflexivity].
    unfold nostored, poly_degree, poly_one. rewrite normalize_cons, normalize_nil.
    assert (E : fis_zero o (fone o) = false).
    { apply (is0_false_iff o fk ok den H); [exact (ok1 o fk ok den H)|]. rewrite (den1 o fk ok den H). apply k1_neq_0. }
    rewrite E. reflexivity.
  Qed.
  Lemma bit_step e k : (0 <= e)%Z ->
    (e mod 2 ^ (Z.of_nat (S k)) = (if Z.testbit e (Z.of_nat k) then 2 ^ Z.of_nat k else 0) + e mod 2 ^ Z.of_nat k)%Z.
  Proof.
    intros He. rewrite Nat2Z.inj_succ, Z.pow_succ_r by lia. rewrite (Z.mul_comm 2).
    rewrite Z.rem_mul_r by lia.
    pose proof (Z.testbit_spec' e (Z.of_nat k) ltac:(lia)) as T. destruct (Z.testbit e (Z.of_nat k)); cbn [Z.b2z] in T; rewrite <- T; lia.
  Qed.
  (* generic in the invariant G relating the accumulator to the polynomial it represents *)
  Section PowGen.
    Variable G : list K -> list F -> Prop.
    Hypothesis G_peq : forall p q acc, peq p q -> G p acc -> G q acc.
    Hypothesis G_one : G (pone fk) (poly_one o).
    Hypothesis G_nil : forall p, pzero fk p -> G p [].
    Lemma pow_go_spec sq mulself base :
      (forall acc p, G p acc -> exists r, sq acc = Some r /\ G (pmul p p) r) ->
      (forall acc p, G p acc -> exists r, mulself acc = Some r /\ G (pmul p base) r) ->
      forall k e acc n, (0 <= e)%Z -> G (ppow fk base n) acc ->
      exists r, pow_go sq mulself k e acc = Some r /\
                G (ppow fk base (n * 2 ^ k + Z.to_nat (e mod 2 ^ Z.of_nat k))%nat) r.
    Proof.
      intros Hsq Hmu. induction k as [|k IH]; intros e acc n He G0.
      - exists acc. split; [reflexivity|]. rewrite Z.mod_1_r. cbn [Z.to_nat Nat.pow].
        replace (n * 1 + 0)%nat with n by lia. exact G0.
      - cbn [pow_go]. destruct (Hsq acc _ G0) as [acc1 [S1 S2]]. rewrite S1.
        assert (G2 : G (ppow fk base (n + n)) acc1).
        { apply (G_peq (pmul (ppow fk base n) (ppow fk base n))); [symmetry; apply ppow_add|exact S2]. }
        destruct (Z.testbit e (Z.of_nat k)) eqn:B.
        + destruct (Hmu acc1 _ G2) as [acc2 [M1 M2]]. rewrite M1.
          assert (G3 : G (ppow fk base (n + n + 1)) acc2).
          { apply (G_peq (pmul (ppow fk base (n + n)) base)); [|exact M2].
            rewrite (ppow_add fk base (n + n) 1). apply pmul_peq; [reflexivity|]. symmetry. apply ppow_1. }
          destruct (IH e acc2 _ He G3) as [r [R1 R2]]. exists r. split; [exact R1|].
          rewrite (bit_step e k He), B.
          replace (n * 2 ^ S k + Z.to_nat (2 ^ Z.of_nat k + e mod 2 ^ Z.of_nat k))%nat
            with ((n + n + 1) * 2 ^ k + Z.to_nat (e mod 2 ^ Z.of_nat k))%nat; [exact R2|].
          pose proof (Z.mod_pos_bound e (2 ^ Z.of_nat k) ltac:(lia)).
          rewrite Z2Nat.inj_add by lia. rewrite Z2Nat.inj_pow by lia. rewrite Nat2Z.id. cbn [Nat.pow]. change (Z.to_nat 2) with 2%nat. lia.
        + destruct (IH e acc1 _ He G2) as [r [R1 R2]]. exists r. split; [exact R1|].
          rewrite (bit_step e k He), B. rewrite Z.add_0_l.
          replace (n * 2 ^ S k)%nat with ((n + n) * 2 ^ k)%nat by (cbn [Nat.pow]; lia). exact R2.
    Qed.
    Theorem pow_with_spec sq mulself l e : okl l -> (0 <= e)%Z ->
      (forall acc p, G p acc -> exists r, sq acc = Some r /\ G (pmul p p) r) ->
      (forall acc p, G p acc -> exists r, mulself acc = Some r /\ G (pmul p (D l)) r) ->
      exists r, poly_pow_with o sq mulself l e = Some r /\ G (ppow fk (D l) (Z.to_nat e)) r.
    Proof.
      intros Hl He Hsq Hmu. unfold poly_pow_with. destruct (e =? 0)%Z eqn:E0.
      - apply Z.eqb_eq in E0. subst e. exists (poly_one o). split; [reflexivity|]. exact G_one.
      - apply Z.eqb_neq in E0. destruct (poly_degree o l <? 0)%Z eqn:Ed.
        + apply Z.ltb_lt in Ed. exists []. split; [reflexivity|]. apply G_nil.
          apply (degree_neg_pzero o fk ok den H l Hl) in Ed.
          destruct (Z.to_nat e) eqn:En; [lia|]. cbn [ppow]. apply pmul_pzero_l. exact Ed.
        + destruct (pow_go_spec sq mulself (D l) Hsq Hmu (Z.to_nat (bitlen e)) e (poly_one o) O He) as [r [R1 R2]].
          { cbn [ppow]. exact G_one. }
          exists r. split; [exact R1|].
          replace (Z.to_nat e) with (0 * 2 ^ Z.to_nat (bitlen e) + Z.to_nat (e mod 2 ^ Z.of_nat (Z.to_nat (bitlen e))))%nat; [exact R2|].
          unfold bitlen. rewrite (proj2 (Z.eqb_neq e 0) E0).
          pose proof (Z.log2_nonneg e). rewrite Z2Nat.id by lia.
          rewrite Z.mod_small; [lia|]. split; [lia|]. apply Z.log2_lt_pow2; lia.
    Qed.
  End PowGen.

  (* the weaker invariant that suffices for the repaired code *)
  Definition repr (p : list K) (acc : list F) : Prop := okl acc /\ peq (D acc) p.
  Lemma repr_peq p q acc : peq p q -> repr p acc -> repr q acc.
  Proof. intros E [G1 G2]. split; [exact G1|]. rewrite G2. exact E. Qed.
  Lemma repr_one : repr (pone fk) (poly_one o).
  Proof. split; [apply (one_ok o fk ok den H)|rewrite (one_D o fk ok den H); reflexivity]. Qed.
  Lemma repr_nil p : pzero fk p -> repr p [].
  Proof. intros Z. split; [constructor|]. cbn [map]. symmetry. apply peq_nil_pzero. exact Z. Qed.
  Lemma good_nil p : pzero fk p -> good p [].
  Proof. intros Z. split; [constructor|]. split; [reflexivity|]. cbn [map]. symmetry. apply peq_nil_pzero. exact Z. Qed.
  Lemma good_repr p acc : good p acc -> repr p acc.
  Proof. intros [G1 [_ G3]]. split; assumption. Qed.

  (* pow = repeated product (slow_square after the repair, and the naive product, as in the code) *)
  Theorem pow_spec l e : okl l -> (0 <= e)%Z ->
    exists r, poly_pow o l e = Some r /\ okl r /\ peq (D r) (ppow fk (D l) (Z.to_nat e)).
  Proof.
    intros Hl He. unfold poly_pow.
    destruct (pow_with_spec repr repr_peq repr_one repr_nil (poly_slow_square o) (fun acc => Some (poly_mul o acc l)) l e Hl He)
      as [r [R1 [R2 R3]]].
    - intros acc p [G1 G3]. unfold poly_slow_square. destruct (slow_square_v1_spec acc G1) as [r [R1 R2]].
      exists r. split; [exact R1|]. apply (repr_peq (pmul (D acc) (D acc))); [rewrite G3; reflexivity|apply good_repr; exact R2].
    - intros acc p [G1 G3]. eexists. split; [reflexivity|]. unfold poly_mul.
      destruct (naive_multiply_spec acc l G1 Hl) as [S1 S2]. split; [exact S1|]. rewrite S2, G3. reflexivity.
    - exists r. split; [exact R1|]. split; assumption.
  Qed.
  (* the same theorem for the code BEFORE the repair needs the stronger invariant (no stored zero in the accumulator):
     pow never hit the slow_square panic because every intermediate result is stored without leading zeros *)
  Theorem pow_v0_spec l e : okl l -> (0 <= e)%Z ->
    exists r, poly_pow_with o (poly_slow_square_v0 o) (fun acc => Some (poly_mul o acc l)) l e = Some r /\
              okl r /\ peq (D r) (ppow fk (D l) (Z.to_nat e)).
  Proof.
    intros Hl He.
    destruct (pow_with_spec good good_peq good_one good_nil (poly_slow_square_v0 o) (fun acc => Some (poly_mul o acc l)) l e Hl He)
      as [r [R1 [R2 [_ R3]]]].
    - intros acc p [G1 [G2 G3]]. destruct (slow_square_v0_spec acc G1 G2) as [r [R1 R2]].
      exists r. split; [exact R1|]. apply (good_peq (pmul (D acc) (D acc))); [rewrite G3; reflexivity|exact R2].
    - intros acc p G0. eexists. split; [reflexivity|]. unfold poly_mul. apply naive_multiply_good; [exact G0|exact Hl|reflexivity].
    - exists r. split; [exact R1|]. split; assumption.
  Qed.
End Same.

(* ------------------------------------------------------------------ batch products: the chunks-of-two loop and the
   thread-count dependent chunking terminate and return the product of the list, for ANY pairwise product `mult`
   that is total and correct on operands whose stored lengths sum to at most `B` (B bounds the NTT domain). *)
Fixpoint total_len {F} (ps : list (list F)) : Z :=
  match ps with [] => 0%Z | p :: r => (zlen p + total_len r)%Z end.
Lemma total_len_nonneg {F} (ps : list (list F)) : (0 <= total_len ps)%Z.
Proof. induction ps as [|p ps IH]; cbn [total_len]; [lia|]. pose proof (zlen_nonneg p). lia. Qed.
Lemma total_len_app {F} (a b : list (list F)) : total_len (a ++ b) = (total_len a + total_len b)%Z.
Proof. induction a as [|p a IH]; cbn [app total_len]; [lia|]. rewrite IH. lia. Qed.

Section Batch.
  Context {F K : Type} (o : fops F) (fk : fieldK K) (ok : F -> Prop) (den : F -> K).
  Hypothesis H : field_ok o fk ok den.
  Local Notation D := (map den).
  Local Notation okl := (Forall ok).
  Local Notation peq := (peq fk).
  Local Notation pmul := (pmul fk).
  Local Notation pprod := (pprod fk).

  Variable B : Z.
  Variable mult : list F -> list F -> option (list F).
  Hypothesis Hmult : forall a b, okl a -> okl b -> (zlen a + zlen b <= B)%Z ->
    exists r, mult a b = Some r /\ okl r /\ (zlen r <= zlen a + zlen b)%Z /\ peq (D r) (pmul (D a) (D b)).

  Lemma chunks2_mul_spec n : forall ps, (length ps <= n)%nat -> Forall okl ps -> (total_len ps <= B)%Z ->
    exists ps', chunks2_mul mult ps = Some ps' /\ Forall okl ps' /\ (total_len ps' <= total_len ps)%Z /\
                (2 * length ps' <= length ps + 1)%nat /\ (ps <> [] -> ps' <> []) /\
                peq (pprod (map D ps')) (pprod (map D ps)).
  Proof.
    induction n as [|n IH]; intros ps Hn Hok Hb.
    - destruct ps; [|cbn [length] in Hn; lia]. exists []. cbn. repeat split; try lia; try constructor; try reflexivity. intros X; exact X.
    - destruct ps as [|a [|b r]].
      + exists []. cbn. repeat split; try lia; try constructor; try reflexivity. intros X; exact X.
      + exists [a]. cbn [chunks2_mul]. repeat split; try (cbn; lia); try assumption; try reflexivity. intros _; discriminate.
      + inversion Hok as [|? ? Ha Hok1]; subst. inversion Hok1 as [|? ? Hb' Hr]; subst.
        cbn [total_len] in Hb. pose proof (total_len_nonneg r) as Tr.
        destruct (Hmult a b Ha Hb' ltac:(lia)) as [p [P1 [P2 [P3 P4]]]].
        destruct (IH r ltac:(cbn [length] in Hn; lia) Hr ltac:(pose proof (zlen_nonneg a); pose proof (zlen_nonneg b); lia))
          as [t [T1 [T2 [T3 [T4 [T5 T6]]]]]].
        cbn [chunks2_mul]. rewrite P1, T1. exists (p :: t).
        split; [reflexivity|]. split; [constructor; assumption|].
        split; [cbn [total_len]; lia|].
        split; [cbn [length]; lia|]. split; [intros _; discriminate|].
        cbn [map]. rewrite !pprod_cons, T6, P4. symmetry. apply pmul_assoc.
  Qed.
  Lemma batch_go_spec fuel : forall ps, ps <> [] -> (length ps <= fuel)%nat -> Forall okl ps -> (total_len ps <= B)%Z ->
    exists r, batch_go mult fuel ps = Some r /\ okl r /\ (zlen r <= total_len ps)%Z /\ peq (D r) (pprod (map D ps)).
  Proof.
    induction fuel as [|fuel IH]; intros ps Hne Hf Hok Hb.
    - destruct ps; [congruence|cbn [length] in Hf; lia].
    - destruct ps as [|p [|q r]]; [congruence| |].
      + exists p. cbn [batch_go]. split; [reflexivity|]. inversion Hok; subst. split; [assumption|].
        split; [cbn [total_len]; lia|]. cbn [map]. rewrite pprod_cons, pprod_nil. symmetry. apply pmul_1_r.
      + destruct (chunks2_mul_spec (length (p :: q :: r)) (p :: q :: r) (le_n _) Hok Hb) as [ps' [C1 [C2 [C3 [C4 [C5 C6]]]]]].
        cbn [batch_go]. rewrite C1.
        destruct (IH ps' (C5 ltac:(discriminate)) ltac:(cbn [length] in *; lia) C2 ltac:(lia)) as [x [X1 [X2 [X3 X4]]]].
        exists x. split; [exact X1|]. split; [exact X2|]. split; [lia|]. rewrite X4. exact C6.
  Qed.
  (* batch_multiply: terminates (fuel = number of factors suffices) and returns the product of the list *)
  Theorem batch_multiply_with_spec ps : Forall okl ps -> (total_len ps <= B)%Z ->
    exists r, poly_batch_multiply_with o mult ps = Some r /\ okl r /\ (ps <> [] -> (zlen r <= total_len ps)%Z) /\
              peq (D r) (pprod (map D ps)).
  Proof.
    intros Hok Hb. unfold poly_batch_multiply_with. destruct ps as [|p ps].
    - exists (poly_one o). split; [reflexivity|]. split; [apply (one_ok o fk ok den H)|]. split; [congruence|].
      rewrite (one_D o fk ok den H). reflexivity.
    - destruct (batch_go_spec (length (p :: ps)) (p :: ps) ltac:(discriminate) (le_n _) Hok Hb) as [r [R1 [R2 [R3 R4]]]].
      exists r. split; [exact R1|]. split; [exact R2|]. split; [intros _; exact R3|exact R4].
  Qed.
End Batch.

(* slice::chunks *)
Lemma chunks_go_concat {A} fuel n (l : list A) : (1 <= n)%nat -> (length l <= fuel)%nat -> concat (chunks_go fuel n l) = l.
Proof.
  intros Hn. revert l. induction fuel as [|fuel IH]; intros l Hf.
  - destruct l; [reflexivity|cbn [length] in Hf; lia].
  - destruct l as [|x l]; [reflexivity|]. cbn [chunks_go concat]. rewrite IH.
    + apply firstn_skipn.
    + rewrite skipn_length. cbn [length] in *. lia.
Qed.
Lemma chunks_go_length {A} fuel n (l : list A) : (2 <= n)%nat -> (length l <= fuel)%nat ->
  (2 * length (chunks_go fuel n l) <= length l + 1)%nat /\ (l <> [] -> chunks_go fuel n l <> []).
Proof.
  intros Hn. revert l. induction fuel as [|fuel IH]; intros l Hf.
  - destruct l; [cbn; split; [lia|congruence]|cbn [length] in Hf; lia].
  - destruct l as [|x l]; [cbn; split; [lia|congruence]|]. cbn [chunks_go]. split; [|discriminate].
    destruct (IH (skipn n (x :: l))) as [I1 _]; [rewrite skipn_length; cbn [length] in *; lia|].
    cbn [length]. rewrite skipn_length in I1. cbn [length] in I1. lia.
Qed.
Lemma chunks_go_nonempty {A} fuel n (l : list A) : (1 <= n)%nat -> Forall (fun c => c <> []) (chunks_go fuel n l).
Proof.
  intros Hn. revert l. induction fuel as [|fuel IH]; intros l; [constructor|]. destruct l as [|x l]; [constructor|].
  cbn [chunks_go]. constructor; [|apply IH]. destruct n; [lia|]. discriminate.
Qed.
Lemma Forall_chunks_go {A} (P : A -> Prop) fuel n (l : list A) : Forall P l -> Forall (Forall P) (chunks_go fuel n l).
Proof.
  revert l. induction fuel as [|fuel IH]; intros l Hl; [constructor|]. destruct l as [|x l]; [constructor|].
  cbn [chunks_go]. constructor; [apply Forall_firstn; exact Hl|apply IH; apply Forall_skipn; exact Hl].
Qed.
Fixpoint total_len2 {F} (cs : list (list (list F))) : Z :=
  match cs with [] => 0%Z | c :: r => (total_len c + total_len2 r)%Z end.
Lemma total_len_concat {F} (cs : list (list (list F))) : total_len (concat cs) = total_len2 cs.
Proof. induction cs as [|c cs IH]; [reflexivity|]. cbn [concat total_len2]. rewrite total_len_app, IH. reflexivity. Qed.

Section ParBatch.
  Context {F K : Type} (o : fops F) (fk : fieldK K) (ok : F -> Prop) (den : F -> K).
  Hypothesis H : field_ok o fk ok den.
  Local Notation D := (map den).
  Local Notation okl := (Forall ok).
  Local Notation peq := (peq fk).
  Local Notation pmul := (pmul fk).
  Local Notation pprod := (pprod fk).
  Variable B : Z.
  Variable batch : list (list F) -> option (list F).
  Hypothesis Hbatch : forall ps, ps <> [] -> Forall okl ps -> (total_len ps <= B)%Z ->
    exists r, batch ps = Some r /\ okl r /\ (zlen r <= total_len ps)%Z /\ peq (D r) (pprod (map D ps)).

  Lemma pprod_concat (cs : list (list (list K))) : peq (pprod (concat cs)) (pprod (map pprod cs)).
  Proof.
    induction cs as [|c cs IH]; [reflexivity|]. cbn [concat map]. rewrite pprod_app, pprod_cons, IH. reflexivity.
  Qed.
  Lemma map_opt_batch_spec (cs : list (list (list F))) : Forall (Forall okl) cs -> Forall (fun c => c <> []) cs ->
    (total_len2 cs <= B)%Z ->
    exists ps', map_opt batch cs = Some ps' /\ Forall okl ps' /\ length ps' = length cs /\
                (total_len ps' <= total_len2 cs)%Z /\
                peq (pprod (map D ps')) (pprod (map D (concat cs))).
  Proof.
    induction cs as [|c cs IH]; intros Hok Hne Hb.
    - exists []. cbn. repeat split; try constructor; try lia; reflexivity.
    - inversion Hok as [|? ? Hc Hcs]; inversion Hne as [|? ? Nc Ncs]; subst. cbn [total_len2] in Hb.
      pose proof (total_len_nonneg c). assert (T2 : (0 <= total_len2 cs)%Z).
      { clear. induction cs as [|x cs IH]; cbn [total_len2]; [lia|]. pose proof (total_len_nonneg x). lia. }
      destruct (Hbatch c Nc Hc ltac:(lia)) as [r [R1 [R2 [R3 R4]]]].
      destruct (IH Hcs Ncs ltac:(lia)) as [t [T1 [T3 [T4 [T5 T6]]]]].
      cbn [map_opt]. rewrite R1, T1. exists (r :: t). split; [reflexivity|]. split; [constructor; assumption|].
      split; [cbn [length]; lia|]. split; [cbn [total_len total_len2]; lia|].
      cbn [map concat]. rewrite map_app, pprod_app, pprod_cons, T6, R4. reflexivity.
  Qed.
  Lemma par_batch_go_spec nt fuel : (1 <= nt)%Z -> forall ps, ps <> [] -> (length ps <= fuel)%nat -> Forall okl ps ->
    (total_len ps <= B)%Z ->
    exists r, par_batch_go batch nt fuel ps = Some r /\ okl r /\ peq (D r) (pprod (map D ps)).
  Proof.
    intros Hnt. induction fuel as [|fuel IH]; intros ps Hne Hf Hok Hb.
    - destruct ps; [congruence|cbn [length] in Hf; lia].
    - destruct ps as [|p [|q r]]; [congruence| |].
      + exists p. cbn [par_batch_go]. split; [reflexivity|]. inversion Hok; subst. split; [assumption|].
        cbn [map]. rewrite pprod_cons, pprod_nil. symmetry. apply pmul_1_r.
      + cbn [par_batch_go]. destruct (nt <=? 0)%Z eqn:E; [apply Z.leb_le in E; lia|].
        set (ps := p :: q :: r) in *. set (cs := Z.max 2 (zlen ps / nt)).
        assert (Hcs : (2 <= Z.to_nat cs)%nat) by (unfold cs; lia).
        unfold chunks.
        pose proof (chunks_go_concat (length ps) (Z.to_nat cs) ps ltac:(lia) (le_n _)) as CC.
        destruct (chunks_go_length (length ps) (Z.to_nat cs) ps Hcs (le_n _)) as [CL CN].
        destruct (map_opt_batch_spec (chunks_go (length ps) (Z.to_nat cs) ps)) as [ps' [M1 [M2 [M3 [M4 M5]]]]].
        * apply Forall_chunks_go. exact Hok.
        * apply chunks_go_nonempty. lia.
        * rewrite <- total_len_concat, CC. exact Hb.
        * rewrite M1. rewrite <- total_len_concat, CC in M4. rewrite CC in M5.
          assert (Hps' : ps' <> []).
          { intros ->. cbn [length] in M3. specialize (CN ltac:(discriminate)).
            destruct (chunks_go (length ps) (Z.to_nat cs) ps); [congruence|discriminate]. }
          destruct (IH ps' Hps' ltac:(subst ps; cbn [length] in *; lia) M2 ltac:(lia)) as [x [X1 [X2 X3]]].
          exists x. split; [exact X1|]. split; [exact X2|]. rewrite X3. exact M5.
  Qed.
  (* par_batch_multiply: for EVERY thread count nt >= 1 *)
  Theorem par_batch_multiply_with_spec nt ps : (1 <= nt)%Z -> Forall okl ps -> (total_len ps <= B)%Z ->
    exists r, poly_par_batch_multiply_with o batch nt ps = Some r /\ okl r /\ peq (D r) (pprod (map D ps)).
  Proof.
    intros Hnt Hok Hb. unfold poly_par_batch_multiply_with. destruct ps as [|p ps].
    - exists (poly_one o). split; [reflexivity|]. split; [apply (one_ok o fk ok den H)|].
      rewrite (one_D o fk ok den H). reflexivity.
    - apply (par_batch_go_spec nt (length (p :: ps)) Hnt (p :: ps) ltac:(discriminate) (le_n _) Hok Hb).
  Qed.
End ParBatch.

(* ------------------------------------------------------------------ NTT-based products.
   `ntt`/`intt` are parameters of the model; here they are constrained by Section hypotheses that are exactly
   the C06 theorems (proofs/NttProofs.v: ntt_is_dft, intt_is_idft with hS omega =: wr l, roots_exact_order for
   half_root / non-zero; proofs/NttDft.v: idft_dft).  What is proved HERE is the degree bookkeeping: the domain
   length next_power_of_two(deg a + deg b + 1) is large enough for the cyclic convolution not to wrap, the resize
   only cuts stored zeros (or multiplies by the zero polynomial), truncate(degree + 1) cuts only zeros. *)
From TF Require Import Dft NttDft.

Section DftEval.
  Context {K : Type} (fk : fieldK K).
  Local Notation "0" := (k0 fk).
  Local Infix "+" := (kadd fk).
  Local Infix "*" := (kmul fk).
  Add Field kfield_PolyCoreProofs_DftEval : (kFT fk).

  Lemma peval_ksum v x : peval fk v x = ksum fk (fun j => coeff fk v j * kpow fk x j) (length v).
  Proof.
    induction v as [|a v IH]; [reflexivity|]. cbn [peval length]. rewrite ksum_S_l, IH, <- ksum_mul_l.
    rewrite coeff_cons_0. cbn [kpow]. f_equal; [ring|]. apply ksum_ext. intros j _. rewrite coeff_cons_S. cbn [kpow]. ring.
  Qed.
  (* the DFT is the list of evaluations at the powers of w *)
  Lemma dft_at_peval w v i : dft_at fk w v i = peval fk v (kpow fk w i).
  Proof. unfold dft_at. rewrite peval_ksum. apply ksum_ext. intros j _. rewrite kpow_mul. reflexivity. Qed.

  (* truncation / zero padding to length n (Vec::resize) at the level of denotations *)
  Definition ptrunc (n : nat) (p : list K) : list K := firstn n p ++ repeat 0 (n - length p).
  Lemma ptrunc_length n p : length (ptrunc n p) = n.
  Proof. unfold ptrunc. rewrite app_length, firstn_length, repeat_length. lia. Qed.
  Lemma coeff_ptrunc n p i : coeff fk (ptrunc n p) i = if (i <? n)%nat then coeff fk p i else 0.
  Proof.
    unfold ptrunc. destruct (Nat.lt_ge_cases i (length (firstn n p))) as [L|G].
    - rewrite coeff_app_l by exact L. rewrite coeff_firstn. reflexivity.
    - rewrite coeff_app_r by exact G. rewrite coeff_repeat0. rewrite firstn_length in G.
      destruct (i <? n)%nat eqn:E; [|reflexivity]. apply Nat.ltb_lt in E. symmetry. apply coeff_overflow. lia.
  Qed.
  Lemma ptrunc_peq n p : (pdeg fk p < Z.of_nat n)%Z -> peq fk (ptrunc n p) p.
  Proof.
    intros Hd. apply peq_intro. intros i. rewrite coeff_ptrunc. destruct (i <? n)%nat eqn:E; [reflexivity|].
    apply Nat.ltb_ge in E. symmetry. apply coeff_above_pdeg. lia.
  Qed.
  Lemma ptrunc_pzero n p : pzero fk p -> pzero fk (ptrunc n p).
  Proof. intros Z i. rewrite coeff_ptrunc. destruct (i <? n)%nat; [apply Z|reflexivity]. Qed.

  (* two lists of the same length with the same entries *)
  Lemma list_eq_nth (a b : list K) : length a = length b -> (forall i, (i < length a)%nat -> nth i a 0 = nth i b 0) -> a = b.
  Proof.
    revert b. induction a as [|x a IH]; intros [|y b] Hl Hn; try discriminate; [reflexivity|].
    f_equal; [exact (Hn O ltac:(cbn; lia))|]. apply IH; [cbn in Hl; lia|]. intros i Hi. exact (Hn (S i) ltac:(cbn; lia)).
  Qed.
  (* convolution theorem in the form needed: if the product fits into n coefficients, the pointwise product of the
     two transforms is the transform of the (padded) product *)
  Lemma dft_hadamard w n (A B : list K) : length A = n -> length B = n ->
    (forall i, (n <= i)%nat -> coeff fk (pmul fk A B) i = 0) ->
    map2 (kmul fk) (dft fk w A) (dft fk w B) = dft fk w (ptrunc n (pmul fk A B)).
  Proof.
    intros LA LB Hfit. apply list_eq_nth.
    - rewrite dft_length, ptrunc_length.
      assert (G : forall (x y : list K), length x = length y -> length (map2 (kmul fk) x y) = length x).
      { induction x as [|c x IH]; intros [|d y] E; try discriminate; [reflexivity|]. cbn [map2 length]. rewrite IH; [reflexivity|cbn in E; lia]. }
      rewrite G by (rewrite !dft_length; lia). rewrite dft_length. exact LA.
    - intros i Hi.
      assert (G : forall (x y : list K) i, (i < length x)%nat -> (i < length y)%nat ->
                  nth i (map2 (kmul fk) x y) 0 = nth i x 0 * nth i y 0).
      { induction x as [|c x IH]; intros [|d y] [|j] H1 H2; cbn [length] in *; try lia; [reflexivity|].
        cbn [map2 nth]. apply IH; lia. }
      assert (Hin : (i < n)%nat).
      { revert Hi. clear -LA LB. intros Hi.
        assert (G' : forall (x y : list K), (length (map2 (kmul fk) x y) <= length x)%nat).
        { induction x as [|c x IH]; intros [|d y]; cbn [map2 length]; try lia. specialize (IH y). lia. }
        specialize (G' (dft fk w A) (dft fk w B)). rewrite dft_length in G'. lia. }
      rewrite G by (rewrite dft_length; lia).
      rewrite !dft_nth by (rewrite ?ptrunc_length; lia). rewrite !dft_at_peval.
      rewrite <- peval_pmul. apply peval_peq. apply peq_intro. intros j. rewrite coeff_ptrunc.
      destruct (j <? n)%nat eqn:E; [reflexivity|]. apply Nat.ltb_ge in E. apply Hfit. exact E.
  Qed.
End DftEval.

Lemma next_pow2_spec m : (1 <= m)%Z -> exists l : nat, next_pow2 m = (2 ^ Z.of_nat l)%Z /\ (m <= 2 ^ Z.of_nat l)%Z /\
  (forall L : nat, (m <= 2 ^ Z.of_nat L)%Z -> (l <= L)%nat).
Proof.
  intros Hm. unfold next_pow2. destruct (m <=? 1)%Z eqn:E.
  - apply Z.leb_le in E. exists O. split; [reflexivity|]. split; [cbn; lia|]. intros; lia.
  - apply Z.leb_gt in E. pose proof (Z.log2_nonneg (m - 1)) as Hn. exists (Z.to_nat (Z.log2 (m - 1) + 1)).
    rewrite Z2Nat.id by lia. split; [reflexivity|]. split.
    + pose proof (Z.log2_spec (m - 1) ltac:(lia)) as [_ S2]. replace (Z.log2 (m - 1) + 1)%Z with (Z.succ (Z.log2 (m - 1))) by lia. lia.
    + intros L HL. destruct (Nat.le_gt_cases (Z.to_nat (Z.log2 (m - 1) + 1)) L) as [X|X]; [exact X|exfalso].
      assert (Z.of_nat L <= Z.log2 (m - 1))%Z by lia.
      pose proof (Z.log2_spec (m - 1) ltac:(lia)) as [S1 _].
      assert (2 ^ Z.of_nat L <= 2 ^ Z.log2 (m - 1))%Z by (apply Z.pow_le_mono_r; lia). lia.
Qed.

Section Fast.
  Context {F1 F2 F3 K : Type} (o1 : fops F1) (o2 : fops F2) (o3 : fops F3) (fk : fieldK K).
  Context (ok1 : F1 -> Prop) (ok2 : F2 -> Prop) (ok3 : F3 -> Prop) (den1 : F1 -> K) (den2 : F2 -> K) (den3 : F3 -> K).
  Hypothesis H1 : field_ok o1 fk ok1 den1.
  Hypothesis H2 : field_ok o2 fk ok2 den2.
  Hypothesis H3 : field_ok o3 fk ok3 den3.
  Variable mul12 : F1 -> F2 -> F3.
  Hypothesis Hmul : forall x y, ok1 x -> ok2 y -> ok3 (mul12 x y) /\ den3 (mul12 x y) = kmul fk (den1 x) (den2 y).
  Variable ntt1 : list F1 -> option (list F1).
  Variable ntt2 : list F2 -> option (list F2).
  Variable intt3 : list F3 -> option (list F3).
  (* the C06 theorems, for transform lengths 2^l with l <= lmax (lmax = 31 in NttProofs.ntt_is_dft) *)
  Variable lmax : nat.
  Variable wr : nat -> K.
  Hypothesis ntt1_is_dft : forall l x, (l <= lmax)%nat -> length x = (2 ^ l)%nat -> Forall ok1 x ->
    exists y, ntt1 x = Some y /\ Forall ok1 y /\ length y = length x /\ map den1 y = dft fk (wr l) (map den1 x).
  Hypothesis ntt2_is_dft : forall l x, (l <= lmax)%nat -> length x = (2 ^ l)%nat -> Forall ok2 x ->
    exists y, ntt2 x = Some y /\ Forall ok2 y /\ length y = length x /\ map den2 y = dft fk (wr l) (map den2 x).
  Hypothesis intt3_is_idft : forall l x, (l <= lmax)%nat -> length x = (2 ^ l)%nat -> Forall ok3 x ->
    exists y, intt3 x = Some y /\ Forall ok3 y /\ length y = length x /\ map den3 y = idft fk (wr l) (map den3 x).
  Hypothesis wr_half_root : forall l, (l <= lmax)%nat -> half_root fk (wr l) l.
  Hypothesis wr_nonzero : forall l, (l <= lmax)%nat -> wr l <> k0 fk.
  Hypothesis two_nz : two_neq_0 fk.

  Local Notation "0" := (k0 fk).
  Local Notation D1 := (map den1).
  Local Notation D2 := (map den2).
  Local Notation D3 := (map den3).
  Local Notation peq := (peq fk).
  Local Notation pmul := (pmul fk).

  Lemma resize_D {F} (o : fops F) (ok : F -> Prop) (den : F -> K) (Ho : field_ok o fk ok den) (l : list F) (n : nat) :
    Forall ok l -> Forall ok (resize l (Z.of_nat n) (fzero o)) /\ length (resize l (Z.of_nat n) (fzero o)) = n /\
    map den (resize l (Z.of_nat n) (fzero o)) = ptrunc fk n (map den l).
  Proof.
    intros Hl. unfold resize, take, zrepeat, ptrunc, zlen. rewrite Nat2Z.id.
    replace (Z.to_nat (Z.of_nat n - Z.of_nat (length l))) with (n - length l)%nat by lia. split; [|split].
    - apply Forall_app. split; [apply Forall_firstn; exact Hl|]. apply Forall_forall. intros x Hx. apply repeat_spec in Hx. subst.
      exact (ok0 o fk ok den Ho).
    - rewrite app_length, firstn_length, repeat_length. lia.
    - rewrite map_app, firstn_map, map_repeat', (den0 o fk ok den Ho), map_length. reflexivity.
  Qed.
  Lemma map2_D la lb : Forall ok1 la -> Forall ok2 lb ->
    Forall ok3 (map2 mul12 la lb) /\ D3 (map2 mul12 la lb) = map2 (kmul fk) (D1 la) (D2 lb).
  Proof.
    revert lb. induction la as [|x la IH]; intros [|y lb] Ha Hb; cbn [map2 map]; try (split; [constructor|reflexivity]).
    inversion Ha; inversion Hb; subst. destruct (IH lb ltac:(assumption) ltac:(assumption)) as [I1 I2].
    destruct (Hmul x y ltac:(assumption) ltac:(assumption)) as [M1 M2]. split; [constructor; assumption|]. rewrite I2, M2. reflexivity.
  Qed.

  (* fast_multiply: the ring product, whenever the transform length is supported *)
  Theorem fast_multiply_gen_spec a b : Forall ok1 a -> Forall ok2 b ->
    (poly_degree o1 a + poly_degree o2 b + 1 <= 2 ^ Z.of_nat lmax)%Z ->
    exists r, poly_fast_multiply_gen o1 o2 mul12 ntt1 ntt2 intt3 a b = Some r /\ Forall ok3 r /\
              (zlen r <= Z.max 0 (poly_degree o1 a + poly_degree o2 b + 1))%Z /\
              peq (D3 r) (pmul (D1 a) (D2 b)).
  Proof.
    intros Ha Hb Hsz. unfold poly_fast_multiply_gen.
    pose proof (degree_ge o1 a) as Ga. pose proof (degree_ge o2 b) as Gb.
    rewrite (degree_pdeg o1 fk ok1 den1 H1 a Ha) in *. rewrite (degree_pdeg o2 fk ok2 den2 H2 b Hb) in *.
    set (da := pdeg fk (D1 a)) in *. set (db := pdeg fk (D2 b)) in *.
    destruct (da + db <? 0)%Z eqn:E.
    - (* both zero, or zero and constant *)
      apply Z.ltb_lt in E. exists []. split; [reflexivity|]. split; [constructor|]. split; [cbn; lia|].
      cbn [map]. symmetry. apply peq_nil_pzero.
      destruct (Z.eq_dec da (-1)) as [Ea|Ea]; [apply pmul_pzero_l; apply pdeg_neg_iff; exact Ea|].
      apply pmul_pzero_r. apply pdeg_neg_iff. lia.
    - apply Z.ltb_ge in E. destruct (next_pow2_spec (da + db + 1) ltac:(lia)) as [l [N1 [N2 N3]]].
      pose proof (N3 lmax Hsz) as Hl. rewrite N1.
      assert (Epow : (2 ^ Z.of_nat l)%Z = Z.of_nat (2 ^ l)) by (rewrite Nat2Z.inj_pow; reflexivity). rewrite Epow.
      destruct (resize_D o1 ok1 den1 H1 a (2 ^ l) Ha) as [A1 [A2 A3]].
      destruct (resize_D o2 ok2 den2 H2 b (2 ^ l) Hb) as [B1 [B2 B3]].
      destruct (ntt1_is_dft l _ Hl A2 A1) as [la [LA1 [LA2 [LA3 LA4]]]].
      destruct (ntt2_is_dft l _ Hl B2 B1) as [lb [LB1 [LB2 [LB3 LB4]]]].
      rewrite LA1, LB1. destruct (map2_D la lb LA2 LB2) as [M1 M2].
      set (A := ptrunc fk (2 ^ l) (D1 a)) in *. set (B := ptrunc fk (2 ^ l) (D2 b)) in *.
      (* the product of the resized operands is the product of the operands and fits below da + db *)
      assert (PAB : peq (pmul A B) (pmul (D1 a) (D2 b)) /\ forall i, (Z.to_nat (da + db + 1) <= i)%nat -> coeff fk (pmul A B) i = 0).
      { destruct (Z.eq_dec da (-1)) as [Ea|Ea]; [|destruct (Z.eq_dec db (-1)) as [Eb|Eb]].
        - assert (ZA : pzero fk A) by (apply ptrunc_pzero, pdeg_neg_iff; exact Ea).
          split; [|intros i _; apply pmul_pzero_l; exact ZA].
          transitivity (@nil K); [apply peq_nil_pzero, pmul_pzero_l; exact ZA|].
          symmetry. apply peq_nil_pzero, pmul_pzero_l, pdeg_neg_iff. exact Ea.
        - assert (ZB : pzero fk B) by (apply ptrunc_pzero, pdeg_neg_iff; exact Eb).
          split; [|intros i _; apply pmul_pzero_r; exact ZB].
          transitivity (@nil K); [apply peq_nil_pzero, pmul_pzero_r; exact ZB|].
          symmetry. apply peq_nil_pzero, pmul_pzero_r, pdeg_neg_iff. exact Eb.
        - assert (EA : peq A (D1 a)) by (apply ptrunc_peq; fold da; lia).
          assert (EB : peq B (D2 b)) by (apply ptrunc_peq; fold db; lia).
          split; [rewrite EA, EB; reflexivity|]. intros i Hi. apply coeff_pmul_above.
          rewrite (pdeg_peq fk _ _ EA), (pdeg_peq fk _ _ EB). fold da db. lia. }
      destruct PAB as [PAB1 PAB2].
      assert (Hh : D3 (map2 mul12 la lb) = dft fk (wr l) (ptrunc fk (2 ^ l) (pmul A B))).
      { rewrite M2, LA4, LB4, A3, B3. fold A B. apply dft_hadamard.
        - apply ptrunc_length.
        - apply ptrunc_length.
        - intros i Hi. apply PAB2. lia. }
      assert (Lh : length (map2 mul12 la lb) = (2 ^ l)%nat).
      { apply (f_equal (@length K)) in Hh. rewrite map_length, dft_length, ptrunc_length in Hh. exact Hh. }
      destruct (intt3_is_idft l _ Hl Lh M1) as [h [I1 [I2 [I3 I4]]]]. rewrite I1.
      rewrite Hh, (idft_dft fk two_nz l (wr l) _ (ptrunc_length fk _ _) (wr_half_root l Hl) (wr_nonzero l Hl)) in I4.
      eexists. split; [reflexivity|]. split; [apply Forall_take; exact I2|].
      split; [rewrite zlen_take; lia|].
      rewrite map_take, I4. unfold take. rewrite <- PAB1. apply peq_intro. intros i.
      rewrite coeff_firstn, coeff_ptrunc.
      destruct (i <? Z.to_nat (da + db + 1))%nat eqn:E1.
      + apply Nat.ltb_lt in E1. destruct (i <? 2 ^ l)%nat eqn:E2; [reflexivity|]. apply Nat.ltb_ge in E2. lia.
      + apply Nat.ltb_ge in E1. symmetry. apply PAB2. exact E1.
  Qed.

  (* multiply: both arms of the dispatch (the threshold is whatever gen/PolyGen.v says) *)
  Theorem multiply_gen_spec a b : Forall ok1 a -> Forall ok2 b ->
    (poly_degree o1 a + poly_degree o2 b + 1 <= 2 ^ Z.of_nat lmax)%Z ->
    exists r, poly_multiply_gen o1 o2 o3 mul12 ntt1 ntt2 intt3 a b = Some r /\ Forall ok3 r /\
              (zlen r <= Z.max 0 (poly_degree o1 a + poly_degree o2 b + 1))%Z /\
              peq (D3 r) (pmul (D1 a) (D2 b)).
  Proof.
    intros Ha Hb Hsz. unfold poly_multiply_gen.
    destruct (poly_degree o1 a + poly_degree o2 b <? FAST_MULTIPLY_CUTOFF_THRESHOLD)%Z.
    - destruct (naive_multiply_gen_spec o1 o2 o3 fk ok1 ok2 ok3 den1 den2 den3 H1 H2 H3 mul12 Hmul a b Ha Hb) as [S1 S2].
      eexists. split; [reflexivity|]. split; [exact S1|]. split; [|exact S2].
      rewrite naive_multiply_gen_length with (fk := fk) (ok1 := ok1) (ok2 := ok2) (ok3 := ok3) (den1 := den1) (den2 := den2) (den3 := den3);
        [|exact Hmul].
      pose proof (degree_ge o1 a). pose proof (degree_ge o2 b).
      destruct ((poly_degree o1 a <? 0) || (poly_degree o2 b <? 0))%Z; lia.
    - apply fast_multiply_gen_spec; assumption.
  Qed.
End Fast.

(* ------------------------------------------------------------------ the same-field NTT family: multiply, fast_square,
   square, fast_pow, batch_multiply, par_batch_multiply (C06 hypotheses as in Section Fast) *)
Section FastSame.
  Context {F K : Type} (o : fops F) (fk : fieldK K) (ok : F -> Prop) (den : F -> K).
  Hypothesis H : field_ok o fk ok den.
  Variable ntt : list F -> option (list F).
  Variable intt : list F -> option (list F).
  Variable lmax : nat.
  Variable wr : nat -> K.
  Hypothesis ntt_is_dft : forall l x, (l <= lmax)%nat -> length x = (2 ^ l)%nat -> Forall ok x ->
    exists y, ntt x = Some y /\ Forall ok y /\ length y = length x /\ map den y = dft fk (wr l) (map den x).
  Hypothesis intt_is_idft : forall l x, (l <= lmax)%nat -> length x = (2 ^ l)%nat -> Forall ok x ->
    exists y, intt x = Some y /\ Forall ok y /\ length y = length x /\ map den y = idft fk (wr l) (map den x).
  Hypothesis wr_half_root : forall l, (l <= lmax)%nat -> half_root fk (wr l) l.
  Hypothesis wr_nonzero : forall l, (l <= lmax)%nat -> wr l <> k0 fk.
  Hypothesis two_nz : two_neq_0 fk.
  Local Notation D := (map den).
  Local Notation okl := (Forall ok).
  Local Notation peq := (peq fk).
  Local Notation pmul := (pmul fk).
  Local Notation pprod := (pprod fk).
  Local Notation repr := (repr fk ok den).
  Add Field kfield_PolyCoreProofs_FastSame : (kFT fk).

  Theorem multiply_spec a b : okl a -> okl b -> (poly_degree o a + poly_degree o b + 1 <= 2 ^ Z.of_nat lmax)%Z ->
    exists r, poly_multiply o ntt intt a b = Some r /\ okl r /\
              (zlen r <= Z.max 0 (poly_degree o a + poly_degree o b + 1))%Z /\ peq (D r) (pmul (D a) (D b)).
  Proof.
    intros Ha Hb Hsz. unfold poly_multiply.
    exact (multiply_gen_spec o o o fk ok ok ok den den den H H H (fmul o) (Hmul_same o fk ok den H) ntt ntt intt lmax wr
             ntt_is_dft ntt_is_dft intt_is_idft wr_half_root wr_nonzero two_nz a b Ha Hb Hsz).
  Qed.
  Theorem fast_multiply_spec a b : okl a -> okl b -> (poly_degree o a + poly_degree o b + 1 <= 2 ^ Z.of_nat lmax)%Z ->
    exists r, poly_fast_multiply o ntt intt a b = Some r /\ okl r /\
              (zlen r <= Z.max 0 (poly_degree o a + poly_degree o b + 1))%Z /\ peq (D r) (pmul (D a) (D b)).
  Proof.
    intros Ha Hb Hsz. unfold poly_fast_multiply.
    apply fast_multiply_gen_spec with (lmax := lmax) (wr := wr) (ok1 := ok) (ok2 := ok) (den1 := den) (den2 := den);
      try assumption; try exact H; exact (Hmul_same o fk ok den H).
  Qed.

  (* fast_square is fast_multiply of the operand with itself, up to the constant special case *)
  Theorem fast_square_spec l : okl l -> (2 * poly_degree o l + 1 <= 2 ^ Z.of_nat lmax)%Z ->
    exists r, poly_fast_square o ntt intt l = Some r /\ repr (pmul (D l) (D l)) r.
  Proof.
    intros Hl Hsz. unfold poly_fast_square.
    destruct (poly_degree o l =? -1)%Z eqn:E1.
    - apply Z.eqb_eq in E1. exists []. split; [reflexivity|]. apply repr_nil. apply pmul_pzero_l.
      apply (degree_neg_pzero o fk ok den H l Hl). lia.
    - apply Z.eqb_neq in E1. pose proof (degree_ge o l) as G.
      destruct (poly_degree o l =? 0)%Z eqn:E0.
      + apply Z.eqb_eq in E0. pose proof (degree_lt_len o l) as LL.
        destruct (idx_lookup l 0 ltac:(lia)) as [c [C1 C2]]. rewrite C1. eexists. split; [reflexivity|].
        pose proof (nth_error_ok ok l _ c Hl C2) as Hc.
        destruct (fo_mul _ _ _ _ H c c Hc Hc) as [M1 M2]. split; [constructor; [exact M1|constructor]|].
        assert (EL : peq (D l) [den c]).
        { apply peq_intro. intros [|i].
          - rewrite (coeff_D fk den l 0). change (Z.to_nat 0) with O in C2. rewrite C2. reflexivity.
          - rewrite (coeff_above_pdeg fk (D l)); [rewrite coeff_cons_S, coeff_nil; reflexivity|].
            rewrite <- (degree_pdeg o fk ok den H l Hl). lia. }
        cbn [map]. rewrite EL, M2. apply peq_intro. intros [|i].
        * rewrite coeff_pmul_cons, !coeff_cons_0. ring.
        * rewrite coeff_pmul_cons, !coeff_cons_S, !coeff_nil. rewrite coeff_pmul_nil. ring.
      + apply Z.eqb_neq in E0.
        (* the remaining code is literally fast_multiply l l *)
        destruct (fast_multiply_spec l l Hl Hl ltac:(lia)) as [r [R1 [R2 [R3 R4]]]].
        unfold poly_fast_multiply, poly_fast_multiply_gen in R1.
        destruct (poly_degree o l + poly_degree o l <? 0)%Z eqn:E2; [apply Z.ltb_lt in E2; lia|].
        replace (2 * poly_degree o l)%Z with (poly_degree o l + poly_degree o l)%Z by lia.
        destruct (ntt (resize l (next_pow2 (poly_degree o l + poly_degree o l + 1)) (fzero o))) as [c|]; [|discriminate].
        replace (map (fun e => fmul o e e) c) with (map2 (fmul o) c c).
        * destruct (intt (map2 (fmul o) c c)) as [h|]; [|discriminate]. injection R1 as <-. eexists. split; [reflexivity|].
          split; assumption.
        * clear. induction c as [|x c IH]; [reflexivity|]. cbn [map2 map]. rewrite IH. reflexivity.
  Qed.
  (* square after the repair: both arms *)
  Theorem square_v1_spec l : okl l -> (2 * poly_degree o l + 1 <= 2 ^ Z.of_nat lmax)%Z ->
    exists r, poly_square_v1 o ntt intt l = Some r /\ repr (pmul (D l) (D l)) r.
  Proof.
    intros Hl Hsz. destruct (Z_le_gt_dec (poly_degree o l * 2 + 1) SQUARE_FAST_CUTOFF_LEN) as [L|G].
    - destruct (square_v1_slow_arm o fk ok den H ntt intt l Hl L) as [r [R1 R2]]. exists r. split; [exact R1|].
      apply (good_repr o fk ok den). exact R2.
    - unfold poly_square_v1. destruct (poly_degree o l =? -1)%Z eqn:E1.
      + apply Z.eqb_eq in E1. exists []. split; [reflexivity|]. apply repr_nil. apply pmul_pzero_l.
        apply (degree_neg_pzero o fk ok den H l Hl). lia.
      + destruct (poly_degree o l * 2 + 1 >? SQUARE_FAST_CUTOFF_LEN)%Z eqn:E2; [|rewrite Z.gtb_ltb in E2; apply Z.ltb_ge in E2; lia].
        apply fast_square_spec; assumption.
  Qed.

  (* batch products with the dispatching multiply: B = 2^lmax bounds the total stored length *)
  Lemma multiply_Hmult a b : okl a -> okl b -> (zlen a + zlen b <= 2 ^ Z.of_nat lmax)%Z ->
    exists r, poly_multiply o ntt intt a b = Some r /\ okl r /\ (zlen r <= zlen a + zlen b)%Z /\ peq (D r) (pmul (D a) (D b)).
  Proof.
    intros Ha Hb Hsz. pose proof (degree_lt_len o a). pose proof (degree_lt_len o b).
    pose proof (zlen_nonneg a). pose proof (zlen_nonneg b).
    destruct (multiply_spec a b Ha Hb ltac:(lia)) as [r [R1 [R2 [R3 R4]]]]. exists r. split; [exact R1|]. split; [exact R2|].
    split; [lia|exact R4].
  Qed.
  Theorem batch_multiply_spec ps : Forall okl ps -> (total_len ps <= 2 ^ Z.of_nat lmax)%Z ->
    exists r, poly_batch_multiply o ntt intt ps = Some r /\ okl r /\ peq (D r) (pprod (map D ps)).
  Proof.
    intros Hok Hb. unfold poly_batch_multiply.
    destruct (batch_multiply_with_spec o fk ok den H _ _ multiply_Hmult ps Hok Hb) as [r [R1 [R2 [_ R4]]]].
    exists r. split; [exact R1|]. split; assumption.
  Qed.
  (* for every thread count nt >= 1 *)
  Theorem par_batch_multiply_spec nt ps : (1 <= nt)%Z -> Forall okl ps -> (total_len ps <= 2 ^ Z.of_nat lmax)%Z ->
    exists r, poly_par_batch_multiply o ntt intt nt ps = Some r /\ okl r /\ peq (D r) (pprod (map D ps)).
  Proof.
    intros Hnt Hok Hb. unfold poly_par_batch_multiply.
    apply (par_batch_multiply_with_spec o fk ok den H (2 ^ Z.of_nat lmax)%Z); try assumption.
    intros qs Hne Hq Hqb. unfold poly_batch_multiply.
    destruct (batch_multiply_with_spec o fk ok den H _ _ multiply_Hmult qs Hq Hqb) as [r [R1 [R2 [R3 R4]]]].
    exists r. split; [exact R1|]. split; [exact R2|]. split; [exact (R3 Hne)|exact R4].
  Qed.
End FastSame.

(* ------------------------------------------------------------------ fast_pow: the accumulator's degree stays below the
   supported transform length, so the invariant is indexed by the exponent reached so far *)
Section PowIndexed.
  Context {F : Type}.
  Variable N : nat.
  Variable G : nat -> list F -> Prop.
  Variables sq mulself : list F -> option (list F).
  Hypothesis Hsq : forall acc n, (n + n <= N)%nat -> G n acc -> exists r, sq acc = Some r /\ G (n + n)%nat r.
  Hypothesis Hmu : forall acc n, (n + 1 <= N)%nat -> G n acc -> exists r, mulself acc = Some r /\ G (n + 1)%nat r.
  Lemma pow_go_indexed k : forall e acc n, (0 <= e)%Z -> (n * 2 ^ k + Z.to_nat (e mod 2 ^ Z.of_nat k) <= N)%nat -> G n acc ->
    exists r, pow_go sq mulself k e acc = Some r /\ G (n * 2 ^ k + Z.to_nat (e mod 2 ^ Z.of_nat k))%nat r.
  Proof.
    induction k as [|k IH]; intros e acc n He Hb G0.
    - exists acc. split; [reflexivity|]. rewrite Z.mod_1_r. cbn [Z.to_nat Nat.pow].
      replace (n * 1 + 0)%nat with n by lia. exact G0.
    - cbn [pow_go].
      assert (P1 : (1 <= 2 ^ k)%nat) by (clear; induction k; cbn [Nat.pow]; lia).
      rewrite (bit_step e k He) in Hb |- *.
      pose proof (Z.mod_pos_bound e (2 ^ Z.of_nat k) ltac:(lia)) as MB.
      assert (E2 : Z.to_nat (2 ^ Z.of_nat k) = (2 ^ k)%nat).
      { rewrite Z2Nat.inj_pow by lia. rewrite Nat2Z.id. reflexivity. }
      cbn [Nat.pow] in Hb |- *.
      destruct (Z.testbit e (Z.of_nat k)) eqn:B.
      + rewrite Z2Nat.inj_add in Hb |- * by lia. rewrite E2 in Hb |- *.
        destruct (Hsq acc n ltac:(nia) G0) as [acc1 [S1 S2]]. rewrite S1.
        destruct (Hmu acc1 (n + n)%nat ltac:(nia) S2) as [acc2 [M1 M2]]. rewrite M1.
        destruct (IH e acc2 (n + n + 1)%nat He ltac:(nia) M2) as [r [R1 R2]]. exists r. split; [exact R1|].
        replace (n * (2 * 2 ^ k) + (2 ^ k + Z.to_nat (e mod 2 ^ Z.of_nat k)))%nat
          with ((n + n + 1) * 2 ^ k + Z.to_nat (e mod 2 ^ Z.of_nat k))%nat by nia. exact R2.
      + rewrite Z.add_0_l in Hb |- *.
        destruct (Nat.eq_dec n 0) as [->|Nz].
        * (* leading zero bits cannot occur with n = 0 unless everything below is smaller; square of base^0 *)
          destruct (Hsq acc O ltac:(lia) G0) as [acc1 [S1 S2]]. rewrite S1.
          destruct (IH e acc1 (0 + 0)%nat He ltac:(cbn; lia) S2) as [r [R1 R2]]. exists r. split; [exact R1|].
          cbn [Nat.add Nat.mul] in R2 |- *. exact R2.
        * destruct (Hsq acc n ltac:(nia) G0) as [acc1 [S1 S2]]. rewrite S1.
          destruct (IH e acc1 (n + n)%nat He ltac:(nia) S2) as [r [R1 R2]]. exists r. split; [exact R1|].
          replace (n * (2 * 2 ^ k))%nat with ((n + n) * 2 ^ k)%nat by nia. exact R2.
  Qed.
End PowIndexed.

Section FastPow.
  Context {F K : Type} (o : fops F) (fk : fieldK K) (ok : F -> Prop) (den : F -> K).
  Hypothesis H : field_ok o fk ok den.
  Variable ntt : list F -> option (list F).
  Variable intt : list F -> option (list F).
  Variable lmax : nat.
  Variable wr : nat -> K.
  Hypothesis ntt_is_dft : forall l x, (l <= lmax)%nat -> length x = (2 ^ l)%nat -> Forall ok x ->
    exists y, ntt x = Some y /\ Forall ok y /\ length y = length x /\ map den y = dft fk (wr l) (map den x).
  Hypothesis intt_is_idft : forall l x, (l <= lmax)%nat -> length x = (2 ^ l)%nat -> Forall ok x ->
    exists y, intt x = Some y /\ Forall ok y /\ length y = length x /\ map den y = idft fk (wr l) (map den x).
  Hypothesis wr_half_root : forall l, (l <= lmax)%nat -> half_root fk (wr l) l.
  Hypothesis wr_nonzero : forall l, (l <= lmax)%nat -> wr l <> k0 fk.
  Hypothesis two_nz : two_neq_0 fk.
  Local Notation D := (map den).
  Local Notation okl := (Forall ok).
  Local Notation peq := (peq fk).
  Local Notation pmul := (pmul fk).

  Lemma pdeg_pone : pdeg fk (pone fk) = 0%Z.
  Proof. unfold pdeg, pone. cbn [pnorm]. destruct (keq_dec fk (k1 fk) (k0 fk)) as [X|X]; [exfalso; exact (k1_neq_0 fk X)|reflexivity]. Qed.
  Lemma pdeg_ppow p n : (0 <= pdeg fk p)%Z -> pdeg fk (ppow fk p n) = (Z.of_nat n * pdeg fk p)%Z.
  Proof.
    intros Hp. induction n as [|n IH]; [cbn [ppow]; rewrite pdeg_pone; lia|].
    cbn [ppow]. rewrite pdeg_pmul; [rewrite IH; lia|exact Hp|rewrite IH; lia].
  Qed.

  (* fast_pow = repeated product, as long as the result degree fits the supported transform length *)
  Theorem fast_pow_spec l e : okl l -> (0 <= e)%Z -> (Z.max 0 (poly_degree o l) * e * 2 + 1 <= 2 ^ Z.of_nat lmax)%Z ->
    exists r, poly_fast_pow o ntt intt l e = Some r /\ okl r /\ peq (D r) (ppow fk (D l) (Z.to_nat e)).
  Proof.
    intros Hl He Hsz. unfold poly_fast_pow, poly_pow_with. destruct (e =? 0)%Z eqn:E0.
    - apply Z.eqb_eq in E0. subst e. exists (poly_one o). split; [reflexivity|]. split; [apply (one_ok o fk ok den H)|].
      rewrite (one_D o fk ok den H). reflexivity.
    - apply Z.eqb_neq in E0. destruct (poly_degree o l <? 0)%Z eqn:Ed.
      + apply Z.ltb_lt in Ed. exists []. split; [reflexivity|]. split; [constructor|].
        apply (degree_neg_pzero o fk ok den H l Hl) in Ed. cbn [map]. symmetry. apply peq_nil_pzero.
        destruct (Z.to_nat e) eqn:En; [lia|]. cbn [ppow]. apply pmul_pzero_l. exact Ed.
      + apply Z.ltb_ge in Ed. rewrite (degree_pdeg o fk ok den H l Hl) in *. set (d := pdeg fk (D l)) in *.
        set (G := fun (n : nat) (acc : list F) => okl acc /\ peq (D acc) (ppow fk (D l) n)).
        assert (DG : forall n acc, G n acc -> poly_degree o acc = (Z.of_nat n * d)%Z).
        { intros n acc [G1 G2]. rewrite (degree_pdeg o fk ok den H acc G1), (pdeg_peq fk _ _ G2). apply pdeg_ppow. exact Ed. }
        destruct (pow_go_indexed (Z.to_nat e) G (poly_square o ntt intt) (fun acc => poly_multiply o ntt intt l acc)) with
          (k := Z.to_nat (bitlen e)) (e := e) (acc := poly_one o) (n := O) as [r [R1 [R2 R3]]].
        * intros acc n Hn Gn. pose proof (DG n acc Gn) as Dn. destruct Gn as [G1 G2].
          unfold poly_square.
          destruct (square_v1_spec o fk ok den H ntt intt lmax wr ntt_is_dft intt_is_idft wr_half_root wr_nonzero two_nz acc G1)
            as [r [R1 [R2 R3]]]; [rewrite Dn; nia|].
          exists r. split; [exact R1|]. split; [exact R2|]. rewrite R3, G2. symmetry. apply ppow_add.
        * intros acc n Hn Gn. pose proof (DG n acc Gn) as Dn. destruct Gn as [G1 G2].
          destruct (multiply_spec o fk ok den H ntt intt lmax wr ntt_is_dft intt_is_idft wr_half_root wr_nonzero two_nz l acc Hl G1)
            as [r [R1 [R2 [_ R3]]]]; [rewrite Dn, (degree_pdeg o fk ok den H l Hl); fold d; nia|].
          exists r. split; [exact R1|]. split; [exact R2|]. rewrite R3, G2.
          rewrite (ppow_add fk (D l) n 1). rewrite pmul_comm. apply pmul_peq; [reflexivity|]. symmetry. apply ppow_1.
        * exact He.
        * unfold bitlen. rewrite (proj2 (Z.eqb_neq e 0) E0). pose proof (Z.log2_nonneg e). rewrite Z2Nat.id by lia.
          rewrite Z.mod_small; [lia|]. split; [lia|]. apply Z.log2_lt_pow2; lia.
        * split; [apply (one_ok o fk ok den H)|]. rewrite (one_D o fk ok den H). reflexivity.
        * exists r. split; [exact R1|]. split; [exact R2|]. rewrite R3.
          replace (0 * 2 ^ Z.to_nat (bitlen e) + Z.to_nat (e mod 2 ^ Z.of_nat (Z.to_nat (bitlen e))))%nat with (Z.to_nat e); [reflexivity|].
          unfold bitlen. rewrite (proj2 (Z.eqb_neq e 0) E0). pose proof (Z.log2_nonneg e). rewrite Z2Nat.id by lia.
          rewrite Z.mod_small; [lia|]. split; [lia|]. apply Z.log2_lt_pow2; lia.
  Qed.
End FastPow.
