(* proofs/PolyDeepenBary.v - barycentric_evaluate (C08_barycentric_full).

   For the codeword y on the subgroup <w> of order n = 2^l and a point x outside it the code returns
        ( sum_i y_i t_i ) / ( sum_i t_i ),      t_i = w^i / (x - w^i).
   The interpolant is c = idft_w(y), c_j = (1/n) sum_i y_i w^(-ij), so
        c(x) = sum_j c_j x^j = (1/n) sum_i y_i sum_j (x / w^i)^j = ((x^n - 1)/n) sum_i y_i t_i            (geometric sums),
   and the same identity for the codeword of all ones (interpolant 1) gives (x^n - 1)/n = 1 / sum_i t_i. *)
From Coq Require Import ZArith Lia List Bool Ring Field Setoid Morphisms.
From TF Require Import Word BFieldGen BField XField FieldOps FieldTheory PolyGen PolyCore PolySpec Ntt PolyInterp
  PolyInterpAlg PolyInterpBase BatchInvProofs Dft NttDft NttLists PolyCoreProofs PolyC07Wrap PolyInterpProofs.
Import ListNotations.
Open Scope Z_scope.

Section BaryAlg.
  Context {K : Type} (fk : fieldK K).
  Declare Scope KB_scope.
  Delimit Scope KB_scope with K.
  Local Notation "0" := (k0 fk) : KB_scope.
  Local Notation "1" := (k1 fk) : KB_scope.
  Local Notation "x + y" := (kadd fk x y) : KB_scope.
  Local Notation "x * y" := (kmul fk x y) : KB_scope.
  Local Notation "x - y" := (ksub fk x y) : KB_scope.
  Local Notation "- x" := (kopp fk x) : KB_scope.
  Local Notation "/ x" := (kinv fk x) : KB_scope.
  Local Notation kpow := (kpow fk).
  Local Notation ksum := (ksum fk).
  Local Notation peval := (peval fk).
  Add Field kfield_PolyDeepenBary : (kFT fk).

  (* sums over lists *)
  Definition lsum (l : list K) : K := fold_right (kadd fk) 0%K l.
  Lemma lsum_app a b : lsum (a ++ b) = (lsum a + lsum b)%K.
  Proof. unfold lsum. induction a as [|x a IH]; cbn [app fold_right]; [ring|]. rewrite IH. ring. Qed.
  Lemma lsum_seq (f : nat -> K) n : lsum (map f (seq 0 n)) = ksum f n.
  Proof.
    induction n as [|n IH]; [reflexivity|]. rewrite seq_S, map_app, lsum_app, IH. unfold lsum. cbn [Nat.add map fold_right FieldTheory.ksum]. ring.
  Qed.
  Lemma map2_seq {B' C'} (g : B' -> K -> C') (T : nat -> B') : forall (ys : list K) a,
    map2 g (map T (seq a (length ys))) ys = map (fun i => g (T i) (nth (i - a) ys 0%K)) (seq a (length ys)).
  Proof.
    induction ys as [|y ys IH]; intros a; [reflexivity|]. cbn [length seq map map2]. rewrite Nat.sub_diag. cbn [nth]. f_equal.
    rewrite IH. apply map_ext_in. intros i Hi. apply in_seq in Hi. replace (i - a)%nat with (S (i - S a)) by lia. reflexivity.
  Qed.
  Lemma map2_map_same {A B' C'} (g : A -> B' -> C') (h : A -> B') (l : list A) : map2 g l (map h l) = map (fun d => g d (h d)) l.
  Proof. induction l as [|x l IH]; [reflexivity|]. cbn [map map2]. rewrite IH. reflexivity. Qed.

  (* the value of the interpolant idft_w(ys) at a point outside the subgroup *)
  Lemma bary_idft (w x : K) (l : nat) (ys : list K) : two_neq_0 fk -> half_root fk w l -> w <> 0%K -> length ys = (2 ^ l)%nat ->
    (forall i, (i < 2 ^ l)%nat -> x <> kpow w i) ->
    peval (idft fk w ys) x =
    ((kpow x (2 ^ l) - 1) * / kofZ fk (Z.of_nat (2 ^ l)) * ksum (fun i => nth i ys 0 * (kpow w i * / (x - kpow w i))) (2 ^ l))%K.
  Proof.
    intros H2 Hw Hw0 Ly Hx. set (n := (2 ^ l)%nat) in *.
    assert (Lc : length (idft fk w ys) = n) by (unfold idft; rewrite map_length, dft_length; exact Ly).
    assert (Wn : forall i, (i < n)%nat -> kpow (kpow w i) n = 1%K).
    { intros i Hi. destruct l as [|l'].
      - unfold n in *. cbn in Hi. replace i with O by lia. cbn. ring.
      - rewrite <- kpow_mul, Nat.mul_comm, kpow_mul. unfold n. rewrite (half_root_full fk w l' Hw). apply kpow_1_l. }
    rewrite (peval_ksum fk), Lc.
    rewrite (ksum_ext fk _ (fun j => ksum (fun i => (/ kofZ fk (Z.of_nat n) * (nth i ys 0 * kpow (/ kpow w i * x) j))%K) n)).
    2: { intros j Hj. unfold PolySpec.coeff, idft. rewrite (nth_map_lt _ _ 0%K) by (rewrite dft_length, Ly; exact Hj).
         rewrite dft_nth by (rewrite Ly; exact Hj). unfold dft_at. rewrite Ly.
         rewrite <- ksum_mul_r, <- ksum_mul_r. apply ksum_ext. intros i Hi.
         rewrite kpow_mul_l, <- kpow_inv by exact Hw0. rewrite <- (kpow_mul fk (kinv fk w) i j). replace (i * j)%nat with (j * i)%nat by lia. ring. }
    rewrite ksum_swap.
    rewrite (ksum_ext fk _ (fun i => ((kpow x n - 1) * / kofZ fk (Z.of_nat n) * (nth i ys 0 * (kpow w i * / (x - kpow w i))))%K)).
    { rewrite ksum_mul_l. reflexivity. }
    intros i Hi. rewrite ksum_mul_l, ksum_mul_l.
    assert (Nwi : kpow w i <> 0%K) by (apply kpow_neq_0; exact Hw0).
    assert (Nd : (x - kpow w i)%K <> 0%K).
    { intros E. apply (Hx i Hi). transitivity ((x - kpow w i) + kpow w i)%K; [ring|]. rewrite E. ring. }
    set (q := (/ kpow w i * x)%K).
    assert (Nq : (q - 1)%K <> 0%K).
    { intros E. apply Nd. transitivity (kpow w i * (q - 1))%K; [unfold q; field; exact Nwi|]. rewrite E. ring. }
    assert (G : ksum (fun j => kpow q j) n = ((kpow x n - 1) * (kpow w i * / (x - kpow w i)))%K).
    { apply (kmul_cancel_l fk (q - 1)%K); [exact Nq|]. rewrite ksum_geometric.
      unfold q at 1. rewrite kpow_mul_l, kpow_inv, (Wn i Hi) by exact Nwi. unfold q. field. split; [exact Nd|]. split; [exact Nwi|exact (k1_neq_0 fk)]. }
    change (ksum (kpow q) n) with (ksum (fun j => kpow q j) n). rewrite G. ring.
  Qed.

  (* the barycentric formula *)
  Theorem bary_formula (w x : K) (l : nat) (ys ip : list K) : two_neq_0 fk -> half_root fk w l -> w <> 0%K ->
    length ys = (2 ^ l)%nat ->
    let pts := map (fun i => (1 * kpow w i)%K) (seq 0 (2 ^ l)) in
    NoDup pts -> ~ In x pts -> interpolates fk pts ys ip ->
    let ts := map (fun i => (/ (x - kpow w i) * kpow w i)%K) (seq 0 (2 ^ l)) in
    lsum ts <> 0%K /\ peval ip x = (lsum (map2 (fun t y => (y * t)%K) ts ys) * / lsum ts)%K.
  Proof.
    intros H2 Hw Hw0 Ly pts Hnd Hx Hip ts. set (n := (2 ^ l)%nat) in *.
    assert (Lp : length pts = n) by (unfold pts; rewrite map_length, seq_length; reflexivity).
    assert (Np : forall i, (i < n)%nat -> nth i pts 0%K = kpow w i).
    { intros i Hi. unfold pts. rewrite (nth_indep _ 0%K (1 * kpow w 0)%K) by (rewrite map_length, seq_length; exact Hi).
      rewrite (map_nth (fun i => (1 * kpow w i)%K)), seq_nth by exact Hi. cbn [Nat.add]. ring. }
    assert (Hxi : forall i, (i < n)%nat -> x <> kpow w i).
    { intros i Hi E. apply Hx. rewrite E, <- (Np i Hi). apply nth_In. rewrite Lp. exact Hi. }
    (* idft interpolates *)
    assert (Iidft : forall zs, length zs = n -> interpolates fk pts zs (idft fk w zs)).
    { intros zs Lz. assert (Lc : length (idft fk w zs) = n) by (unfold idft; rewrite map_length, dft_length; exact Lz).
      apply (interpolates_intro fk pts zs _ 0%K 0%K); [rewrite Lp; exact Lz|rewrite Lp, <- Lc; apply deg_lt_length|].
      rewrite Lp. intros i Hi. rewrite (Np i Hi), <- (dft_at_peval fk), <- dft_nth by (rewrite Lc; exact Hi).
      rewrite (dft_idft fk H2 l w zs Lz Hw Hw0). reflexivity. }
    set (A := ((kpow x n - 1) * / kofZ fk (Z.of_nat n))%K).
    assert (Eval : forall zs p, length zs = n -> interpolates fk pts zs p ->
                   peval p x = (A * ksum (fun i => nth i zs 0 * (kpow w i * / (x - kpow w i))) n)%K).
    { intros zs p Lz Hp. rewrite (peval_peq fk p (idft fk w zs) x (interpolant_unique fk pts zs _ _ Hnd Hp (Iidft zs Lz))).
      exact (bary_idft w x l zs H2 Hw Hw0 Lz Hxi). }
    (* the codeword of all ones *)
    set (ones := map (fun _ : nat => 1%K) (seq 0 n)).
    assert (Lo : length ones = n) by (unfold ones; rewrite map_length, seq_length; reflexivity).
    assert (No : forall i, (i < n)%nat -> nth i ones 0%K = 1%K).
    { intros i Hi. unfold ones. rewrite (nth_indep _ 0%K 1%K) by (rewrite map_length, seq_length; exact Hi).
      exact (map_nth (fun _ : nat => 1%K) (seq 0 n) O i). }
    assert (Npos : (1 <= n)%nat) by (unfold n; pose proof (Nat.pow_nonzero 2 l ltac:(lia)); lia).
    assert (I1 : interpolates fk pts ones (pone fk)).
    { apply (interpolates_intro fk pts ones _ 0%K 0%K); [rewrite Lp; exact Lo|apply (deg_lt_le fk _ 1); [lia|exact (deg_lt_length fk (pone fk))]|].
      rewrite Lp. intros i Hi. rewrite peval_pone, (No i Hi). reflexivity. }
    pose proof (Eval ones (pone fk) Lo I1) as E1. rewrite peval_pone in E1.
    assert (Ets : lsum ts = ksum (fun i => nth i ones 0 * (kpow w i * / (x - kpow w i)))%K n).
    { unfold ts. rewrite lsum_seq. apply ksum_ext. intros i Hi. rewrite (No i Hi). ring. }
    rewrite <- Ets in E1.
    assert (Nts : lsum ts <> 0%K).
    { intros E. rewrite E in E1. apply (k1_neq_0 fk). rewrite E1. ring. }
    split; [exact Nts|].
    rewrite (Eval ys ip Ly Hip).
    assert (Enum : lsum (map2 (fun t y => (y * t)%K) ts ys) = ksum (fun i => nth i ys 0 * (kpow w i * / (x - kpow w i)))%K n).
    { unfold ts. rewrite <- Ly at 1. rewrite (map2_seq (fun t y => (y * t)%K) (fun i => (/ (x - kpow w i) * kpow w i)%K) ys O), Ly.
      rewrite lsum_seq. apply ksum_ext. intros i Hi. rewrite Nat.sub_0_r. ring. }
    rewrite Enum. rewrite (kinv_unique fk (lsum ts) A (eq_sym E1)). ring.
  Qed.
End BaryAlg.

(* ================================================================== the model *)
Section Bary.
  Context {F K : Type} (o : fops F) (fk : fieldK K) (ok : F -> Prop) (den : F -> K).
  Hypothesis H : field_ok o fk ok den.
  Variable act : fact Z F.
  Variable lmax : nat.
  Variable wr : nat -> K.
  Variable emb : Z -> K.
  Hypothesis Hroots : roots_ok fk lmax wr.
  Hypothesis Hact : act_ok fk ok den act emb.
  Hypothesis Hroot : root_ok lmax wr emb.
  Local Notation canon := BFieldProofs.canon.
  Local Notation D := (map den).
  Local Notation okl := (Forall ok).
  (* the base-field side: lifting into F, products and the unit denote what they should *)
  Definition slift_ok : Prop := forall b, canon b -> ok (slift act b) /\ den (slift act b) = emb b.
  Definition bmul_ok' : Prop := forall a b, canon a -> canon b -> canon (bfe_mul a b) /\ emb (bfe_mul a b) = kmul fk (emb a) (emb b).
  Definition bone_ok : Prop := canon bfe_one /\ emb bfe_one = k1 fk.
  Hypothesis Hslift : slift_ok.
  Hypothesis Hbmul : bmul_ok'.
  Hypothesis Hbone : bone_ok.
  Add Field kfield_PolyDeepenBary_M : (kFT fk).

  Lemma scan_bfe_spec g : canon g -> forall n acc, canon acc ->
    Forall canon (pint_scan_bfe n acc g) /\ length (pint_scan_bfe n acc g) = n /\
    map emb (pint_scan_bfe n acc g) = map (fun i => kmul fk (emb acc) (kpow fk (emb g) i)) (seq 0 n).
  Proof.
    intros Cg. induction n as [|n IH]; intros acc Ca; [split; [constructor|split; reflexivity]|].
    cbn [pint_scan_bfe]. destruct (Hbmul acc g Ca Cg) as [C1 E1]. destruct (IH _ C1) as [O2 [L2 E2]].
    split; [constructor; assumption|]. split; [cbn [length]; rewrite L2; reflexivity|].
    cbn [map seq]. rewrite E2, <- seq_shift, map_map. f_equal; [cbn [kpow]; ring|].
    apply map_ext. intros i. rewrite E1. cbn [kpow]. ring.
  Qed.
  Lemma fold_add_spec l : forall acc, okl l -> ok acc ->
    ok (fold_left (fadd o) l acc) /\ den (fold_left (fadd o) l acc) = kadd fk (den acc) (lsum fk (D l)).
  Proof.
    induction l as [|x l IH]; intros acc Hl Ha; [split; [exact Ha|cbn; ring]|].
    inversion Hl as [|? ? Hx Hl']; subst. cbn [fold_left].
    destruct (IH (fadd o acc x) Hl' (pb_ok_add o fk ok den H acc x Ha Hx)) as [O1 E1]. split; [exact O1|].
    rewrite E1, (pb_den_add o fk ok den H) by assumption. unfold lsum. cbn [map fold_right]. ring.
  Qed.
  Lemma map2_den {A B'} (g : A -> B' -> F) (ga : A -> K) (gb : B' -> K) (k : K -> K -> K) (PA : A -> Prop) (PB : B' -> Prop) :
    (forall a b, PA a -> PB b -> ok (g a b) /\ den (g a b) = k (ga a) (gb b)) ->
    forall la lb, Forall PA la -> Forall PB lb -> okl (map2 g la lb) /\ D (map2 g la lb) = map2 k (map ga la) (map gb lb).
  Proof.
    intros Hg. induction la as [|a la IH]; intros [|b lb] Ha Hb; cbn [map2 map]; try (split; [constructor|reflexivity]).
    inversion Ha; inversion Hb; subst. destruct (IH lb ltac:(assumption) ltac:(assumption)) as [I1 I2].
    destruct (Hg a b ltac:(assumption) ltac:(assumption)) as [G1 G2]. split; [constructor; assumption|]. rewrite I2, G2. reflexivity.
  Qed.

  Theorem barycentric_evaluate_spec l cw x : (l <= lmax)%nat -> okl cw -> length cw = (2 ^ l)%nat -> ok x ->
    ~ In (den x) (coset_points fk wr (k1 fk) l) ->
    exists r, pint_barycentric_evaluate o act cw x = Some r /\ ok r /\
              forall ip, interpolates fk (coset_points fk wr (k1 fk) l) (D cw) ip -> den r = peval fk ip (den x).
  Proof.
    intros Hl Hcw Lcw Hx Hout. unfold pint_barycentric_evaluate.
    assert (Zn : zlen cw = 2 ^ Z.of_nat l) by (unfold zlen; rewrite Lcw, Nat2Z.inj_pow; reflexivity). rewrite Zn.
    destruct (Hroot l Hl) as [g [Eg [Cg Dg]]]. rewrite Eg.
    destruct Hroots as [Hhalf [Hwnz H2]]. destruct Hbone as [C1 E1].
    destruct (scan_bfe_spec g Cg (length cw) bfe_one C1) as [Cdom [Ldom Edom]]. rewrite Lcw in *.
    set (dom := pint_scan_bfe (2 ^ l) bfe_one g) in *. set (w := wr l) in *. set (n := (2 ^ l)%nat) in *.
    assert (Eds : map emb dom = map (fun i => kpow fk w i) (seq 0 n)).
    { rewrite Edom. apply map_ext. intros i. rewrite E1, Dg. ring. }
    (* x - d_i, inverted *)
    set (xs := map (fun d => fsub o x (slift act d)) dom).
    assert (Hxs : okl xs /\ D xs = map (fun d => ksub fk (den x) d) (map emb dom)).
    { unfold xs. clear - H Hx Hslift Cdom. induction Cdom as [|d ds Cd Cds IH]; [split; [constructor|reflexivity]|].
      destruct IH as [I1 I2]. destruct (Hslift d Cd) as [S1 S2]. cbn [map]. split.
      - constructor; [apply (pb_ok_sub o fk ok den H); assumption|exact I1].
      - rewrite I2, (pb_den_sub o fk ok den H), S2 by assumption. reflexivity. }
    destruct Hxs as [Oxs Dxs].
    assert (Hpts : coset_points fk wr (k1 fk) l = map (fun i => kmul fk (k1 fk) (kpow fk w i)) (seq 0 n)) by reflexivity.
    assert (Nxs : Forall (fun y => den y <> k0 fk) xs).
    { apply Forall_forall. intros y Hy. apply (in_map den) in Hy. rewrite Dxs, Eds, map_map in Hy. apply in_map_iff in Hy.
      destruct Hy as [i [<- Hi]]. intros E. apply Hout. rewrite Hpts. apply in_map_iff. exists i. split; [|exact Hi].
      transitivity (kadd fk (ksub fk (den x) (kpow fk w i)) (kpow fk w i)); [rewrite E; ring|ring]. }
    destruct (batch_inversion_spec_K o fk ok den H xs Oxs Nxs) as [invs [Einv [Oinv Dinv]]]. fold xs. rewrite Einv.
    (* d_i / (x - d_i) *)
    destruct (map2_den (fun d inv => smul act inv d) emb den (fun d iv => kmul fk iv d) canon ok
                (fun d inv Cd Oi => Hact inv d Oi Cd) dom invs Cdom Oinv) as [Odods Ddods].
    set (dods := map2 (fun d inv => smul act inv d) dom invs) in *.
    set (ts := map (fun i => kmul fk (kinv fk (ksub fk (den x) (kpow fk w i))) (kpow fk w i)) (seq 0 n)).
    assert (Ets : D dods = ts).
    { rewrite Ddods, Dinv, Dxs, map_map. rewrite (map2_map_same (fun d iv => kmul fk iv d) (fun d => kinv fk (ksub fk (den x) d))).
      rewrite Eds, map_map. reflexivity. }
    (* numerator and denominator *)
    destruct (fold_add_spec dods (fzero o) Odods (pb_ok0 o fk ok den H)) as [Oden Dden].
    destruct (map2_den (fun dsi abscis => fmul o abscis dsi) den den (fun t y => kmul fk y t) ok ok
                (fun t y Ot Oy => conj (pb_ok_mul o fk ok den H y t Oy Ot) (pb_den_mul o fk ok den H y t Oy Ot)) dods cw Odods Hcw) as [Onum Dnum].
    destruct (fold_add_spec _ (fzero o) Onum (pb_ok0 o fk ok den H)) as [Onu Dnu].
    rewrite (pb_den0 o fk ok den H) in Dden, Dnu. rewrite Ets in Dden. rewrite Dnum, Ets in Dnu.
    (* the formula, for the interpolant idft(cw) that certainly exists *)
    assert (Hnd : NoDup (coset_points fk wr (k1 fk) l)).
    { apply (coset_points_NoDup fk lmax wr (conj Hhalf (conj Hwnz H2)) (k1 fk) l Hl). exact (k1_neq_0 fk). }
    assert (Ly : length (D cw) = n) by (rewrite map_length; exact Lcw).
    assert (Nden : den (fold_left (fadd o) dods (fzero o)) <> k0 fk).
    { rewrite Dden.
      assert (Iex : exists ip, interpolates fk (coset_points fk wr (k1 fk) l) (D cw) ip).
      { exists (idft fk w (D cw)). assert (Lc : length (idft fk w (D cw)) = n) by (unfold idft; rewrite map_length, dft_length; exact Ly).
        assert (Lp : length (coset_points fk wr (k1 fk) l) = n) by (rewrite Hpts, map_length, seq_length; reflexivity).
        apply (interpolates_intro fk _ (D cw) _ (k0 fk) (k0 fk)); [rewrite Lp; exact Ly|rewrite Lp, <- Lc; apply deg_lt_length|].
        rewrite Lp. intros i Hi. rewrite Hpts. rewrite (nth_indep _ (k0 fk) (kmul fk (k1 fk) (kpow fk w 0))) by (rewrite map_length, seq_length; exact Hi).
        rewrite (map_nth (fun i => kmul fk (k1 fk) (kpow fk w i))), seq_nth by exact Hi. cbn [Nat.add].
        replace (kmul fk (k1 fk) (kpow fk w i)) with (kpow fk w i) by ring.
        rewrite <- (dft_at_peval fk), <- dft_nth by (rewrite Lc; exact Hi).
        rewrite (dft_idft fk H2 l w (D cw) Ly (Hhalf l Hl) (Hwnz l Hl)). reflexivity. }
      destruct Iex as [ip0 Hip0].
      destruct (bary_formula fk w (den x) l (D cw) ip0 H2 (Hhalf l Hl) (Hwnz l Hl) Ly Hnd Hout Hip0) as [N0 _].
      replace (kadd fk (k0 fk) (lsum fk ts)) with (lsum fk ts) by ring. exact N0. }
    destruct (fo_inv _ _ _ _ H _ Oden Nden) as [di [Edi [Odi Ddi]]]. rewrite Edi.
    eexists. split; [reflexivity|]. split; [apply (pb_ok_mul o fk ok den H); assumption|].
    intros ip Hip.
    destruct (bary_formula fk w (den x) l (D cw) ip H2 (Hhalf l Hl) (Hwnz l Hl) Ly Hnd Hout Hip) as [_ Ev].
    cbv zeta in Ev. fold n in Ev. fold ts in Ev.
    rewrite (pb_den_mul o fk ok den H) by assumption. rewrite Ddi, Dnu, Dden, Ev.
    replace (kadd fk (k0 fk) (lsum fk ts)) with (lsum fk ts) by ring. ring.
  Qed.
End Bary.

(* ================================================================== Polynomial<BFieldElement>: nothing assumed *)
From TF Require Import BFieldProofs BFieldOk NttRoots NttProofs PolyValueSem.
Lemma bfe_slift_ok : slift_ok canon bden bb_act bden.
Proof. intros b Cb. split; [exact Cb|reflexivity]. Qed.
Lemma bfe_bmul_ok' : bmul_ok' fp_field bden.
Proof. intros a b Ca Cb. exact (fo_mul _ _ _ _ bfe_field_ok a b Ca Cb). Qed.
Lemma bfe_bone_ok : bone_ok fp_field bden.
Proof. exact (fo_one _ _ _ _ bfe_field_ok). Qed.
Theorem bfe_barycentric_evaluate l cw x : (l <= 31)%nat -> Forall canon cw -> length cw = (2 ^ l)%nat -> canon x ->
  ~ In (bden x) (coset_points fp_field wr_b (k1 fp_field) l) ->
  exists r, pint_barycentric_evaluate bfe_ops bb_act cw x = Some r /\ canon r /\
            forall ip, interpolates fp_field (coset_points fp_field wr_b (k1 fp_field) l) (map bden cw) ip ->
                       bden r = peval fp_field ip (bden x).
Proof.
  exact (barycentric_evaluate_spec bfe_ops fp_field canon bden bfe_field_ok bb_act 31 wr_b bden bfe_roots_ok bfe_act_ok bfe_root_ok
           bfe_slift_ok bfe_bmul_ok' bfe_bone_ok l cw x).
Qed.
