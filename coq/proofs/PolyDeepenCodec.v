(* proofs/PolyDeepenCodec.v - impl BFieldCodec for Polynomial (model/PolyCore.v: poly_encode / poly_decode):
   decode (encode p) returns the normalised coefficients of p - the same polynomial as a value - for every p whose encoding
   is shorter than the field characteristic (the two length prefixes are field elements). *)
From Coq Require Import ZArith Lia List Bool.
From TF Require Import Word BFieldGen BField XField FieldOps Lucas PolyGen PolyCore BFieldProofs PolyInterpBase.
Import ListNotations.
Open Scope Z_scope.

Section PolyCodec.
  Context {F : Type} (o : fops F).
  Variable w : Z.
  Variable enc : F -> list Z.
  Variable dec : list Z -> option F.
  Variable okF : F -> Prop.
  Hypothesis Hw : 1 <= w.
  (* the coefficient codec: w words per coefficient, decode inverts encode *)
  Hypothesis Henc : forall c, okF c -> zlen (enc c) = w /\ dec (enc c) = Some c.

  Lemma drop_zeros_Forall (P : F -> Prop) r : Forall P r -> Forall P (drop_zeros o r).
  Proof. induction r as [|x r IH]; intros Hr; [constructor|]. inversion Hr; subst. cbn [drop_zeros]. destruct (fis_zero o x); [apply IH; assumption|exact Hr]. Qed.
  Lemma normalize_Forall (P : F -> Prop) l : Forall P l -> Forall P (poly_normalize o l).
  Proof. intros Hl. unfold poly_normalize. apply Forall_rev, drop_zeros_Forall, Forall_rev. exact Hl. Qed.
  Lemma drop_zeros_head r : match drop_zeros o r with c :: _ => fis_zero o c = false | [] => True end.
  Proof. induction r as [|x r IH]; [exact I|]. cbn [drop_zeros]. destruct (fis_zero o x) eqn:E; [exact IH|exact E]. Qed.

  Lemma flat_map_enc_length cs : Forall okF cs -> zlen (flat_map enc cs) = zlen cs * w.
  Proof.
    induction cs as [|c cs IH]; intros Hc; [reflexivity|]. inversion Hc as [|? ? Hc0 Hcs]; subst. cbn [flat_map].
    rewrite pb_zlen_app, (proj1 (Henc c Hc0)), (IH Hcs), pb_zlen_cons. ring.
  Qed.
  Lemma chunks_flat_map cs : Forall okF cs -> forall fuel, (length cs <= fuel)%nat ->
    chunks_go fuel (Z.to_nat w) (flat_map enc cs) = map enc cs.
  Proof.
    induction cs as [|c cs IH]; intros Hc fuel Hf; [destruct fuel; reflexivity|].
    inversion Hc as [|? ? Hc0 Hcs]; subst. destruct fuel as [|f]; [cbn in Hf; lia|]. cbn [flat_map map chunks_go].
    assert (Le : length (enc c) = Z.to_nat w) by (pose proof (proj1 (Henc c Hc0)) as X; unfold zlen in X; lia).
    destruct (enc c ++ flat_map enc cs) as [|y t] eqn:E.
    { exfalso. apply (f_equal (@length Z)) in E. rewrite app_length in E. cbn in E. lia. }
    rewrite <- E. rewrite <- Le. rewrite firstn_app, Nat.sub_diag, firstn_all. cbn [firstn]. rewrite app_nil_r.
    rewrite skipn_app, Nat.sub_diag, skipn_all. cbn [skipn app]. f_equal. rewrite Le. apply IH; [exact Hcs|cbn in Hf; lia].
  Qed.
  Lemma map_opt_dec_enc cs : Forall okF cs -> map_opt dec (map enc cs) = Some cs.
  Proof.
    induction cs as [|c cs IH]; intros Hc; [reflexivity|]. inversion Hc as [|? ? Hc0 Hcs]; subst. cbn [map map_opt].
    rewrite (proj2 (Henc c Hc0)), (IH Hcs). reflexivity.
  Qed.

  Theorem poly_decode_encode l : Forall okF l -> zlen (poly_normalize o l) * w + 2 <= Lucas.P ->
    poly_decode o w dec (poly_encode o enc l) = Some (poly_normalize o l).
  Proof.
    intros Hl Hsz. unfold poly_encode, poly_coefficients. set (cs := poly_normalize o l) in *.
    assert (Hcs : Forall okF cs) by (apply normalize_Forall; exact Hl).
    pose proof (pb_zlen_nonneg cs) as Z0.
    assert (Lb : zlen (flat_map enc cs) = zlen cs * w) by (apply flat_map_enc_length; exact Hcs).
    assert (EP : Lucas.P = 18446744069414584321) by reflexivity.
    assert (EP' : BFieldGen.P = 18446744069414584321) by reflexivity.
    assert (Hle : zlen cs <= zlen cs * w) by nia.
    assert (V1 : bfe_value (bfe_new (zlen cs)) = zlen cs).
    { rewrite value_new by (change (2 ^ 64) with 18446744073709551616; lia). apply Z.mod_small. lia. }
    assert (V2 : bfe_value (bfe_new (zlen (bfe_new (zlen cs) :: flat_map enc cs))) = zlen cs * w + 1).
    { rewrite pb_zlen_cons, Lb. rewrite value_new by (change (2 ^ 64) with 18446744073709551616; lia). apply Z.mod_small. lia. }
    unfold poly_decode. rewrite V2. rewrite !pb_zlen_cons, Lb, Z.eqb_refl. cbn [negb]. rewrite V1.
    replace (2 ^ 64 <=? zlen cs * w) with false by (symmetry; apply Z.leb_gt; change (2 ^ 64) with 18446744073709551616; lia).
    rewrite Z.eqb_refl. cbn [negb]. unfold chunks.
    rewrite (chunks_flat_map cs Hcs).
    2: { pose proof Lb as X. unfold zlen in X. nia. }
    rewrite (map_opt_dec_enc cs Hcs).
    pose proof (drop_zeros_head (rev l)) as Hh. unfold cs, poly_normalize. rewrite rev_involutive.
    destruct (drop_zeros o (rev l)) as [|c r]; [reflexivity|]. rewrite Hh. reflexivity.
  Qed.
End PolyCodec.

(* Polynomial<BFieldElement> and Polynomial<XFieldElement>: one resp. three words per coefficient *)
Theorem bfe_poly_decode_encode (l : list Z) : zlen (poly_normalize bfe_ops l) + 2 <= Lucas.P ->
  poly_decode bfe_ops 1 bfe_dec (poly_encode bfe_ops bfe_enc l) = Some (poly_normalize bfe_ops l).
Proof.
  intros Hs. apply (poly_decode_encode bfe_ops 1 bfe_enc bfe_dec (fun _ => True)); [lia|intros c _; split; reflexivity| |lia].
  apply Forall_forall. intros; exact I.
Qed.
Theorem xfe_poly_decode_encode (l : list xfe) : zlen (poly_normalize xfe_ops l) * 3 + 2 <= Lucas.P ->
  poly_decode xfe_ops 3 xfe_dec (poly_encode xfe_ops xfe_enc l) = Some (poly_normalize xfe_ops l).
Proof.
  intros Hs. apply (poly_decode_encode xfe_ops 3 xfe_enc xfe_dec (fun _ => True)); [lia|intros [[a b] c] _; split; reflexivity| |exact Hs].
  apply Forall_forall. intros; exact I.
Qed.

(* ------------------------------------------------------------------ impl Display for Polynomial, the degree logic
   (poly_display_terms: one entry (coefficient, power, " + " printed before it, coefficient printed) per printed term) *)
Section Display.
  Context {F : Type} (o : fops F).
  Definition display_term (deg : Z) (cp : F * Z) : list (F * Z * bool * bool) :=
    if fis_zero o (fst cp) then []
    else [(fst cp, snd cp, negb (snd cp =? deg), negb (feqb o (fst cp) (fone o)) || (snd cp =? 0))].
  Lemma display_go_spec deg r : forall pow,
    display_go o deg r pow = flat_map (display_term deg) (combine r (map (fun i => pow - Z.of_nat i) (seq 0 (length r)))).
  Proof.
    induction r as [|c r IH]; intros pow; [reflexivity|]. cbn [display_go length seq map combine flat_map].
    unfold display_term at 1. cbn [fst snd]. change (Z.of_nat 0) with 0. rewrite Z.sub_0_r. f_equal.
    rewrite IH, <- seq_shift, map_map. do 2 f_equal. apply map_ext. intros i. lia.
  Qed.
  (* the i-th stored coefficient from the top is printed with the power degree - i, exactly when it is non-zero *)
  Theorem display_terms_spec l :
    let cs := poly_normalize o l in
    let d := poly_degree o l in
    poly_display_terms o l = flat_map (display_term d) (combine (rev cs) (map (fun i => d - Z.of_nat i) (seq 0 (length cs)))).
  Proof. cbv zeta. unfold poly_display_terms. rewrite display_go_spec, rev_length. reflexivity. Qed.
  (* the zero polynomial prints no term ("0"); otherwise the first term is the leading coefficient with the power `degree`,
     no " + " in front of it, and every later term has a smaller power and a " + " in front *)
  Theorem display_terms_zero l : poly_degree o l < 0 -> poly_display_terms o l = [].
  Proof.
    intros Hd. unfold poly_display_terms. unfold poly_degree in Hd. destruct (poly_normalize o l) as [|c cs]; [reflexivity|].
    unfold zlen in Hd. cbn [length] in Hd. lia.
  Qed.
  Lemma display_go_later deg r : forall pow, pow < deg ->
    Forall (fun t => snd (fst t) = true /\ snd (fst (fst t)) < deg) (display_go o deg r pow).
  Proof.
    induction r as [|c r IH]; intros pow Hp; [constructor|]. cbn [display_go]. apply Forall_app. split; [|apply IH; lia].
    destruct (fis_zero o c); [constructor|]. constructor; [|constructor]. cbn [fst snd]. split; [|exact Hp].
    replace (pow =? deg) with false by (symmetry; apply Z.eqb_neq; lia). reflexivity.
  Qed.
  Theorem display_terms_head l : 0 <= poly_degree o l ->
    exists c rest, idx l (poly_degree o l) = Some c /\ fis_zero o c = false /\
      poly_display_terms o l = (c, poly_degree o l, false, negb (feqb o c (fone o)) || (poly_degree o l =? 0)) :: rest /\
      Forall (fun t => snd (fst t) = true /\ snd (fst (fst t)) < poly_degree o l) rest.
  Proof.
    intros Hd. unfold poly_display_terms. set (d := poly_degree o l) in *.
    pose proof (drop_zeros_head o (rev l)) as Hh. unfold poly_normalize. rewrite rev_involutive.
    assert (Ed : d = zlen (drop_zeros o (rev l)) - 1).
    { unfold d, poly_degree, poly_normalize, zlen. rewrite rev_length. reflexivity. }
    destruct (drop_zeros o (rev l)) as [|c r] eqn:E; [unfold zlen in Ed; cbn [length] in Ed; lia|].
    exists c, (display_go o d r (d - 1)). split; [|split; [exact Hh|split]].
    - (* the head of the reversed normal form is the coefficient at index degree *)
      assert (En : poly_normalize o l = rev r ++ [c]) by (unfold poly_normalize; rewrite E; reflexivity).
      assert (Lr : length r = Z.to_nat d) by (unfold zlen in Ed; cbn [length] in Ed; lia).
      assert (Hpre : exists t, l = poly_normalize o l ++ t).
      { unfold poly_normalize. clear. set (rl := rev l). assert (X : exists z, rl = z ++ drop_zeros o rl).
        { induction rl as [|x rl IH]; [exists []; reflexivity|]. cbn [drop_zeros]. destruct (fis_zero o x); [|exists []; reflexivity].
          destruct IH as [z Ez]. exists (x :: z). cbn [app]. rewrite <- Ez. reflexivity. }
        destruct X as [z Ez]. exists (rev z). rewrite <- rev_app_distr, <- Ez. unfold rl. symmetry. apply rev_involutive. }
      destruct Hpre as [t Et].
      unfold idx. replace (d <? 0) with false by (symmetry; apply Z.ltb_ge; exact Hd). rewrite Et, En, <- app_assoc.
      rewrite nth_error_app2 by (rewrite rev_length; lia). rewrite rev_length, Lr, Nat.sub_diag. reflexivity.
    - cbn [display_go]. rewrite Hh, Z.eqb_refl. reflexivity.
    - apply display_go_later. lia.
  Qed.
End Display.

(* Display and the codec see only the polynomial, not the stored leading zeros *)
From TF Require Import FieldTheory PolySpec PolyCoreProofs PolyValueSem.
Theorem vs_display {F K} (o : fops F) (fk : fieldK K) ok den : field_ok o fk ok den ->
  forall a a', same fk ok den a a' -> poly_display_terms o a = poly_display_terms o a'.
Proof.
  intros H a a' S. unfold poly_display_terms.
  rewrite (vs_degree o fk ok den H a a' S). pose proof (vs_coefficients o fk ok den H a a' S) as E. unfold poly_coefficients in E.
  rewrite E. reflexivity.
Qed.
