(* proofs/PolyDeepenColinear.v - are_colinear_3 / are_colinear / get_colinear_y of polynomial.rs (property C08, helpers).
   `on_line a c p` : the point p = (x, y) lies on the line Y = a X + c (in the denoted field). *)
From Coq Require Import ZArith Lia List Bool Ring Field.
From TF Require Import Word BFieldGen BField XField FieldOps FieldTheory PolyGen PolyCore PolySpec Ntt PolyInterp PolyInterpBase.
Import ListNotations.
Open Scope Z_scope.

Section Colinear.
  Context {F K : Type} (o : fops F) (fk : fieldK K) (ok : F -> Prop) (den : F -> K).
  Hypothesis H : field_ok o fk ok den.
  Declare Scope KC_scope.
  Delimit Scope KC_scope with K.
  Local Notation "0" := (k0 fk) : KC_scope.
  Local Notation "x + y" := (kadd fk x y) : KC_scope.
  Local Notation "x * y" := (kmul fk x y) : KC_scope.
  Local Notation "x - y" := (ksub fk x y) : KC_scope.
  Local Notation "/ x" := (kinv fk x) : KC_scope.
  Local Notation D := (map den).
  Local Notation okl := (Forall ok).
  Add Field kfield_PolyDeepenColinear : (kFT fk).

  Definition pok (p : F * F) : Prop := ok (fst p) /\ ok (snd p).
  Definition on_line (a c : K) (p : F * F) : Prop := den (snd p) = (a * den (fst p) + c)%K.

  Lemma mem_spec x l : ok x -> okl l -> (pint_mem o x l = true <-> In (den x) (D l)).
  Proof.
    intros Hx. induction l as [|y l IH]; intros Hl; [split; [discriminate|intros []]|].
    inversion Hl as [|? ? Hy Hl']; subst. cbn [pint_mem map In]. rewrite orb_true_iff, (fo_eqb _ _ _ _ H x y Hx Hy), (IH Hl').
    split; intros [E|E]; auto.
  Qed.
  Lemma all_unique_spec l : okl l -> (pint_all_unique o l = true <-> NoDup (D l)).
  Proof.
    induction l as [|x l IH]; intros Hl; [split; [constructor|reflexivity]|].
    inversion Hl as [|? ? Hx Hl']; subst. cbn [pint_all_unique map]. rewrite andb_true_iff, negb_true_iff, (IH Hl'). split.
    - intros [E1 E2]. constructor; [|exact E2]. intros Hin. apply (mem_spec x l Hx Hl') in Hin. congruence.
    - intros Hnd. inversion Hnd as [|? ? Hn Hnd']; subst. split; [|exact Hnd'].
      destruct (pint_mem o x l) eqn:E; [|reflexivity]. exfalso. apply Hn. apply (mem_spec x l Hx Hl'). exact E.
  Qed.

  Lemma sub_cancel (a b : K) : (a - b)%K = 0%K <-> a = b.
  Proof. split; intros E; [transitivity ((a - b) + b)%K; [ring|rewrite E; ring]|rewrite E; ring]. Qed.

  (* are_colinear_3: true iff the abscissae are pairwise distinct and the three points lie on one line *)
  Theorem are_colinear_3_spec p0 p1 p2 : pok p0 -> pok p1 -> pok p2 ->
    (pint_are_colinear_3 o p0 p1 p2 = true <->
     den (fst p0) <> den (fst p1) /\ den (fst p1) <> den (fst p2) /\ den (fst p2) <> den (fst p0) /\
     exists a c, on_line a c p0 /\ on_line a c p1 /\ on_line a c p2).
  Proof.
    intros [X0 Y0] [X1 Y1] [X2 Y2]. unfold pint_are_colinear_3, on_line.
    pose proof (fo_eqb _ _ _ _ H _ _ X0 X1) as E01. pose proof (fo_eqb _ _ _ _ H _ _ X1 X2) as E12. pose proof (fo_eqb _ _ _ _ H _ _ X2 X0) as E20.
    destruct (feqb o (fst p0) (fst p1)) eqn:B01; [split; [discriminate|intros [N _]; exfalso; apply N, E01; reflexivity]|].
    destruct (feqb o (fst p1) (fst p2)) eqn:B12; [split; [discriminate|intros [_ [N _]]; exfalso; apply N, E12; reflexivity]|].
    destruct (feqb o (fst p2) (fst p0)) eqn:B20; [split; [discriminate|intros [_ [_ [N _]]]; exfalso; apply N, E20; reflexivity]|].
    cbn [orb].
    assert (N01 : den (fst p0) <> den (fst p1)) by (intros E; apply E01 in E; congruence).
    assert (N12 : den (fst p1) <> den (fst p2)) by (intros E; apply E12 in E; congruence).
    assert (N20 : den (fst p2) <> den (fst p0)) by (intros E; apply E20 in E; congruence).
    assert (Odx : ok (fsub o (fst p0) (fst p1))) by (apply (pb_ok_sub o fk ok den H); assumption).
    assert (Ody : ok (fsub o (snd p0) (snd p1))) by (apply (pb_ok_sub o fk ok den H); assumption).
    assert (O20y : ok (fsub o (snd p2) (snd p0))) by (apply (pb_ok_sub o fk ok den H); assumption).
    assert (O20x : ok (fsub o (fst p2) (fst p0))) by (apply (pb_ok_sub o fk ok den H); assumption).
    rewrite (fo_eqb _ _ _ _ H) by (apply (pb_ok_mul o fk ok den H); assumption).
    rewrite !(pb_den_mul o fk ok den H), !(pb_den_sub o fk ok den H) by assumption.
    set (x0 := den (fst p0)) in *. set (x1 := den (fst p1)) in *. set (x2 := den (fst p2)) in *.
    set (y0 := den (snd p0)). set (y1 := den (snd p1)). set (y2 := den (snd p2)).
    assert (Ndx : (x0 - x1)%K <> 0%K) by (intros E; apply N01, sub_cancel; exact E).
    split.
    - intros E. split; [exact N01|]. split; [exact N12|]. split; [exact N20|].
      exists ((y0 - y1) * / (x0 - x1))%K, (y0 - (y0 - y1) * / (x0 - x1) * x0)%K. split; [ring|]. split; [field; exact Ndx|].
      transitivity (y0 + / (x0 - x1) * ((x0 - x1) * (y2 - y0)))%K; [field; exact Ndx|]. rewrite E. field. exact Ndx.
    - intros [_ [_ [_ [a [c [L0 [L1 L2]]]]]]]. rewrite L0, L1, L2. ring.
  Qed.

  (* are_colinear: never panics; true iff there are at least three points, with pairwise distinct abscissae, all on one line *)
  Theorem are_colinear_spec points : Forall pok points ->
    exists b, pint_are_colinear o points = Some b /\
      (b = true <-> (3 <= length points)%nat /\ NoDup (D (map fst points)) /\ exists a c, Forall (on_line a c) points).
  Proof.
    intros Hp. unfold pint_are_colinear.
    assert (Ox : okl (map fst points)).
    { clear - Hp. induction Hp as [|p ps [A _] _ IH]; constructor; assumption. }
    destruct (zlen points <? 3) eqn:E3.
    { apply Z.ltb_lt in E3. exists false. split; [reflexivity|]. split; [discriminate|]. intros [L _]. unfold zlen in E3. lia. }
    apply Z.ltb_ge in E3. unfold zlen in E3.
    destruct (pint_all_unique o (map fst points)) eqn:Eu; cbn [negb].
    2: { exists false. split; [reflexivity|]. split; [discriminate|]. intros [_ [Hnd _]]. apply (all_unique_spec _ Ox) in Hnd. congruence. }
    apply (all_unique_spec _ Ox) in Eu.
    destruct points as [|[p0x p0y] [|[p1x p1y] rest]]; try (cbn in E3; lia).
    inversion Hp as [|? ? [X0 Y0] Hp1]; subst. inversion Hp1 as [|? ? [X1 Y1] Hr]; subst. cbn [fst snd] in *.
    assert (N01 : den p0x <> den p1x).
    { cbn [map] in Eu. inversion Eu as [|? ? Hn _]; subst. intros E. apply Hn. left. symmetry. exact E. }
    assert (Ndx : (den p0x - den p1x)%K <> 0%K) by (intros E; apply N01, sub_cancel; exact E).
    assert (Ody : ok (fsub o p0y p1y)) by (apply (pb_ok_sub o fk ok den H); assumption).
    assert (Odx : ok (fsub o p0x p1x)) by (apply (pb_ok_sub o fk ok den H); assumption).
    destruct (pb_fdiv_some o fk ok den H _ _ Ody Odx ltac:(rewrite (pb_den_sub o fk ok den H) by assumption; exact Ndx)) as [a [Ea [Oa Da]]].
    rewrite Ea. rewrite !(pb_den_sub o fk ok den H) in Da by assumption.
    set (b := fsub o p0y (fmul o a p0x)).
    assert (Ob : ok b) by (apply (pb_ok_sub o fk ok den H); [exact Y0|apply (pb_ok_mul o fk ok den H); assumption]).
    assert (Db : den b = (den p0y - den a * den p0x)%K).
    { unfold b. rewrite (pb_den_sub o fk ok den H), (pb_den_mul o fk ok den H); try assumption; [reflexivity|apply (pb_ok_mul o fk ok den H); assumption]. }
    eexists. split; [reflexivity|].
    assert (Hfa : forallb (fun xy => feqb o (fadd o (fmul o a (fst xy)) b) (snd xy)) rest = true <-> Forall (on_line (den a) (den b)) rest).
    { clear - H Hr Oa Ob. induction Hr as [|[x y] r [Hx Hy] _ IH]; [split; [constructor|reflexivity]|]. cbn [forallb fst snd].
      rewrite andb_true_iff, IH. cbn [fst snd] in *.
      assert (O1 : ok (fmul o a x)) by (apply (pb_ok_mul o fk ok den H); assumption).
      rewrite (fo_eqb _ _ _ _ H) by (try assumption; apply (pb_ok_add o fk ok den H); assumption).
      rewrite (pb_den_add o fk ok den H), (pb_den_mul o fk ok den H) by assumption.
      split; [intros [E1 E2]; constructor; [unfold on_line; cbn [fst snd]; symmetry; exact E1|exact E2]|].
      intros Hf. inversion Hf as [|? ? E1 E2]; subst. split; [unfold on_line in E1; cbn [fst snd] in E1; symmetry; exact E1|exact E2]. }
    rewrite Hfa. split.
    - intros Hf. split; [cbn [length] in *; lia|]. split; [exact Eu|]. exists (den a), (den b).
      constructor; [unfold on_line; cbn [fst snd]; rewrite Db; ring|]. constructor; [|exact Hf].
      unfold on_line. cbn [fst snd]. rewrite Db, Da. field. exact Ndx.
    - intros [_ [_ [a2 [c2 Hall]]]]. inversion Hall as [|? ? L0 Hall1]; subst. inversion Hall1 as [|? ? L1 Hrest]; subst.
      unfold on_line in L0, L1. cbn [fst snd] in L0, L1.
      assert (Ea2 : a2 = den a).
      { rewrite Da, L0, L1. field. exact Ndx. }
      assert (Ec2 : c2 = den b) by (rewrite Db, L0, Ea2; ring).
      rewrite <- Ea2, <- Ec2. exact Hrest.
  Qed.

  (* get_colinear_y: None exactly when the two abscissae coincide; otherwise THE ordinate at p2x of the line through p0, p1 *)
  Theorem get_colinear_y_spec p0 p1 p2x : pok p0 -> pok p1 -> ok p2x ->
    (den (fst p0) = den (fst p1) -> pint_get_colinear_y o p0 p1 p2x = None) /\
    (den (fst p0) <> den (fst p1) ->
     exists y, pint_get_colinear_y o p0 p1 p2x = Some y /\ ok y /\
               (exists a c, on_line a c p0 /\ on_line a c p1 /\ on_line a c (p2x, y)) /\
               forall a c, on_line a c p0 -> on_line a c p1 -> den y = (a * den p2x + c)%K).
  Proof.
    intros [X0 Y0] [X1 Y1] X2. unfold pint_get_colinear_y, on_line.
    pose proof (fo_eqb _ _ _ _ H _ _ X0 X1) as E01. split.
    - intros E. apply E01 in E. rewrite E. reflexivity.
    - intros N01. destruct (feqb o (fst p0) (fst p1)) eqn:B01; [exfalso; apply N01, E01; reflexivity|].
      assert (Odx : ok (fsub o (fst p0) (fst p1))) by (apply (pb_ok_sub o fk ok den H); assumption).
      assert (Ody : ok (fsub o (snd p0) (snd p1))) by (apply (pb_ok_sub o fk ok den H); assumption).
      assert (O2 : ok (fsub o p2x (fst p0))) by (apply (pb_ok_sub o fk ok den H); assumption).
      assert (O3 : ok (fmul o (fsub o (snd p0) (snd p1)) (fsub o p2x (fst p0)))) by (apply (pb_ok_mul o fk ok den H); assumption).
      assert (O4 : ok (fmul o (fsub o (fst p0) (fst p1)) (snd p0))) by (apply (pb_ok_mul o fk ok den H); assumption).
      assert (Onum : ok (fadd o (fmul o (fsub o (snd p0) (snd p1)) (fsub o p2x (fst p0))) (fmul o (fsub o (fst p0) (fst p1)) (snd p0))))
        by (apply (pb_ok_add o fk ok den H); assumption).
      assert (Ndx : den (fsub o (fst p0) (fst p1)) <> 0%K).
      { rewrite (pb_den_sub o fk ok den H) by assumption. intros E. apply N01, sub_cancel. exact E. }
      destruct (pb_fdiv_some o fk ok den H _ _ Onum Odx Ndx) as [y [Ey [Oy Dy]]]. exists y. split; [exact Ey|]. split; [exact Oy|].
      rewrite (pb_den_add o fk ok den H), !(pb_den_mul o fk ok den H), !(pb_den_sub o fk ok den H) in Dy by assumption.
      rewrite (pb_den_sub o fk ok den H) in Ndx by assumption.
      set (x0 := den (fst p0)) in *. set (x1 := den (fst p1)) in *. set (y0 := den (snd p0)) in *. set (y1 := den (snd p1)) in *.
      cbn [fst snd]. split.
      + exists ((y0 - y1) * / (x0 - x1))%K, (y0 - (y0 - y1) * / (x0 - x1) * x0)%K. split; [ring|]. split; [field; exact Ndx|].
        rewrite Dy. field. exact Ndx.
      + intros a c L0 L1. rewrite Dy, L0, L1. field. exact Ndx.
  Qed.
End Colinear.

(* ------------------------------------------------------------------ Polynomial<BFieldElement> *)
From TF Require Import BFieldProofs BFieldOk.
Theorem bfe_are_colinear_spec points : Forall (pok canon) points ->
  exists b, pint_are_colinear bfe_ops points = Some b /\
    (b = true <-> (3 <= length points)%nat /\ NoDup (map bden (map fst points)) /\ exists a c, Forall (on_line fp_field bden a c) points).
Proof. exact (are_colinear_spec bfe_ops fp_field canon bden bfe_field_ok points). Qed.
