(* proofs/PolyDeepenDiv.v - the division family of model/PolyInterp.v (`pint_` names, the copy the C08 routines call) against
   the division family of model/PolyDiv.v (`pdiv_` names, the model property C09 is proved about).

   Part A (Section Same): whenever the C09 model returns `Some r`, the C08 copy returns the same `Some r`
       pdiv_f args = Some r  ->  pint_f args = Some r
   for naive_divide / reduce_long_division / formal_power_series_inverse_minimal / structured_multiple(_of_degree) /
   shift_factor_ntt_with_tail_length / reduce_by_ntt_friendly_modulus / reduce_by_structured_modulus / fast_reduce / reduce
   (the two models differ only in how they spell bounds checks that cannot fail when the C09 model succeeds, and in
   equivalent formulations of the same iterator chains).
   Part B (Section Transfer): the C09 theorems (PolyDivProofs: reduce_spec, fast_reduce_spec, shift_factor_spec,
   reduce_by_ntt_friendly_modulus_spec) restated for the pint_ copies, in the form of the hypotheses of the C08 theorems
   with an explicit bound on the degree of the modulus (`red_exact_b`, `fred_exact_b`, `rbnf_exact_b`).
   Part C: the instances for Polynomial<BFieldElement> (C06 hypotheses discharged, lmax = 31). *)
From Coq Require Import ZArith Lia List Bool.
From TF Require Import Word BFieldGen BField XField FieldOps FieldTheory PolyGen PolyCore PolySpec Ntt PolyDiv PolyInterp
  PolyCoreProofs Dft NttDft PolyDivProofs PolyInterpAlg PolyInterpBase PolyInterpProofs PolyC07Wrap.
Import ListNotations.
Open Scope Z_scope.
Ltac Zify.zify_post_hook ::= Z.div_mod_to_equations.

Section Same.
  Context {F : Type} (o : fops F).
  Variable ntt : list F -> option (list F).
  Variable intt : list F -> option (list F).

  Lemma same_sub_row qc ds r : pint_sub_row o qc ds r = pdiv_sub_row o qc ds r.
  Proof. revert r. induction ds as [|d ds IH]; intros r; [reflexivity|]. destruct r as [|x r]; [reflexivity|]. cbn [pint_sub_row pdiv_sub_row]. rewrite IH. reflexivity. Qed.
  Lemma same_div_loop n inv ds r q : pint_div_loop o n inv ds r q = pdiv_div_loop o n inv ds r q.
  Proof.
    revert r q. induction n as [|n IH]; intros r q; [reflexivity|]. destruct r as [|lc r]; [reflexivity|].
    cbn [pint_div_loop pdiv_div_loop]. rewrite same_sub_row. destruct (fis_zero o (fmul o lc inv)); [apply IH|].
    destruct (pdiv_sub_row o (fmul o lc inv) ds r); [apply IH|reflexivity].
  Qed.
  Lemma same_naive_divide a d : pint_naive_divide o a d = pdiv_naive_divide o a d.
  Proof.
    unfold pint_naive_divide, pdiv_naive_divide. destruct (poly_leading_coefficient o d) as [[lc|]|]; try reflexivity.
    destruct (finv o lc) as [inv|]; [|reflexivity]. destruct (poly_degree o a - poly_degree o d <? 0); [reflexivity|].
    rewrite same_div_loop. unfold poly_normalize at 2. rewrite rev_involutive. reflexivity.
  Qed.
  Lemma same_reduce_long_division a m : pint_reduce_long_division o a m = pdiv_reduce_long_division o a m.
  Proof. unfold pint_reduce_long_division, pdiv_reduce_long_division, pint_divide, pdiv_divide. rewrite same_naive_divide. reflexivity. Qed.

  (* inner product: fold over the zipped pairs = fold over the pointwise products *)
  Lemma same_inner (a b : list F) acc :
    fold_left (fun acc lr => fadd o acc (fmul o (fst lr) (snd lr))) (combine a b) acc = fold_left (fadd o) (map2 (fmul o) a b) acc.
  Proof.
    revert b acc. induction a as [|x a IH]; intros b acc; [reflexivity|]. destruct b as [|y b]; [reflexivity|].
    cbn [combine map2 fold_left fst snd]. apply IH.
  Qed.
  Lemma same_fpsi_loop n tail lc_inv grev : pint_fpsi_loop o n tail lc_inv grev = pdiv_fpsi_min_loop o n tail lc_inv grev.
  Proof.
    revert grev. induction n as [|n IH]; intros grev; [reflexivity|]. cbn [pint_fpsi_loop pdiv_fpsi_min_loop].
    unfold pdiv_inner_product. rewrite same_inner. apply IH.
  Qed.
  Lemma same_fpsi_minimal a n : pint_fpsi_minimal o a n = pdiv_fpsi_minimal o a n.
  Proof. unfold pint_fpsi_minimal, pdiv_fpsi_minimal. destruct a as [|c0 t]; [reflexivity|]. destruct (finv o c0); [|reflexivity]. rewrite same_fpsi_loop. reflexivity. Qed.
  Lemma same_structured_multiple_of_degree a n :
    pint_structured_multiple_of_degree o ntt intt a n = pdiv_structured_multiple_of_degree o ntt intt a n.
  Proof.
    unfold pint_structured_multiple_of_degree, pdiv_structured_multiple_of_degree.
    destruct (poly_degree o a <? 0); [reflexivity|]. destruct (n <? poly_degree o a); [reflexivity|].
    destruct (poly_degree o a =? 0); [reflexivity|]. rewrite same_fpsi_minimal.
    destruct (pdiv_fpsi_minimal o (poly_reverse o a) (n - poly_degree o a)) as [ir|]; [|reflexivity].
    destruct (poly_multiply o ntt intt (poly_reverse o a) ir) as [pr|]; [|reflexivity].
    destruct (poly_degree o (poly_reverse o pr) <? 0); [reflexivity|]. cbn [orb].
    destruct (n <? poly_degree o (poly_reverse o pr)); reflexivity.
  Qed.
  Lemma same_structured_multiple a : pint_structured_multiple o ntt intt a = pdiv_structured_multiple o ntt intt a.
  Proof. unfold pint_structured_multiple, pdiv_structured_multiple. destruct (poly_degree o a <? 0); [reflexivity|]. apply same_structured_multiple_of_degree. Qed.

  (* index of the last non-zero entry = degree *)
  Lemma last_nonzero_degree l : forall i best,
    pint_last_nonzero o l i best = if poly_degree o l <? 0 then best else Some (i + poly_degree o l).
  Proof.
    induction l as [|c l IH]; intros i best; [reflexivity|]. cbn [pint_last_nonzero]. rewrite IH.
    unfold poly_degree. rewrite (pb_normalize_cons o c l). destruct (poly_normalize o l) as [|b r] eqn:E.
    - change (zlen (@nil F) - 1 <? 0) with true. cbv iota. destruct (fis_zero o c); [reflexivity|].
      change (zlen [c] - 1) with 0. change (0 <? 0) with false. cbv iota. rewrite Z.add_0_r. reflexivity.
    - assert (Hp : 0 <= zlen (b :: r) - 1) by (unfold zlen; cbn [length]; lia).
      replace (zlen (b :: r) - 1 <? 0) with false by (symmetry; apply Z.ltb_ge; exact Hp).
      replace (zlen (c :: b :: r) - 1 <? 0) with false by (symmetry; apply Z.ltb_ge; rewrite pb_zlen_cons; lia).
      f_equal. rewrite (pb_zlen_cons c). lia.
  Qed.
  Lemma same_tail_length l :
    1 + match pint_last_nonzero o l 0 None with Some i => i | None => 0 end = 1 + Z.max 0 (poly_degree o l).
  Proof.
    rewrite last_nonzero_degree. pose proof (pb_degree_ge o l) as G. destruct (poly_degree o l <? 0) eqn:E.
    - apply Z.ltb_lt in E. lia.
    - apply Z.ltb_ge in E. lia.
  Qed.
  Lemma same_shift_factor a :
    pint_shift_factor_ntt_with_tail_length o ntt intt a = pdiv_shift_factor_ntt_with_tail_length o ntt intt a.
  Proof.
    unfold pint_shift_factor_ntt_with_tail_length, pdiv_shift_factor_ntt_with_tail_length.
    destruct (poly_degree o a <? 0); [reflexivity|]. rewrite same_structured_multiple_of_degree.
    destruct (pdiv_structured_multiple_of_degree o ntt intt a _) as [nfm|]; [|reflexivity].
    rewrite same_tail_length. reflexivity.
  Qed.

  (* the chunk loop of reduce_by_ntt_friendly_modulus: the C09 model has two more bounds checks *)
  Lemma refine_rbnf_loop k a s cs tail : forall ww r,
    pdiv_ntt_friendly_loop o ntt intt k a s cs tail ww = Some r -> pint_rbnf_loop o ntt intt k a s cs tail ww = Some r.
  Proof.
    induction k as [|k IH]; intros ww r E; [exact E|]. cbn [pdiv_ntt_friendly_loop pint_rbnf_loop] in *.
    destruct (zlen ww <? tail); [discriminate|].
    destruct (ntt (drop tail ww ++ zrepeat (fzero o) tail)) as [p1|]; [|discriminate].
    destruct (intt (map2 (fmul o) p1 s)) as [product|]; [|discriminate].
    destruct (negb (zlen (take cs (drop (Z.of_nat k * cs) a)) =? cs)); [discriminate|].
    destruct (zlen product <? zlen (take cs (drop (Z.of_nat k * cs) a) ++ take tail ww)); [discriminate|].
    apply IH. exact E.
  Qed.
  Lemma refine_rbnf a s tail r :
    pdiv_reduce_by_ntt_friendly_modulus o ntt intt true a s tail = Some r ->
    pint_reduce_by_ntt_friendly_modulus o ntt intt a s tail = Some r.
  Proof.
    unfold pdiv_reduce_by_ntt_friendly_modulus, pint_reduce_by_ntt_friendly_modulus.
    destruct (negb (is_pow2 (zlen s))); [discriminate|]. destruct (zlen s <? tail) eqn:E0; [discriminate|].
    replace (zlen s - tail + tail) with (zlen s) by lia.
    destruct (zlen a <? zlen s); [exact (fun E => E)|]. destruct (zlen s - tail =? 0); [discriminate|].
    unfold pint_div_ceil. replace (zlen a - (tail + (zlen s - tail)) + (zlen s - tail) - 1) with (zlen a - zlen s + (zlen s - tail) - 1) by lia.
    intros E. apply refine_rbnf_loop.
    match goal with |- context [if ?c then _ else _] => destruct c end; exact E.
  Qed.

  (* the chunk loop of reduce_by_structured_modulus: window_start = (chunks left) * chunk_size *)
  Lemma refine_rbs_loop k a shift cs tail : 0 <= tail -> forall ww r,
    pdiv_structured_loop o ntt intt k a shift cs tail (Z.of_nat k * cs) ww = Some r ->
    pint_rbs_loop o ntt intt k a shift cs tail ww = Some r.
  Proof.
    intros Ht. induction k as [|k IH]; intros ww r E; [exact E|]. cbn [pdiv_structured_loop pint_rbs_loop] in *.
    destruct (zlen ww <? tail) eqn:E0; [discriminate|]. apply Z.ltb_ge in E0.
    destruct (poly_multiply o ntt intt (drop tail ww) shift) as [product|]; [|discriminate].
    replace (Z.of_nat (S k) * cs - cs) with (Z.of_nat k * cs) in E by lia.
    destruct (Z.of_nat k * cs <? 0); [discriminate|].
    destruct (negb (zlen (take cs (drop (Z.of_nat k * cs) a)) =? cs)) eqn:E1; [discriminate|].
    apply negb_false_iff, Z.eqb_eq in E1.
    replace (zlen (take cs (drop (Z.of_nat k * cs) a) ++ take tail ww)) with (cs + tail) in E.
    - apply IH. exact E.
    - rewrite pb_zlen_app, E1, pb_zlen_take. lia.
  Qed.
  Lemma refine_rbs a mult r :
    pdiv_reduce_by_structured_modulus o ntt intt a mult = Some r -> pint_reduce_by_structured_modulus o ntt intt a mult = Some r.
  Proof.
    unfold pdiv_reduce_by_structured_modulus, pint_reduce_by_structured_modulus.
    destruct (poly_degree o mult <=? 0) eqn:E0; [discriminate|]. apply Z.leb_gt in E0.
    replace (poly_degree o mult =? 0) with false by (symmetry; apply Z.eqb_neq; lia).
    replace (poly_degree o mult <? 0) with false by (symmetry; apply Z.ltb_ge; lia).
    destruct (poly_leading_coefficient o mult) as [[c|]|]; try discriminate.
    destruct (negb (feqb o c (fone o))); [discriminate|].
    set (shift := poly_sub o mult (poly_x_to_the o (poly_degree o mult))).
    destruct (negb (poly_degree o shift <? poly_degree o mult)); [discriminate|].
    set (tail := if poly_degree o shift <? 0 then 0 else poly_degree o shift + 1).
    assert (Ht : 0 <= tail).
    { unfold tail. destruct (poly_degree o shift <? 0) eqn:E; [lia|]. apply Z.ltb_ge in E. lia. }
    replace (poly_degree o mult - tail + tail) with (poly_degree o mult) by lia.
    destruct (zlen a <? poly_degree o mult); [exact (fun E => E)|].
    destruct (poly_degree o mult - tail =? 0) eqn:E1; [discriminate|]. apply Z.eqb_neq in E1.
    unfold pint_div_ceil.
    replace (zlen a - (tail + (poly_degree o mult - tail)) + (poly_degree o mult - tail) - 1)
      with (zlen a - poly_degree o mult + (poly_degree o mult - tail) - 1) by lia.
    set (num := (zlen a - poly_degree o mult + (poly_degree o mult - tail) - 1) / (poly_degree o mult - tail)).
    destruct (zlen a <? num * (poly_degree o mult - tail)); [discriminate|].
    intros E. apply refine_rbs_loop; [exact Ht|].
    destruct (Z_lt_ge_dec num 0) as [L|G].
    - replace (Z.to_nat num) with O in * by lia. cbn [Z.of_nat]. cbn [pdiv_structured_loop] in *. exact E.
    - rewrite Z2Nat.id by lia. exact E.
  Qed.

  Lemma refine_fast_reduce a m r : pdiv_fast_reduce o ntt intt a m = Some r -> pint_fast_reduce o ntt intt a m = Some r.
  Proof.
    unfold pdiv_fast_reduce, pint_fast_reduce. destruct (poly_degree o m =? 0); [exact (fun E => E)|].
    destruct (poly_degree o a <? poly_degree o m); [exact (fun E => E)|]. rewrite same_shift_factor.
    destruct (pdiv_shift_factor_ntt_with_tail_length o ntt intt m) as [[s tail]|]; [|discriminate].
    destruct (pdiv_reduce_by_ntt_friendly_modulus o ntt intt true a s tail) as [ir1|] eqn:E1; [|discriminate].
    rewrite (refine_rbnf a s tail ir1 E1). rewrite same_structured_multiple.
    destruct (poly_degree o ir1 >? 4 * poly_degree o m).
    - destruct (pdiv_structured_multiple o ntt intt m) as [sm|]; [|discriminate].
      destruct (pdiv_reduce_by_structured_modulus o ntt intt ir1 sm) as [ir2|] eqn:E2; [|discriminate].
      rewrite (refine_rbs ir1 sm ir2 E2), same_reduce_long_division. exact (fun E => E).
    - rewrite same_reduce_long_division. exact (fun E => E).
  Qed.
  Lemma refine_reduce a m r : pdiv_reduce o ntt intt a m = Some r -> pint_reduce o ntt intt a m = Some r.
  Proof.
    unfold pdiv_reduce, pint_reduce. destruct (poly_degree o m <? 0); [discriminate|].
    destruct (poly_degree o m =? 0); [exact (fun E => E)|]. destruct (poly_degree o a <? poly_degree o m); [exact (fun E => E)|].
    destruct (poly_degree o a >? FAST_REDUCE_MAKES_SENSE_MULTIPLE * poly_degree o m).
    - apply refine_fast_reduce.
    - rewrite same_reduce_long_division. exact (fun E => E).
  Qed.
End Same.

(* ================================================================== Part B: the C09 theorems for the pint_ copies *)
Lemma pow2_Zn l : Z.of_nat (2 ^ l) = 2 ^ Z.of_nat l.
Proof. rewrite Nat2Z.inj_pow. reflexivity. Qed.
Lemma next_pow2_lt_double m : 2 <= m -> next_pow2 m <= 2 * (m - 1).
Proof.
  intros Hm. unfold next_pow2. replace (m <=? 1) with false by (symmetry; apply Z.leb_gt; lia).
  pose proof (Z.log2_spec (m - 1) ltac:(lia)) as [S1 _]. pose proof (Z.log2_nonneg (m - 1)).
  rewrite Z.pow_add_r by lia. lia.
Qed.

Section Transfer.
  Context {F K : Type} (o : fops F) (fk : fieldK K) (ok : F -> Prop) (den : F -> K).
  Hypothesis H : field_ok o fk ok den.
  Variable ntt : list F -> option (list F).
  Variable intt : list F -> option (list F).
  Variable lmax : nat.
  Variable wr : nat -> K.
  Hypothesis Hntt : ntt_ok fk ok den ntt lmax wr.
  Hypothesis Hintt : intt_ok fk ok den intt lmax wr.
  Hypothesis Hroots : roots_ok fk lmax wr.
  Local Notation D := (map den).
  Local Notation okl := (Forall ok).
  Lemma nonzero_degree m : okl m -> ~ pzero fk (D m) -> 0 <= poly_degree o m.
  Proof.
    intros Hm NZ. destruct (Z_lt_ge_dec (poly_degree o m) 0) as [L|G]; [|apply Z.ge_le; exact G]. exfalso. apply NZ.
    apply (degree_neg_pzero o fk ok den H m Hm). exact L.
  Qed.
  Hypothesis Hlmax : (9 <= lmax)%nat.
  Local Notation peq := (peq fk).
  Local Notation padd := (padd fk).
  Local Notation pmul := (pmul fk).
  Local Notation psub := (psub fk).
  Add Field kfield_PolyDeepenDiv : (kFT fk).
  Add Ring polyring_PolyDeepenDiv : (poly_ring_theory fk) (setoid (peq_Equivalence fk) (poly_ring_ext fk)).

  (* the size condition of the C09 theorems follows from 4 deg m <= 2^lmax (and 2^9 <= 2^lmax) *)
  Lemma mod_bounds m : 0 <= poly_degree o m -> 4 * poly_degree o m <= 2 ^ Z.of_nat lmax ->
    next_pow2 (Z.max FAST_REDUCE_CUTOFF_THRESHOLD (poly_degree o m * 2)) + 1 <= 2 ^ Z.of_nat lmax /\
    3 * poly_degree o m + 2 <= 2 ^ Z.of_nat lmax.
  Proof.
    intros H0 H4. assert (H9 : 2 ^ 9 <= 2 ^ Z.of_nat lmax) by (apply Z.pow_le_mono_r; lia). change (2 ^ 9) with 512 in H9.
    unfold FAST_REDUCE_CUTOFF_THRESHOLD. split; [|lia].
    destruct (Z_le_gt_dec (poly_degree o m * 2) 256) as [L|G].
    - rewrite Z.max_l by lia. change (next_pow2 256) with 256. lia.
    - rewrite Z.max_r by lia. pose proof (next_pow2_lt_double (poly_degree o m * 2) ltac:(lia)). lia.
  Qed.

  (* the bounded forms of the C09 hypotheses of proofs/PolyInterpProofs.v: the modulus has degree + 1 <= MB *)
  Definition red_exact_b (MB : Z) : Prop := forall a m, okl a -> okl m -> ~ pzero fk (D m) -> poly_degree o m + 1 <= MB ->
    exists r, pint_reduce o ntt intt a m = Some r /\ okl r /\ congruent fk (D a) (D m) (D r).
  Definition fred_exact_b (MB : Z) : Prop := forall a m, okl a -> okl m -> ~ pzero fk (D m) -> poly_degree o m + 1 <= MB ->
    exists r, pint_fast_reduce o ntt intt a m = Some r /\ okl r /\ congruent fk (D a) (D m) (D r).
  Definition rbnf_exact_b (MB : Z) : Prop := forall m, okl m -> ~ pzero fk (D m) -> poly_degree o m + 1 <= MB ->
    exists sc tl, pint_shift_factor_ntt_with_tail_length o ntt intt m = Some (sc, tl) /\
      forall a, okl a -> exists r, pint_reduce_by_ntt_friendly_modulus o ntt intt a sc tl = Some r /\ okl r /\
                                    congruent fk (D a) (D m) (D r).


  (* reduce and fast_reduce return THE remainder (is_rem), hence in particular a congruent polynomial *)
  Theorem pint_reduce_is_rem a m : okl a -> okl m -> ~ pzero fk (D m) -> 4 * poly_degree o m <= 2 ^ Z.of_nat lmax ->
    exists r, pint_reduce o ntt intt a m = Some r /\ okl r /\ is_rem fk (D a) (D m) (D r).
  Proof.
    intros Ha Hm NZ Hb. destruct Hroots as [R1 [R2 R3]].
    destruct (mod_bounds m (nonzero_degree m Hm NZ) Hb) as [B1 B2].
    destruct (reduce_spec o fk ok den H ntt intt lmax wr Hntt Hintt R1 R2 R3 a m Ha Hm NZ B1 B2) as [r [E [Or Ir]]].
    exists r. split; [apply refine_reduce; exact E|]. split; assumption.
  Qed.
  Theorem pint_fast_reduce_is_rem a m : okl a -> okl m -> ~ pzero fk (D m) -> 4 * poly_degree o m <= 2 ^ Z.of_nat lmax ->
    exists r, pint_fast_reduce o ntt intt a m = Some r /\ okl r /\ is_rem fk (D a) (D m) (D r).
  Proof.
    intros Ha Hm NZ Hb. destruct Hroots as [R1 [R2 R3]].
    destruct (mod_bounds m (nonzero_degree m Hm NZ) Hb) as [B1 B2].
    destruct (fast_reduce_spec o fk ok den H ntt intt lmax wr Hntt Hintt R1 R2 R3 a m Ha Hm NZ B1 B2) as [r [E [Or Ir]]].
    exists r. split; [apply refine_fast_reduce; exact E|]. split; assumption.
  Qed.
  Lemma is_rem_congruent a m r : is_rem fk a m r -> congruent fk a m r.
  Proof. intros [[q E] _]. exists q. exact E. Qed.
  Theorem red_exact_of_c09 MB : 4 * (MB - 1) <= 2 ^ Z.of_nat lmax -> red_exact_b MB.
  Proof.
    intros HB a m Ha Hm NZ Hd. destruct (pint_reduce_is_rem a m Ha Hm NZ ltac:(lia)) as [r [E [Or Ir]]].
    exists r. split; [exact E|]. split; [exact Or|apply is_rem_congruent; exact Ir].
  Qed.
  Theorem fred_exact_of_c09 MB : 4 * (MB - 1) <= 2 ^ Z.of_nat lmax -> fred_exact_b MB.
  Proof.
    intros HB a m Ha Hm NZ Hd. destruct (pint_fast_reduce_is_rem a m Ha Hm NZ ltac:(lia)) as [r [E [Or Ir]]].
    exists r. split; [exact E|]. split; [exact Or|apply is_rem_congruent; exact Ir].
  Qed.

  (* modulo a non-zero constant any two polynomials are congruent *)
  Lemma congruent_constant (a m r : list K) : pdeg fk m = 0 -> congruent fk a m r.
  Proof.
    intros Hm. destruct (is_rem_constant_modulus fk a m Hm) as [[q1 E1] _]. destruct (is_rem_constant_modulus fk r m Hm) as [[q2 E2] _].
    exists (psub q1 q2). rewrite E1. transitivity (padd (pmul (psub q1 q2) m) (padd (pmul q2 m) [])); [ring|apply padd_peq; [reflexivity|symmetry; exact E2]].
  Qed.
  Lemma degree_zeros n : poly_degree o (zrepeat (fzero o) n) = -1.
  Proof.
    pose proof (degree_ge o (zrepeat (fzero o) n)) as G.
    assert (L : poly_degree o (zrepeat (fzero o) n) < 0); [|lia].
    apply (degree_neg_pzero o fk ok den H); [apply Forall_zrepeat; exact (ok0 o fk ok den H)|].
    apply peq_nil_pzero. rewrite (pb_D_zeros o fk ok den H). apply pb_peq_zeros.
  Qed.

  (* shift_factor_ntt_with_tail_length + reduce_by_ntt_friendly_modulus keep the residue class, for EVERY non-zero modulus
     (a constant modulus included: everything is congruent modulo a unit, what has to be shown is that nothing panics) *)
  Theorem pint_rbnf_spec m : okl m -> ~ pzero fk (D m) -> 4 * poly_degree o m <= 2 ^ Z.of_nat lmax ->
    exists sc tl l, pint_shift_factor_ntt_with_tail_length o ntt intt m = Some (sc, tl) /\ (l <= lmax)%nat /\
      zlen sc = 2 ^ Z.of_nat l /\
      forall a, okl a -> exists r, pint_reduce_by_ntt_friendly_modulus o ntt intt a sc tl = Some r /\ okl r /\
                                    zlen r <= Z.max (zlen a) (2 ^ Z.of_nat l) /\ congruent fk (D a) (D m) (D r).
  Proof.
    intros Hm NZ Hb. destruct Hroots as [R1 [R2 R3]]. pose proof (nonzero_degree m Hm NZ) as G0.
    destruct (mod_bounds m G0 Hb) as [B1 B2]. rewrite same_shift_factor.
    destruct (Z.eq_dec (poly_degree o m) 0) as [E0|E0].
    - (* constant modulus: the multiple is c^-1 X^256, shift factor 0, tail length 1 *)
      unfold pdiv_shift_factor_ntt_with_tail_length. rewrite E0. cbn [Z.ltb Z.compare Z.mul].
      change (next_pow2 (Z.max FAST_REDUCE_CUTOFF_THRESHOLD 0)) with 256.
      unfold pdiv_structured_multiple_of_degree. rewrite E0. cbn [Z.ltb Z.compare Z.eqb].
      pose proof (degree_pdeg o fk ok den H m Hm) as Dd. rewrite E0 in Dd.
      destruct (coeff_at_pdeg fk (D m) ltac:(lia)) as [C1 C2]. rewrite <- Dd in C1. change (Z.to_nat 0) with O in C1.
      pose proof (degree_lt_len o m) as Ll. rewrite E0 in Ll.
      destruct (idx_lookup m 0 ltac:(lia)) as [c [I1 I2]]. rewrite I1. change (Z.to_nat 0) with O in I2.
      pose proof (nth_error_ok ok m _ c Hm I2) as Hc.
      assert (Ec : coeff fk (D m) 0 = den c) by (rewrite (coeff_D fk den); rewrite I2; reflexivity).
      assert (Nz : den c <> k0 fk) by (rewrite <- Ec, C1; exact C2).
      destruct (fo_inv _ _ _ _ H c Hc Nz) as [ci [Ei [Hci Dci]]]. rewrite Ei.
      rewrite removelast_last, degree_zeros.
      replace (zlen (zrepeat (fzero o) 256 ++ [ci]) <? 256) with false
        by (symmetry; apply Z.ltb_ge; rewrite pb_zlen_app, pb_zlen_zrepeat; unfold zlen; cbn [length]; lia).
      assert (Et : take 256 (zrepeat (fzero o) 256 ++ [ci]) = zrepeat (fzero o) 256).
      { unfold take. rewrite firstn_app. unfold zrepeat at 2. rewrite repeat_length, Nat.sub_diag. cbn [firstn].
        rewrite app_nil_r. apply firstn_all2. unfold zrepeat. rewrite repeat_length. lia. }
      rewrite Et. set (Sp := zrepeat (fzero o) 256).
      assert (HSp : okl Sp) by (apply Forall_zrepeat; exact (ok0 o fk ok den H)).
      assert (LSp : length Sp = (2 ^ 8)%nat) by (unfold Sp, zrepeat; rewrite repeat_length; reflexivity).
      destruct (Hntt 8%nat Sp ltac:(lia) LSp HSp) as [s [S1 [S2 [S3 _]]]]. rewrite S1.
      exists s, (1 + Z.max 0 (-1)), 8%nat. split; [reflexivity|]. split; [lia|].
      split; [unfold zlen; rewrite S3, LSp; reflexivity|]. intros a Ha.
      destruct (reduce_by_ntt_friendly_modulus_spec o fk ok den H ntt intt lmax wr Hntt Hintt R1 R2 R3 true a Sp s (1 + Z.max 0 (-1)) 8%nat
                  ltac:(lia) Ha HSp ltac:(unfold zlen; rewrite LSp; reflexivity) S1 ltac:(cbn; lia)
                  ltac:(unfold Sp; rewrite degree_zeros; cbn; lia)) as [r [E [Or [Lr _]]]].
      exists r. split; [apply refine_rbnf; exact E|]. split; [exact Or|]. split; [exact Lr|]. apply congruent_constant. lia.
    - destruct (shift_factor_spec o fk ok den H ntt intt lmax wr Hntt Hintt R1 R2 R3 m Hm ltac:(lia) B1)
        as [Sp [s [tail [l [F1 [Hl [HSp [LSp [ES [Ht [H2d [Hsd Hdv]]]]]]]]]]]].
      rewrite F1. exists s, tail, l. split; [reflexivity|]. split; [exact Hl|].
      destruct (Hntt l Sp Hl ltac:(unfold zlen in LSp; lia) HSp) as [y [Y1 [_ [Y3 _]]]]. rewrite ES in Y1. inversion Y1; subst y.
      split; [unfold zlen in *; rewrite Y3, <- pow2_Zn; lia|]. intros a Ha.
      destruct (reduce_by_ntt_friendly_modulus_spec o fk ok den H ntt intt lmax wr Hntt Hintt R1 R2 R3 true a Sp s tail l Hl Ha HSp LSp ES
                  ltac:(lia) Hsd) as [r [E [Or [Lr [k C1]]]]].
      exists r. split; [apply refine_rbnf; exact E|]. split; [exact Or|]. split; [rewrite <- pow2_Zn; exact Lr|].
      destruct Hdv as [c Ec]. exists (pmul k c). rewrite C1, Ec. ring.
  Qed.
  Theorem rbnf_exact_of_c09 MB : 4 * (MB - 1) <= 2 ^ Z.of_nat lmax -> rbnf_exact_b MB.
  Proof.
    intros HB m Hm NZ Hd. destruct (pint_rbnf_spec m Hm NZ ltac:(lia)) as [sc [tl [l [E [_ [_ Hr]]]]]].
    exists sc, tl. split; [exact E|]. intros a Ha. destruct (Hr a Ha) as [r [E1 [Or [_ Cr]]]]. exists r. split; [exact E1|]. split; assumption.
  Qed.
End Transfer.

(* ================================================================== Part C: Polynomial<BFieldElement>, no hypothesis left
   (C06: ntt_b / intt_b are the DFT / inverse DFT at the tabulated roots for lengths up to 2^31; modulus degree <= 2^29) *)
From TF Require Import BFieldProofs BFieldOk NttRoots NttProofs PolyValueSem.
Definition BFE_MB : Z := 2 ^ 29 + 1.
Lemma bfe_MB_ok : 4 * (BFE_MB - 1) <= 2 ^ Z.of_nat 31.
Proof. vm_compute. discriminate. Qed.
Lemma bfe_red_exact_b : red_exact_b bfe_ops fp_field canon bden ntt_b intt_b BFE_MB.
Proof.
  exact (red_exact_of_c09 bfe_ops fp_field canon bden bfe_field_ok ntt_b intt_b 31 wr_b bfe_ntt_ok bfe_intt_ok bfe_roots_ok
           (proj1 (Nat.leb_le 9 31) eq_refl) BFE_MB bfe_MB_ok).
Qed.
Lemma bfe_fred_exact_b : fred_exact_b bfe_ops fp_field canon bden ntt_b intt_b BFE_MB.
Proof.
  exact (fred_exact_of_c09 bfe_ops fp_field canon bden bfe_field_ok ntt_b intt_b 31 wr_b bfe_ntt_ok bfe_intt_ok bfe_roots_ok
           (proj1 (Nat.leb_le 9 31) eq_refl) BFE_MB bfe_MB_ok).
Qed.
Lemma bfe_rbnf_exact_b : rbnf_exact_b bfe_ops fp_field canon bden ntt_b intt_b BFE_MB.
Proof.
  exact (rbnf_exact_of_c09 bfe_ops fp_field canon bden bfe_field_ok ntt_b intt_b 31 wr_b bfe_ntt_ok bfe_intt_ok bfe_roots_ok
           (proj1 (Nat.leb_le 9 31) eq_refl) BFE_MB bfe_MB_ok).
Qed.
(* the division family as called by the C08 routines returns THE remainder *)
Theorem bfe_pint_reduce_spec a m : Forall canon a -> Forall canon m -> ~ pzero fp_field (map bden m) ->
  poly_degree bfe_ops m <= 2 ^ 29 ->
  exists r, pint_reduce bfe_ops ntt_b intt_b a m = Some r /\ pdiv_reduce bfe_ops ntt_b intt_b a m = Some r /\ Forall canon r /\
            is_rem fp_field (map bden a) (map bden m) (map bden r).
Proof.
  intros Ha Hm NZ Hd. destruct bfe_roots_ok as [R1 [R2 R3]].
  assert (G0 : 0 <= poly_degree bfe_ops m) by (apply (nonzero_degree bfe_ops fp_field canon bden bfe_field_ok); assumption).
  destruct (mod_bounds bfe_ops 31 (proj1 (Nat.leb_le 9 31) eq_refl) m G0 ltac:(change (2 ^ Z.of_nat 31) with (4 * 2 ^ 29); lia)) as [B1 B2].
  destruct (reduce_spec bfe_ops fp_field canon bden bfe_field_ok ntt_b intt_b 31 wr_b bfe_ntt_ok bfe_intt_ok R1 R2 R3 a m Ha Hm NZ B1 B2)
    as [r [E [Or Ir]]].
  exists r. split; [apply refine_reduce; exact E|]. split; [exact E|]. split; assumption.
Qed.
Theorem bfe_pint_fast_reduce_spec a m : Forall canon a -> Forall canon m -> ~ pzero fp_field (map bden m) ->
  poly_degree bfe_ops m <= 2 ^ 29 ->
  exists r, pint_fast_reduce bfe_ops ntt_b intt_b a m = Some r /\ pdiv_fast_reduce bfe_ops ntt_b intt_b a m = Some r /\ Forall canon r /\
            is_rem fp_field (map bden a) (map bden m) (map bden r).
Proof.
  intros Ha Hm NZ Hd. destruct bfe_roots_ok as [R1 [R2 R3]].
  assert (G0 : 0 <= poly_degree bfe_ops m) by (apply (nonzero_degree bfe_ops fp_field canon bden bfe_field_ok); assumption).
  destruct (mod_bounds bfe_ops 31 (proj1 (Nat.leb_le 9 31) eq_refl) m G0 ltac:(change (2 ^ Z.of_nat 31) with (4 * 2 ^ 29); lia)) as [B1 B2].
  destruct (fast_reduce_spec bfe_ops fp_field canon bden bfe_field_ok ntt_b intt_b 31 wr_b bfe_ntt_ok bfe_intt_ok R1 R2 R3 a m Ha Hm NZ B1 B2)
    as [r [E [Or Ir]]].
  exists r. split; [apply refine_fast_reduce; exact E|]. split; [exact E|]. split; assumption.
Qed.

(* the C09 statements themselves (about model/PolyDiv.v) for Polynomial<BFieldElement>, C06 hypotheses discharged *)
Theorem bfe_reduce_spec a m : Forall canon a -> Forall canon m -> ~ pzero fp_field (map bden m) ->
  next_pow2 (Z.max FAST_REDUCE_CUTOFF_THRESHOLD (poly_degree bfe_ops m * 2)) + 1 <= 2 ^ 31 -> 3 * poly_degree bfe_ops m + 2 <= 2 ^ 31 ->
  exists r, pdiv_reduce bfe_ops ntt_b intt_b a m = Some r /\ Forall canon r /\ is_rem fp_field (map bden a) (map bden m) (map bden r).
Proof.
  destruct bfe_roots_ok as [R1 [R2 R3]].
  exact (reduce_spec bfe_ops fp_field canon bden bfe_field_ok ntt_b intt_b 31 wr_b bfe_ntt_ok bfe_intt_ok R1 R2 R3 a m).
Qed.
Theorem bfe_fast_reduce_spec a m : Forall canon a -> Forall canon m -> ~ pzero fp_field (map bden m) ->
  next_pow2 (Z.max FAST_REDUCE_CUTOFF_THRESHOLD (poly_degree bfe_ops m * 2)) + 1 <= 2 ^ 31 -> 3 * poly_degree bfe_ops m + 2 <= 2 ^ 31 ->
  exists r, pdiv_fast_reduce bfe_ops ntt_b intt_b a m = Some r /\ Forall canon r /\ is_rem fp_field (map bden a) (map bden m) (map bden r).
Proof.
  destruct bfe_roots_ok as [R1 [R2 R3]].
  exact (fast_reduce_spec bfe_ops fp_field canon bden bfe_field_ok ntt_b intt_b 31 wr_b bfe_ntt_ok bfe_intt_ok R1 R2 R3 a m).
Qed.
Theorem bfe_structured_multiple_spec l n : Forall canon l -> 1 <= poly_degree bfe_ops l -> poly_degree bfe_ops l <= n -> n + 1 <= 2 ^ 31 ->
  exists r, pdiv_structured_multiple_of_degree bfe_ops ntt_b intt_b l n = Some r /\ Forall canon r /\
            pdvd fp_field (map bden l) (map bden r) /\ pdeg fp_field (map bden r) = n /\ plead fp_field (map bden r) = k1 fp_field /\
            (forall i, (Z.to_nat (poly_degree bfe_ops l) <= i < Z.to_nat n)%nat -> coeff fp_field (map bden r) i = k0 fp_field) /\
            zlen r = n + 1.
Proof.
  destruct bfe_roots_ok as [R1 [R2 R3]].
  exact (structured_multiple_dft bfe_ops fp_field canon bden bfe_field_ok ntt_b intt_b 31 wr_b bfe_ntt_ok bfe_intt_ok R1 R2 R3 l n).
Qed.
Theorem bfe_reduce_by_ntt_friendly_modulus_spec chk a Sp shift_ntt tail l : (l <= 31)%nat -> Forall canon a -> Forall canon Sp ->
  zlen Sp = Z.of_nat (2 ^ l) -> ntt_b Sp = Some shift_ntt -> 0 <= tail < Z.of_nat (2 ^ l) -> poly_degree bfe_ops Sp < tail ->
  exists r, pdiv_reduce_by_ntt_friendly_modulus bfe_ops ntt_b intt_b chk a shift_ntt tail = Some r /\ Forall canon r /\
            zlen r <= Z.max (zlen a) (Z.of_nat (2 ^ l)) /\
            exists k, peq fp_field (map bden a) (padd fp_field (pmul fp_field k (padd fp_field (map bden Sp) (pXn fp_field (2 ^ l)))) (map bden r)).
Proof.
  destruct bfe_roots_ok as [R1 [R2 R3]].
  exact (reduce_by_ntt_friendly_modulus_spec bfe_ops fp_field canon bden bfe_field_ok ntt_b intt_b 31 wr_b bfe_ntt_ok bfe_intt_ok R1 R2 R3 chk a Sp shift_ntt tail l).
Qed.
