(* proofs/PolyDeepenFmci.v - fast_modular_coset_interpolate for EVERY codeword length (the even/odd recursion above 2^17,
   C08_fmci_full) and the totality / correctness of its preprocessing.

   The interpolant of a codeword y on the coset c <w>, w of order n = 2^l, is assembled from the interpolants Ie / Io of the
   even / odd entries (scaled by -1/2) on the cosets c <w^2> and c w <w^2>:
       I = Ie Zo + Io Ze,      Ze = (X/c)^(n/2) - 1   (zero on the even points, -2 on the odd ones),
                               Zo = (X/(c w))^(n/2) - 1   (zero on the odd points, -2 on the even ones),
   everything modulo the modulus m: the recursive calls return polynomials congruent to Ie, Io, the preprocessing stores
   Ze, Zo reduced modulo m (computed from X^(2^i) mod m by repeated modular squaring), the final `reduce` brings the degree
   below deg m.  What is needed beyond the statements used for the regimes n <= 2^17:
     - `reduce` returns THE remainder (degree < deg m), so that the products formed stay within the range of `multiply`
       (red_rem_b below; PolyDeepenDiv.pint_reduce_is_rem);
     - the roots are compatible, wr (l+1)^2 = wr l (PolyDeepenNewton.bfe_wr_sq for the regenerated table);
     - base-field arithmetic on offsets (`offset * omega`, `mod_pow`) denotes what it should, -1/2 is MINUS_TWO_INVERSE. *)
From Coq Require Import ZArith Lia List Bool Ring Field Setoid Morphisms.
From TF Require Import Word BFieldGen BField XField FieldOps FieldTheory PolyGen PolyCore PolySpec Ntt PolyDiv PolyInterp
  PolyInterpAlg PolyInterpBase BatchInvProofs Dft NttDft PolyCoreProofs PolyC07Wrap PolyDivProofs PolyInterpProofs
  PolyDeepenDiv PolyDeepenInterp.
Import ListNotations.
Open Scope Z_scope.
Ltac Zify.zify_post_hook ::= Z.div_mod_to_equations.

(* ================================================================== K-level algebra *)
Section FmciAlg.
  Context {K : Type} (fk : fieldK K).
  Declare Scope KF_scope.
  Delimit Scope KF_scope with K.
  Local Notation "0" := (k0 fk) : KF_scope.
  Local Notation "1" := (k1 fk) : KF_scope.
  Local Notation "x + y" := (kadd fk x y) : KF_scope.
  Local Notation "x * y" := (kmul fk x y) : KF_scope.
  Local Notation "x - y" := (ksub fk x y) : KF_scope.
  Local Notation "- x" := (kopp fk x) : KF_scope.
  Local Notation "/ x" := (kinv fk x) : KF_scope.
  Local Notation peq := (peq fk).
  Local Notation padd := (padd fk).
  Local Notation pmul := (pmul fk).
  Local Notation psub := (psub fk).
  Local Notation popp := (popp fk).
  Local Notation pscale := (pscale fk).
  Local Notation pone := (pone fk).
  Local Notation pXn := (pXn fk).
  Local Notation peval := (peval fk).
  Local Notation coeff := (coeff fk).
  Local Notation deg_lt := (deg_lt fk).
  Local Notation congruent := (congruent fk).
  Local Notation kpow := (kpow fk).
  Add Field kfield_PolyDeepenFmci : (kFT fk).
  Add Ring polyring_PolyDeepenFmci : (poly_ring_theory fk) (setoid (peq_Equivalence fk) (poly_ring_ext fk)).

  (* congruence modulo m is a ring congruence *)
  Lemma cong_refl m a : congruent a m a.
  Proof. exists []. cbn [PolySpec.pmul PolySpec.padd]. reflexivity. Qed.
  Lemma cong_sym m a b : congruent a m b -> congruent b m a.
  Proof. intros [q E]. exists (popp q). rewrite E. ring. Qed.
  Lemma cong_peq_r m a b b' : peq b b' -> congruent a m b -> congruent a m b'.
  Proof. intros Eb [q E]. exists q. rewrite <- Eb. exact E. Qed.
  Lemma cong_peq_m m m' a b : peq m m' -> congruent a m b -> congruent a m' b.
  Proof. intros Em [q E]. exists q. rewrite <- Em. exact E. Qed.
  Lemma cong_add m a a' b b' : congruent a m a' -> congruent b m b' -> congruent (padd a b) m (padd a' b').
  Proof. intros [q1 E1] [q2 E2]. exists (padd q1 q2). rewrite E1, E2. ring. Qed.
  Lemma cong_sub m a a' b b' : congruent a m a' -> congruent b m b' -> congruent (psub a b) m (psub a' b').
  Proof. intros [q1 E1] [q2 E2]. exists (psub q1 q2). rewrite E1, E2. ring. Qed.
  Lemma cong_mul m a a' b b' : congruent a m a' -> congruent b m b' -> congruent (pmul a b) m (pmul a' b').
  Proof.
    intros [q1 E1] [q2 E2]. exists (padd (padd (pmul q1 (pmul q2 m)) (pmul q1 b')) (pmul a' q2)). rewrite E1, E2. ring.
  Qed.
  Lemma cong_scale m c a a' : congruent a m a' -> congruent (pscale c a) m (pscale c a').
  Proof. intros [q E]. exists (pscale c q). rewrite E. rewrite !(pscale_as_pmul fk). ring. Qed.

  (* the normalised zerofier of the coset c <w>, w of order N:  (X / c)^N - 1 *)
  Definition cz (c : K) (N : nat) : list K := psub (pscale (kpow (/ c)%K N) (pXn N)) pone.
  Lemma peval_pXn N x : peval (pXn N) x = kpow x N.
  Proof. change (pXn N) with (pshift fk N pone). rewrite peval_pshift, peval_pone. ring. Qed.
  Lemma peval_cz c N x : peval (cz c N) x = (kpow (/ c)%K N * kpow x N - 1)%K.
  Proof. unfold cz. rewrite peval_psub, peval_pscale, peval_pXn, peval_pone. reflexivity. Qed.
  Lemma deg_lt_cz c N : deg_lt (cz c N) (S N).
  Proof.
    unfold cz. apply deg_lt_psub.
    - apply deg_lt_pscale. replace (S N) with (length (pXn N)); [apply deg_lt_length|].
      unfold PolySpec.pXn. rewrite app_length, repeat_length. cbn. lia.
    - apply (deg_lt_le fk pone 1); [lia|]. exact (deg_lt_length fk pone).
  Qed.
  Lemma pXn_double N : peq (pXn (N + N)) (pmul (pXn N) (pXn N)).
  Proof. apply pXn_add. Qed.

  (* even / odd assembly.  w^h = -1 (so w has order 2h), c <> 0, m2 * (-2) = 1. *)
  Lemma kpow_opp1 n : kpow (- (1))%K n = if Nat.even n then 1%K else (- (1))%K.
  Proof.
    induction n as [|n IH]; [reflexivity|]. cbn [PolySpec.ppow FieldTheory.kpow]. rewrite IH. rewrite Nat.even_succ, <- Nat.negb_even.
    destruct (Nat.even n); cbn [negb]; ring.
  Qed.
  Lemma assemble_even_odd (c w m2 : K) (h : nat) (ys Ie Io : list K) :
    c <> 0%K -> w <> 0%K -> kpow w h = (- (1))%K -> (m2 * (- (1 + 1)))%K = 1%K -> length ys = (2 * h)%nat ->
    interpolates fk (map (fun i => (c * kpow (w * w) i)%K) (seq 0 h)) (map (fun i => (m2 * nth (2 * i) ys 0)%K) (seq 0 h)) Ie ->
    interpolates fk (map (fun i => ((c * w) * kpow (w * w) i)%K) (seq 0 h)) (map (fun i => (m2 * nth (2 * i + 1) ys 0)%K) (seq 0 h)) Io ->
    interpolates fk (map (fun i => (c * kpow w i)%K) (seq 0 (2 * h))) ys (padd (pmul Ie (cz (c * w)%K h)) (pmul Io (cz c h))).
  Proof.
    intros Hc Hw Hh Hm2 Ly He Ho.
    assert (Lx : forall (f : nat -> K) n, length (map f (seq 0 n)) = n) by (intros; rewrite map_length, seq_length; reflexivity).
    assert (Nx : forall (f : nat -> K) n i, (i < n)%nat -> nth i (map f (seq 0 n)) 0%K = f i).
    { intros f n i Hi. rewrite (nth_indep _ 0%K (f O)) by (rewrite Lx; exact Hi). rewrite map_nth, seq_nth by exact Hi. reflexivity. }
    assert (W2 : kpow w (2 * h) = 1%K).
    { replace (2 * h)%nat with (h * 2)%nat by lia. rewrite kpow_mul, Hh. cbn [FieldTheory.kpow]. ring. }
    assert (Wi : (/ w * w)%K = 1%K) by (field; exact Hw).
    assert (Ci : (/ c * c)%K = 1%K) by (field; exact Hc).
    apply (interpolates_intro fk _ ys _ 0%K 0%K).
    - rewrite Lx. exact Ly.
    - rewrite Lx. apply deg_lt_padd.
      + replace (2 * h)%nat with (h + h)%nat by lia. apply deg_lt_pmul; [|apply deg_lt_cz].
        destruct He as [De _]. rewrite Lx in De. exact De.
      + replace (2 * h)%nat with (h + h)%nat by lia. apply deg_lt_pmul; [|apply deg_lt_cz].
        destruct Ho as [Do _]. rewrite Lx in Do. exact Do.
    - rewrite Lx. intros k Hk. rewrite Nx by exact Hk. rewrite peval_padd, !peval_pmul, !peval_cz.
      destruct (Nat.even k) eqn:Ek.
      + (* k = 2 i *)
        apply Nat.even_spec in Ek. destruct Ek as [i ->].
        assert (Hi : (i < h)%nat) by lia.
        pose proof (interpolates_nth fk _ _ Ie 0%K 0%K i He ltac:(rewrite Lx; exact Hi)) as Ve. rewrite !Nx in Ve by exact Hi.
        replace (kpow w (2 * i)) with (kpow (w * w)%K i) by (rewrite kpow_mul; cbn [FieldTheory.kpow]; f_equal; ring).
        rewrite Ve.
        (* Ze vanishes, Zo = -2 *)
        assert (Z1 : (kpow (/ c)%K h * kpow (c * kpow (w * w)%K i)%K h)%K = 1%K).
        { rewrite <- kpow_mul_l. replace (/ c * (c * kpow (w * w)%K i))%K with (kpow (w * w)%K i) by (transitivity ((/ c * c) * kpow (w * w)%K i)%K; [rewrite Ci; ring|ring]).
          rewrite <- kpow_mul. replace (i * h)%nat with (h * i)%nat by lia. rewrite kpow_mul.
          replace (kpow (w * w)%K h) with (kpow w (2 * h)) by (rewrite kpow_mul; cbn [FieldTheory.kpow]; f_equal; ring).
          rewrite W2. apply kpow_1_l. }
        assert (Z2 : (kpow (/ (c * w))%K h * kpow (c * kpow (w * w)%K i)%K h)%K = (- (1))%K).
        { rewrite <- kpow_mul_l.
          replace (/ (c * w) * (c * kpow (w * w)%K i))%K with (/ w * kpow (w * w)%K i)%K by (field; split; assumption).
          rewrite kpow_mul_l. rewrite <- (kpow_mul fk (w * w)%K i h). replace (i * h)%nat with (h * i)%nat by lia. rewrite kpow_mul.
          replace (kpow (w * w)%K h) with (kpow w (2 * h)) by (rewrite kpow_mul; cbn [FieldTheory.kpow]; f_equal; ring).
          rewrite W2, kpow_1_l. rewrite kpow_inv by exact Hw. rewrite Hh. field. intros E. apply (k1_neq_0 fk).
          transitivity (- - (1))%K; [ring|]. change (kopp fk (k1 fk) = k0 fk) in E. rewrite E. ring. }
        rewrite Z1, Z2. transitivity ((m2 * - (1 + 1)) * nth (2 * i) ys 0)%K; [ring|]. rewrite Hm2. ring.
      + (* k = 2 i + 1 *)
        assert (Ok : Nat.odd k = true) by (rewrite <- Nat.negb_even, Ek; reflexivity).
        apply Nat.odd_spec in Ok. destruct Ok as [i ->].
        assert (Hi : (i < h)%nat) by lia.
        pose proof (interpolates_nth fk _ _ Io 0%K 0%K i Ho ltac:(rewrite Lx; exact Hi)) as Vo. rewrite !Nx in Vo by exact Hi.
        replace (c * kpow w (2 * i + 1))%K with (c * w * kpow (w * w)%K i)%K.
        2: { rewrite Nat.add_comm. cbn [Nat.add FieldTheory.kpow]. rewrite kpow_mul. cbn [FieldTheory.kpow].
             replace (w * (w * 1))%K with (w * w)%K by ring. ring. }
        rewrite Vo.
        assert (Z1 : (kpow (/ (c * w))%K h * kpow (c * w * kpow (w * w)%K i)%K h)%K = 1%K).
        { rewrite <- kpow_mul_l.
          replace (/ (c * w) * (c * w * kpow (w * w)%K i))%K with (kpow (w * w)%K i) by (field; split; assumption).
          rewrite <- kpow_mul. replace (i * h)%nat with (h * i)%nat by lia. rewrite kpow_mul.
          replace (kpow (w * w)%K h) with (kpow w (2 * h)) by (rewrite kpow_mul; cbn [FieldTheory.kpow]; f_equal; ring).
          rewrite W2. apply kpow_1_l. }
        assert (Z2 : (kpow (/ c)%K h * kpow (c * w * kpow (w * w)%K i)%K h)%K = (- (1))%K).
        { rewrite <- kpow_mul_l.
          replace (/ c * (c * w * kpow (w * w)%K i))%K with (w * kpow (w * w)%K i)%K by (field; exact Hc).
          rewrite kpow_mul_l. rewrite <- (kpow_mul fk (w * w)%K i h). replace (i * h)%nat with (h * i)%nat by lia. rewrite kpow_mul.
          replace (kpow (w * w)%K h) with (kpow w (2 * h)) by (rewrite kpow_mul; cbn [FieldTheory.kpow]; f_equal; ring).
          rewrite W2, kpow_1_l, Hh. ring. }
        rewrite Z1, Z2. transitivity ((m2 * - (1 + 1)) * nth (2 * i + 1) ys 0)%K; [ring|]. rewrite Hm2. ring.
  Qed.
End FmciAlg.

(* ================================================================== the model *)
Section Fmci.
  Context {F K : Type} (o : fops F) (fk : fieldK K) (ok : F -> Prop) (den : F -> K).
  Hypothesis H : field_ok o fk ok den.
  Variable ntt : list F -> option (list F).
  Variable intt : list F -> option (list F).
  Variables BND MB : Z.
  Hypothesis HBM : 2 * MB <= BND.
  Hypothesis HB257 : 257 <= BND.
  Variable act : fact Z F.
  Variable lmax : nat.
  Variable wr : nat -> K.
  Variable emb : Z -> K.
  Declare Scope KG_scope.
  Delimit Scope KG_scope with K.
  Local Notation "0" := (k0 fk) : KG_scope.
  Local Notation "1" := (k1 fk) : KG_scope.
  Local Notation "x + y" := (kadd fk x y) : KG_scope.
  Local Notation "x * y" := (kmul fk x y) : KG_scope.
  Local Notation "x - y" := (ksub fk x y) : KG_scope.
  Local Notation "- x" := (kopp fk x) : KG_scope.
  Local Notation "/ x" := (kinv fk x) : KG_scope.
  Local Notation D := (map den).
  Local Notation okl := (Forall ok).
  Local Notation peq := (peq fk).
  Local Notation padd := (padd fk).
  Local Notation pmul := (pmul fk).
  Local Notation psub := (psub fk).
  Local Notation pscale := (pscale fk).
  Local Notation pone := (pone fk).
  Local Notation pXn := (pXn fk).
  Local Notation pdeg := (pdeg fk).
  Local Notation congruent := (congruent fk).
  Local Notation canon := BFieldProofs.canon.
  Local Notation cz := (cz fk).
  Local Notation mult := (poly_multiply o ntt intt).
  Add Field kfield_PolyDeepenFmci_M : (kFT fk).

  (* `reduce` returns THE remainder, for moduli of degree + 1 <= MB *)
  Definition red_rem_b : Prop := forall a m, okl a -> okl m -> ~ pzero fk (D m) -> poly_degree o m + 1 <= MB ->
    exists r, pint_reduce o ntt intt a m = Some r /\ okl r /\ is_rem fk (D a) (D m) (D r).
  (* base-field arithmetic on offsets and roots denotes field arithmetic; -1/2 *)
  Definition bmul_ok : Prop := forall a b, canon a -> canon b -> canon (bfe_mul a b) /\ emb (bfe_mul a b) = (emb a * emb b)%K.
  Definition bpow_ok : Prop := forall b e, canon b -> 0 <= e < 2 ^ 64 -> canon (mod_pow b e) /\ emb (mod_pow b e) = kpowZ fk (emb b) e.
  Definition m2i_ok : Prop := (kofZ fk MINUS_TWO_INVERSE_ARG * - (1 + 1))%K = 1%K.

  Hypothesis Hmul : mul_exact o fk ok den ntt intt BND.
  Hypothesis Hrem : red_rem_b.
  Hypothesis Hrbnf : rbnf_exact_b o fk ok den ntt intt MB.
  Hypothesis Hintt : intt_ok fk ok den intt lmax wr.
  Hypothesis Hroots : roots_ok fk lmax wr.
  Hypothesis Hlift : lift_ok o ok den emb.
  Hypothesis Hbinv : binv_ok fk emb.
  Hypothesis Hact : act_ok fk ok den act emb.
  Hypothesis Hroot : root_ok lmax wr emb.
  Hypothesis wr_sq : forall l, (S l <= lmax)%nat -> (wr (S l) * wr (S l))%K = wr l.
  Hypothesis Hbmul : bmul_ok.
  Hypothesis Hbpow : bpow_ok.
  Hypothesis Hm2i : m2i_ok.
  Hypothesis Hl32 : (lmax <= 32)%nat.

  Lemma rem_degree a m r : okl m -> okl r -> ~ pzero fk (D m) -> is_rem fk a (D m) (D r) -> poly_degree o r <= poly_degree o m - 1.
  Proof. intros Om Or NZ [_ Hd]. rewrite (degree_pdeg o fk ok den H r Or), (degree_pdeg o fk ok den H m Om). lia. Qed.
  Lemma pdeg_pXn n : pdeg (pXn n) = Z.of_nat n.
  Proof.
    unfold PolySpec.pdeg. rewrite pnorm_last_id; [unfold PolySpec.pXn; rewrite app_length, repeat_length; cbn [length]; lia|].
    unfold PolySpec.pXn. rewrite last_last. exact (k1_neq_0 fk).
  Qed.

  (* X, X^2 mod m, X^4 mod m, ... *)
  Lemma modular_squares_spec m : okl m -> ~ pzero fk (D m) -> poly_degree o m + 1 <= MB ->
    forall k acc i, okl acc -> congruent (pXn (2 ^ i)) (D m) (D acc) -> poly_degree o acc <= Z.max 1 (poly_degree o m - 1) ->
    exists sqs, pint_modular_squares o ntt intt k acc m = Some sqs /\ length sqs = k /\
      forall j, (j < k)%nat -> okl (nth j sqs []) /\ congruent (pXn (2 ^ (i + j))) (D m) (D (nth j sqs [])) /\
                               poly_degree o (nth j sqs []) <= Z.max 1 (poly_degree o m - 1).
  Proof.
    intros Om NZ Hmb. induction k as [|k IH]; intros acc i Oa Ca Da.
    - exists []. split; [reflexivity|]. split; [reflexivity|]. intros j Hj. lia.
    - cbn [pint_modular_squares].
      destruct (Hmul acc acc Oa Oa ltac:(lia)) as [sq [Es [Osq [_ Psq]]]]. rewrite Es.
      destruct (Hrem sq m Osq Om NZ Hmb) as [acc' [Er [Oa' Ia']]]. rewrite Er.
      pose proof (rem_degree _ m acc' Om Oa' NZ Ia') as Da'.
      assert (Ca' : congruent (pXn (2 ^ S i)) (D m) (D acc')).
      { apply (congruent_trans fk _ _ (D sq)); [|destruct Ia' as [[q E] _]; exists q; exact E].
        apply (cong_peq_r fk _ _ (pmul (D acc) (D acc))); [symmetry; exact Psq|].
        apply (congruent_peq fk (pmul (pXn (2 ^ i)) (pXn (2 ^ i)))); [|apply cong_mul; exact Ca].
        symmetry. replace (2 ^ S i)%nat with (2 ^ i + 2 ^ i)%nat by (cbn [Nat.pow]; lia). apply pXn_add. }
      destruct (IH acc' (S i) Oa' Ca' ltac:(lia)) as [t [Et [Lt Pt]]]. rewrite Et.
      exists (acc :: t). split; [reflexivity|]. split; [cbn [length]; rewrite Lt; reflexivity|].
      intros [|j] Hj.
      + cbn [nth]. rewrite Nat.add_0_r. split; [exact Oa|]. split; [exact Ca|exact Da].
      + cbn [nth]. replace (i + S j)%nat with (S i + j)%nat by lia. apply Pt. lia.
  Qed.

  Lemma opt_all_some {A} (h : A -> list F) (l : list A) : pint_opt_all (map (fun x => Some (h x)) l) = Some (map h l).
  Proof. induction l as [|x l IH]; [reflexivity|]. cbn [map pint_opt_all]. rewrite IH. reflexivity. Qed.
  Lemma pow2_Zn2 l : Z.of_nat (2 ^ l) = 2 ^ Z.of_nat l.
  Proof. rewrite Nat2Z.inj_pow. reflexivity. Qed.
  Lemma pow2_to_nat2 l : Z.to_nat (2 ^ Z.of_nat l) = (2 ^ l)%nat.
  Proof. rewrite <- pow2_Zn2. apply Nat2Z.id. Qed.

  (* one zerofier of the preprocessing: lc * (X^(2^j) mod m) - 1 with lc = base^(2^j), base = 1/c *)
  Lemma zf_entry m b c j sq : okl m -> canon b -> emb b = (/ c)%K -> (j <= 32)%nat -> okl sq ->
    congruent (pXn (2 ^ j)) (D m) (D sq) -> poly_degree o sq <= Z.max 1 (poly_degree o m - 1) ->
    let z := poly_sub o (poly_scalar_mul o sq (pint_lift o (mod_pow b (2 ^ Z.of_nat j)))) (poly_one o) in
    okl z /\ congruent (cz c (2 ^ j)) (D m) (D z) /\ poly_degree o z <= Z.max 1 (poly_degree o m - 1).
  Proof.
    intros Om Cb Eb Hj Osq Csq Dsq z.
    assert (He : 0 <= 2 ^ Z.of_nat j < 2 ^ 64).
    { split; [apply Z.pow_nonneg; lia|]. apply Z.pow_lt_mono_r; lia. }
    destruct (Hbpow b _ Cb He) as [Cp Ep]. destruct (Hlift _ Cp) as [Ol Dl].
    assert (Elc : den (pint_lift o (mod_pow b (2 ^ Z.of_nat j))) = kpow fk (/ c)%K (2 ^ j)).
    { rewrite Dl, Ep, Eb. unfold kpowZ. rewrite pow2_to_nat2. reflexivity. }
    assert (Osm : okl (poly_scalar_mul o sq (pint_lift o (mod_pow b (2 ^ Z.of_nat j))))) by (apply (scalar_mul_ok o fk ok den H); assumption).
    assert (O1 : okl (poly_one o)) by (constructor; [exact (ok1 o fk ok den H)|constructor]).
    assert (Oz : okl z) by (apply (sub_ok o fk ok den H); assumption).
    assert (Ez : D z = psub (pscale (kpow fk (/ c)%K (2 ^ j)) (D sq)) pone).
    { unfold z. rewrite (sub_D o fk ok den H) by assumption. rewrite (scalar_mul_D o fk ok den H) by assumption. rewrite Elc.
      unfold poly_one. cbn [map]. rewrite (proj2 (fo_one _ _ _ _ H)). reflexivity. }
    split; [exact Oz|]. split.
    - rewrite Ez. unfold PolyDeepenFmci.cz. apply cong_sub; [apply cong_scale; exact Csq|apply cong_refl].
    - rewrite (degree_pdeg o fk ok den H z Oz), Ez.
      assert (X : pdeg (psub (pscale (kpow fk (/ c)%K (2 ^ j)) (D sq)) pone) < Z.of_nat (Z.to_nat (Z.max 1 (poly_degree o m - 1) + 1))); [|lia].
      apply pdeg_psub_lt.
      + apply deg_lt_pdeg. apply deg_lt_pscale. apply deg_lt_pdeg. rewrite <- (degree_pdeg o fk ok den H sq Osq). lia.
      + apply deg_lt_pdeg. apply (deg_lt_le fk pone 1); [lia|]. exact (deg_lt_length fk pone).
  Qed.

  (* the preprocessing never panics and stores, for every j below log2 n, zerofiers congruent to those of the two half cosets *)
  Lemma preprocess_spec l offset m : (l <= lmax)%nat -> canon offset -> emb offset <> 0%K -> okl m -> ~ pzero fk (D m) ->
    poly_degree o m + 1 <= MB ->
    exists pre, pint_fmci_preprocess o ntt intt (2 ^ Z.of_nat l) offset m = Some pre /\
      pint_shift_factor_ntt_with_tail_length o ntt intt m = Some (pp_shift_coefficients pre, pp_tail_length pre) /\
      forall j, (j < l)%nat -> exists ez oz,
        idx (pp_even_zerofiers pre) (Z.of_nat j) = Some ez /\ idx (pp_odd_zerofiers pre) (Z.of_nat j) = Some oz /\
        okl ez /\ okl oz /\ congruent (cz (emb offset) (2 ^ j)) (D m) (D ez) /\
        congruent (cz (emb offset * wr l)%K (2 ^ j)) (D m) (D oz) /\
        poly_degree o ez <= Z.max 1 (poly_degree o m - 1) /\ poly_degree o oz <= Z.max 1 (poly_degree o m - 1).
  Proof.
    intros Hl Co Nz Om NZ Hmb. unfold pint_fmci_preprocess.
    destruct (Hroot l Hl) as [om [Eom [Com Dom]]]. rewrite Eom.
    assert (Pn : 0 < 2 ^ Z.of_nat l) by (apply Z.pow_pos_nonneg; lia).
    replace (2 ^ Z.of_nat l <=? 0) with false by (symmetry; apply Z.leb_gt; exact Pn).
    unfold pint_ilog2. rewrite Z.log2_pow2, Nat2Z.id by lia.
    (* the squares *)
    assert (OX : okl (poly_x_to_the o 1)).
    { unfold poly_x_to_the. apply Forall_app. split; [apply Forall_zrepeat; exact (ok0 o fk ok den H)|constructor; [exact (ok1 o fk ok den H)|constructor]]. }
    assert (DX : D (poly_x_to_the o 1) = pXn (2 ^ 0)) by (rewrite (x_to_the_D o fk ok den H); reflexivity).
    destruct (modular_squares_spec m Om NZ Hmb l (poly_x_to_the o 1) O OX) as [sqs [Esq [Lsq Psq]]].
    { rewrite DX. apply cong_refl. }
    { rewrite (degree_pdeg o fk ok den H _ OX), DX, pdeg_pXn. cbn. lia. }
    rewrite Esq.
    (* the two bases *)
    destruct (Hroots) as [Hhalf [Hwnz H2]].
    destruct (Hbinv offset Co Nz) as [oi [Eoi [Coi Doi]]]. rewrite Eoi.
    destruct (Hbmul offset om Co Com) as [Cow Dow]. rewrite Dom in Dow.
    assert (Nzw : emb (bfe_mul offset om) <> 0%K).
    { rewrite Dow. intros E. destruct (k_integral fk _ _ E) as [E'|E']; [exact (Nz E')|exact (Hwnz l Hl E')]. }
    destruct (Hbinv _ Cow Nzw) as [ooi [Eooi [Cooi Dooi]]]. rewrite Eooi. rewrite Dow in Dooi.
    set (h := fun (b : Z) (isq : Z * list F) => poly_sub o (poly_scalar_mul o (snd isq) (pint_lift o (mod_pow b (2 ^ fst isq)))) (poly_one o)).
    set (pairs := combine (map Z.of_nat (seq 0 l)) sqs).
    assert (Ezf : forall b, pint_opt_all (map (fun isq : Z * list F => match Some b with None => None | Some b0 =>
                     Some (poly_sub o (poly_scalar_mul o (snd isq) (pint_lift o (mod_pow b0 (2 ^ fst isq)))) (poly_one o)) end) pairs)
                   = Some (map (h b) pairs)).
    { intros b. exact (opt_all_some (h b) pairs). }
    fold pairs. rewrite (Ezf oi), (Ezf ooi).
    destruct (Hrbnf m Om NZ Hmb) as [sc [tl [Esf _]]]. rewrite Esf.
    eexists. split; [reflexivity|]. cbn [pp_shift_coefficients pp_tail_length pp_even_zerofiers pp_odd_zerofiers].
    split; [reflexivity|]. intros j Hj.
    assert (Lp : length pairs = l) by (unfold pairs; rewrite combine_length, map_length, seq_length, Lsq; lia).
    assert (Np : nth j pairs (0, []) = (Z.of_nat j, nth j sqs [])).
    { unfold pairs. rewrite combine_nth by (rewrite map_length, seq_length, Lsq; reflexivity).
      f_equal. rewrite (nth_indep _ 0 (Z.of_nat O)) by (rewrite map_length, seq_length; exact Hj).
      rewrite map_nth, seq_nth by exact Hj. reflexivity. }
    exists (h oi (Z.of_nat j, nth j sqs [])), (h ooi (Z.of_nat j, nth j sqs [])).
    split; [rewrite (idx_nat _ (Z.of_nat j) j (h oi (0, [])) eq_refl) by (rewrite map_length, Lp; exact Hj); rewrite map_nth, Np; reflexivity|].
    split; [rewrite (idx_nat _ (Z.of_nat j) j (h ooi (0, [])) eq_refl) by (rewrite map_length, Lp; exact Hj); rewrite map_nth, Np; reflexivity|].
    destruct (Psq j Hj) as [Os [Cs Ds]]. cbn [Nat.add] in Cs.
    destruct (zf_entry m oi (emb offset) j (nth j sqs []) Om Coi Doi ltac:(lia) Os Cs Ds) as [A1 [A2 A3]].
    destruct (zf_entry m ooi (emb offset * wr l)%K j (nth j sqs []) Om Cooi Dooi ltac:(lia) Os Cs Ds) as [B1 [B2 B3]].
    unfold h. cbn [fst snd]. repeat split; assumption.
  Qed.

  (* even / odd targets *)
  Lemma m2i_den : ok (pint_m2i o) /\ den (pint_m2i o) = kofZ fk MINUS_TWO_INVERSE_ARG.
  Proof. unfold pint_m2i. apply (fo_from _ _ _ _ H). unfold MINUS_TWO_INVERSE_ARG. lia. Qed.
  Lemma eo_targets_spec k : forall vs, okl vs -> length vs = (2 * k)%nat ->
    exists e od, pint_eo_targets o k vs = Some (e, od) /\ okl e /\ okl od /\ length e = k /\ length od = k /\
      D e = map (fun i => (den (pint_m2i o) * nth (2 * i) (D vs) 0)%K) (seq 0 k) /\
      D od = map (fun i => (den (pint_m2i o) * nth (2 * i + 1) (D vs) 0)%K) (seq 0 k).
  Proof.
    destruct m2i_den as [Om2 _].
    induction k as [|k IH]; intros vs Ov Lv.
    - exists [], []. repeat split; constructor.
    - destruct vs as [|v0 [|v1 vs']]; try (cbn in Lv; lia). inversion Ov as [|? ? O0 Ov1]; inversion Ov1 as [|? ? O1 Ov']; subst.
      destruct (IH vs' Ov' ltac:(cbn in Lv; lia)) as [e [od [E [Oe [Ood [Le [Lod [De Dod]]]]]]]].
      cbn [pint_eo_targets]. rewrite E. eexists. eexists. split; [reflexivity|].
      split; [constructor; [apply (pb_ok_mul o fk ok den H); assumption|exact Oe]|].
      split; [constructor; [apply (pb_ok_mul o fk ok den H); assumption|exact Ood]|].
      split; [cbn [length]; rewrite Le; reflexivity|]. split; [cbn [length]; rewrite Lod; reflexivity|].
      cbn [map seq]. rewrite <- seq_shift, !map_map, De, Dod, !(pb_den_mul o fk ok den H) by assumption. split.
      + f_equal. apply map_ext. intros i. replace (2 * S i)%nat with (S (S (2 * i))) by lia. reflexivity.
      + f_equal. apply map_ext. intros i. replace (2 * S i + 1)%nat with (S (S (2 * i + 1))) by lia. reflexivity.
  Qed.

  Local Notation THR_L := FAST_MODULAR_COSET_INTERPOLATE_CUTOFF_THRESHOLD_PREFER_LAGRANGE.
  Local Notation THR_I := FAST_MODULAR_COSET_INTERPOLATE_CUTOFF_THRESHOLD_PREFER_INTT.
  Local Notation cpts := (coset_points fk wr).
  (* what fast_modular_coset_interpolate returns: reduced modulo m and congruent to THE interpolant *)
  Definition fmci_res (l : nat) (offset : Z) (cw m r : list F) : Prop :=
    okl r /\ pdeg (D r) < pdeg (D m) /\
    forall ip, interpolates fk (cpts (emb offset) l) (D cw) ip -> congruent ip (D m) (D r).

  Lemma rem_res a m r : is_rem fk a (D m) (D r) -> pdeg (D r) < pdeg (D m) /\ congruent a (D m) (D r).
  Proof. intros [[q E] Hd]. split; [exact Hd|exists q; exact E]. Qed.

  (* the regimes without recursion do not look at the fuel *)
  Lemma fmci_go_fuel0 dbg values offset m pre : zlen values <= THR_I ->
    pint_fmci_go o act ntt intt dbg THR_L THR_I 0 values offset m pre = pint_fmci_go o act ntt intt dbg THR_L THR_I 1 values offset m pre.
  Proof.
    intros Hs. cbn [pint_fmci_go]. destruct (poly_degree o m <? 0); [reflexivity|].
    destruct (primitive_root_of_unity (zlen values)); [|reflexivity]. destruct (zlen values <? THR_L); [reflexivity|].
    replace (zlen values <=? THR_I) with true by (symmetry; apply Z.leb_le; exact Hs). reflexivity.
  Qed.

  Lemma fmci_go_small dbg f l offset cw m pre : (l <= lmax)%nat -> 2 ^ Z.of_nat l <= THR_I ->
    canon offset -> emb offset <> 0%K -> okl cw -> length cw = (2 ^ l)%nat -> okl m -> ~ pzero fk (D m) -> poly_degree o m + 1 <= MB ->
    pint_shift_factor_ntt_with_tail_length o ntt intt m = Some (pp_shift_coefficients pre, pp_tail_length pre) ->
    exists r, pint_fmci_go o act ntt intt dbg THR_L THR_I (S f) cw offset m pre = Some r /\ fmci_res l offset cw m r.
  Proof.
    intros Hl Hsmall Co Hnz Hcw Lcw Om Nm Hmb Epre. cbn [pint_fmci_go].
    assert (Dm : 0 <= poly_degree o m) by (apply (nonzero_degree o fk ok den H); assumption).
    replace (poly_degree o m <? 0) with false by (symmetry; apply Z.ltb_ge; exact Dm).
    assert (Zn : zlen cw = 2 ^ Z.of_nat l) by (unfold zlen; rewrite Lcw; apply pow2_Zn2).
    rewrite Zn. destruct (Hroot l Hl) as [om [Eom [Com Dom]]]. rewrite Eom.
    assert (Uniq : forall ip ip', interpolates fk (cpts (emb offset) l) (D cw) ip ->
                                 interpolates fk (cpts (emb offset) l) (D cw) ip' -> peq ip ip').
    { intros ip ip'. apply interpolant_unique. exact (coset_points_NoDup fk lmax wr Hroots (emb offset) l Hl Hnz). }
    destruct (2 ^ Z.of_nat l <? THR_L) eqn:Ereg.
    - destruct (Hlift offset Co) as [Ol Dl].
      destruct (scan_mul_spec fk ok den act emb Hact om Com (length cw) (pint_lift o offset) Ol) as [Os [Ls Ds]].
      assert (Ecos : D (pint_scan_mul act (length cw) (pint_lift o offset) om) = cpts (emb offset) l).
      { rewrite Ds, Dl, Dom, Lcw. reflexivity. }
      apply Z.ltb_lt in Ereg. unfold THR_L in Ereg.
      destruct (lagrange_interpolate_spec o fk ok den H ntt intt BND Hmul dbg _ cw Os Hcw) as [ip [Ei [Oi [_ Ii]]]].
      + rewrite Ecos. exact (coset_points_NoDup fk lmax wr Hroots (emb offset) l Hl Hnz).
      + rewrite Ls. reflexivity.
      + intros X. rewrite X in Ls. cbn in Ls. rewrite Lcw in Ls. pose proof (Nat.pow_nonzero 2 l ltac:(lia)). lia.
      + unfold fits. rewrite Ls. unfold zlen in Zn. lia.
      + rewrite Ei. destruct (Hrem ip m Oi Om Nm Hmb) as [r [Er [Or Ir]]]. exists r. split; [exact Er|].
        destruct (rem_res _ m r Ir) as [R1 R2]. split; [exact Or|]. split; [exact R1|].
        intros ip' Hip'. rewrite Ecos in Ii. exact (congruent_peq fk _ _ _ _ (Uniq _ _ Ii Hip') R2).
    - replace (2 ^ Z.of_nat l <=? THR_I) with true by (symmetry; apply Z.leb_le; exact Hsmall).
      destruct (coset_interpolant_spec o fk ok den H intt lmax wr Hintt Hroots emb Hlift Hbinv l offset cw Hl Co Hnz Hcw Lcw) as [ip [Ei [Oi Ii]]].
      unfold pint_coset_interpolant in Ei. destruct (intt cw) as [c|]; [|discriminate]. destruct (inverse offset) as [oi|]; [|discriminate].
      inversion Ei as [Ei']. rewrite Ei'.
      destruct (Hrbnf m Om Nm Hmb) as [sc [tl [Esf Hr]]]. rewrite Epre in Esf. inversion Esf; subst sc tl.
      destruct (Hr ip Oi) as [r1 [Er1 [Or1 Cr1]]]. rewrite Er1.
      destruct (Hrem r1 m Or1 Om Nm Hmb) as [r [Er [Or Ir]]]. exists r. split; [exact Er|].
      destruct (rem_res _ m r Ir) as [R1 R2]. split; [exact Or|]. split; [exact R1|].
      intros ip' Hip'. exact (congruent_peq fk _ _ _ _ (Uniq _ _ Ii Hip') (congruent_trans fk _ _ _ _ Cr1 R2)).
  Qed.

  (* every codeword length: induction on log2 n, the fuel only has to cover the levels above 2^17 *)
  Lemma thr_I_pow : THR_I = 2 ^ Z.of_nat 17.
  Proof. reflexivity. Qed.
  Theorem fmci_go_spec dbg : forall l fuel offset cw m pre, (l <= lmax)%nat -> (l <= 17 + fuel)%nat ->
    canon offset -> emb offset <> 0%K -> okl cw -> length cw = (2 ^ l)%nat -> okl m -> ~ pzero fk (D m) -> poly_degree o m + 1 <= MB ->
    pint_fmci_preprocess o ntt intt (2 ^ Z.of_nat l) offset m = Some pre ->
    exists r, pint_fmci_go o act ntt intt dbg THR_L THR_I fuel cw offset m pre = Some r /\ fmci_res l offset cw m r.
  Proof.
    induction l as [|l' IH]; intros fuel offset cw m pre Hl Hfuel Co Hnz Hcw Lcw Om Nm Hmb Epre.
    - destruct fuel as [|f].
      + rewrite fmci_go_fuel0 by (unfold zlen; rewrite Lcw; cbn; unfold THR_I; lia).
        apply (fmci_go_small dbg O O offset cw m pre); try assumption; [cbn; unfold THR_I; lia|exact (preprocess_shift o ntt intt _ _ _ _ Epre)].
      + apply (fmci_go_small dbg f O offset cw m pre); try assumption; [cbn; unfold THR_I; lia|exact (preprocess_shift o ntt intt _ _ _ _ Epre)].
    - destruct (Nat.le_gt_cases (S l') 17) as [Hs|Hbig].
      { assert (Hsm : 2 ^ Z.of_nat (S l') <= THR_I) by (rewrite thr_I_pow; apply Z.pow_le_mono_r; lia).
        destruct fuel as [|f].
        + rewrite fmci_go_fuel0 by (unfold zlen; rewrite Lcw, pow2_Zn2; exact Hsm).
          apply (fmci_go_small dbg O (S l') offset cw m pre); try assumption. exact (preprocess_shift o ntt intt _ _ _ _ Epre).
        + apply (fmci_go_small dbg f (S l') offset cw m pre); try assumption. exact (preprocess_shift o ntt intt _ _ _ _ Epre). }
      destruct fuel as [|f]; [lia|]. cbn [pint_fmci_go].
      assert (Dm : 0 <= poly_degree o m) by (apply (nonzero_degree o fk ok den H); assumption).
      replace (poly_degree o m <? 0) with false by (symmetry; apply Z.ltb_ge; exact Dm).
      assert (Zn : zlen cw = 2 ^ Z.of_nat (S l')) by (unfold zlen; rewrite Lcw; apply pow2_Zn2).
      rewrite Zn. destruct (Hroot (S l') Hl) as [om [Eom [Com Dom]]]. rewrite Eom.
      assert (Hgt : THR_I < 2 ^ Z.of_nat (S l')) by (rewrite thr_I_pow; apply Z.pow_lt_mono_r; lia).
      replace (2 ^ Z.of_nat (S l') <? THR_L) with false by (symmetry; apply Z.ltb_ge; unfold THR_L, THR_I in *; lia).
      replace (2 ^ Z.of_nat (S l') <=? THR_I) with false by (symmetry; apply Z.leb_gt; exact Hgt).
      assert (Ehalf : 2 ^ Z.of_nat (S l') / 2 = 2 ^ Z.of_nat l').
      { rewrite Nat2Z.inj_succ, Z.pow_succ_r by lia. rewrite Z.mul_comm, Z.div_mul by lia. reflexivity. }
      rewrite Ehalf, pow2_to_nat2.
      destruct (eo_targets_spec (2 ^ l') cw Hcw ltac:(rewrite Lcw; cbn [Nat.pow]; lia)) as [et [ot [Eeo [Oet [Oot [Let [Lot [Det Dot]]]]]]]].
      rewrite Eeo.
      destruct Hroots as [Hhalf [Hwnz H2]].
      set (c := emb offset). set (w := wr (S l')).
      assert (Hw : w <> 0%K) by (apply Hwnz; exact Hl).
      assert (Hwh : kpow fk w (2 ^ l') = (- (1))%K) by exact (Hhalf (S l') Hl).
      assert (Hww : (w * w)%K = wr l') by (apply wr_sq; exact Hl).
      destruct (Hbmul offset om Co Com) as [Cow Dow]. rewrite Dom in Dow. fold c w in Dow.
      assert (Nzw : emb (bfe_mul offset om) <> 0%K).
      { rewrite Dow. intros E. destruct (k_integral fk _ _ E) as [E'|E']; [exact (Hnz E')|exact (Hw E')]. }
      (* the two recursive calls *)
      assert (Zet : zlen et = 2 ^ Z.of_nat l') by (unfold zlen; rewrite Let; apply pow2_Zn2).
      assert (Zot : zlen ot = 2 ^ Z.of_nat l') by (unfold zlen; rewrite Lot; apply pow2_Zn2).
      destruct (preprocess_spec l' offset m ltac:(lia) Co Hnz Om Nm Hmb) as [pre1 [Ep1 _]].
      destruct (IH f offset et m pre1 ltac:(lia) ltac:(lia) Co Hnz Oet Let Om Nm Hmb Ep1) as [ei [Eei [Oei [Dei Cei]]]].
      rewrite Zet, Ep1, Eei.
      destruct (preprocess_spec l' (bfe_mul offset om) m ltac:(lia) Cow Nzw Om Nm Hmb) as [pre2 [Ep2 _]].
      destruct (IH f (bfe_mul offset om) ot m pre2 ltac:(lia) ltac:(lia) Cow Nzw Oot Lot Om Nm Hmb Ep2) as [oi [Eoi [Ooi [Doi Coi]]]].
      rewrite Zot, Ep2, Eoi.
      (* the stored zerofiers of the two half cosets *)
      destruct (preprocess_spec (S l') offset m Hl Co Hnz Om Nm Hmb) as [pre' [Ep' [_ Pz]]].
      rewrite Ep' in Epre. inversion Epre; subst pre'. clear Epre.
      unfold pint_ilog2. rewrite Z.log2_pow2 by lia.
      destruct (Pz l' ltac:(lia)) as [ez [oz [Iez [Ioz [Oez [Ooz [Cez [Coz [Dez Doz]]]]]]]]]. rewrite Ioz, Iez. fold c w in Cez, Coz.
      (* the products stay within the range of multiply *)
      assert (Bei : poly_degree o ei <= poly_degree o m - 1) by (rewrite (degree_pdeg o fk ok den H ei Oei), (degree_pdeg o fk ok den H m Om); lia).
      assert (Boi : poly_degree o oi <= poly_degree o m - 1) by (rewrite (degree_pdeg o fk ok den H oi Ooi), (degree_pdeg o fk ok den H m Om); lia).
      destruct (Hmul ei oz Oei Ooz ltac:(lia)) as [a [Ea [Oa [_ Pa]]]]. rewrite Ea.
      destruct (Hmul oi ez Ooi Oez ltac:(lia)) as [b [Eb [Ob [_ Pb]]]]. rewrite Eb.
      destruct (pb_add_spec o fk ok den H a b Oa Ob) as [Oab Dab].
      destruct (Hrem (poly_add o a b) m Oab Om Nm Hmb) as [r [Er [Or Ir]]]. exists r. split; [exact Er|].
      destruct (rem_res _ m r Ir) as [R1 R2]. split; [exact Or|]. split; [exact R1|].
      intros ip Hip.
      (* the true interpolants of the halves exist (intt on the half cosets) *)
      destruct (coset_interpolant_spec o fk ok den H intt lmax wr Hintt (conj Hhalf (conj Hwnz H2)) emb Hlift Hbinv l' offset et ltac:(lia) Co Hnz Oet Let)
        as [ipe [_ [_ Iipe]]].
      destruct (coset_interpolant_spec o fk ok den H intt lmax wr Hintt (conj Hhalf (conj Hwnz H2)) emb Hlift Hbinv l' (bfe_mul offset om) ot ltac:(lia) Cow Nzw Oot Lot)
        as [ipo [_ [_ Iipo]]].
      pose proof (Cei _ Iipe) as CE. pose proof (Coi _ Iipo) as CO.
      destruct m2i_den as [_ Dm2].
      assert (Hm2 : (den (pint_m2i o) * - (1 + 1))%K = 1%K) by (rewrite Dm2; exact Hm2i).
      fold c in Iipe. rewrite Dow in Iipo. unfold coset_points in Iipe, Iipo. rewrite <- Hww, Det in Iipe. rewrite <- Hww, Dot in Iipo.
      pose proof (assemble_even_odd fk c w (den (pint_m2i o)) (2 ^ l') (D cw) (D ipe) (D ipo) Hnz Hw Hwh Hm2
                    ltac:(rewrite map_length, Lcw; cbn [Nat.pow]; lia) Iipe Iipo) as IR.
      assert (Eip : peq ip (padd (pmul (D ipe) (cz (c * w)%K (2 ^ l'))) (pmul (D ipo) (cz c (2 ^ l'))))).
      { apply (interpolant_unique fk (cpts c (S l')) (D cw)); [exact (coset_points_NoDup fk lmax wr (conj Hhalf (conj Hwnz H2)) c (S l') Hl Hnz)|exact Hip|].
        unfold coset_points. fold w. replace (2 ^ S l')%nat with (2 * 2 ^ l')%nat by (cbn [Nat.pow]; lia). exact IR. }
      apply (congruent_peq fk _ _ _ _ (peq_sym fk _ _ Eip)).
      apply (congruent_trans fk _ _ (D (poly_add o a b))); [|exact R2].
      rewrite Dab. apply (cong_peq_r fk _ _ (padd (pmul (D ei) (D oz)) (pmul (D oi) (D ez)))); [rewrite Pa, Pb; reflexivity|].
      apply cong_add; apply cong_mul; assumption.
  Qed.

  (* C08_fmci_full (with the bounds that make it true): fast_modular_coset_interpolate is exact for every codeword length *)
  Theorem fmci_exact_all dbg : fmci_exact_b o fk ok den ntt intt MB act lmax wr emb dbg.
  Proof.
    intros l offset cw m Hl Co Hnz Hcw Lcw Om Nm Hmb. unfold pint_fast_modular_coset_interpolate.
    assert (Zn : zlen cw = 2 ^ Z.of_nat l) by (unfold zlen; rewrite Lcw; apply pow2_Zn2). rewrite Zn.
    destruct (preprocess_spec l offset m Hl Co Hnz Om Nm Hmb) as [pre [Ep _]]. rewrite Ep.
    destruct (fmci_go_spec dbg l 64%nat offset cw m pre Hl ltac:(lia) Co Hnz Hcw Lcw Om Nm Hmb Ep) as [r [Er [Or [_ Cr]]]].
    exists r. split; [exact Er|]. split; assumption.
  Qed.
  (* the preprocessing on its own: total *)
  Theorem preprocess_total l offset m : (l <= lmax)%nat -> canon offset -> emb offset <> 0%K -> okl m -> ~ pzero fk (D m) ->
    poly_degree o m + 1 <= MB -> exists pre, pint_fmci_preprocess o ntt intt (2 ^ Z.of_nat l) offset m = Some pre.
  Proof. intros Hl Co Nz Om NZ Hmb. destruct (preprocess_spec l offset m Hl Co Nz Om NZ Hmb) as [pre [E _]]. exists pre. exact E. Qed.
End Fmci.

(* ================================================================== Polynomial<BFieldElement>: nothing assumed *)
From TF Require Import BFieldProofs BFieldOk NttRoots NttProofs PolyValueSem PolyDeepenNewton.
Lemma bfe_red_rem_b : red_rem_b bfe_ops fp_field canon bden ntt_b intt_b BFE_MB.
Proof.
  intros a m Ha Hm NZ Hd.
  apply (pint_reduce_is_rem bfe_ops fp_field canon bden bfe_field_ok ntt_b intt_b 31 wr_b bfe_ntt_ok bfe_intt_ok bfe_roots_ok
           (proj1 (Nat.leb_le 9 31) eq_refl) a m Ha Hm NZ).
  pose proof bfe_MB_ok. lia.
Qed.
Lemma bfe_bmul_ok : bmul_ok fp_field bden.
Proof. intros a b Ca Cb. exact (fo_mul _ _ _ _ bfe_field_ok a b Ca Cb). Qed.
Lemma bfe_bpow_ok : bpow_ok fp_field bden.
Proof. intros b e Cb He. exact (fo_pow _ _ _ _ bfe_field_ok b e Cb He). Qed.
Lemma bfe_m2i_ok : m2i_ok fp_field.
Proof. unfold m2i_ok. rewrite fp_kofZ. apply Fp_eq. vm_compute. reflexivity. Qed.
Lemma bfe_wr_sq31 l : (S l <= 31)%nat -> kmul fp_field (wr_b (S l)) (wr_b (S l)) = wr_b l.
Proof. intros Hl. apply bfe_wr_sq. lia. Qed.
Lemma bfe_mul_exact_31 : mul_exact bfe_ops fp_field canon bden ntt_b intt_b (2 ^ 31).
Proof. exact bfe_mul_exact. Qed.

Theorem bfe_fmci_exact dbg : fmci_exact_b bfe_ops fp_field canon bden ntt_b intt_b BFE_MB bb_act 31 wr_b bden dbg.
Proof.
  apply (fmci_exact_all bfe_ops fp_field canon bden bfe_field_ok ntt_b intt_b (2 ^ 31) BFE_MB).
  - vm_compute. discriminate.
  - vm_compute. discriminate.
  - exact bfe_mul_exact_31.
  - exact bfe_red_rem_b.
  - exact bfe_rbnf_exact_b.
  - exact bfe_intt_ok.
  - exact bfe_roots_ok.
  - exact bfe_lift_ok.
  - exact bfe_binv_ok.
  - exact bfe_act_ok.
  - exact bfe_root_ok.
  - exact bfe_wr_sq31.
  - exact bfe_bmul_ok.
  - exact bfe_bpow_ok.
  - exact bfe_m2i_ok.
  - apply Nat.leb_le. reflexivity.
Qed.
Theorem bfe_fmci_preprocess_total l offset m : (l <= 31)%nat -> canon offset -> bden offset <> k0 fp_field -> Forall canon m ->
  ~ pzero fp_field (map bden m) -> poly_degree bfe_ops m <= 2 ^ 29 ->
  exists pre, pint_fmci_preprocess bfe_ops ntt_b intt_b (2 ^ Z.of_nat l) offset m = Some pre.
Proof.
  intros Hl Co Nz Om NZ Hd.
  apply (preprocess_total bfe_ops fp_field canon bden bfe_field_ok ntt_b intt_b (2 ^ 31) BFE_MB ltac:(vm_compute; discriminate) ltac:(vm_compute; discriminate)
           31 wr_b bden bfe_mul_exact_31 bfe_red_rem_b bfe_rbnf_exact_b bfe_roots_ok bfe_lift_ok bfe_binv_ok bfe_root_ok bfe_wr_sq31
           bfe_bmul_ok bfe_bpow_ok ltac:(apply Nat.leb_le; reflexivity) l offset m Hl Co Nz Om NZ).
  unfold BFE_MB. lia.
Qed.

Local Notation okb := (Forall canon).
Local Notation Db := (map bden).
(* fast_modular_coset_interpolate: congruent to THE interpolant, every codeword length 2^l <= 2^31 *)
Theorem bfe_fast_modular_coset_interpolate dbg l offset cw m : (l <= 31)%nat -> canon offset -> bden offset <> k0 fp_field -> okb cw ->
  length cw = (2 ^ l)%nat -> okb m -> ~ pzero fp_field (Db m) -> poly_degree bfe_ops m <= 2 ^ 29 ->
  exists r, pint_fast_modular_coset_interpolate bfe_ops bb_act ntt_b intt_b dbg cw offset m = Some r /\ okb r /\
            forall ip, interpolates fp_field (coset_points fp_field wr_b (bden offset) l) (Db cw) ip -> congruent fp_field ip (Db m) (Db r).
Proof.
  intros Hl Co Nz Hcw Lcw Om NZ Hd. apply (bfe_fmci_exact dbg l offset cw m Hl Co Nz Hcw Lcw Om NZ). unfold BFE_MB. lia.
Qed.
Theorem bfe_coset_extrapolate dbg l offset cw pts : (l <= 31)%nat -> canon offset -> bden offset <> k0 fp_field -> okb cw ->
  length cw = (2 ^ l)%nat -> okb pts -> Z.of_nat (length pts) <= 2 ^ 29 ->
  exists vs, pint_coset_extrapolate bfe_ops bb_act ntt_b intt_b dbg offset cw pts = Some vs /\ okb vs /\
             extrapolation_of fp_field bden wr_b bden offset l cw pts vs.
Proof.
  intros Hl Co Hnz Hcw Lcw Hp Hs.
  exact (coset_extrapolate_spec_b bfe_ops fp_field canon bden bfe_field_ok ntt_b intt_b BFE_MB bb_act 31 wr_b bfe_mul_exact_MB bfe_red_exact_b
           bfe_fred_exact_b bfe_intt_ok bfe_roots_ok bden bfe_lift_ok bfe_binv_ok dbg (bfe_fmci_exact dbg) l offset cw pts Hl Co Hnz Hcw Lcw Hp
           (bfe_fits pts Hs)).
Qed.
Theorem bfe_fast_coset_extrapolate dbg l offset cw pts : (l <= 31)%nat -> canon offset -> bden offset <> k0 fp_field -> okb cw ->
  length cw = (2 ^ l)%nat -> okb pts -> Z.of_nat (length pts) <= 2 ^ 29 ->
  exists vs, pint_fast_coset_extrapolate bfe_ops bb_act ntt_b intt_b dbg offset cw pts = Some vs /\ okb vs /\
             extrapolation_of fp_field bden wr_b bden offset l cw pts vs.
Proof.
  intros Hl Co Hnz Hcw Lcw Hp Hs.
  exact (fast_coset_extrapolate_spec_b bfe_ops fp_field canon bden bfe_field_ok ntt_b intt_b BFE_MB bb_act 31 wr_b bfe_mul_exact_MB bfe_red_exact_b
           bden dbg (bfe_fmci_exact dbg) l offset cw pts Hl Co Hnz Hcw Lcw Hp (bfe_fits pts Hs)).
Qed.
Theorem bfe_batch_coset_extrapolate dbg l offset cws pts : (l <= 31)%nat -> canon offset -> bden offset <> k0 fp_field -> okb cws ->
  okb pts -> Z.of_nat (length pts) <= 2 ^ 29 ->
  exists vs, pint_batch_coset_extrapolate bfe_ops bb_act ntt_b intt_b dbg offset (2 ^ Z.of_nat l) cws pts = Some vs /\
             pint_par_batch_coset_extrapolate bfe_ops bb_act ntt_b intt_b dbg offset (2 ^ Z.of_nat l) cws pts = Some vs /\ okb vs /\
             batch_extrapolation_of fp_field bden wr_b bden offset l (2 ^ Z.of_nat l) cws pts vs.
Proof.
  intros Hl Co Hnz Hc Hp Hs.
  apply (batch_coset_extrapolate_spec_b bfe_ops fp_field canon bden bfe_field_ok ntt_b intt_b BFE_MB bb_act 31 wr_b bfe_mul_exact_MB bfe_red_exact_b
           bfe_intt_ok bfe_roots_ok bden bfe_lift_ok bfe_binv_ok dbg (bfe_fmci_exact dbg) bfe_rbnf_exact_b l offset cws pts Hl Co Hnz Hc Hp (bfe_fits pts Hs)).
  destruct (tree_zerofier_spec bfe_ops fp_field canon bden bfe_field_ok ntt_b intt_b BFE_MB bfe_mul_exact_MB pts Hp (bfe_fits pts Hs)) as [t [Et [Oz Pz]]].
  rewrite Et. apply (bfe_fmci_preprocess_total l offset _ Hl Co Hnz Oz (zerofier_not_pzero fp_field bden _ _ Pz)).
  rewrite (zerofier_degree bfe_ops fp_field canon bden bfe_field_ok _ _ Oz Pz), map_length. exact Hs.
Qed.
