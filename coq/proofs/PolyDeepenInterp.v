(* proofs/PolyDeepenInterp.v - the C08 theorems that go through `reduce` / `fast_reduce` / `reduce_by_ntt_friendly_modulus`,
   re-proved from the BOUNDED forms of the C09 statements (PolyDeepenDiv: red_exact_b, fred_exact_b, rbnf_exact_b - the modulus
   has degree + 1 <= BND; the unbounded forms red_exact / fred_exact of PolyInterpProofs.v cannot hold for a concrete ntt: a
   modulus of degree 2^40 needs a transform length for which the field has no root of unity).  Every modulus the C08
   routines pass to the division family is the zerofier of (part of) the point list, so its degree is bounded by the same
   bound BND that `fits` puts on the point list.  The proofs follow those of PolyInterpProofs.v (Sections WithReduce,
   WithReduce2, Extrapolate); the parts that do not depend on the C09 statements are reused from there.

   The unbounded hypotheses imply the bounded ones (red_exact_weaken ...), so every theorem here is at least as strong as its
   namesake without `_b`.  The instances for Polynomial<BFieldElement> (BND = 2^29 + 1, i.e. at most 2^29 points) have no
   hypothesis left: Section BfeInstances at the end. *)
From Coq Require Import ZArith Lia List Bool Ring Field Setoid Morphisms FinFun.
From TF Require Import Word BFieldGen BField XField FieldOps FieldTheory PolyGen PolyCore PolySpec Ntt PolyDiv PolyInterp
  PolyInterpAlg PolyInterpBase BatchInvProofs Dft NttDft PolyCoreProofs PolyC07Wrap PolyDivProofs PolyInterpProofs PolyDeepenDiv.
Import ListNotations.
Open Scope Z_scope.
Ltac Zify.zify_post_hook ::= Z.div_mod_to_equations.

Section Bounded.
  Context {F K : Type} (o : fops F) (fk : fieldK K) (ok : F -> Prop) (den : F -> K).
  Hypothesis H : field_ok o fk ok den.
  Variable ntt : list F -> option (list F).
  Variable intt : list F -> option (list F).
  Variable BND : Z.
  Local Notation D := (map den).
  Local Notation okl := (Forall ok).
  Local Notation peq := (peq fk).
  Local Notation pmul := (pmul fk).
  Local Notation padd := (padd fk).
  Local Notation peval := (peval fk).
  Local Notation zspec := (zspec fk).
  Local Notation fits := (fits BND).
  Local Notation congruent := (congruent fk).
  Local Notation red_exact_b := (red_exact_b o fk ok den ntt intt BND).
  Local Notation fred_exact_b := (fred_exact_b o fk ok den ntt intt BND).
  Local Notation rbnf_exact_b := (rbnf_exact_b o fk ok den ntt intt BND).
  Local Notation mul_exact := (mul_exact o fk ok den ntt intt BND).
  Local Notation tree_ok := (tree_ok fk ok den).
  Local Notation beval_exact := (beval_exact fk ok den BND).
  Local Notation interp_exact := (interp_exact fk ok den BND).
  Add Field kfield_PolyDeepenInterp : (kFT fk).

  (* the unbounded hypotheses of PolyInterpProofs.v imply the bounded ones *)
  Lemma red_exact_weaken : red_exact o fk ok den ntt intt -> red_exact_b.
  Proof. intros Hr a m Ha Hm NZ _. exact (Hr a m Ha Hm NZ). Qed.
  Lemma fred_exact_weaken : fred_exact o fk ok den ntt intt -> fred_exact_b.
  Proof. intros Hr a m Ha Hm NZ _. exact (Hr a m Ha Hm NZ). Qed.
  Lemma rbnf_exact_weaken : rbnf_exact o fk ok den ntt intt -> rbnf_exact_b.
  Proof. intros Hr m Hm NZ _. exact (Hr m Hm NZ). Qed.

  Hypothesis Hmul : mul_exact.
  Local Notation fits_le := (fits_le ntt intt BND).
  Local Notation fits_take := (fits_take ntt intt BND).
  Local Notation fits_drop := (fits_drop ntt intt BND).
  Local Notation chunks_fits := (chunks_fits ntt intt BND).
  Local Notation tree_new_from_domain_spec := (tree_new_from_domain_spec o fk ok den H ntt intt BND Hmul).
  Local Notation tree_ok_zerofier := (tree_ok_zerofier o fk ok den H).
  Local Notation zerofier_not_pzero := (zerofier_not_pzero fk den).
  Local Notation zerofier_degree := (zerofier_degree o fk ok den H).
  Local Notation iterative_batch_evaluate_spec := (iterative_batch_evaluate_spec o fk ok den H).
  Local Notation map_peval_congruent := (map_peval_congruent fk).
  Local Notation map_peval_pzero := (map_peval_pzero fk).
  Local Notation peval_zspec_root := (peval_zspec_root fk).

  (* the zerofier of a fitting point list is a modulus the bounded C09 statements apply to *)
  Lemma zerofier_fits z pts : okl z -> peq (D z) (zspec (D pts)) -> fits pts -> poly_degree o z + 1 <= BND.
  Proof. intros Oz Pz Hf. rewrite (zerofier_degree z _ Oz Pz), map_length. exact Hf. Qed.

  Section WithReduce.
    Hypothesis Hred : red_exact_b.

    Theorem dac_batch_evaluate_spec_b t pts : tree_ok t pts -> fits pts -> forall p, okl p ->
      exists vs, pint_dac_batch_evaluate o ntt intt p t = Some vs /\ okl vs /\ D vs = map (peval (D p)) (D pts).
    Proof.
      intros T. induction T as [pts z Op Oz Pz|z l r pl pr Tl IHl Tr IHr Oz Pz|]; intros Hfit p Hp.
      - cbn [pint_dac_batch_evaluate pint_tree_zerofier].
        destruct (Hred p z Hp Oz (zerofier_not_pzero z _ Pz) (zerofier_fits z pts Oz Pz Hfit)) as [rm [Er [Or Cr]]]. rewrite Er.
        destruct (iterative_batch_evaluate_spec rm pts Or Op) as [O1 E1]. eexists. split; [reflexivity|]. split; [exact O1|].
        rewrite E1. symmetry. apply (map_peval_congruent _ (D z) _ _ Cr).
        intros x Hx. rewrite Pz. apply peval_zspec_root. exact Hx.
      - cbn [pint_dac_batch_evaluate].
        destruct (IHl ltac:(apply (fits_le (pl ++ pr)); [rewrite app_length; lia|exact Hfit]) p Hp) as [a [Ea [Oa Da]]].
        destruct (IHr ltac:(apply (fits_le (pl ++ pr)); [rewrite app_length; lia|exact Hfit]) p Hp) as [b [Eb [Ob Db]]].
        rewrite Ea, Eb. eexists. split; [reflexivity|]. split; [apply Forall_app; split; assumption|].
        rewrite !map_app, Da, Db. reflexivity.
      - exists []. split; [reflexivity|]. split; [constructor|reflexivity].
    Qed.

    Theorem batch_evaluate_spec_b (Hfred : fred_exact_b) p dom : okl p -> okl dom -> fits dom ->
      exists vs, pint_batch_evaluate o ntt intt p dom = Some vs /\ okl vs /\ D vs = map (peval (D p)) (D dom).
    Proof.
      intros Hp Hd Hfit. unfold pint_batch_evaluate. destruct (poly_is_zero o p) eqn:Ez.
      - apply (pb_is_zero_iff o fk ok den H p Hp) in Ez. eexists. split; [reflexivity|].
        split; [apply (pb_okl_zeros o fk ok den H)|]. rewrite (pb_D_zeros o fk ok den H), (map_peval_pzero _ _ Ez), pb_zlen_map. reflexivity.
      - destruct (tree_new_from_domain_spec dom Hd Hfit) as [t [Et Tt]].
        destruct (poly_degree o p >=? REDUCE_BEFORE_EVALUATE_THRESHOLD_RATIO * zlen dom).
        + unfold pint_reduce_then_batch_evaluate. rewrite Et. destruct (tree_ok_zerofier t dom Tt) as [Oz Pz].
          destruct (Hfred p _ Hp Oz (zerofier_not_pzero _ _ Pz) (zerofier_fits _ dom Oz Pz Hfit)) as [rm [Er [Or Cr]]]. rewrite Er.
          destruct (dac_batch_evaluate_spec_b t dom Tt Hfit rm Or) as [vs [Ev [Ov Dv]]]. exists vs. split; [exact Ev|]. split; [exact Ov|].
          rewrite Dv. symmetry. apply (map_peval_congruent _ _ _ _ Cr). intros x Hx. rewrite Pz. apply peval_zspec_root. exact Hx.
        + rewrite Et. apply (dac_batch_evaluate_spec_b t dom Tt Hfit p Hp).
    Qed.
    Lemma map_opt_batch_evaluate_b (Hfred : fred_exact_b) p cs : okl p -> Forall okl cs -> Forall fits cs ->
      exists rs, map_opt (pint_batch_evaluate o ntt intt p) cs = Some rs /\ okl (concat rs) /\
                 D (concat rs) = map (peval (D p)) (D (concat cs)).
    Proof.
      intros Hp. induction cs as [|c cs IH]; intros Hcs Hfs; [exists []; split; [reflexivity|split; [constructor|reflexivity]]|].
      inversion Hcs as [|? ? Hc Hcs']; inversion Hfs as [|? ? Hf Hfs']; subst.
      destruct (batch_evaluate_spec_b Hfred p c Hp Hc Hf) as [v [Ev [Ov Dv]]].
      destruct (IH Hcs' Hfs') as [rs [Er [Or Dr]]]. exists (v :: rs). cbn [map_opt]. rewrite Ev, Er. split; [reflexivity|].
      cbn [concat]. split; [apply Forall_app; split; assumption|]. rewrite !map_app, Dv, Dr. reflexivity.
    Qed.
    Theorem par_batch_evaluate_spec_b (Hfred : fred_exact_b) nt p dom : 1 <= nt -> okl p -> okl dom -> fits dom ->
      exists vs, pint_par_batch_evaluate o ntt intt nt p dom = Some vs /\ okl vs /\ D vs = map (peval (D p)) (D dom).
    Proof.
      intros Hnt Hp Hd Hfit. unfold pint_par_batch_evaluate. destruct dom as [|x0 dom'].
      - exists []. split; [reflexivity|]. split; [constructor|reflexivity].
      - set (dom := x0 :: dom') in *. destruct (poly_is_zero o p) eqn:Ez.
        + apply (pb_is_zero_iff o fk ok den H p Hp) in Ez. eexists. split; [reflexivity|].
          split; [apply (pb_okl_zeros o fk ok den H)|]. rewrite (pb_D_zeros o fk ok den H), (map_peval_pzero _ _ Ez), pb_zlen_map. reflexivity.
        + destruct (nt <=? 0) eqn:E; [apply Z.leb_le in E; lia|].
          set (cs := pint_div_ceil (zlen dom) nt).
          assert (Hcs : 0 < cs).
          { unfold cs, pint_div_ceil, dom. rewrite pb_zlen_cons. pose proof (pb_zlen_nonneg dom'). apply Z.div_str_pos. lia. }
          destruct (map_opt_batch_evaluate_b Hfred p (chunks cs dom) Hp (pb_chunks_Forall ok cs dom Hd) (chunks_fits cs dom Hcs Hfit))
            as [rs [Er [Or Dr]]].
          rewrite Er. eexists. split; [reflexivity|]. split; [exact Or|]. rewrite Dr, (pb_chunks_concat cs dom Hcs). reflexivity.
    Qed.
  End WithReduce.

  (* ================================================================ interpolation *)
  Section WithReduce2.
    Hypothesis Hred : red_exact_b.
    Hypothesis Hfred : fred_exact_b.
    Local Notation dispatch_spec := (dispatch_spec o fk ok den H ntt intt BND Hmul).
    Local Notation fast_interpolate_with_spec := (fast_interpolate_with_spec o fk ok den H ntt intt BND Hmul).

    Lemma batch_evaluate_exact_b : beval_exact (pint_batch_evaluate o ntt intt).
    Proof. intros p dom Hp Hd Hf. apply batch_evaluate_spec_b; assumption. Qed.
    Lemma par_batch_evaluate_exact_b nt : 1 <= nt -> beval_exact (pint_par_batch_evaluate o ntt intt nt).
    Proof. intros Hnt p dom Hp Hd Hf. apply par_batch_evaluate_spec_b; assumption. Qed.

    Lemma interpolate_go_spec_b dbg fuel : interp_exact (pint_interpolate_go o ntt intt dbg fuel) fuel.
    Proof.
      induction fuel as [|f IH]; intros d v Hd Hv Hnd Lv Hne Hfit Hlt; [lia|]. cbn [pint_interpolate_go].
      apply dispatch_spec; try assumption; [exact batch_evaluate_exact_b|].
      intros d' v' Hd' Hv' Hnd' Lv' Hne' Hfit' Hlt'. apply IH; try assumption. lia.
    Qed.
    Theorem interpolate_spec_b dbg domain values : okl domain -> okl values -> NoDup (D domain) ->
      length values = length domain -> domain <> [] -> fits domain ->
      exists r, pint_interpolate o ntt intt dbg domain values = Some r /\ okl r /\ interpolates fk (D domain) (D values) (D r).
    Proof. intros Hd Hv Hnd Lv Hne Hfit. unfold pint_interpolate. apply interpolate_go_spec_b; try assumption. lia. Qed.
    Theorem fast_interpolate_spec_b dbg domain values : okl domain -> okl values -> NoDup (D domain) ->
      length values = length domain -> domain <> [] -> fits domain ->
      exists r, pint_fast_interpolate o ntt intt dbg domain values = Some r /\ okl r /\ interpolates fk (D domain) (D values) (D r).
    Proof.
      intros Hd Hv Hnd Lv Hne Hfit. unfold pint_fast_interpolate. apply fast_interpolate_with_spec; try assumption; [exact batch_evaluate_exact_b|].
      intros d' v' Hd' Hv' Hnd' Lv' Hne' Hfit' Hlt'. apply interpolate_spec_b; assumption.
    Qed.
    Lemma par_interpolate_go_spec_b dbg nt fuel : 1 <= nt -> interp_exact (pint_par_interpolate_go o ntt intt dbg nt fuel) fuel.
    Proof.
      intros Hnt. induction fuel as [|f IH]; intros d v Hd Hv Hnd Lv Hne Hfit Hlt; [lia|]. cbn [pint_par_interpolate_go].
      apply dispatch_spec; try assumption; [exact (par_batch_evaluate_exact_b nt Hnt)|].
      intros d' v' Hd' Hv' Hnd' Lv' Hne' Hfit' Hlt'. apply IH; try assumption. lia.
    Qed.
    Theorem par_interpolate_spec_b dbg nt domain values : 1 <= nt -> okl domain -> okl values -> NoDup (D domain) ->
      length values = length domain -> domain <> [] -> fits domain ->
      exists r, pint_par_interpolate o ntt intt dbg nt domain values = Some r /\ okl r /\
                interpolates fk (D domain) (D values) (D r).
    Proof. intros Hnt Hd Hv Hnd Lv Hne Hfit. unfold pint_par_interpolate. apply par_interpolate_go_spec_b; try assumption. lia. Qed.
    Theorem par_fast_interpolate_spec_b dbg nt domain values : 1 <= nt -> okl domain -> okl values -> NoDup (D domain) ->
      length values = length domain -> domain <> [] -> fits domain ->
      exists r, pint_par_fast_interpolate o ntt intt dbg nt domain values = Some r /\ okl r /\
                interpolates fk (D domain) (D values) (D r).
    Proof.
      intros Hnt Hd Hv Hnd Lv Hne Hfit. unfold pint_par_fast_interpolate.
      apply fast_interpolate_with_spec; try assumption; [exact (par_batch_evaluate_exact_b nt Hnt)|].
      intros d' v' Hd' Hv' Hnd' Lv' Hne' Hfit' Hlt'. apply par_interpolate_spec_b; assumption.
    Qed.

    (* ================================================================ batch_fast_interpolate (memoised): the proof of
       PolyInterpProofs.bfi_go_spec with the bounded evaluation statement *)
    Local Notation key_ok := (key_ok ok).
    Local Notation kden := (kden den).
    Local Notation memo_ok := (memo_ok ok).
    Local Notation memo_inv := (memo_inv o den).
    Local Notation row_ok := (row_ok ok).
    Local Notation rows_interpolate := (rows_interpolate fk ok den).
    Local Notation bfi_base := (bfi_base o fk ok den H ntt intt BND Hmul).
    Local Notation combine_rows := (combine_rows o fk ok den H ntt intt BND Hmul).
    Local Notation get_or_miss := (get_or_miss o fk ok den H).
    Local Notation zerofier_spec := (zerofier_spec o fk ok den H ntt intt BND Hmul).
    Local Notation batch_inversion_spec_K := (batch_inversion_spec_K o fk ok den H).
    Local Notation map2_mul_spec := (map2_mul_spec o fk ok den H).
    Local Notation okl_D_in := (okl_D_in ok).
    Local Notation In_D_nth := (In_D_nth den).
    Local Notation NoDup_D_nth := (NoDup_D_nth den).
    Local Notation peval_zspec_nonroot := (peval_zspec_nonroot fk).
      Lemma bfi_go_spec_b dbg fuel : forall c matrix memo, (length c <= fuel)%nat -> okl c -> c <> [] -> NoDup (D c) -> fits c ->
        Forall (row_ok (length c)) matrix -> memo_ok memo -> memo_inv c memo ->
        exists rs memo', pint_bfi_go o ntt intt dbg fuel c matrix memo = Some (rs, memo') /\ rows_interpolate c matrix rs /\
          memo_ok memo' /\
          (forall k, In k (memo_keys memo') -> In k (memo_keys memo) \/ (In (den (fst k)) (D c) /\ In (den (snd k)) (D c))).
      Proof.
        induction fuel as [|f IH]; intros c matrix memo Hlen Hc Hne Hnd Hfit Hm Hmo Hinv.
        { destruct c; [congruence|cbn in Hlen; lia]. }
        cbn [pint_bfi_go]. destruct (zlen c <? OPTIMAL_CUTOFF_POINT_FOR_BATCHED_INTERPOLATION) eqn:Ecut.
        { destruct (bfi_base dbg c matrix Hc Hne Hnd Hfit Hm) as [rs [E F2]]. rewrite E. exists rs, memo.
          split; [reflexivity|]. split; [exact F2|]. split; [exact Hmo|]. intros k Hk. left. exact Hk. }
        apply Z.ltb_ge in Ecut. unfold OPTIMAL_CUTOFF_POINT_FOR_BATCHED_INTERPOLATION in Ecut.
        set (d := fzero o). set (n := length c) in *. set (half := zlen c / 2). set (h := Z.to_nat half).
        assert (Hh : (8 <= h)%nat /\ (h < n)%nat /\ half = Z.of_nat h /\ (16 <= n)%nat) by (unfold h, half, zlen, n in *; lia).
        destruct Hh as [Hh8 [Hhn [Ehalf Hn16]]].
        rewrite (idx_nat c 0 0 d eq_refl ltac:(fold n; lia)).
        rewrite (idx_nat c (half - 1) (h - 1) d ltac:(lia) ltac:(fold n; lia)).
        rewrite (idx_nat c half h d Ehalf ltac:(fold n; lia)).
        rewrite (idx_nat c (zlen c - 1) (n - 1) d ltac:(unfold zlen; fold n; lia) ltac:(fold n; lia)).
        set (x0 := nth 0 c d). set (xh1 := nth (h - 1) c d). set (xh := nth h c d). set (xl := nth (n - 1) c d).
        set (lk := (x0, xh1)). set (rk := (xh, xl)). set (lc := take half c). set (rc := drop half c).
        destruct memo as [zd od].
        (* the two halves *)
        assert (Olc : okl lc) by (apply pb_Forall_take; exact Hc). assert (Orc : okl rc) by (apply pb_Forall_drop; exact Hc).
        assert (Llc : length lc = h) by (apply pb_length_take; unfold zlen; fold n; lia).
        assert (Lrc : length rc = (n - h)%nat) by (unfold rc; rewrite pb_length_drop; unfold zlen; fold n; lia).
        assert (Ec : lc ++ rc = c) by apply pb_take_drop.
        assert (EDc : D c = D lc ++ D rc) by (rewrite <- map_app, Ec; reflexivity).
        assert (Hnd2 : NoDup (D lc ++ D rc)) by (rewrite <- EDc; exact Hnd).
        assert (Flc : fits lc) by (apply fits_take; exact Hfit). assert (Frc : fits rc) by (apply fits_drop; exact Hfit).
        assert (Nlc : lc <> []) by (intros X; rewrite X in Llc; cbn in Llc; lia).
        assert (Nrc : rc <> []) by (intros X; rewrite X in Lrc; cbn in Lrc; lia).
        assert (Ox : forall i, (i < n)%nat -> ok (nth i c d)) by (intros i Hi; apply (okl_D_in c); [exact Hc|apply nth_In; exact Hi]).
        assert (Klk : key_ok lk) by (split; apply Ox; lia). assert (Krk : key_ok rk) by (split; apply Ox; lia).
        (* elements of the halves *)
        assert (Nl : forall i, (i < h)%nat -> nth i lc d = nth i c d) by (intros i Hi; apply nth_take; fold h; exact Hi).
        assert (Nr : forall i, nth i rc d = nth (h + i) c d) by (intros i; unfold rc; rewrite nth_drop by lia; reflexivity).
        assert (Inl : forall i, (i < h)%nat -> In (den (nth i c d)) (D lc)).
        { intros i Hi. rewrite <- (Nl i Hi). apply In_D_nth. lia. }
        assert (Inr : forall i, (h <= i < n)%nat -> In (den (nth i c d)) (D rc)).
        { intros i Hi. replace i with (h + (i - h))%nat by lia. rewrite <- Nr. apply In_D_nth. lia. }
        assert (Disj : forall y, In y (D lc) -> In y (D rc) -> False) by (intros y A1 A2; exact (NoDup_app_disjoint _ _ y Hnd2 A1 A2)).
        assert (Inc : forall i, (i < n)%nat -> In (den (nth i c d)) (D c)) by (intros i Hi; apply In_D_nth; exact Hi).
        (* no key of the incoming tables is the key of a half *)
        assert (MissL : forall k', In k' (memo_keys (zd, od)) -> kden k' <> kden lk).
        { intros k' Hk' E. unfold kden in E. cbn [fst snd lk] in E. inversion E as [[E1 E2]].
          pose proof (Hinv k' Hk' ltac:(rewrite E1; apply Inc; lia) ltac:(rewrite E2; apply Inc; lia)) as E3.
          unfold kden in E3. inversion E3 as [[E4 E5]]. rewrite E2 in E5. fold n d in E5.
          pose proof (NoDup_D_nth c d (h - 1) (n - 1) Hnd ltac:(fold n; lia) ltac:(fold n; lia) E5). lia. }
        assert (MissR : forall k', In k' (memo_keys (zd, od)) -> kden k' <> kden rk).
        { intros k' Hk' E. unfold kden in E. cbn [fst snd rk] in E. inversion E as [[E1 E2]].
          pose proof (Hinv k' Hk' ltac:(rewrite E1; apply Inc; lia) ltac:(rewrite E2; apply Inc; lia)) as E3.
          unfold kden in E3. inversion E3 as [[E4 E5]]. rewrite E1 in E4. fold d in E4.
          pose proof (NoDup_D_nth c d h 0 Hnd ltac:(fold n; lia) ltac:(fold n; lia) E4). lia. }
        assert (LneR : kden lk <> kden rk).
        { intros E. unfold kden in E. cbn [fst snd lk rk] in E. inversion E as [[E1 E2]].
          pose proof (NoDup_D_nth c d 0 h Hnd ltac:(fold n; lia) ltac:(fold n; lia) E1). lia. }
        unfold memo_ok, memo_keys in Hmo. cbn [fst snd] in Hmo. apply Forall_app in Hmo. destruct Hmo as [Hzd Hod].
        (* zerofiers *)
        destruct (zerofier_spec lc Olc Flc) as [lz [Elz [Olz [_ Plz]]]]. destruct (zerofier_spec rc Orc Frc) as [rz [Erz [Orz [_ Prz]]]].
        rewrite Elz. rewrite (get_or_miss lk zd lz Klk Hzd); [|intros k' Hk'; apply MissL; unfold memo_keys; cbn [fst snd]; apply in_or_app; left; exact Hk'].
        rewrite Erz. rewrite (get_or_miss rk ((lk, lz) :: zd) rz Krk).
        2: { cbn [map fst]. constructor; assumption. }
        2: { cbn [map fst]. intros k' [<-|Hk']; [exact LneR|]. apply MissR. unfold memo_keys. cbn [fst snd]. apply in_or_app. left. exact Hk'. }
        (* inverted offsets *)
        destruct (batch_evaluate_exact_b rz lc Orz Olc Flc) as [lo [Elo [Olo Dlo]]].
        destruct (batch_evaluate_exact_b lz rc Olz Orc Frc) as [ro [Ero [Oro Dro]]].
        destruct (batch_inversion_spec_K lo Olo) as [loi [Eloi [Oloi Dloi]]].
        { apply Forall_forall. intros y Hy. apply (in_map den) in Hy. rewrite Dlo in Hy. apply in_map_iff in Hy.
          destruct Hy as [x [<- Hx]]. rewrite Prz. apply peval_zspec_nonroot. intros X. exact (Disj x Hx X). }
        destruct (batch_inversion_spec_K ro Oro) as [roi [Eroi [Oroi Droi]]].
        { apply Forall_forall. intros y Hy. apply (in_map den) in Hy. rewrite Dro in Hy. apply in_map_iff in Hy.
          destruct Hy as [x [<- Hx]]. rewrite Plz. apply peval_zspec_nonroot. intros X. exact (Disj x X Hx). }
        rewrite Elo, Eloi. rewrite (get_or_miss lk od loi Klk Hod); [|intros k' Hk'; apply MissL; unfold memo_keys; cbn [fst snd]; apply in_or_app; right; exact Hk'].
        rewrite Ero, Eroi. rewrite (get_or_miss rk ((lk, loi) :: od) roi Krk).
        2: { cbn [map fst]. constructor; assumption. }
        2: { cbn [map fst]. intros k' [<-|Hk']; [exact LneR|]. apply MissR. unfold memo_keys. cbn [fst snd]. apply in_or_app. right. exact Hk'. }
        rewrite Dlo in Dloi. rewrite Dro in Droi.
        (* targets *)
        assert (Hrows : Forall (fun v => (zlen v <? half) = false) matrix).
        { apply Forall_forall. intros v Hv. rewrite Forall_forall in Hm. destruct (Hm v Hv) as [_ Lv]. apply Z.ltb_ge. unfold zlen. rewrite Lv. fold n. lia. }
        rewrite (map_opt_total (fun v => map2 (fmul o) (take half v) loi) (fun v => zlen v <? half) matrix Hrows).
        rewrite (map_opt_total (fun v => map2 (fmul o) (drop half v) roi) (fun v => zlen v <? half) matrix Hrows).
        assert (Lloi : length loi = h) by (rewrite <- (map_length den loi), Dloi, !map_length; exact Llc).
        assert (Lroi : length roi = (n - h)%nat) by (rewrite <- (map_length den roi), Droi, !map_length; exact Lrc).
        assert (Rl : Forall (row_ok (length lc)) (map (fun v => map2 (fmul o) (take half v) loi) matrix)).
        { apply Forall_forall. intros t Ht. apply in_map_iff in Ht. destruct Ht as [v [<- Hv]]. rewrite Forall_forall in Hm.
          destruct (Hm v Hv) as [Ov Lv]. split; [apply map2_mul_spec; [apply pb_Forall_take; exact Ov|exact Oloi]|].
          rewrite pb_map2_length, pb_length_take by (unfold zlen; rewrite Lv; fold n; lia). fold h. lia. }
        assert (Rr : Forall (row_ok (length rc)) (map (fun v => map2 (fmul o) (drop half v) roi) matrix)).
        { apply Forall_forall. intros t Ht. apply in_map_iff in Ht. destruct Ht as [v [<- Hv]]. rewrite Forall_forall in Hm.
          destruct (Hm v Hv) as [Ov Lv]. split; [apply map2_mul_spec; [apply pb_Forall_drop; exact Ov|exact Oroi]|].
          rewrite pb_map2_length, pb_length_drop by (unfold zlen; rewrite Lv; fold n; lia). fold h. rewrite Lv. fold n. lia. }
        set (memo1 := ((rk, rz) :: (lk, lz) :: zd, (rk, roi) :: (lk, loi) :: od)).
        assert (Hmo1 : memo_ok memo1).
        { unfold memo_ok, memo_keys, memo1. cbn [fst snd map]. apply Forall_app. split; repeat (constructor; [assumption|]); assumption. }
        (* left recursion *)
        assert (Hinv1 : memo_inv lc memo1).
        { intros k Hk A1 A2. destruct (memo_keys_cons2 lk rk _ _ _ _ zd od k Hk) as [->|[->|Hold]].
          - exfalso. cbn [fst rk] in A1. exact (Disj _ A1 (Inr h ltac:(lia))).
          - unfold kden. cbn [fst snd lk]. fold d. rewrite (Nl 0%nat ltac:(lia)), Llc, (Nl (h - 1)%nat ltac:(lia)). reflexivity.
          - exfalso. pose proof (Hinv k Hold ltac:(rewrite EDc; apply in_or_app; left; exact A1) ltac:(rewrite EDc; apply in_or_app; left; exact A2)) as E3.
            unfold kden in E3. inversion E3 as [[E4 E5]]. fold n d in E5. rewrite E5 in A2. exact (Disj _ A2 (Inr (n - 1)%nat ltac:(lia))). }
        destruct (IH lc _ memo1 ltac:(lia) Olc Nlc (NoDup_app_l _ _ Hnd2) Flc Rl Hmo1 Hinv1) as [lis [memo2 [El [Fl [Hmo2 Post2]]]]].
        unfold memo1 in El. unfold pint_key in *. rewrite El.
        (* right recursion *)
        assert (Hinv2 : memo_inv rc memo2).
        { intros k Hk A1 A2. destruct (Post2 k Hk) as [Hk1|[B1 B2]]; [|exfalso; exact (Disj _ B1 A1)].
          destruct (memo_keys_cons2 lk rk _ _ _ _ zd od k Hk1) as [->|[->|Hold]].
          - unfold kden. cbn [fst snd rk]. fold d. rewrite Nr, Nr, Lrc. replace (h + 0)%nat with h by lia. replace (h + (n - h - 1))%nat with (n - 1)%nat by lia. reflexivity.
          - exfalso. cbn [fst lk] in A1. exact (Disj _ (Inl 0%nat ltac:(lia)) A1).
          - exfalso. pose proof (Hinv k Hold ltac:(rewrite EDc; apply in_or_app; right; exact A1) ltac:(rewrite EDc; apply in_or_app; right; exact A2)) as E3.
            unfold kden in E3. inversion E3 as [[E4 E5]]. fold d in E4. rewrite E4 in A1. exact (Disj _ (Inl 0%nat ltac:(lia)) A1). }
        destruct (IH rc _ memo2 ltac:(lia) Orc Nrc (NoDup_app_r _ _ Hnd2) Frc Rr Hmo2 Hinv2) as [ris [memo3 [Er [Fr [Hmo3 Post3]]]]].
        rewrite Er.
        (* combination *)
        assert (Ehl : half = Z.of_nat (length lc)) by (rewrite Llc; exact Ehalf).
        rewrite Ehl in Fl, Fr.
        destruct (combine_rows lc rc lz rz loi roi Olc Orc ltac:(rewrite Ec; exact Hfit) Hnd2 Olz Plz Orz Prz Oloi Dloi Oroi Droi
                    matrix lis ris ltac:(rewrite Ec; exact Hm) Fl Fr) as [rs [Ers Frs]].
        rewrite Ers. exists rs, memo3. split; [reflexivity|]. split; [rewrite Ec in Frs; exact Frs|]. split; [exact Hmo3|].
        intros k Hk. destruct (Post3 k Hk) as [Hk2|[B1 B2]].
        - destruct (Post2 k Hk2) as [Hk1|[B1 B2]].
          + destruct (memo_keys_cons2 lk rk _ _ _ _ zd od k Hk1) as [->|[->|Hold]].
            * right. cbn [fst snd rk]. split; apply Inc; lia.
            * right. cbn [fst snd lk]. split; apply Inc; lia.
            * left. exact Hold.
          + right. rewrite EDc. split; apply in_or_app; left; assumption.
        - right. rewrite EDc. split; apply in_or_app; right; assumption.
      Qed.

      (* batch_fast_interpolate: fresh (empty) tables; every row of the matrix gets THE interpolant.  The proof shows that no
         lookup ever hits on a duplicate-free domain (distinct sub-slices have distinct (first, last) keys), so whatever
         the tables contain is never read: memoisation is sound. *)
      Theorem batch_fast_interpolate_spec_b dbg domain matrix root order : okl domain -> domain <> [] -> NoDup (D domain) ->
        fits domain -> Forall (row_ok (length domain)) matrix ->
        (dbg = true -> mod_pow root (order mod 2 ^ 32) = bfe_one) ->
        exists rs, pint_batch_fast_interpolate o ntt intt dbg domain matrix root order = Some rs /\
                   rows_interpolate domain matrix rs.
      Proof.
        intros Hd Hne Hnd Hfit Hm Hroot. unfold pint_batch_fast_interpolate.
        replace (dbg && negb (mod_pow root (order mod 2 ^ 32) =? bfe_one)) with false.
        2: { destruct dbg; [|reflexivity]. rewrite (Hroot eq_refl), Z.eqb_refl. reflexivity. }
        destruct domain as [|x0 dom']; [congruence|]. set (domain := x0 :: dom') in *.
        unfold pint_batch_fast_interpolate_with_memoization.
        destruct (bfi_go_spec_b dbg (length domain) domain matrix ([], []) ltac:(lia) Hd Hne Hnd Hfit Hm) as [rs [memo' [E [F2 _]]]].
        - constructor.
        - intros k Hk. destruct Hk.
        - rewrite E. exists rs. split; [reflexivity|exact F2].
      Qed.
      (* the memoised worker itself, for any tables that satisfy the invariant *)
      Theorem batch_fast_interpolate_with_memoization_spec_b dbg domain matrix memo : okl domain -> domain <> [] -> NoDup (D domain) ->
        fits domain -> Forall (row_ok (length domain)) matrix -> memo_ok memo -> memo_inv domain memo ->
        exists rs memo', pint_batch_fast_interpolate_with_memoization o ntt intt dbg domain matrix memo = Some (rs, memo') /\
                         rows_interpolate domain matrix rs /\ memo_ok memo'.
      Proof.
        intros Hd Hne Hnd Hfit Hm Hmo Hinv. unfold pint_batch_fast_interpolate_with_memoization.
        destruct (bfi_go_spec_b dbg (length domain) domain matrix memo ltac:(lia) Hd Hne Hnd Hfit Hm Hmo Hinv) as [rs [memo' [E [F2 [Hmo' _]]]]].
        exists rs, memo'. split; [exact E|]. split; assumption.
      Qed.
  End WithReduce2.
End Bounded.

(* ================================================================== coset extrapolation, from the bounded C09 statements
   (the proofs of PolyInterpProofs.v, Section Extrapolate; lemmas that do not touch the division family are reused) *)
Section BoundedExtrapolate.
  Context {F K : Type} (o : fops F) (fk : fieldK K) (ok : F -> Prop) (den : F -> K).
  Hypothesis H : field_ok o fk ok den.
  Variable ntt : list F -> option (list F).
  Variable intt : list F -> option (list F).
  Variable BND : Z.
  Local Notation D := (map den).
  Local Notation okl := (Forall ok).
  Local Notation peq := (peq fk).
  Local Notation peval := (peval fk).
  Local Notation zspec := (zspec fk).
  Local Notation fits := (fits BND).
  Local Notation congruent := (congruent fk).
  Local Notation red_exact_b := (red_exact_b o fk ok den ntt intt BND).
  Local Notation fred_exact_b := (fred_exact_b o fk ok den ntt intt BND).
  Local Notation rbnf_exact_b := (rbnf_exact_b o fk ok den ntt intt BND).
    Variable act : fact Z F.
    Variable lmax : nat.
    Variable wr : nat -> K.
    Hypothesis Hmul : mul_exact o fk ok den ntt intt BND.
    Hypothesis Hred : red_exact_b.
    Hypothesis Hfred : fred_exact_b.
    Hypothesis Hintt : intt_ok fk ok den intt lmax wr.
    Hypothesis Hroots : roots_ok fk lmax wr.
    Variable emb : Z -> K.
    Hypothesis Hlift : lift_ok o ok den emb.
    Hypothesis Hbinv : binv_ok fk emb.
    Local Notation extrapolation_of := (extrapolation_of fk den wr emb).
    Local Notation batch_extrapolation_of := (batch_extrapolation_of fk den wr emb).
    Local Notation act_ok := (act_ok fk ok den act emb).
    Local Notation root_ok := (root_ok lmax wr emb).
    Local Notation coset_points := (coset_points fk).
    Local Notation coset_points_NoDup := (coset_points_NoDup fk).
    Local Notation coset_interpolant_spec := (coset_interpolant_spec o fk ok den H intt lmax wr Hintt Hroots emb Hlift Hbinv).
    Local Notation extrapolation_of_intro := (extrapolation_of_intro fk den lmax wr Hroots emb).
    Local Notation tree_new_from_domain_spec := (tree_new_from_domain_spec o fk ok den H ntt intt BND).
    Local Notation tree_ok_zerofier := (tree_ok_zerofier o fk ok den H).
    Local Notation zerofier_not_pzero := (zerofier_not_pzero fk den).
    Local Notation map_peval_congruent := (map_peval_congruent fk).
    Local Notation peval_zspec_root := (peval_zspec_root fk).
    Local Notation codeword_chunks_spec := (codeword_chunks_spec ok).
    Local Notation flat_map_opt_spec := (flat_map_opt_spec ok).
    Local Notation congruent_trans := (congruent_trans fk).
    Local Notation congruent_peq := (congruent_peq fk).
    Local Notation scan_mul_spec := (scan_mul_spec fk ok den act emb).
    Local Notation preprocess_shift := (preprocess_shift o ntt intt).
    Local Notation lagrange_interpolate_spec := (lagrange_interpolate_spec o fk ok den H ntt intt BND).
    Local Notation fits_le := (fits_le ntt intt BND).



    Theorem naive_coset_extrapolate_spec_b l offset cw pts : (l <= lmax)%nat -> BFieldProofs.canon offset -> emb offset <> k0 fk ->
      okl cw -> length cw = (2 ^ l)%nat -> okl pts -> fits pts ->
      exists vs, pint_naive_coset_extrapolate o ntt intt offset cw pts = Some vs /\ okl vs /\ extrapolation_of offset l cw pts vs.
    Proof.
      intros Hl Co Hnz Hcw Lcw Hp Hfit. unfold pint_naive_coset_extrapolate.
      destruct (coset_interpolant_spec l offset cw Hl Co Hnz Hcw Lcw) as [ip [Ei [Oi Ii]]]. rewrite Ei.
      destruct (batch_evaluate_spec_b o fk ok den H ntt intt BND Hmul Hred Hfred ip pts Oi Hp Hfit) as [vs [Ev [Ov Dv]]]. exists vs. split; [exact Ev|].
      split; [exact Ov|]. exact (extrapolation_of_intro offset l cw pts vs (D ip) Hl Hnz Ii Dv).
    Qed.

    (* C08 itself, conditionally: fast_modular_coset_interpolate returns a polynomial congruent, modulo the given non-zero
       modulus, to the interpolant of the codeword (see fmci_lagrange_regime_spec for the regime n < 2^8) *)
    Definition fmci_exact_b (dbg : bool) : Prop := forall l offset cw m, (l <= lmax)%nat -> BFieldProofs.canon offset ->
      emb offset <> k0 fk -> okl cw -> length cw = (2 ^ l)%nat -> okl m -> ~ pzero fk (D m) -> poly_degree o m + 1 <= BND ->
      exists r, pint_fast_modular_coset_interpolate o act ntt intt dbg cw offset m = Some r /\ okl r /\
                forall ip, interpolates fk (coset_points wr (emb offset) l) (D cw) ip -> congruent ip (D m) (D r).

    Theorem fast_coset_extrapolate_spec_b dbg (Hfmci : fmci_exact_b dbg) l offset cw pts : (l <= lmax)%nat ->
      BFieldProofs.canon offset -> emb offset <> k0 fk -> okl cw -> length cw = (2 ^ l)%nat -> okl pts -> fits pts ->
      exists vs, pint_fast_coset_extrapolate o act ntt intt dbg offset cw pts = Some vs /\ okl vs /\
                 extrapolation_of offset l cw pts vs.
    Proof.
      intros Hl Co Hnz Hcw Lcw Hp Hfit. unfold pint_fast_coset_extrapolate.
      destruct (tree_new_from_domain_spec Hmul pts Hp Hfit) as [t [Et Tt]]. rewrite Et.
      destruct (tree_ok_zerofier t pts Tt) as [Oz Pz].
      destruct (Hfmci l offset cw _ Hl Co Hnz Hcw Lcw Oz (zerofier_not_pzero _ _ Pz) (zerofier_fits o fk ok den H BND _ pts Oz Pz Hfit)) as [mi [Em [Om Cm]]]. rewrite Em.
      destruct (dac_batch_evaluate_spec_b o fk ok den H ntt intt BND Hred t pts Tt Hfit mi Om) as [vs [Ev [Ov Dv]]]. exists vs. split; [exact Ev|]. split; [exact Ov|].
      intros ip Hip. rewrite Dv. symmetry. apply (map_peval_congruent _ (D (pint_tree_zerofier o t)) _ _ (Cm ip Hip)).
      intros x Hx. rewrite Pz. apply peval_zspec_root. exact Hx.
    Qed.
    (* coset_extrapolate: both arms of the dispatcher at FAST_COSET_EXTRAPOLATE_THRESHOLD *)
    Theorem coset_extrapolate_spec_b dbg (Hfmci : fmci_exact_b dbg) l offset cw pts : (l <= lmax)%nat ->
      BFieldProofs.canon offset -> emb offset <> k0 fk -> okl cw -> length cw = (2 ^ l)%nat -> okl pts -> fits pts ->
      exists vs, pint_coset_extrapolate o act ntt intt dbg offset cw pts = Some vs /\ okl vs /\ extrapolation_of offset l cw pts vs.
    Proof.
      intros Hl Co Hnz Hcw Lcw Hp Hfit. unfold pint_coset_extrapolate. destruct (zlen pts <? FAST_COSET_EXTRAPOLATE_THRESHOLD).
      - apply fast_coset_extrapolate_spec_b; assumption.
      - apply naive_coset_extrapolate_spec_b; assumption.
    Qed.

    (* ---------------------------------------------------------------- the batch variants *)
    (* per-codeword results, concatenated in the order of the codewords *)

    Theorem batch_fast_coset_extrapolate_spec_b dbg (Hfmci : fmci_exact_b dbg) l offset cws pts : (l <= lmax)%nat ->
      BFieldProofs.canon offset -> emb offset <> k0 fk -> okl cws -> okl pts -> fits pts ->
      (exists pre, pint_fmci_preprocess o ntt intt (2 ^ Z.of_nat l) offset
                     (match pint_tree_new_from_domain o ntt intt pts with Some t => pint_tree_zerofier o t | None => [] end) = Some pre) ->
      exists vs, pint_batch_fast_coset_extrapolate o act ntt intt dbg offset (2 ^ Z.of_nat l) cws pts = Some vs /\ okl vs /\
                 batch_extrapolation_of offset l (2 ^ Z.of_nat l) cws pts vs.
    Proof.
      intros Hl Co Hnz Hc Hp Hfit [pre Epre]. unfold pint_batch_fast_coset_extrapolate.
      destruct (tree_new_from_domain_spec Hmul pts Hp Hfit) as [t [Et Tt]]. rewrite Et in Epre |- *. rewrite Epre.
      destruct (tree_ok_zerofier t pts Tt) as [Oz Pz].
      assert (Hn : 0 < 2 ^ Z.of_nat l) by (apply Z.pow_pos_nonneg; lia).
      destruct (codeword_chunks_spec (2 ^ Z.of_nat l) cws Hn Hc) as [cs [Ecs [Fcs _]]]. rewrite Ecs.
      destruct (flat_map_opt_spec
                  (fun cw => match pint_fmci_with_zerofiers_and_ntt_friendly_multiple o act ntt intt dbg cw offset (pint_tree_zerofier o t) pre with
                             | Some mi => pint_dac_batch_evaluate o ntt intt mi t | None => None end)
                  (fun cw v => extrapolation_of offset l cw pts v) cs) as [vss [E [Ov F2]]].
      - apply Forall_forall. intros cw Hin. rewrite Forall_forall in Fcs. destruct (Fcs cw Hin) as [Ocw Lcw].
        rewrite pint_pow2_nat in Lcw.
        destruct (Hfmci l offset cw _ Hl Co Hnz Ocw Lcw Oz (zerofier_not_pzero _ _ Pz) (zerofier_fits o fk ok den H BND _ pts Oz Pz Hfit)) as [mi [Em [Om Cm]]].
        unfold pint_fast_modular_coset_interpolate in Em.
        replace (zlen cw) with (2 ^ Z.of_nat l) in Em by (unfold zlen; rewrite Lcw; symmetry; apply pow2_Z_nat).
        rewrite Epre in Em. rewrite Em.
        destruct (dac_batch_evaluate_spec_b o fk ok den H ntt intt BND Hred t pts Tt Hfit mi Om) as [vs [Ev [Ovs Dv]]]. exists vs. split; [exact Ev|]. split; [exact Ovs|].
        intros ip Hip. rewrite Dv. symmetry. apply (map_peval_congruent _ (D (pint_tree_zerofier o t)) _ _ (Cm ip Hip)).
        intros x Hx. rewrite Pz. apply peval_zspec_root. exact Hx.
      - exists (concat vss). split; [exact E|]. split; [exact Ov|]. exists cs, vss. split; [exact Ecs|]. split; [reflexivity|exact F2].
    Qed.

    (* C09: the NTT-friendly reduction by the multiple prepared by shift_factor_ntt_with_tail_length keeps the residue *)
    Theorem batch_naive_coset_extrapolate_spec_b (Hrbnf : rbnf_exact_b) l offset cws pts : (l <= lmax)%nat ->
      BFieldProofs.canon offset -> emb offset <> k0 fk -> okl cws -> okl pts -> fits pts ->
      exists vs, pint_batch_naive_coset_extrapolate o ntt intt offset (2 ^ Z.of_nat l) cws pts = Some vs /\ okl vs /\
                 batch_extrapolation_of offset l (2 ^ Z.of_nat l) cws pts vs.
    Proof.
      intros Hl Co Hnz Hc Hp Hfit. unfold pint_batch_naive_coset_extrapolate.
      destruct (tree_new_from_domain_spec Hmul pts Hp Hfit) as [t [Et Tt]]. rewrite Et.
      destruct (tree_ok_zerofier t pts Tt) as [Oz Pz].
      destruct (Hrbnf _ Oz (zerofier_not_pzero _ _ Pz) (zerofier_fits o fk ok den H BND _ pts Oz Pz Hfit)) as [sc [tl [Esf Hr]]]. rewrite Esf.
      assert (Hn : 0 < 2 ^ Z.of_nat l) by (apply Z.pow_pos_nonneg; lia).
      destruct (codeword_chunks_spec (2 ^ Z.of_nat l) cws Hn Hc) as [cs [Ecs [Fcs _]]]. rewrite Ecs.
      destruct (flat_map_opt_spec
                  (fun cw => match pint_coset_interpolant o intt offset cw with
                             | Some ip => match pint_reduce_by_ntt_friendly_modulus o ntt intt ip sc tl with
                                          | Some r => pint_dac_batch_evaluate o ntt intt r t | None => None end
                             | None => None end)
                  (fun cw v => extrapolation_of offset l cw pts v) cs) as [vss [E [Ov F2]]].
      - apply Forall_forall. intros cw Hin. rewrite Forall_forall in Fcs. destruct (Fcs cw Hin) as [Ocw Lcw].
        rewrite pint_pow2_nat in Lcw.
        destruct (coset_interpolant_spec l offset cw Hl Co Hnz Ocw Lcw) as [ip [Ei [Oi Ii]]]. rewrite Ei.
        destruct (Hr ip Oi) as [r [Er [Or Cr]]]. rewrite Er.
        destruct (dac_batch_evaluate_spec_b o fk ok den H ntt intt BND Hred t pts Tt Hfit r Or) as [vs [Ev [Ovs Dv]]]. exists vs. split; [exact Ev|]. split; [exact Ovs|].
        apply (extrapolation_of_intro offset l cw pts vs (D ip) Hl Hnz Ii). rewrite Dv. symmetry.
        apply (map_peval_congruent _ (D (pint_tree_zerofier o t)) _ _ Cr). intros x Hx. rewrite Pz. apply peval_zspec_root. exact Hx.
      - exists (concat vss). split; [exact E|]. split; [exact Ov|]. exists cs, vss. split; [exact Ecs|]. split; [reflexivity|exact F2].
    Qed.
    (* batch_coset_extrapolate and par_batch_coset_extrapolate (the same function of the inputs: into_par_iter().flat_map) *)
    Theorem batch_coset_extrapolate_spec_b dbg (Hfmci : fmci_exact_b dbg) (Hrbnf : rbnf_exact_b) l offset cws pts : (l <= lmax)%nat ->
      BFieldProofs.canon offset -> emb offset <> k0 fk -> okl cws -> okl pts -> fits pts ->
      (exists pre, pint_fmci_preprocess o ntt intt (2 ^ Z.of_nat l) offset
                     (match pint_tree_new_from_domain o ntt intt pts with Some t => pint_tree_zerofier o t | None => [] end) = Some pre) ->
      exists vs, pint_batch_coset_extrapolate o act ntt intt dbg offset (2 ^ Z.of_nat l) cws pts = Some vs /\
                 pint_par_batch_coset_extrapolate o act ntt intt dbg offset (2 ^ Z.of_nat l) cws pts = Some vs /\ okl vs /\
                 batch_extrapolation_of offset l (2 ^ Z.of_nat l) cws pts vs.
    Proof.
      intros Hl Co Hnz Hc Hp Hfit Hpre. unfold pint_par_batch_coset_extrapolate, pint_batch_coset_extrapolate.
      destruct (zlen pts <? FAST_COSET_EXTRAPOLATE_THRESHOLD).
      - destruct (batch_fast_coset_extrapolate_spec_b dbg Hfmci l offset cws pts Hl Co Hnz Hc Hp Hfit Hpre) as [vs [E [Ov B]]].
        exists vs. repeat split; assumption.
      - destruct (batch_naive_coset_extrapolate_spec_b Hrbnf l offset cws pts Hl Co Hnz Hc Hp Hfit) as [vs [E [Ov B]]].
        exists vs. repeat split; assumption.
    Qed.

    (* ---------------------------------------------------------------- fast_modular_coset_interpolate, the two regimes without
       recursion (codeword length <= FAST_MODULAR_COSET_INTERPOLATE_CUTOFF_THRESHOLD_PREFER_INTT = 2^17) *)
    (* `*acc *= omega` multiplies the denotations; the tabulated root of 2^l denotes wr l *)


    Theorem fmci_small_spec_b dbg (Hact : act_ok) (Hroot : root_ok) (Hrbnf : rbnf_exact_b) l offset cw m pre :
      (l <= lmax)%nat -> 2 ^ Z.of_nat l <= FAST_MODULAR_COSET_INTERPOLATE_CUTOFF_THRESHOLD_PREFER_INTT ->
      BFieldProofs.canon offset -> emb offset <> k0 fk -> okl cw -> length cw = (2 ^ l)%nat -> fits cw ->
      okl m -> ~ pzero fk (D m) -> poly_degree o m + 1 <= BND ->
      pint_fmci_preprocess o ntt intt (zlen cw) offset m = Some pre ->
      exists r, pint_fmci_with_zerofiers_and_ntt_friendly_multiple o act ntt intt dbg cw offset m pre = Some r /\
                pint_fast_modular_coset_interpolate o act ntt intt dbg cw offset m = Some r /\ okl r /\
                forall ip, interpolates fk (coset_points wr (emb offset) l) (D cw) ip -> congruent ip (D m) (D r).
    Proof.
      intros Hl Hsmall Co Hnz Hcw Lcw Hfit Om Nm Hmb Epre.
      assert (Goal' : exists r, pint_fmci_with_zerofiers_and_ntt_friendly_multiple o act ntt intt dbg cw offset m pre = Some r /\ okl r /\
                forall ip, interpolates fk (coset_points wr (emb offset) l) (D cw) ip -> congruent ip (D m) (D r)).
      2: { destruct Goal' as [r [E [Or Cr]]]. exists r. split; [exact E|]. split; [|split; assumption].
           unfold pint_fast_modular_coset_interpolate. rewrite Epre. exact E. }
      unfold pint_fmci_with_zerofiers_and_ntt_friendly_multiple, pint_fmci_with_thresholds.
      change 64%nat with (S 63). generalize 63%nat. intros fuel'. cbn [pint_fmci_go].
      assert (Dm : 0 <= poly_degree o m).
      { pose proof (pb_degree_ge o m). pose proof (proj1 (pb_degree_neg_pzero o fk ok den H m Om)). 
        destruct (Z_lt_ge_dec (poly_degree o m) 0) as [L|G]; [exfalso; apply Nm; tauto|lia]. }
      replace (poly_degree o m <? 0) with false by (symmetry; apply Z.ltb_ge; exact Dm).
      assert (Zn : zlen cw = 2 ^ Z.of_nat l) by (unfold zlen; rewrite Lcw; apply pow2_Z_nat).
      rewrite Zn. destruct (Hroot l Hl) as [om [Eom [Com Dom]]]. rewrite Eom.
      assert (Uniq : forall ip ip', interpolates fk (coset_points wr (emb offset) l) (D cw) ip ->
                                   interpolates fk (coset_points wr (emb offset) l) (D cw) ip' -> peq ip ip').
      { intros ip ip'. apply interpolant_unique. exact (coset_points_NoDup lmax wr Hroots (emb offset) l Hl Hnz). }
      destruct (2 ^ Z.of_nat l <? FAST_MODULAR_COSET_INTERPOLATE_CUTOFF_THRESHOLD_PREFER_LAGRANGE) eqn:Ereg.
      - (* Lagrange on the explicitly enumerated coset, then reduce *)
        destruct (Hlift offset Co) as [Ol Dl].
        destruct (scan_mul_spec Hact om Com (length cw) (pint_lift o offset) Ol) as [Os [Ls Ds]].
        assert (Ecos : D (pint_scan_mul act (length cw) (pint_lift o offset) om) = coset_points wr (emb offset) l).
        { rewrite Ds, Dl, Dom, Lcw. reflexivity. }
        destruct (lagrange_interpolate_spec Hmul dbg _ cw Os Hcw) as [ip [Ei [Oi [_ Ii]]]].
        + rewrite Ecos. exact (coset_points_NoDup lmax wr Hroots (emb offset) l Hl Hnz).
        + rewrite Ls. reflexivity.
        + intros X. rewrite X in Ls. cbn in Ls. rewrite Lcw in Ls. pose proof (Nat.pow_nonzero 2 l ltac:(lia)). lia.
        + apply (fits_le cw); [rewrite Ls; lia|exact Hfit].
        + rewrite Ei. destruct (Hred ip m Oi Om Nm Hmb) as [r [Er [Or Cr]]]. exists r. split; [exact Er|]. split; [exact Or|].
          intros ip' Hip'. rewrite Ecos in Ii. exact (congruent_peq _ _ _ _ (Uniq _ _ Ii Hip') Cr).
      - (* intt + scale = the coset interpolant; NTT-friendly reduction; reduce *)
        replace (2 ^ Z.of_nat l <=? FAST_MODULAR_COSET_INTERPOLATE_CUTOFF_THRESHOLD_PREFER_INTT) with true
          by (symmetry; apply Z.leb_le; exact Hsmall).
        destruct (coset_interpolant_spec l offset cw Hl Co Hnz Hcw Lcw) as [ip [Ei [Oi Ii]]].
        unfold pint_coset_interpolant in Ei. destruct (intt cw) as [c|]; [|discriminate]. destruct (inverse offset) as [oi|]; [|discriminate].
        inversion Ei as [Ei']. rewrite Ei'.
        destruct (Hrbnf m Om Nm Hmb) as [sc [tl [Esf Hr]]]. rewrite (preprocess_shift _ _ _ _ Epre) in Esf. inversion Esf; subst sc tl.
        destruct (Hr ip Oi) as [r1 [Er1 [Or1 Cr1]]]. rewrite Er1.
        destruct (Hred r1 m Or1 Om Nm Hmb) as [r [Er [Or Cr]]]. exists r. split; [exact Er|]. split; [exact Or|].
        intros ip' Hip'. exact (congruent_peq _ _ _ _ (Uniq _ _ Ii Hip') (congruent_trans _ _ _ _ Cr1 Cr)).
    Qed.
End BoundedExtrapolate.

(* ================================================================== Polynomial<BFieldElement>: nothing assumed
   C06 (ntt_b / intt_b), C07 (multiply, par_batch_multiply) and C09 (reduce, fast_reduce, shift_factor_ntt_with_tail_length +
   reduce_by_ntt_friendly_modulus, for the pint_ copies through PolyDeepenDiv) are theorems; point lists of at most 2^29 points. *)
From TF Require Import BFieldProofs BFieldOk NttRoots NttProofs PolyValueSem.
Lemma mul_exact_mono {F K} (o : fops F) (fk : fieldK K) ok den ntt intt B B' : B' <= B ->
  mul_exact o fk ok den ntt intt B -> mul_exact o fk ok den ntt intt B'.
Proof. intros HB Hm a b Ha Hb Hs. apply Hm; [exact Ha|exact Hb|lia]. Qed.
Lemma bfe_mul_exact_MB : mul_exact bfe_ops fp_field canon bden ntt_b intt_b BFE_MB.
Proof. apply (mul_exact_mono _ _ _ _ _ _ (2 ^ 31)); [vm_compute; discriminate|exact bfe_mul_exact]. Qed.
Lemma bfe_fits (l : list Z) : Z.of_nat (length l) <= 2 ^ 29 -> fits BFE_MB l.
Proof. unfold fits, BFE_MB. intros Hl. exact (proj1 (Z.add_le_mono_r _ _ 1) Hl). Qed.

Local Notation okb := (Forall canon).
Local Notation Db := (map bden).
Theorem bfe_dac_batch_evaluate p dom : okb p -> okb dom -> Z.of_nat (length dom) <= 2 ^ 29 ->
  exists t vs, pint_tree_new_from_domain bfe_ops ntt_b intt_b dom = Some t /\ pint_dac_batch_evaluate bfe_ops ntt_b intt_b p t = Some vs /\
               okb vs /\ Db vs = map (peval fp_field (Db p)) (Db dom).
Proof.
  intros Hp Hd Hs. destruct (tree_new_from_domain_spec bfe_ops fp_field canon bden bfe_field_ok ntt_b intt_b BFE_MB bfe_mul_exact_MB dom Hd (bfe_fits dom Hs))
    as [t [Et Tt]].
  destruct (dac_batch_evaluate_spec_b bfe_ops fp_field canon bden bfe_field_ok ntt_b intt_b BFE_MB bfe_red_exact_b t dom Tt (bfe_fits dom Hs) p Hp)
    as [vs Hv]. exists t, vs. split; [exact Et|exact Hv].
Qed.
Theorem bfe_batch_evaluate p dom : okb p -> okb dom -> Z.of_nat (length dom) <= 2 ^ 29 ->
  exists vs, pint_batch_evaluate bfe_ops ntt_b intt_b p dom = Some vs /\ okb vs /\ Db vs = map (peval fp_field (Db p)) (Db dom).
Proof.
  intros Hp Hd Hs.
  exact (batch_evaluate_spec_b bfe_ops fp_field canon bden bfe_field_ok ntt_b intt_b BFE_MB bfe_mul_exact_MB bfe_red_exact_b bfe_fred_exact_b
           p dom Hp Hd (bfe_fits dom Hs)).
Qed.
Theorem bfe_par_batch_evaluate nt p dom : 1 <= nt -> okb p -> okb dom -> Z.of_nat (length dom) <= 2 ^ 29 ->
  exists vs, pint_par_batch_evaluate bfe_ops ntt_b intt_b nt p dom = Some vs /\ okb vs /\ Db vs = map (peval fp_field (Db p)) (Db dom).
Proof.
  intros Hnt Hp Hd Hs.
  exact (par_batch_evaluate_spec_b bfe_ops fp_field canon bden bfe_field_ok ntt_b intt_b BFE_MB bfe_mul_exact_MB bfe_red_exact_b bfe_fred_exact_b
           nt p dom Hnt Hp Hd (bfe_fits dom Hs)).
Qed.
Theorem bfe_interpolate dbg domain values : okb domain -> okb values -> NoDup (Db domain) -> length values = length domain ->
  domain <> [] -> Z.of_nat (length domain) <= 2 ^ 29 ->
  exists r, pint_interpolate bfe_ops ntt_b intt_b dbg domain values = Some r /\ okb r /\
            interpolates fp_field (Db domain) (Db values) (Db r).
Proof.
  intros Hd Hv Hnd Lv Hne Hs.
  exact (interpolate_spec_b bfe_ops fp_field canon bden bfe_field_ok ntt_b intt_b BFE_MB bfe_mul_exact_MB bfe_red_exact_b bfe_fred_exact_b
           dbg domain values Hd Hv Hnd Lv Hne (bfe_fits domain Hs)).
Qed.
Theorem bfe_fast_interpolate dbg domain values : okb domain -> okb values -> NoDup (Db domain) -> length values = length domain ->
  domain <> [] -> Z.of_nat (length domain) <= 2 ^ 29 ->
  exists r, pint_fast_interpolate bfe_ops ntt_b intt_b dbg domain values = Some r /\ okb r /\
            interpolates fp_field (Db domain) (Db values) (Db r).
Proof.
  intros Hd Hv Hnd Lv Hne Hs.
  exact (fast_interpolate_spec_b bfe_ops fp_field canon bden bfe_field_ok ntt_b intt_b BFE_MB bfe_mul_exact_MB bfe_red_exact_b bfe_fred_exact_b
           dbg domain values Hd Hv Hnd Lv Hne (bfe_fits domain Hs)).
Qed.
Theorem bfe_par_interpolate dbg nt domain values : 1 <= nt -> okb domain -> okb values -> NoDup (Db domain) ->
  length values = length domain -> domain <> [] -> Z.of_nat (length domain) <= 2 ^ 29 ->
  exists r, pint_par_interpolate bfe_ops ntt_b intt_b dbg nt domain values = Some r /\ okb r /\
            interpolates fp_field (Db domain) (Db values) (Db r).
Proof.
  intros Hnt Hd Hv Hnd Lv Hne Hs.
  exact (par_interpolate_spec_b bfe_ops fp_field canon bden bfe_field_ok ntt_b intt_b BFE_MB bfe_mul_exact_MB bfe_red_exact_b bfe_fred_exact_b
           dbg nt domain values Hnt Hd Hv Hnd Lv Hne (bfe_fits domain Hs)).
Qed.
Theorem bfe_par_fast_interpolate dbg nt domain values : 1 <= nt -> okb domain -> okb values -> NoDup (Db domain) ->
  length values = length domain -> domain <> [] -> Z.of_nat (length domain) <= 2 ^ 29 ->
  exists r, pint_par_fast_interpolate bfe_ops ntt_b intt_b dbg nt domain values = Some r /\ okb r /\
            interpolates fp_field (Db domain) (Db values) (Db r).
Proof.
  intros Hnt Hd Hv Hnd Lv Hne Hs.
  exact (par_fast_interpolate_spec_b bfe_ops fp_field canon bden bfe_field_ok ntt_b intt_b BFE_MB bfe_mul_exact_MB bfe_red_exact_b bfe_fred_exact_b
           dbg nt domain values Hnt Hd Hv Hnd Lv Hne (bfe_fits domain Hs)).
Qed.
Theorem bfe_batch_fast_interpolate dbg domain matrix root order : okb domain -> domain <> [] -> NoDup (Db domain) ->
  Z.of_nat (length domain) <= 2 ^ 29 -> Forall (fun v => okb v /\ length v = length domain) matrix ->
  (dbg = true -> mod_pow root (order mod 2 ^ 32) = bfe_one) ->
  exists rs, pint_batch_fast_interpolate bfe_ops ntt_b intt_b dbg domain matrix root order = Some rs /\
             Forall2 (fun v r => okb r /\ interpolates fp_field (Db domain) (Db v) (Db r)) matrix rs.
Proof.
  intros Hd Hne Hnd Hs Hm Hr.
  exact (batch_fast_interpolate_spec_b bfe_ops fp_field canon bden bfe_field_ok ntt_b intt_b BFE_MB bfe_mul_exact_MB bfe_red_exact_b bfe_fred_exact_b
           dbg domain matrix root order Hd Hne Hnd (bfe_fits domain Hs) Hm Hr).
Qed.
Theorem bfe_batch_fast_interpolate_with_memoization dbg domain matrix memo : okb domain -> domain <> [] -> NoDup (Db domain) ->
  Z.of_nat (length domain) <= 2 ^ 29 -> Forall (fun v => okb v /\ length v = length domain) matrix ->
  memo_ok canon memo -> memo_inv bfe_ops bden domain memo ->
  exists rs memo', pint_batch_fast_interpolate_with_memoization bfe_ops ntt_b intt_b dbg domain matrix memo = Some (rs, memo') /\
    Forall2 (fun v r => okb r /\ interpolates fp_field (Db domain) (Db v) (Db r)) matrix rs /\ memo_ok canon memo'.
Proof.
  intros Hd Hne Hnd Hs Hm Hmo Hinv.
  exact (batch_fast_interpolate_with_memoization_spec_b bfe_ops fp_field canon bden bfe_field_ok ntt_b intt_b BFE_MB bfe_mul_exact_MB
           bfe_red_exact_b bfe_fred_exact_b dbg domain matrix memo Hd Hne Hnd (bfe_fits domain Hs) Hm Hmo Hinv).
Qed.
Theorem bfe_naive_coset_extrapolate l offset cw pts : (l <= 31)%nat -> canon offset -> bden offset <> k0 fp_field -> okb cw ->
  length cw = (2 ^ l)%nat -> okb pts -> Z.of_nat (length pts) <= 2 ^ 29 ->
  exists vs, pint_naive_coset_extrapolate bfe_ops ntt_b intt_b offset cw pts = Some vs /\ okb vs /\
             extrapolation_of fp_field bden wr_b bden offset l cw pts vs.
Proof.
  intros Hl Co Hnz Hcw Lcw Hp Hs.
  exact (naive_coset_extrapolate_spec_b bfe_ops fp_field canon bden bfe_field_ok ntt_b intt_b BFE_MB 31 wr_b bfe_mul_exact_MB bfe_red_exact_b
           bfe_fred_exact_b bfe_intt_ok bfe_roots_ok bden bfe_lift_ok bfe_binv_ok l offset cw pts Hl Co Hnz Hcw Lcw Hp (bfe_fits pts Hs)).
Qed.
Theorem bfe_batch_naive_coset_extrapolate l offset cws pts : (l <= 31)%nat -> canon offset -> bden offset <> k0 fp_field -> okb cws ->
  okb pts -> Z.of_nat (length pts) <= 2 ^ 29 ->
  exists vs, pint_batch_naive_coset_extrapolate bfe_ops ntt_b intt_b offset (2 ^ Z.of_nat l) cws pts = Some vs /\ okb vs /\
             batch_extrapolation_of fp_field bden wr_b bden offset l (2 ^ Z.of_nat l) cws pts vs.
Proof.
  intros Hl Co Hnz Hc Hp Hs.
  exact (batch_naive_coset_extrapolate_spec_b bfe_ops fp_field canon bden bfe_field_ok ntt_b intt_b BFE_MB 31 wr_b bfe_mul_exact_MB bfe_red_exact_b
           bfe_intt_ok bfe_roots_ok bden bfe_lift_ok bfe_binv_ok bfe_rbnf_exact_b l offset cws pts Hl Co Hnz Hc Hp (bfe_fits pts Hs)).
Qed.
