(* proofs/PolyDeepenNewton.v - formal_power_series_inverse_newton, the rounds in the NTT domain (C09_fpsi_newton_full).

   After `switch_point` rounds on coefficient lists the code keeps the Newton iterate f as its transform on a domain of
   length cur = 2^C and performs  f <- 2 f - f^2 s  pointwise, reading the transform of s (computed once on the full domain
   of length 2^L) with stride 2^(L-C):  `self_ntt.iter().step_by(full_domain_length / current_domain_length)`.  This is
   sound because the tabulated roots are compatible:  wr (l+1)^2 = wr l  (hypothesis `wr_sq`; for the base field a
   theorem by computation over the regenerated table, bfe_wr_sq), so that the 2^C-th root is the 2^(L-C)-th power of the
   2^L-th root and entry i * 2^(L-C) of the big transform is the value of s at (wr C)^i.  The tracked degree bound
   f_degree <- 2 f_degree + deg s decides when the domain has to grow (intt, zero padding, ntt on the next domain).

   Section NewtonNtt proves the loop invariant and the whole function generically (C06 hypotheses as in PolyDivProofs.v);
   the end of the file instantiates it for Polynomial<BFieldElement>. *)
From Coq Require Import ZArith Lia List Bool Ring Field.
From TF Require Import Word BFieldGen BField XField FieldOps FieldTheory PolyGen PolyCore PolySpec Ntt PolyDiv
  PolyCoreProofs Dft NttDft PolyDivProofs PolyInterpAlg PolyInterpBase.
Import ListNotations.
Open Scope Z_scope.
Ltac Zify.zify_post_hook ::= Z.div_mod_to_equations.

(* ------------------------------------------------------------------ Iterator::step_by *)
Lemma step_by_go_spec {A} (d : A) step : (1 <= step)%nat -> forall cnt fuel (l : list A),
  length l = (cnt * step)%nat -> (cnt <= fuel)%nat ->
  pdiv_step_by_go fuel step l = map (fun i => nth (i * step) l d) (seq 0 cnt).
Proof.
  intros Hs. induction cnt as [|c IH]; intros fuel l Ll Hf.
  - destruct l; [|cbn in Ll; lia]. destruct fuel; reflexivity.
  - destruct fuel as [|f]; [lia|]. destruct l as [|x l']; [cbn in Ll; lia|]. cbn [pdiv_step_by_go seq map].
    f_equal. rewrite (IH f (skipn step (x :: l'))); [|rewrite skipn_length, Ll; lia|lia].
    rewrite <- seq_shift, map_map. apply map_ext. intros i.
    rewrite <- (firstn_skipn step (x :: l')) at 2. rewrite app_nth2; rewrite firstn_length, Ll; [|lia].
    f_equal. lia.
Qed.
Lemma step_by_spec {A} (d : A) step cnt (l : list A) : 1 <= step -> length l = (cnt * Z.to_nat step)%nat ->
  pdiv_step_by step l = map (fun i => nth (i * Z.to_nat step) l d) (seq 0 cnt).
Proof.
  intros Hs Ll. unfold pdiv_step_by. apply step_by_go_spec; [lia|exact Ll|]. rewrite Ll. nia.
Qed.

Lemma next_pow2_le_pow m L : m <= 2 ^ Z.of_nat L -> next_pow2 m <= 2 ^ Z.of_nat L.
Proof.
  intros Hm. destruct (Z_le_gt_dec m 0) as [L0|G0].
  - unfold next_pow2. replace (m <=? 1) with true by (symmetry; apply Z.leb_le; lia). pose proof (Z.pow_pos_nonneg 2 (Z.of_nat L) ltac:(lia) ltac:(lia)). lia.
  - destruct (next_pow2_spec m ltac:(lia)) as [l [N1 [N2 N3]]]. rewrite N1. apply Z.pow_le_mono_r; [lia|]. specialize (N3 L Hm). lia.
Qed.
Lemma PolyDeepenDiv_next_pow2_lt_double m : 2 <= m -> next_pow2 m <= 2 * (m - 1).
Proof.
  intros Hm. unfold next_pow2. replace (m <=? 1) with false by (symmetry; apply Z.leb_gt; lia).
  pose proof (Z.log2_spec (m - 1) ltac:(lia)) as [S1 _]. pose proof (Z.log2_nonneg (m - 1)).
  rewrite Z.pow_add_r by lia. lia.
Qed.
Lemma next_pow2_ge m : m <= next_pow2 m.
Proof.
  destruct (Z_le_gt_dec m 0) as [L0|G0].
  - unfold next_pow2. replace (m <=? 1) with true by (symmetry; apply Z.leb_le; lia). lia.
  - destruct (next_pow2_spec m ltac:(lia)) as [l [N1 [N2 N3]]]. lia.
Qed.
Lemma pow2_Zn' l : Z.of_nat (2 ^ l) = 2 ^ Z.of_nat l.
Proof. rewrite Nat2Z.inj_pow. reflexivity. Qed.
Lemma pow2_to_nat l : Z.to_nat (2 ^ Z.of_nat l) = (2 ^ l)%nat.
Proof. rewrite <- pow2_Zn'. apply Nat2Z.id. Qed.

Lemma newton_len_closed sd j : newton_len sd j = (2 ^ Z.of_nat j - 1) * sd + 1.
Proof. induction j as [|j IH]; [reflexivity|]. cbn [newton_len]. rewrite IH, Nat2Z.inj_succ, Z.pow_succ_r by lia. ring. Qed.

Section NewtonNtt.
  Context {F K : Type} (o : fops F) (fk : fieldK K) (ok : F -> Prop) (den : F -> K).
  Hypothesis H : field_ok o fk ok den.
  Variable ntt : list F -> option (list F).
  Variable intt : list F -> option (list F).
  Variable lmax : nat.
  Variable wr : nat -> K.
  Hypothesis ntt_is_dft : forall l x, (l <= lmax)%nat -> length x = (2 ^ l)%nat -> Forall ok x ->
    exists y, ntt x = Some y /\ Forall ok y /\ length y = length x /\ map den y = dft fk (wr l) (map den x).
  Hypothesis intt_is_idft : forall l x, (l <= lmax)%nat -> length x = (2 ^ l)%nat -> Forall ok x ->
    exists y, intt x = Some y /\ Forall ok y /\ length y = length x /\ map den y = idft fk (wr l) (map den x).
  Hypothesis wr_half_root : forall l, (l <= lmax)%nat -> half_root fk (wr l) l.
  Hypothesis wr_nonzero : forall l, (l <= lmax)%nat -> wr l <> k0 fk.
  Hypothesis two_nz : two_neq_0 fk.
  (* the root table is compatible: the root of order 2^l is the square of the root of order 2^(l+1) *)
  Hypothesis wr_sq : forall l, (S l <= lmax)%nat -> kmul fk (wr (S l)) (wr (S l)) = wr l.
  Declare Scope KN_scope.
  Delimit Scope KN_scope with K.
  Local Notation "0" := (k0 fk) : KN_scope.
  Local Notation "1" := (k1 fk) : KN_scope.
  Local Notation "x + y" := (kadd fk x y) : KN_scope.
  Local Notation "x * y" := (kmul fk x y) : KN_scope.
  Local Notation "x - y" := (ksub fk x y) : KN_scope.
  Local Notation D := (map den).
  Local Notation okl := (Forall ok).
  Local Notation peq := (peq fk).
  Local Notation coeff := (coeff fk).
  Local Notation pmul := (pmul fk).
  Local Notation psub := (psub fk).
  Local Notation pscale := (pscale fk).
  Local Notation pone := (pone fk).
  Local Notation peval := (peval fk).
  Local Notation pmodx := (pmodx fk).
  Local Notation deg_lt := (deg_lt fk).
  Add Field kfield_PolyDeepenNewton : (kFT fk).

  Lemma wr_pow C d : (C + d <= lmax)%nat -> kpow fk (wr (C + d)) (2 ^ d) = wr C.
  Proof.
    induction d as [|d IH]; intros Hl.
    - rewrite Nat.add_0_r. cbn [Nat.pow kpow]. ring.
    - replace (2 ^ S d)%nat with (2 * 2 ^ d)%nat by (cbn [Nat.pow]; lia). rewrite kpow_mul.
      replace (kpow fk (wr (C + S d)) 2) with (wr (C + d)); [apply IH; lia|].
      replace (C + S d)%nat with (S (C + d)) by lia. rewrite <- (wr_sq (C + d)) by lia. cbn [kpow]. ring.
  Qed.

  (* the pointwise Newton update *)
  Definition kupd (two a b : K) : K := (two * a - a * a * b)%K.
  Lemma upd_spec two : ok two -> forall x s, okl x -> okl s ->
    okl (map2 (fun ff dd => fsub o (fmul o two ff) (fmul o (fmul o ff ff) dd)) x s) /\
    D (map2 (fun ff dd => fsub o (fmul o two ff) (fmul o (fmul o ff ff) dd)) x s) = map2 (kupd (den two)) (D x) (D s).
  Proof.
    intros Ht. induction x as [|a x IH]; intros [|b s] Hx Hs; cbn [map2 map]; try (split; [constructor|reflexivity]).
    inversion Hx as [|? ? Ha Hx']; inversion Hs as [|? ? Hb Hs']; subst. destruct (IH s Hx' Hs') as [I1 I2].
    assert (O1 : ok (fmul o two a)) by (apply (pb_ok_mul o fk ok den H); assumption).
    assert (O2 : ok (fmul o a a)) by (apply (pb_ok_mul o fk ok den H); assumption).
    assert (O3 : ok (fmul o (fmul o a a) b)) by (apply (pb_ok_mul o fk ok den H); assumption).
    split; [constructor; [apply (pb_ok_sub o fk ok den H); assumption|exact I1]|].
    rewrite I2. f_equal. unfold kupd.
    rewrite (pb_den_sub o fk ok den H), !(pb_den_mul o fk ok den H) by assumption. reflexivity.
  Qed.
  Lemma map2_length_same {A B' C'} (g : A -> B' -> C') a b : length a = length b -> length (map2 g a b) = length a.
  Proof. revert b. induction a as [|x a IH]; intros [|y b] E; try discriminate; [reflexivity|]. cbn [map2 length]. rewrite IH; [reflexivity|cbn in E; lia]. Qed.
  Lemma map2_nth {A B' C'} (g : A -> B' -> C') da db dc a : forall b i, (i < length a)%nat -> (i < length b)%nat ->
    nth i (map2 g a b) dc = g (nth i a da) (nth i b db).
  Proof. induction a as [|x a IH]; intros [|y b] [|i] H1 H2; cbn [length] in *; try lia; [reflexivity|]. cbn [map2 nth]. apply IH; lia. Qed.

  (* one pointwise round on a domain of length 2^C against the transform of s on the domain of length 2^L *)
  Lemma pointwise_round two C L (Fp Sl : list K) fdeg sd :
    (C <= L)%nat -> (L <= lmax)%nat -> length Fp = (2 ^ C)%nat -> length Sl = (2 ^ L)%nat ->
    two = (1 + 1)%K -> deg_lt Fp (S fdeg) -> deg_lt Sl (S sd) -> (2 * fdeg + sd < 2 ^ C)%nat ->
    let G := psub (pscale two Fp) (pmul (pmul Fp Fp) Sl) in
    map2 (kupd two) (dft fk (wr C) Fp) (pdiv_step_by (2 ^ Z.of_nat L / 2 ^ Z.of_nat C) (dft fk (wr L) Sl)) =
      dft fk (wr C) (ptrunc fk (2 ^ C) G) /\ peq (ptrunc fk (2 ^ C) G) G /\ deg_lt G (S (2 * fdeg + sd)).
  Proof.
    intros HCL HL LF LS Etwo DF DS Hfit G.
    assert (Estep : 2 ^ Z.of_nat L / 2 ^ Z.of_nat C = 2 ^ Z.of_nat (L - C)).
    { replace (Z.of_nat L) with (Z.of_nat (L - C) + Z.of_nat C) at 1 by lia. rewrite Z.pow_add_r by lia.
      apply Z.div_mul. apply Z.pow_nonzero; lia. }
    assert (Hstep : 1 <= 2 ^ Z.of_nat (L - C)) by (pose proof (Z.pow_pos_nonneg 2 (Z.of_nat (L - C)) ltac:(lia) ltac:(lia)); lia).
    assert (Lsb : length (dft fk (wr L) Sl) = (2 ^ C * Z.to_nat (2 ^ Z.of_nat (L - C)))%nat).
    { rewrite dft_length, LS, pow2_to_nat, <- Nat.pow_add_r. f_equal. lia. }
    rewrite Estep, (step_by_spec 0%K _ (2 ^ C) _ Hstep Lsb). rewrite pow2_to_nat.
    assert (DG0 : deg_lt G (S (2 * fdeg + sd))).
    { unfold G. apply deg_lt_psub.
      - apply deg_lt_pscale. apply (deg_lt_le fk Fp (S fdeg)); [lia|exact DF].
      - apply (deg_lt_le fk _ ((S fdeg + fdeg) + sd)); [lia|]. apply deg_lt_pmul; [|exact DS]. apply deg_lt_pmul; exact DF. }
    assert (DG : (pdeg fk G < Z.of_nat (2 ^ C))%Z).
    { apply deg_lt_pdeg. apply (deg_lt_le fk G (S (2 * fdeg + sd))); [lia|exact DG0]. }
    split; [|split; [apply ptrunc_peq; exact DG|exact DG0]].
    apply (list_eq_nth fk).
    - rewrite map2_length_same; rewrite !dft_length, ?map_length, ?seq_length, ?ptrunc_length; lia.
    - rewrite map2_length_same by (rewrite !dft_length, ?map_length, ?seq_length; lia). rewrite dft_length, LF. intros i Hi.
      rewrite (map2_nth (kupd two) 0%K 0%K 0%K) by (rewrite ?dft_length, ?map_length, ?seq_length; lia).
      rewrite !dft_nth by (rewrite ?ptrunc_length; lia).
      rewrite (nth_indep _ 0%K (nth (0 * 2 ^ (L - C)) (dft fk (wr L) Sl) 0%K)) by (rewrite map_length, seq_length; exact Hi).
      rewrite (map_nth (fun i => nth (i * 2 ^ (L - C)) (dft fk (wr L) Sl) 0%K)), seq_nth by exact Hi. cbn [Nat.add].
      assert (Hidx : (i * 2 ^ (L - C) < 2 ^ L)%nat).
      { replace (2 ^ L)%nat with (2 ^ C * 2 ^ (L - C))%nat by (rewrite <- Nat.pow_add_r; f_equal; lia).
        apply Nat.mul_lt_mono_pos_r; [apply Nat.neq_0_lt_0, Nat.pow_nonzero; lia|exact Hi]. }
      rewrite dft_nth by (rewrite LS; exact Hidx). rewrite !dft_at_peval.
      replace (i * 2 ^ (L - C))%nat with (2 ^ (L - C) * i)%nat by lia. rewrite kpow_mul.
      replace L with (C + (L - C))%nat at 1 by lia. rewrite wr_pow by lia.
      rewrite (peval_peq fk _ _ _ (ptrunc_peq fk _ _ DG)). unfold G, kupd.
      rewrite peval_psub, peval_pscale, !peval_pmul. reflexivity.
  Qed.

  Lemma map_step_by_go {A B'} (g : A -> B') fuel step : forall l, map g (pdiv_step_by_go fuel step l) = pdiv_step_by_go fuel step (map g l).
  Proof.
    induction fuel as [|f IH]; intros l; [reflexivity|]. destruct l as [|x l]; [reflexivity|]. cbn [pdiv_step_by_go map].
    f_equal. rewrite IH. f_equal. change (g x :: map g l) with (map g (x :: l)). symmetry. apply skipn_map.
  Qed.
  Lemma map_step_by {A B'} (g : A -> B') step l : map g (pdiv_step_by step l) = pdiv_step_by step (map g l).
  Proof. unfold pdiv_step_by. rewrite map_step_by_go, map_length. reflexivity. Qed.
  Lemma D_length_dft (x : list F) w (v : list K) : D x = dft fk w v -> length x = length v.
  Proof. intros E. rewrite <- (map_length den x), E. apply dft_length. Qed.

  (* growing the evaluation domain: intt, zero padding, ntt on the next domain *)
  Lemma grow_spec L fdeg' cur fntt C Fp : (L <= lmax)%nat ->
    cur = 2 ^ Z.of_nat C -> (C <= L)%nat -> length Fp = (2 ^ C)%nat -> okl fntt -> D fntt = dft fk (wr C) Fp ->
    0 <= fdeg' -> 1 + fdeg' <= 2 ^ Z.of_nat L ->
    exists cur1 fntt1 C1 Fp1,
      (if cur <=? fdeg' then
         let next := next_pow2 (1 + fdeg') in
         match intt fntt with
         | None => None
         | Some c => if 2 ^ Z.of_nat L <? next then None
                     else match ntt (resize c next (fzero o)) with
                          | None => None
                          | Some v => Some (next, v)
                          end
         end
       else Some (cur, fntt)) = Some (cur1, fntt1) /\
      cur1 = 2 ^ Z.of_nat C1 /\ (C1 <= L)%nat /\ length Fp1 = (2 ^ C1)%nat /\ okl fntt1 /\
      D fntt1 = dft fk (wr C1) Fp1 /\ peq Fp1 Fp /\ fdeg' < cur1.
  Proof.
    intros HL Ecur HC LF Hf Df H0 Hb. destruct (cur <=? fdeg') eqn:E.
    - apply Z.leb_le in E. cbv zeta.
      destruct (next_pow2_spec (1 + fdeg') ltac:(lia)) as [C1 [N1 [N2 N3]]]. specialize (N3 L Hb).
      pose proof (D_length_dft fntt _ _ Df) as Lf. rewrite LF in Lf.
      destruct (intt_is_idft C fntt ltac:(lia) Lf Hf) as [c [Ec [Oc [Lc Dc]]]]. rewrite Ec.
      rewrite Df, (idft_dft fk two_nz C (wr C) Fp LF (wr_half_root C ltac:(lia)) (wr_nonzero C ltac:(lia))) in Dc.
      rewrite N1. replace (2 ^ Z.of_nat L <? 2 ^ Z.of_nat C1) with false
        by (symmetry; apply Z.ltb_ge; apply Z.pow_le_mono_r; lia).
      assert (Zc : zlen c = 2 ^ Z.of_nat C) by (unfold zlen; rewrite Lc, Lf; apply pow2_Zn').
      assert (Lcn : zlen c <= 2 ^ Z.of_nat C1) by lia.
      rewrite (resize_pad o c _ Lcn).
      set (x := c ++ repeat (fzero o) (Z.to_nat (2 ^ Z.of_nat C1) - length c)).
      assert (Hx : okl x).
      { apply Forall_app. split; [exact Oc|]. apply Forall_forall. intros y Hy. apply repeat_spec in Hy. subst y. exact (ok0 o fk ok den H). }
      assert (Lx : length x = (2 ^ C1)%nat).
      { unfold x. rewrite app_length, repeat_length, pow2_to_nat. unfold zlen in Lcn. rewrite <- pow2_Zn' in Lcn. lia. }
      destruct (ntt_is_dft C1 x ltac:(lia) Lx Hx) as [v [Ev [Ov [Lv Dv]]]]. rewrite Ev.
      exists (2 ^ Z.of_nat C1), v, C1, (D x). split; [reflexivity|]. split; [reflexivity|]. split; [exact N3|].
      split; [rewrite map_length; exact Lx|]. split; [exact Ov|]. split; [exact Dv|].
      split; [unfold x; rewrite (peq_D_app_zeros o fk ok den H), Dc; reflexivity|lia].
    - apply Z.leb_gt in E. exists cur, fntt, C, Fp. split; [reflexivity|]. split; [exact Ecur|]. split; [exact HC|].
      split; [exact LF|]. split; [exact Hf|]. split; [exact Df|]. split; [reflexivity|exact E].
  Qed.

  (* the loop of the NTT phase: invariant "fntt is the transform of a polynomial Fp of degree <= fdeg < cur with Fp s = 1 mod X^m" *)
  Lemma newton_ntt_loop_spec l two sd L self_ntt Sl :
    okl l -> ok two -> den two = (1 + 1)%K -> poly_degree o l = sd -> 1 <= sd ->
    (L <= lmax)%nat -> length Sl = (2 ^ L)%nat -> peq Sl (D l) -> okl self_ntt -> D self_ntt = dft fk (wr L) Sl ->
    forall k fdeg cur fntt C Fp m,
      cur = 2 ^ Z.of_nat C -> (C <= L)%nat -> length Fp = (2 ^ C)%nat -> okl fntt -> D fntt = dft fk (wr C) Fp ->
      0 <= fdeg < cur -> deg_lt Fp (S (Z.to_nat fdeg)) ->
      (fdeg + sd) * 2 ^ Z.of_nat k <= 2 ^ Z.of_nat L ->
      pmodx m (pmul Fp (D l)) pone ->
      exists cur' fntt' C' Fp',
        pdiv_newton_ntt_loop o ntt intt k self_ntt (2 ^ Z.of_nat L) sd two fdeg cur fntt = Some (cur', fntt') /\
        cur' = 2 ^ Z.of_nat C' /\ (C' <= L)%nat /\ length Fp' = (2 ^ C')%nat /\ okl fntt' /\ D fntt' = dft fk (wr C') Fp' /\
        pmodx (m * 2 ^ k) (pmul Fp' (D l)) pone.
  Proof.
    intros Hl Htwo Etwo Esd Hsd HL LS ES Hsn Dsn.
    assert (DSl : deg_lt Sl (S (Z.to_nat sd))).
    { apply deg_lt_pdeg. rewrite (pdeg_peq fk _ _ ES), <- (degree_pdeg o fk ok den H l Hl), Esd. lia. }
    induction k as [|k IH]; intros fdeg cur fntt C Fp m Ecur HC LF Hf Df Hfd DF Hb Pm.
    - exists cur, fntt, C, Fp. split; [reflexivity|]. split; [exact Ecur|]. split; [exact HC|]. split; [exact LF|].
      split; [exact Hf|]. split; [exact Df|]. rewrite Nat.mul_1_r. exact Pm.
    - cbn [pdiv_newton_ntt_loop]. set (fdeg' := 2 * fdeg + sd).
      assert (P2k : 1 <= 2 ^ Z.of_nat k) by (pose proof (Z.pow_pos_nonneg 2 (Z.of_nat k) ltac:(lia) ltac:(lia)); lia).
      rewrite Nat2Z.inj_succ, Z.pow_succ_r in Hb by lia.
      assert (Hb1 : 1 + fdeg' <= 2 ^ Z.of_nat L) by (unfold fdeg'; nia).
      destruct (grow_spec L fdeg' cur fntt C Fp HL Ecur HC LF Hf Df ltac:(unfold fdeg'; lia) Hb1)
        as [cur1 [fntt1 [C1 [Fp1 [Eg [Ecur1 [HC1 [LF1 [Hf1 [Df1 [EF1 Hlt1]]]]]]]]]]].
      cbv zeta in Eg. rewrite Eg. clear Eg.
      assert (Estep : 2 ^ Z.of_nat L / cur1 = 2 ^ Z.of_nat (L - C1)).
      { rewrite Ecur1. replace (Z.of_nat L) with (Z.of_nat (L - C1) + Z.of_nat C1) at 1 by lia. rewrite Z.pow_add_r by lia.
        apply Z.div_mul. apply Z.pow_nonzero; lia. }
      assert (Hstep : 1 <= 2 ^ Z.of_nat (L - C1)) by (pose proof (Z.pow_pos_nonneg 2 (Z.of_nat (L - C1)) ltac:(lia) ltac:(lia)); lia).
      replace (2 ^ Z.of_nat L / cur1 <=? 0) with false by (symmetry; apply Z.leb_gt; lia).
      set (sb := pdiv_step_by (2 ^ Z.of_nat L / cur1) self_ntt).
      assert (Hsb : okl sb).
      { unfold sb, pdiv_step_by. generalize (length self_ntt) (Z.to_nat (2 ^ Z.of_nat L / cur1)). intros fuel st. revert Hsn. generalize self_ntt.
        induction fuel as [|fu IHf]; intros y Hy; [constructor|]. destruct y as [|y0 y']; [constructor|]. cbn [pdiv_step_by_go].
        inversion Hy; subst. constructor; [assumption|]. apply IHf. apply pb_Forall_skipn. exact Hy. }
      destruct (upd_spec two Htwo fntt1 sb Hf1 Hsb) as [Ou Du].
      set (upd := map2 (fun ff dd => fsub o (fmul o two ff) (fmul o (fmul o ff ff) dd)) fntt1 sb) in *.
      assert (Hfit : (2 * Z.to_nat fdeg + Z.to_nat sd < 2 ^ C1)%nat).
      { apply Nat2Z.inj_lt. rewrite pow2_Zn', <- Ecur1. unfold fdeg' in Hlt1. lia. }
      destruct (pointwise_round (den two) C1 L Fp1 Sl (Z.to_nat fdeg) (Z.to_nat sd) HC1 HL LF1 LS Etwo
                  (deg_lt_peq fk Fp Fp1 _ ltac:(symmetry; exact EF1) DF) DSl Hfit) as [R1 [R2 R3]].
      set (G := psub (pscale (den two) Fp1) (pmul (pmul Fp1 Fp1) Sl)) in *.
      assert (Du' : D upd = dft fk (wr C1) (ptrunc fk (2 ^ C1) G)).
      { rewrite Du, Df1. unfold sb. rewrite map_step_by, Dsn, Ecur1. exact R1. }
      destruct (IH fdeg' cur1 upd C1 (ptrunc fk (2 ^ C1) G) (m + m)%nat Ecur1 HC1 (ptrunc_length fk _ _) Ou Du')
        as [cur' [fntt' [C' [Fp' [E1 [E2 [E3 [E4 [E5 [E6 E7]]]]]]]]]].
      + unfold fdeg' in *. lia.
      + apply (deg_lt_peq fk G); [symmetry; exact R2|]. replace (Z.to_nat fdeg') with (2 * Z.to_nat fdeg + Z.to_nat sd)%nat by (unfold fdeg'; lia).
        exact R3.
      + unfold fdeg'. replace (2 * fdeg + sd + sd) with (2 * (fdeg + sd)) by ring. lia.
      + apply (newton_step fk Fp1 (D l) (ptrunc fk (2 ^ C1) G) (den two) m); [|rewrite R2; unfold G; rewrite ES; reflexivity|exact Etwo].
        apply (pmodx_peq fk m (pmul Fp (D l)) _ pone pone); [rewrite EF1; reflexivity|reflexivity|exact Pm].
      + exists cur', fntt', C', Fp'. split; [exact E1|]. split; [exact E2|]. split; [exact E3|]. split; [exact E4|].
        split; [exact E5|]. split; [exact E6|].
        replace (m * 2 ^ S k)%nat with ((m + m) * 2 ^ k)%nat by (cbn [Nat.pow]; lia). exact E7.
  Qed.

  Local Notation Hmult := (multiply_spec o fk ok den H ntt intt lmax wr ntt_is_dft intt_is_idft wr_half_root wr_nonzero two_nz).

  (* formal_power_series_inverse_newton when the NTT phase runs (switch_point < num_rounds) *)
  Theorem fpsi_newton_ntt_spec c0 cs n : okl (c0 :: cs) -> den c0 <> k0 fk -> 0 <= n -> 1 <= poly_degree o (c0 :: cs) ->
    let sd := poly_degree o (c0 :: cs) in
    let nr := Z.log2 (next_pow2 n) in
    let sp := (if FORMAL_POWER_SERIES_INVERSE_CUTOFF <? sd then 0 else Z.log2 (FORMAL_POWER_SERIES_INVERSE_CUTOFF / sd)) in
    sp < nr -> next_pow2 (2 ^ (nr + 1) * sd) <= 2 ^ Z.of_nat lmax ->
    exists g, pdiv_fpsi_newton o ntt intt (c0 :: cs) n = Some g /\ okl g /\
              pmodx (Z.to_nat n) (pmul (D (c0 :: cs)) (D g)) pone.
  Proof.
    intros Hl Nz Hn Hsd sd nr sp Hrs HB. set (l := c0 :: cs) in *. unfold pdiv_fpsi_newton. fold sd. fold nr.
    destruct (sd =? 0) eqn:E0; [apply Z.eqb_eq in E0; unfold sd in E0; lia|].
    destruct (sd <? 0) eqn:E1; [apply Z.ltb_lt in E1; unfold sd in E1; lia|].
    fold sp. change (idx l 0) with (Some c0).
    inversion Hl as [|? ? Hc0 Hcs]; subst.
    destruct (fo_inv _ _ _ _ H c0 Hc0 Nz) as [ci [Ei [Hci Dci]]]. rewrite Ei.
    destruct (fo_from _ _ _ _ H 2 ltac:(lia)) as [T1 T2]. rewrite (kofZ_2 fk) in T2.
    assert (Hsp : 0 <= sp).
    { unfold sp. destruct (FORMAL_POWER_SERIES_INVERSE_CUTOFF <? sd); [lia|apply Z.log2_nonneg]. }
    rewrite Z.min_r by lia.
    replace (nr <=? sp) with false by (symmetry; apply Z.leb_gt; exact Hrs).
    (* sizes *)
    assert (P2nr : 2 ^ (nr + 1) = 2 * 2 ^ nr) by (rewrite Z.pow_add_r by lia; lia).
    assert (Pnr : 2 ^ nr = 2 ^ sp * 2 ^ (nr - sp)) by (rewrite <- Z.pow_add_r by lia; f_equal; lia).
    assert (Psp : 1 <= 2 ^ sp) by (pose proof (Z.pow_pos_nonneg 2 sp ltac:(lia) Hsp); lia).
    assert (Pd : 1 <= 2 ^ (nr - sp)) by (pose proof (Z.pow_pos_nonneg 2 (nr - sp) ltac:(lia) ltac:(lia)); lia).
    destruct (next_pow2_spec (2 ^ (nr + 1) * sd) ltac:(unfold sd in *; nia)) as [L [N1 [N2 _]]].
    set (full := next_pow2 (2 ^ (nr + 1) * sd)) in *.
    assert (HL : (L <= lmax)%nat).
    { destruct (Nat.le_gt_cases L lmax) as [X|X]; [exact X|exfalso].
      assert (2 ^ Z.of_nat lmax < 2 ^ Z.of_nat L) by (apply Z.pow_lt_mono_r; lia). lia. }
    assert (Hlen_sp : newton_len sd (Z.to_nat sp) <= 2 ^ sp * sd).
    { rewrite newton_len_closed, Z2Nat.id by lia. unfold sd in *. nia. }
    assert (Hsp_full : 2 ^ sp * sd <= 2 ^ Z.of_nat L) by (unfold sd in *; nia).
    (* the rounds on coefficient lists *)
    assert (P0 : pmodx 1 (pmul (D [ci]) (D l)) pone).
    { intros i Hi. replace i with O by lia. unfold l. cbn [map]. rewrite coeff_pmul. cbn [ksum]. rewrite !coeff_cons_0. unfold PolySpec.pone.
      rewrite coeff_cons_0, Dci. field. exact Nz. }
    destruct (newton_std_loop_spec o fk ok den H ntt intt (2 ^ Z.of_nat lmax) Hmult l (ffrom_u64 o 2) sd Hl T1 T2 eq_refl ltac:(unfold sd; lia)
                (Z.to_nat sp) O [ci] 1%nat ltac:(constructor; [exact Hci|constructor]) ltac:(cbn; lia)
                ltac:(rewrite Nat.add_0_r; lia) P0) as [f [E [Hf [Lf Pf]]]].
    rewrite E. rewrite Nat.add_0_r in Lf. rewrite Nat.mul_1_l in Pf. fold full. rewrite N1.
    (* the transform of the divisor on the full domain *)
    destruct (pb_resize_peq o fk ok den H l (2 ^ Z.of_nat L) Hl ltac:(fold sd; unfold sd in *; nia)) as [Orl [Erl Zrl]].
    assert (Lrl : length (resize l (2 ^ Z.of_nat L) (fzero o)) = (2 ^ L)%nat).
    { apply Nat2Z.inj. rewrite pow2_Zn'. unfold zlen in Zrl. lia. }
    destruct (ntt_is_dft L _ HL Lrl Orl) as [self_ntt [Es [Osn [_ Dsn]]]]. rewrite Es.
    (* the transform of f on the first domain *)
    assert (Zf1 : 1 <= zlen f).
    { destruct f as [|f0 f']; [|rewrite pb_zlen_cons; pose proof (pb_zlen_nonneg f'); lia]. exfalso.
      specialize (Pf O ltac:(apply Nat.neq_0_lt_0, Nat.pow_nonzero; lia)). cbn [map] in Pf. rewrite coeff_pmul_nil in Pf.
      unfold PolySpec.pone in Pf. rewrite coeff_cons_0 in Pf. exact (k1_neq_0 fk (eq_sym Pf)). }
    destruct (next_pow2_spec (zlen f) Zf1) as [C [M1 [M2 _]]]. rewrite M1.
    assert (HC : (C <= L)%nat).
    { pose proof (next_pow2_le_pow (zlen f) L ltac:(lia)) as X. rewrite M1 in X.
      destruct (Nat.le_gt_cases C L) as [Y|Y]; [exact Y|exfalso].
      assert (2 ^ Z.of_nat L < 2 ^ Z.of_nat C) by (apply Z.pow_lt_mono_r; lia). lia. }
    replace (2 ^ Z.of_nat L <? 2 ^ Z.of_nat C) with false by (symmetry; apply Z.ltb_ge; apply Z.pow_le_mono_r; lia).
    rewrite (resize_pad o f _ M2).
    set (x := f ++ repeat (fzero o) (Z.to_nat (2 ^ Z.of_nat C) - length f)).
    assert (Hx : okl x).
    { apply Forall_app. split; [exact Hf|]. apply Forall_forall. intros y Hy. apply repeat_spec in Hy. subst y. exact (ok0 o fk ok den H). }
    assert (Lx : length x = (2 ^ C)%nat).
    { unfold x. rewrite app_length, repeat_length, pow2_to_nat. unfold zlen in M2. rewrite <- pow2_Zn' in M2. lia. }
    assert (Ex : peq (D x) (D f)) by (unfold x; apply (peq_D_app_zeros o fk ok den H)).
    destruct (ntt_is_dft C x ltac:(lia) Lx Hx) as [fntt [En [Ofn [_ Dfn]]]]. rewrite En.
    (* the tracked degree *)
    pose proof (degree_lt_len o f) as Df1. pose proof (degree_ge o f) as Df0.
    assert (Dfp : 0 <= poly_degree o f).
    { destruct (Z_lt_ge_dec (poly_degree o f) 0) as [X|X]; [exfalso|lia].
      apply (degree_neg_pzero o fk ok den H f Hf) in X.
      specialize (Pf O ltac:(apply Nat.neq_0_lt_0, Nat.pow_nonzero; lia)).
      rewrite (pmul_pzero_l fk (D f) (D l) X O) in Pf. unfold PolySpec.pone in Pf. rewrite coeff_cons_0 in Pf. exact (k1_neq_0 fk (eq_sym Pf)). }
    assert (DF : deg_lt (D x) (S (Z.to_nat (poly_degree o f)))).
    { apply deg_lt_pdeg. rewrite (pdeg_peq fk _ _ Ex), <- (degree_pdeg o fk ok den H f Hf). lia. }
    destruct (newton_ntt_loop_spec (c0 :: cs) (ffrom_u64 o 2) sd L self_ntt (D (resize l (2 ^ Z.of_nat L) (fzero o))) Hl T1 T2 eq_refl Hsd HL
                ltac:(rewrite map_length; exact Lrl) Erl Osn Dsn
                (Z.to_nat (nr - sp)) (poly_degree o f) (2 ^ Z.of_nat C) fntt C (D x) (2 ^ Z.to_nat sp)%nat eq_refl HC
                ltac:(rewrite map_length; exact Lx) Ofn Dfn ltac:(lia) DF)
      as [cur' [fntt' [C' [Fp' [Q1 [Q2 [Q3 [Q4 [Q5 [Q6 Q7]]]]]]]]]].
    { rewrite Z2Nat.id by lia. fold sd.
      assert (poly_degree o f + sd <= 2 ^ sp * sd) by (rewrite newton_len_closed, Z2Nat.id in Lf by lia; lia).
      transitivity (2 ^ sp * sd * 2 ^ (nr - sp)); [apply Z.mul_le_mono_nonneg_r; lia|]. unfold sd in *. nia. }
    { apply (pmodx_peq fk _ (pmul (D f) (D l)) _ pone pone); [rewrite Ex; reflexivity|reflexivity|exact Pf]. }
    fold l in Q1. rewrite Q1.
    pose proof (D_length_dft fntt' _ _ Q6) as Lf'. rewrite Q4 in Lf'.
    destruct (intt_is_idft C' fntt' ltac:(lia) Lf' Q5) as [c [Ec [Oc [Lc Dc]]]]. rewrite Ec.
    rewrite Q6, (idft_dft fk two_nz C' (wr C') Fp' Q4 (wr_half_root C' ltac:(lia)) (wr_nonzero C' ltac:(lia))) in Dc.
    eexists. split; [reflexivity|]. split; [apply Forall_app; split; [exact Oc|apply Forall_zrepeat; exact (ok0 o fk ok den H)]|].
    apply (pmodx_peq fk _ (pmul Fp' (D l)) _ pone pone); [|reflexivity|].
    { unfold zrepeat. rewrite (peq_D_app_zeros o fk ok den H), Dc. apply pmul_comm. }
    apply (pmodx_le fk (2 ^ Z.to_nat sp * 2 ^ Z.to_nat (nr - sp))); [|exact Q7].
    (* 2 ^ num_rounds = next_power_of_two(precision) >= precision *)
    rewrite <- Nat.pow_add_r. replace (Z.to_nat sp + Z.to_nat (nr - sp))%nat with (Z.to_nat nr) by lia.
    destruct (Z.eq_dec n 0) as [->|Hn0]; [cbn; lia|].
    destruct (next_pow2_spec n ltac:(lia)) as [lg [G1 [G2 _]]].
    assert (Enr : nr = Z.of_nat lg) by (unfold nr; rewrite G1; apply Z.log2_pow2; lia).
    rewrite Enr, Nat2Z.id. apply Nat2Z.inj_le. rewrite Nat2Z.inj_pow. change (Z.of_nat 2) with 2. lia.
  Qed.
End NewtonNtt.

(* ------------------------------------------------------------------ every precision, every arm (constant, coefficient rounds only, NTT rounds) *)
Section NewtonAll.
  Context {F K : Type} (o : fops F) (fk : fieldK K) (ok : F -> Prop) (den : F -> K).
  Hypothesis H : field_ok o fk ok den.
  Variable ntt : list F -> option (list F).
  Variable intt : list F -> option (list F).
  Variable lmax : nat.
  Variable wr : nat -> K.
  Hypothesis ntt_is_dft : forall l x, (l <= lmax)%nat -> length x = (2 ^ l)%nat -> Forall ok x ->
    exists y, ntt x = Some y /\ Forall ok y /\ length y = length x /\ map den y = dft fk (wr l) (map den x).
  Hypothesis intt_is_idft : forall l x, (l <= lmax)%nat -> length x = (2 ^ l)%nat -> Forall ok x ->
    exists y, intt x = Some y /\ Forall ok y /\ length y = length x /\ map den y = idft fk (wr l) (map den x).
  Hypothesis wr_half_root : forall l, (l <= lmax)%nat -> half_root fk (wr l) l.
  Hypothesis wr_nonzero : forall l, (l <= lmax)%nat -> wr l <> k0 fk.
  Hypothesis two_nz : two_neq_0 fk.
  Hypothesis wr_sq : forall l, (S l <= lmax)%nat -> kmul fk (wr (S l)) (wr (S l)) = wr l.
  Hypothesis Hlmax : (2 <= lmax)%nat.
  Local Notation D := (map den).
  Local Notation okl := (Forall ok).

  Lemma pow2_log2_next_pow2 n : 2 ^ Z.log2 (next_pow2 n) = next_pow2 n.
  Proof.
    destruct (Z_le_gt_dec n 0) as [L0|G0].
    - unfold next_pow2. replace (n <=? 1) with true by (symmetry; apply Z.leb_le; lia). reflexivity.
    - destruct (next_pow2_spec n ltac:(lia)) as [lg [G1 _]]. rewrite G1, Z.log2_pow2 by lia. reflexivity.
  Qed.

  Theorem fpsi_newton_full_spec c0 cs n : okl (c0 :: cs) -> den c0 <> k0 fk -> 0 <= n ->
    n * Z.max 1 (poly_degree o (c0 :: cs)) <= 2 ^ Z.of_nat (lmax - 2) ->
    exists g, pdiv_fpsi_newton o ntt intt (c0 :: cs) n = Some g /\ okl g /\
              pmodx fk (Z.to_nat n) (pmul fk (D (c0 :: cs)) (D g)) (pone fk).
  Proof.
    intros Hl Nz Hn HB. set (l := c0 :: cs) in *.
    assert (E4 : 2 ^ Z.of_nat lmax = 4 * 2 ^ Z.of_nat (lmax - 2)).
    { replace (Z.of_nat lmax) with (2 + Z.of_nat (lmax - 2)) by lia. rewrite Z.pow_add_r by lia. reflexivity. }
    assert (P2 : 1 <= 2 ^ Z.of_nat (lmax - 2)) by (pose proof (Z.pow_pos_nonneg 2 (Z.of_nat (lmax - 2)) ltac:(lia) ltac:(lia)); lia).
    assert (Dl : 0 <= poly_degree o l).
    { destruct (Z_lt_ge_dec (poly_degree o l) 0) as [X|X]; [exfalso|lia].
      apply (degree_neg_pzero o fk ok den H l Hl) in X. apply Nz. exact (X O). }
    destruct (Z.eq_dec (poly_degree o l) 0) as [E0|E0].
    - destruct (fpsi_newton_constant o fk ok den H ntt intt l n Hl E0) as [g [E [Og Pg]]]. exists g. split; [exact E|]. split; [exact Og|].
      intros i _. apply (peq_elim fk _ _ Pg).
    - assert (Hsd : 1 <= poly_degree o l) by lia. rewrite Z.max_r in HB by lia.
      set (sd := poly_degree o l) in *. set (nr := Z.log2 (next_pow2 n)).
      set (sp := if FORMAL_POWER_SERIES_INVERSE_CUTOFF <? sd then 0 else Z.log2 (FORMAL_POWER_SERIES_INVERSE_CUTOFF / sd)).
      assert (Hnr : 0 <= nr) by apply Z.log2_nonneg.
      assert (EN : 2 ^ nr = next_pow2 n) by apply pow2_log2_next_pow2.
      destruct (Z_le_gt_dec nr sp) as [Lrs|Grs].
      + apply (fpsi_newton_std_dft o fk ok den H ntt intt lmax wr ntt_is_dft intt_is_idft wr_half_root wr_nonzero two_nz c0 cs n Hl Nz Hn Hsd Lrs).
        fold l. fold sd. fold nr. rewrite newton_len_closed, Z2Nat.id by lia. rewrite EN.
        destruct (Z_le_gt_dec n 1) as [L1|G1].
        * unfold next_pow2. replace (n <=? 1) with true by (symmetry; apply Z.leb_le; lia). lia.
        * pose proof (PolyDeepenDiv_next_pow2_lt_double n ltac:(lia)) as X. nia.
      + apply (fpsi_newton_ntt_spec o fk ok den H ntt intt lmax wr ntt_is_dft intt_is_idft wr_half_root wr_nonzero two_nz wr_sq c0 cs n Hl Nz Hn Hsd (Z.gt_lt _ _ Grs)).
        fold l. fold sd. fold nr. apply next_pow2_le_pow. rewrite Z.pow_add_r, EN by lia.
        assert (G1 : 2 <= n).
        { destruct (Z_le_gt_dec n 1) as [L1|G1]; [|lia]. exfalso. unfold nr, next_pow2 in Grs.
          replace (n <=? 1) with true in Grs by (symmetry; apply Z.leb_le; lia). change (Z.log2 1) with 0 in Grs.
          unfold sp in Grs. destruct (FORMAL_POWER_SERIES_INVERSE_CUTOFF <? sd); [lia|]. pose proof (Z.log2_nonneg (FORMAL_POWER_SERIES_INVERSE_CUTOFF / sd)). lia. }
        pose proof (PolyDeepenDiv_next_pow2_lt_double n G1) as X. nia.
  Qed.
End NewtonAll.

(* ------------------------------------------------------------------ Polynomial<BFieldElement> *)
From TF Require Import BFieldProofs BFieldOk NttRoots NttProofs PolyValueSem.
(* the regenerated root table is compatible: root(2^(l+1))^2 = root(2^l), l = 0 .. 31 (checked on the Montgomery words) *)
Definition root_sq_check (l : nat) : bool :=
  match primitive_root_of_unity (2 ^ Z.of_nat (S l)), primitive_root_of_unity (2 ^ Z.of_nat l) with
  | Some a, Some b => bfe_mul a a =? b
  | _, _ => false
  end.
Lemma roots_table_squares : forallb root_sq_check (seq 0 32) = true.
Proof. vm_compute. reflexivity. Qed.
Lemma bfe_wr_sq l : (S l <= 32)%nat -> kmul fp_field (wr_b (S l)) (wr_b (S l)) = wr_b l.
Proof.
  intros Hl. pose proof roots_table_squares as T. rewrite forallb_forall in T.
  specialize (T l ltac:(apply in_seq; lia)). unfold root_sq_check in T. unfold wr_b.
  destruct (primitive_root_of_unity (2 ^ Z.of_nat (S l))) as [a|] eqn:Ea; [|discriminate].
  destruct (primitive_root_of_unity (2 ^ Z.of_nat l)) as [b|] eqn:Eb; [|discriminate].
  apply Z.eqb_eq in T. subst b.
  destruct (roots_exact_order (S l) a Hl Ea) as [Ca _].
  symmetry. exact (proj2 (fo_mul _ _ _ _ bfe_field_ok a a Ca Ca)).
Qed.

Theorem bfe_fpsi_newton l n : Forall canon l -> 0 <= n -> n * Z.max 1 (poly_degree bfe_ops l) <= 2 ^ 29 ->
  (exists c0 cs, l = c0 :: cs /\ bden c0 <> k0 fp_field) ->
  exists g, pdiv_fpsi_newton bfe_ops ntt_b intt_b l n = Some g /\ Forall canon g /\
            pmodx fp_field (Z.to_nat n) (pmul fp_field (map bden l) (map bden g)) (pone fp_field).
Proof.
  intros Hl Hn HB [c0 [cs [-> Nz]]].
  exact (fpsi_newton_full_spec bfe_ops fp_field canon bden bfe_field_ok ntt_b intt_b 31 wr_b ntt_b_hyp intt_b_hyp wr_b_half wr_b_nonzero
           fp_two_neq_0 (fun l Hl => bfe_wr_sq l (Nat.le_trans _ _ _ Hl (proj1 (Nat.leb_le 31 32) eq_refl)))
           (proj1 (Nat.leb_le 2 31) eq_refl) c0 cs n Hl Nz Hn HB).
Qed.

(* ------------------------------------------------------------------ the bound of the statement is sharp up to the factor 2:
   C09_fpsi_newton_full (props/C09.v) asks for precision * degree < 2^30.  That admits inputs whose full evaluation domain
   next_power_of_two(2^(num_rounds+1) * degree) is 2^32, and `ntt` rejects slices of 2^32 elements
   (`u32::try_from(x.len()).expect(..)`): the function panics.  Witness: degree 1023, precision 2^20 + 1. *)
Lemma zlen_resize {A} (l : list A) n x : 0 <= n -> zlen (resize l n x) = n.
Proof. intros Hn. unfold resize. rewrite pb_zlen_app, pb_zlen_take, pb_zlen_zrepeat. pose proof (pb_zlen_nonneg l). lia. Qed.
Lemma ntt_b_rejects_2_32 (x : list Z) : zlen x = 2 ^ 32 -> ntt_b x = None.
Proof.
  intros Hx. unfold ntt_b, ntt, prologue. change (Z.of_nat (length x)) with (zlen x). rewrite Hx. reflexivity.
Qed.
Lemma fpsi_newton_panics_when_ntt_rejects {F} (o : fops F) ntt intt l n c ci :
  FORMAL_POWER_SERIES_INVERSE_CUTOFF < poly_degree o l -> idx l 0 = Some c -> finv o c = Some ci ->
  0 < Z.log2 (next_pow2 n) ->
  (forall x, zlen x = next_pow2 (2 ^ (Z.log2 (next_pow2 n) + 1) * poly_degree o l) -> ntt x = None) ->
  pdiv_fpsi_newton o ntt intt l n = None.
Proof.
  intros Hsd Ei Ec Hnr Hntt. unfold pdiv_fpsi_newton. unfold FORMAL_POWER_SERIES_INVERSE_CUTOFF in *.
  replace (poly_degree o l =? 0) with false by (symmetry; apply Z.eqb_neq; lia).
  replace (poly_degree o l <? 0) with false by (symmetry; apply Z.ltb_ge; lia).
  replace (256 <? poly_degree o l) with true by (symmetry; apply Z.ltb_lt; lia).
  rewrite Ei, Ec. rewrite Z.min_r by lia. change (Z.to_nat 0) with O. cbn [pdiv_newton_std_loop].
  replace (Z.log2 (next_pow2 n) <=? 0) with false by (symmetry; apply Z.leb_gt; lia).
  rewrite Hntt; [reflexivity|]. apply zlen_resize.
  pose proof (next_pow2_ge (2 ^ (Z.log2 (next_pow2 n) + 1) * poly_degree o l)).
  pose proof (Z.pow_pos_nonneg 2 (Z.log2 (next_pow2 n) + 1) ltac:(lia) ltac:(lia)). nia.
Qed.
Definition newton_w_poly : list Z := bfe_one :: repeat bfe_zero 1022 ++ [bfe_one].      (* 1 + X^1023 *)
Definition newton_w_precision : Z := 2 ^ 20 + 1.
Theorem fpsi_newton_panics_at_full_domain_2_32 :
  Forall canon newton_w_poly /\ 0 <= newton_w_precision /\
  newton_w_precision * Z.max 1 (poly_degree bfe_ops newton_w_poly) < 2 ^ 30 /\
  (exists c0 cs, newton_w_poly = c0 :: cs /\ bden c0 <> k0 fp_field) /\
  pdiv_fpsi_newton bfe_ops ntt_b intt_b newton_w_poly newton_w_precision = None.
Proof.
  assert (Ed : poly_degree bfe_ops newton_w_poly = 1023) by (vm_compute; reflexivity).
  assert (C1 : canon bfe_one) by (split; vm_compute; [discriminate|reflexivity]).
  assert (C0 : canon bfe_zero) by (split; vm_compute; [discriminate|reflexivity]).
  assert (D1 : bden bfe_one = k1 fp_field) by exact (proj2 (fo_one _ _ _ _ bfe_field_ok)).
  split; [|split; [|split; [|split]]].
  - unfold newton_w_poly. constructor; [exact C1|]. apply Forall_app. split; [|constructor; [exact C1|constructor]].
    apply Forall_forall. intros y Hy. apply repeat_spec in Hy. subst y. exact C0.
  - vm_compute. discriminate.
  - rewrite Ed. vm_compute. reflexivity.
  - exists bfe_one, (repeat bfe_zero 1022 ++ [bfe_one]). split; [reflexivity|].
    rewrite D1. exact (k1_neq_0 fp_field).
  - destruct (fo_inv _ _ _ _ bfe_field_ok bfe_one C1) as [ci [Ei _]].
    { rewrite D1. exact (k1_neq_0 fp_field). }
    apply (fpsi_newton_panics_when_ntt_rejects bfe_ops ntt_b intt_b newton_w_poly newton_w_precision bfe_one ci).
    + rewrite Ed. vm_compute. reflexivity.
    + reflexivity.
    + exact Ei.
    + vm_compute. reflexivity.
    + rewrite Ed. intros x Hx. apply ntt_b_rejects_2_32. rewrite Hx. vm_compute. reflexivity.
Qed.
