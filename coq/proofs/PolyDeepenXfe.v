(* proofs/PolyDeepenXfe.v - the C08 strategies for Polynomial<XFieldElement>, nothing assumed.
   k3_field = Fp[X]/(X^3 - X + 1), canon3 / denX: proofs/XFieldOk.v (xfe_field_ok); the transforms over the extension field:
   proofs/XFieldNtt.v, XFieldPoly.v; base-field scalars (offsets, roots) denote through bden3 = iota o bden (bfe_field_ok3).
   Everything is an instance of the generic theorems of PolyDeepenDiv / PolyDeepenInterp / PolyDeepenFmci / PolyDeepenBary. *)
From Coq Require Import ZArith Lia List Bool.
From TF Require Import Word BFieldGen BField XField FieldOps FieldTheory PolyGen PolyCore PolySpec Ntt PolyDiv PolyInterp
  PolyInterpAlg PolyInterpBase Dft NttDft PolyCoreProofs PolyC07Wrap PolyDivProofs PolyInterpProofs
  BFieldProofs BFieldOk NttRoots NttProofs PolyValueSem XFieldProofs XFieldOk XFieldNtt XFieldPoly
  PolyDeepenDiv PolyDeepenInterp PolyDeepenNewton PolyDeepenFmci PolyDeepenBary.
Import ListNotations.
Open Scope Z_scope.

Local Notation okx := (Forall canon3).
Local Notation Dx := (map denX).

(* ------------------------------------------------------------------ the hypotheses of the generic theorems *)
Lemma xfe_mul_exact : mul_exact xfe_ops k3_field canon3 denX ntt_x intt_x (2 ^ 31).
Proof. intros a b Ha Hb Hs. exact (xfe_multiply_spec a b Ha Hb Hs). Qed.
Lemma xfe_mul_exact_MB : mul_exact xfe_ops k3_field canon3 denX ntt_x intt_x BFE_MB.
Proof. apply (mul_exact_mono _ _ _ _ _ _ (2 ^ 31)); [vm_compute; discriminate|exact xfe_mul_exact]. Qed.
Lemma xfe_pbm_exact : pbm_exact xfe_ops k3_field canon3 denX ntt_x intt_x (2 ^ 31).
Proof. intros nt fs Hnt Hfs Hs. exact (xfe_par_batch_multiply_spec nt fs Hnt Hfs Hs). Qed.
Lemma xfe_red_exact_b : red_exact_b xfe_ops k3_field canon3 denX ntt_x intt_x BFE_MB.
Proof.
  exact (red_exact_of_c09 xfe_ops k3_field canon3 denX xfe_field_ok ntt_x intt_x 31 wr_x xfe_ntt_ok xfe_intt_ok xfe_roots_ok
           (proj1 (Nat.leb_le 9 31) eq_refl) BFE_MB bfe_MB_ok).
Qed.
Lemma xfe_fred_exact_b : fred_exact_b xfe_ops k3_field canon3 denX ntt_x intt_x BFE_MB.
Proof.
  exact (fred_exact_of_c09 xfe_ops k3_field canon3 denX xfe_field_ok ntt_x intt_x 31 wr_x xfe_ntt_ok xfe_intt_ok xfe_roots_ok
           (proj1 (Nat.leb_le 9 31) eq_refl) BFE_MB bfe_MB_ok).
Qed.
Lemma xfe_rbnf_exact_b : rbnf_exact_b xfe_ops k3_field canon3 denX ntt_x intt_x BFE_MB.
Proof.
  exact (rbnf_exact_of_c09 xfe_ops k3_field canon3 denX xfe_field_ok ntt_x intt_x 31 wr_x xfe_ntt_ok xfe_intt_ok xfe_roots_ok
           (proj1 (Nat.leb_le 9 31) eq_refl) BFE_MB bfe_MB_ok).
Qed.
Lemma xfe_red_rem_b : red_rem_b xfe_ops k3_field canon3 denX ntt_x intt_x BFE_MB.
Proof.
  intros a m Ha Hm NZ Hd.
  apply (pint_reduce_is_rem xfe_ops k3_field canon3 denX xfe_field_ok ntt_x intt_x 31 wr_x xfe_ntt_ok xfe_intt_ok xfe_roots_ok
           (proj1 (Nat.leb_le 9 31) eq_refl) a m Ha Hm NZ).
  pose proof bfe_MB_ok. lia.
Qed.
Lemma xfe_fits (l : list xfe) : Z.of_nat (length l) <= 2 ^ 29 -> fits BFE_MB l.
Proof. unfold fits, BFE_MB. intros Hl. exact (proj1 (Z.add_le_mono_r _ _ 1) Hl). Qed.

(* base-field scalars inside the extension field *)
Lemma bden3_lift b : canon b -> bden3 (bfe_new (bfe_value b)) = bden3 b.
Proof. intros Cb. unfold bden3. f_equal. exact (proj2 (bfe_lift_ok b Cb)). Qed.
Lemma xfe_lift_ok : lift_ok xfe_ops canon3 denX bden3.
Proof.
  intros b Cb. unfold pint_lift.
  assert (Hv : 0 <= bfe_value b < 2 ^ 64).
  { assert (Hb : 0 <= b < 2 ^ 64) by (destruct Cb as [C1 C2]; split; [exact C1|eapply Z.lt_trans; [exact C2|reflexivity]]).
    destruct (value_spec b Hb) as [Ev _]. pose proof (val_range b) as Hr. rewrite Ev. destruct Hr as [R1 R2]. split; [exact R1|].
    eapply Z.lt_trans; [exact R2|reflexivity]. }
  destruct (fo_from _ _ _ _ xfe_field_ok _ Hv) as [O1 E1]. split; [exact O1|].
  rewrite E1, <- (bden3_lift b Cb). symmetry. exact (proj2 (fo_from _ _ _ _ bfe_field_ok3 _ Hv)).
Qed.
Lemma xfe_binv_ok : binv_ok k3_field bden3.
Proof. intros b Cb Nz. destruct (fo_inv _ _ _ _ bfe_field_ok3 b Cb Nz) as [y [E [Cy Dy]]]. exists y. split; [exact E|]. split; assumption. Qed.
Lemma xfe_act_ok : act_ok k3_field canon3 denX xb_act bden3.
Proof. intros x b Ox Cb. exact (mul_xb_ok x b Ox Cb). Qed.
Lemma xfe_root_ok : root_ok 31 wr_x bden3.
Proof.
  intros l Hl. destruct (root_exists l ltac:(lia)) as [w W]. exists w. split; [exact W|].
  split; [exact (proj1 (roots_exact_order l w ltac:(lia) W))|]. unfold wr_x. rewrite W. reflexivity.
Qed.
Lemma xfe_wr_sq l : (S l <= 31)%nat -> kmul k3_field (wr_x (S l)) (wr_x (S l)) = wr_x l.
Proof.
  intros Hl. pose proof (bfe_wr_sq l ltac:(lia)) as E. unfold wr_b in E. unfold wr_x.
  destruct (root_exists (S l) ltac:(lia)) as [a Ea]. destruct (root_exists l ltac:(lia)) as [b Eb]. rewrite Ea, Eb in *.
  unfold bden3. rewrite <- iota_mul, E. reflexivity.
Qed.
Lemma xfe_bmul_ok : bmul_ok k3_field bden3.
Proof. intros a b Ca Cb. exact (fo_mul _ _ _ _ bfe_field_ok3 a b Ca Cb). Qed.
Lemma xfe_bpow_ok : bpow_ok k3_field bden3.
Proof. intros b e Cb He. exact (fo_pow _ _ _ _ bfe_field_ok3 b e Cb He). Qed.
Lemma xfe_m2i_ok : m2i_ok k3_field.
Proof.
  unfold m2i_ok. rewrite <- iota_kofZ, <- iota_1, <- iota_add, <- iota_opp, <- iota_mul. f_equal. exact bfe_m2i_ok.
Qed.
Lemma xfe_slift_ok : slift_ok canon3 denX xb_act bden3.
Proof.
  intros b Cb. cbn [slift xb_act].
  destruct (XFieldOk.denX_xlift b Cb) as [C E]. split; [exact C|exact E].
Qed.

(* ------------------------------------------------------------------ the theorems *)
Local Notation H3 := xfe_field_ok.
Theorem xfe_zerofier rs : okx rs -> Z.of_nat (length rs) + 1 <= 2 ^ 31 ->
  exists z, pint_zerofier xfe_ops ntt_x intt_x rs = Some z /\ okx z /\ length z = S (length rs) /\
            peq k3_field (Dx z) (zspec k3_field (Dx rs)).
Proof. exact (zerofier_spec xfe_ops k3_field canon3 denX H3 ntt_x intt_x (2 ^ 31) xfe_mul_exact rs). Qed.
Theorem xfe_tree_zerofier dom : okx dom -> Z.of_nat (length dom) + 1 <= 2 ^ 31 ->
  exists t, pint_tree_new_from_domain xfe_ops ntt_x intt_x dom = Some t /\ okx (pint_tree_zerofier xfe_ops t) /\
            peq k3_field (Dx (pint_tree_zerofier xfe_ops t)) (zspec k3_field (Dx dom)).
Proof. exact (tree_zerofier_spec xfe_ops k3_field canon3 denX H3 ntt_x intt_x (2 ^ 31) xfe_mul_exact dom). Qed.
Theorem xfe_par_zerofier nt rs : 1 <= nt -> okx rs -> 2 * Z.of_nat (length rs) <= 2 ^ 31 ->
  exists z, pint_par_zerofier xfe_ops ntt_x intt_x nt rs = Some z /\ okx z /\ peq k3_field (Dx z) (zspec k3_field (Dx rs)).
Proof. exact (par_zerofier_spec xfe_ops k3_field canon3 denX H3 ntt_x intt_x (2 ^ 31) xfe_mul_exact xfe_pbm_exact nt rs). Qed.
Theorem xfe_lagrange_interpolate dbg domain values : okx domain -> okx values -> NoDup (Dx domain) -> length values = length domain ->
  domain <> [] -> Z.of_nat (length domain) + 1 <= 2 ^ 31 ->
  exists r, pint_lagrange_interpolate xfe_ops ntt_x intt_x dbg domain values = Some r /\ okx r /\ length r = length domain /\
            interpolates k3_field (Dx domain) (Dx values) (Dx r).
Proof. exact (lagrange_interpolate_spec xfe_ops k3_field canon3 denX H3 ntt_x intt_x (2 ^ 31) xfe_mul_exact dbg domain values). Qed.

Theorem xfe_batch_evaluate p dom : okx p -> okx dom -> Z.of_nat (length dom) <= 2 ^ 29 ->
  exists vs, pint_batch_evaluate xfe_ops ntt_x intt_x p dom = Some vs /\ okx vs /\ Dx vs = map (peval k3_field (Dx p)) (Dx dom).
Proof.
  intros Hp Hd Hs.
  exact (batch_evaluate_spec_b xfe_ops k3_field canon3 denX H3 ntt_x intt_x BFE_MB xfe_mul_exact_MB xfe_red_exact_b xfe_fred_exact_b
           p dom Hp Hd (xfe_fits dom Hs)).
Qed.
Theorem xfe_par_batch_evaluate nt p dom : 1 <= nt -> okx p -> okx dom -> Z.of_nat (length dom) <= 2 ^ 29 ->
  exists vs, pint_par_batch_evaluate xfe_ops ntt_x intt_x nt p dom = Some vs /\ okx vs /\ Dx vs = map (peval k3_field (Dx p)) (Dx dom).
Proof.
  intros Hnt Hp Hd Hs.
  exact (par_batch_evaluate_spec_b xfe_ops k3_field canon3 denX H3 ntt_x intt_x BFE_MB xfe_mul_exact_MB xfe_red_exact_b xfe_fred_exact_b
           nt p dom Hnt Hp Hd (xfe_fits dom Hs)).
Qed.
Theorem xfe_interpolate dbg domain values : okx domain -> okx values -> NoDup (Dx domain) -> length values = length domain ->
  domain <> [] -> Z.of_nat (length domain) <= 2 ^ 29 ->
  exists r, pint_interpolate xfe_ops ntt_x intt_x dbg domain values = Some r /\ okx r /\
            interpolates k3_field (Dx domain) (Dx values) (Dx r).
Proof.
  intros Hd Hv Hnd Lv Hne Hs.
  exact (interpolate_spec_b xfe_ops k3_field canon3 denX H3 ntt_x intt_x BFE_MB xfe_mul_exact_MB xfe_red_exact_b xfe_fred_exact_b
           dbg domain values Hd Hv Hnd Lv Hne (xfe_fits domain Hs)).
Qed.
Theorem xfe_fast_interpolate dbg domain values : okx domain -> okx values -> NoDup (Dx domain) -> length values = length domain ->
  domain <> [] -> Z.of_nat (length domain) <= 2 ^ 29 ->
  exists r, pint_fast_interpolate xfe_ops ntt_x intt_x dbg domain values = Some r /\ okx r /\
            interpolates k3_field (Dx domain) (Dx values) (Dx r).
Proof.
  intros Hd Hv Hnd Lv Hne Hs.
  exact (fast_interpolate_spec_b xfe_ops k3_field canon3 denX H3 ntt_x intt_x BFE_MB xfe_mul_exact_MB xfe_red_exact_b xfe_fred_exact_b
           dbg domain values Hd Hv Hnd Lv Hne (xfe_fits domain Hs)).
Qed.
Theorem xfe_par_interpolate dbg nt domain values : 1 <= nt -> okx domain -> okx values -> NoDup (Dx domain) ->
  length values = length domain -> domain <> [] -> Z.of_nat (length domain) <= 2 ^ 29 ->
  exists r, pint_par_interpolate xfe_ops ntt_x intt_x dbg nt domain values = Some r /\ okx r /\
            interpolates k3_field (Dx domain) (Dx values) (Dx r).
Proof.
  intros Hnt Hd Hv Hnd Lv Hne Hs.
  exact (par_interpolate_spec_b xfe_ops k3_field canon3 denX H3 ntt_x intt_x BFE_MB xfe_mul_exact_MB xfe_red_exact_b xfe_fred_exact_b
           dbg nt domain values Hnt Hd Hv Hnd Lv Hne (xfe_fits domain Hs)).
Qed.
Theorem xfe_par_fast_interpolate dbg nt domain values : 1 <= nt -> okx domain -> okx values -> NoDup (Dx domain) ->
  length values = length domain -> domain <> [] -> Z.of_nat (length domain) <= 2 ^ 29 ->
  exists r, pint_par_fast_interpolate xfe_ops ntt_x intt_x dbg nt domain values = Some r /\ okx r /\
            interpolates k3_field (Dx domain) (Dx values) (Dx r).
Proof.
  intros Hnt Hd Hv Hnd Lv Hne Hs.
  exact (par_fast_interpolate_spec_b xfe_ops k3_field canon3 denX H3 ntt_x intt_x BFE_MB xfe_mul_exact_MB xfe_red_exact_b xfe_fred_exact_b
           dbg nt domain values Hnt Hd Hv Hnd Lv Hne (xfe_fits domain Hs)).
Qed.
Theorem xfe_batch_fast_interpolate dbg domain matrix root order : okx domain -> domain <> [] -> NoDup (Dx domain) ->
  Z.of_nat (length domain) <= 2 ^ 29 -> Forall (fun v => okx v /\ length v = length domain) matrix ->
  (dbg = true -> mod_pow root (order mod 2 ^ 32) = bfe_one) ->
  exists rs, pint_batch_fast_interpolate xfe_ops ntt_x intt_x dbg domain matrix root order = Some rs /\
             Forall2 (fun v r => okx r /\ interpolates k3_field (Dx domain) (Dx v) (Dx r)) matrix rs.
Proof.
  intros Hd Hne Hnd Hs Hm Hr.
  exact (batch_fast_interpolate_spec_b xfe_ops k3_field canon3 denX H3 ntt_x intt_x BFE_MB xfe_mul_exact_MB xfe_red_exact_b xfe_fred_exact_b
           dbg domain matrix root order Hd Hne Hnd (xfe_fits domain Hs) Hm Hr).
Qed.

(* coset routines: offsets and roots are base-field elements (bden3), codewords and points extension-field elements *)
Theorem xfe_fmci_exact dbg : fmci_exact_b xfe_ops k3_field canon3 denX ntt_x intt_x BFE_MB xb_act 31 wr_x bden3 dbg.
Proof.
  apply (fmci_exact_all xfe_ops k3_field canon3 denX H3 ntt_x intt_x (2 ^ 31) BFE_MB).
  - vm_compute. discriminate.
  - vm_compute. discriminate.
  - exact xfe_mul_exact.
  - exact xfe_red_rem_b.
  - exact xfe_rbnf_exact_b.
  - exact xfe_intt_ok.
  - exact xfe_roots_ok.
  - exact xfe_lift_ok.
  - exact xfe_binv_ok.
  - exact xfe_act_ok.
  - exact xfe_root_ok.
  - exact xfe_wr_sq.
  - exact xfe_bmul_ok.
  - exact xfe_bpow_ok.
  - exact xfe_m2i_ok.
  - apply Nat.leb_le. reflexivity.
Qed.
Theorem xfe_fast_modular_coset_interpolate dbg l offset cw m : (l <= 31)%nat -> canon offset -> bden3 offset <> k0 k3_field -> okx cw ->
  length cw = (2 ^ l)%nat -> okx m -> ~ pzero k3_field (Dx m) -> poly_degree xfe_ops m <= 2 ^ 29 ->
  exists r, pint_fast_modular_coset_interpolate xfe_ops xb_act ntt_x intt_x dbg cw offset m = Some r /\ okx r /\
            forall ip, interpolates k3_field (coset_points k3_field wr_x (bden3 offset) l) (Dx cw) ip -> congruent k3_field ip (Dx m) (Dx r).
Proof.
  intros Hl Co Nz Hcw Lcw Om NZ Hd. apply (xfe_fmci_exact dbg l offset cw m Hl Co Nz Hcw Lcw Om NZ). unfold BFE_MB. lia.
Qed.
Theorem xfe_coset_extrapolate dbg l offset cw pts : (l <= 31)%nat -> canon offset -> bden3 offset <> k0 k3_field -> okx cw ->
  length cw = (2 ^ l)%nat -> okx pts -> Z.of_nat (length pts) <= 2 ^ 29 ->
  exists vs, pint_coset_extrapolate xfe_ops xb_act ntt_x intt_x dbg offset cw pts = Some vs /\ okx vs /\
             extrapolation_of k3_field denX wr_x bden3 offset l cw pts vs.
Proof.
  intros Hl Co Hnz Hcw Lcw Hp Hs.
  exact (coset_extrapolate_spec_b xfe_ops k3_field canon3 denX H3 ntt_x intt_x BFE_MB xb_act 31 wr_x xfe_mul_exact_MB xfe_red_exact_b
           xfe_fred_exact_b xfe_intt_ok xfe_roots_ok bden3 xfe_lift_ok xfe_binv_ok dbg (xfe_fmci_exact dbg) l offset cw pts Hl Co Hnz Hcw Lcw Hp
           (xfe_fits pts Hs)).
Qed.
Theorem xfe_batch_coset_extrapolate dbg l offset cws pts : (l <= 31)%nat -> canon offset -> bden3 offset <> k0 k3_field -> okx cws ->
  okx pts -> Z.of_nat (length pts) <= 2 ^ 29 ->
  exists vs, pint_batch_coset_extrapolate xfe_ops xb_act ntt_x intt_x dbg offset (2 ^ Z.of_nat l) cws pts = Some vs /\
             pint_par_batch_coset_extrapolate xfe_ops xb_act ntt_x intt_x dbg offset (2 ^ Z.of_nat l) cws pts = Some vs /\ okx vs /\
             batch_extrapolation_of k3_field denX wr_x bden3 offset l (2 ^ Z.of_nat l) cws pts vs.
Proof.
  intros Hl Co Hnz Hc Hp Hs.
  apply (batch_coset_extrapolate_spec_b xfe_ops k3_field canon3 denX H3 ntt_x intt_x BFE_MB xb_act 31 wr_x xfe_mul_exact_MB xfe_red_exact_b
           xfe_intt_ok xfe_roots_ok bden3 xfe_lift_ok xfe_binv_ok dbg (xfe_fmci_exact dbg) xfe_rbnf_exact_b l offset cws pts Hl Co Hnz Hc Hp (xfe_fits pts Hs)).
  destruct (tree_zerofier_spec xfe_ops k3_field canon3 denX H3 ntt_x intt_x BFE_MB xfe_mul_exact_MB pts Hp (xfe_fits pts Hs)) as [t [Et [Oz Pz]]].
  rewrite Et.
  apply (preprocess_total xfe_ops k3_field canon3 denX H3 ntt_x intt_x (2 ^ 31) BFE_MB ltac:(vm_compute; discriminate) ltac:(vm_compute; discriminate)
           31 wr_x bden3 xfe_mul_exact xfe_red_rem_b xfe_rbnf_exact_b xfe_roots_ok xfe_lift_ok xfe_binv_ok xfe_root_ok xfe_wr_sq
           xfe_bmul_ok xfe_bpow_ok ltac:(apply Nat.leb_le; reflexivity) l offset _ Hl Co Hnz Oz (zerofier_not_pzero k3_field denX _ _ Pz)).
  rewrite (zerofier_degree xfe_ops k3_field canon3 denX H3 _ _ Oz Pz), map_length. unfold BFE_MB. lia.
Qed.
Theorem xfe_barycentric_evaluate l cw x : (l <= 31)%nat -> okx cw -> length cw = (2 ^ l)%nat -> canon3 x ->
  ~ In (denX x) (coset_points k3_field wr_x (k1 k3_field) l) ->
  exists r, pint_barycentric_evaluate xfe_ops xb_act cw x = Some r /\ canon3 r /\
            forall ip, interpolates k3_field (coset_points k3_field wr_x (k1 k3_field) l) (Dx cw) ip -> denX r = peval k3_field ip (denX x).
Proof.
  exact (barycentric_evaluate_spec xfe_ops k3_field canon3 denX H3 xb_act 31 wr_x bden3 xfe_roots_ok xfe_act_ok xfe_root_ok
           xfe_slift_ok xfe_bmul_ok (fo_one _ _ _ _ bfe_field_ok3) l cw x).
Qed.

(* C09: formal_power_series_inverse_newton over the extension field, every precision *)
Theorem xfe_fpsi_newton l n : okx l -> 0 <= n -> n * Z.max 1 (poly_degree xfe_ops l) <= 2 ^ 29 ->
  (exists c0 cs, l = c0 :: cs /\ denX c0 <> k0 k3_field) ->
  exists g, pdiv_fpsi_newton xfe_ops ntt_x intt_x l n = Some g /\ okx g /\
            pmodx k3_field (Z.to_nat n) (pmul k3_field (Dx l) (Dx g)) (pone k3_field).
Proof.
  intros Hl Hn HB [c0 [cs [-> Nz]]]. destruct xfe_roots_ok as [R1 [R2 R3]].
  exact (fpsi_newton_full_spec xfe_ops k3_field canon3 denX xfe_field_ok ntt_x intt_x 31 wr_x xfe_ntt_ok xfe_intt_ok R1 R2 R3 xfe_wr_sq
           (proj1 (Nat.leb_le 2 31) eq_refl) c0 cs n Hl Nz Hn HB).
Qed.
